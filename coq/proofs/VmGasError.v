(* C17: running out of gas is an execution error that is always listed.

   Invariant of the VM model along every run, for every program, configuration (either error mode) and folding function:
   every entry (ip, gas) of the retirement log whose gas account exceeds the gas limit has a GasLimitExceeded error listed at
   that instruction.  The log is what hook H3 makes the implementation print; the C17 check evaluates this very predicate on
   the implementation's own log and error list (code 40). *)
From Coq Require Import Permutation.
From SLX Require Import Base gen.Constants gen.ValueSig gen.OpcodeTable SymVal Micro gen.OpcodeSem Disasm VM proofs.VmBounds proofs.VmErrors.
Open Scope N_scope.

Section Gas.
Variable fold : sv -> sv.

Definition gas_listed (m : vm) : Prop :=
  forall ip g, In (ip, g) (v_retired m) -> (gas_limit (v_cfg m) <? g) = true -> In (ip, EGasLimitExceeded) (v_errors m).

Lemma advance_retired m t rest forked x :
  In x (v_retired (advance m t rest forked)) -> In x (v_retired m) \/ x = (tip t, tgas t).
Proof.
  unfold advance.
  destruct ((N.of_nat (length (v_code m)) <=? tip t + 1) || (iter_limit (v_cfg m) <=? count_of (tip t + 1) (tvis t))
            || (gas_limit (v_cfg m) <? tgas t) || v_killed m); cbn [v_retired]; [|auto].
  rewrite in_app_iff. cbn [In]. intuition.
Qed.

Lemma step_retired m m' :
  vm_step fold m = SRunning m' ->
  exists t i c3 err serr k jt',
    step_parts fold m = Some (t, i, (c3, err, serr, k, jt')) /\
    forall x, In x (v_retired m') -> In x (v_retired m) \/ x = (ip_after t k, gas_after t i err).
Proof.
  unfold vm_step, step_parts.
  destruct (v_queue m) as [|t rest] eqn:Eq; [discriminate|].
  destruct (nth_error (v_code m) (N.to_nat (tip t))) as [i|] eqn:Ei; [|discriminate].
  destruct (if v_counter m mod poll_every (v_cfg m) =? 0 then _ else _) as [stopped c1].
  destruct stopped; [discriminate|].
  destruct (exec_instr fold (v_cfg m) (v_code m) (bump (tip t) (tvis t)) (v_jt m) (tip t) i c1) as [[[[c3 err] serr] k] jt'] eqn:Ex.
  intros H. exists t, i, c3, err, serr, k, jt'. split; [reflexivity|].
  revert H. destruct err as [e|]; cbv beta iota zeta; intros [= <-]; intros x Hx;
    apply advance_retired in Hx; cbn [v_retired tip tgas] in Hx; unfold ip_after, gas_after; exact Hx.
Qed.

Lemma gas_listed_step m m' : vm_step fold m = SRunning m' -> gas_listed m -> gas_listed m'.
Proof.
  intros Hs G. destruct (step_errors fold m m' Hs) as (t & i & c3 & err & serr & k & jt' & Hp & He).
  destruct (step_retired m m' Hs) as (t2 & i2 & c32 & err2 & serr2 & k2 & jt2 & Hp2 & Hr).
  rewrite Hp in Hp2. inversion Hp2; subst t2 i2 c32 err2 serr2 k2 jt2.
  intros ip g Hin Hg. rewrite (vm_step_cfg fold m m' Hs) in Hg. apply He.
  destruct (Hr _ Hin) as [Hold|Heq].
  - left. exact (G ip g Hold Hg).
  - inversion Heq; subst ip g. right. right. right. split; [reflexivity|exact Hg].
Qed.

Lemma vm_step_stopped_retired m ip m' : vm_step fold m = SStopped ip m' -> v_retired m' = v_retired m.
Proof.
  unfold vm_step. destruct (v_queue m) as [|t rest]; [discriminate|].
  destruct (nth_error (v_code m) (N.to_nat (tip t))); [|discriminate].
  destruct (if v_counter m mod poll_every (v_cfg m) =? 0 then _ else _) as [stopped c1]. destruct stopped.
  - intros [= <- <-]. reflexivity.
  - destruct (exec_instr _ _ _ _ _ _ _ _) as [[[[c3 err] serr] k] jt']. destruct err; cbv beta iota zeta; discriminate.
Qed.

Theorem gas_exceeded_listed_run n : forall m, gas_listed m -> gas_listed (result_state (run fold n m)).
Proof.
  induction n as [|n IH]; intros m G; cbn [run result_state]; [exact G|].
  destruct (vm_step fold m) as [m'|m'|ip m'] eqn:Es; cbn [result_state].
  - apply IH. exact (gas_listed_step m m' Es G).
  - rewrite (vm_step_done_eq fold m m' Es). exact G.
  - destruct (vm_step_stopped_errors fold m ip m' Es) as [He Hc]. pose proof (vm_step_stopped_retired m ip m' Es) as Hr.
    intros ip0 g Hin Hg. rewrite He. rewrite Hr in Hin. rewrite Hc in Hg. exact (G ip0 g Hin Hg).
Qed.

(* from the initial machine: the log is empty *)
Theorem gas_exceeded_listed_proof code cfg n ip g :
  let m := result_state (run fold n (init_vm code cfg)) in
  In (ip, g) (v_retired m) -> (gas_limit (v_cfg m) <? g) = true -> In (ip, EGasLimitExceeded) (v_errors m).
Proof.
  cbv zeta. apply (gas_exceeded_listed_run n (init_vm code cfg)). intros ip0 g0 [].
Qed.
End Gas.
