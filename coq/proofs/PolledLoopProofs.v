From Coq Require Import List NArith Bool Lia.
From SLX Require Import PolledLoop.
Import ListNotations.
Open Scope N_scope.

Section P.
  Context {A St : Type}.
  Variable body : A -> St -> option St.

  (* unmonitored reference: the fold of the body *)
  Fixpoint plain (items : list A) (s : St) : option St :=
    match items with
    | [] => Some s
    | x :: r => match body x s with Some s1 => plain r s1 | None => None end
    end.

  (* never told to stop: the result is the unmonitored one, whatever the interval; the polls made are exactly the
     poll points *)
  Lemma never_stop_result (k : N) (items : list A) (c p : N) (s : St) :
    match ploop body k items c (mk_wdog p None) s, plain items s with
    | LDone s' c' w', Some s'' => s' = s'' /\ c' = c + N.of_nat (length items)
                                  /\ polls w' = p + poll_points k (length items) c /\ stop_from w' = None
    | LFailed _, None => True
    | _, _ => False
    end.
  Proof.
    revert c p s; induction items as [|x r IH]; intros c p s; cbn [ploop plain length poll_points].
    - repeat split; cbn [polls stop_from]; lia.
    - destruct (c mod k =? 0) eqn:E; cbn [should_stop stop_from polls].
      + destruct (body x s) as [s1|]; [|exact I].
        specialize (IH (c + 1) (p + 1) s1).
        destruct (ploop body k r (c + 1) (mk_wdog (p + 1) None) s1), (plain r s1); try exact IH.
        destruct IH as (H1 & H2 & H3 & H4); repeat split; try assumption; lia.
      + destruct (body x s) as [s1|]; [|exact I].
        specialize (IH (c + 1) p s1).
        destruct (ploop body k r (c + 1) (mk_wdog p None) s1), (plain r s1); try exact IH.
        destruct IH as (H1 & H2 & H3 & H4); repeat split; try assumption; lia.
  Qed.

  (* a watchdog that has turned to `stop` ends the loop at the next poll point, before the body of that item runs;
     exactly one more poll is made *)
  Lemma stops_at_next_poll_point (k : N) (items : list A) (c p j : N) (s : St) :
    j <= p ->
    (exists i, (i < length items)%nat /\ (c + N.of_nat i) mod k = 0
               /\ (forall i', (i' < i)%nat -> (c + N.of_nat i') mod k <> 0)
               /\ plain (firstn i items) s <> None) ->
    exists w, ploop body k items c (mk_wdog p (Some j)) s = LStopped w /\ polls w = p + 1.
  Proof.
    intros Hj (i & Hi & Hz & Hfirst & Hplain).
    revert items c s Hi Hz Hfirst Hplain; induction i as [|i IH]; intros items c s Hi Hz Hfirst Hplain.
    - destruct items as [|x r]; [cbn in Hi; lia|]. cbn [ploop].
      replace (c + N.of_nat 0) with c in Hz by lia. rewrite Hz. cbn [N.eqb should_stop stop_from polls].
      assert (E : (j <=? p) = true) by (apply N.leb_le; exact Hj). rewrite E.
      eexists; split; [reflexivity|]; cbn; lia.
    - destruct items as [|x r]; [cbn in Hi; lia|]. cbn [ploop].
      assert (Hc : c mod k <> 0) by (specialize (Hfirst 0%nat ltac:(lia)); replace (c + N.of_nat 0) with c in Hfirst by lia; exact Hfirst).
      apply N.eqb_neq in Hc. rewrite Hc.
      cbn [firstn plain] in Hplain. destruct (body x s) as [s1|] eqn:Eb; [|congruence].
      apply IH; [cbn in Hi; lia | | | exact Hplain].
      + replace (c + 1 + N.of_nat i) with (c + N.of_nat (S i)) by lia; exact Hz.
      + intros i' Hi'. replace (c + 1 + N.of_nat i') with (c + N.of_nat (S i')) by lia. apply Hfirst; lia.
  Qed.
End P.

(* the polls made over n iterations track the work: between floor(n/k) and floor(n/k) + 1 *)
Lemma poll_points_bounds (k : N) (n : nat) (c : N) :
  0 < k -> N.of_nat n / k <= poll_points k n c <= N.of_nat n / k + 1.
Proof.
  intros Hk.
  (* poll_points k n c = number of multiples of k in [c, c+n) = ceil((c+n)/k) - ceil(c/k) *)
  assert (H : forall n c, poll_points k n c = (c + N.of_nat n + k - 1) / k - (c + k - 1) / k).
  { clear n c. induction n as [|n IH]; intros c; cbn [poll_points].
    - cbn [N.of_nat]. rewrite N.add_0_r. symmetry; apply N.sub_diag.
    - rewrite IH. replace (c + 1 + N.of_nat n) with (c + N.of_nat (S n)) by lia.
      set (m := c + N.of_nat (S n) + k - 1).
      destruct (c mod k =? 0) eqn:E.
      + apply N.eqb_eq in E.
        assert (Hc : c = k * (c / k)) by (pose proof (N.div_mod c k ltac:(lia)); lia).
        assert (H1 : (c + k - 1) / k = c / k).
        { rewrite Hc at 1. replace (k * (c / k) + k - 1) with ((k - 1) + (c / k) * k) by lia.
          rewrite N.div_add by lia. rewrite N.div_small by lia. lia. }
        assert (H2 : (c + 1 + k - 1) / k = c / k + 1).
        { replace (c + 1 + k - 1) with (c + 1 * k) by lia. rewrite N.div_add by lia. lia. }
        rewrite H1, H2.
        assert (Hm : c / k + 1 <= m / k).
        { unfold m. apply N.div_le_lower_bound; [lia|]. set (q := c / k) in *.
          replace (c + N.of_nat (S n) + k - 1) with (c + k + (N.of_nat (S n) - 1)) by lia. nia. }
        lia.
      + apply N.eqb_neq in E.
        assert (H1 : (c + 1 + k - 1) / k = (c + k - 1) / k).
        { pose proof (N.div_mod c k ltac:(lia)) as D. pose proof (N.mod_upper_bound c k ltac:(lia)) as U.
          set (q := c / k) in *. set (r := c mod k) in *.
          replace (c + 1 + k - 1) with ((r + 0) + (q + 1) * k) by nia.
          replace (c + k - 1) with ((r - 1) + (q + 1) * k) by nia.
          rewrite !N.div_add by lia. rewrite !N.div_small by lia. reflexivity. }
        rewrite H1. lia. }
  rewrite H.
  pose proof (N.div_mod c k ltac:(lia)) as D. pose proof (N.mod_upper_bound c k ltac:(lia)) as U.
  pose proof (N.div_mod (N.of_nat n) k ltac:(lia)) as Dn. pose proof (N.mod_upper_bound (N.of_nat n) k ltac:(lia)) as Un.
  set (q := c / k) in *. set (r := c mod k) in *. set (qn := N.of_nat n / k) in *. set (rn := N.of_nat n mod k) in *.
  assert (L : (c + k - 1) / k = q + (r + k - 1) / k).
  { replace (c + k - 1) with ((r + k - 1) + q * k) by nia. rewrite N.div_add by lia. lia. }
  assert (R : (c + N.of_nat n + k - 1) / k = q + qn + (r + rn + k - 1) / k).
  { replace (c + N.of_nat n + k - 1) with ((r + rn + k - 1) + (q + qn) * k) by nia. rewrite N.div_add by lia. lia. }
  rewrite L, R.
  assert (A2 : (r + k - 1) / k <= (r + rn + k - 1) / k) by (apply N.div_le_mono; lia).
  assert (A3 : (r + rn + k - 1) / k <= (r + k - 1) / k + 1).
  { destruct (N.eq_dec r 0) as [Z|NZ].
    - rewrite Z. replace (0 + k - 1) with (k - 1) by lia. rewrite (N.div_small (k - 1) k) by lia.
      assert (B : (0 + rn + k - 1) / k < 2) by (apply N.div_lt_upper_bound; lia). lia.
    - assert (B : (r + k - 1) / k = 1).
      { replace (r + k - 1) with ((r - 1) + 1 * k) by lia. rewrite N.div_add by lia. rewrite N.div_small by lia. reflexivity. }
      rewrite B. assert (C : (r + rn + k - 1) / k < 3) by (apply N.div_lt_upper_bound; lia). lia. }
  lia.
Qed.
