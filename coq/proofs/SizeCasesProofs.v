(* The predicate that coq/SizeCases.v evaluates on the implementation's output (`sizes_true`, together
   with `arities_ok`) is the invariant `well_sized` of the C18 theorems. *)
From Coq Require Import String.
From SLX Require Import Base gen.ValueSig gen.SizeAnchors SymVal SizedVal SizeCases.
Open Scope N_scope.

Fixpoint sum_true (l : list ssv) : option N :=
  match l with
  | [] => Some 0
  | x :: r => match true_size x, sum_true r with Some a, Some b => Some (a + b) | _, _ => None end
  end.

Lemma true_size_unfold t a s args :
  true_size (SNode t a s args) =
  match sum_true args with Some k => if s =? 1 + k then Some s else None | None => None end.
Proof.
  cbn [true_size].
  assert (forall l, (fix go (l : list ssv) : option N :=
               match l with
               | [] => Some 0
               | x :: r => match true_size x, go r with Some a, Some b => Some (a + b) | _, _ => None end
               end) l = sum_true l) as E by (induction l as [|x r IH]; cbn [sum_true]; [reflexivity|now rewrite IH]).
  now rewrite E.
Qed.

Lemma sizes_true_well_sized v : sizes_true v = true -> arities_ok v = true -> well_sized v = true.
Proof.
  unfold sizes_true.
  assert (forall v n, true_size v = Some n -> arities_ok v = true -> well_sized v = true /\ n = node_count (erase v)) as H.
  { clear v. intros v. induction v as [t a s args IH] using ssv_ind'. intros n Hn Har.
    rewrite true_size_unfold in Hn. cbn [arities_ok] in Har. apply andb_true_iff in Har as [Ha Hall].
    assert (forall k, sum_true args = Some k ->
              forallb well_sized args = true /\ k = sum_N (map node_count (map erase args))) as Hs.
    { clear Hn Ha. induction args as [|x r IHr]; intros k Hk.
      - cbn in Hk. injection Hk as <-. split; reflexivity.
      - cbn [sum_true] in Hk. cbn [forallb] in Hall. apply andb_true_iff in Hall as [Hx Hr].
        inversion IH as [|? ? IHx IHrest]; subst.
        destruct (true_size x) as [a1|] eqn:E1; [|discriminate]. destruct (sum_true r) as [b1|] eqn:E2; [|discriminate].
        injection Hk as <-. destruct (IHx a1 eq_refl Hx) as [W1 ->]. destruct (IHr IHrest Hr b1 eq_refl) as [W2 ->].
        cbn [forallb map sum_N]. rewrite W1, W2. split; reflexivity. }
    destruct (sum_true args) as [k|]; [|discriminate]. destruct (Hs k eq_refl) as [W ->].
    destruct (N.eqb_spec s (1 + sum_N (map node_count (map erase args)))) as [->|]; [|discriminate].
    injection Hn as <-. split; [|reflexivity].
    cbn [well_sized erase node_count]. rewrite N.eqb_refl, Ha, W. reflexivity. }
  destruct (true_size v) as [n|] eqn:E; [|discriminate]. intros _ Har. exact (proj1 (H v n E Har)).
Qed.
