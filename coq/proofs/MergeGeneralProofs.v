(* C16 layer (ii), part 2: the laws proved on shapes (MergeShapeProofs.v) transported to type
   expressions: merge_comm (no Packed), merge_assoc_outside_known, contradiction_kept_outside_known. *)
From Coq Require Import Permutation.
From SLX Require Import Base gen.Constants gen.WordUseTable TypeExpr Merge
  proofs.MergeEquivProofs proofs.MergeLatticeProofs proofs.MergeShapeProofs.
Open Scope N_scope.

(* ========================================================================================== *)
(* 3. Transport to type expressions                                                           *)

Lemma mexpr_sh a b : no_packed a = true -> no_packed b = true -> option_map sh (mexpr a b) = smexpr (sh a) (sh b).
Proof.
  intros Ha Hb. unfold mexpr, smexpr. rewrite <- (merge_sim a b 0 0 Ha Hb). destruct (merge a b 0 0); reflexivity.
Qed.

Lemma meqs_sh a b : no_packed a = true -> no_packed b = true -> meqs a b = smeqs (sh a) (sh b).
Proof.
  intros Ha Hb. unfold meqs, smeqs. rewrite <- (merge_sim a b 0 0 Ha Hb). destruct (merge a b 0 0); reflexivity.
Qed.

Lemma merges_to_sh a b P P' : no_packed a = true -> no_packed b = true -> (forall e, P e = P' (sh e)) ->
  merges_to a b P = s_merges_to (sh a) (sh b) P'.
Proof.
  intros Ha Hb HP. unfold merges_to, s_merges_to. rewrite <- (mexpr_sh a b Ha Hb).
  destruct (mexpr a b); simpl; auto.
Qed.

Lemma is_conflict_sh e : is_conflict e = s_is_conflict (sh e).
Proof. destruct e; reflexivity. Qed.
Lemma is_bytes_sh e : is_bytes e = s_is_bytes (sh e).
Proof. destruct e; reflexivity. Qed.
Lemma is_word_sh e : is_word e = s_is_word (sh e).
Proof. destruct e; reflexivity. Qed.
Lemma arraylike_sh e : arraylike e = s_arraylike (sh e).
Proof. destruct e; reflexivity. Qed.
Lemma arraylike_eqb_sh x e : arraylike x = true -> te_eqb x e = shape_eqb (sh x) (sh e).
Proof. destruct x; try discriminate; intros _; destruct e; reflexivity. Qed.

Lemma K1_at_sh a b c : no_packed a = true -> no_packed b = true -> no_packed c = true ->
  K1_at a b c = sK1_at (sh a) (sh b) (sh c).
Proof.
  intros Ha Hb Hc. unfold K1_at, sK1_at. rewrite <- arraylike_sh, <- !is_word_sh.
  destruct (arraylike a) eqn:Ea; [|reflexivity].
  rewrite (merges_to_sh b c is_conflict s_is_conflict Hb Hc is_conflict_sh).
  rewrite (merges_to_sh a b (te_eqb a) (shape_eqb (sh a)) Ha Hb (fun e => arraylike_eqb_sh a e Ea)).
  rewrite (merges_to_sh a c (te_eqb a) (shape_eqb (sh a)) Ha Hc (fun e => arraylike_eqb_sh a e Ea)).
  reflexivity.
Qed.

Lemma K1_sh a b c : no_packed a = true -> no_packed b = true -> no_packed c = true ->
  K1 a b c = sK1 (sh a) (sh b) (sh c).
Proof. intros Ha Hb Hc. unfold K1, sK1. rewrite !K1_at_sh by assumption. reflexivity. Qed.

Lemma K2_at_sh a b c : no_packed a = true -> no_packed b = true -> no_packed c = true ->
  K2_at a b c = sK2_at (sh a) (sh b) (sh c).
Proof.
  intros Ha Hb Hc. unfold K2_at, sK2_at, emits, s_emits, kills, s_kills.
  unfold no_packed in Ha, Hb, Hc. rewrite Ha, Hb, Hc. simpl.
  assert (Ha' : no_packed a = true) by exact Ha. assert (Hb' : no_packed b = true) by exact Hb.
  assert (Hc' : no_packed c = true) by exact Hc.
  rewrite (meqs_sh a b Ha' Hb').
  rewrite (merges_to_sh a c _ (fun r => s_is_conflict r || s_is_bytes r) Ha' Hc')
    by (intros e; rewrite is_conflict_sh, is_bytes_sh; reflexivity).
  rewrite (merges_to_sh b c _ (fun r => s_is_conflict r || s_is_bytes r) Hb' Hc')
    by (intros e; rewrite is_conflict_sh, is_bytes_sh; reflexivity).
  rewrite andb_true_r. reflexivity.
Qed.

Lemma K2_sh a b c : no_packed a = true -> no_packed b = true -> no_packed c = true ->
  K2 a b c = sK2 (sh a) (sh b) (sh c).
Proof. intros Ha Hb Hc. unfold K2, sK2. rewrite !K2_at_sh by assumption. reflexivity. Qed.

(* ---- the general laws ---- *)
Theorem merge_comm_nopacked_proof : forall a b p n, no_packed a = true -> no_packed b = true ->
  merge2 a b p n ≈ merge2 b a p n.
Proof.
  intros a b p n Ha Hb.
  destruct (merge2_lift a b p n Ha Hb) as [L1 P1]. destruct (merge2_lift b a p n Hb Ha) as [L2 P2].
  apply (comb_equiv_lift _ _ P1 P2). rewrite L1, L2. apply smerge_comm.
Qed.

Theorem merge_assoc_outside_known_proof : forall a b c p n,
  no_packed a = true -> no_packed b = true -> no_packed c = true ->
  K1 a b c = false -> K2 a b c = false ->
  merge3L a b c p n ≈ merge3R a b c p n.
Proof.
  intros a b c p n Ha Hb Hc H1 H2.
  destruct (merge3L_lift a b c p n Ha Hb Hc) as [L1 P1]. destruct (merge3R_lift a b c p n Ha Hb Hc) as [L2 P2].
  apply (comb_equiv_lift _ _ P1 P2). rewrite L1, L2. apply sassoc.
  unfold sK. rewrite <- (K1_sh a b c Ha Hb Hc), <- (K2_sh a b c Ha Hb Hc), H1, H2. reflexivity.
Qed.

Definition conflict_or_panic (c : comb) : Prop :=
  match c with Ok r => is_conflict (c_expr r) = true | _ => True end.

Theorem contradiction_kept_outside_known_proof : forall a b c p n,
  no_packed a = true -> no_packed b = true -> no_packed c = true -> K1 a b c = false ->
  contradicts a b || contradicts a c || contradicts b c = true ->
  conflict_or_panic (merge3L a b c p n) /\ conflict_or_panic (merge3R a b c p n).
Proof.
  intros a b c p n Ha Hb Hc HK HC.
  destruct (merge3L_lift a b c p n Ha Hb Hc) as [L1 P1]. destruct (merge3R_lift a b c p n Ha Hb Hc) as [L2 P2].
  destruct (s_contradiction_kept (sh a) (sh b) (sh c)) as [S1 S2].
  - rewrite <- (K1_sh a b c Ha Hb Hc). exact HK.
  - unfold contradicts in HC. unfold s_contradicts.
    rewrite <- !(fun x y Hx Hy => merges_to_sh x y is_conflict s_is_conflict Hx Hy is_conflict_sh) by assumption.
    exact HC.
  - rewrite <- L1 in S1. rewrite <- L2 in S2. split.
    + destruct (merge3L a b c p n) as [r| |]; simpl in *; auto. rewrite is_conflict_sh, S1. reflexivity.
    + destruct (merge3R a b c p n) as [r| |]; simpl in *; auto. rewrite is_conflict_sh, S2. reflexivity.
Qed.
