(* VectorMap refines an ordinary finite map (C19, second half). *)
From Coq Require Import Sorting.Sorted.
From SLX Require Import Base VectorMap.
Open Scope N_scope.

Section VecMapProofs.
  Context {V : Type}.
  Implicit Types (l : fmap V) (d : list (option V)) (m : vmap V).

  Definition key_lt (a b : N * V) : Prop := fst a < fst b.
  (* the finite map's invariant: keys strictly increasing (hence no key twice) *)
  Definition fm_sorted (l : fmap V) : Prop := StronglySorted key_lt l.

  (* ------------------------------------------------------------------ the specification is a map *)
  Lemma fm_get_insert k k' v l :
    fm_get k' (fm_insert k v l) = if k' =? k then Some v else fm_get k' l.
  Proof.
    induction l as [|[k0 v0] t IH]; cbn [fm_insert fm_get].
    - destruct (N.eqb_spec k' k); reflexivity.
    - destruct (N.ltb_spec k k0) as [Hlt|Hge]; cbn [fm_get].
      + destruct (N.eqb_spec k' k); reflexivity.
      + destruct (N.eqb_spec k k0) as [->|Hne]; cbn [fm_get].
        * destruct (N.eqb_spec k' k0); reflexivity.
        * rewrite IH. destruct (N.eqb_spec k' k0) as [->|]; [|reflexivity].
          destruct (N.eqb_spec k0 k); [congruence|reflexivity].
  Qed.

  Lemma fm_get_remove k k' l :
    fm_get k' (fm_remove k l) = if k' =? k then None else fm_get k' l.
  Proof.
    unfold fm_remove. induction l as [|[k0 v0] t IH]; cbn [filter fm_get fst].
    - destruct (k' =? k); reflexivity.
    - destruct (N.eqb_spec k0 k) as [->|Hne]; cbn [negb fm_get].
      + rewrite IH. destruct (N.eqb_spec k' k); reflexivity.
      + rewrite IH. destruct (N.eqb_spec k' k0) as [->|]; [|reflexivity].
        destruct (N.eqb_spec k0 k); [congruence|reflexivity].
  Qed.

  Lemma fm_get_none_lt k l : Forall (fun p => k < fst p) l -> fm_get k l = None.
  Proof.
    induction 1 as [|[k0 v0] t H _ IH]; cbn [fm_get]; [reflexivity|].
    cbn [fst] in H. destruct (N.eqb_spec k k0); [lia|exact IH].
  Qed.

  Lemma fm_get_in k v l : fm_get k l = Some v -> In (k, v) l.
  Proof.
    induction l as [|[k0 v0] t IH]; cbn [fm_get]; [discriminate|].
    destruct (N.eqb_spec k k0) as [->|]; [intros [= ->]; left; reflexivity|right; auto].
  Qed.

  Lemma fm_in_get k v l : fm_sorted l -> In (k, v) l -> fm_get k l = Some v.
  Proof.
    induction 1 as [|[k0 v0] t _ IH Hall]; cbn [fm_get In]; [tauto|].
    intros [[= -> ->]|Hin].
    - rewrite N.eqb_refl. reflexivity.
    - destruct (N.eqb_spec k k0) as [->|]; [|auto].
      rewrite Forall_forall in Hall. specialize (Hall _ Hin). unfold key_lt in Hall. cbn in Hall. lia.
  Qed.

  Lemma fm_get_none_keys k l : fm_get k l = None <-> ~ In k (map fst l).
  Proof.
    induction l as [|[k0 v0] t IH]; cbn [fm_get map fst In]; [tauto|].
    destruct (N.eqb_spec k k0) as [->|Hne].
    - split; [discriminate|intros H; exfalso; apply H; left; reflexivity].
    - rewrite IH. split; [intros H [E|Hin]; [congruence|tauto]|tauto].
  Qed.

  Lemma fm_sorted_tail a l : fm_sorted (a :: l) -> fm_sorted l /\ Forall (key_lt a) l.
  Proof. intros H. inversion H; subst. split; assumption. Qed.

  Lemma fm_insert_all_gt lo k v l :
    lo < k -> Forall (fun p => lo < fst p) l -> Forall (fun p => lo < fst p) (fm_insert k v l).
  Proof.
    intros Hk. induction 1 as [|[k0 v0] t H Ht IH]; cbn [fm_insert].
    - constructor; [exact Hk|constructor].
    - destruct (k <? k0); [|destruct (k =? k0)]; repeat (constructor; auto).
  Qed.

  Lemma fm_insert_sorted k v l : fm_sorted l -> fm_sorted (fm_insert k v l).
  Proof.
    induction 1 as [|[k0 v0] t Hs IH Hall]; cbn [fm_insert].
    - constructor; constructor.
    - destruct (N.ltb_spec k k0) as [Hlt|Hge].
      + constructor; [constructor; assumption|].
        constructor; [exact Hlt|]. eapply Forall_impl; [|exact Hall].
        intros [a b]. unfold key_lt. cbn. lia.
      + destruct (N.eqb_spec k k0) as [->|Hne].
        * constructor; assumption.
        * constructor; [exact IH|].
          apply (fm_insert_all_gt k0 k v t); [lia|exact Hall].
  Qed.

  Lemma fm_remove_sorted k l : fm_sorted l -> fm_sorted (fm_remove k l).
  Proof.
    unfold fm_remove. induction 1 as [|a t Hs IH Hall]; cbn [filter]; [constructor|].
    destruct (negb (fst a =? k)); [|exact IH].
    constructor; [exact IH|]. rewrite Forall_forall in *. intros x Hx. apply filter_In in Hx. apply Hall, Hx.
  Qed.

  Lemma fm_sorted_nodup l : fm_sorted l -> NoDup (map fst l).
  Proof.
    induction 1 as [|a t _ IH Hall]; cbn [map]; constructor; [|exact IH].
    intros Hin. apply in_map_iff in Hin as (b & E & Hb). rewrite Forall_forall in Hall.
    specialize (Hall _ Hb). unfold key_lt in Hall. lia.
  Qed.

  Lemma fm_insert_length k v l : fm_sorted l ->
    length (fm_insert k v l) = match fm_get k l with Some _ => length l | None => S (length l) end.
  Proof.
    induction 1 as [|[k0 v0] t Hs IH Hall]; cbn [fm_insert fm_get]; [reflexivity|].
    destruct (N.ltb_spec k k0) as [Hlt|Hge].
    - destruct (N.eqb_spec k k0); [lia|].
      rewrite fm_get_none_lt; [reflexivity|]. eapply Forall_impl; [|exact Hall].
      intros [a b]. unfold key_lt. cbn. lia.
    - destruct (N.eqb_spec k k0) as [->|Hne]; [reflexivity|].
      cbn [length]. rewrite IH. destruct (fm_get k t); reflexivity.
  Qed.

  Lemma fm_remove_absent k l : fm_get k l = None -> fm_remove k l = l.
  Proof.
    unfold fm_remove. induction l as [|[k0 v0] t IH]; cbn [filter fm_get fst]; [reflexivity|].
    destruct (N.eqb_spec k k0) as [->|Hne]; [discriminate|].
    intros H. destruct (N.eqb_spec k0 k); [congruence|]. cbn [negb]. rewrite IH by exact H. reflexivity.
  Qed.

  Lemma fm_remove_length k v l : fm_sorted l -> fm_get k l = Some v -> S (length (fm_remove k l)) = length l.
  Proof.
    induction 1 as [|[k0 v0] t Hs IH Hall]; cbn [fm_get]; [discriminate|].
    unfold fm_remove. cbn [filter fst]. destruct (N.eqb_spec k k0) as [->|Hne].
    - intros _. rewrite N.eqb_refl. cbn [negb length]. f_equal.
      change (filter _ t) with (fm_remove k0 t). rewrite fm_remove_absent; [reflexivity|].
      apply fm_get_none_lt. exact Hall.
    - intros H. destruct (N.eqb_spec k0 k); [congruence|]. cbn [negb length]. f_equal. apply IH, H.
  Qed.

  Lemma fm_insert_overwrite k v l : fm_sorted l -> fm_insert k v (fm_remove k l) = fm_insert k v l.
  Proof.
    induction 1 as [|[k0 v0] t Hs IH Hall]; [reflexivity|].
    unfold fm_remove. cbn [filter fst fm_insert]. change (filter _ t) with (fm_remove k t).
    destruct (N.eqb_spec k0 k) as [->|Hne]; cbn [negb].
    - rewrite N.ltb_irrefl, N.eqb_refl. rewrite fm_remove_absent by (apply fm_get_none_lt; exact Hall).
      assert (E : fm_insert k v t = (k, v) :: t).
      { destruct t as [|[k1 v1] t']; [reflexivity|]. cbn [fm_insert].
        apply Forall_inv in Hall. unfold key_lt in Hall. cbn in Hall.
        destruct (N.ltb_spec k k1); [reflexivity|lia]. }
      exact E.
    - cbn [fm_insert]. destruct (N.ltb_spec k k0) as [Hlt|Hge].
      + rewrite fm_remove_absent; [reflexivity|]. apply fm_get_none_lt.
        eapply Forall_impl; [|exact Hall]. intros [a b]. unfold key_lt. cbn. lia.
      + destruct (N.eqb_spec k k0); [congruence|]. rewrite IH. reflexivity.
  Qed.

  (* keys of the result of an insert: insertion of the key into the sorted key list *)
  Fixpoint key_ins (k : N) (ks : list N) : list N :=
    match ks with
    | [] => [k]
    | k' :: t => if k <? k' then k :: ks else if k =? k' then ks else k' :: key_ins k t
    end.

  Lemma fm_insert_keys k v l : map fst (fm_insert k v l) = key_ins k (map fst l).
  Proof.
    induction l as [|[k0 v0] t IH]; cbn [fm_insert map fst key_ins]; [reflexivity|].
    destruct (k <? k0); [reflexivity|]. destruct (N.eqb_spec k k0) as [->|]; [reflexivity|].
    cbn [map fst]. rewrite IH. reflexivity.
  Qed.

  Lemma key_ins_present k l : fm_sorted l -> fm_get k l <> None -> key_ins k (map fst l) = map fst l.
  Proof.
    induction 1 as [|[k0 v0] t Hs IH Hall]; cbn [fm_get map fst key_ins]; [congruence|].
    destruct (N.eqb_spec k k0) as [->|Hne].
    - intros _. rewrite N.ltb_irrefl. reflexivity.
    - intros H. destruct (N.ltb_spec k k0) as [Hlt|Hge].
      + exfalso. apply H. apply fm_get_none_lt. eapply Forall_impl; [|exact Hall].
        intros [a b]. unfold key_lt. cbn. lia.
      + rewrite IH by exact H. reflexivity.
  Qed.

  (* ------------------------------------------------------------------ the dense vector *)
  Lemma iter_from_ge i d : Forall (fun p => i <= fst p) (iter_from i d).
  Proof.
    revert i. induction d as [|[v|] t IH]; intros i; cbn [iter_from]; [constructor| |].
    - constructor; [cbn; lia|]. eapply Forall_impl; [|apply (IH (i + 1))]. intros [a b]. cbn. lia.
    - eapply Forall_impl; [|apply (IH (i + 1))]. intros [a b]. cbn. lia.
  Qed.

  Lemma iter_from_gt i d : Forall (fun p => i < fst p) (iter_from (i + 1) d).
  Proof. eapply Forall_impl; [|apply iter_from_ge]. intros [a b]. cbn. lia. Qed.

  Lemma iter_from_sorted i d : fm_sorted (iter_from i d).
  Proof.
    revert i. induction d as [|[v|] t IH]; intros i; cbn [iter_from]; [constructor| |apply IH].
    constructor; [apply IH|]. eapply Forall_impl; [|apply iter_from_gt]. intros [a b]. unfold key_lt. cbn. lia.
  Qed.

  Lemma vm_iter_sorted m : fm_sorted (vm_iter m).
  Proof. apply iter_from_sorted. Qed.

  Lemma iter_from_get i j d :
    fm_get (i + N.of_nat j) (iter_from i d) = match nth_error d j with Some o => o | None => None end.
  Proof.
    revert i j. induction d as [|h t IH]; intros i j.
    - destruct j; reflexivity.
    - destruct j as [|j'].
      + rewrite N.add_0_r. destruct h as [v|]; cbn [iter_from nth_error fm_get].
        * rewrite N.eqb_refl. reflexivity.
        * apply fm_get_none_lt, iter_from_gt.
      + replace (i + N.of_nat (S j')) with (i + 1 + N.of_nat j') by lia.
        destruct h as [v|]; cbn [iter_from nth_error fm_get].
        * destruct (N.eqb_spec (i + 1 + N.of_nat j') i); [lia|]. apply IH.
        * apply IH.
  Qed.

  (* L3: lookups *)
  Lemma vm_get_iter m k : vm_get m k = fm_get k (vm_iter m).
  Proof.
    unfold vm_get, vm_iter. rewrite <- (iter_from_get 0 (N.to_nat k)). f_equal. lia.
  Qed.

  Lemma fm_insert_below k v l : Forall (fun p => k < fst p) l -> fm_insert k v l = (k, v) :: l.
  Proof.
    destruct l as [|[k0 v0] t]; [reflexivity|]. intros H. apply Forall_inv in H. cbn in H.
    cbn [fm_insert]. destruct (N.ltb_spec k k0); [reflexivity|lia].
  Qed.

  Lemma set_nth_repeat i j v :
    iter_from i (set_nth (repeat (@None V) (S j)) j (Some v)) = [(i + N.of_nat j, v)].
  Proof.
    revert i. induction j as [|j IH]; intros i.
    - cbn. rewrite N.add_0_r. reflexivity.
    - change (repeat None (S (S j))) with (@None V :: repeat None (S j)). cbn [set_nth iter_from].
      rewrite IH. f_equal. f_equal. lia.
  Qed.

  Lemma vm_extend_cons (h : option V) (t : list (option V)) j : vm_extend (h :: t) (S j) = h :: vm_extend t j.
  Proof. reflexivity. Qed.

  (* L1: insert *)
  Lemma iter_from_insert i j v d :
    iter_from i (set_nth (vm_extend d j) j (Some v)) = fm_insert (i + N.of_nat j) v (iter_from i d).
  Proof.
    revert i j. induction d as [|h t IH]; intros i j.
    - unfold vm_extend. cbn [app length]. rewrite Nat.sub_0_r. apply set_nth_repeat.
    - destruct j as [|j'].
      + unfold vm_extend. cbn [length].
        replace (1 - S (length t))%nat with 0%nat by lia. cbn [repeat]. rewrite app_nil_r.
        rewrite N.add_0_r. cbn [set_nth]. destruct h as [w|]; cbn [iter_from fm_insert].
        * rewrite N.ltb_irrefl, N.eqb_refl. reflexivity.
        * symmetry. apply fm_insert_below, iter_from_gt.
      + rewrite vm_extend_cons. cbn [set_nth].
        replace (i + N.of_nat (S j')) with (i + 1 + N.of_nat j') by lia.
        destruct h as [w|]; cbn [iter_from fm_insert].
        * rewrite IH. destruct (N.ltb_spec (i + 1 + N.of_nat j') i); [lia|].
          destruct (N.eqb_spec (i + 1 + N.of_nat j') i); [lia|]. reflexivity.
        * apply IH.
  Qed.

  Lemma fm_remove_below k l : Forall (fun p => k < fst p) l -> fm_remove k l = l.
  Proof. intros H. apply fm_remove_absent, fm_get_none_lt, H. Qed.

  (* L2: remove *)
  Lemma iter_from_remove i j d :
    iter_from i (set_nth d j None) = fm_remove (i + N.of_nat j) (iter_from i d).
  Proof.
    revert i j. induction d as [|h t IH]; intros i j.
    - destruct j; reflexivity.
    - destruct j as [|j'].
      + rewrite N.add_0_r. cbn [set_nth iter_from]. destruct h as [w|]; cbn [iter_from].
        * unfold fm_remove. cbn [filter fst]. rewrite N.eqb_refl. cbn [negb].
          symmetry. apply (fm_remove_below i), iter_from_gt.
        * symmetry. apply fm_remove_below, iter_from_gt.
      + replace (i + N.of_nat (S j')) with (i + 1 + N.of_nat j') by lia.
        cbn [set_nth]. destruct h as [w|]; cbn [iter_from].
        * unfold fm_remove. cbn [filter fst]. destruct (N.eqb_spec i (i + 1 + N.of_nat j')); [lia|].
          cbn [negb]. f_equal. apply IH.
        * apply IH.
  Qed.

  Lemma nth_vm_extend d i : nth i (vm_extend d i) None = nth i d None.
  Proof.
    unfold vm_extend. destruct (Nat.lt_ge_cases i (length d)) as [Hlt|Hge].
    - apply app_nth1, Hlt.
    - rewrite app_nth2 by exact Hge. rewrite nth_repeat. symmetry. apply nth_overflow, Hge.
  Qed.

  Lemma nth_default_get m k : nth (N.to_nat k) (vm_data m) None = vm_get m k.
  Proof.
    unfold vm_get. destruct (nth_error (vm_data m) (N.to_nat k)) as [o|] eqn:E.
    - apply nth_error_nth, E.
    - apply nth_overflow. apply nth_error_None, E.
  Qed.

  Lemma vm_insert_iter m k v : vm_iter (vm_insert m k v) = fm_insert k v (vm_iter m).
  Proof.
    unfold vm_insert, vm_iter.
    replace k with (0 + N.of_nat (N.to_nat k)) at 3 by lia. rewrite <- iter_from_insert.
    destruct (nth _ _ _); reflexivity.
  Qed.

  Lemma vm_insert_size m k v :
    vm_size (vm_insert m k v) = match vm_get m k with Some _ => vm_size m | None => vm_size m + 1 end.
  Proof.
    unfold vm_insert. rewrite nth_vm_extend, nth_default_get. destruct (vm_get m k); reflexivity.
  Qed.

  (* the size counter is accurate *)
  Definition vm_ok (m : vmap V) : Prop := vm_size m = N.of_nat (length (vm_iter m)).

  Lemma vm_new_ok : vm_ok vm_new.
  Proof. reflexivity. Qed.

  Lemma vm_insert_ok m k v : vm_ok m -> vm_ok (vm_insert m k v).
  Proof.
    unfold vm_ok. intros H. rewrite vm_insert_size, vm_insert_iter, fm_insert_length by apply vm_iter_sorted.
    rewrite <- vm_get_iter. destruct (vm_get m k); lia.
  Qed.

  Lemma vm_get_insert m k v k' : vm_get (vm_insert m k v) k' = if k' =? k then Some v else vm_get m k'.
  Proof. rewrite !vm_get_iter, vm_insert_iter. apply fm_get_insert. Qed.

  Lemma vm_iter_set_none m k sz :
    vm_iter (mk_vmap (set_nth (vm_data m) (N.to_nat k) None) sz) = fm_remove k (vm_iter m).
  Proof. unfold vm_iter. cbn [vm_data]. rewrite iter_from_remove. f_equal. lia. Qed.

  (* remove never panics on a map whose counter is accurate, and is the finite map's remove *)
  Lemma vm_remove_spec {E} m k : vm_ok m ->
    exists m', vm_remove (E:=E) m k = Ok (m', vm_get m k) /\ vm_iter m' = fm_remove k (vm_iter m) /\ vm_ok m'.
  Proof.
    intros Hok. unfold vm_remove. rewrite nth_default_get.
    destruct (Nat.ltb_spec (N.to_nat k) (length (vm_data m))) as [Hlt|Hge].
    - destruct (vm_get m k) as [v|] eqn:Eg.
      + assert (Hl : S (length (fm_remove k (vm_iter m))) = length (vm_iter m)).
        { apply (fm_remove_length k v); [apply vm_iter_sorted|]. rewrite <- vm_get_iter. exact Eg. }
        destruct (N.eqb_spec (vm_size m) 0) as [Hz|Hnz].
        * exfalso. unfold vm_ok in Hok. lia.
        * eexists. split; [reflexivity|]. split; [apply vm_iter_set_none|].
          unfold vm_ok. rewrite vm_iter_set_none. cbn [vm_size]. unfold vm_ok in Hok. lia.
      + exists m. split; [reflexivity|]. split; [|exact Hok].
        symmetry. apply fm_remove_absent. rewrite <- vm_get_iter. exact Eg.
    - exists m. assert (Eg : vm_get m k = None).
      { unfold vm_get. replace (nth_error _ _) with (@None (option V)); [reflexivity|].
        symmetry. apply nth_error_None, Hge. }
      rewrite Eg. split; [reflexivity|]. split; [|exact Hok].
      symmetry. apply fm_remove_absent. rewrite <- vm_get_iter. exact Eg.
  Qed.

  Lemma vm_get_remove {E} m k m' r k' : vm_ok m -> vm_remove (E:=E) m k = Ok (m', r) ->
    vm_get m' k' = if k' =? k then None else vm_get m k'.
  Proof.
    intros Hok H. destruct (vm_remove_spec (E:=E) m k Hok) as (m1 & H1 & Hit & _).
    rewrite H1 in H. injection H as <- _. rewrite !vm_get_iter, Hit. apply fm_get_remove.
  Qed.

  Lemma indices_from_iter i d : indices_from i d = map fst (iter_from i d).
  Proof. revert i. induction d as [|[v|] t IH]; intros i; cbn; [reflexivity| |]; rewrite IH; reflexivity. Qed.

  Lemma values_of_iter i d : values_of d = map snd (iter_from i d).
  Proof. revert i. induction d as [|[v|] t IH]; intros i; cbn; [reflexivity| |]; rewrite (IH (i + 1)); reflexivity. Qed.

  Lemma vm_indices_iter m : vm_indices m = map fst (vm_iter m).
  Proof. apply indices_from_iter. Qed.

  Lemma vm_values_iter m : vm_values m = map snd (vm_iter m).
  Proof. apply values_of_iter. Qed.

  Lemma vm_indices_insert m k v : vm_indices (vm_insert m k v) = key_ins k (vm_indices m).
  Proof. rewrite !vm_indices_iter, vm_insert_iter. apply fm_insert_keys. Qed.

  (* a key that is present lies inside the backing vector *)
  Lemma vm_get_some_lt m k : vm_get m k <> None -> (N.to_nat k < length (vm_data m))%nat.
  Proof.
    unfold vm_get. intros H. apply nth_error_Some. intros E. rewrite E in H. congruence.
  Qed.

  Lemma set_nth_same d i x : nth_error d i = Some x -> set_nth d i x = d.
  Proof.
    revert i. induction d as [|h t IH]; intros [|i]; cbn; try discriminate.
    - intros [= ->]. reflexivity.
    - intros H. rewrite IH by exact H. reflexivity.
  Qed.

  (* overwriting a key with the value it already has changes nothing at all *)
  Lemma vm_insert_same m k v : vm_get m k = Some v -> vm_insert m k v = m.
  Proof.
    intros H. assert (Hlt : (N.to_nat k < length (vm_data m))%nat) by (apply vm_get_some_lt; congruence).
    unfold vm_insert. rewrite nth_vm_extend, nth_default_get, H.
    unfold vm_extend. replace (S (N.to_nat k) - length (vm_data m))%nat with 0%nat by lia.
    cbn [repeat]. rewrite app_nil_r. rewrite set_nth_same; [destruct m; reflexivity|].
    unfold vm_get in H. destruct (nth_error (vm_data m) (N.to_nat k)) as [o|]; [congruence|discriminate].
  Qed.

  (* ------------------------------------------------------------------ every history *)
  Lemma observe_core m l o : vm_ok m -> vm_iter m = l -> obs_core (vm_observe m o) = obs_core (fm_observe l o).
  Proof.
    intros Hok <-. unfold obs_core, vm_observe, fm_observe, vm_len, vm_is_empty, fm_len. cbn [vo_out vo_len vo_empty].
    rewrite Hok. f_equal. destruct (vm_iter m) as [|p0 t0]; cbn [length]; [reflexivity|].
    destruct (N.eqb_spec (N.of_nat (S (length t0))) 0); [lia|reflexivity].
  Qed.

  Lemma vm_step_refines {E} m op : vm_ok m ->
    exists m' o, vm_step (E:=E) m op = Ok (m', o) /\ vm_ok m' /\
                 vm_iter m' = fst (fm_step (vm_iter m) op) /\ obs_core o = obs_core (snd (fm_step (vm_iter m) op)).
  Proof.
    intros Hok. destruct op as [k v|k|k|]; cbn [vm_step fm_step fst snd].
    - eexists _, _. split; [reflexivity|]. split; [apply vm_insert_ok, Hok|]. split; [apply vm_insert_iter|].
      apply observe_core; [apply vm_insert_ok, Hok|apply vm_insert_iter].
    - eexists _, _. split; [reflexivity|]. split; [exact Hok|]. split; [reflexivity|].
      rewrite vm_get_iter. apply observe_core; [exact Hok|reflexivity].
    - destruct (vm_remove_spec (E:=E) m k Hok) as (m' & H1 & Hit & Hok'). rewrite H1.
      eexists _, _. split; [reflexivity|]. split; [exact Hok'|]. split; [exact Hit|].
      rewrite vm_get_iter. apply observe_core; [exact Hok'|exact Hit].
    - eexists _, _. split; [reflexivity|]. split; [exact Hok|]. split; [reflexivity|].
      rewrite vm_indices_iter, vm_values_iter. apply observe_core; [exact Hok|reflexivity].
  Qed.

  Lemma vm_run_from_refines {E} ops : forall m, vm_ok m ->
    exists m' obs, vm_run_from (E:=E) m ops = Ok (m', obs) /\ vm_ok m' /\
                   vm_iter m' = fst (fm_run_from (vm_iter m) ops) /\
                   map obs_core obs = map obs_core (snd (fm_run_from (vm_iter m) ops)).
  Proof.
    induction ops as [|op t IH]; intros m Hok; cbn [vm_run_from fm_run_from].
    - exists m, []. repeat split; auto.
    - destruct (vm_step_refines (E:=E) m op Hok) as (m1 & o & H1 & Hok1 & Hit1 & Ho). rewrite H1.
      destruct (IH m1 Hok1) as (m2 & obs & H2 & Hok2 & Hit2 & Hobs). rewrite H2.
      destruct (fm_step (vm_iter m) op) as [l1 o1] eqn:Es. cbn [fst snd] in Hit1, Ho. rewrite Hit1 in *.
      destruct (fm_run_from l1 t) as [l2 os] eqn:Er. cbn [fst snd] in *.
      exists m2, (o :: obs). repeat split; auto. cbn [map]. rewrite Ho, Hobs. reflexivity.
  Qed.

  (* The refinement theorem for VectorMap: for EVERY sequence of inserts (new keys and overwrites),
     lookups, removals (present and absent keys) and enumerations, the run does not panic, each observation
     (result, len(), is_empty()) is the finite map's, the final contents in iteration order ARE the finite
     map, lookups agree on every key (presence included), and the counter equals the number of entries. *)
  Theorem vm_run_refines_proof {E} (ops : list (vop V)) :
    exists m obs, vm_run (E:=E) ops = Ok (m, obs) /\
      map obs_core obs = map obs_core (snd (fm_run ops)) /\
      vm_iter m = fst (fm_run ops) /\
      (forall k, vm_get m k = fm_get k (fst (fm_run ops))) /\
      vm_len m = fm_len (fst (fm_run ops)) /\
      fm_sorted (fst (fm_run ops)).
  Proof.
    destruct (vm_run_from_refines (E:=E) ops vm_new vm_new_ok) as (m & obs & H & Hok & Hit & Hobs).
    exists m, obs. change (vm_iter vm_new) with (@nil (N * V)) in *. fold (fm_run ops) in *.
    split; [exact H|]. split; [exact Hobs|]. split; [exact Hit|]. split.
    - intros k. rewrite vm_get_iter, Hit. reflexivity.
    - split; [unfold vm_len, fm_len; rewrite <- Hit; exact Hok|]. rewrite <- Hit. apply vm_iter_sorted.
  Qed.
End VecMapProofs.

(* max_key_index is NOT the largest key present (its documentation says "largest currently-stored key index"):
   the backing vector never shrinks.  Outside the C19 property; recorded so that the difference is a theorem. *)
Lemma max_key_index_refuted :
  exists ops : list (vop N),
    match vm_run (E:=unit) ops with
    | Ok (m, _) => vm_max_key_index m <> fm_max_key (fst (fm_run ops))
    | _ => False
    end.
Proof. exists [VInsert 3 7; VInsert 0 1; VRemove 3]. vm_compute. discriminate. Qed.
