(* Facts about `merge` that the unification stage (C14) builds on: it never returns an error value,
   it panics only on `Equal` operands or on `usize` overflow of a span end (the other panic sites of
   the source are unreachable), and the fresh variables it allocates are exactly the next ones of
   the counter. *)
From SLX Require Import Base gen.Constants gen.WordUseTable TypeExpr Merge proofs.MergeEquivProofs.
Open Scope N_scope.

Ltac split_ifs :=
  repeat match goal with
         | |- context [if ?c then _ else _] => destruct c
         end.

Lemma ins_by_length le x l : length (ins_by le x l) = S (length l).
Proof. induction l as [|y l IH]; simpl; auto. destruct (le x y); simpl; auto. Qed.

Lemma sort_by_length le l : length (sort_by le l) = length l.
Proof. induction l as [|x l IH]; simpl; auto. rewrite ins_by_length, IH. reflexivity. Qed.

Lemma insN_nonempty x l : insN x l <> [].
Proof. destruct l; simpl; [discriminate|]. destruct (x <=? n); discriminate. Qed.

Lemma sortN_uniq_nonempty x l : sortN (uniq (x :: l)) <> [].
Proof. unfold uniq. simpl. apply insN_nonempty. Qed.

(* ---- which outcomes are possible ---- *)
Definition allowed_panic (s : N) : Prop :=
  s = site_equal_left \/ s = site_equal_right \/ s = site_usize_overflow.

Definition outcome_ok (r : mresult) : Prop :=
  match r with Ok _ => True | Err _ => False | Panic s => allowed_panic s end.

Lemma mpa_outcome l r ts n : outcome_ok (merge_packed_array l r ts n).
Proof.
  unfold merge_packed_array. destruct ts as [|t1 [|t2 [|t3 [|t4 ts]]]]; try exact I.
  - split_ifs; exact I.
  - pose proof (sort_by_length le_offset [t1; t2]) as H.
    destruct (sort_by le_offset [t1; t2]) as [|x [|y ?]]; try discriminate H. split_ifs; exact I.
  - pose proof (sort_by_length le_offset [t1; t2; t3]) as H.
    destruct (sort_by le_offset [t1; t2; t3]) as [|x [|y [|z ?]]]; try discriminate H. split_ifs; exact I.
Qed.

Lemma mpw_outcome l r ts w u p n : outcome_ok (merge_packed_word l r ts w u p n).
Proof. unfold merge_packed_word. destruct ts; try exact I. destruct u, w; try exact I; split_ifs; exact I. Qed.

Lemma mpp_outcome tl sl tr sr n : outcome_ok (merge_packed_packed tl sl tr sr n).
Proof.
  unfold merge_packed_packed. destruct tl as [|t1 tl], tr as [|t2 tr]; try exact I.
  destruct (existsb _ _); [right; right; reflexivity|].
  pose proof (sortN_uniq_nonempty (s_off t1) ((s_off t1 + s_sz t1 :: boundaries_of tl) ++ boundaries_of (t2 :: tr))) as H.
  change (boundaries_of (t1 :: tl) ++ boundaries_of (t2 :: tr))
    with (s_off t1 :: (s_off t1 + s_sz t1 :: boundaries_of tl) ++ boundaries_of (t2 :: tr)).
  destruct (sortN _); [congruence|].
  destruct (mk_spans _ _ _). destruct (process_spans _ _). destruct (process_spans _ _). exact I.
Qed.

Theorem merge_outcome_proof : forall a b p n, outcome_ok (merge a b p n).
Proof.
  intros a b p n. unfold merge, merge_body. destruct (te_eqb a b); [exact I|].
  destruct a, b; try exact I; try (left; reflexivity); try (right; left; reflexivity); simpl;
    try apply mpa_outcome; try apply mpw_outcome; try apply mpp_outcome;
    split_ifs; try exact I;
    try apply mpa_outcome; try apply mpw_outcome; try apply mpp_outcome.
  destruct (width_merge _ _); [destruct (wuse_merge _ _)|]; exact I.
Qed.

(* ---- exactly when it panics ---- *)
Lemma mpa_nopanic l r ts n s : merge_packed_array l r ts n <> Panic s.
Proof.
  unfold merge_packed_array. destruct ts as [|t1 [|t2 [|t3 [|t4 ts]]]]; try discriminate.
  - split_ifs; discriminate.
  - pose proof (sort_by_length le_offset [t1; t2]) as H.
    destruct (sort_by le_offset [t1; t2]) as [|x [|y ?]]; try discriminate H. split_ifs; discriminate.
  - pose proof (sort_by_length le_offset [t1; t2; t3]) as H.
    destruct (sort_by le_offset [t1; t2; t3]) as [|x [|y [|z ?]]]; try discriminate H. split_ifs; discriminate.
Qed.

Lemma mpw_nopanic l r ts w u p n s : merge_packed_word l r ts w u p n <> Panic s.
Proof. unfold merge_packed_word. destruct ts; try discriminate. destruct u, w; try discriminate; split_ifs; discriminate. Qed.

Lemma mpp_panic tl sl tr sr n s : merge_packed_packed tl sl tr sr n = Panic s ->
  s = site_usize_overflow /\ existsb span_overflows (tl ++ tr) = true.
Proof.
  unfold merge_packed_packed. destruct tl as [|t1 tl], tr as [|t2 tr]; try discriminate.
  destruct (existsb span_overflows ((t1 :: tl) ++ t2 :: tr)) eqn:E; [intros [= <-]; auto|].
  pose proof (sortN_uniq_nonempty (s_off t1) ((s_off t1 + s_sz t1 :: boundaries_of tl) ++ boundaries_of (t2 :: tr))) as H.
  change (boundaries_of (t1 :: tl) ++ boundaries_of (t2 :: tr))
    with (s_off t1 :: (s_off t1 + s_sz t1 :: boundaries_of tl) ++ boundaries_of (t2 :: tr)).
  destruct (sortN _); [congruence|].
  destruct (mk_spans _ _ _). destruct (process_spans _ _). destruct (process_spans _ _). discriminate.
Qed.

Definition packed_overflow (a b : te) : bool :=
  match a, b with
  | Packed ta _, Packed tb _ => existsb span_overflows (ta ++ tb)
  | _, _ => false
  end.

Theorem merge_panic_cases_proof : forall a b p n s, merge a b p n = Panic s ->
  (s = site_equal_left /\ is_equal a = true) \/ (s = site_equal_right /\ is_equal b = true)
  \/ (s = site_usize_overflow /\ packed_overflow a b = true).
Proof.
  intros a b p n s. unfold merge, merge_body. destruct (te_eqb a b); [discriminate|].
  destruct a, b; simpl; try discriminate;
    try (intros [= <-]; left; split; reflexivity);
    try (intros [= <-]; right; left; split; reflexivity);
    try (intros E; exfalso; revert E; first [apply mpa_nopanic | apply mpw_nopanic]);
    try (split_ifs; discriminate).
  - destruct (width_merge _ _); [destruct (wuse_merge _ _)|]; discriminate.
  - intros E. right. right. apply mpp_panic in E. exact E.
Qed.

(* without an `Equal` operand and with spans whose ends fit in `usize`, merge does not panic *)
Theorem merge_total_proof : forall a b p n, is_equal a = false -> is_equal b = false ->
  packed_overflow a b = false -> exists r, merge a b p n = Ok r.
Proof.
  intros a b p n Ha Hb Hf. pose proof (merge_outcome_proof a b p n) as H.
  destruct (merge a b p n) as [r| |s] eqn:E; [eauto | contradiction |]. exfalso.
  destruct (merge_panic_cases_proof _ _ _ _ _ E) as [[_ H1]|[[_ H1]|[_ H1]]]; congruence.
Qed.

(* ---- fresh variables: exactly the next ones of the counter, in order ---- *)
Lemma mk_spans_fresh bs start n spans n' : mk_spans bs start n = (spans, n') ->
  n' = n + N.of_nat (length spans)
  /\ map (fun '(t, _, _) => t) spans = map (fun i => n + N.of_nat i) (seq 0 (length spans)).
Proof.
  revert start n spans n'. induction bs as [|e bs IH]; intros start n spans n'; simpl.
  - intros [= <- <-]. simpl. split; [lia | reflexivity].
  - destruct (mk_spans bs e (n + 1)) as [rest k] eqn:E. intros [= <- <-].
    destruct (IH _ _ _ _ E) as [Hk Hm]. simpl. split; [lia|].
    f_equal; [f_equal; lia|]. rewrite Hm. rewrite <- seq_shift, map_map. apply map_ext. intros i. lia.
Qed.

Definition fresh_ok (n : N) (r : mresult) : Prop :=
  match r with
  | Ok m => next m = n + N.of_nat (length (newv m))
            /\ newv m = map (fun i => n + N.of_nat i) (seq 0 (length (newv m)))
  | _ => True
  end.

Lemma fresh_expression e n : fresh_ok n (m_expression e n).
Proof. simpl. split; [lia | reflexivity]. Qed.

Lemma mpa_fresh l r ts n : fresh_ok n (merge_packed_array l r ts n).
Proof.
  unfold merge_packed_array. destruct ts as [|t1 [|t2 [|t3 [|t4 ts]]]]; try apply fresh_expression.
  - split_ifs; apply fresh_expression.
  - destruct (sort_by le_offset [t1; t2]) as [|x [|y ?]]; try exact I. split_ifs; apply fresh_expression.
  - destruct (sort_by le_offset [t1; t2; t3]) as [|x [|y [|z ?]]]; try exact I. split_ifs; apply fresh_expression.
Qed.

Lemma mpw_fresh l r ts w u p n : fresh_ok n (merge_packed_word l r ts w u p n).
Proof.
  unfold merge_packed_word. destruct ts; try apply fresh_expression.
  destruct u, w; try apply fresh_expression; split_ifs; try apply fresh_expression;
    simpl; (split; [lia | f_equal; lia]).
Qed.

Lemma mpp_fresh tl sl tr sr n : fresh_ok n (merge_packed_packed tl sl tr sr n).
Proof.
  unfold merge_packed_packed. destruct tl as [|t1 tl], tr as [|t2 tr]; try apply fresh_expression.
  destruct (existsb _ _); [exact I|]. destruct (sortN _) as [|b0 rest]; [exact I|].
  destruct (mk_spans rest b0 n) as [spans n'] eqn:E. destruct (process_spans _ _). destruct (process_spans _ _).
  destruct (mk_spans_fresh _ _ _ _ _ E) as [H1 H2]. simpl. rewrite map_length. split; assumption.
Qed.

Theorem merge_fresh_proof : forall a b p n r, merge a b p n = Ok r ->
  next r = n + N.of_nat (length (newv r))
  /\ newv r = map (fun i => n + N.of_nat i) (seq 0 (length (newv r))).
Proof.
  intros a b p n r E. assert (H : fresh_ok n (merge a b p n)); [|rewrite E in H; exact H]. clear E.
  unfold merge, merge_body. destruct (te_eqb a b); [apply fresh_expression|].
  destruct a, b; try exact I; simpl; try (split; [lia | reflexivity]);
    try apply mpa_fresh; try apply mpw_fresh; try apply mpp_fresh;
    split_ifs; try (split; [lia | reflexivity]);
    try apply mpa_fresh; try apply mpw_fresh; try apply mpp_fresh.
  all: try (simpl; split; [lia | reflexivity]).
  destruct (width_merge _ _); [destruct (wuse_merge _ _)|]; simpl; (split; [lia | reflexivity]).
Qed.
