(* Proofs about TypeExpr.v / Merge.v: decidable equality, the comparison "up to conflict wording and
   representative choice" and its decision procedure, the word lattice (C15), the finite-domain
   decision of C16 and the general commutativity / associativity-outside-the-known-class laws. *)
From Coq Require Import Permutation.
From SLX Require Import Base gen.Constants gen.WordUseTable TypeExpr Merge.
Open Scope N_scope.

(* ========================================================================================== *)
(* 1. Decidable equality                                                                      *)

Lemma optN_eqb_eq a b : optN_eqb a b = true <-> a = b.
Proof.
  destruct a as [x|], b as [y|]; simpl; split; intros H; try discriminate; auto.
  - apply N.eqb_eq in H. congruence.
  - injection H as ->. apply N.eqb_refl.
Qed.

Lemma wuse_eqb_eq a b : wuse_eqb a b = true <-> a = b.
Proof. destruct a, b; simpl; split; intros H; try discriminate; auto. Qed.

Lemma wuse_eqb_refl a : wuse_eqb a a = true.
Proof. apply wuse_eqb_eq. reflexivity. Qed.

Lemma span_eqb_eq a b : span_eqb a b = true <-> a = b.
Proof.
  destruct a as [t o s], b as [t' o' s']; unfold span_eqb; simpl.
  rewrite !andb_true_iff, !N.eqb_eq. split.
  - intros [[-> ->] ->]. reflexivity.
  - intros [= -> -> ->]. auto.
Qed.

Lemma reason_eqb_eq a b : reason_eqb a b = true <-> a = b.
Proof.
  destruct a, b; simpl; split; intros H; try discriminate; auto.
  - apply N.eqb_eq in H. congruence.
  - injection H as ->. apply N.eqb_refl.
Qed.

Lemma list_eqb_eq {A} (eqb : A -> A -> bool) (Heq : forall x y, eqb x y = true <-> x = y) a b :
  list_eqb eqb a b = true <-> a = b.
Proof.
  revert b; induction a as [|x a IH]; destruct b as [|y b]; simpl; split; intros H; try discriminate; auto.
  - apply andb_true_iff in H as [H1 H2]. apply Heq in H1. apply IH in H2. congruence.
  - injection H as -> ->. apply andb_true_iff. split; [apply Heq|apply IH]; reflexivity.
Qed.

(* induction principle that goes through the `list te` inside `Conflict` *)
Section te_ind_nested.
  Variable P : te -> Prop.
  Hypothesis HAny : P Any.
  Hypothesis HEqual : forall i, P (Equal i).
  Hypothesis HWord : forall w u, P (Word w u).
  Hypothesis HBytes : P Bytes.
  Hypothesis HFixed : forall e l, P (FixedArray e l).
  Hypothesis HMapping : forall k v, P (Mapping k v).
  Hypothesis HDyn : forall e, P (DynamicArray e).
  Hypothesis HPacked : forall t s, P (Packed t s).
  Hypothesis HConflict : forall cs rs, Forall P cs -> P (Conflict cs rs).

  Fixpoint te_ind_nested (t : te) : P t :=
    match t with
    | Any => HAny | Equal i => HEqual i | Word w u => HWord w u | Bytes => HBytes
    | FixedArray e l => HFixed e l | Mapping k v => HMapping k v | DynamicArray e => HDyn e
    | Packed t s => HPacked t s
    | Conflict cs rs =>
        HConflict cs rs
          ((fix go (l : list te) : Forall P l :=
              match l with
              | [] => Forall_nil P
              | x :: r => Forall_cons x (te_ind_nested x) (go r)
              end) cs)
    end.
End te_ind_nested.

Lemma te_eqb_eq a b : te_eqb a b = true <-> a = b.
Proof.
  revert b. induction a as [| i | w u | | e l | k v | e | t s | cs rs IH] using te_ind_nested;
    destruct b as [| i' | w' u' | | e' l' | k' v' | e' | t' s' | cs' rs']; simpl;
    try (split; intros H; [discriminate H | discriminate H]); try (split; reflexivity).
  - rewrite N.eqb_eq. split; congruence.
  - rewrite andb_true_iff, optN_eqb_eq, wuse_eqb_eq. split; [intros [-> ->]; reflexivity | intros [= -> ->]; auto].
  - rewrite andb_true_iff, !N.eqb_eq. split; [intros [-> ->]; reflexivity | intros [= -> ->]; auto].
  - rewrite andb_true_iff, !N.eqb_eq. split; [intros [-> ->]; reflexivity | intros [= -> ->]; auto].
  - rewrite N.eqb_eq. split; congruence.
  - rewrite andb_true_iff, (list_eqb_eq span_eqb span_eqb_eq), eqb_true_iff.
    split; [intros [-> ->]; reflexivity | intros [= -> ->]; auto].
  - rewrite andb_true_iff, (list_eqb_eq reason_eqb reason_eqb_eq).
    assert (Hgo : forall cs',
      (fix go (l l' : list te) : bool :=
         match l, l' with
         | [], [] => true
         | x :: r, y :: r' => te_eqb x y && go r r'
         | _, _ => false
         end) cs cs' = true <-> cs = cs').
    { clear rs rs' cs'. induction IH as [|x cs Hx _ IHcs]; intros [|y cs']; split; intros H;
        try discriminate; auto.
      - apply andb_true_iff in H as [H1 H2]. apply Hx in H1. apply IHcs in H2. congruence.
      - injection H as -> ->. apply andb_true_iff. split; [apply Hx | apply IHcs]; reflexivity. }
    rewrite Hgo. split; [intros [-> ->]; reflexivity | intros [= -> ->]; auto].
Qed.

Lemma te_eqb_refl a : te_eqb a a = true.
Proof. apply te_eqb_eq. reflexivity. Qed.

Lemma te_eqb_sym a b : te_eqb a b = te_eqb b a.
Proof.
  destruct (te_eqb a b) eqn:E.
  - apply te_eqb_eq in E. subst. symmetry. apply te_eqb_refl.
  - destruct (te_eqb b a) eqn:E'; auto. apply te_eqb_eq in E'. subst. rewrite te_eqb_refl in E. discriminate.
Qed.

Definition te_eq_dec (a b : te) : {a = b} + {a <> b}.
Proof.
  destruct (te_eqb a b) eqn:E.
  - left. apply te_eqb_eq. exact E.
  - right. intros H. apply te_eqb_eq in H. congruence.
Defined.

(* ========================================================================================== *)
(* 2. The identification generated by a list of equalities, and its decision procedure         *)

Lemma eqv_mono q1 q2 : (forall a b, In (a, b) q1 -> eqv q2 a b) -> forall x y, eqv q1 x y -> eqv q2 x y.
Proof.
  intros H x y E. induction E as [a b Hin | a | a b _ IH | a b c _ IH1 _ IH2].
  - apply H. exact Hin.
  - apply eqv_refl.
  - apply eqv_sym. exact IH.
  - eapply eqv_trans; eassumption.
Qed.

Lemma eqv_incl q1 q2 : incl q1 q2 -> forall x y, eqv q1 x y -> eqv q2 x y.
Proof. intros H. apply eqv_mono. intros a b Hin. apply eqv_in. apply H. exact Hin. Qed.

Lemma canon_eqv q x : eqv q x (canon q x).
Proof.
  revert x. induction q as [|[a b] r IH]; intros x; simpl.
  - apply eqv_refl.
  - assert (Hr : forall y, eqv ((a, b) :: r) y (canon r y)).
    { intros y. eapply eqv_incl; [|apply IH]. intros p Hp. right. exact Hp. }
    destruct (N.eqb_spec (canon r x) (canon r a)) as [E|E].
    + (* x ~ canon r x = canon r a ~ a ~ b ~ canon r b *)
      eapply eqv_trans; [apply Hr|]. rewrite E.
      eapply eqv_trans; [apply eqv_sym; apply Hr|].
      eapply eqv_trans; [apply eqv_in; left; reflexivity|]. apply Hr.
    + apply Hr.
Qed.

Lemma canon_sound q x y : eqv q x y -> canon q x = canon q y.
Proof.
  revert x y. induction q as [|[a b] r IH]; intros x y E.
  - simpl. induction E as [p q' Hin | | | p q' s _ IH1 _ IH2]; auto; try contradiction. congruence.
  - (* the kernel of the new canon is an equivalence containing the kernel of the old one and (a,b) *)
    induction E as [p q' Hin | p | p q' _ IHE | p q' s _ IH1 _ IH2]; auto; try congruence.
    destruct Hin as [Hin | Hin].
    + injection Hin as -> ->. simpl. rewrite N.eqb_refl.
      destruct (N.eqb_spec (canon r q') (canon r p)) as [E|E]; auto.
    + assert (E := IH p q' (eqv_in _ _ _ Hin)). simpl. rewrite E. reflexivity.
Qed.

Theorem canon_spec q x y : eqv q x y <-> canon q x = canon q y.
Proof.
  split; [apply canon_sound|]. intros E.
  eapply eqv_trans; [apply canon_eqv|]. rewrite E. apply eqv_sym. apply canon_eqv.
Qed.

Lemma canon_eqb_spec q x y : (canon q x =? canon q y) = true <-> eqv q x y.
Proof. rewrite N.eqb_eq. symmetry. apply canon_spec. Qed.

Lemma eqs_incl_b_spec q1 q2 : eqs_incl_b q1 q2 = true <-> (forall x y, eqv q1 x y -> eqv q2 x y).
Proof.
  unfold eqs_incl_b. rewrite forallb_forall. split.
  - intros H. apply eqv_mono. intros a b Hin. apply canon_eqb_spec. apply (H (a, b) Hin).
  - intros H [a b] Hin. simpl. apply canon_eqb_spec. apply H. apply eqv_in. exact Hin.
Qed.

Lemma same_eqs_b_spec q1 q2 : same_eqs_b q1 q2 = true <-> same_eqs q1 q2.
Proof.
  unfold same_eqs_b, same_eqs. rewrite andb_true_iff, !eqs_incl_b_spec. split.
  - intros [H1 H2] x y. split; auto.
  - intros H. split; intros x y; apply H.
Qed.

Lemma same_eqs_refl q : same_eqs q q.
Proof. intros x y. reflexivity. Qed.
Lemma same_eqs_sym q1 q2 : same_eqs q1 q2 -> same_eqs q2 q1.
Proof. intros H x y. symmetry. apply H. Qed.
Lemma same_eqs_trans q1 q2 q3 : same_eqs q1 q2 -> same_eqs q2 q3 -> same_eqs q1 q3.
Proof. intros H1 H2 x y. rewrite (H1 x y). apply H2. Qed.

Lemma same_eqs_perm q1 q2 : Permutation q1 q2 -> same_eqs q1 q2.
Proof.
  intros HP x y. split; apply eqv_incl; intros p Hp.
  - eapply Permutation_in; eassumption.
  - eapply Permutation_in; [apply Permutation_sym|]; eassumption.
Qed.

Lemma same_eqs_app_comm q1 q2 : same_eqs (q1 ++ q2) (q2 ++ q1).
Proof. apply same_eqs_perm. apply Permutation_app_comm. Qed.

(* ---- te_rel ---- *)
Lemma span_sim_spec q a b : span_sim (canon q) a b = true <-> span_rel (eqv q) a b.
Proof.
  unfold span_sim, span_rel. rewrite !andb_true_iff, canon_eqb_spec, !N.eqb_eq. tauto.
Qed.

Lemma list_eqb_Forall2 {A} (f : A -> A -> bool) (R : A -> A -> Prop)
  (H : forall x y, f x y = true <-> R x y) a b : list_eqb f a b = true <-> Forall2 R a b.
Proof.
  revert b; induction a as [|x a IH]; destruct b as [|y b]; simpl; split; intros E;
    try discriminate; try constructor; try (inversion E; fail).
  - apply andb_true_iff in E as [E1 _]. apply H. exact E1.
  - apply andb_true_iff in E as [_ E2]. apply IH. exact E2.
  - inversion E; subst. apply andb_true_iff. split; [apply H | apply IH]; assumption.
Qed.

Lemma te_sim_spec q a b : te_sim (canon q) a b = true <-> te_rel (eqv q) a b.
Proof.
  destruct a, b; simpl; split; intros H; try discriminate; try (inversion H; fail); try constructor.
  - apply canon_eqb_spec. exact H.
  - inversion H; subst. apply canon_eqb_spec. assumption.
  - apply andb_true_iff in H as [H1 H2]. apply optN_eqb_eq in H1. apply wuse_eqb_eq in H2. subst. constructor.
  - inversion H; subst. apply andb_true_iff. split; [apply optN_eqb_eq | apply wuse_eqb_eq]; reflexivity.
  - apply andb_true_iff in H as [H1 H2]. apply N.eqb_eq in H2. subst. constructor. apply canon_eqb_spec. exact H1.
  - inversion H; subst. apply andb_true_iff. split; [apply canon_eqb_spec; assumption | apply N.eqb_refl].
  - apply andb_true_iff in H as [H1 H2]. apply canon_eqb_spec. exact H1.
  - apply andb_true_iff in H as [H1 H2]. apply canon_eqb_spec. exact H2.
  - inversion H; subst. apply andb_true_iff. split; apply canon_eqb_spec; assumption.
  - apply canon_eqb_spec. exact H.
  - inversion H; subst. apply canon_eqb_spec. assumption.
  - apply andb_true_iff in H as [H1 H2]. apply eqb_prop in H2. subst. constructor.
    apply (list_eqb_Forall2 _ _ (span_sim_spec q)). exact H1.
  - inversion H; subst. apply andb_true_iff. split; [|apply eqb_reflx].
    apply (list_eqb_Forall2 _ _ (span_sim_spec q)). assumption.
Qed.

Lemma judg_sim_spec q a b : judg_sim (canon q) a b = true <-> judg_rel (eqv q) a b.
Proof. unfold judg_sim, judg_rel. rewrite andb_true_iff, canon_eqb_spec, te_sim_spec. tauto. Qed.

Lemma judg_incl_b_spec q j1 j2 : judg_incl_b (canon q) j1 j2 = true <-> judg_incl (eqv q) j1 j2.
Proof.
  unfold judg_incl_b, judg_incl. rewrite forallb_forall. split; intros H a Ha.
  - specialize (H a Ha). apply existsb_exists in H as [b [Hb Hs]]. exists b. split; auto. apply judg_sim_spec. exact Hs.
  - destruct (H a Ha) as [b [Hb Hr]]. apply existsb_exists. exists b. split; auto. apply judg_sim_spec. exact Hr.
Qed.

Theorem cres_equivb_spec a b : cres_equivb a b = true <-> cres_equiv a b.
Proof.
  unfold cres_equivb, cres_equiv.
  rewrite !andb_true_iff, same_eqs_b_spec, te_sim_spec, !judg_incl_b_spec. tauto.
Qed.

Theorem comb_equivb_spec a b : comb_equivb a b = true <-> a ≈ b.
Proof.
  destruct a, b; simpl; try apply cres_equivb_spec; split; intros H; auto; try discriminate; contradiction.
Qed.

(* ---- ≈ is an equivalence relation ---- *)
Lemma eqv_equiv_rel q : (forall x, eqv q x x) /\ (forall x y, eqv q x y -> eqv q y x)
  /\ (forall x y z, eqv q x y -> eqv q y z -> eqv q x z).
Proof. repeat split; intros; [apply eqv_refl | apply eqv_sym; assumption | eapply eqv_trans; eassumption]. Qed.

Section rel_equiv.
  Variable R : tyvar -> tyvar -> Prop.
  Hypothesis Rrefl : forall x, R x x.
  Hypothesis Rsym : forall x y, R x y -> R y x.
  Hypothesis Rtrans : forall x y z, R x y -> R y z -> R x z.

  Lemma span_rel_refl s : span_rel R s s.
  Proof. unfold span_rel. auto. Qed.
  Lemma span_rel_sym a b : span_rel R a b -> span_rel R b a.
  Proof. unfold span_rel. intros [H1 [H2 H3]]. auto. Qed.
  Lemma span_rel_trans a b c : span_rel R a b -> span_rel R b c -> span_rel R a c.
  Proof. unfold span_rel. intros [H1 [H2 H3]] [H4 [H5 H6]]. repeat split; try congruence. eauto. Qed.

  Lemma te_rel_refl a : te_rel R a a.
  Proof.
    destruct a; constructor; auto.
    induction types; constructor; auto using span_rel_refl.
  Qed.
  Lemma te_rel_sym a b : te_rel R a b -> te_rel R b a.
  Proof.
    intros H. destruct H; constructor; auto.
    induction H; constructor; auto using span_rel_sym.
  Qed.
  Lemma Forall2_span_trans t1 t2 t3 :
    Forall2 (span_rel R) t1 t2 -> Forall2 (span_rel R) t2 t3 -> Forall2 (span_rel R) t1 t3.
  Proof.
    intros HF. revert t3. induction HF; intros t3 H3; inversion H3; subst; constructor;
      eauto using span_rel_trans.
  Qed.
  Lemma te_rel_trans a b c : te_rel R a b -> te_rel R b c -> te_rel R a c.
  Proof.
    intros H1 H2. destruct H1; inversion H2; subst; constructor; eauto using Forall2_span_trans.
  Qed.

  Lemma judg_rel_refl a : judg_rel R a a.
  Proof. split; auto using te_rel_refl. Qed.
  Lemma judg_rel_sym a b : judg_rel R a b -> judg_rel R b a.
  Proof. intros [H1 H2]. split; auto using te_rel_sym. Qed.
  Lemma judg_rel_trans a b c : judg_rel R a b -> judg_rel R b c -> judg_rel R a c.
  Proof. intros [H1 H2] [H3 H4]. split; eauto using te_rel_trans. Qed.

  Lemma judg_incl_refl j : judg_incl R j j.
  Proof. intros a Ha. exists a. split; auto using judg_rel_refl. Qed.
  Lemma judg_incl_trans j1 j2 j3 : judg_incl R j1 j2 -> judg_incl R j2 j3 -> judg_incl R j1 j3.
  Proof.
    intros H1 H2 a Ha. destruct (H1 a Ha) as [b [Hb Hab]]. destruct (H2 b Hb) as [c [Hc Hbc]].
    exists c. split; eauto using judg_rel_trans.
  Qed.
End rel_equiv.

Lemma te_rel_ext (R1 R2 : tyvar -> tyvar -> Prop) : (forall x y, R1 x y -> R2 x y) ->
  forall a b, te_rel R1 a b -> te_rel R2 a b.
Proof.
  intros H a b Hab. destruct Hab; constructor; auto.
  induction H0; constructor; auto. destruct H0 as [? [? ?]]. repeat split; auto.
Qed.

Lemma judg_incl_ext (R1 R2 : tyvar -> tyvar -> Prop) : (forall x y, R1 x y -> R2 x y) ->
  forall j1 j2, judg_incl R1 j1 j2 -> judg_incl R2 j1 j2.
Proof.
  intros H j1 j2 Hj a Ha. destruct (Hj a Ha) as [b [Hb [H1 H2]]]. exists b. split; auto.
  split; auto. eapply te_rel_ext; eassumption.
Qed.

Lemma cres_equiv_refl a : cres_equiv a a.
Proof.
  destruct (eqv_equiv_rel (c_eqs a)) as [Hr [Hs Ht]].
  repeat split; auto using te_rel_refl, judg_incl_refl; intros H; exact H.
Qed.

Lemma cres_equiv_sym a b : cres_equiv a b -> cres_equiv b a.
Proof.
  intros [H1 [H2 [H3 H4]]].
  assert (Hab : forall x y, eqv (c_eqs a) x y -> eqv (c_eqs b) x y) by (intros x y; apply H1).
  destruct (eqv_equiv_rel (c_eqs b)) as [Hr [Hs Ht]].
  repeat split.
  - apply H1. - apply H1.
  - apply te_rel_sym; auto. eapply te_rel_ext; eassumption.
  - eapply judg_incl_ext; eassumption.
  - eapply judg_incl_ext; eassumption.
Qed.

Lemma cres_equiv_trans a b c : cres_equiv a b -> cres_equiv b c -> cres_equiv a c.
Proof.
  intros [H1 [H2 [H3 H4]]] [H5 [H6 [H7 H8]]].
  assert (Hba : forall x y, eqv (c_eqs b) x y -> eqv (c_eqs a) x y) by (intros x y; apply H1).
  destruct (eqv_equiv_rel (c_eqs a)) as [Hr [Hs Ht]].
  repeat split.
  - intros H. apply H5. apply H1. exact H.
  - intros H. apply H1. apply H5. exact H.
  - eapply te_rel_trans; eauto. eapply te_rel_ext; eassumption.
  - eapply judg_incl_trans; eauto. eapply judg_incl_ext; eassumption.
  - eapply judg_incl_trans; eauto. eapply judg_incl_ext; eassumption.
Qed.

Theorem comb_equiv_refl a : a ≈ a.
Proof. destruct a; simpl; auto using cres_equiv_refl. Qed.
Theorem comb_equiv_sym a b : a ≈ b -> b ≈ a.
Proof. destruct a, b; simpl; auto using cres_equiv_sym. Qed.
Theorem comb_equiv_trans a b c : a ≈ b -> b ≈ c -> a ≈ c.
Proof. destruct a, b, c; simpl; try tauto. apply cres_equiv_trans. Qed.

