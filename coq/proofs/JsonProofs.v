(* Proofs for C20 (statements are collected in props/C20.v). *)
From Coq Require Import String Ascii.
From SLX Require Import Base gen.JsonNames Json.
Open Scope N_scope.

(* =============================================================================== the hex codec *)

Definition val (ds : list N) (acc : N) : N := fold_left (fun a d => a * 16 + d) ds acc.

Lemma val_ge ds : forall acc, acc <= val ds acc.
Proof.
  induction ds as [|d r IH]; intros acc; unfold val in *; cbn [fold_left]; [lia|].
  specialize (IH (acc * 16 + d)). lia.
Qed.

Lemma val_app a b acc : val (a ++ b) acc = val b (val a acc).
Proof. unfold val. apply fold_left_app. Qed.

Lemma to_digits_val n : forall x, x < 16 ^ N.of_nat n -> val (to_digits n x) 0 = x.
Proof.
  induction n as [|n IH]; intros x H.
  - cbn in H. cbn. lia.
  - cbn [to_digits]. rewrite val_app, IH.
    + unfold val. cbn [fold_left]. rewrite N.mul_comm. symmetry. apply N.div_mod. discriminate.
    + rewrite Nat2N.inj_succ, N.pow_succ_r' in H. apply N.div_lt_upper_bound; [discriminate|exact H].
Qed.

Lemma to_digits_length n : forall x, List.length (to_digits n x) = n.
Proof. induction n; intros; cbn [to_digits]; [reflexivity|]. rewrite app_length, IHn. cbn. lia. Qed.

Lemma to_digits_small n : forall x, Forall (fun d => d < 16) (to_digits n x).
Proof.
  induction n; intros; cbn [to_digits]; [constructor|]. apply Forall_app. split; [apply IHn|].
  constructor; [|constructor]. apply N.mod_lt. discriminate.
Qed.

Lemma digit_table :
  forallb (fun d => match digit_val (hex_char d) with Some x => x =? d | None => false end)
          (map N.of_nat (seq 0 16)) = true.
Proof. vm_compute. reflexivity. Qed.

Lemma digit_val_hex_char d : d < 16 -> digit_val (hex_char d) = Some d.
Proof.
  intros H. pose proof (proj1 (forallb_forall _ _) digit_table d) as T.
  assert (In d (map N.of_nat (seq 0 16))) as I.
  { rewrite <- (N2Nat.id d). apply in_map. apply in_seq. lia. }
  specialize (T I). cbv beta in T. revert T. destruct (digit_val (hex_char d)) as [x|]; intros T; [|discriminate T].
  apply N.eqb_eq in T. now subst.
Qed.

Definition hex_str (ds : list N) : string := string_of_list_ascii (map hex_char ds).

Lemma parse_digits_ok ds : forall acc, Forall (fun d => d < 16) ds -> val ds acc < two256 ->
  parse_digits (hex_str ds) acc = Some (val ds acc).
Proof.
  induction ds as [|d r IH]; intros acc Hs Hv; [reflexivity|].
  inversion Hs as [|? ? Hd Hr]; subst.
  unfold hex_str. cbn [map string_of_list_ascii parse_digits]. rewrite (digit_val_hex_char d Hd).
  cbv zeta. unfold val in Hv. cbn [fold_left] in Hv. fold (val r (acc * 16 + d)) in Hv.
  pose proof (val_ge r (acc * 16 + d)) as G.
  assert (acc * 16 + d <? two256 = true) as -> by (apply N.ltb_lt; lia).
  apply (IH (acc * 16 + d) Hr Hv).
Qed.

Lemma pow16_64 : 16 ^ N.of_nat 64 = two256.
Proof. vm_compute. reflexivity. Qed.

Lemma to_hex_shape n : to_hex n = String "0"%char (String "x"%char (hex_str (to_digits 64 n))).
Proof. reflexivity. Qed.

Lemma hex_str_nonempty ds : ds <> [] -> hex_str ds <> EmptyString.
Proof. destruct ds; [congruence|]. intros _. unfold hex_str. cbn. discriminate. Qed.

Lemma hex_roundtrip_proof n : n < two256 -> of_hex (to_hex n) = Some n.
Proof.
  intros H. rewrite to_hex_shape. unfold of_hex.
  change (Ascii.eqb "0"%char "+"%char) with false. cbv iota.
  assert (to_digits 64 n <> []) as NE.
  { intros E. pose proof (to_digits_length 64 n) as L. rewrite E in L. discriminate. }
  pose proof (hex_str_nonempty _ NE) as NE'.
  destruct (hex_str (to_digits 64 n)) as [|c s] eqn:E; [congruence|]. rewrite <- E.
  rewrite parse_digits_ok.
  - f_equal. apply to_digits_val. rewrite pow16_64. exact H.
  - apply to_digits_small.
  - rewrite to_digits_val; [exact H|]. rewrite pow16_64. exact H.
Qed.

Lemma length_string_of_list_ascii l : String.length (string_of_list_ascii l) = List.length l.
Proof. induction l; cbn; congruence. Qed.

Lemma hex_length_proof n : String.length (to_hex n) = 66%nat.
Proof.
  rewrite to_hex_shape. cbn [String.length]. unfold hex_str.
  rewrite length_string_of_list_ascii, map_length, to_digits_length. reflexivity.
Qed.

(* what the deserialiser accepts beyond the canonical form (pinned against the real code by the
   malformed stream): upper-case digits and shorter words are read, a missing or upper-case prefix
   and words beyond 256 bits are rejected *)
Lemma of_hex_upper : of_hex "0xAbC" = Some 2748.  Proof. reflexivity. Qed.
Lemma of_hex_short : of_hex "0x1" = Some 1.  Proof. reflexivity. Qed.
Lemma of_hex_plus : of_hex "+0x10" = Some 16.  Proof. reflexivity. Qed.
Lemma of_hex_no_prefix : of_hex "10" = None.  Proof. reflexivity. Qed.
Lemma of_hex_upper_prefix : of_hex "0X10" = None.  Proof. reflexivity. Qed.
Lemma of_hex_empty_digits : of_hex "0x" = None.  Proof. reflexivity. Qed.
Lemma of_hex_overflow :
  of_hex "0x10000000000000000000000000000000000000000000000000000000000000000" = None.
Proof. vm_compute. reflexivity. Qed.

(* ================================================================== induction over nested types *)

Definition child (c t : abi) : Prop :=
  match t with
  | TArray _ x | TDynArray x => c = x
  | TMapping k v => c = k \/ c = v
  | TStruct es => In c (map snd es)
  | _ => False
  end.

Lemma abi_ind' (P : abi -> Prop) : (forall t, (forall c, child c t -> P c) -> P t) -> forall t, P t.
Proof.
  intros H. fix IH 1. intros t. apply H. destruct t; cbn [child]; intros c Hc; try contradiction.
  - subst. apply IH.
  - subst. apply IH.
  - destruct Hc; subst; apply IH.
  - revert c Hc.
    refine ((fix go (l : list (N * abi)) : forall c, In c (map snd l) -> P c :=
               match l with
               | [] => fun c Hc => match Hc with end
               | e :: r => fun c Hc =>
                   match Hc with
                   | or_introl E => eq_ind (snd e) P (IH (snd e)) c E
                   | or_intror Hr => go r c Hr
                   end
               end) elements).
Qed.

(* ==================================================================== the shape of the output *)

Definition elem_json (e : N * abi) : json :=
  mk_obj perm_StructElement
    [(fs_StructElement_offset, JNum (fst e)); (fs_StructElement_typ, abi_to_json (snd e))].

Lemma elems_fix_eq es :
  (fix elems (l : list (N * abi)) : list json :=
     match l with
     | [] => []
     | (o, t') :: r =>
         mk_obj perm_StructElement
           [(fs_StructElement_offset, JNum o); (fs_StructElement_typ, abi_to_json t')]
         :: elems r
     end) es = map elem_json es.
Proof. induction es as [|[o t] r IH]; [reflexivity|]. rewrite IH. reflexivity. Qed.

Lemma to_json_struct es :
  abi_to_json (TStruct es) =
  j_variant ts_Struct (mk_obj perm_Struct [(fs_Struct_elements, JArr (map elem_json es))]).
Proof. cbn [abi_to_json]. rewrite elems_fix_eq. reflexivity. Qed.

Lemma wf_struct es :
  wf_abi (TStruct es) <-> Forall (fun e => fst e < two64 /\ wf_abi (snd e)) es.
Proof.
  cbn [wf_abi]. induction es as [|e r IH].
  - split; intros _; [constructor|exact I].
  - split; intros H.
    + destruct H as [He Hr]. constructor; [exact He|]. apply IH. exact Hr.
    + inversion H as [|? ? He Hr]; subst. split; [exact He|]. apply IH. exact Hr.
Qed.

Definition mx_depth (l : list (N * abi)) : nat :=
  (fix mx (l : list (N * abi)) : nat :=
     match l with [] => O | e :: r => Nat.max (S (abi_jdepth (snd e))) (mx r) end) l.

Lemma mx_depth_in l e : In e l -> (S (abi_jdepth (snd e)) <= mx_depth l)%nat.
Proof.
  induction l as [|x r IH]; intros H; [contradiction|]. cbn [mx_depth]. fold (mx_depth r).
  destruct H as [->|H]; [lia|]. specialize (IH H). lia.
Qed.

(* ============================================= what the derived readers make of the derived output *)
(* Each of these is a computation on concrete tag/key strings (serialise side in the document,
   deserialise side in the reader) with the payloads abstract.  They are the place where a one-sided
   rename, a duplicated key or a changed field order would break the proof. *)

Definition rec2_of (f1 : nat) : json -> option abi :=
  match f1 with S f2 => abi_of f2 | O => fun _ => None end.
Definition rec4_of (f1 : nat) : json -> option abi :=
  match f1 with S (S (S f4)) => abi_of f4 | _ => fun _ => None end.

Lemma names_agree_true : names_agree = true.
Proof. vm_compute. reflexivity. Qed.

Lemma abi_of_str f s : abi_of f (JStr s) = match vtag_of s with Some v => unit_abi v | None => None end.
Proof. destruct f; reflexivity. Qed.

Ltac variant_tac := intros; reflexivity.

Lemma av_Number f1 b : abi_of (S f1) (j_variant ts_Number b) = struct_variant VNumber (rec2_of f1) (rec4_of f1) f1 b.
Proof. variant_tac. Qed.
Lemma av_UInt f1 b : abi_of (S f1) (j_variant ts_UInt b) = struct_variant VUInt (rec2_of f1) (rec4_of f1) f1 b.
Proof. variant_tac. Qed.
Lemma av_Int f1 b : abi_of (S f1) (j_variant ts_Int b) = struct_variant VInt (rec2_of f1) (rec4_of f1) f1 b.
Proof. variant_tac. Qed.
Lemma av_Bytes f1 b : abi_of (S f1) (j_variant ts_Bytes b) = struct_variant VBytes (rec2_of f1) (rec4_of f1) f1 b.
Proof. variant_tac. Qed.
Lemma av_Bits f1 b : abi_of (S f1) (j_variant ts_Bits b) = struct_variant VBits (rec2_of f1) (rec4_of f1) f1 b.
Proof. variant_tac. Qed.
Lemma av_Array f1 b : abi_of (S f1) (j_variant ts_Array b) = struct_variant VArray (rec2_of f1) (rec4_of f1) f1 b.
Proof. variant_tac. Qed.
Lemma av_DynArray f1 b : abi_of (S f1) (j_variant ts_DynArray b) = struct_variant VDynArray (rec2_of f1) (rec4_of f1) f1 b.
Proof. variant_tac. Qed.
Lemma av_Mapping f1 b : abi_of (S f1) (j_variant ts_Mapping b) = struct_variant VMapping (rec2_of f1) (rec4_of f1) f1 b.
Proof. variant_tac. Qed.
Lemma av_Struct f1 b : abi_of (S f1) (j_variant ts_Struct b) = struct_variant VStruct (rec2_of f1) (rec4_of f1) f1 b.
Proof. variant_tac. Qed.
Lemma av_ConflictedType f1 b :
  abi_of (S f1) (j_variant ts_ConflictedType b) = struct_variant VConflictedType (rec2_of f1) (rec4_of f1) f1 b.
Proof. variant_tac. Qed.

Lemma sv_Number r r4 f a : struct_variant VNumber r r4 (S f) (mk_obj perm_Number [(fs_Number_size, a)]) = option_map TNumber (of_opt_usize a).
Proof. reflexivity. Qed.
Lemma sv_UInt r r4 f a : struct_variant VUInt r r4 (S f) (mk_obj perm_UInt [(fs_UInt_size, a)]) = option_map TUInt (of_opt_usize a).
Proof. reflexivity. Qed.
Lemma sv_Int r r4 f a : struct_variant VInt r r4 (S f) (mk_obj perm_Int [(fs_Int_size, a)]) = option_map TInt (of_opt_usize a).
Proof. reflexivity. Qed.
Lemma sv_Bytes r r4 f a : struct_variant VBytes r r4 (S f) (mk_obj perm_Bytes [(fs_Bytes_length, a)]) = option_map TBytes (of_opt_usize a).
Proof. reflexivity. Qed.
Lemma sv_Bits r r4 f a : struct_variant VBits r r4 (S f) (mk_obj perm_Bits [(fs_Bits_length, a)]) = option_map TBits (of_opt_usize a).
Proof. reflexivity. Qed.
Lemma sv_Array r r4 f a b :
  struct_variant VArray r r4 (S f) (mk_obj perm_Array [(fs_Array_size, a); (fs_Array_tp, b)]) =
  match of_u256 a, r b with Some n, Some t => Some (TArray n t) | _, _ => None end.
Proof. reflexivity. Qed.
Lemma sv_DynArray r r4 f b :
  struct_variant VDynArray r r4 (S f) (mk_obj perm_DynArray [(fs_DynArray_tp, b)]) = option_map TDynArray (r b).
Proof. reflexivity. Qed.
Lemma sv_Mapping r r4 f a b :
  struct_variant VMapping r r4 (S f) (mk_obj perm_Mapping [(fs_Mapping_key_type, a); (fs_Mapping_value_type, b)]) =
  match r a, r b with Some k, Some x => Some (TMapping k x) | _, _ => None end.
Proof. reflexivity. Qed.
Lemma sv_Struct r r4 f l :
  struct_variant VStruct r r4 (S (S f)) (mk_obj perm_Struct [(fs_Struct_elements, JArr l)]) =
  option_map TStruct (all_some (map (elem_of r4 f) l)).
Proof. reflexivity. Qed.
Definition str_of (x : json) : option string := match x with JStr s => Some s | _ => None end.
Lemma sv_ConflictedType r r4 f cs rs :
  struct_variant VConflictedType r r4 (S (S f))
    (mk_obj perm_ConflictedType [(fs_ConflictedType_conflicts, JArr cs); (fs_ConflictedType_reasons, JArr rs)]) =
  match all_some (map str_of cs), all_some (map str_of rs) with
  | Some c, Some r' => Some (TConflictedType c r')
  | _, _ => None
  end.
Proof. reflexivity. Qed.
Lemma elem_of_obj r4 f a b :
  elem_of r4 (S f) (mk_obj perm_StructElement [(fs_StructElement_offset, a); (fs_StructElement_typ, b)]) =
  match of_usize a, r4 b with Some o, Some t => Some (o, t) | _, _ => None end.
Proof. reflexivity. Qed.
Lemma slot_of_obj f a b c :
  slot_of (S f) (mk_obj perm_StorageSlot
                   [(fs_StorageSlot_index, a); (fs_StorageSlot_offset, b); (fs_StorageSlot_typ, c)]) =
  match of_u256 a, of_usize b, abi_of f c with
  | Some i, Some o, Some t => Some (mk_slot i o t)
  | _, _, _ => None
  end.
Proof. reflexivity. Qed.

Lemma of_opt_usize_jopt s : wf_opt s -> of_opt_usize (j_opt s) = Some s.
Proof.
  destruct s as [n|]; cbn [wf_opt j_opt of_opt_usize of_usize option_map]; [|reflexivity].
  intros H. apply N.ltb_lt in H. rewrite H. reflexivity.
Qed.

Lemma of_usize_num n : n < two64 -> of_usize (JNum n) = Some n.
Proof. intros H. cbn [of_usize]. apply N.ltb_lt in H. rewrite H. reflexivity. Qed.

Lemma strs_back l : all_some (map str_of (map JStr l)) = Some l.
Proof. induction l as [|s r IH]; [reflexivity|]. cbn [map str_of all_some]. rewrite IH. reflexivity. Qed.

(* ================================================================================ the round trip *)

Lemma abi_roundtrip_proof : forall t, wf_abi t -> forall f, (abi_jdepth t <= f)%nat ->
  abi_of f (abi_to_json t) = Some t.
Proof.
  induction t as [t IH] using abi_ind'. intros W f D.
  destruct t as [ |sz|sz|sz| | | | |n tp|sz|sz|tp| |k v|es0| |cs rs]; cbn [abi_to_json abi_jdepth wf_abi] in *;
    try (rewrite abi_of_str; reflexivity).
  - (* Number *) destruct f as [|[|f2]]; try lia. rewrite av_Number, sv_Number, of_opt_usize_jopt; auto.
  - destruct f as [|[|f2]]; try lia. rewrite av_UInt, sv_UInt, of_opt_usize_jopt; auto.
  - destruct f as [|[|f2]]; try lia. rewrite av_Int, sv_Int, of_opt_usize_jopt; auto.
  - (* Array *) destruct f as [|[|f2]]; try lia. destruct W as [Wn Wt].
    rewrite av_Array, sv_Array. cbn [of_u256 rec2_of]. rewrite hex_roundtrip_proof by exact Wn.
    rewrite (IH tp (eq_refl : child tp (TArray n tp)) Wt f2) by lia. reflexivity.
  - destruct f as [|[|f2]]; try lia. rewrite av_Bytes, sv_Bytes, of_opt_usize_jopt; auto.
  - destruct f as [|[|f2]]; try lia. rewrite av_Bits, sv_Bits, of_opt_usize_jopt; auto.
  - (* DynArray *) destruct f as [|[|f2]]; try lia.
    rewrite av_DynArray, sv_DynArray. cbn [rec2_of].
    rewrite (IH tp (eq_refl : child tp (TDynArray tp)) W f2) by lia. reflexivity.
  - (* Mapping *) destruct f as [|[|f2]]; try lia. destruct W as [Wk Wv].
    rewrite av_Mapping, sv_Mapping. cbn [rec2_of].
    rewrite (IH k (or_introl eq_refl : child k (TMapping k v)) Wk f2) by lia.
    rewrite (IH v (or_intror eq_refl : child v (TMapping k v)) Wv f2) by lia. reflexivity.
  - (* Struct *)
    fold (mx_depth es0) in D.
    assert (forall e, In e es0 -> S (abi_jdepth (snd e)) <= mx_depth es0)%nat as M
      by (intros e; apply mx_depth_in).
    change (abi_of f (abi_to_json (TStruct es0)) = Some (TStruct es0)).
    rewrite to_json_struct.
    assert (Forall (fun e => fst e < two64 /\ wf_abi (snd e)) es0) as W'
      by (apply wf_struct; exact W).
    clear W.
    destruct f as [|[|[|f3]]]; try lia.
    rewrite av_Struct, sv_Struct.
    destruct es0 as [|e0 r0]; [reflexivity|].
    set (es := e0 :: r0) in *.
    assert (1 <= mx_depth es)%nat as M1 by (specialize (M e0 (or_introl eq_refl)); lia).
    destruct f3 as [|f4]; [lia|]. cbn [rec4_of].
    assert (all_some (map (elem_of (abi_of f4) (S f4)) (map elem_json es)) = Some es) as ->; [|reflexivity].
    assert (forall e, In e es -> child (snd e) (TStruct es)) as C
      by (intros e He; cbn [child]; apply in_map; exact He).
    clearbody es. clear e0 r0 M1.
    assert (forall l, (forall e, In e l -> In e es) ->
                      all_some (map (elem_of (abi_of f4) (S f4)) (map elem_json l)) = Some l) as G.
    { induction l as [|[o t] r IHl]; intros Sub; [reflexivity|].
      cbn [map]. unfold elem_json at 1. rewrite elem_of_obj. cbn [fst snd].
      assert (In (o, t) es) as He by (apply Sub; left; reflexivity).
      pose proof (proj1 (Forall_forall _ _) W' _ He) as [Wo Wt]. cbn [fst snd] in Wo, Wt.
      rewrite (of_usize_num o Wo).
      pose proof (M _ He) as Me. cbn [snd] in Me.
      rewrite (IH t (C _ He) Wt f4) by lia.
      cbn [all_some]. rewrite IHl; [reflexivity|]. intros e' He'. apply Sub. right. exact He'. }
    apply G. auto.
  - (* ConflictedType *) destruct f as [|[|[|f3]]]; try lia.
    rewrite av_ConflictedType, sv_ConflictedType, !strs_back. reflexivity.
Qed.

Lemma json_roundtrip_lim_proof : forall s f, wf_slot s -> (slot_jdepth s <= f)%nat ->
  slot_of f (to_json s) = Some s.
Proof.
  intros [i o t] f [Wi [Wo Wt]] D. unfold slot_jdepth in D. cbn [s_index s_offset s_typ] in *.
  destruct f as [|f1]; [lia|]. unfold to_json. cbn [s_index s_offset s_typ].
  rewrite slot_of_obj. cbn [of_u256]. rewrite (hex_roundtrip_proof i Wi), (of_usize_num o Wo).
  rewrite (abi_roundtrip_proof t Wt f1) by lia. reflexivity.
Qed.

(* ----------------------------------------------------------------- depth of the written document *)

Lemma jdepth_variant tag b : jdepth (j_variant tag b) = S (jdepth b).
Proof. unfold j_variant. cbn [jdepth fold_right snd]. rewrite Nat.max_0_r. reflexivity. Qed.

Lemma jdepth_elems (l : list (N * abi)) :
  (forall e, In e l -> jdepth (abi_to_json (snd e)) = abi_jdepth (snd e)) ->
  fold_right (fun x acc => Nat.max (jdepth x) acc) O (map elem_json l) = mx_depth l.
Proof.
  induction l as [|e r IH]; intros H; [reflexivity|].
  cbn [map fold_right mx_depth]. fold (mx_depth r). rewrite IH by (intros e' He'; apply H; right; exact He').
  f_equal. unfold elem_json.
  rewrite <- (H e (or_introl eq_refl)).
  cbn -[Nat.max abi_to_json]. lia.
Qed.

Lemma jdepth_strs l : jdepth (JArr (map JStr l)) = 1%nat.
Proof. cbn [jdepth]. f_equal. induction l as [|s r IH]; [reflexivity|]. cbn [map fold_right jdepth]. exact IH. Qed.

Lemma jdepth_abi_proof : forall t, jdepth (abi_to_json t) = abi_jdepth t.
Proof.
  induction t as [t IH] using abi_ind'.
  destruct t as [ |sz|sz|sz| | | | |n tp|sz|sz|tp| |k v|es| |cs rs]; try reflexivity; try (destruct sz; reflexivity).
  - cbn [abi_to_json abi_jdepth]. rewrite jdepth_variant.
    rewrite <- (IH tp (eq_refl : child tp (TArray n tp))). cbn -[Nat.max abi_to_json to_hex]. lia.
  - cbn [abi_to_json abi_jdepth]. rewrite jdepth_variant.
    rewrite <- (IH tp (eq_refl : child tp (TDynArray tp))). cbn -[Nat.max abi_to_json]. lia.
  - cbn [abi_to_json abi_jdepth]. rewrite jdepth_variant.
    rewrite <- (IH k (or_introl eq_refl : child k (TMapping k v))).
    rewrite <- (IH v (or_intror eq_refl : child v (TMapping k v))).
    cbn -[Nat.max abi_to_json]. lia.
  - rewrite to_json_struct, jdepth_variant. cbn [abi_jdepth]. fold (mx_depth es).
    assert (jdepth (JArr (map elem_json es)) = S (mx_depth es)) as E.
    { cbn [jdepth]. f_equal. apply jdepth_elems. intros e He. apply IH. cbn [child]. apply in_map. exact He. }
    revert E. generalize (JArr (map elem_json es)). intros j E.
    cbn -[Nat.max]. lia.
  - cbn [abi_to_json abi_jdepth]. rewrite jdepth_variant.
    pose proof (jdepth_strs cs) as A. pose proof (jdepth_strs rs) as B.
    revert A B. generalize (JArr (map JStr cs)) (JArr (map JStr rs)). intros a b A B.
    cbn -[Nat.max]. lia.
Qed.

Lemma jdepth_slot_proof s : jdepth (to_json s) = slot_jdepth s.
Proof.
  unfold slot_jdepth. rewrite <- jdepth_abi_proof. unfold to_json.
  generalize (abi_to_json (s_typ s)). intros j. cbn -[Nat.max to_hex]. lia.
Qed.

(* ------------------------------------------------------------------------------- the statements *)

Lemma json_roundtrip_proof : forall s, wf_slot s -> of_json_nolimit (to_json s) = Some s.
Proof.
  intros s W. unfold of_json_nolimit. apply json_roundtrip_lim_proof; [exact W|].
  rewrite jdepth_slot_proof. lia.
Qed.

Lemma json_roundtrip_default_proof : forall s, wf_slot s -> (jdepth (to_json s) <= 127)%nat ->
  of_json (to_json s) = Some s.
Proof.
  intros s W D. unfold of_json, default_budget. apply json_roundtrip_lim_proof; [exact W|].
  rewrite <- jdepth_slot_proof. exact D.
Qed.

Lemma abi_nest_depth : forall t, (abi_jdepth t <= 4 * abi_nest t)%nat.
Proof.
  induction t as [t IH] using abi_ind'.
  destruct t as [ |sz|sz|sz| | | | |n tp|sz|sz|tp| |k v|es| |cs rs]; cbn [abi_jdepth abi_nest]; try lia.
  - specialize (IH tp (eq_refl : child tp (TArray n tp))). lia.
  - specialize (IH tp (eq_refl : child tp (TDynArray tp))). lia.
  - pose proof (IH k (or_introl eq_refl : child k (TMapping k v))).
    pose proof (IH v (or_intror eq_refl : child v (TMapping k v))). lia.
  - assert (forall e, In e es -> abi_jdepth (snd e) <= 4 * abi_nest (snd e))%nat as H
      by (intros e He; apply IH; cbn [child]; apply in_map; exact He).
    clear IH. induction es as [|e r IHr]; [lia|].
    specialize (IHr (fun e' He' => H e' (or_intror He'))).
    specialize (H e (or_introl eq_refl)). lia.
Qed.

(* every type nested at most 31 constructors deep is inside the default limit *)
Lemma json_roundtrip_shallow_proof : forall s, wf_slot s -> (abi_nest (s_typ s) <= 31)%nat ->
  of_json (to_json s) = Some s.
Proof.
  intros s W D. apply json_roundtrip_default_proof; [exact W|].
  rewrite jdepth_slot_proof. unfold slot_jdepth. pose proof (abi_nest_depth (s_typ s)). lia.
Qed.

(* ... and the limit is real: a dynamic array nested 64 times is written but not read back *)
Fixpoint dyn_chain (n : nat) : abi := match n with O => TAny | S k => TDynArray (dyn_chain k) end.
Definition deep_slot : slot := mk_slot 1 0 (dyn_chain 64).

Lemma json_roundtrip_default_refuted_proof : exists s, wf_slot s /\ of_json (to_json s) = None.
Proof.
  exists deep_slot. split.
  - unfold wf_slot, deep_slot. cbn [s_index s_offset s_typ]. split; [vm_compute; reflexivity|]. split; [vm_compute; reflexivity|]. vm_compute. exact I.
  - vm_compute. reflexivity.
Qed.

(* the reader is more liberal than the writer: reordered and unknown keys, `null` bodies for unit
   variants, and the positional array form (in declaration order) *)
Lemma of_json_liberal :
  of_json (JObj [("zzz", JArr [JNumX]); (fd_StorageSlot_typ, JObj [(td_Bool, JNull)]);
                 (fd_StorageSlot_offset, JNum 2); (fd_StorageSlot_index, JStr "0xA")])
  = Some (mk_slot 10 2 TBool).
Proof. vm_compute. reflexivity. Qed.

Lemma of_json_array_form :
  of_json (JArr (permute perm_StorageSlot
                   [JStr "0x1"; JNum 2;
                    JObj [(td_Mapping, JArr (permute perm_Mapping [JStr td_Address; JObj [(td_Bool, JNull)]]))]]))
  = Some (mk_slot 1 2 (TMapping TAddress TBool)).
Proof. vm_compute. reflexivity. Qed.

Lemma of_json_duplicate_key :
  of_json (JObj [(fd_StorageSlot_index, JStr "0x1"); (fd_StorageSlot_offset, JNum 2);
                 (fd_StorageSlot_typ, JStr td_Any); (fd_StorageSlot_offset, JNum 2)]) = None.
Proof. vm_compute. reflexivity. Qed.
