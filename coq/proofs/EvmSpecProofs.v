(* Facts about the Yellow-Paper specification itself (EvmSpec.v): every result is a word, and the
   executable versions used when evaluating the oracle agree with the mathematical formulas. *)
From Coq Require Import NArithRing.
From SLX Require Import Base Word256 EvmSpec proofs.Word256Proofs.
Open Scope N_scope.
Set Default Timeout 60.

Lemma P256 : 2 ^ 256 = W. Proof. reflexivity. Qed.

Lemma word_of_Z_range z : word_of_Z z < W.
Proof.
  unfold word_of_Z. assert (H : (0 < 2 ^ 256)%Z) by reflexivity.
  pose proof (Z.mod_pos_bound z (2 ^ 256) H) as Hb.
  apply N2Z.inj_lt. rewrite Z2N.id by lia. change (Z.of_N W) with (2 ^ 256)%Z. lia.
Qed.

Lemma bit_range b : bit b < W.
Proof. destruct b; reflexivity. Qed.

Lemma lt_pow2_log2 a n : a < 2 ^ n <-> (a = 0 \/ N.log2 a < n).
Proof.
  destruct (N.eq_dec a 0) as [->|Hn].
  - split; [now left|]. intros _. apply N.neq_0_lt_0, N.pow_nonzero. discriminate.
  - rewrite <- N.log2_lt_pow2 by lia. split; [now right|]. intros [E|H]; [contradiction|exact H].
Qed.

Lemma land_range a b : a < W -> b < W -> N.land a b < W.
Proof.
  unfold W. rewrite !lt_pow2_log2. intros [->|Ha] Hb; [left; apply N.land_0_l|].
  destruct (N.eq_dec (N.land a b) 0) as [E|E]; [now left|right].
  eapply N.le_lt_trans; [apply N.log2_land|]. apply N.min_lt_iff. now left.
Qed.

Lemma lor_range a b : a < W -> b < W -> N.lor a b < W.
Proof.
  unfold W. rewrite !lt_pow2_log2. intros [->|Ha] [->|Hb].
  - left. reflexivity.
  - rewrite N.lor_0_l. now right.
  - rewrite N.lor_0_r. now right.
  - right. rewrite N.log2_lor. now apply N.max_lub_lt.
Qed.

Lemma lxor_range a b : a < W -> b < W -> N.lxor a b < W.
Proof.
  unfold W. rewrite !lt_pow2_log2. intros [->|Ha] [->|Hb].
  - left. reflexivity.
  - rewrite N.lxor_0_l. now right.
  - rewrite N.lxor_0_r. now right.
  - destruct (N.eq_dec (N.lxor a b) 0) as [E|E]; [now left|right].
    eapply N.le_lt_trans; [apply N.log2_lxor|]. now apply N.max_lub_lt.
Qed.


  Lemma spec_add_range a b (Ha : a < W) (Hb : b < W) : spec_add a b < W. Proof. unfold spec_add. rewrite P256. apply mod_W_range. Qed.
  Lemma spec_mul_range a b (Ha : a < W) (Hb : b < W) : spec_mul a b < W. Proof. unfold spec_mul. rewrite P256. apply mod_W_range. Qed.
  Lemma spec_sub_range a b (Ha : a < W) (Hb : b < W) : spec_sub a b < W. Proof. apply word_of_Z_range. Qed.
  Lemma spec_div_range a b (Ha : a < W) (Hb : b < W) : spec_div a b < W.
  Proof.
    unfold spec_div. destruct (N.eqb_spec b 0) as [E|E]; [reflexivity|].
    apply N.le_lt_trans with a; [|exact Ha]. apply N.div_le_upper_bound; [exact E|]. nia.
  Qed.
  Lemma spec_sdiv_range a b (Ha : a < W) (Hb : b < W) : spec_sdiv a b < W.
  Proof.
    unfold spec_sdiv. cbv zeta. destruct (sgn256 b =? 0)%Z; [reflexivity|].
    destruct ((sgn256 a =? - 2 ^ 255) && (sgn256 b =? -1))%Z; apply word_of_Z_range.
  Qed.
  Lemma spec_mod_range a b (Ha : a < W) (Hb : b < W) : spec_mod a b < W.
  Proof.
    unfold spec_mod. destruct (N.eqb_spec b 0) as [E|E]; [reflexivity|].
    apply N.lt_trans with b; [apply N.mod_lt; exact E|exact Hb].
  Qed.
  Lemma spec_smod_range a b (Ha : a < W) (Hb : b < W) : spec_smod a b < W.
  Proof. unfold spec_smod. cbv zeta. destruct (sgn256 b =? 0)%Z; [reflexivity|apply word_of_Z_range]. Qed.
  Lemma spec_exp_range a b (Ha : a < W) (Hb : b < W) : spec_exp a b < W. Proof. unfold spec_exp. rewrite P256. apply mod_W_range. Qed.
  Lemma spec_lt_range a b (Ha : a < W) (Hb : b < W) : spec_lt a b < W. Proof. apply bit_range. Qed.
  Lemma spec_gt_range a b (Ha : a < W) (Hb : b < W) : spec_gt a b < W. Proof. apply bit_range. Qed.
  Lemma spec_slt_range a b (Ha : a < W) (Hb : b < W) : spec_slt a b < W. Proof. apply bit_range. Qed.
  Lemma spec_sgt_range a b (Ha : a < W) (Hb : b < W) : spec_sgt a b < W. Proof. apply bit_range. Qed.
  Lemma spec_eq_range a b (Ha : a < W) (Hb : b < W) : spec_eq a b < W. Proof. apply bit_range. Qed.
  Lemma spec_iszero_range a (Ha : a < W) : spec_iszero a < W. Proof. apply bit_range. Qed.
  Lemma spec_and_range a b (Ha : a < W) (Hb : b < W) : spec_and a b < W. Proof. apply land_range; assumption. Qed.
  Lemma spec_or_range a b (Ha : a < W) (Hb : b < W) : spec_or a b < W. Proof. apply lor_range; assumption. Qed.
  Lemma spec_xor_range a b (Ha : a < W) (Hb : b < W) : spec_xor a b < W. Proof. apply lxor_range; assumption. Qed.
  Lemma spec_not_range a (Ha : a < W) : spec_not a < W.
  Proof. unfold spec_not. rewrite P256. assert (0 < W) by apply W_pos. lia. Qed.
  Lemma spec_shl_range a b (Ha : a < W) (Hb : b < W) : spec_shl a b < W. Proof. unfold spec_shl. rewrite P256. apply mod_W_range. Qed.
  Lemma spec_shr_range a b (Ha : a < W) (Hb : b < W) : spec_shr a b < W.
  Proof.
    unfold spec_shr. apply N.le_lt_trans with b; [|exact Hb].
    apply N.div_le_upper_bound; [apply N.pow_nonzero; discriminate|].
    assert (0 < 2 ^ a) by (apply N.neq_0_lt_0, N.pow_nonzero; discriminate). nia.
  Qed.
  Lemma spec_sar_range a b (Ha : a < W) (Hb : b < W) : spec_sar a b < W. Proof. apply word_of_Z_range. Qed.
  Lemma spec_byte_range a b (Ha : a < W) (Hb : b < W) : spec_byte a b < W.
  Proof.
    unfold spec_byte. destruct (a <? 32); [|reflexivity].
    apply N.lt_trans with 256; [apply N.mod_lt; discriminate|reflexivity].
  Qed.
  Lemma spec_signextend_range a b (Ha : a < W) (Hb : b < W) : spec_signextend a b < W.
  Proof.
    unfold spec_signextend. destruct (N.ltb_spec a 31) as [Hs|Hs]; [|exact Hb]. cbv zeta.
    assert (Hlow : b mod 2 ^ (8 * a + 7 + 1) < 2 ^ (8 * a + 7 + 1)) by (apply N.mod_lt, N.pow_nonzero; discriminate).
    assert (Hle : 2 ^ (8 * a + 7 + 1) <= 2 ^ 256) by (apply N.pow_le_mono_r; [discriminate|lia]).
    rewrite P256 in *.
    destruct (N.testbit b (8 * a + 7)); lia.
  Qed.
  Lemma spec_addmod_range a b m (Ha : a < W) (Hb : b < W) (Hm : m < W) : spec_addmod a b m < W.
  Proof.
    unfold spec_addmod. destruct (N.eqb_spec m 0) as [E|E]; [reflexivity|].
    apply N.lt_trans with m; [apply N.mod_lt; exact E|exact Hm].
  Qed.
  Lemma spec_mulmod_range a b m (Ha : a < W) (Hb : b < W) (Hm : m < W) : spec_mulmod a b m < W.
  Proof.
    unfold spec_mulmod. destruct (N.eqb_spec m 0) as [E|E]; [reflexivity|].
    apply N.lt_trans with m; [apply N.mod_lt; exact E|exact Hm].
  Qed.

(* ---- executable versions ---- *)

Lemma low256_mod n : low256 n = n mod W.
Proof. unfold low256. apply N.land_ones. Qed.

Lemma powmod_pos_spec a e : powmod_pos a e = (a ^ Npos e) mod 2 ^ 256.
Proof.
  rewrite P256. induction e as [e IH|e IH|]; cbn [powmod_pos]; rewrite ?low256_mod.
  - rewrite IH. rewrite <- N.mul_mod by apply W_nz. rewrite N.mul_mod_idemp_r by apply W_nz.
    replace (N.pos e~1) with (N.succ (N.pos e + N.pos e)) by lia.
    rewrite N.pow_succ_r', N.pow_add_r. reflexivity.
  - rewrite IH. rewrite <- N.mul_mod by apply W_nz.
    replace (N.pos e~0) with (N.pos e + N.pos e) by lia.
    rewrite N.pow_add_r. reflexivity.
  - now rewrite N.pow_1_r.
Qed.

Lemma xspec_exp_eq a b : xspec_exp a b = spec_exp a b.
Proof.
  unfold xspec_exp, spec_exp. destruct b as [|e]; [reflexivity|apply powmod_pos_spec].
Qed.

Lemma xspec_shl_eq s v : xspec_shl s v = spec_shl s v.
Proof.
  unfold xspec_shl, spec_shl. destruct (N.leb_spec 256 s) as [Hs|Hs]; [|reflexivity].
  rewrite P256. destruct (pow2_ge_W s Hs) as (k & -> & _).
  rewrite N.mul_assoc, (N.mul_comm v W), <- N.mul_assoc, N.mul_comm. symmetry. apply N.mod_mul, W_nz.
Qed.

Lemma xspec_shr_eq s v : v < W -> xspec_shr s v = spec_shr s v.
Proof.
  intros Hv. unfold xspec_shr, spec_shr. destruct (N.leb_spec 256 s) as [Hs|Hs]; [|reflexivity].
  symmetry. apply N.div_small. pose proof (pow2_le_W s Hs). lia.
Qed.

Lemma xspec_sar_eq s v : v < W -> xspec_sar s v = spec_sar s v.
Proof.
  intros Hv. unfold xspec_sar, spec_sar. destruct (N.leb_spec 256 s) as [Hs|Hs]; [|reflexivity].
  assert (Hp : (2 ^ 256 <= 2 ^ Z.of_N s)%Z).
  { pose proof (pow2_le_W s Hs) as Hle. apply N2Z.inj_le in Hle. rewrite N2Z.inj_pow in Hle. exact Hle. }
  assert (H255 : (2 ^ 256 = 2 * 2 ^ 255)%Z) by reflexivity.
  assert (H255p : (0 < 2 ^ 255)%Z) by reflexivity.
  assert (HvZ : (Z.of_N v < 2 ^ 256)%Z) by (change (2 ^ 256)%Z with (Z.of_N W); lia).
  unfold sgn256. destruct (N.ltb_spec v (2 ^ 255)) as [Hl|Hl].
  - assert (Hz : (Z.of_N v < 2 ^ 255)%Z) by (change (2 ^ 255)%Z with (Z.of_N (2 ^ 255)); lia).
    rewrite Z.div_small by lia. reflexivity.
  - assert (Hz : (2 ^ 255 <= Z.of_N v)%Z) by (change (2 ^ 255)%Z with (Z.of_N (2 ^ 255)); lia).
    replace ((Z.of_N v - 2 ^ 256) / 2 ^ Z.of_N s)%Z with (-1)%Z; [reflexivity|].
    apply Z.div_unique with (r := (Z.of_N v - 2 ^ 256 + 2 ^ Z.of_N s)%Z); lia.
Qed.
