(* C07 simulation, part 2: the simulation relation between a symbolic thread and a concrete EVM state,
   and its soundness for the executable comparison `Sim.match_state` used by the check. *)
From SLX Require Import Base gen.Constants gen.ValueSig gen.OpcodeTable SymVal Micro gen.OpcodeSem Disasm
                        Word256 EvmSpec KnownWord Fold Evm VM Sim.
From SLX Require Import proofs.DisasmProofs proofs.Word256Proofs proofs.FoldProofs proofs.VmSimBase.
Open Scope N_scope.
Set Default Timeout 120.

(* what the symbolic state says about a memory word / a storage slot *)
Definition mem_word (st : vstate) (o : N) : option N :=
  match alookup N.eqb o (mem_const st) with Some g => den (last_data g) | None => Some 0 end.
Definition emem_word (e : estate) (o : N) : word :=
  match alist_get o (e_mem e) with Some w => w | None => Some 0 end.
Definition sto_gens (st : vstate) (k : N) : list sv :=
  match alookup sv_eqb (Known k) (sto_known st) with Some g => g | None => [] end.
Definition esto_word (e : estate) (k : N) : word :=
  match alist_get k (e_sto e) with Some w => w | None => Some 0 end.

Definition gens_good (og : N * list memgen) : Prop := Forall (fun g => good (fst g)) (snd og).
Definition slot_ok (kg : sv * list sv) : Prop := is_known (fst kg) = true /\ snd kg <> [] /\ Forall wf (snd kg).

(* ---- the state part of the simulation relation ---- *)
Record Rst (st : vstate) (e : estate) : Prop := mk_Rst {
  (* stacks: pointwise, top first *)
  r_stack : map den (stack st) = e_stack e;
  r_depth : (length (stack st) <= 1024)%nat;
  r_good : Forall good (stack st);
  (* memory: the last generation at every constant offset denotes the concrete word (absent = 0 on both sides) *)
  r_mem : forall o, mem_word st o = emem_word e o;
  r_mem_nd : NoDup (map fst (mem_const st));
  r_mem_good : Forall gens_good (mem_const st);
  r_emem_nd : NoDup (map fst (e_mem e));
  r_emem_dom : forall o, alist_get o (e_mem e) <> None -> alookup N.eqb o (mem_const st) <> None;
  (* storage: literal keys only; last generation = concrete value; written generations = the path's history *)
  r_sto_sym : sto_sym st = [];
  r_sto_ok : Forall slot_ok (sto_known st);
  r_sto_nd : NoDup (map fst (sto_known st));
  r_sto : forall k, den (last (sto_gens st k) (Known 0)) = esto_word e k;
  r_hist : forall k, map den (written (sto_gens st k)) = hist_of k (e_hist e);
  r_esto_nd : NoDup (map fst (e_sto e));
  r_esto_dom : forall k, alist_get k (e_sto e) <> None -> alookup sv_eqb (Known k) (sto_known st) <> None }.

Lemma Rst_init : Rst empty_state e_init.
Proof.
  constructor; cbn; try constructor; try reflexivity; try lia; intros; try reflexivity; try congruence.
Qed.

(* only the stack changes *)
Lemma Rst_stack st e s' es' pc' :
  Rst st e -> map den s' = es' -> (length s' <= 1024)%nat -> Forall good s' ->
  Rst (with_stack st s') (with_pc_stack e pc' es').
Proof. intros [] H1 H2 H3. constructor; cbn; assumption. Qed.

Lemma Rst_recorded st e v : Rst st e -> Rst (with_recorded st v) e.
Proof. intros []. constructor; cbn; assumption. Qed.

Lemma Rst_fork_point st e fp : Rst st e -> Rst (with_fork_point st fp) e.
Proof. intros []. constructor; cbn; assumption. Qed.

Lemma Rst_mem_sym st e ms :
  Rst st e -> Rst (mk_vstate (fork_point st) (stack st) (mem_const st) ms (sto_known st) (sto_sym st) (recorded st) (logged st)) e.
Proof. intros []. constructor; cbn; assumption. Qed.

Lemma Rst_pc st e pc : Rst st e -> Rst st (with_pc_stack e pc (e_stack e)).
Proof. intros []. constructor; cbn; assumption. Qed.

(* ---- soundness of the executable comparison ---- *)
Lemma word_eqb_refl w : word_eqb w w = true.
Proof. destruct w; cbn; [apply N.eqb_refl|reflexivity]. Qed.

Theorem match_state_sound st e : Rst st e -> match_state st e = 0.
Proof.
  intros [Hs _ _ Hm Hmn _ Hen Hed Hsym Hok Hsn Hsto Hh Hesn Hesd]. unfold match_state.
  rewrite Hs, (list_eqb_refl word_eqb word_eqb_refl). cbn [negb].
  assert (H1 : forallb (fun kv => match alookup N.eqb (fst kv) (mem_const st) with
                                   | Some g => word_eqb (den (last_data g)) (snd kv) | None => false end) (e_mem e) = true).
  { apply forallb_forall. intros [o w] Hin. cbn [fst snd].
    assert (Hg : alist_get o (e_mem e) = Some w) by (rewrite alist_get_alookup; apply (in_alookup N.eqb N_eqb_spec); assumption).
    specialize (Hm o). unfold mem_word, emem_word in Hm. rewrite Hg in Hm.
    destruct (alookup N.eqb o (mem_const st)) as [g|] eqn:E; [rewrite Hm; apply word_eqb_refl|].
    exfalso. apply (Hed o); congruence. }
  rewrite H1. cbn [negb].
  assert (H2 : forallb (fun kg => match alist_get (fst kg) (e_mem e) with
                                   | Some w => true | None => word_eqb (den (last_data (snd kg))) (Some 0) end) (mem_const st) = true).
  { apply forallb_forall. intros [o g] Hin. cbn [fst snd].
    destruct (alist_get o (e_mem e)) eqn:Eg; [reflexivity|].
    specialize (Hm o). unfold mem_word, emem_word in Hm.
    rewrite (in_alookup N.eqb N_eqb_spec o g _ Hmn Hin), Eg in Hm. rewrite Hm. reflexivity. }
  rewrite H2. cbn [negb].
  assert (H3 : forallb (fun kv => match alookup sv_eqb (Known (fst kv)) (sto_known st) with
                                   | Some g => word_eqb (den (last g (Known 0))) (snd kv) | None => false end) (e_sto e) = true).
  { apply forallb_forall. intros [k w] Hin. cbn [fst snd].
    assert (Hg : alist_get k (e_sto e) = Some w) by (rewrite alist_get_alookup; apply (in_alookup N.eqb N_eqb_spec); assumption).
    specialize (Hsto k). unfold sto_gens, esto_word in Hsto. rewrite Hg in Hsto.
    destruct (alookup sv_eqb (Known k) (sto_known st)) as [g|] eqn:E; [rewrite Hsto; apply word_eqb_refl|].
    exfalso. apply (Hesd k); congruence. }
  rewrite H3. cbn [negb].
  assert (H4 : forallb (fun kg => match as_word (fst kg) with
                                   | Some k => list_eqb word_eqb (map den (written (snd kg))) (hist_of k (e_hist e))
                                   | None => false end) (sto_known st) = true).
  { apply forallb_forall. intros [key g] Hin. cbn [fst snd].
    rewrite Forall_forall in Hok. destruct (Hok _ Hin) as (Hk & _ & _). cbn [fst] in Hk. unfold is_known in Hk.
    destruct (as_word key) as [k|] eqn:Ek; [|discriminate]. apply as_word_some in Ek. subst key.
    specialize (Hh k). unfold sto_gens in Hh. rewrite (in_alookup sv_eqb sv_eqb_eq _ _ _ Hsn Hin) in Hh.
    rewrite Hh. apply list_eqb_refl, word_eqb_refl. }
  rewrite H4, Hsym. reflexivity.
Qed.

(* ---- state updates ---- *)
Definition mem_app (v : sv) (g : option (list memgen)) : list memgen :=
  match g with Some g => g ++ [(v, false)] | None => [(v, false)] end.
Definition sto_app (v : sv) (g : option (list sv)) : list sv :=
  match g with Some g => g ++ [v] | None => [v] end.

Lemma last_data_app v g : last_data (mem_app v g) = v.
Proof. destruct g as [g|]; unfold mem_app, last_data; [rewrite last_last|]; reflexivity. Qed.

(* MSTORE at the constant offset o *)
Lemma Rst_mstore st e o v s es pc :
  Rst st e -> good v -> map den s = es -> Forall good s -> (length s <= 1024)%nat ->
  Rst (mk_vstate (fork_point st) s (aupdate N.eqb o (mem_app v) (mem_const st)) (mem_sym st)
                 (sto_known st) (sto_sym st) (recorded st) (logged st))
      (mk_estate pc es (alist_set o (den v) (e_mem e)) (e_sto e) (e_hist e)).
Proof.
  intros [Hs Hd Hg Hm Hmn Hmg Hen Hed Hsym Hok Hsn Hsto Hh Hesn Hesd] Hv Hes Hgs Hl.
  constructor; cbn [stack mem_const mem_sym sto_known sto_sym e_stack e_mem e_sto e_hist]; try assumption.
  - intros o'. unfold mem_word, emem_word. cbn [mem_const e_mem]. rewrite alist_get_alookup, alist_set_aupdate.
    destruct (N.eq_dec o' o) as [->|Hne].
    + rewrite !(alookup_aupdate_same N.eqb N_eqb_spec). now rewrite last_data_app.
    + rewrite !(alookup_aupdate_other N.eqb N_eqb_spec) by assumption. rewrite <- alist_get_alookup. apply Hm.
  - now apply (aupdate_nodup N.eqb N_eqb_spec).
  - apply aupdate_forall; [exact N_eqb_spec|assumption|]. unfold gens_good. cbn [snd].
    destruct (alookup N.eqb o (mem_const st)) as [g|] eqn:E; cbn [mem_app].
    + apply Forall_app. split; [|constructor; [exact Hv|constructor]].
      apply (alookup_in N.eqb N_eqb_spec) in E. rewrite Forall_forall in Hmg. apply (Hmg _ E).
    + constructor; [exact Hv|constructor].
  - rewrite alist_set_aupdate. now apply (aupdate_nodup N.eqb N_eqb_spec).
  - intros o'. rewrite alist_get_alookup, alist_set_aupdate. destruct (N.eq_dec o' o) as [->|Hne].
    + intros _. rewrite (alookup_aupdate_same N.eqb N_eqb_spec). discriminate.
    + rewrite !(alookup_aupdate_other N.eqb N_eqb_spec) by assumption. rewrite <- alist_get_alookup. apply Hed.
Qed.

(* MLOAD of an offset the path has not touched: get_or_initialize adds a zero generation *)
Lemma Rst_mem_init st e o :
  Rst st e -> alookup N.eqb o (mem_const st) = None ->
  Rst (mk_vstate (fork_point st) (stack st) (mem_const st ++ [(o, zero_gen)]) (mem_sym st)
                 (sto_known st) (sto_sym st) (recorded st) (logged st)) e.
Proof.
  intros [Hs Hd Hg Hm Hmn Hmg Hen Hed Hsym Hok Hsn Hsto Hh Hesn Hesd] Hnone.
  constructor; cbn [stack mem_const mem_sym sto_known sto_sym]; try assumption.
  - intros o'. specialize (Hm o'). unfold mem_word in *. cbn [mem_const]. rewrite alookup_app.
    destruct (alookup N.eqb o' (mem_const st)) as [g|] eqn:E; [exact Hm|].
    cbn [alookup]. destruct (o' =? o) eqn:Eo; [|exact Hm]. apply N.eqb_eq in Eo. subst o'. exact Hm.
  - now apply (app_entry_nodup N.eqb N_eqb_spec).
  - apply Forall_app. split; [assumption|]. constructor; [|constructor]. constructor; [|constructor]. apply good_known. reflexivity.
  - intros o' H. specialize (Hed o' H). rewrite alookup_app. destruct (alookup N.eqb o' (mem_const st)); congruence.
Qed.

Lemma sv_known_neq a b : a <> b -> Known a <> Known b.
Proof. intros H E. apply H. now apply known_inj. Qed.

(* SLOAD of a slot the path has not touched: the placeholder generation *)
Lemma Rst_sto_init st e k :
  Rst st e -> alookup sv_eqb (Known k) (sto_known st) = None -> k < W ->
  Rst (mk_vstate (fork_point st) (stack st) (mem_const st) (mem_sym st)
                 (sto_known st ++ [(Known k, [Node T_UnwrittenStorageValue [] [Known k]])]) (sto_sym st) (recorded st) (logged st)) e.
Proof.
  intros [Hs Hd Hg Hm Hmn Hmg Hen Hed Hsym Hok Hsn Hsto Hh Hesn Hesd] Hnone Hk.
  assert (Hgens : forall k', sto_gens (mk_vstate (fork_point st) (stack st) (mem_const st) (mem_sym st)
                 (sto_known st ++ [(Known k, [Node T_UnwrittenStorageValue [] [Known k]])]) (sto_sym st) (recorded st) (logged st)) k'
                 = if k' =? k then [Node T_UnwrittenStorageValue [] [Known k]] else sto_gens st k').
  { intros k'. unfold sto_gens. cbn [sto_known]. rewrite alookup_app.
    destruct (N.eqb_spec k' k) as [->|Hne].
    - rewrite Hnone. cbn [alookup]. now rewrite (proj2 (sv_eqb_eq _ _) eq_refl).
    - destruct (alookup sv_eqb (Known k') (sto_known st)); [reflexivity|]. cbn [alookup].
      rewrite (eqb_neq sv_eqb sv_eqb_eq _ _ (sv_known_neq _ _ Hne)). reflexivity. }
  constructor; cbn [stack mem_const mem_sym sto_known sto_sym]; try assumption.
  - apply Forall_app. split; [assumption|]. repeat constructor; cbn; try discriminate.
    apply wf_node. split; [discriminate|]. repeat constructor. now apply wf_known.
  - now apply (app_entry_nodup sv_eqb sv_eqb_eq).
  - intros k'. rewrite Hgens. destruct (N.eqb_spec k' k) as [->|Hne]; [|apply Hsto].
    specialize (Hsto k). unfold sto_gens in Hsto. rewrite Hnone in Hsto. exact Hsto.
  - intros k'. rewrite Hgens. destruct (N.eqb_spec k' k) as [->|Hne]; [|apply Hh].
    specialize (Hh k). unfold sto_gens in Hh. rewrite Hnone in Hh. exact Hh.
  - intros k' H. specialize (Hesd k' H). rewrite alookup_app. destruct (alookup sv_eqb (Known k') (sto_known st)); congruence.
Qed.

Lemma hist_of_app k h1 h2 : hist_of k (h1 ++ h2) = hist_of k h1 ++ hist_of k h2.
Proof. unfold hist_of. now rewrite filter_app, map_app. Qed.

Lemma written_app a b : written (a ++ b) = written a ++ written b.
Proof. unfold written. apply filter_app. Qed.

(* SSTORE to the literal key k *)
Lemma Rst_sstore st e k v s es pc :
  Rst st e -> good v -> map den s = es -> Forall good s -> (length s <= 1024)%nat ->
  Rst (mk_vstate (fork_point st) s (mem_const st) (mem_sym st)
                 (aupdate sv_eqb (Known k) (sto_app v) (sto_known st)) (sto_sym st) (recorded st) (logged st))
      (mk_estate pc es (e_mem e) (alist_set k (den v) (e_sto e)) (e_hist e ++ [(k, den v)])).
Proof.
  intros [Hs Hd Hg Hm Hmn Hmg Hen Hed Hsym Hok Hsn Hsto Hh Hesn Hesd] [Hwf Htag] Hes Hgs Hl.
  set (st' := mk_vstate (fork_point st) s (mem_const st) (mem_sym st)
                 (aupdate sv_eqb (Known k) (sto_app v) (sto_known st)) (sto_sym st) (recorded st) (logged st)).
  assert (Hgens : forall k', sto_gens st' k' = if k' =? k then sto_gens st k ++ [v] else sto_gens st k').
  { intros k'. unfold sto_gens, st'. cbn [sto_known]. destruct (N.eqb_spec k' k) as [->|Hne].
    - rewrite (alookup_aupdate_same sv_eqb sv_eqb_eq). destruct (alookup sv_eqb (Known k) (sto_known st)); reflexivity.
    - rewrite (alookup_aupdate_other sv_eqb sv_eqb_eq) by (now apply sv_known_neq). reflexivity. }
  constructor; fold st'; cbn [stack mem_const mem_sym sto_known sto_sym e_stack e_mem e_sto e_hist]; try assumption.
  - apply aupdate_forall; [exact sv_eqb_eq|assumption|]. unfold slot_ok. cbn [fst snd]. split; [reflexivity|].
    destruct (alookup sv_eqb (Known k) (sto_known st)) as [g|] eqn:E; cbn [sto_app].
    + split; [now destruct g|]. apply Forall_app. split; [|constructor; [exact Hwf|constructor]].
      apply (alookup_in sv_eqb sv_eqb_eq) in E. rewrite Forall_forall in Hok. now destruct (Hok _ E) as (_ & _ & H).
    + split; [discriminate|]. constructor; [exact Hwf|constructor].
  - now apply (aupdate_nodup sv_eqb sv_eqb_eq).
  - intros k'. rewrite Hgens. unfold esto_word. cbn [e_sto]. rewrite alist_get_alookup, alist_set_aupdate.
    destruct (N.eqb_spec k' k) as [->|Hne].
    + rewrite (alookup_aupdate_same N.eqb N_eqb_spec), last_last. reflexivity.
    + rewrite (alookup_aupdate_other N.eqb N_eqb_spec) by assumption. rewrite <- alist_get_alookup. apply Hsto.
  - intros k'. rewrite Hgens, hist_of_app. unfold hist_of at 2. cbn [filter fst map snd].
    destruct (N.eqb_spec k' k) as [->|Hne].
    + rewrite N.eqb_refl. cbn [map snd]. rewrite written_app, map_app, Hh. f_equal.
      unfold written. cbn [filter]. destruct v as [t a l]. cbn [sv_tag] in Htag.
      destruct t; try reflexivity. congruence.
    + replace (k =? k') with false by (symmetry; apply N.eqb_neq; congruence). cbn [map]. rewrite app_nil_r. apply Hh.
  - rewrite alist_set_aupdate. now apply (aupdate_nodup N.eqb N_eqb_spec).
  - intros k'. rewrite alist_get_alookup, alist_set_aupdate. destruct (N.eq_dec k' k) as [->|Hne].
    + intros _. unfold st'. cbn [sto_known]. rewrite (alookup_aupdate_same sv_eqb sv_eqb_eq). discriminate.
    + rewrite (alookup_aupdate_other N.eqb N_eqb_spec) by assumption. rewrite <- alist_get_alookup.
      unfold st'. cbn [sto_known]. rewrite (alookup_aupdate_other sv_eqb sv_eqb_eq) by (now apply sv_known_neq). apply Hesd.
Qed.

(* ---- program counters: the symbolic thread may still be stepping through push data ---- *)
Section Pc.
Variable bytes : list byte.
Variable code : list instr.

(* an offset that is not push data by the EVM's own rule (`immediates`), or the end of the code *)
Definition imm_ok (k : N) : Prop :=
  N.of_nat (length bytes) <= k \/ nth_error (immediates 0 bytes) (N.to_nat k) = Some false.

Lemma imm_suffix : forall (bs : list byte) skip k, nth_error (immediates skip bs) k = Some false ->
  skipn k (immediates skip bs) = immediates 0 (skipn k bs).
Proof.
  induction bs as [|b bs IH]; intros skip k H; [destruct k; discriminate|].
  cbn [immediates] in *. destruct (0 <? skip) eqn:E.
  - destruct k as [|k]; [discriminate|]. cbn [skipn nth_error] in *. now apply IH.
  - destruct k as [|k].
    + cbn [skipn immediates]. reflexivity.
    + cbn [skipn nth_error] in *. now apply IH.
Qed.

Lemma imm_ok_0 : imm_ok 0.
Proof. unfold imm_ok. destruct bytes as [|b bs]; [left; cbn; lia|right; reflexivity]. Qed.

Lemma imm_ok_next k b : imm_ok k -> nth_error bytes (N.to_nat k) = Some b ->
  imm_ok (k + 1 + (if is_push b then b - PUSH_OPCODE_BASE_VALUE else 0)).
Proof.
  intros [Hge|Himm] Hb.
  { assert (nth_error bytes (N.to_nat k) = None) by (apply nth_error_None; lia). congruence. }
  set (n := if is_push b then b - PUSH_OPCODE_BASE_VALUE else 0).
  destruct (N.le_gt_cases (N.of_nat (length bytes)) (k + 1 + n)) as [Hle|Hlt]; [now left|]. right.
  pose proof (imm_suffix bytes 0 _ Himm) as Hs.
  destruct (skipn (N.to_nat k) bytes) as [|b' rest] eqn:Esk.
  { assert (length (skipn (N.to_nat k) bytes) = 0%nat) by now rewrite Esk. rewrite skipn_length in *. lia. }
  apply skipn_cons_nth in Esk as [Eb Erest]. rewrite Hb in Eb. injection Eb as <-.
  cbn [immediates] in Hs. cbn [N.ltb N.compare] in Hs. fold n in Hs.
  assert (Hlen : (length rest = length bytes - S (N.to_nat k))%nat) by (rewrite <- Erest, skipn_length; reflexivity).
  assert (Hs1 : skipn (S (N.to_nat k)) (immediates 0 bytes) = immediates n rest).
  { replace (S (N.to_nat k)) with (N.to_nat k + 1)%nat by lia. rewrite skipn_add, Hs. reflexivity. }
  rewrite (immediates_split n rest) in Hs1 by lia.
  assert (Hs2 : skipn (N.to_nat (k + 1 + n)) (immediates 0 bytes) = immediates 0 (skipn (N.to_nat n) rest)).
  { replace (N.to_nat (k + 1 + n)) with (S (N.to_nat k) + N.to_nat n)%nat by lia.
    rewrite skipn_add, Hs1. apply skipn_nops_app. apply repeat_length. }
  destruct (skipn (N.to_nat n) rest) as [|b2 r2] eqn:E2.
  { assert (length (skipn (N.to_nat n) rest) = 0%nat) by now rewrite E2. rewrite skipn_length in *. lia. }
  cbn [immediates] in Hs2. cbn [N.ltb N.compare] in Hs2. apply skipn_cons_nth in Hs2 as [H _]. exact H.
Qed.

Definition bdry (k : N) : Prop :=
  aligned (skipn (N.to_nat k) bytes) (skipn (N.to_nat k) code) /\ imm_ok k.

Record Rpc (ip epc : N) : Prop := mk_Rpc {
  rp_le : ip <= epc;
  rp_nops : forall i, ip <= i < epc -> nth_error code (N.to_nat i) = Some INop;
  rp_bdry : bdry epc }.

Definition R (t : thread) (e : estate) : Prop := Rst (tstate t) e /\ Rpc (tip t) (e_pc e).

Lemma Rpc_same k : bdry k -> Rpc k k.
Proof. intros H. constructor; [lia|intros; lia|exact H]. Qed.

(* what stands at a boundary *)
Inductive at_bdry (k : N) : instr -> Prop :=
| ab_plain b i : nth_error bytes (N.to_nat k) = Some b -> is_push b = false -> decode1 b = Ok i -> bdry (k + 1) -> at_bdry k i
| ab_push b d : nth_error bytes (N.to_nat k) = Some b -> is_push b = true ->
    length d = N.to_nat (b - PUSH_OPCODE_BASE_VALUE) ->
    d = firstn (N.to_nat (b - PUSH_OPCODE_BASE_VALUE)) (skipn (N.to_nat (k + 1)) bytes) ->
    (forall j, k + 1 <= j < k + 1 + (b - PUSH_OPCODE_BASE_VALUE) -> nth_error code (N.to_nat j) = Some INop) ->
    bdry (k + 1 + (b - PUSH_OPCODE_BASE_VALUE)) -> at_bdry k (IPush (b - PUSH_OPCODE_BASE_VALUE) d)
| ab_trunc b : nth_error bytes (N.to_nat k) = Some b -> is_push b = true -> at_bdry k (IInvalid b).

Lemma bdry_inv k i : bdry k -> nth_error code (N.to_nat k) = Some i -> at_bdry k i.
Proof.
  unfold bdry. intros [Ha Himm] Hi.
  remember (skipn (N.to_nat k) bytes) as bs eqn:Eb. remember (skipn (N.to_nat k) code) as is eqn:Ei.
  symmetry in Eb, Ei.
  destruct Ha as [|b i0 bs is Hp Hd Ha|b d bs is Hp Hd Ha|b rest Hp Hl].
  - exfalso. assert (H : (length code <= N.to_nat k)%nat).
    { destruct (Nat.le_gt_cases (length code) (N.to_nat k)); [assumption|].
      assert (length (skipn (N.to_nat k) code) = 0%nat) by (rewrite Ei; reflexivity). rewrite skipn_length in *. lia. }
    apply nth_error_None in H. congruence.
  - apply skipn_cons_nth in Eb as [Eb1 Eb2]. apply skipn_cons_nth in Ei as [Ei1 Ei2].
    rewrite Hi in Ei1. injection Ei1 as ->. eapply ab_plain; eauto.
    unfold bdry. split.
    + replace (N.to_nat (k + 1)) with (S (N.to_nat k)) by lia. now rewrite Eb2, Ei2.
    + pose proof (imm_ok_next k b Himm Eb1) as H. rewrite Hp, N.add_0_r in H. exact H.
  - apply skipn_cons_nth in Eb as [Eb1 Eb2]. apply skipn_cons_nth in Ei as [Ei1 Ei2].
    rewrite Hi in Ei1. injection Ei1 as ->.
    replace (S (N.to_nat k)) with (N.to_nat (k + 1)) in * by lia.
    eapply ab_push; eauto.
    + rewrite <- Hd. symmetry. eapply skipn_app_firstn. exact Eb2.
    + intros j Hj. replace (N.to_nat j) with (N.to_nat (k + 1) + (N.to_nat j - N.to_nat (k + 1)))%nat by lia.
      eapply skipn_app_nth; [exact Ei2|]. apply nth_error_nops. lia.
    + unfold bdry. split; [|pose proof (imm_ok_next k b Himm Eb1) as H; now rewrite Hp in H].
      replace (N.to_nat (k + 1 + (b - PUSH_OPCODE_BASE_VALUE)))
        with (N.to_nat (k + 1) + length d)%nat by lia.
      rewrite (skipn_app_more _ _ _ _ Eb2).
      replace (N.to_nat (k + 1) + length d)%nat with (N.to_nat (k + 1) + length (nops (b - PUSH_OPCODE_BASE_VALUE)))%nat
        by (rewrite len_nops; lia).
      now rewrite (skipn_app_more _ _ _ _ Ei2).
  - apply skipn_cons_nth in Eb as [Eb1 _]. apply skipn_cons_nth in Ei as [Ei1 _].
    rewrite Hi in Ei1. injection Ei1 as ->. now apply ab_trunc.
Qed.

Hypothesis Hbytes : bytes_ok bytes.

Lemma byte_lt k b : nth_error bytes k = Some b -> b < 256.
Proof. intros H. unfold bytes_ok in Hbytes. rewrite Forall_forall in Hbytes. apply Hbytes. eapply nth_error_In; eauto. Qed.

Lemma at_bdry_not_nop k : ~ at_bdry k INop.
Proof.
  intros H. inversion H as [b i Hb Hp Hd _| |]; subst.
  destruct (plain_ok b (byte_lt _ _ Hb) Hp) as (i & Hi & _ & Hn & _). congruence.
Qed.

End Pc.
