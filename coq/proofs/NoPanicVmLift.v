(* C01 end to end (props/C01_pipeline.v), stages 1-4 of `Pipeline.analyze_model`:

     A  `InstructionStream::try_from` never panics on ANY byte string (empty, or longer than 2^32 as well)
     B  every value a finished VM run hands to the type checker is free of SubWord / Shifted / Packed nodes
        (`vm_values_wellformed`): the generic VM invariant of PipelineProofs.v instantiated with `no_lifted`, plus a fact
        computed from the generated opcode bodies (no micro-program builds one of the three constructors)
     C  the six slot passes and `constant_fold` keep every node predicate that only constrains SubWord / Shifted /
        Packed nodes (`LN`): they create nodes of other constructors only and otherwise move sub-trees around
     D  hence the nine passes never panic on a VM value, and every SubWord / Packed node of the result describes bits
        inside the word (`lifted_spans_bounded`). *)
From Coq Require Import String Permutation.
From SLX Require Import Base Word256 PackingArith gen.Constants gen.ValueSig gen.OpcodeTable gen.PassOrder SymVal Micro
  gen.OpcodeSem Disasm VM Fold gen.FoldTable PassesSlots PassesPacking Pipeline NoPanic.
From SLX.proofs Require Import DisasmProofs FoldProofs PassesSlotsProofs PassesPackingProofs PipelineProofs.
Open Scope N_scope.

(* ================================================================================================ A. disassembly *)
Lemma step_failed s b x : failed s = Some x -> step s b = s.
Proof. unfold step. intros ->. reflexivity. Qed.

Lemma fold_failed bs : forall s x, failed s = Some x -> fold_left step bs s = s.
Proof.
  induction bs as [|b bs IH]; intros s x H; cbn [fold_left]; [reflexivity|].
  rewrite (step_failed s b x H). eapply IH. exact H.
Qed.

(* the sticky early return is never a panic (nor the `Ok` the loop never stores) *)
Definition fail_ok (s : st) : Prop :=
  match failed s with Some (Panic _) => False | Some (Ok _) => False | _ => True end.

Lemma step_inv s b : b < 256 -> fail_ok s ->
  fail_ok (step s b) /\ (failed (step s b) = None -> failed s = None /\ off (step s b) = off s + 1 /\ off s < two32).
Proof.
  intros Hb Hs. unfold step. destruct (failed s) as [o|] eqn:F.
  - split; [exact Hs|]. rewrite F. discriminate.
  - destruct (two32 <=? off s) eqn:E; [split; [exact I|discriminate]|]. apply N.leb_gt in E.
    cbv zeta. destruct (negb (remaining s =? 0)).
    + destruct (_ && _).
      * destruct (pushn_new_ok _ _); (split; [exact I|]); cbn; try discriminate. auto.
      * split; [exact I|]. cbn. auto.
    + destruct (is_push b) eqn:Ep.
      * destruct (push_ok b Hb Ep) as (Es & _). rewrite Es. split; [exact I|]. cbn. auto.
      * destruct (plain_ok b Hb Ep) as (i & Ed & _). rewrite Ed. split; [exact I|]. cbn. auto.
Qed.

Lemma fold_inv bs : forall s, bytes_ok bs -> fail_ok s ->
  fail_ok (fold_left step bs s) /\
  (failed (fold_left step bs s) = None ->
   off (fold_left step bs s) = off s + N.of_nat (length bs) /\ (bs <> [] -> off (fold_left step bs s) <= two32)).
Proof.
  induction bs as [|b bs IH]; intros s Hb Hs; cbn [fold_left].
  - split; [exact Hs|]. intros _. cbn [length]. split; [lia|congruence].
  - inversion Hb as [|? ? Hb0 Hbs]; subst. destruct (step_inv s b Hb0 Hs) as [H1 H2].
    destruct (IH (step s b) Hbs H1) as [G1 G2]. split; [exact G1|]. intros F.
    destruct (failed (step s b)) as [x|] eqn:F1.
    + rewrite (fold_failed bs (step s b) x F1) in F. congruence.
    + destruct (H2 eq_refl) as (_ & Eo & Hlt). destruct (G2 F) as [Eo2 Hle]. split.
      * rewrite Eo2, Eo. cbn [length]. lia.
      * intros _. destruct bs as [|b1 bs1]; [cbn [fold_left]; lia|apply Hle; discriminate].
Qed.

(* InstructionStream::try_from (disassembly and the library's own re-encoding assertion) on ANY byte string *)
Theorem try_from_no_panic bs : bytes_ok bs -> forall site, try_from bs <> Panic site.
Proof.
  intros Hb site. destruct (N.leb_spec (N.of_nat (length bs)) two32) as [Hl|Hl].
  - destruct bs as [|b0 bs0] eqn:Eb; [discriminate|]. rewrite <- Eb in *.
    assert (Hne : bs <> []) by (rewrite Eb; discriminate).
    rewrite (C10_total_proof bs Hne Hb Hl). discriminate.
  - unfold try_from, disasm. destruct bs as [|b0 bs0] eqn:Eb; [discriminate|]. rewrite <- Eb in *.
    assert (Hi : fail_ok init) by exact I.
    destruct (fold_inv bs init Hb Hi) as [G1 G2]. unfold finish. unfold fail_ok in G1.
    destruct (failed (fold_left step bs init)) as [[u|e|k]|] eqn:F; try contradiction; try discriminate.
    exfalso. destruct (G2 eq_refl) as [Eo Hle]. assert (Hne : bs <> []) by (rewrite Eb; discriminate).
    specialize (Hle Hne). rewrite Eo in Hle. cbn [off init] in Hle. lia.
Qed.

(* ================================================================================================ node predicates *)
(* predicates on nodes that hold of every node whose constructor is not SubWord / Shifted / Packed *)
Definition LN (P : tag -> list N -> bool) : Prop := forall t a, is_lifted t = false -> P t a = true.

Definition nl_tag (t : tag) (a : list N) : bool := negb (is_lifted t).

Lemma LN_nl : LN nl_tag.
Proof. intros t a H. unfold nl_tag. rewrite H. reflexivity. Qed.
Lemma LN_sw : LN sw_node_ok.
Proof.
  intros t a H. unfold sw_node_ok. unfold is_lifted in H. apply orb_false_iff in H as [H _]. apply orb_false_iff in H as [H _].
  rewrite H. reflexivity.
Qed.
Lemma LN_pk : LN pk_node_ok.
Proof. intros t a H. unfold pk_node_ok. unfold is_lifted in H. apply orb_false_iff in H as [_ H]. rewrite H. reflexivity. Qed.

Lemma no_lifted_is : forall v, no_lifted v = nodes_ok nl_tag v.
Proof. reflexivity. Qed.

Lemma fold_table_unlifted : forallb (fun r => negb (is_lifted (fa_fallback r))) fold_table = true.
Proof. vm_compute. reflexivity. Qed.

Lemma as_word_known f w : as_word f = Some w -> f = Known w.
Proof.
  destruct f as [t a l]. destruct t; try discriminate. destruct a as [|w' [|? ?]]; try discriminate.
  destruct l; try discriminate. cbn. intros [= ->]. reflexivity.
Qed.

Section NodePred.
  Variable P : tag -> list N -> bool.
  Hypothesis HP : LN P.

  Lemma ok_new t a args : is_lifted t = false -> forallb (nodes_ok P) args = true -> nodes_ok P (Node t a args) = true.
  Proof. intros Ht Ha. cbn [nodes_ok]. rewrite (HP t a Ht), Ha. reflexivity. Qed.

  Lemma ok_known w : nodes_ok P (Known w) = true.
  Proof. unfold Known. apply ok_new; reflexivity. Qed.
  Lemma ok_val i : nodes_ok P (Val i) = true.
  Proof. unfold Val. apply ok_new; reflexivity. Qed.

  Lemma ok_arg t a args x : In x args -> nodes_ok P (Node t a args) = true -> nodes_ok P x = true.
  Proof.
    intros Hx H. cbn [nodes_ok] in H. apply andb_prop in H as [_ H]. rewrite forallb_forall in H. exact (H x Hx).
  Qed.

  Lemma ok_inv2 t a x y : nodes_ok P (Node t a [x; y]) = true -> P t a = true /\ nodes_ok P x = true /\ nodes_ok P y = true.
  Proof.
    cbn [nodes_ok forallb]. intros H. apply andb_prop in H as [H1 H2]. apply andb_prop in H2 as [H2 H3].
    apply andb_prop in H3 as [H3 _]. auto.
  Qed.
  Lemma ok_mk2 t a x y : P t a = true -> nodes_ok P x = true -> nodes_ok P y = true -> nodes_ok P (Node t a [x; y]) = true.
  Proof. intros H1 H2 H3. cbn [nodes_ok forallb]. rewrite H1, H2, H3. reflexivity. Qed.
  Lemma ok_inv1 t a x : nodes_ok P (Node t a [x]) = true -> P t a = true /\ nodes_ok P x = true.
  Proof. cbn [nodes_ok forallb]. intros H. apply andb_prop in H as [H1 H2]. apply andb_prop in H2 as [H2 _]. auto. Qed.
  Lemma ok_mk1 t a x : P t a = true -> nodes_ok P x = true -> nodes_ok P (Node t a [x]) = true.
  Proof. intros H1 H2. cbn [nodes_ok forallb]. rewrite H1, H2. reflexivity. Qed.

  Lemma ok_generic f v :
    (forall x, In x (sv_args v) -> nodes_ok P x = true -> nodes_ok P (f x) = true) ->
    nodes_ok P v = true -> nodes_ok P (generic f v) = true.
  Proof.
    destruct v as [t a args]. cbn [sv_args generic nodes_ok]. intros Hf H. apply andb_prop in H as [Ht Ha]. rewrite Ht. cbn [andb].
    apply forallb_forall. intros y Hy. apply in_map_iff in Hy as (x & <- & Hx). apply Hf; [exact Hx|].
    rewrite forallb_forall in Ha. exact (Ha x Hx).
  Qed.

  (* ---- constant folding ---- *)
  Lemma fold_nodes_ok v : nodes_ok P v = true -> nodes_ok P (constant_fold v) = true.
  Proof.
    induction v as [t a args IH] using sv_ind'. intros H. cbn [nodes_ok] in H. apply andb_prop in H as [Ht Ha].
    assert (Hf : forallb (nodes_ok P) (map constant_fold args) = true).
    { apply forallb_forall. intros y Hy. apply in_map_iff in Hy as (x & <- & Hx). rewrite Forall_forall in IH. apply (IH x Hx).
      rewrite forallb_forall in Ha. exact (Ha x Hx). }
    rewrite fold_node.
    assert (Hd : nodes_ok P (Node (transform_ctor t) a (map constant_fold args)) = true).
    { cbn [nodes_ok]. rewrite transform_ctor_id, Ht, Hf. reflexivity. }
    destruct (find_arm t) as [r|] eqn:E; [|exact Hd]. destruct (arm_matches r a args); [|exact Hd].
    unfold run_arm. destruct (all_words _); [apply ok_known|].
    apply ok_new.
    - destruct (find_arm_some t r E) as (_ & Hin & _). pose proof fold_table_unlifted as T. rewrite forallb_forall in T.
      apply negb_true_iff. exact (T r Hin).
    - apply forallb_forall. intros y Hy. apply in_map_iff in Hy as (u & <- & _). unfold operand.
      destruct (snd u).
      + destruct (nth_in_or_default (fst u) (map constant_fold args) (Val 0)) as [Hin|Hdef]; [|rewrite Hdef; apply ok_val].
        rewrite forallb_forall in Hf. exact (Hf _ Hin).
      + destruct (nth_in_or_default (fst u) args (Val 0)) as [Hin|Hdef]; [|rewrite Hdef; apply ok_val].
        rewrite forallb_forall in Ha. exact (Ha _ Hin).
  Qed.

  (* ---- the six slot passes ---- *)
  Variable keccak : list byte -> N.
  Variable table : list (N * N).

  Lemma hashed_ok v : nodes_ok P v = true -> nodes_ok P (hashed_slots table v) = true.
  Proof.
    induction v as [t a args IH] using sv_ind'. intros H. rewrite hashed_eq.
    destruct (known_view (Node t a args)) as [w|] eqn:E.
    - destruct (lookup_hash table w); [|exact H]. apply ok_new; [reflexivity|]. cbn [forallb]. rewrite ok_known. reflexivity.
    - apply ok_generic; [|exact H]. cbn [sv_args]. intros x Hx. rewrite Forall_forall in IH. exact (IH x Hx).
  Qed.

  Lemma unpick_sha3_known v k' : unpick_sha3 keccak v = Some k' -> exists w, k' = Known w.
  Proof. unfold unpick_sha3, proxy_concat_key. intros H. crack H; injection H as <-; eauto. Qed.

  Lemma unpick_proxy_known v k' : unpick_proxy keccak v = Some k' -> exists w, k' = Known w.
  Proof.
    unfold unpick_proxy. destruct v as [t a args]. destruct t; try apply unpick_sha3_known.
    destruct args as [|l [|r [|? ?]]]; try apply unpick_sha3_known.
    cbv zeta.
    destruct (unpick_sha3 keccak l) as [l'|]; [|destruct (unpick_sha3 keccak r) as [r'|]; [|discriminate]];
      (destruct (as_word _) as [w|] eqn:E; [|discriminate]; intros [= <-]; apply as_word_known in E; eauto).
  Qed.

  Lemma proxy_ok v : nodes_ok P v = true -> nodes_ok P (proxy_slots keccak v) = true.
  Proof.
    induction v as [t a args IH] using sv_ind'. intros H. rewrite proxy_eq.
    destruct (rw_view (Node t a args)) as [[[[t' a'] k] x]|] eqn:E.
    - apply rw_view_some in E as [E _]. injection E as -> -> ->. rewrite Forall_forall in IH.
      apply ok_inv2 in H as (H1 & Hk & Hx). apply ok_mk2; [exact H1| |apply IH; [right; left; reflexivity|exact Hx]].
      unfold proxy_key. destruct (unpick_proxy keccak k) as [k'|] eqn:Ek.
      + apply unpick_proxy_known in Ek as (w & ->). apply ok_known.
      + apply IH; [left; reflexivity|exact Hk].
    - apply ok_generic; [|exact H]. cbn [sv_args]. intros x Hx. rewrite Forall_forall in IH. exact (IH x Hx).
  Qed.

  Lemma mi_ins_ok v : nodes_ok P v = true -> nodes_ok P (mi_ins v) = true.
  Proof.
    induction v as [v IH] using PassesSlotsProofs.sv_depth_ind. intros H. rewrite mi_ins_eq.
    destruct (mi_view v) as [[k s]|] eqn:E.
    - apply mi_view_some in E as (a & a' & ->).
      assert (Hc : nodes_ok P (Node T_Concat a' [k; s]) = true) by (eapply ok_arg; [|exact H]; left; reflexivity).
      apply ok_inv2 in Hc as (_ & Hk & Hs).
      apply ok_new; [reflexivity|]. cbn [forallb]. rewrite (IH s), (IH k); auto; depth_solve.
    - apply ok_generic; [|exact H]. intros x Hx Hox. apply IH; [apply in_args_depth; exact Hx|exact Hox].
  Qed.

  Lemma mapping_index_ok v : nodes_ok P v = true -> nodes_ok P (mapping_index v) = true.
  Proof.
    induction v as [t a args IH] using sv_ind'. intros H. rewrite mapping_index_eq.
    destruct (rw_view (Node t a args)) as [[[[t' a'] k] x]|] eqn:E.
    - apply rw_view_some in E as [E _]. injection E as -> -> ->.
      apply ok_inv2 in H as (H1 & Hk & Hx). apply ok_mk2; [exact H1|apply mi_ins_ok; exact Hk|apply mi_ins_ok; exact Hx].
    - destruct (uw_view (Node t a args)) as [[a' k]|] eqn:Eu.
      + apply uw_view_some in Eu. injection Eu as -> -> ->. apply ok_inv1 in H as (H1 & Hk).
        apply ok_mk1; [exact H1|apply mi_ins_ok; exact Hk].
      + apply ok_generic; [|exact H]. cbn [sv_args]. intros x Hx. rewrite Forall_forall in IH. exact (IH x Hx).
  Qed.

  Lemma sha3_data_sub y d : sha3_data y = Some d -> In d (sv_args y).
  Proof.
    destruct y as [t a l]. destruct t; try discriminate. destruct l as [|d' [|? ?]]; try discriminate.
    cbn. intros [= <-]. left. reflexivity.
  Qed.

  Lemma arg_sub d y : In d (sv_args y) -> sub d y.
  Proof. destruct y as [t a l]. cbn [sv_args]. intros H. eapply sub_child; [exact H|apply sub_refl]. Qed.

  Lemma da_view_sub v s b i : da_view v = Some (s, b, i) -> sub s v.
  Proof.
    destruct v as [t a args]. destruct t; try discriminate.
    destruct args as [|l [|r [|? ?]]]; try discriminate. cbn [da_view]. intros H.
    destruct (match sha3_data l with Some d => Some d | None => sha3_data r end) as [d|] eqn:Ed; [|discriminate].
    assert (Hd : sub d (Node T_Add a [l; r])).
    { destruct (sha3_data l) as [d0|] eqn:El.
      - injection Ed as ->. apply sha3_data_sub in El. eapply sub_child; [left; reflexivity|apply arg_sub; exact El].
      - apply sha3_data_sub in Ed. eapply sub_child; [right; left; reflexivity|apply arg_sub; exact Ed]. }
    destruct d as [td ad ld]. destruct td; try (injection H as <- _ _; exact Hd).
    destruct ld as [|x [|? ?]]; try discriminate. injection H as <- _ _.
    eapply sub_trans; [|exact Hd]. eapply sub_child; [left; reflexivity|apply sub_refl].
  Qed.

  Lemma da_lift_ok v : nodes_ok P v = true -> nodes_ok P (da_lift v) = true.
  Proof.
    induction v as [v IH] using PassesSlotsProofs.sv_depth_ind. intros H. rewrite da_lift_eq.
    destruct (da_view v) as [[[s b] i]|] eqn:E.
    - pose proof (da_view_sub v s b i E) as Hsub. pose proof (nodes_ok_sub P s v Hsub H) as Hs.
      apply da_view_some in E as (a & l & r & -> & -> & Hdepth).
      assert (Hs' : nodes_ok P (if b then constant_fold s else s) = true) by (destruct b; [apply fold_nodes_ok|]; exact Hs).
      assert (Hr : nodes_ok P r = true) by (eapply ok_arg; [|exact H]; right; left; reflexivity).
      apply ok_new; [reflexivity|]. cbn [forallb]. rewrite (IH _ Hdepth Hs'), (IH r); auto. depth_solve.
    - apply ok_generic; [|exact H]. intros x Hx Hox. apply IH; [apply in_args_depth; exact Hx|exact Hox].
  Qed.

  Lemma dyn_array_ok v : nodes_ok P v = true -> nodes_ok P (dyn_array v) = true.
  Proof.
    induction v as [t a args IH] using sv_ind'. intros H. rewrite dyn_array_eq.
    destruct (rw_view (Node t a args)) as [[[[t' a'] k] x]|] eqn:E.
    - apply rw_view_some in E as [E _]. injection E as -> -> ->.
      apply ok_inv2 in H as (H1 & Hk & Hx). apply ok_mk2; [exact H1|apply da_lift_ok; exact Hk|apply da_lift_ok; exact Hx].
    - destruct (uw_view (Node t a args)) as [[a' k]|] eqn:Eu.
      + apply uw_view_some in Eu. injection Eu as -> -> ->. apply ok_inv1 in H as (H1 & Hk).
        apply ok_mk1; [exact H1|apply da_lift_ok; exact Hk].
      + apply ok_generic; [|exact H]. cbn [sv_args]. intros x Hx. rewrite Forall_forall in IH. exact (IH x Hx).
  Qed.

  Lemma storage_slots_ok v : nodes_ok P v = true -> nodes_ok P (storage_slots v) = true.
  Proof.
    induction v as [t a args IH] using sv_ind'. intros H. rewrite storage_slots_eq.
    destruct (ss_view (Node t a args)) as [[[[t' a'] s] x]|] eqn:E.
    - apply ss_view_some in E as [E _]. injection E as -> -> ->. rewrite Forall_forall in IH.
      apply ok_inv2 in H as (H1 & Hs & Hx). apply ok_mk2; [exact H1| |apply IH; [right; left; reflexivity|exact Hx]].
      unfold wrap_slot. destruct (is_slot s); [exact Hs|]. apply ok_mk1; [apply HP; reflexivity|].
      apply IH; [left; reflexivity|exact Hs].
    - apply ok_generic; [|exact H]. cbn [sv_args]. intros x Hx. rewrite Forall_forall in IH. exact (IH x Hx).
  Qed.

  Lemma mapping_offset_ok v : nodes_ok P v = true -> nodes_ok P (mapping_offset v) = true.
  Proof.
    induction v as [v IH] using PassesSlotsProofs.sv_depth_ind. intros H. rewrite mapping_offset_eq.
    destruct (mo_view v) as [[[s k] w]|] eqn:E.
    - apply mo_view_some in E as (a & am & [-> | ->]).
      + assert (Hm : nodes_ok P (Node T_MappingIndex am [s; k]) = true) by (eapply ok_arg; [|exact H]; left; reflexivity).
        apply ok_inv2 in Hm as (_ & Hs & Hk).
        apply ok_new; [reflexivity|]. cbn [forallb]. rewrite (IH s), (IH k); auto; depth_solve.
      + assert (Hm : nodes_ok P (Node T_MappingIndex am [s; k]) = true) by (eapply ok_arg; [|exact H]; right; left; reflexivity).
        apply ok_inv2 in Hm as (_ & Hs & Hk).
        apply ok_new; [reflexivity|]. cbn [forallb]. rewrite (IH s), (IH k); auto; depth_solve.
    - apply ok_generic; [|exact H]. intros x Hx Hox. apply IH; [apply in_args_depth; exact Hx|exact Hox].
  Qed.
End NodePred.

(* ================================================================================================ B. the VM *)
Definition nl_build (t : tag) : bool := negb (is_lifted t).

(* established by computation on the generated micro-programs: no opcode body builds SubWord / Shifted / Packed *)
Lemma vm_bodies_build_no_lifted i : instr_okb nl_build true i = true.
Proof. destruct i as [o| | | | | |]; try reflexivity. destruct o; reflexivity. Qed.

Lemma nl_node t a args : is_lifted t = false -> Forall (fun x => no_lifted x = true) args -> no_lifted (Node t a args) = true.
Proof.
  intros Ht Ha. rewrite no_lifted_is. apply (ok_new nl_tag LN_nl); [exact Ht|]. apply forallb_forall. rewrite Forall_forall in Ha. exact Ha.
Qed.

(* what a retired state hands to the type checker, under the VM invariant for any value predicate *)
Lemma state_values_P (P : sv -> Prop) mode st :
  (forall k v, P k -> P v -> P (Node T_StorageWrite [] [k; v])) ->
  Sok P true st -> Forall P (state_values mode st).
Proof.
  intros Pw [H1 H2 H3 H4 H5 H6 H7 H8]. unfold state_values.
  apply Forall_app; split; [apply Forall_rev; exact H1|].
  apply Forall_app; split; [|apply Forall_app; split; [|apply Forall_app; split; assumption]].
  - unfold memory_values. apply Forall_app. split.
    + apply Forall_forall. intros x Hx. apply in_flat_map in Hx as (p & Hp & Hx). apply arrange_in, in_sort_le in Hp.
      unfold AL in H2. rewrite Forall_forall in H2. destruct (H2 p Hp) as [_ Hg]. unfold gens_ok in Hg. rewrite Forall_forall in Hg.
      apply in_map_iff in Hx as (y & <- & Hy). exact (Hg y Hy).
    + apply Forall_forall. intros x Hx. apply in_flat_map in Hx as (p & Hp & Hx). apply arrange_in, in_sort_by_text in Hp.
      unfold AL in H3. rewrite Forall_forall in H3. destruct (H3 p Hp) as [Hk Hg]. destruct Hx as [<-|Hx]; [exact Hk|].
      unfold gens_ok in Hg. rewrite Forall_forall in Hg. apply in_map_iff in Hx as (y & <- & Hy). exact (Hg y Hy).
  - unfold stores_as_values, storage_entries. apply Forall_forall. intros x Hx. apply in_flat_map in Hx as (p & Hp & Hx).
    apply arrange_in, in_sort_by_text in Hp. apply in_map_iff in Hx as (y & <- & Hy).
    assert (A : P (fst p) /\ sgens_ok P (snd p)).
    { apply in_app_or in Hp as [Hp|Hp].
      - unfold AL in H4. rewrite Forall_forall in H4. exact (H4 p Hp).
      - unfold AL in H5. rewrite Forall_forall in H5. exact (H5 p Hp). }
    destruct A as [Hk [Hg _]]. rewrite Forall_forall in Hg. apply Pw; [exact Hk|exact (Hg y Hy)].
Qed.

(* stage boundary VM -> lift: everything `ExecutionResult::all_values` collects from a finished run *)
Theorem vm_values_wellformed_lemma mode code cfg p m :
  run_p constant_fold p (init_vm code cfg) = RDone m ->
  Forall (fun x => no_lifted x = true) (unique (all_values mode (v_stored m))).
Proof.
  intros Hr.
  assert (F : Forall (fun s => Sok (fun v => no_lifted v = true) true (fst s)) (v_stored m)).
  { apply (run_p_stored_ok constant_fold (fun v => no_lifted v = true) nl_build true) with (code := code) (cfg := cfg) (p := p).
    - intros w. reflexivity.
    - intros id. reflexivity.
    - intros v Hv. rewrite no_lifted_is in *. exact (fold_nodes_ok nl_tag LN_nl v Hv).
    - intros t args Ht Ha. apply nl_node; [apply negb_true_iff; exact Ht|exact Ha].
    - intros id a b Ha Hb. apply nl_node; [reflexivity|repeat constructor; assumption].
    - intros _ k v Hk Hv. apply nl_node; [reflexivity|repeat constructor; assumption].
    - intros _ k Hk. apply nl_node; [reflexivity|repeat constructor; assumption].
    - reflexivity.
    - apply forallb_forall. intros i _. apply vm_bodies_build_no_lifted.
    - exact Hr. }
  apply Forall_forall. intros x Hx. apply unique_sub in Hx. unfold all_values in Hx. apply in_flat_map in Hx as (s & Hs & Hx).
  rewrite Forall_forall in F.
  assert (C : Forall (fun x => no_lifted x = true) (state_values mode (fst s))).
  { apply state_values_P; [|exact (F s Hs)]. intros k v Hk Hv. apply nl_node; [reflexivity|repeat constructor; assumption]. }
  rewrite Forall_forall in C. exact (C x Hx).
Qed.

(* ================================================================================================ D. the nine passes *)
(* stage boundary lift -> assign_vars: on a value without SubWord / Shifted / Packed nodes the nine passes in the default
   order never panic (`panic!("Shift of non-sub-word")` in particular), and whatever they return has all its SubWord and
   Packed nodes inside the 256-bit word *)
Theorem lifted_spans_bounded_lemma keccak table v :
  no_lifted v = true ->
  (forall s, lift_value keccak table v <> Panic s) /\
  (forall v', lift_value keccak table v = Ok v' -> spans_small v' = true).
Proof.
  intros Hn. rewrite lift_value_unfold.
  set (v0 := mapping_index (proxy_slots keccak (hashed_slots table v))).
  assert (N0 : no_lifted v0 = true).
  { subst v0. rewrite no_lifted_is in *. apply (mapping_index_ok nl_tag LN_nl), (proxy_ok nl_tag LN_nl), (hashed_ok nl_tag LN_nl). exact Hn. }
  destruct (no_lifted_in_slot v0 N0) as [Hin Hsw]. unfold lifted_in_slot in Hin.
  apply andb_prop in Hin as [Hin H3]. apply andb_prop in Hin as [H1 _].
  destruct (sub_word_rel v0) as (v1 & E1 & R1). rewrite E1. cbn [obind].
  pose proof (mul_shifted_rel v1) as R2.
  assert (S1 : shifted_wf v1 = true) by exact (sw_rel_shifted_wf v0 v1 R1 Hsw).
  assert (S2 : shifted_wf (mul_shifted v1) = true) by exact (ms_rel_shifted_wf _ _ R2 S1).
  pose proof (packed_encoding_rel (mul_shifted v1)) as R3.
  destruct (packed_encoding (mul_shifted v1)) as [v2|e|s]; [|contradiction|congruence]. cbn [obind].
  split; [discriminate|]. intros v' [= <-].
  assert (A1 : subwords_in_slot v2 = true).
  { apply (pe_rel_nodes_ok sw_node_ok) with (v := mul_shifted v1); [reflexivity|exact R3|].
    apply (ms_rel_nodes_ok_any sw_node_ok) with (v := v1); [reflexivity|exact R2|].
    exact (sw_rel_nodes_ok sw_node_ok sw_node_ok_closed v0 v1 R1 H1). }
  assert (A3 : packeds_in_slot v2 = true).
  { apply (pe_rel_nodes_ok pk_node_ok) with (v := mul_shifted v1).
    - intros attrs H. unfold pk_node_ok. now rewrite tag_eqb_refl.
    - exact R3.
    - apply (ms_rel_nodes_ok_any pk_node_ok) with (v := v1); [reflexivity|exact R2|].
      apply (sw_rel_nodes_ok pk_node_ok) with (v := v0); [reflexivity|exact R1|exact H3]. }
  unfold spans_small, subwords_in_slot, packeds_in_slot in *.
  rewrite (mapping_offset_ok sw_node_ok LN_sw), (mapping_offset_ok pk_node_ok LN_pk); [reflexivity| |].
  - apply (storage_slots_ok pk_node_ok LN_pk), (dyn_array_ok pk_node_ok LN_pk). exact A3.
  - apply (storage_slots_ok sw_node_ok LN_sw), (dyn_array_ok sw_node_ok LN_sw). exact A1.
Qed.

(* the loop of TypeChecker::lift (its body `lift_body`, folded without the watchdog) fails only if a pass panics *)
Lemma fold_lift_no_panic keccak table : forall vals st,
  (forall v, In v vals -> forall q, lift_value keccak table v <> Panic q) ->
  exists st', fold_e (lift_body keccak table) vals st = inl st'.
Proof.
  induction vals as [|v r IH]; intros st H; cbn [fold_e]; [eauto|].
  unfold lift_body at 1. destruct (lift_value keccak table v) as [v'|e|q] eqn:E.
  - apply IH. intros v0 Hv0. apply H. right. exact Hv0.
  - apply IH. intros v0 Hv0. apply H. right. exact Hv0.
  - exfalso. exact (H v (or_introl eq_refl) q E).
Qed.

(* C, in one statement: the six slot passes and constant folding keep every such node predicate *)
Theorem slot_passes_keep_lifted_nodes_lemma P : LN P -> forall keccak table v, nodes_ok P v = true ->
  nodes_ok P (hashed_slots table v) = true /\ nodes_ok P (proxy_slots keccak v) = true /\ nodes_ok P (mapping_index v) = true /\
  nodes_ok P (dyn_array v) = true /\ nodes_ok P (storage_slots v) = true /\ nodes_ok P (mapping_offset v) = true /\
  nodes_ok P (constant_fold v) = true.
Proof.
  intros HP keccak table v H.
  split; [exact (hashed_ok P HP table v H)|]. split; [exact (proxy_ok P HP keccak v H)|]. split; [exact (mapping_index_ok P HP v H)|].
  split; [exact (dyn_array_ok P HP v H)|]. split; [exact (storage_slots_ok P HP v H)|]. split; [exact (mapping_offset_ok P HP v H)|].
  exact (fold_nodes_ok P HP v H).
Qed.
