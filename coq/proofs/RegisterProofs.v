(* Registration (coq/Register.v): invariants of the state, coverage of sub-terms, sharing of stably typed
   values, freshness of the others, and disjointness of the variables of values without common stable part. *)
From Coq Require Import String Permutation.
From SLX Require Import Base gen.ValueSig gen.RulesSig SymVal TypeExpr Register.
Open Scope N_scope.
Set Default Timeout 120.

(* ------------------------------------------------------------------ equality tests *)
Lemma nth_tag_idx t : nth (N.to_nat (tag_idx t)) all_tags T_Value = t.
Proof. destruct t; reflexivity. Qed.

Lemma tag_eqb_eq a b : tag_eqb a b = true <-> a = b.
Proof.
  unfold tag_eqb. rewrite N.eqb_eq. split; [|now intros ->].
  intros E. rewrite <- (nth_tag_idx a), <- (nth_tag_idx b). now rewrite E.
Qed.

Lemma tag_eqb_refl a : tag_eqb a a = true.
Proof. now apply tag_eqb_eq. Qed.

Lemma sv_eqb_eq a b : sv_eqb a b = true <-> a = b.
Proof.
  revert b. induction a as [t at_ args IH] using sv_ind'. intros [t2 a2 l2]. cbn [sv_eqb].
  rewrite !andb_true_iff, tag_eqb_eq, list_eqb_N_eq.
  assert (G : forall l2',
             (fix go (x y : list sv) : bool :=
                match x, y with
                | [], [] => true
                | p :: x', q :: y' => sv_eqb p q && go x' y'
                | _, _ => false
                end) args l2' = true <-> args = l2').
  { clear t at_ t2 a2 l2. induction args as [|x args IHa]; intros [|y l2']; split; try congruence; try discriminate; auto.
    - inversion IH as [|? ? Hx Hr]; subst. intros H. apply andb_true_iff in H as [H1 H2].
      apply Hx in H1. apply (IHa Hr) in H2. congruence.
    - inversion IH as [|? ? Hx Hr]; subst. intros [= -> ->]. apply andb_true_iff. split; [now apply Hx | now apply (IHa Hr)]. }
  rewrite G. split; [intros [[-> ->] ->]; reflexivity | intros [= -> -> ->]; auto].
Qed.

Lemma sv_eqb_refl a : sv_eqb a a = true.
Proof. now apply sv_eqb_eq. Qed.

(* ------------------------------------------------------------------ size, sub-terms *)
Fixpoint ssize (v : sv) : nat :=
  match v with Node _ _ args => S (fold_right (fun a n => (ssize a + n)%nat) O args) end.

Lemma ssize_arg a args : In a args -> (ssize a <= fold_right (fun a n => (ssize a + n)%nat) O args)%nat.
Proof. induction args as [|x r IH]; cbn; [tauto|]. intros [->|H]; [lia|]. specialize (IH H). lia. Qed.

Lemma subterm_size v s : In s (subterms v) -> (ssize s <= ssize v)%nat.
Proof.
  revert s. induction v as [t a args IH] using sv_ind'. intros s. cbn [subterms]. intros [<-|H]; [lia|].
  apply in_flat_map in H as (x & Hx & Hs). rewrite Forall_forall in IH. specialize (IH x Hx s Hs).
  pose proof (ssize_arg x args Hx). cbn [ssize]. lia.
Qed.

Lemma subterm_of_arg_neq t a args x s : In x args -> In s (subterms x) -> s <> Node t a args.
Proof.
  intros Hx Hs ->. apply subterm_size in Hs. pose proof (ssize_arg x args Hx). cbn [ssize] in Hs. lia.
Qed.

Lemma subterms_self v : In v (subterms v).
Proof. destruct v; cbn; auto. Qed.

Lemma subterms_trans v s r : In s (subterms v) -> In r (subterms s) -> In r (subterms v).
Proof.
  revert s r. induction v as [t a args IH] using sv_ind'. intros s r. cbn [subterms]. intros [<-|H] Hr; [exact Hr|].
  right. apply in_flat_map in H as (x & Hx & Hs). apply in_flat_map. exists x. split; [exact Hx|].
  rewrite Forall_forall in IH. exact (IH x Hx s r Hs Hr).
Qed.

Lemma tsubterms_self x : In x (tsubterms x).
Proof. destruct x; cbn; auto. Qed.

Lemma erase_tsubterms x : map erase (tsubterms x) = subterms (erase x).
Proof.
  induction x as [v t a args IH] using tsv_ind'. cbn [tsubterms erase subterms map]. f_equal.
  induction args as [|y r IHr]; cbn; [reflexivity|]. inversion IH as [|? ? Hy Hr]; subst.
  rewrite map_app, Hy, (IHr Hr). reflexivity.
Qed.

(* ------------------------------------------------------------------ stably typed values *)
Definition stable_tag (t : tag) : Prop := t = T_StorageSlot \/ t = T_Value \/ t = T_CallData.
(* the statement of the doc comment: the tree contains a Value, CallData or StorageSlot *)
Definition stable_spec (v : sv) : Prop := exists s, In s (subterms v) /\ stable_tag (sv_tag s).

Lemma stable_tags_spec t : existsb (tag_eqb t) stable_tags = true <-> stable_tag t.
Proof.
  unfold stable_tag. split.
  - intros H. apply existsb_exists in H as (x & Hx & E). apply tag_eqb_eq in E. subst x.
    vm_compute in Hx. intuition congruence.
  - intros H. apply existsb_exists. exists t. split; [|apply tag_eqb_refl].
    destruct H as [->|[->| ->]]; vm_compute; auto.
Qed.

Lemma is_stable_spec v : is_stable v = true <-> stable_spec v.
Proof.
  induction v as [t a args IH] using sv_ind'. cbn [is_stable]. rewrite orb_true_iff, stable_tags_spec. split.
  - intros [H|H].
    + exists (Node t a args). split; [apply subterms_self | exact H].
    + apply existsb_exists in H as (x & Hx & Hs). rewrite Forall_forall in IH. apply (IH x Hx) in Hs as (s & Hs & Ht).
      exists s. split; [|exact Ht]. cbn [subterms]. right. apply in_flat_map. eauto.
  - intros (s & Hs & Ht). cbn [subterms] in Hs. destruct Hs as [<-|Hs]; [left; exact Ht|].
    right. apply in_flat_map in Hs as (x & Hx & Hs). apply existsb_exists. exists x. split; [exact Hx|].
    rewrite Forall_forall in IH. apply (IH x Hx). exists s. auto.
Qed.

Lemma is_stable_subterm v s : In s (subterms v) -> is_stable s = true -> is_stable v = true.
Proof.
  intros Hs H. apply is_stable_spec in H as (r & Hr & Ht). apply is_stable_spec. exists r. split; [|exact Ht].
  eapply subterms_trans; eauto.
Qed.

Lemma unstable_args t a args : is_stable (Node t a args) = false -> forall x, In x args -> is_stable x = false.
Proof.
  intros H x Hx. destruct (is_stable x) eqn:E; [|reflexivity]. exfalso.
  assert (is_stable (Node t a args) = true); [|congruence].
  eapply is_stable_subterm; [|exact E]. cbn [subterms]. right. apply in_flat_map. exists x. split; [exact Hx|apply subterms_self].
Qed.

(* Rust iterates `children()`; the model iterates the declared arguments: the same test, because children() is a
   permutation of the declared child fields (identity except for Create2, read from the generated table) *)
Lemma field_perm_cases t : field_perm (children_fields t) t = None \/ (t = T_Create2 /\ field_perm (children_fields t) t = Some [0; 2; 1]%nat).
Proof. destruct t; vm_compute; auto. Qed.

Lemma is_stable_children t a args :
  (t = T_Create2 -> length args = 3%nat) ->
  existsb is_stable (children (Node t a args)) = existsb is_stable args.
Proof.
  intros Hlen. cbn [children]. destruct (field_perm_cases t) as [->|[-> ->]]; [reflexivity|].
  specialize (Hlen eq_refl). destruct args as [|x [|y [|z [|]]]]; try discriminate. cbn.
  destruct (is_stable x), (is_stable y), (is_stable z); reflexivity.
Qed.

(* ------------------------------------------------------------------ the invariant of the state *)
Definition in_exprs (st : tcs) (x : tsv) : Prop := In (tv_of x, x) (exprs st).

Record inv (st : tcs) : Prop := {
  i_keys : map fst (exprs st) = map fst (infs st);
  i_lt : forall v, In v (map fst (exprs st)) <-> v < next st;
  i_nodup : NoDup (map fst (exprs st));
  i_var : forall v x, In (v, x) (exprs st) -> tv_of x = v;
  i_closed : forall v x y, In (v, x) (exprs st) -> In y (targs x) -> in_exprs st y;
  i_stable : forall k x, In (k, x) (stable st) -> erase x = k /\ is_stable k = true /\ in_exprs st x;
  i_complete : forall x, in_exprs st x -> is_stable (erase x) = true -> lookup_stable (erase x) (stable st) = Some x
}.

Lemma inv_empty : inv empty_tcs.
Proof.
  constructor; cbn; try tauto; try (intros; contradiction).
  - intros v. split; [tauto|]. lia.
  - constructor.
Qed.

Lemma in_exprs_functional st x y : inv st -> in_exprs st x -> in_exprs st y -> tv_of x = tv_of y -> x = y.
Proof.
  intros I Hx Hy E. unfold in_exprs in *. rewrite E in Hx.
  pose proof (i_nodup st I) as ND. revert Hx Hy ND. generalize (tv_of y) as w. generalize (exprs st) as l.
  induction l as [|[w' z] l IH]; cbn; [tauto|]. intros w [Hx|Hx] [Hy|Hy] ND; inversion ND; subst.
  - congruence.
  - exfalso. inversion Hx; subst. apply H1. apply in_map_iff. exists (w, y). auto.
  - exfalso. inversion Hy; subst. apply H1. apply in_map_iff. exists (w, x). auto.
  - eauto.
Qed.

Lemma lookup_stable_in v l x : lookup_stable v l = Some x -> In (v, x) l.
Proof.
  induction l as [|[k y] l IH]; cbn; [discriminate|]. destruct (sv_eqb k v) eqn:E.
  - intros [= ->]. apply sv_eqb_eq in E. subst. auto.
  - auto.
Qed.

Lemma lookup_stable_app v l1 l2 : (forall k x, In (k, x) l1 -> k <> v) -> lookup_stable v (l1 ++ l2) = lookup_stable v l2.
Proof.
  induction l1 as [|[k y] l1 IH]; cbn; [reflexivity|]. intros H. destruct (sv_eqb k v) eqn:E.
  - apply sv_eqb_eq in E. exfalso. eapply H; eauto.
  - apply IH. intros k' x' Hin. eapply H; eauto.
Qed.

(* every typed sub-term of a registered node is registered *)
Lemma closed_subterms st x : inv st -> in_exprs st x -> forall y, In y (tsubterms x) -> in_exprs st y.
Proof.
  intros I. induction x as [v t a args IH] using tsv_ind'. intros Hx y. cbn [tsubterms]. intros [<-|Hy]; [exact Hx|].
  apply in_flat_map in Hy as (z & Hz & Hy). rewrite Forall_forall in IH. apply (IH z Hz); [|exact Hy].
  eapply (i_closed st I); [exact Hx|]. exact Hz.
Qed.

(* ------------------------------------------------------------------ what one registration does *)
(* st' extends st: new expressions carry the variables next st .. next st' - 1; new stable keys satisfy K *)
Record extends (K : sv -> Prop) (st st' : tcs) : Prop := {
  e_next : next st <= next st';
  e_exprs : exists new, exprs st' = new ++ exprs st /\ forall w x, In (w, x) new -> next st <= w;
  e_stable : exists new, stable st' = new ++ stable st /\ forall k x, In (k, x) new -> K k
}.

Lemma extends_refl K st : extends K st st.
Proof. constructor; [lia| exists []; split; [reflexivity|intros ? ? []] | exists []; split; [reflexivity|intros ? ? []]]. Qed.

Lemma extends_in_exprs K st st' x : extends K st st' -> in_exprs st x -> in_exprs st' x.
Proof. intros E H. unfold in_exprs in *. destruct (e_exprs _ _ _ E) as (new & -> & _). apply in_or_app. right. exact H. Qed.

Lemma extends_weaken (K K' : sv -> Prop) st st' : (forall k, K k -> K' k) -> extends K st st' -> extends K' st st'.
Proof.
  intros W E. constructor; [exact (e_next _ _ _ E) | exact (e_exprs _ _ _ E) |].
  destruct (e_stable _ _ _ E) as (n & En & H). exists n. split; [exact En|]. intros k x Hin. apply W. eauto.
Qed.

Lemma extends_trans K st1 st2 st3 : extends K st1 st2 -> extends K st2 st3 -> extends K st1 st3.
Proof.
  intros A B. constructor.
  - pose proof (e_next _ _ _ A). pose proof (e_next _ _ _ B). lia.
  - destruct (e_exprs _ _ _ A) as (n1 & E1 & H1). destruct (e_exprs _ _ _ B) as (n2 & E2 & H2).
    exists (n2 ++ n1). split; [rewrite E2, E1, app_assoc; reflexivity|].
    intros w x Hin. apply in_app_or in Hin as [Hin|Hin].
    + pose proof (H2 _ _ Hin). pose proof (e_next _ _ _ A). lia.
    + eauto.
  - destruct (e_stable _ _ _ A) as (n1 & E1 & H1). destruct (e_stable _ _ _ B) as (n2 & E2 & H2).
    exists (n2 ++ n1). split; [rewrite E2, E1, app_assoc; reflexivity|].
    intros k x Hin. apply in_app_or in Hin as [Hin|Hin]; eauto.
Qed.

Definition sub_of (v : sv) : sv -> Prop := fun k => In k (subterms v).
Definition sub_of_list (l : list sv) : sv -> Prop := fun k => exists x, In x l /\ In k (subterms x).

(* the argument loop of `reg`, named *)
Fixpoint reg_args (l : list sv) (s : tcs) : list tsv * tcs :=
  match l with
  | [] => ([], s)
  | x :: r => let '(tx, s1) := reg x s in
              let '(tr, s2) := reg_args r s1 in (tx :: tr, s2)
  end.

Lemma reg_args_eq : forall l s, reg_args l s = reg_list l s.
Proof. induction l as [|x r IH]; intros s; cbn; [reflexivity|]. destruct (reg x s). rewrite IH. reflexivity. Qed.

Lemma reg_unfold t a args st :
  reg (Node t a args) st =
  let v := Node t a args in
  let stab := is_stable v in
  match (if stab then lookup_stable v (stable st) else None) with
  | Some r => (r, st)
  | None =>
      let '(targs, st1) := reg_args args st in
      let tv := next st1 in
      let nv := TN tv t a targs in
      (nv, mk_tcs (tv + 1) ((tv, nv) :: exprs st1)
                  (if stab then (v, nv) :: stable st1 else stable st1)
                  ((tv, []) :: infs st1))
  end.
Proof.
  cbn [reg].
  assert (E : forall l s, (fix go (l : list sv) (s : tcs) {struct l} : list tsv * tcs :=
               match l with
               | [] => ([], s)
               | x :: r => let '(tx, s1) := reg x s in let '(tr, s2) := go r s1 in (tx :: tr, s2)
               end) l s = reg_args l s).
  { induction l as [|x r IH]; intros s; cbn; [reflexivity|]. destruct (reg x s). rewrite IH. reflexivity. }
  rewrite E. reflexivity.
Qed.

Definition reg_ok (v : sv) : Prop :=
  forall st, inv st ->
    let '(t, st') := reg v st in
    inv st' /\ extends (sub_of v) st st' /\ erase t = v /\ in_exprs st' t.

Definition reg_args_ok (l : list sv) : Prop :=
  forall st, inv st ->
    let '(ts, st') := reg_args l st in
    inv st' /\ extends (sub_of_list l) st st' /\ map erase ts = l /\ Forall (in_exprs st') ts.

Lemma reg_args_spec l : Forall reg_ok l -> reg_args_ok l.
Proof.
  induction l as [|x r IH]; intros HF st I; cbn [reg_args].
  - split; [exact I|]. split; [apply extends_refl|]. split; [reflexivity|constructor].
  - inversion HF as [|? ? Hx Hr]; subst. specialize (Hx st I). destruct (reg x st) as [tx s1].
    destruct Hx as (I1 & E1 & Er1 & In1). specialize (IH Hr s1 I1). destruct (reg_args r s1) as [tr s2].
    destruct IH as (I2 & E2 & Er2 & In2). split; [exact I2|]. split; [|split].
    + eapply extends_trans.
      * eapply extends_weaken; [|exact E1]. intros k Hk. exists x. split; [left; reflexivity|exact Hk].
      * eapply extends_weaken; [|exact E2]. intros k (z & Hz & Hk). exists z. split; [right; exact Hz|exact Hk].
    + cbn [map]. congruence.
    + constructor; [|exact In2]. eapply extends_in_exprs; [exact E2|exact In1].
Qed.

Lemma reg_spec v : reg_ok v.
Proof.
  induction v as [t a args IH] using sv_ind'. intros st I. rewrite reg_unfold. cbv zeta.
  set (v := Node t a args).
  destruct (if is_stable v then lookup_stable v (stable st) else None) as [r|] eqn:L.
  - (* found in the stable table *)
    destruct (is_stable v) eqn:S; [|discriminate]. apply lookup_stable_in in L.
    destruct (i_stable st I _ _ L) as (Er & _ & Hin). split; [exact I|]. split; [apply extends_refl|]. split; [exact Er|exact Hin].
  - pose proof (reg_args_spec args IH st I) as HA. destruct (reg_args args st) as [tas st1].
    destruct HA as (I1 & E1 & Er & Hin).
    assert (Lnone : is_stable v = true -> lookup_stable v (stable st1) = None).
    { intros S. rewrite S in L. destruct (e_stable _ _ _ E1) as (new & -> & Hk). rewrite lookup_stable_app; [exact L|].
      intros k x Hkx. specialize (Hk _ _ Hkx). destruct Hk as (z & Hz & Hk). eapply subterm_of_arg_neq; eauto. }
    set (tv := next st1). set (nv := TN tv t a tas).
    assert (Env : erase nv = v). { subst nv v. cbn [erase]. rewrite Er. reflexivity. }
    assert (Fresh : ~ In tv (map fst (exprs st1))). { intros H. apply (i_lt st1 I1) in H. subst tv. lia. }
    split; [|split; [|split]].
    + (* the invariant *)
      constructor; cbn [exprs infs next stable map fst].
      * f_equal. exact (i_keys st1 I1).
      * intros w. split.
        -- intros [<-|H]; [subst tv; lia|]. apply (i_lt st1 I1) in H. subst tv. lia.
        -- intros H. destruct (N.eq_dec w tv) as [->|Hne]; [left; reflexivity|]. right. apply (i_lt st1 I1). subst tv. lia.
      * constructor; [exact Fresh | exact (i_nodup st1 I1)].
      * intros w x [[= <- <-]|H]; [reflexivity | exact (i_var st1 I1 _ _ H)].
      * intros w x y [[= <- <-]|H] Hy.
        -- right. cbn [targs] in Hy. rewrite Forall_forall in Hin. exact (Hin y Hy).
        -- right. exact (i_closed st1 I1 _ _ _ H Hy).
      * intros k x Hkx.
        assert (Hold : In (k, x) (stable st1) -> erase x = k /\ is_stable k = true /\ in_exprs (mk_tcs (tv + 1) ((tv, nv) :: exprs st1) (if is_stable v then (v, nv) :: stable st1 else stable st1) ((tv, []) :: infs st1)) x).
        { intros H. destruct (i_stable st1 I1 _ _ H) as (A & B & C). repeat split; auto. right. exact C. }
        destruct (is_stable v) eqn:S; [|auto]. destruct Hkx as [[= <- <-]|H]; [|auto].
        repeat split; auto. left. reflexivity.
      * intros x Hx Sx. unfold in_exprs in Hx. cbn [exprs] in Hx. destruct Hx as [Hx|Hx].
        -- inversion Hx as [[Hv Hnv]]. rewrite <- Hnv in *. rewrite Env in *. rewrite Sx. cbn [lookup_stable].
           rewrite sv_eqb_refl. rewrite Hnv. reflexivity.
        -- pose proof (i_complete st1 I1 x Hx Sx) as Lx. destruct (is_stable v) eqn:S; [|exact Lx].
           cbn [lookup_stable]. destruct (sv_eqb v (erase x)) eqn:E; [|exact Lx].
           apply sv_eqb_eq in E. rewrite <- E in Lx. rewrite (Lnone eq_refl) in Lx. discriminate.
    + (* extends *)
      constructor; cbn [next exprs stable].
      * pose proof (e_next _ _ _ E1). subst tv. lia.
      * destruct (e_exprs _ _ _ E1) as (new & -> & Hn). exists ((tv, nv) :: new). split; [reflexivity|].
        intros w x [[= <- <-]|H]; [pose proof (e_next _ _ _ E1); subst tv; lia | eauto].
      * destruct (e_stable _ _ _ E1) as (new & En & Hn).
        assert (Hsub : forall k x, In (k, x) new -> sub_of v k).
        { intros k x H. destruct (Hn _ _ H) as (z & Hz & Hk). unfold sub_of, v. cbn [subterms]. right. apply in_flat_map. eauto. }
        destruct (is_stable v).
        -- exists ((v, nv) :: new). split; [rewrite En; reflexivity|]. intros k x [[= <- <-]|H]; [apply subterms_self|eauto].
        -- exists new. split; [exact En|exact Hsub].
    + exact Env.
    + left. reflexivity.
Qed.

(* ------------------------------------------------------------------ lists of values *)
Lemma reg_list_spec l st : inv st ->
  let '(ts, st') := reg_list l st in
  inv st' /\ extends (sub_of_list l) st st' /\ map erase ts = l /\ Forall (in_exprs st') ts.
Proof.
  intros I. rewrite <- reg_args_eq. apply reg_args_spec; [|exact I]. apply Forall_forall. intros x _. apply reg_spec.
Qed.

(* ------------------------------------------------------------------ coverage (C06, C01) *)
Theorem register_covers_subterms_lemma vs :
  let '(ts, st) := assign_vars vs in
  inv st /\ map erase ts = vs /\
  (forall t y, In t ts -> In y (tsubterms t) ->
     in_exprs st y /\ In (tv_of y) (map fst (infs st)) /\ tv_of y < next st) /\
  (forall v s, In v vs -> In s (subterms v) -> exists y, in_exprs st y /\ erase y = s).
Proof.
  unfold assign_vars. pose proof (reg_list_spec vs empty_tcs inv_empty) as H.
  destruct (reg_list vs empty_tcs) as [ts st]. destruct H as (I & _ & Er & Hin).
  assert (A : forall t y, In t ts -> In y (tsubterms t) -> in_exprs st y).
  { intros t y Ht Hy. rewrite Forall_forall in Hin. exact (closed_subterms st t I (Hin t Ht) y Hy). }
  split; [exact I|]. split; [exact Er|]. split.
  - intros t y Ht Hy. pose proof (A t y Ht Hy) as Hy'. split; [exact Hy'|].
    assert (K : In (tv_of y) (map fst (exprs st))) by (apply in_map_iff; exists (tv_of y, y); auto).
    split; [rewrite <- (i_keys st I); exact K | apply (i_lt st I); exact K].
  - intros v s Hv Hs. rewrite <- Er in Hv. apply in_map_iff in Hv as (t & <- & Ht).
    rewrite <- erase_tsubterms in Hs. apply in_map_iff in Hs as (y & <- & Hy). exists y. split; [exact (A t y Ht Hy)|reflexivity].
Qed.

(* ------------------------------------------------------------------ sharing of stably typed values (C11, C06) *)
Theorem register_stable_shared_lemma vs :
  let '(ts, st) := assign_vars vs in
  forall x y, In x (flat_map tsubterms ts) -> In y (flat_map tsubterms ts) ->
    is_stable (erase x) = true -> erase x = erase y -> x = y.
Proof.
  pose proof (register_covers_subterms_lemma vs) as H. destruct (assign_vars vs) as [ts st].
  destruct H as (I & _ & Hc & _). intros x y Hx Hy S E.
  apply in_flat_map in Hx as (t1 & Ht1 & Hx). apply in_flat_map in Hy as (t2 & Ht2 & Hy).
  destruct (Hc t1 x Ht1 Hx) as (Ix & _). destruct (Hc t2 y Ht2 Hy) as (Iy & _).
  pose proof (i_complete st I x Ix S) as Lx. rewrite E in S. pose proof (i_complete st I y Iy S) as Ly.
  rewrite E in Lx. congruence.
Qed.

(* a value without stable part only gets variables that did not exist before *)
Lemma reg_unstable_fresh v : forall st, inv st -> is_stable v = false ->
  forall y, In y (tsubterms (fst (reg v st))) -> next st <= tv_of y.
Proof.
  induction v as [t a args IH] using sv_ind'. intros st I S y. rewrite reg_unfold. cbv zeta. rewrite S.
  pose proof (reg_args_spec args (proj2 (Forall_forall _ _) (fun x _ => reg_spec x)) st I) as HA.
  assert (G : forall l s, inv s -> Forall (fun v => forall st, inv st -> is_stable v = false ->
                 forall y, In y (tsubterms (fst (reg v st))) -> next st <= tv_of y) l ->
              (forall x, In x l -> is_stable x = false) ->
              forall y, In y (flat_map tsubterms (fst (reg_args l s))) -> next s <= tv_of y).
  { induction l as [|x r IHr]; intros s Is HF Hu z; cbn [reg_args]; [cbn; tauto|].
    inversion HF as [|? ? Hx Hr]; subst. pose proof (reg_spec x s Is) as Sx. pose proof (Hx s Is (Hu x (or_introl eq_refl))) as Fx.
    destruct (reg x s) as [tx s1]. destruct Sx as (I1 & E1 & _ & _). cbn [fst] in Fx.
    specialize (IHr s1 I1 Hr (fun x' H' => Hu x' (or_intror H'))). destruct (reg_args r s1) as [tr s2]. cbn [fst flat_map] in *.
    intros Hz. apply in_app_or in Hz as [Hz|Hz]; [exact (Fx z Hz)|]. pose proof (IHr z Hz). pose proof (e_next _ _ _ E1). lia. }
  specialize (G args st I IH (unstable_args t a args S)).
  destruct (reg_args args st) as [tas st1]. destruct HA as (_ & E1 & _ & _). cbn [fst tsubterms] in *.
  intros [<-|Hy]; [cbn [tv_of]; exact (e_next _ _ _ E1) | exact (G y Hy)].
Qed.

(* ------------------------------------------------------------------ every unstable node occurs exactly once *)
Fixpoint count (w : N) (l : list N) : nat :=
  match l with [] => O | x :: r => ((if N.eqb x w then 1%nat else 0%nat) + count w r)%nat end.

Lemma count_app w l m : count w (l ++ m) = (count w l + count w m)%nat.
Proof. induction l as [|x r IH]; cbn; [reflexivity|]. rewrite IH. lia. Qed.

Lemma count_rev w l : count w (rev l) = count w l.
Proof. induction l as [|x r IH]; cbn; [reflexivity|]. rewrite count_app, IH. cbn. lia. Qed.

Lemma count_zero w l : (forall x, In x l -> x <> w) -> count w l = O.
Proof.
  induction l as [|x r IH]; cbn; [reflexivity|]. intros H. destruct (x =? w) eqn:E.
  - apply N.eqb_eq in E. exfalso. eapply H; eauto.
  - rewrite IH; [reflexivity|]. intros; apply H; auto.
Qed.

Lemma count_in w l : In w l -> (1 <= count w l)%nat.
Proof. induction l as [|x r IH]; cbn; [tauto|]. intros [->|H]; [rewrite N.eqb_refl; lia|]. specialize (IH H). lia. Qed.

(* the places where a typed node is referenced: pending results and the argument lists of registered nodes *)
Definition arg_vars (p : tyvar * tsv) : list N := map tv_of (targs (snd p)).
Definition occ (st : tcs) (pend : list tsv) : list N := map tv_of pend ++ flat_map arg_vars (exprs st).

Definition uniq (st : tcs) (pend : list tsv) : Prop :=
  Forall (in_exprs st) pend /\
  forall x, in_exprs st x -> is_stable (erase x) = false -> count (tv_of x) (occ st pend) = 1%nat.

Lemma occ_lt st pend : inv st -> Forall (in_exprs st) pend -> forall w, In w (occ st pend) -> w < next st.
Proof.
  intros I HP w H. unfold occ in H. apply in_app_or in H as [H|H].
  - apply in_map_iff in H as (x & <- & Hx). rewrite Forall_forall in HP. specialize (HP x Hx).
    apply (i_lt st I). apply in_map_iff. exists (tv_of x, x). auto.
  - apply in_flat_map in H as ([v x] & Hvx & H). unfold arg_vars in H. cbn [snd] in H. apply in_map_iff in H as (y & <- & Hy).
    pose proof (i_closed st I v x y Hvx Hy) as Iy. apply (i_lt st I). apply in_map_iff. exists (tv_of y, y). auto.
Qed.

Lemma reg_uniq v : forall st pend, inv st -> uniq st pend ->
  uniq (snd (reg v st)) (fst (reg v st) :: pend).
Proof.
  induction v as [t a args IH] using sv_ind'. intros st pend I [HP U].
  pose proof (reg_spec (Node t a args) st I) as RS. rewrite reg_unfold in *. cbv zeta in *.
  set (v := Node t a args) in *.
  destruct (if is_stable v then lookup_stable v (stable st) else None) as [r|] eqn:L.
  - (* reuse of a stably typed value *)
    destruct RS as (_ & _ & Er & Hin). cbn [fst snd]. split; [constructor; auto|].
    intros x Hx Sx. destruct (tv_of r =? tv_of x) eqn:E.
    + apply N.eqb_eq in E. pose proof (in_exprs_functional st r x I Hin Hx E) as ->.
      destruct (is_stable v) eqn:S; [|discriminate]. rewrite Er in Sx. congruence.
    + specialize (U x Hx Sx). unfold occ in *. cbn [map app count]. rewrite E. exact U.
  - (* a new node: its arguments move from pending to the argument list of the node *)
    assert (G : forall l s pd, inv s -> uniq s pd -> Forall (fun v => forall st pend, inv st -> uniq st pend ->
                  uniq (snd (reg v st)) (fst (reg v st) :: pend)) l ->
                uniq (snd (reg_args l s)) (rev (fst (reg_args l s)) ++ pd)).
    { induction l as [|x r IHr]; intros s pd Is Us HF; cbn [reg_args]; [exact Us|].
      inversion HF as [|? ? Hx Hr]; subst. pose proof (reg_spec x s Is) as Sx. specialize (Hx s pd Is Us).
      destruct (reg x s) as [tx s1]. destruct Sx as (I1 & _). cbn [fst snd] in Hx.
      specialize (IHr s1 (tx :: pd) I1 Hx Hr). destruct (reg_args r s1) as [tr s2]. cbn [fst snd rev] in *.
      rewrite <- app_assoc. exact IHr. }
    specialize (G args st pend I (conj HP U) IH).
    pose proof (reg_args_spec args (proj2 (Forall_forall _ _) (fun x _ => reg_spec x)) st I) as HA.
    destruct (reg_args args st) as [tas st1]. destruct HA as (I1 & E1 & _ & Hin1). cbn [fst snd] in *.
    destruct RS as (I' & _ & _ & Hnv). destruct G as [HP1 U1].
    set (tv := next st1) in *. set (nv := TN tv t a tas) in *.
    set (st' := mk_tcs (tv + 1) ((tv, nv) :: exprs st1) (if is_stable v then (v, nv) :: stable st1 else stable st1) ((tv, []) :: infs st1)) in *.
    assert (Hpend : Forall (in_exprs st') pend).
    { apply Forall_forall. intros z Hz. right. rewrite Forall_forall in HP1. apply HP1. apply in_or_app. right. exact Hz. }
    split; [constructor; [exact Hnv|exact Hpend]|].
    assert (Eocc : forall w, count w (occ st' (nv :: pend)) = ((if N.eqb tv w then 1%nat else 0%nat) + count w (occ st1 (rev tas ++ pend)))%nat).
    { intros w. unfold occ, st', nv. cbn [exprs flat_map map app]. unfold arg_vars at 1. cbn [snd targs tv_of count].
      rewrite !count_app, map_app, map_rev, count_app, count_rev. lia. }
    intros x Hx Sx. rewrite Eocc. destruct Hx as [Hx|Hx].
    + assert (Ex : tv_of x = tv) by (inversion Hx; reflexivity). rewrite Ex, N.eqb_refl. rewrite count_zero; [reflexivity|].
      intros w Hw Ew. pose proof (occ_lt st1 _ I1 HP1 w Hw) as Hlt. subst w tv. lia.
    + assert (tv =? tv_of x = false) as ->.
      { apply N.eqb_neq. intros E. assert (In (tv_of x) (map fst (exprs st1))) by (apply in_map_iff; exists (tv_of x, x); auto).
        apply (i_lt st1 I1) in H. subst tv. lia. }
      exact (U1 x Hx Sx).
Qed.

Lemma reg_list_uniq l : forall st pend, inv st -> uniq st pend ->
  uniq (snd (reg_list l st)) (rev (fst (reg_list l st)) ++ pend).
Proof.
  induction l as [|x r IH]; intros st pend I U; cbn [reg_list]; [exact U|].
  pose proof (reg_spec x st I) as Sx. pose proof (reg_uniq x st pend I U) as Ux.
  destruct (reg x st) as [tx s1]. destruct Sx as (I1 & _). cbn [fst snd] in Ux.
  specialize (IH s1 (tx :: pend) I1 Ux). destruct (reg_list r s1) as [tr s2]. cbn [fst snd rev] in *.
  rewrite <- app_assoc. exact IH.
Qed.

(* ------------------------------------------------------------------ disjointness (C11) *)
Inductive tsub : tsv -> tsv -> Prop :=
| tsub_refl t : tsub t t
| tsub_step a p t : In a (targs p) -> tsub p t -> tsub a t.

Lemma tsub_trans x y z : tsub x y -> tsub y z -> tsub x z.
Proof. induction 1; intros; auto. econstructor; eauto. Qed.

Lemma tsubterms_tsub t : forall x, In x (tsubterms t) -> tsub x t.
Proof.
  induction t as [v tg a args IH] using tsv_ind'. intros x. cbn [tsubterms]. intros [<-|H]; [constructor|].
  apply in_flat_map in H as (y & Hy & Hx). rewrite Forall_forall in IH. specialize (IH y Hy x Hx).
  eapply tsub_trans; [exact IH|]. econstructor; [|constructor]. exact Hy.
Qed.

Lemma tsub_tsubterms x t : tsub x t -> In x (tsubterms t).
Proof.
  induction 1 as [t|a p t Ha _ IH]; [apply tsubterms_self|].
  revert IH. generalize p a Ha. clear. induction t as [v tg a' args IH] using tsv_ind'. intros p a Ha. cbn [tsubterms].
  intros [<-|H].
  - right. apply in_flat_map. exists a. split; [exact Ha|apply tsubterms_self].
  - right. apply in_flat_map in H as (y & Hy & Hp). apply in_flat_map. exists y. split; [exact Hy|].
    rewrite Forall_forall in IH. exact (IH y Hy p a Ha Hp).
Qed.

Lemma count_flat_two {A} (f : A -> list N) w (l : list A) p q :
  In p l -> In q l -> p <> q -> (count w (f p) + count w (f q) <= count w (flat_map f l))%nat.
Proof.
  induction l as [|x r IH]; [cbn; tauto|cbn [flat_map In]]. rewrite count_app. intros [->|Hp] [->|Hq] Hne.
  - congruence.
  - assert (count w (f q) <= count w (flat_map f r))%nat; [|lia].
    clear -Hq. induction r as [|y r IH]; [destruct Hq|cbn [flat_map]]. rewrite count_app. destruct Hq as [->|Hq]; [lia|]. specialize (IH Hq). lia.
  - assert (count w (f p) <= count w (flat_map f r))%nat; [|lia].
    clear -Hp. induction r as [|y r IH]; [destruct Hp|cbn [flat_map]]. rewrite count_app. destruct Hp as [->|Hp]; [lia|]. specialize (IH Hp). lia.
  - specialize (IH Hp Hq Hne). lia.
Qed.

Lemma count_flat_one {A} (f : A -> list N) w (l : list A) p : In p l -> (count w (f p) <= count w (flat_map f l))%nat.
Proof. induction l as [|y r IH]; [cbn; tauto|cbn [flat_map In]]. rewrite count_app. intros [->|Hp]; [lia|]. specialize (IH Hp). lia. Qed.

Lemma count_two_positions w l i j : i <> j -> nth_error l i = Some w -> nth_error l j = Some w -> (2 <= count w l)%nat.
Proof.
  revert i j. induction l as [|x r IH]; intros [|i] [|j] Hne Hi Hj; cbn in *; try discriminate; try congruence.
  - inversion Hi; subst. rewrite N.eqb_refl. apply nth_error_In in Hj. apply count_in in Hj. lia.
  - inversion Hj; subst. rewrite N.eqb_refl. apply nth_error_In in Hi. apply count_in in Hi. lia.
  - assert (i <> j) by congruence. specialize (IH i j H Hi Hj). lia.
Qed.

Section Disjoint.
  Variables (st : tcs) (roots : list tsv).
  Hypothesis I : inv st.
  Hypothesis U : uniq st roots.

  Let in_ex : forall r, In r roots -> in_exprs st r.
  Proof. destruct U as [HP _]. rewrite Forall_forall in HP. exact HP. Qed.

  Lemma uniq_root_root x i j : is_stable (erase x) = false ->
    nth_error roots i = Some x -> nth_error roots j = Some x -> i = j.
  Proof.
    intros S Hi Hj. destruct (Nat.eq_dec i j) as [|Hne]; [assumption|exfalso].
    destruct U as [_ U']. pose proof (U' x (in_ex x (nth_error_In _ _ Hi)) S) as C. unfold occ in C. rewrite count_app in C.
    assert (2 <= count (tv_of x) (map tv_of roots))%nat; [|lia].
    eapply (count_two_positions _ _ i j Hne); rewrite nth_error_map; [rewrite Hi|rewrite Hj]; reflexivity.
  Qed.

  Lemma uniq_root_arg x p : is_stable (erase x) = false -> In x roots -> in_exprs st p -> In x (targs p) -> False.
  Proof.
    intros S Hr Hp Ha. destruct U as [_ U']. pose proof (U' x (in_ex x Hr) S) as C. unfold occ in C. rewrite count_app in C.
    assert (1 <= count (tv_of x) (map tv_of roots))%nat by (apply count_in, in_map; exact Hr).
    assert (1 <= count (tv_of x) (flat_map arg_vars (exprs st)))%nat; [|lia].
    pose proof (count_flat_one arg_vars (tv_of x) (exprs st) (tv_of p, p) Hp).
    assert (1 <= count (tv_of x) (arg_vars (tv_of p, p)))%nat by (apply count_in; unfold arg_vars; cbn [snd]; apply in_map; exact Ha). lia.
  Qed.

  Lemma uniq_arg_arg x p q : is_stable (erase x) = false -> in_exprs st x ->
    in_exprs st p -> in_exprs st q -> In x (targs p) -> In x (targs q) -> p = q.
  Proof.
    intros S Hx Hp Hq Ha Hb. destruct (N.eq_dec (tv_of p) (tv_of q)) as [E|Hne]; [exact (in_exprs_functional st p q I Hp Hq E)|exfalso].
    destruct U as [_ U']. pose proof (U' x Hx S) as C. unfold occ in C. rewrite count_app in C.
    assert ((tv_of p, p) <> (tv_of q, q)) by congruence.
    pose proof (count_flat_two arg_vars (tv_of x) (exprs st) _ _ Hp Hq H).
    assert (1 <= count (tv_of x) (arg_vars (tv_of p, p)))%nat by (apply count_in; unfold arg_vars; cbn [snd]; apply in_map; exact Ha).
    assert (1 <= count (tv_of x) (arg_vars (tv_of q, q)))%nat by (apply count_in; unfold arg_vars; cbn [snd]; apply in_map; exact Hb). lia.
  Qed.

  (* a node below two different roots lies below a stably typed node common to both *)
  Lemma shared_has_stable i j r1 r2 : i <> j -> nth_error roots i = Some r1 -> nth_error roots j = Some r2 ->
    forall x, tsub x r1 -> tsub x r2 -> exists z, tsub z r1 /\ tsub z r2 /\ is_stable (erase z) = true.
  Proof.
    intros Hne H1 H2 x Hx1. induction Hx1 as [|a p r1' Ha Hp IH]; intros Hx2.
    - (* x is the root r1 *)
      destruct (is_stable (erase t)) eqn:S; [exists t; repeat split; auto; constructor|exfalso].
      inversion Hx2 as [|a p r2' Ha Hp]; subst.
      + apply Hne. eapply uniq_root_root; eauto.
      + eapply (uniq_root_arg t p S); [eapply nth_error_In; eauto| |exact Ha].
        eapply closed_subterms; [exact I | apply in_ex; eapply nth_error_In; exact H2 | apply tsub_tsubterms; exact Hp].
    - destruct (is_stable (erase a)) eqn:S.
      { exists a. repeat split; auto. econstructor; eauto. }
      assert (Ip : in_exprs st p).
      { eapply closed_subterms; [exact I | apply in_ex; eapply nth_error_In; exact H1 | apply tsub_tsubterms; exact Hp]. }
      inversion Hx2 as [|a' q r2' Ha' Hq]; subst.
      + exfalso. eapply (uniq_root_arg r2 p S); [eapply nth_error_In; eauto|exact Ip|exact Ha].
      + assert (Iq : in_exprs st q).
        { eapply closed_subterms; [exact I | apply in_ex; eapply nth_error_In; exact H2 | apply tsub_tsubterms; exact Hq]. }
        assert (Ia : in_exprs st a) by (eapply (i_closed st I); eauto).
        pose proof (uniq_arg_arg a p q S Ia Ip Iq Ha Ha') as ->. exact (IH H1 Hq).
  Qed.
End Disjoint.

Theorem register_disjoint_lemma vs :
  let '(ts, st) := assign_vars vs in
  forall i j v1 v2 t1 t2, i <> j ->
    nth_error vs i = Some v1 -> nth_error vs j = Some v2 ->
    nth_error ts i = Some t1 -> nth_error ts j = Some t2 ->
    (forall s, In s (subterms v1) -> In s (subterms v2) -> is_stable s = false) ->
    forall w, In w (map tv_of (tsubterms t1)) -> In w (map tv_of (tsubterms t2)) -> False.
Proof.
  unfold assign_vars. pose proof (reg_list_spec vs empty_tcs inv_empty) as H.
  assert (U0 : uniq empty_tcs []) by (split; [constructor|intros x []]).
  pose proof (reg_list_uniq vs empty_tcs [] inv_empty U0) as U.
  destruct (reg_list vs empty_tcs) as [ts st]. destruct H as (I & _ & Er & Hin). cbn [fst snd] in U. rewrite app_nil_r in U.
  intros i j v1 v2 t1 t2 Hne Hv1 Hv2 Ht1 Ht2 Hdis w Hw1 Hw2.
  apply in_map_iff in Hw1 as (x1 & E1 & Hx1). apply in_map_iff in Hw2 as (x2 & E2 & Hx2).
  rewrite Forall_forall in Hin.
  assert (I1 : in_exprs st x1) by (apply (closed_subterms st t1 I (Hin t1 (nth_error_In _ _ Ht1)) x1 Hx1)).
  assert (I2 : in_exprs st x2) by (apply (closed_subterms st t2 I (Hin t2 (nth_error_In _ _ Ht2)) x2 Hx2)).
  assert (x1 = x2) by (apply (in_exprs_functional st x1 x2 I I1 I2); congruence). subst x2.
  assert (U' : uniq st ts).
  { destruct U as [HP HU]. split; [apply Forall_forall; intros z Hz; rewrite Forall_forall in HP; apply HP, in_rev; rewrite rev_involutive; exact Hz|].
    intros x Hx Sx. specialize (HU x Hx Sx). unfold occ in *. rewrite count_app in *. rewrite map_rev, count_rev in HU. exact HU. }
  destruct (shared_has_stable st ts I U' i j t1 t2 Hne Ht1 Ht2 x1 (tsubterms_tsub _ _ Hx1) (tsubterms_tsub _ _ Hx2)) as (z & Z1 & Z2 & Sz).
  apply tsub_tsubterms in Z1, Z2.
  assert (Ev1 : erase t1 = v1).
  { apply (f_equal (fun l => nth_error l i)) in Er. rewrite nth_error_map, Ht1, Hv1 in Er. cbn in Er. congruence. }
  assert (Ev2 : erase t2 = v2).
  { apply (f_equal (fun l => nth_error l j)) in Er. rewrite nth_error_map, Ht2, Hv2 in Er. cbn in Er. congruence. }
  assert (S1 : In (erase z) (subterms v1)) by (rewrite <- Ev1, <- erase_tsubterms; apply in_map; exact Z1).
  assert (S2 : In (erase z) (subterms v2)) by (rewrite <- Ev2, <- erase_tsubterms; apply in_map; exact Z2).
  rewrite (Hdis _ S1 S2) in Sz. discriminate.
Qed.

(* ------------------------------------------------------------------ order of registration *)
(* The full statement: registering a permutation of the values renames the type variables.  `ren` maps the
   typed trees of one run onto those of the other. *)
Fixpoint rename_tsv (rho : tyvar -> tyvar) (x : tsv) : tsv :=
  match x with TN v t a args => TN (rho v) t a (map (rename_tsv rho) args) end.

Definition register_order_statement : Prop :=
  forall vs (sigma : list nat), let vs' := map (fun i => nth i vs (Node T_Value [0] [])) sigma in
    Permutation (seq 0 (length vs)) sigma ->
    exists rho : tyvar -> tyvar,
      (forall v w, v < next (snd (assign_vars vs)) -> w < next (snd (assign_vars vs)) -> rho v = rho w -> v = w) /\
      next (snd (assign_vars vs')) = next (snd (assign_vars vs)) /\
      fst (assign_vars vs') = map (fun i => rename_tsv rho (nth i (fst (assign_vars vs)) (TN 0 T_Value [0] []))) sigma.

(* proved part: on the stably typed sub-values the renaming exists, is well defined and injective, for ANY two
   value lists with the same stable sub-values (in particular permutations of one another) *)
Fixpoint find_expr (l : list (tyvar * tsv)) (w : tyvar) : option tsv :=
  match l with [] => None | (v, x) :: r => if v =? w then Some x else find_expr r w end.

Lemma find_expr_in st x : inv st -> in_exprs st x -> find_expr (exprs st) (tv_of x) = Some x.
Proof.
  intros I Hx. pose proof (i_nodup st I) as ND. unfold in_exprs in Hx. revert Hx ND. generalize (exprs st) as l.
  induction l as [|[v y] l IH]; cbn [find_expr In map fst]; [tauto|]. intros [Hx|Hx] ND; inversion ND; subst.
  - inversion Hx; subst. rewrite N.eqb_refl. reflexivity.
  - destruct (v =? tv_of x) eqn:E; [|auto]. apply N.eqb_eq in E. subst v. exfalso. apply H1. apply in_map_iff. exists (tv_of x, x). auto.
Qed.

Definition stable_renaming (st st' : tcs) (w : tyvar) : tyvar :=
  match find_expr (exprs st) w with
  | Some x => match lookup_stable (erase x) (stable st') with Some x' => tv_of x' | None => w end
  | None => w
  end.

Theorem register_order_partial_lemma vs vs' :
  (forall s, is_stable s = true -> (exists v, In v vs /\ In s (subterms v)) <-> (exists v, In v vs' /\ In s (subterms v))) ->
  let st := snd (assign_vars vs) in let st' := snd (assign_vars vs') in
  let rho := stable_renaming st st' in
  (forall x x', in_exprs st x -> in_exprs st' x' -> is_stable (erase x) = true -> erase x = erase x' -> rho (tv_of x) = tv_of x') /\
  (forall x y, In x (flat_map tsubterms (fst (assign_vars vs))) -> In y (flat_map tsubterms (fst (assign_vars vs))) ->
     is_stable (erase x) = true -> is_stable (erase y) = true -> rho (tv_of x) = rho (tv_of y) -> tv_of x = tv_of y).
Proof.
  intros Hsame. pose proof (register_covers_subterms_lemma vs) as C. pose proof (register_covers_subterms_lemma vs') as C'.
  pose proof (register_stable_shared_lemma vs) as Sh.
  destruct (assign_vars vs) as [ts st]. destruct (assign_vars vs') as [ts' st']. cbn [fst snd].
  destruct C as (I & Er & Hc & Hs). destruct C' as (I' & Er' & Hc' & Hs').
  assert (R : forall x x', in_exprs st x -> in_exprs st' x' -> is_stable (erase x) = true -> erase x = erase x' ->
              stable_renaming st st' (tv_of x) = tv_of x').
  { intros x x' Hx Hx' S E. unfold stable_renaming. rewrite (find_expr_in st x I Hx). rewrite E.
    rewrite E in S. rewrite (i_complete st' I' x' Hx' S). reflexivity. }
  split; [exact R|].
  intros x y Hx Hy Sx Sy E.
  assert (Px : exists x', in_exprs st' x' /\ erase x' = erase x).
  { apply in_flat_map in Hx as (t & Ht & Hx). assert (In (erase x) (subterms (erase t))) by (rewrite <- erase_tsubterms; apply in_map; exact Hx).
    assert (In (erase t) vs) by (rewrite <- Er; apply in_map; exact Ht).
    destruct (proj1 (Hsame (erase x) Sx)) as (v' & Hv' & Hsub); [eauto|]. exact (Hs' v' (erase x) Hv' Hsub). }
  assert (Py : exists y', in_exprs st' y' /\ erase y' = erase y).
  { apply in_flat_map in Hy as (t & Ht & Hy). assert (In (erase y) (subterms (erase t))) by (rewrite <- erase_tsubterms; apply in_map; exact Hy).
    assert (In (erase t) vs) by (rewrite <- Er; apply in_map; exact Ht).
    destruct (proj1 (Hsame (erase y) Sy)) as (v' & Hv' & Hsub); [eauto|]. exact (Hs' v' (erase y) Hv' Hsub). }
  destruct Px as (x' & Ix' & Ex'). destruct Py as (y' & Iy' & Ey').
  assert (Ix : in_exprs st x) by (apply in_flat_map in Hx as (t & Ht & Hx); exact (proj1 (Hc t x Ht Hx))).
  assert (Iy : in_exprs st y) by (apply in_flat_map in Hy as (t & Ht & Hy); exact (proj1 (Hc t y Ht Hy))).
  rewrite (R x x' Ix Ix' Sx (eq_sym Ex')), (R y y' Iy Iy' Sy (eq_sym Ey')) in E.
  pose proof (in_exprs_functional st' x' y' I' Ix' Iy' E) as ->.
  assert (x = y) by (apply Sh; auto; congruence). congruence.
Qed.
