(* C09: constant folding preserves meaning.  The theorems are about `Fold.constant_fold`, which is
   driven by the table of arms regenerated from `constant_folder` (gen/FoldTable.v), the KnownWord
   operators selected from known.rs (gen/KnownWordSel.v) and the constructor table (gen/ValueSig.v);
   they are re-checked against whatever those generated files say now. *)
From SLX Require Import Base Word256 EvmSpec gen.ValueSig gen.KnownWordSel gen.FoldTable SymVal KnownWord Fold.
From SLX Require Import proofs.Word256Proofs proofs.EvmSpecProofs proofs.KnownWordProofs.
Open Scope N_scope.
Set Default Timeout 120.

(* ------------------------------------------------------------------ tags *)

Lemma nth_tag_idx t : nth (N.to_nat (tag_idx t)) all_tags T_Value = t.
Proof. destruct t; reflexivity. Qed.

Lemma tag_eqb_eq a b : tag_eqb a b = true <-> a = b.
Proof.
  unfold tag_eqb. rewrite N.eqb_eq. split; [|now intros ->].
  intros E. rewrite <- (nth_tag_idx a), <- (nth_tag_idx b). now rewrite E.
Qed.

Lemma tag_eqb_refl a : tag_eqb a a = true.
Proof. now apply tag_eqb_eq. Qed.

(* `transform` rebuilds every constructor as itself *)
Lemma transform_ctor_id t : transform_ctor t = t.
Proof. destruct t; reflexivity. Qed.

(* ------------------------------------------------------------------ the generated table *)

Definition ident_uses (n : nat) : list (nat * bool) := map (fun i => (i, true)) (seq 0 n).
Definition use_eqb (x y : nat * bool) : bool := Nat.eqb (fst x) (fst y) && Bool.eqb (snd x) (snd y).

Lemma use_eqb_eq x y : use_eqb x y = true -> x = y.
Proof.
  destruct x as [i b], y as [j c]. unfold use_eqb. cbn [fst snd]. intros H.
  apply andb_prop in H as [H1 H2]. apply Nat.eqb_eq in H1. apply Bool.eqb_prop in H2. congruence.
Qed.

Lemma uses_eqb_eq l m : list_eqb use_eqb l m = true -> l = m.
Proof.
  revert m. induction l as [|x l IH]; destruct m as [|y m]; cbn [list_eqb]; try discriminate; [reflexivity|].
  intros H. apply andb_prop in H as [H1 H2]. apply use_eqb_eq in H1. apply IH in H2. congruence.
Qed.

(* what C09 requires of an arm, apart from the arithmetic: all operands are folded and scrutinised, in declared
   order; the fallback rebuilds the SAME constructor from the SAME folded operands in the SAME positions *)
Definition arm_ok (r : fold_arm) : bool :=
  list_eqb use_eqb (fa_scrut r) (ident_uses (fa_arity r))
  && list_eqb use_eqb (fa_fb r) (ident_uses (fa_arity r))
  && tag_eqb (fa_fallback r) (fa_tag r)
  && Nat.eqb (fa_arity r) (op_arity (fa_tag r))
  && foldable (fa_tag r).

Lemma table_ok : forallb arm_ok fold_table = true.
Proof. vm_compute. reflexivity. Qed.

Lemma table_cover : forallb (fun t => match find_arm t with Some _ => true | None => false end) foldable_tags = true.
Proof. vm_compute. reflexivity. Qed.

Lemma table_default : fold_default_is_none = true.
Proof. reflexivity. Qed.

Lemma arm_ok_props r : arm_ok r = true ->
  fa_scrut r = ident_uses (fa_arity r) /\ fa_fb r = ident_uses (fa_arity r) /\ fa_fallback r = fa_tag r
  /\ fa_arity r = op_arity (fa_tag r) /\ foldable (fa_tag r) = true.
Proof.
  unfold arm_ok. intros H.
  apply andb_prop in H as [H H5]. apply andb_prop in H as [H H4]. apply andb_prop in H as [H H3].
  apply andb_prop in H as [H1 H2].
  apply uses_eqb_eq in H1, H2. apply tag_eqb_eq in H3. apply Nat.eqb_eq in H4. repeat split; assumption.
Qed.

Lemma find_arm_in_some l t r : find_arm_in l t = Some r -> In r l /\ fa_tag r = t.
Proof.
  induction l as [|x l IH]; cbn [find_arm_in]; [discriminate|].
  destruct (tag_eqb (fa_tag x) t) eqn:E.
  - intros [= <-]. split; [now left|]. now apply tag_eqb_eq.
  - intros H. apply IH in H as [H1 H2]. split; [now right|exact H2].
Qed.

Lemma find_arm_some t r : find_arm t = Some r -> arm_ok r = true /\ In r fold_table /\ fa_tag r = t.
Proof.
  intros H. apply find_arm_in_some in H as [Hin Ht]. split; [|split; assumption].
  pose proof table_ok as Hok. rewrite forallb_forall in Hok. now apply Hok.
Qed.

Lemma find_arm_foldable t : foldable t = true -> exists r, find_arm t = Some r.
Proof.
  intros Hf. unfold foldable in Hf. apply existsb_exists in Hf as (t' & Hin & E).
  apply tag_eqb_eq in E. subst t'.
  pose proof table_cover as Hc. rewrite forallb_forall in Hc. specialize (Hc t Hin).
  destruct (find_arm t) as [r|]; [now exists r|discriminate].
Qed.

Lemma find_arm_known : find_arm T_KnownData = None.
Proof.
  destruct (find_arm T_KnownData) as [r|] eqn:E; [|reflexivity].
  apply find_arm_some in E as (Hok & _ & Ht). apply arm_ok_props in Hok as (_ & _ & _ & _ & Hf).
  rewrite Ht in Hf. vm_compute in Hf. discriminate.
Qed.

(* the arithmetic content of each arm: on words it computes the Yellow-Paper operation of ITS constructor,
   with the operands in the roles the constructor's fields give them *)
Definition arm_sem (r : fold_arm) : Prop :=
  forall ws, length ws = fa_arity r -> Forall in_range ws ->
  den_op (fa_tag r) [] ws = Some (kw_apply (fa_op r) (map (fun j => nth j ws 0) (fa_operands r))).

Lemma spec_add_comm a b : spec_add a b = spec_add b a.
Proof. unfold spec_add. now rewrite N.add_comm. Qed.
Lemma spec_mul_comm a b : spec_mul a b = spec_mul b a.
Proof. unfold spec_mul. now rewrite N.mul_comm. Qed.
Lemma spec_and_comm a b : spec_and a b = spec_and b a.
Proof. unfold spec_and. apply N.land_comm. Qed.
Lemma spec_or_comm a b : spec_or a b = spec_or b a.
Proof. unfold spec_or. apply N.lor_comm. Qed.
Lemma spec_xor_comm a b : spec_xor a b = spec_xor b a.
Proof. unfold spec_xor. apply N.lxor_comm. Qed.
Lemma spec_eq_comm a b : spec_eq a b = spec_eq b a.
Proof. unfold spec_eq. now rewrite N.eqb_sym. Qed.
Lemma spec_lt_gt a b : spec_lt a b = spec_gt b a.
Proof. unfold spec_lt, spec_gt. reflexivity. Qed.
Lemma spec_slt_sgt a b : spec_slt a b = spec_sgt b a.
Proof. unfold spec_slt, spec_sgt. reflexivity. Qed.

(* the goal decides the lemma (no search by unification: the operator terms are big) *)
Ltac op_eq :=
  lazymatch goal with
  | |- kw_add ?x ?y = spec_add ?x ?y => apply impl_add_eq_spec
  | |- kw_mul ?x ?y = spec_mul ?x ?y => apply impl_mul_eq_spec
  | |- kw_sub ?x ?y = spec_sub ?x ?y => apply impl_sub_eq_spec
  | |- kw_div ?x ?y = spec_div ?x ?y => apply impl_div_eq_spec
  | |- kw_signed_div ?x ?y = spec_sdiv ?x ?y => apply impl_sdiv_eq_spec
  | |- kw_rem ?x ?y = spec_mod ?x ?y => apply impl_mod_eq_spec
  | |- kw_signed_rem ?x ?y = spec_smod ?x ?y => apply impl_smod_eq_spec
  | |- kw_exp ?x ?y = spec_exp ?x ?y => apply impl_exp_eq_spec
  | |- kw_lt ?x ?y = spec_lt ?x ?y => apply impl_lt_eq_spec
  | |- kw_gt ?x ?y = spec_gt ?x ?y => apply impl_gt_eq_spec
  | |- kw_signed_lt ?x ?y = spec_slt ?x ?y => apply impl_slt_eq_spec
  | |- kw_signed_gt ?x ?y = spec_sgt ?x ?y => apply impl_sgt_eq_spec
  | |- kw_from_eq ?x ?y = spec_eq ?x ?y => apply impl_eq_eq_spec
  | |- kw_eq ?x ?y = spec_eq ?x ?y => apply impl_eq_method_eq_spec
  | |- kw_is_zero ?x = spec_iszero ?x => apply impl_iszero_eq_spec
  | |- kw_and ?x ?y = spec_and ?x ?y => apply impl_and_eq_spec
  | |- kw_or ?x ?y = spec_or ?x ?y => apply impl_or_eq_spec
  | |- kw_xor ?x ?y = spec_xor ?x ?y => apply impl_xor_eq_spec
  | |- kw_not ?x = spec_not ?x => apply impl_not_eq_spec
  | |- kw_shl ?v ?s = spec_shl ?s ?v => apply impl_shl_eq_spec
  | |- kw_shr ?v ?s = spec_shr ?s ?v => apply impl_shr_eq_spec
  | |- kw_sar ?v ?s = spec_sar ?s ?v => apply impl_sar_eq_spec
  end.

(* harmless rewrites of an arm (commuted operands of a commutative operation, `b > a` for `a < b`) still check *)
Ltac op_eq_sym :=
  lazymatch goal with
  | |- kw_add ?x ?y = spec_add ?y ?x => rewrite (spec_add_comm y x); op_eq
  | |- kw_mul ?x ?y = spec_mul ?y ?x => rewrite (spec_mul_comm y x); op_eq
  | |- kw_and ?x ?y = spec_and ?y ?x => rewrite (spec_and_comm y x); op_eq
  | |- kw_or ?x ?y = spec_or ?y ?x => rewrite (spec_or_comm y x); op_eq
  | |- kw_xor ?x ?y = spec_xor ?y ?x => rewrite (spec_xor_comm y x); op_eq
  | |- kw_from_eq ?x ?y = spec_eq ?y ?x => rewrite (spec_eq_comm y x); op_eq
  | |- kw_eq ?x ?y = spec_eq ?y ?x => rewrite (spec_eq_comm y x); op_eq
  | |- kw_gt ?x ?y = spec_lt ?y ?x => rewrite (spec_lt_gt y x); op_eq
  | |- kw_lt ?x ?y = spec_gt ?y ?x => rewrite <- (spec_lt_gt x y); op_eq
  | |- kw_signed_gt ?x ?y = spec_slt ?y ?x => rewrite (spec_slt_sgt y x); op_eq
  | |- kw_signed_lt ?x ?y = spec_sgt ?y ?x => rewrite <- (spec_slt_sgt x y); op_eq
  end.

Lemma table_sem : Forall arm_sem fold_table.
Proof.
  unfold fold_table.
  repeat (apply Forall_cons; [|]); try apply Forall_nil.
  all: intros ws Hl Hr; cbn [fa_tag fa_arity fa_op fa_operands] in *.
  all: destruct ws as [|a [|b [|c ws]]]; try discriminate Hl.
  all: repeat match goal with H : Forall _ (_ :: _) |- _ => apply Forall_cons_iff in H as [? H] end.
  all: unfold in_range in *; fold W.
  all: cbn [den_op bin un kw_apply arg0 arg1 map nth]; apply (f_equal Some); symmetry.
  all: first [op_eq | op_eq_sym]; assumption.
Qed.

Lemma arm_sem_of t r : find_arm t = Some r -> arm_sem r.
Proof.
  intros H. apply find_arm_some in H as (_ & Hin & _).
  pose proof table_sem as Hs. rewrite Forall_forall in Hs. now apply Hs.
Qed.

(* ------------------------------------------------------------------ lists of operands *)

Lemma map_nth_seq {A} (l : list A) d : map (fun i => nth i l d) (seq 0 (length l)) = l.
Proof.
  induction l as [|x l IH]; [reflexivity|].
  cbn [length seq map nth]. f_equal. rewrite <- seq_shift, map_map. exact IH.
Qed.

Lemma operands_ident args fargs n :
  length fargs = n -> map (operand args fargs) (ident_uses n) = fargs.
Proof.
  intros <-. unfold ident_uses. rewrite map_map. unfold operand. cbn [fst snd]. apply map_nth_seq.
Qed.

Lemma as_word_some x w : as_word x = Some w -> x = Known w.
Proof.
  destruct x as [t a l]. destruct t; try discriminate.
  destruct a as [|w' [|? ?]]; try discriminate. destruct l; try discriminate.
  cbn [as_word]. now intros [= ->].
Qed.

Lemma as_word_known w : as_word (Known w) = Some w.
Proof. reflexivity. Qed.

Lemma all_words_some l ws : all_words l = Some ws -> l = map Known ws.
Proof.
  revert ws. induction l as [|x l IH]; intros ws; cbn [all_words].
  - now intros [= <-].
  - destruct (as_word x) as [w|] eqn:Ex; [|discriminate].
    destruct (all_words l) as [ws'|]; [|discriminate]. intros [= <-].
    apply as_word_some in Ex. cbn [map]. now rewrite Ex, (IH ws').
Qed.

Lemma all_words_known ws : all_words (map Known ws) = Some ws.
Proof.
  induction ws as [|w ws IH]; [reflexivity|]. cbn [map all_words]. now rewrite as_word_known, IH.
Qed.

(* an arm that passes arm_ok, once it matches *)
Lemma run_arm_ok r args fargs :
  arm_ok r = true -> length fargs = fa_arity r ->
  run_arm r args fargs =
  match all_words fargs with
  | Some ws => Known (kw_apply (fa_op r) (map (fun j => nth j ws 0) (fa_operands r)))
  | None => Node (fa_tag r) [] fargs
  end.
Proof.
  intros Hok Hl. apply arm_ok_props in Hok as (Hs & Hf & Ht & _ & _).
  unfold run_arm. rewrite Hs, Hf, Ht. rewrite (operands_ident args fargs _ Hl). reflexivity.
Qed.

Lemma arm_matches_true r a args : arm_matches r a args = true -> a = [] /\ length args = fa_arity r.
Proof.
  unfold arm_matches. destruct a; [|discriminate]. intros H. apply Nat.eqb_eq in H. now split.
Qed.

Lemma arm_matches_map r a args (f : sv -> sv) : arm_matches r a (map f args) = arm_matches r a args.
Proof. unfold arm_matches. now rewrite map_length. Qed.

Lemma fold_node t a args :
  constant_fold (Node t a args) =
  match find_arm t with
  | Some r => if arm_matches r a args then run_arm r args (map constant_fold args)
              else Node (transform_ctor t) a (map constant_fold args)
  | None => Node (transform_ctor t) a (map constant_fold args)
  end.
Proof. reflexivity. Qed.

(* ------------------------------------------------------------------ well-formedness, denotation *)

Lemma wf_node t a args : wf (Node t a args) <-> ((t = T_KnownData -> Forall in_range a) /\ Forall wf args).
Proof.
  unfold wf. cbn [wfb]. rewrite andb_true_iff, forallb_forall, <- Forall_forall.
  assert (Hk : (if tag_eqb t T_KnownData then forallb in_rangeb a else true) = true <-> (t = T_KnownData -> Forall in_range a)).
  { destruct (tag_eqb t T_KnownData) eqn:E.
    - apply tag_eqb_eq in E. rewrite forallb_forall, Forall_forall. split.
      + intros H _ x Hx. apply in_rangeb_spec. now apply H.
      + intros H x Hx. apply in_rangeb_spec. now apply (H E).
    - split; [|reflexivity]. intros _ Ht. apply tag_eqb_eq in Ht. congruence. }
  rewrite Hk. reflexivity.
Qed.

Lemma wf_known w : wf (Known w) <-> w < W.
Proof.
  unfold Known. rewrite wf_node. split.
  - intros [H _]. specialize (H eq_refl). now apply Forall_cons_iff in H as [H _].
  - intros H. split; [|constructor]. intros _. repeat constructor. exact H.
Qed.

Lemma wf_knowns ws : Forall wf (map Known ws) -> Forall in_range ws.
Proof.
  induction ws as [|w ws IH]; cbn [map]; intros H; [constructor|].
  apply Forall_cons_iff in H as [H1 H2]. constructor; [now apply wf_known|now apply IH].
Qed.

Lemma den_known env w : den env (Known w) = w.
Proof. reflexivity. Qed.

Lemma den_knowns env ws : map (den env) (map Known ws) = ws.
Proof. induction ws as [|w ws IH]; [reflexivity|]. cbn [map]. now rewrite den_known, IH. Qed.

Lemma den_node env t a args :
  den env (Node t a args) =
  match den_op t a (map (den env) args) with Some r => r | None => env t a (map (den env) args) end.
Proof. reflexivity. Qed.

(* the specification of every foldable constructor yields words *)
Lemma den_op_range t ws r : foldable t = true -> Forall in_range ws -> den_op t [] ws = Some r -> r < W.
Proof.
  intros Hf Hr H. unfold in_range in Hr.
  destruct t; vm_compute in Hf; try discriminate Hf; clear Hf.
  all: destruct ws as [|a [|b [|c ws]]]; cbn [den_op bin un] in H; try discriminate H.
  all: repeat match goal with H : Forall _ (_ :: _) |- _ => apply Forall_cons_iff in H as [? H] end.
  all: injection H as <-.
  all: lazymatch goal with
       | |- spec_add _ _ < W => now apply spec_add_range
       | |- spec_mul _ _ < W => now apply spec_mul_range
       | |- spec_sub _ _ < W => now apply spec_sub_range
       | |- spec_div _ _ < W => now apply spec_div_range
       | |- spec_sdiv _ _ < W => now apply spec_sdiv_range
       | |- spec_mod _ _ < W => now apply spec_mod_range
       | |- spec_smod _ _ < W => now apply spec_smod_range
       | |- spec_exp _ _ < W => now apply spec_exp_range
       | |- spec_lt _ _ < W => now apply spec_lt_range
       | |- spec_gt _ _ < W => now apply spec_gt_range
       | |- spec_slt _ _ < W => now apply spec_slt_range
       | |- spec_sgt _ _ < W => now apply spec_sgt_range
       | |- spec_eq _ _ < W => now apply spec_eq_range
       | |- spec_iszero _ < W => now apply spec_iszero_range
       | |- spec_and _ _ < W => now apply spec_and_range
       | |- spec_or _ _ < W => now apply spec_or_range
       | |- spec_xor _ _ < W => now apply spec_xor_range
       | |- spec_not _ < W => now apply spec_not_range
       | |- spec_shl _ _ < W => now apply spec_shl_range
       | |- spec_shr _ _ < W => now apply spec_shr_range
       | |- spec_sar _ _ < W => now apply spec_sar_range
       end.
Qed.

(* ------------------------------------------------------------------ the theorems *)

Lemma Forall_map_eq {A B} (f g : A -> B) l : Forall (fun x => f x = g x) l -> map f l = map g l.
Proof. induction 1 as [|x l Hx _ IH]; [reflexivity|]. cbn [map]. now rewrite Hx, IH. Qed.

(* folding keeps trees well formed: a folded constant is a word *)
Theorem fold_wf t : wf t -> wf (constant_fold t).
Proof.
  induction t as [t a args IH] using sv_ind'. intros Hwf. apply wf_node in Hwf as [Hka Hargs].
  assert (Hfa : Forall wf (map constant_fold args)).
  { apply Forall_forall. intros y Hy. apply in_map_iff in Hy as (x & <- & Hx).
    rewrite Forall_forall in IH, Hargs. apply IH; [exact Hx|]. now apply Hargs. }
  assert (Hgen : wf (Node (transform_ctor t) a (map constant_fold args))).
  { rewrite transform_ctor_id. apply wf_node. now split. }
  rewrite fold_node. destruct (find_arm t) as [r|] eqn:Ef; [|exact Hgen].
  destruct (arm_matches r a args) eqn:Em; [|exact Hgen].
  apply arm_matches_true in Em as [-> Hl].
  pose proof (arm_sem_of _ _ Ef) as Hsem. apply find_arm_some in Ef as (Hok & _ & Ht).
  rewrite run_arm_ok by (try rewrite map_length; assumption).
  destruct (all_words (map constant_fold args)) as [ws|] eqn:Ew.
  - apply all_words_some in Ew. rewrite Ew in Hfa. apply wf_knowns in Hfa.
    assert (Hlw : length ws = fa_arity r) by (rewrite <- Hl, <- (map_length constant_fold args), Ew, map_length; reflexivity).
    apply wf_known. apply (den_op_range (fa_tag r) ws); [|exact Hfa|now apply Hsem].
    now apply arm_ok_props in Hok as (_ & _ & _ & _ & Hf).
  - apply wf_node. split; [|exact Hfa]. intros _. constructor.
Qed.

Theorem fold_sound env t : wf t -> den env (constant_fold t) = den env t.
Proof.
  induction t as [t a args IH] using sv_ind'. intros Hwf. pose proof Hwf as Hwf0.
  apply wf_node in Hwf as [Hka Hargs].
  assert (Hm : map (den env) (map constant_fold args) = map (den env) args).
  { rewrite map_map. apply Forall_map_eq. rewrite Forall_forall in *. intros x Hx. apply IH; [exact Hx|now apply Hargs]. }
  assert (Hfa : Forall wf (map constant_fold args)).
  { apply Forall_forall. intros y Hy. apply in_map_iff in Hy as (x & <- & Hx).
    rewrite Forall_forall in Hargs. apply fold_wf. now apply Hargs. }
  assert (Hgen : den env (Node (transform_ctor t) a (map constant_fold args)) = den env (Node t a args)).
  { rewrite transform_ctor_id, !den_node, Hm. reflexivity. }
  rewrite fold_node. destruct (find_arm t) as [r|] eqn:Ef; [|exact Hgen].
  destruct (arm_matches r a args) eqn:Em; [|exact Hgen].
  apply arm_matches_true in Em as [-> Hl].
  pose proof (arm_sem_of _ _ Ef) as Hsem. apply find_arm_some in Ef as (Hok & _ & Ht).
  rewrite run_arm_ok by (try rewrite map_length; assumption).
  rewrite (den_node env t), <- Hm.
  destruct (all_words (map constant_fold args)) as [ws|] eqn:Ew.
  - apply all_words_some in Ew. rewrite Ew in Hfa |- *. apply wf_knowns in Hfa.
    assert (Hlw : length ws = fa_arity r) by (rewrite <- Hl, <- (map_length constant_fold args), Ew, map_length; reflexivity).
    rewrite den_known, den_knowns. rewrite <- Ht, (Hsem ws Hlw Hfa). reflexivity.
  - rewrite Ht, den_node. reflexivity.
Qed.

(* an operator with a non-constant operand stays the SAME operator with the SAME operands in the SAME
   positions, each folded recursively; all-constant operands give exactly the Yellow-Paper word *)
Theorem fold_shape t args :
  foldable t = true -> length args = op_arity t -> Forall wf args ->
  constant_fold (Node t [] args) =
  match all_words (map constant_fold args) with
  | Some ws => Known (spec_op t ws)
  | None => Node t [] (map constant_fold args)
  end.
Proof.
  intros Hf Hl Hargs.
  assert (Hfa : Forall wf (map constant_fold args)).
  { apply Forall_forall. intros y Hy. apply in_map_iff in Hy as (x & <- & Hx).
    rewrite Forall_forall in Hargs. apply fold_wf. now apply Hargs. }
  destruct (find_arm_foldable t Hf) as [r Ef].
  pose proof (arm_sem_of _ _ Ef) as Hsem. pose proof Ef as Ef0. apply find_arm_some in Ef0 as (Hok & _ & Ht).
  pose proof (arm_ok_props r Hok) as (_ & _ & _ & Har & _). rewrite Ht in Har.
  rewrite fold_node, Ef.
  assert (Em : arm_matches r [] args = true) by (unfold arm_matches; apply Nat.eqb_eq; congruence).
  rewrite Em. rewrite run_arm_ok by (try rewrite map_length; congruence).
  destruct (all_words (map constant_fold args)) as [ws|] eqn:Ew.
  - apply all_words_some in Ew. rewrite Ew in Hfa. apply wf_knowns in Hfa.
    assert (Hlw : length ws = fa_arity r) by (rewrite Har, <- Hl, <- (map_length constant_fold args), Ew, map_length; reflexivity).
    unfold spec_op. rewrite <- Ht, (Hsem ws Hlw Hfa). reflexivity.
  - now rewrite Ht.
Qed.

Theorem fold_idem t : constant_fold (constant_fold t) = constant_fold t.
Proof.
  induction t as [t a args IH] using sv_ind'.
  assert (Hm : map constant_fold (map constant_fold args) = map constant_fold args).
  { rewrite map_map. apply Forall_map_eq. exact IH. }
  rewrite (fold_node t a args). destruct (find_arm t) as [r|] eqn:Ef.
  2:{ rewrite transform_ctor_id, fold_node, Ef, transform_ctor_id, Hm. reflexivity. }
  destruct (arm_matches r a args) eqn:Em.
  2:{ rewrite transform_ctor_id, fold_node, Ef, arm_matches_map, Em, transform_ctor_id, Hm. reflexivity. }
  apply arm_matches_true in Em as [-> Hl]. pose proof Ef as Ef0. apply find_arm_some in Ef0 as (Hok & _ & Ht).
  rewrite run_arm_ok by (try rewrite map_length; assumption).
  destruct (all_words (map constant_fold args)) as [ws|] eqn:Ew.
  - unfold Known. rewrite fold_node, find_arm_known, transform_ctor_id. reflexivity.
  - rewrite Ht, fold_node, Ef.
    assert (Em : arm_matches r [] (map constant_fold args) = true)
      by (unfold arm_matches; rewrite map_length; now apply Nat.eqb_eq).
    rewrite Em, run_arm_ok by (try rewrite !map_length; assumption).
    rewrite Hm, Ew, Ht. reflexivity.
Qed.

(* constant_fold is `transform constant_folder`: top-down, first match wins, arms recurse themselves *)
Theorem constant_fold_is_transform t : constant_fold t = transform constant_folder t.
Proof.
  induction t as [t a args IH] using sv_ind'.
  assert (Hm : map constant_fold args = map (transform constant_folder) args) by (apply Forall_map_eq; exact IH).
  rewrite fold_node. cbn [transform constant_folder].
  destruct (find_arm t) as [r|]; [destruct (arm_matches r a args)|]; rewrite ?Hm; reflexivity.
Qed.

(* the fold never panics: every KnownWord operation it can apply is panic-free on words (debug build) *)
Theorem fold_ops_no_panic o a b : a < 2 ^ 256 -> b < 2 ^ 256 -> kw_panics o [a; b] = false.
Proof. apply kw_no_panic. Qed.
