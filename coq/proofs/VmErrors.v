(* C17: what the permissive flag does and does not do, for every program, configuration and
   constant-folding function.  `permissive` is read in exactly one place of the model (the recording
   of errors in vm_step); the opcode bodies only see `limits`. *)
From Coq Require Import Permutation.
From SLX Require Import Base gen.Constants gen.ValueSig gen.OpcodeTable SymVal Micro gen.OpcodeSem Disasm VM proofs.VmBounds.
Open Scope N_scope.

Section Errors.
Variable fold : sv -> sv.

(* the same machine state with another error buffer and another value of the flag *)
Definition reperm (m : vm) (errs : list (N * exec_err)) (p : bool) : vm :=
  mk_vm (v_code m) (v_queue m) (v_stored m) (v_jt m) (v_killed m) errs (v_next_id m) (v_polls m)
        (v_counter m) (v_retired m) (v_paths m) (mk_config' (lim (v_cfg m)) p).

Ltac proj := cbn [v_code v_queue v_stored v_jt v_killed v_errors v_next_id v_polls v_counter v_retired v_paths v_cfg
                  tip tvis tgas tstate tpath snd fst reperm lim permissive].
Tactic Notation "proj" "in" hyp(H) :=
  cbn [v_code v_queue v_stored v_jt v_killed v_errors v_next_id v_polls v_counter v_retired v_paths v_cfg
       tip tvis tgas tstate tpath snd fst reperm lim permissive] in H.

(* one iteration of the main loop does the same thing to everything except the error buffer *)
Lemma vm_step_reperm m errs p :
  match vm_step fold m with
  | SRunning m' => exists errs', vm_step fold (reperm m errs p) = SRunning (reperm m' errs' p)
  | SDone m' => vm_step fold (reperm m errs p) = SDone (reperm m' errs p)
  | SStopped ip m' => vm_step fold (reperm m errs p) = SStopped ip (reperm m' errs p)
  end.
Proof.
  unfold vm_step. proj.
  destruct (v_queue m) as [|t rest] eqn:Eq.
  { reflexivity. }
  destruct (nth_error (v_code m) (N.to_nat (tip t))) as [i|] eqn:Ei.
  2: { reflexivity. }
  destruct (if v_counter m mod poll_every (v_cfg m) =? 0 then _ else _) as [stopped c1].
  destruct stopped; [reflexivity|].
  destruct (exec_instr fold (v_cfg m) (v_code m) (bump (tip t) (tvis t)) (v_jt m) (tip t) i c1) as [[[[c3 err] serr] k] jt'].
  destruct err as [e|]; cbv beta iota zeta; unfold advance; proj;
    repeat match goal with |- context [if ?b then _ else _] => destruct b end;
    eexists; unfold reperm; proj; reflexivity.
Qed.

Definition same_but_errors (a b : vm) : Prop :=
  exists errs p, b = reperm a errs p.

Lemma reperm_reperm m e p e' p' : reperm (reperm m e p) e' p' = reperm m e' p'.
Proof. reflexivity. Qed.

Lemma same_refl_cfg code cfg p : same_but_errors (init_vm code cfg) (init_vm code (mk_config' (lim cfg) p)).
Proof. exists [], p. reflexivity. Qed.

Definition result_rel (r1 r2 : exec_result) : Prop :=
  match r1, r2 with
  | RDone a, RDone b => same_but_errors a b
  | RStopped i a, RStopped j b => i = j /\ same_but_errors a b
  | ROutOfFuel a, ROutOfFuel b => same_but_errors a b
  | _, _ => False
  end.

Lemma run_same n : forall a b, same_but_errors a b -> result_rel (run fold n a) (run fold n b).
Proof.
  induction n as [|n IH]; intros a b (errs & p & ->); cbn [run].
  - exists errs, p. reflexivity.
  - pose proof (vm_step_reperm a errs p) as H.
    destruct (vm_step fold a) as [a'|a'|ip a'].
    + destruct H as (errs' & ->). apply IH. exists errs', p. reflexivity.
    + rewrite H. cbn. exists errs, p. reflexivity.
    + rewrite H. cbn. split; [reflexivity|]. exists errs, p. reflexivity.
Qed.

(* ---- what is recorded ---- *)
Lemma insert_sorted_in e l x : In x (insert_sorted e l) <-> x = e \/ In x l.
Proof.
  induction l as [|y l IH]; cbn.
  - intuition.
  - destruct (fst e <? fst y); cbn; [intuition|]. rewrite IH. intuition.
Qed.

Lemma sort_errors_in l x : In x (sort_errors l) <-> In x l.
Proof.
  unfold sort_errors.
  assert (G : forall l acc, In x (fold_left (fun acc e => insert_sorted e acc) l acc) <-> In x acc \/ In x l).
  { induction l0 as [|y l0 IH]; intros acc; cbn [fold_left].
    - cbn. intuition.
    - rewrite IH, insert_sorted_in. cbn. intuition. }
  rewrite G. cbn. intuition.
Qed.

Lemma advance_errors m t rest forked x :
  In x (v_errors (advance m t rest forked)) <->
  In x (v_errors m) \/ (x = (tip t, EGasLimitExceeded) /\ (gas_limit (v_cfg m) <? tgas t) = true).
Proof.
  unfold advance.
  destruct ((N.of_nat (length (v_code m)) <=? tip t + 1) || (iter_limit (v_cfg m) <=? count_of (tip t + 1) (tvis t))) eqn:E1;
  destruct (gas_limit (v_cfg m) <? tgas t) eqn:E2; cbn [orb]; proj;
    rewrite ?sort_errors_in, ?in_app_iff; cbn [In]; try tauto; try (intuition congruence).
  destruct (v_killed m); proj; intuition congruence.
Qed.

(* the ingredients of one iteration, as a function of the state *)
Definition step_parts (m : vm) : option (thread * instr * (octx * option exec_err * option exec_err * ctl * list (N * N))) :=
  match v_queue m with
  | [] => None
  | t :: rest =>
      match nth_error (v_code m) (N.to_nat (tip t)) with
      | None => None
      | Some i =>
          let c0 := mk_octx [] (tstate t) (v_next_id m) (v_killed m) (v_polls m) in
          let '(stopped, c1) := if (v_counter m mod poll_every (v_cfg m) =? 0) then poll (v_cfg m) c0 else (false, c0) in
          if stopped then None
          else Some (t, i, exec_instr fold (v_cfg m) (v_code m) (bump (tip t) (tvis t)) (v_jt m) (tip t) i c1)
      end
  end.

Lemma step_parts_reperm m errs p : step_parts (reperm m errs p) = step_parts m.
Proof. reflexivity. Qed.

Definition ip_after (t : thread) (k : ctl) : N := match k with CJump target => target | _ => tip t end.
Definition gas_after (t : thread) (i : instr) (err : option exec_err) : N :=
  match err with None => tgas t + instr_gas i | Some _ => tgas t end.

(* everything one iteration can do to the error buffer *)
Lemma step_errors m m' :
  vm_step fold m = SRunning m' ->
  exists t i c3 err serr k jt',
    step_parts m = Some (t, i, (c3, err, serr, k, jt')) /\
    forall x, In x (v_errors m') <->
       In x (v_errors m)
       \/ (exists e, serr = Some e /\ permissive (v_cfg m) = false /\ x = (tip t, e))
       \/ (exists e, err = Some e /\ (is_jump_err e && permissive (v_cfg m)) = false /\ x = (tip t, e))
       \/ (x = (ip_after t k, EGasLimitExceeded) /\ (gas_limit (v_cfg m) <? gas_after t i err) = true).
Proof.
  unfold vm_step, step_parts.
  destruct (v_queue m) as [|t rest] eqn:Eq; [discriminate|].
  destruct (nth_error (v_code m) (N.to_nat (tip t))) as [i|] eqn:Ei; [|discriminate].
  destruct (if v_counter m mod poll_every (v_cfg m) =? 0 then _ else _) as [stopped c1].
  destruct stopped; [discriminate|].
  destruct (exec_instr fold (v_cfg m) (v_code m) (bump (tip t) (tvis t)) (v_jt m) (tip t) i c1) as [[[[c3 err] serr] k] jt'] eqn:Ex.
  intros H. exists t, i, c3, err, serr, k, jt'. split; [reflexivity|].
  revert H.
  set (errors1 := match serr with Some e => if permissive (v_cfg m) then v_errors m else v_errors m ++ [(tip t, e)] | None => v_errors m end).
  assert (H1 : forall x, In x errors1 <-> In x (v_errors m) \/ (exists e, serr = Some e /\ permissive (v_cfg m) = false /\ x = (tip t, e))).
  { intros x. unfold errors1. destruct serr as [e|].
    - destruct (permissive (v_cfg m)) eqn:Ep.
      + split; [auto|]. intros [H|(e' & _ & Hc & _)]; [auto|discriminate].
      + rewrite in_app_iff. cbn. split.
        * intros [H|[H|[]]]; [auto|]. right. exists e. auto.
        * intros [H|(e' & [= <-] & _ & ->)]; auto.
    - split; [auto|]. intros [H|(e' & Hc & _)]; [auto|discriminate]. }
  destruct err as [e|]; cbv beta iota zeta; intros [= <-]; intros x;
    rewrite advance_errors; proj; unfold ip_after, gas_after.
  - set (errors2 := if is_jump_err e && permissive (v_cfg m) then errors1 else errors1 ++ [(tip t, e)]).
    assert (H2 : In x errors2 <-> In x errors1 \/ ((is_jump_err e && permissive (v_cfg m)) = false /\ x = (tip t, e))).
    { unfold errors2. destruct (is_jump_err e && permissive (v_cfg m)).
      - split; [auto|]. intros [H|[Hc _]]; [auto|discriminate].
      - rewrite in_app_iff. cbn. split; [intros [H|[H|[]]]; auto|intros [H|[_ ->]]; auto]. }
    rewrite H2, H1. split.
    + intros [[[H|H]|[Hb ->]]|H]; auto. right. right. left. exists e. auto.
    + intros [H|[H|[(e' & [= <-] & Hb & ->)|H]]]; auto.
  - rewrite H1. split.
    + intros [[H|H]|H]; auto.
    + intros [H|[H|[(e' & Hc & _)|H]]]; auto. discriminate.
Qed.

Lemma vm_step_stopped_errors m ip m' : vm_step fold m = SStopped ip m' -> v_errors m' = v_errors m /\ v_cfg m' = v_cfg m.
Proof.
  unfold vm_step. destruct (v_queue m) as [|t rest]; [discriminate|].
  destruct (nth_error (v_code m) (N.to_nat (tip t))); [|discriminate].
  destruct (if v_counter m mod poll_every (v_cfg m) =? 0 then _ else _) as [stopped c1]. destruct stopped.
  - intros [= <- <-]. split; reflexivity.
  - destruct (exec_instr _ _ _ _ _ _ _ _) as [[[[c3 err] serr] k] jt']. destruct err; cbv beta iota zeta; discriminate.
Qed.

Lemma vm_step_done_eq m m' : vm_step fold m = SDone m' -> m' = m.
Proof.
  unfold vm_step. destruct (v_queue m) as [|t rest]; [now intros [= <-]|].
  destruct (nth_error (v_code m) (N.to_nat (tip t))); [|now intros [= <-]].
  destruct (if v_counter m mod poll_every (v_cfg m) =? 0 then _ else _) as [stopped c1]. destruct stopped; [discriminate|].
  destruct (exec_instr _ _ _ _ _ _ _ _) as [[[[c3 err] serr] k] jt']. destruct err; cbv beta iota zeta; discriminate.
Qed.

Lemma vm_step_cfg m m' : vm_step fold m = SRunning m' -> v_cfg m' = v_cfg m.
Proof.
  unfold vm_step. destruct (v_queue m) as [|t rest]; [discriminate|].
  destruct (nth_error (v_code m) (N.to_nat (tip t))); [|discriminate].
  destruct (if v_counter m mod poll_every (v_cfg m) =? 0 then _ else _) as [stopped c1]. destruct stopped; [discriminate|].
  destruct (exec_instr _ _ _ _ _ _ _ _) as [[[[c3 err] serr] k] jt'].
  destruct err; cbv beta iota zeta; intros [= <-]; unfold advance; proj;
    repeat match goal with |- context [if ?b then _ else _] => destruct b end; reflexivity.
Qed.

Section Fixed.
Variable code : list instr.
Variable L : limits.
Hypothesis Hiter : 1 <= iter_limit L.
Hypothesis Hcode : code <> [].
Let len := N.of_nat (length code).

(* an invariant of the error buffer along any run, given that each iteration preserves it *)
Lemma run_errors_inv (p : bool) (Q : list (N * exec_err) -> Prop) :
  (forall m m', Inv code (mk_config' L p) m -> Q (v_errors m) -> vm_step fold m = SRunning m' -> Q (v_errors m')) ->
  forall n m, Inv code (mk_config' L p) m -> Q (v_errors m) -> Q (v_errors (result_state (run fold n m))).
Proof.
  intros Hstep. induction n as [|n IH]; intros m Hi Hq; cbn [run result_state]; [exact Hq|].
  destruct (vm_step fold m) as [m'|m'|ip m'] eqn:Es.
  - apply IH; [eapply vm_step_inv; eauto|eapply Hstep; eauto].
  - cbn. assert (Hm : m' = m) by (eapply vm_step_done; eauto). subst m'. exact Hq.
  - cbn. destruct (vm_step_stopped_errors _ _ _ Es) as [-> _]. exact Hq.
Qed.

Lemma parts_ctl p m t i c3 err serr k jt' :
  Inv code (mk_config' L p) m -> step_parts m = Some (t, i, (c3, err, serr, k, jt')) ->
  tip t < len /\ ip_after t k < len.
Proof.
  intros [Hc Hcf Hq _ _ _ _]. unfold step_parts.
  destruct (v_queue m) as [|t0 rest] eqn:Eq; [discriminate|].
  destruct (nth_error (v_code m) (N.to_nat (tip t0))) as [i0|]; [|discriminate].
  destruct (if v_counter m mod poll_every (v_cfg m) =? 0 then _ else _) as [stopped c1]. destruct stopped; [discriminate|].
  intros [= -> -> Hx]. apply Forall_inv in Hq. destruct Hq as (Hip & _). split; [exact Hip|].
  rewrite Hc, Hcf in Hx. apply (exec_instr_ctl fold code (mk_config' L p) ) in Hx.
  - unfold ip_after, len. destruct k; cbn in Hx; auto. tauto.
  - exact Hiter.
Qed.

(* every recorded error is located at a byte offset inside the code *)
Theorem C17_locations_in_code_proof p n x :
  In x (v_errors (result_state (run fold n (init_vm code (mk_config' L p))))) -> fst x < len.
Proof.
  revert x. apply (run_errors_inv p (fun errs => forall x, In x errs -> fst x < len)).
  - intros m m' Hi Hq Hs x Hx. destruct (step_errors _ _ Hs) as (t & i & c3 & err & serr & k & jt' & Hp & Hiff).
    destruct (parts_ctl _ _ _ _ _ _ _ _ _ Hi Hp) as [H1 H2].
    apply Hiff in Hx. destruct Hx as [Hx|[(e & _ & _ & ->)|[(e & _ & _ & ->)|[-> _]]]]; cbn; auto.
  - apply init_inv; assumption.
  - cbn. tauto.
Qed.

(* permissive mode never records one of the four jump-target kinds *)
Theorem C17_permissive_no_jump_errors_proof n x :
  In x (v_errors (result_state (run fold n (init_vm code (mk_config' L true))))) -> is_jump_err (snd x) = false.
Proof.
  revert x. apply (run_errors_inv true (fun errs => forall x, In x errs -> is_jump_err (snd x) = false)).
  - intros m m' Hi Hq Hs x Hx. destruct (step_errors _ _ Hs) as (t & i & c3 & err & serr & k & jt' & Hp & Hiff).
    destruct Hi as [_ Hcf _ _ _ _ _]. rewrite Hcf in Hiff. cbn [permissive] in Hiff.
    apply Hiff in Hx. destruct Hx as [Hx|[(e & _ & Hc & _)|[(e & _ & Hb & ->)|[-> _]]]]; auto; try discriminate.
    cbn. now rewrite andb_true_r in Hb.
  - apply init_inv; assumption.
  - cbn. tauto.
Qed.

(* strict mode: whatever an iteration raises -- the error that ends the thread or the error JUMPI
   stores while carrying on -- is in the buffer afterwards, and stays there *)
Theorem C17_strict_records_proof m m' t i c3 err serr k jt' e :
  permissive (v_cfg m) = false -> vm_step fold m = SRunning m' ->
  step_parts m = Some (t, i, (c3, err, serr, k, jt')) -> (err = Some e \/ serr = Some e) ->
  In (tip t, e) (v_errors m').
Proof.
  intros Hp Hs Hparts He. destruct (step_errors _ _ Hs) as (t0 & i0 & c30 & err0 & serr0 & k0 & jt0 & Hp0 & Hiff).
  rewrite Hparts in Hp0. injection Hp0 as <- <- <- <- <- <- <-. apply Hiff. rewrite Hp.
  destruct He as [->| ->]; [right; right; left|right; left]; exists e; rewrite ?andb_false_r; auto.
Qed.

Theorem C17_errors_persist_proof n : forall m x, In x (v_errors m) -> In x (v_errors (result_state (run fold n m))).
Proof.
  induction n as [|n IH]; intros m x Hx; cbn [run result_state]; [exact Hx|].
  destruct (vm_step fold m) as [m'|m'|ip m'] eqn:Es.
  - apply IH. destruct (step_errors _ _ Es) as (t & i & c3 & err & serr & k & jt' & _ & Hiff). apply Hiff. auto.
  - cbn. unfold vm_step in Es. destruct (v_queue m) as [|t rest]; [now injection Es as <-|].
    destruct (nth_error (v_code m) (N.to_nat (tip t))); [|now injection Es as <-].
    destruct (if v_counter m mod poll_every (v_cfg m) =? 0 then _ else _) as [stopped c1]. destruct stopped; [discriminate|].
    destruct (exec_instr _ _ _ _ _ _ _ _) as [[[[c3 err] serr] k] jt']. destruct err; cbv beta iota zeta in Es; discriminate.
  - cbn. destruct (vm_step_stopped_errors _ _ _ Es) as [-> _]. exact Hx.
Qed.

(* the flag changes nothing but the error buffer: same retired states, queue, fork counters, gas log *)
Theorem C17_same_states_proof n :
  result_rel (run fold n (init_vm code (mk_config' L false))) (run fold n (init_vm code (mk_config' L true))).
Proof. apply run_same. exists [], true. reflexivity. Qed.

(* and what permissive mode records is a subset of what strict mode records *)
Lemma subset_run n : forall a eb,
  permissive (v_cfg a) = false -> incl eb (v_errors a) ->
  incl (v_errors (result_state (run fold n (reperm a eb true)))) (v_errors (result_state (run fold n a))).
Proof.
  induction n as [|n IH]; intros a eb Hp Hin; cbn [run result_state]; [exact Hin|].
  pose proof (vm_step_reperm a eb true) as H.
  destruct (vm_step fold a) as [a'|a'|ip a'] eqn:Es.
  - destruct H as (eb' & Hb). rewrite Hb. apply IH.
    + now rewrite (vm_step_cfg _ _ Es).
    + intros x Hx.
      destruct (step_errors _ _ Es) as (t & i & c3 & err & serr & k & jt' & Hpa & Hia).
      destruct (step_errors _ _ Hb) as (t2 & i2 & c32 & err2 & serr2 & k2 & jt2 & Hpb & Hib).
      rewrite step_parts_reperm, Hpa in Hpb. injection Hpb as <- <- <- <- <- <- <-.
      cbn [v_errors reperm v_cfg permissive] in Hib. apply Hib in Hx. apply Hia. rewrite Hp.
      destruct Hx as [Hx|[(e & _ & Hc & _)|[(e & He & Hb2 & ->)|Hx]]]; auto; try discriminate.
      right. right. left. exists e. rewrite andb_false_r. auto.
  - rewrite H. cbn. rewrite (vm_step_done_eq _ _ Es). exact Hin.
  - rewrite H. cbn. destruct (vm_step_stopped_errors _ _ _ Es) as [-> _]. exact Hin.
Qed.

Theorem C17_permissive_subset_proof n :
  incl (v_errors (result_state (run fold n (init_vm code (mk_config' L true)))))
       (v_errors (result_state (run fold n (init_vm code (mk_config' L false))))).
Proof.
  change (init_vm code (mk_config' L true)) with (reperm (init_vm code (mk_config' L false)) [] true).
  apply subset_run; [reflexivity|]. intros x [].
Qed.

End Fixed.
End Errors.
