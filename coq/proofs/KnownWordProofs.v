(* impl_op_eq_spec: each KnownWord operator, as selected by T4 from the current text of
   src/vm/value/known.rs, computes the Yellow-Paper operation on ALL pairs of 256-bit words;
   and no operator panics (debug build). *)
From Coq Require Import NArithRing.
From SLX Require Import Base Word256 EvmSpec gen.KnownWordSel KnownWord proofs.Word256Proofs.
Open Scope N_scope.

(* the spec's own two's-complement reading coincides with Word256's *)
Lemma sgn256_to_signed x : sgn256 x = to_signed x. Proof. unfold sgn256, to_signed, HALF, Wz. reflexivity. Qed.
Lemma word_of_Z_of_signed z : word_of_Z z = of_signed z. Proof. unfold word_of_Z, of_signed, Wz. reflexivity. Qed.
Lemma bit_from_bool b : sel_from_bool b = bit b. Proof. unfold sel_from_bool, bit. reflexivity. Qed.


  Lemma impl_add_eq_spec a b (Ha : a < 2 ^ 256) (Hb : b < 2 ^ 256) : kw_add a b = spec_add a b.
  Proof. unfold kw_add, sel_add, u256_wrapping_add, spec_add. rewrite wrap_mod. unfold W. reflexivity. Qed.

  Lemma impl_mul_eq_spec a b (Ha : a < 2 ^ 256) (Hb : b < 2 ^ 256) : kw_mul a b = spec_mul a b.
  Proof. unfold kw_mul, sel_mul, u256_wrapping_mul, spec_mul. rewrite wrap_mod. unfold W. reflexivity. Qed.

  Lemma impl_sub_eq_spec a b (Ha : a < 2 ^ 256) (Hb : b < 2 ^ 256) : kw_sub a b = spec_sub a b.
  Proof.
    unfold kw_sub, sel_sub, u256_wrapping_sub, spec_sub. rewrite (word_of_Z_of_signed (Z.of_N a - Z.of_N b)). unfold of_signed.
    fold W in Ha, Hb. rewrite !wrap_mod. rewrite (N.mod_small b W Hb).
    apply N2Z.inj. rewrite N2Z.inj_mod, Z2N.id by (apply Z.mod_pos_bound, Wz_pos).
    rewrite N2Z.inj_add, N2Z.inj_sub by lia. rewrite <- Wz_W.
    replace (Z.of_N a + (Wz - Z.of_N b))%Z with (Z.of_N a - Z.of_N b + 1 * Wz)%Z by lia.
    apply Z.mod_add, Wz_nz.
  Qed.

  Lemma impl_div_eq_spec a b (Ha : a < 2 ^ 256) (Hb : b < 2 ^ 256) : kw_div a b = spec_div a b.
  Proof. unfold kw_div, sel_div, u256_div, spec_div, sel_zero. reflexivity. Qed.

  Lemma impl_mod_eq_spec a b (Ha : a < 2 ^ 256) (Hb : b < 2 ^ 256) : kw_rem a b = spec_mod a b.
  Proof. unfold kw_rem, sel_rem, u256_rem, spec_mod, sel_zero. reflexivity. Qed.

  Lemma impl_sdiv_eq_spec a b (Ha : a < 2 ^ 256) (Hb : b < 2 ^ 256) : kw_signed_div a b = spec_sdiv a b.
  Proof.
    unfold kw_signed_div, sel_signed_div, spec_sdiv. cbv zeta.
    rewrite (sgn256_to_signed a), (sgn256_to_signed b). unfold word_of_Z, of_signed, Wz.
    destruct (to_signed b =? 0)%Z eqn:Eb; [reflexivity|]. apply Z.eqb_neq in Eb.
    unfold i256_wrapping_div, MINz.
    destruct ((to_signed a =? - 2 ^ 255) && (to_signed b =? -1))%Z eqn:E.
    - apply andb_prop in E as [E1 _]. apply Z.eqb_eq in E1. now rewrite E1.
    - now rewrite Z.quot_div by exact Eb.
  Qed.

  Lemma impl_smod_eq_spec a b (Ha : a < 2 ^ 256) (Hb : b < 2 ^ 256) : kw_signed_rem a b = spec_smod a b.
  Proof.
    unfold kw_signed_rem, sel_signed_rem, spec_smod. cbv zeta.
    rewrite (sgn256_to_signed a), (sgn256_to_signed b). unfold word_of_Z, of_signed, Wz.
    destruct (to_signed b =? 0)%Z eqn:Eb; [reflexivity|]. apply Z.eqb_neq in Eb.
    unfold i256_wrapping_rem.
    destruct ((to_signed a =? MINz) && (to_signed b =? -1))%Z eqn:E.
    - apply andb_prop in E as [_ E2]. apply Z.eqb_eq in E2. rewrite E2.
      change (Z.abs (-1)) with 1%Z. rewrite Z.mod_1_r, Z.mul_0_r. reflexivity.
    - now rewrite Z.rem_mod by exact Eb.
  Qed.

  Lemma impl_lt_eq_spec a b (Ha : a < 2 ^ 256) (Hb : b < 2 ^ 256) : kw_lt a b = spec_lt a b. Proof. unfold kw_lt, sel_lt, spec_lt. apply bit_from_bool. Qed.
  Lemma impl_gt_eq_spec a b (Ha : a < 2 ^ 256) (Hb : b < 2 ^ 256) : kw_gt a b = spec_gt a b. Proof. unfold kw_gt, sel_gt, spec_gt. apply bit_from_bool. Qed.
  Lemma impl_slt_eq_spec a b (Ha : a < 2 ^ 256) (Hb : b < 2 ^ 256) : kw_signed_lt a b = spec_slt a b. Proof. unfold kw_signed_lt, sel_signed_lt, spec_slt. rewrite (sgn256_to_signed a), (sgn256_to_signed b). apply bit_from_bool. Qed.
  Lemma impl_sgt_eq_spec a b (Ha : a < 2 ^ 256) (Hb : b < 2 ^ 256) : kw_signed_gt a b = spec_sgt a b. Proof. unfold kw_signed_gt, sel_signed_gt, spec_sgt. rewrite (sgn256_to_signed a), (sgn256_to_signed b). apply bit_from_bool. Qed.
  Lemma impl_eq_eq_spec a b (Ha : a < 2 ^ 256) (Hb : b < 2 ^ 256) : kw_from_eq a b = spec_eq a b. Proof. unfold kw_from_eq, sel_from_eq, spec_eq. apply bit_from_bool. Qed.
  Lemma impl_eq_method_eq_spec a b (Ha : a < 2 ^ 256) (Hb : b < 2 ^ 256) : kw_eq a b = spec_eq a b. Proof. unfold kw_eq, sel_eq, spec_eq. apply bit_from_bool. Qed.
  Lemma impl_iszero_eq_spec a (Ha : a < 2 ^ 256) : kw_is_zero a = spec_iszero a. Proof. unfold kw_is_zero, sel_is_zero, spec_iszero, sel_zero. apply bit_from_bool. Qed.
  Lemma impl_and_eq_spec a b (Ha : a < 2 ^ 256) (Hb : b < 2 ^ 256) : kw_and a b = spec_and a b. Proof. unfold kw_and, sel_bitand, u256_and, spec_and. reflexivity. Qed.
  Lemma impl_or_eq_spec a b (Ha : a < 2 ^ 256) (Hb : b < 2 ^ 256) : kw_or a b = spec_or a b. Proof. unfold kw_or, sel_bitor, u256_or, spec_or. reflexivity. Qed.
  Lemma impl_xor_eq_spec a b (Ha : a < 2 ^ 256) (Hb : b < 2 ^ 256) : kw_xor a b = spec_xor a b. Proof. unfold kw_xor, sel_bitxor, u256_xor, spec_xor. reflexivity. Qed.

  Lemma impl_not_eq_spec a (Ha : a < 2 ^ 256) : kw_not a = spec_not a.
  Proof.
    unfold kw_not, sel_not, u256_not, spec_not. fold W in Ha |- *.
    (* a's bits lie inside ones 256, so xor = set difference = subtraction *)
    assert (Hl : N.ldiff a (N.ones 256) = 0).
    { destruct (N.eq_dec a 0) as [->|Hn]; [reflexivity|].
      apply N.ldiff_ones_r_low. apply N.log2_lt_pow2; [lia|]. rewrite <- W_pow. exact Ha. }
    rewrite <- ones_256.
    rewrite N.sub_nocarry_ldiff by exact Hl.
    apply N.bits_inj. intros i. rewrite N.lxor_spec, N.ldiff_spec.
    assert (Hi : N.testbit a i = true -> N.testbit (N.ones 256) i = true).
    { intros Hai. assert (Hd := N.ldiff_spec a (N.ones 256) i). rewrite Hl, N.bits_0, Hai in Hd.
      destruct (N.testbit (N.ones 256) i); [reflexivity|discriminate]. }
    destruct (N.testbit a i); [rewrite Hi by reflexivity; reflexivity|].
    destruct (N.testbit (N.ones 256) i); reflexivity.
  Qed.

  (* ---- shifts: receiver = value a, argument = shift b; spec order is (shift, value) ---- *)

  Lemma shift_cases b (Hb : b < 2 ^ 256) : (b < 256 /\ try_u32 b = Some b /\ (b <? 256) = true)
                      \/ (256 <= b /\ (try_u32 b = None \/ (try_u32 b = Some b /\ (b <? 256) = false))).
  Proof.
    destruct (N.lt_ge_cases b 256) as [Hs|Hs].
    - left. split; [exact Hs|]. split; [|apply N.ltb_lt; exact Hs]. apply try_u32_small. unfold two32. lia.
    - right. split; [exact Hs|]. destruct (try_u32 b) as [s|] eqn:E; [|left; reflexivity].
      apply try_u32_some in E as [-> _]. right. split; [reflexivity|]. apply N.ltb_ge; exact Hs.
  Qed.

  Lemma impl_shl_eq_spec a b (Ha : a < 2 ^ 256) (Hb : b < 2 ^ 256) : kw_shl a b = spec_shl b a.
  Proof.
    unfold kw_shl, sel_shl, spec_shl. fold W.
    assert (Hbig : 256 <= b -> sel_zero = (a * 2 ^ b) mod W).
    { intros Hs. destruct (pow2_ge_W b Hs) as (k & -> & _).
      rewrite N.mul_assoc, (N.mul_comm a W), <- N.mul_assoc, N.mul_comm. symmetry. apply N.mod_mul, W_nz. }
    destruct (shift_cases b Hb) as [(Hs & -> & E)|(Hs & [->|[-> ->]])]; [|exact (Hbig Hs)..].
    rewrite E. unfold u256_shl_u32. rewrite E. now rewrite wrap_mod, N.shiftl_mul_pow2.
  Qed.

  Lemma impl_shr_eq_spec a b (Ha : a < 2 ^ 256) (Hb : b < 2 ^ 256) : kw_shr a b = spec_shr b a.
  Proof.
    unfold kw_shr, sel_shr, spec_shr. fold W in Ha.
    assert (Hbig : 256 <= b -> sel_zero = a / 2 ^ b).
    { intros Hs. symmetry. apply N.div_small. pose proof (pow2_le_W b Hs). lia. }
    destruct (shift_cases b Hb) as [(Hs & -> & E)|(Hs & [->|[-> ->]])]; [|exact (Hbig Hs)..].
    rewrite E. unfold u256_shr_u32. rewrite E. apply N.shiftr_div_pow2.
  Qed.

  Lemma impl_sar_eq_spec a b (Ha : a < 2 ^ 256) (Hb : b < 2 ^ 256) : kw_sar a b = spec_sar b a.
  Proof.
    unfold kw_sar, sel_sar, spec_sar. cbv zeta.
    rewrite (sgn256_to_signed a), (word_of_Z_of_signed (to_signed a / 2 ^ Z.of_N b)). fold W in Ha.
    f_equal.
    assert (Hbig : 256 <= b -> (if (to_signed a <? 0)%Z then (-1)%Z else 0%Z) = (to_signed a / 2 ^ Z.of_N b)%Z).
    { intros Hs. pose proof (to_signed_range a Ha) as [Hlo Hhi].
      assert (Hp : (Wz <= 2 ^ Z.of_N b)%Z).
      { rewrite Wz_W. pose proof (pow2_le_W b Hs) as Hle. apply N2Z.inj_le in Hle.
        rewrite N2Z.inj_pow in Hle. exact Hle. }
      rewrite MINz_HALFz in Hlo. pose proof Wz_double_HALFz as HW.
      assert (HH : (0 < HALFz)%Z) by reflexivity.
      destruct (Z.ltb_spec (to_signed a) 0) as [Hn|Hn].
      + apply Z.div_unique with (r := (to_signed a + 2 ^ Z.of_N b)%Z); lia.
      + symmetry. apply Z.div_small. lia. }
    destruct (shift_cases b Hb) as [(Hs & -> & E)|(Hs & [->|[-> ->]])]; [|exact (Hbig Hs)..].
    rewrite E. unfold i256_sar_u32. rewrite E. apply Z.shiftr_div_pow2. lia.
  Qed.

(* ---- exponentiation: the loop of `exp` ---- *)

Lemma land_1_mod2 e : u256_and e 1 = e mod 2.
Proof. unfold u256_and. change 1 with (N.ones 1). rewrite N.land_ones. reflexivity. Qed.

Lemma shr1_div2 e : e < W -> u256_shr_u32 e 1 = e / 2.
Proof. intros _. unfold u256_shr_u32. change (1 <? 256) with true. cbv iota. rewrite N.shiftr_div_pow2. reflexivity. Qed.

Lemma exp_loop_S fuel base e r :
  exp_loop (S fuel) base e r =
  if negb (e =? 0)
  then exp_loop fuel (u256_wrapping_mul base base) (u256_shr_u32 e 1)
         (if u256_and e 1 =? 1 then u256_wrapping_mul r base else r)
  else Some r.
Proof. reflexivity. Qed.

(* invariant of the loop (cf. notes/prototypes/ExpProto.v): result * base^exponent is preserved mod 2^256 *)
Lemma exp_loop_spec fuel : forall base e r,
  e < 2 ^ N.of_nat fuel -> e < W -> r < W ->
  exp_loop (S fuel) base e r = Some ((r * base ^ e) mod W).
Proof.
  induction fuel as [|fuel IH]; intros base e r He HeW Hr.
  - assert (e = 0) by (change (2 ^ N.of_nat 0) with 1 in He; lia). subst e.
    rewrite exp_loop_S. change (0 =? 0) with true. cbn [negb].
    rewrite N.pow_0_r, N.mul_1_r, N.mod_small by exact Hr. reflexivity.
  - rewrite exp_loop_S.
    destruct (N.eqb_spec e 0) as [->|Hnz]; cbn [negb].
    + rewrite N.pow_0_r, N.mul_1_r, N.mod_small by exact Hr. reflexivity.
    + assert (Hdm : e = 2 * (e / 2) + e mod 2) by (apply N.div_mod; discriminate).
      assert (Hlt2 : e mod 2 < 2) by (apply N.mod_lt; discriminate).
      assert (Hhalf : e / 2 < 2 ^ N.of_nat fuel).
      { apply N.div_lt_upper_bound; [discriminate|]. rewrite <- N.pow_succ_r'.
        now rewrite <- Nnat.Nat2N.inj_succ. }
      assert (HhalfW : e / 2 < W) by (apply N.le_lt_trans with e; [apply N.div_le_upper_bound; [discriminate|lia]|exact HeW]).
      rewrite shr1_div2 by exact HeW. rewrite land_1_mod2.
      set (r' := if e mod 2 =? 1 then u256_wrapping_mul r base else r).
      assert (Hr' : r' < W) by (unfold r', u256_wrapping_mul; destruct (e mod 2 =? 1); [apply wrap_range|exact Hr]).
      rewrite (IH _ _ _ Hhalf HhalfW Hr'). f_equal.
      unfold u256_wrapping_mul. rewrite wrap_mod.
      rewrite <- (N.mul_mod_idemp_r r' (((base * base) mod W) ^ (e / 2))) by apply W_nz.
      rewrite pow_mod_base. rewrite N.mul_mod_idemp_r by apply W_nz.
      rewrite <- N.pow_2_r, <- N.pow_mul_r.
      replace (base ^ e) with (base ^ (2 * (e / 2)) * base ^ (e mod 2))
        by (now rewrite <- N.pow_add_r, <- Hdm).
      unfold r', u256_wrapping_mul. rewrite ?wrap_mod. destruct (N.eqb_spec (e mod 2) 1) as [E1|E1].
      * rewrite E1, N.pow_1_r. rewrite N.mul_mod_idemp_l by apply W_nz. f_equal. ring.
      * assert (E0 : e mod 2 = 0) by (revert Hlt2 E1; generalize (e mod 2); intros; lia). rewrite E0, N.pow_0_r. f_equal. ring.
Qed.

Lemma impl_exp_eq_spec a b : a < 2 ^ 256 -> b < 2 ^ 256 -> kw_exp a b = spec_exp a b.
Proof.
  intros Ha Hb. unfold kw_exp, sel_exp, spec_exp, exp_fuel. fold W in Ha, Hb |- *.
  rewrite exp_loop_spec; [now rewrite N.mul_1_l| | exact Hb | reflexivity].
  change (N.of_nat 256) with 256. exact Hb.
Qed.

(* ---- no operator panics in the debug build ---- *)
Lemma kw_no_panic o a b : a < 2 ^ 256 -> b < 2 ^ 256 -> kw_panics o [a; b] = false.
Proof.
  intros Ha Hb. fold W in Ha, Hb.
  assert (Hshift : match try_u32 b with Some s => if s <? 256 then u256_shift_panics s else false | None => false end = false).
  { destruct (try_u32 b) as [s|]; [|reflexivity]. destruct (s <? 256) eqn:E; [|reflexivity].
    apply N.ltb_lt in E. unfold u256_shift_panics. apply N.ltb_ge. lia. }
  destruct o; unfold kw_panics, arg0, arg1; cbn [nth]; try reflexivity; try exact Hshift.
  - unfold sel_signed_div_panics, i256_divrem_panics. now destruct (to_signed b =? 0)%Z.
  - unfold sel_signed_rem_panics, i256_divrem_panics. now destruct (to_signed b =? 0)%Z.
  - unfold sel_div_panics, u256_divrem_panics. now destruct (b =? sel_zero) eqn:E; [|exact E].
  - unfold sel_rem_panics, u256_divrem_panics. now destruct (b =? sel_zero) eqn:E; [|exact E].
Qed.
