(* Proofs for C18 (recorded size = node count; at most `value_size_limit` nodes; culled only on growth). *)
From Coq Require Import String Permutation.
From SLX Require Import Base gen.ValueSig gen.SizeAnchors SymVal SizedVal.
Open Scope N_scope.

(* ------------------------------------------------------------------------------------------------
   The anchors read from the source are the expected expressions.  (These are the lemmas that stop
   holding when RSV::new / TCSV::new / constant_fold / transform_data are edited to a defective form
   that the translator still recognises.) *)
Lemma anchor_rsv_size old cs : rsv_new_size old cs = cs + 1.
Proof. reflexivity. Qed.
Lemma anchor_tcsv_size old cs : tcsv_new_size old cs = cs + 1.
Proof. reflexivity. Qed.
Lemma anchor_fold_size old cs : fold_size old cs = cs + 1.
Proof. reflexivity. Qed.
Lemma anchor_transform_size old cs : transform_size old cs = cs + 1.
Proof. reflexivity. Qed.
Lemma anchor_cull_cond size limit : cull_cond size limit = (limit <? size).
Proof. reflexivity. Qed.
Lemma anchor_cull_size size limit : cull_size size limit = 1.
Proof. reflexivity. Qed.
Lemma anchor_builder : builder_passes_limit = true.
Proof. reflexivity. Qed.
Lemma anchor_vm_sites : vm_sites_pass_limit = true.
Proof. reflexivity. Qed.

(* ------------------------------------------------------------------------------------------------
   (a) the generated signature: a finite check, by computation over all constructors *)
Lemma all_tags_complete t : In t all_tags.
Proof. destruct t; unfold all_tags; repeat (try (left; reflexivity); right). Qed.

Definition has_vec (t : tag) : bool := existsb (fun p => is_vec (snd p)) (child_decl t).

Definition fold_row_ok (t : tag) : bool :=
  match fold_rebuild t with
  | Some t' => Bool.eqb (has_vec t) (has_vec t') &&
               Nat.eqb (count_fixed (child_decl t)) (count_fixed (child_decl t'))
  | None => true
  end.

Lemma sig_table_ok : forallb (fun t => sig_row_ok t && fold_row_ok t) all_tags = true.
Proof. vm_compute. reflexivity. Qed.

Lemma sig_row_all t : sig_row_ok t = true /\ fold_row_ok t = true.
Proof.
  pose proof (proj1 (forallb_forall _ _) sig_table_ok t (all_tags_complete t)) as H.
  apply andb_true_iff in H. exact H.
Qed.

Lemma count_str_occ x l : count_str x l = count_occ string_dec l x.
Proof.
  unfold count_str. induction l as [|y r IH]; cbn [filter count_occ]; [reflexivity|].
  destruct (String.eqb_spec x y) as [->|Hne].
  - destruct (string_dec y y); [|congruence]. cbn [length]. now rewrite IH.
  - destruct (string_dec y x); [congruence|]. exact IH.
Qed.

Lemma permb_sound a b : permb a b = true -> Permutation a b.
Proof.
  unfold permb. intros H. apply andb_true_iff in H as [_ H].
  apply (Permutation_count_occ string_dec). intros x.
  destruct (in_dec string_dec x (a ++ b)) as [Hin|Hout].
  - rewrite forallb_forall in H. specialize (H x Hin). apply Nat.eqb_eq in H.
    now rewrite <- !count_str_occ.
  - assert (~ In x a /\ ~ In x b) as [Ha Hb] by (split; intro; apply Hout; apply in_or_app; auto).
    rewrite (proj1 (count_occ_not_In string_dec a x) Ha), (proj1 (count_occ_not_In string_dec b x) Hb).
    reflexivity.
Qed.

Lemma nodupb_sound l : nodupb l = true -> NoDup l.
Proof.
  induction l as [|x r IH]; cbn [nodupb]; intros H; [constructor|].
  apply andb_true_iff in H as [H1 H2]. constructor; [|auto].
  intros Hin. apply negb_true_iff in H1.
  assert (existsb (String.eqb x) r = true) as E by (apply existsb_exists; exists x; split; [exact Hin|apply String.eqb_refl]).
  congruence.
Qed.

Lemma tag_eqb_eq a b : tag_eqb a b = true -> a = b.
Proof. unfold tag_eqb. intros H. apply N.eqb_eq in H. destruct a, b; try reflexivity; discriminate H. Qed.

(* the statement of (a) in Prop form *)
Definition sig_agrees (t : tag) : Prop :=
  NoDup (declared_names t) /\
  Permutation (children_fields t) (declared_names t) /\
  Permutation (child_size_fields t) (declared_names t) /\
  Permutation (transform_fields t) (declared_names t) /\
  transform_ctor t = t.

Lemma sig_agree_proof : forall t, sig_agrees t.
Proof.
  intros t. destruct (sig_row_all t) as [H _]. unfold sig_row_ok in H.
  repeat (apply andb_true_iff in H as [H ?]).
  unfold sig_agrees. repeat split; auto using nodupb_sound, permb_sound, tag_eqb_eq.
Qed.

(* ------------------------------------------------------------------------------------------------
   sums *)
Lemma sum_N_app a b : sum_N (a ++ b) = sum_N a + sum_N b.
Proof. induction a as [|x a IH]; cbn [app sum_N]; [reflexivity|]. rewrite IH. lia. Qed.

Lemma sum_N_perm a b : Permutation a b -> sum_N a = sum_N b.
Proof. induction 1; cbn [sum_N]; lia. Qed.

Lemma sum_recorded_app a b : sum_recorded (a ++ b) = sum_recorded a + sum_recorded b.
Proof. unfold sum_recorded. now rewrite map_app, sum_N_app. Qed.

Definition sum_slices (sl : list (string * list ssv)) : N := sum_N (map (fun p => sum_recorded (snd p)) sl).

Lemma slices_sum fs : forall args,
  sum_slices (fst (slices fs args)) + sum_recorded (snd (slices fs args)) = sum_recorded args.
Proof.
  induction fs as [|[n k] r IH]; intros args; cbn [slices].
  - cbn. reflexivity.
  - set (take := if is_vec k then (length args - count_fixed r)%nat else 1%nat).
    specialize (IH (skipn take args)). destruct (slices r (skipn take args)) as [sl rest] eqn:E.
    cbn [fst snd] in *. unfold sum_slices in *. cbn [map sum_N snd].
    pose proof (sum_recorded_app (firstn take args) (skipn take args)) as Hs. rewrite firstn_skipn in Hs. lia.
Qed.

Lemma slices_names fs : forall (args : list ssv), map fst (fst (slices fs args)) = map fst fs.
Proof.
  induction fs as [|[n k] r IH]; intros args; cbn [slices]; [reflexivity|].
  set (take := if is_vec k then (length args - count_fixed r)%nat else 1%nat).
  specialize (IH (skipn take args)). destruct (slices r (skipn take args)) as [sl rest].
  cbn [fst map] in *. now rewrite IH.
Qed.

Lemma lookup_sum (sl : list (string * list ssv)) :
  NoDup (map fst sl) ->
  sum_N (map (fun f => sum_recorded (lookup f sl)) (map fst sl)) = sum_slices sl.
Proof.
  unfold sum_slices. induction sl as [|[m l] r IH]; cbn [map fst]; intros Hnd; [reflexivity|].
  inversion Hnd as [|? ? Hnotin Hnd']; subst. cbn [sum_N snd lookup]. rewrite String.eqb_refl.
  rewrite <- (IH Hnd'). f_equal. f_equal. apply map_ext_in. intros f Hf.
  destruct (String.eqb_spec m f) as [->|]; [contradiction|reflexivity].
Qed.

Definition fs_has_vec (fs : list (string * fkind)) : bool := existsb (fun p => is_vec (snd p)) fs.

Lemma count_fixed_cons n k r :
  count_fixed ((n, k) :: r) = ((if is_vec k then 0 else 1) + count_fixed r)%nat.
Proof. unfold count_fixed. cbn [filter snd]. destruct (is_vec k); reflexivity. Qed.

Lemma slices_rest fs : forall (args : list ssv),
  (fs_has_vec fs = true -> (count_fixed fs <= length args)%nat -> snd (slices fs args) = []) /\
  (fs_has_vec fs = false -> length (snd (slices fs args)) = (length args - count_fixed fs)%nat).
Proof.
  induction fs as [|[n k] r IH]; intros args.
  - cbn. split; [discriminate|]. intros _. lia.
  - cbn [slices]. rewrite count_fixed_cons. unfold fs_has_vec in *. cbn [existsb snd].
    set (take := if is_vec k then (length args - count_fixed r)%nat else 1%nat).
    destruct (IH (skipn take args)) as [IH1 IH2]. destruct (slices r (skipn take args)) as [sl rest] eqn:E.
    cbn [snd] in *. rewrite skipn_length in *. subst take. destruct (is_vec k); cbn [orb].
    + split; [|discriminate]. intros _ Hle.
      destruct (existsb (fun p => is_vec (snd p)) r) eqn:Ev.
      * apply IH1; [reflexivity|lia].
      * specialize (IH2 eq_refl). apply length_zero_iff_nil. lia.
    + split.
      * intros Hv Hle. apply IH1; [exact Hv|lia].
      * intros Hv. rewrite (IH2 Hv). lia.
Qed.

Lemma arity_rest t (args : list ssv) :
  arity_ok t (length args) = true -> snd (slices (child_decl t) args) = [].
Proof.
  unfold arity_ok. destruct (slices_rest (child_decl t) args) as [H1 H2]. unfold fs_has_vec in *.
  destruct (existsb (fun p => is_vec (snd p)) (child_decl t)); intros H.
  - apply H1; [reflexivity|]. now apply Nat.leb_le.
  - apply Nat.eqb_eq in H. specialize (H2 eq_refl). apply length_zero_iff_nil. lia.
Qed.

(* child_size() adds up exactly the sizes recorded on the children *)
Lemma child_size_sum t a args :
  arity_ok t (length args) = true -> child_size (SData t a args) = sum_recorded args.
Proof.
  intros Har. destruct (sig_agree_proof t) as (Hnd & _ & Hcs & _ & _).
  cbn [child_size]. unfold child_size_of.
  pose proof (slices_sum (child_decl t) args) as Hs.
  pose proof (slices_names (child_decl t) args) as Hn.
  rewrite (arity_rest t args Har) in Hs.
  set (sl := fst (slices (child_decl t) args)) in *.
  rewrite (sum_N_perm _ _ (Permutation_map (fun f => sum_recorded (lookup f sl)) Hcs)).
  unfold declared_names in *. rewrite <- Hn. rewrite lookup_sum by (rewrite Hn; exact Hnd).
  change (sum_recorded []) with 0 in Hs. lia.
Qed.

(* ------------------------------------------------------------------------------------------------
   well-sizedness *)
Lemma ws_recorded v : well_sized v = true -> recorded v = node_count (erase v).
Proof.
  destruct v as [t a s args]. cbn [well_sized recorded]. intros H.
  apply andb_true_iff in H as [H _]. apply andb_true_iff in H as [H _]. now apply N.eqb_eq in H.
Qed.

Lemma ws_sum args : forallb well_sized args = true -> sum_recorded args = sum_N (map node_count (map erase args)).
Proof.
  unfold sum_recorded. induction args as [|x r IH]; cbn [forallb map sum_N]; intros H; [reflexivity|].
  apply andb_true_iff in H as [Hx Hr]. now rewrite (ws_recorded x Hx), (IH Hr).
Qed.

Lemma count_alloc s t a args :
  node_count (erase (alloc s (SData t a args))) = 1 + sum_N (map node_count (map erase args)).
Proof. reflexivity. Qed.

Lemma data_ok_split t a args : data_ok (SData t a args) = true ->
  arity_ok t (length args) = true /\ forallb well_sized args = true.
Proof. cbn [data_ok]. intros H. now apply andb_true_iff in H. Qed.

Lemma alloc_ws d : data_ok d = true -> well_sized (alloc (child_size d + 1) d) = true.
Proof.
  destruct d as [t a args]. intros H. destruct (data_ok_split _ _ _ H) as [Har Hws].
  cbn [alloc]. change (well_sized (SNode t a (child_size (SData t a args) + 1) args))
    with ((child_size (SData t a args) + 1 =? 1 + sum_N (map node_count (map erase args)))
          && arity_ok t (length args) && forallb well_sized args).
  rewrite Har, Hws, (child_size_sum t a args Har), (ws_sum args Hws).
  rewrite (proj2 (N.eqb_eq _ _)) by lia. reflexivity.
Qed.

Lemma ws_data_ok v : well_sized v = true -> data_ok (data_of v) = true.
Proof.
  destruct v as [t a s args]. cbn [well_sized data_of data_ok]. intros H.
  apply andb_true_iff in H as [H H2]. apply andb_true_iff in H as [_ H1]. now rewrite H1, H2.
Qed.

Lemma tcsv_new_ws d : data_ok d = true -> well_sized (tcsv_new d) = true.
Proof. intros H. unfold tcsv_new. rewrite anchor_tcsv_size. now apply alloc_ws. Qed.

Lemma value_ws fresh : well_sized (SNode T_Value [fresh] 1 []) = true.
Proof. reflexivity. Qed.

Lemma rsv_new_ws limit fresh d : data_ok d = true -> well_sized (rsv_new limit fresh d) = true.
Proof.
  intros H. unfold rsv_new, rsv_new_gen. rewrite anchor_rsv_size.
  destruct limit as [l|]; [|now apply alloc_ws].
  rewrite anchor_cull_cond, anchor_cull_size. destruct (l <? child_size d + 1); [apply value_ws|now apply alloc_ws].
Qed.

Lemma forallb_Forall {A} (p : A -> bool) l : forallb p l = true <-> Forall (fun x => p x = true) l.
Proof.
  induction l as [|x r IH]; cbn [forallb]; [split; auto|].
  rewrite andb_true_iff, IH. split; [intros [? ?]; constructor; auto|intros H; inversion H; auto].
Qed.

Lemma map_masked_length g l : forall m, length (map_masked g l m) = length l.
Proof. induction l as [|x r IH]; intros [|b m]; cbn [map_masked length]; auto. Qed.

Lemma map_masked_ws g l :
  Forall (fun x => well_sized x = true -> well_sized (g x) = true) l ->
  forallb well_sized l = true -> forall m, forallb well_sized (map_masked g l m) = true.
Proof.
  induction 1 as [|x r Hx Hr IH]; intros Hws m; [destruct m; reflexivity|].
  cbn [forallb] in Hws. apply andb_true_iff in Hws as [H1 H2].
  destruct m as [|b m]; cbn [map_masked forallb]; [now rewrite H1, H2|].
  rewrite (IH H2 m). destruct b; [rewrite (Hx H1)|rewrite H1]; reflexivity.
Qed.

Lemma transform_unfold f t a old args :
  transform_data f (SNode t a old args) =
  let d' := match f (SData t a args) with
            | Some d => d
            | None => SData (transform_ctor t) a (map_masked (transform_data f) args (transform_mask t (length args)))
            end in
  alloc (transform_size old (child_size d')) d'.
Proof.
  cbn [transform_data]. destruct (f (SData t a args)); [reflexivity|]. cbv zeta.
  generalize (transform_mask t (length args)).
  assert (forall l m, (fix go (l : list ssv) (m : list bool) {struct l} : list ssv :=
            match l, m with
            | x :: l', b :: m' => (if b then transform_data f x else x) :: go l' m'
            | l, [] => l
            | [], _ => []
            end) l m = map_masked (transform_data f) l m) as E.
  { induction l as [|x r IH]; intros [|b m]; cbn [map_masked]; try reflexivity. now rewrite IH. }
  intros m. now rewrite E.
Qed.

Lemma transform_data_ws f : f_ok f -> forall v, well_sized v = true -> well_sized (transform_data f v) = true.
Proof.
  intros Hf v. induction v as [t a old args IH] using ssv_ind'. intros Hws.
  rewrite transform_unfold. cbv zeta. rewrite anchor_transform_size. apply alloc_ws.
  pose proof (ws_data_ok _ Hws) as Hd. cbn [data_of] in Hd.
  destruct (f (SData t a args)) as [d'|] eqn:E; [exact (Hf _ _ Hd E)|].
  destruct (data_ok_split _ _ _ Hd) as [Har Hall].
  destruct (sig_agree_proof t) as (_ & _ & _ & _ & Hctor). rewrite Hctor.
  cbn [data_ok]. rewrite map_masked_length, Har. cbn [andb]. now apply map_masked_ws.
Qed.

Lemma fold_unfold fw t a old args :
  constant_fold fw (SNode t a old args) =
  let d' := match fold_rebuild t with
            | Some t' =>
                match all_words (map (constant_fold fw) args) with
                | Some ws => SData T_KnownData [fw t ws] []
                | None => SData t' a (map (constant_fold fw) args)
                end
            | None => SData (transform_ctor t) a (map_masked (constant_fold fw) args (transform_mask t (length args)))
            end in
  alloc (fold_size old (child_size d')) d'.
Proof.
  cbn [constant_fold]. destruct (fold_rebuild t); [reflexivity|]. cbv zeta.
  generalize (transform_mask t (length args)).
  assert (forall l m, (fix go (l : list ssv) (m : list bool) {struct l} : list ssv :=
            match l, m with
            | x :: l', b :: m' => (if b then constant_fold fw x else x) :: go l' m'
            | l, [] => l
            | [], _ => []
            end) l m = map_masked (constant_fold fw) l m) as E.
  { induction l as [|x r IH]; intros [|b m]; cbn [map_masked]; try reflexivity. now rewrite IH. }
  intros m. now rewrite E.
Qed.

Lemma arity_fold_rebuild t t' n : fold_rebuild t = Some t' -> arity_ok t' n = arity_ok t n.
Proof.
  intros E. destruct (sig_row_all t) as [_ H]. unfold fold_row_ok in H. rewrite E in H.
  apply andb_true_iff in H as [H1 H2]. apply Bool.eqb_prop in H1. apply Nat.eqb_eq in H2.
  unfold arity_ok. unfold has_vec in H1. now rewrite <- H1, <- H2.
Qed.

Lemma constant_fold_ws fw : forall v, well_sized v = true -> well_sized (constant_fold fw v) = true.
Proof.
  intros v. induction v as [t a old args IH] using ssv_ind'. intros Hws.
  rewrite fold_unfold. cbv zeta. rewrite anchor_fold_size. apply alloc_ws.
  pose proof (ws_data_ok _ Hws) as Hd. cbn [data_of] in Hd.
  destruct (data_ok_split _ _ _ Hd) as [Har Hall].
  destruct (fold_rebuild t) as [t'|] eqn:E.
  - destruct (all_words (map (constant_fold fw) args)); [reflexivity|].
    cbn [data_ok]. rewrite map_length, (arity_fold_rebuild _ _ _ E), Har. cbn [andb].
    apply forallb_Forall. apply Forall_map. apply forallb_Forall in Hall.
    rewrite Forall_forall in *. intros x Hx. apply IH; auto.
  - destruct (sig_agree_proof t) as (_ & _ & _ & _ & Hctor). rewrite Hctor.
    cbn [data_ok]. rewrite map_masked_length, Har. cbn [andb]. now apply map_masked_ws.
Qed.

(* (b) everything that can be built is well-sized *)
Lemma built_ws fw v : Built fw v -> well_sized v = true.
Proof.
  induction 1 as [limit fresh t a args _ IH Har|t a args _ IH Har|v _ IH|f v _ IH Hf].
  - apply rsv_new_ws. cbn [data_ok]. rewrite Har. cbn [andb]. apply forallb_forall. exact IH.
  - apply tcsv_new_ws. cbn [data_ok]. rewrite Har. cbn [andb]. apply forallb_forall. exact IH.
  - now apply constant_fold_ws.
  - now apply transform_data_ws.
Qed.

Lemma ws_subterms v : well_sized v = true -> forall u, In u (ssubterms v) -> well_sized u = true.
Proof.
  induction v as [t a s args IH] using ssv_ind'. intros Hws u Hu. cbn [ssubterms] in Hu.
  destruct Hu as [<-|Hu]; [exact Hws|].
  apply in_flat_map in Hu as (x & Hx & Hu). rewrite Forall_forall in IH. apply (IH x Hx); [|exact Hu].
  cbn [well_sized] in Hws. apply andb_true_iff in Hws as [_ Hall]. rewrite forallb_forall in Hall. auto.
Qed.

Lemma size_true_proof fw v : Built fw v ->
  forall u, In u (ssubterms v) -> recorded u = node_count (erase u).
Proof. intros Hb u Hu. apply ws_recorded. exact (ws_subterms v (built_ws fw v Hb) u Hu). Qed.

(* (c) the result of the limited constructor has at most `limit` nodes (at most 1 when the limit is 0) *)
Lemma rsv_new_cases limit fresh d :
  (limit < child_size d + 1 /\ rsv_new (Some limit) fresh d = SNode T_Value [fresh] 1 []) \/
  (child_size d + 1 <= limit /\ rsv_new (Some limit) fresh d = alloc (child_size d + 1) d).
Proof.
  unfold rsv_new, rsv_new_gen. rewrite anchor_rsv_size, anchor_cull_cond, anchor_cull_size.
  destruct (N.ltb_spec limit (child_size d + 1)); [left|right]; split; auto.
Qed.

Lemma built_le_limit_proof limit fresh d : data_ok d = true ->
  node_count (erase (rsv_new (Some limit) fresh d)) <= N.max limit 1 /\
  recorded (rsv_new (Some limit) fresh d) = node_count (erase (rsv_new (Some limit) fresh d)).
Proof.
  intros Hd. split; [|apply ws_recorded; now apply rsv_new_ws].
  rewrite <- (ws_recorded _ (rsv_new_ws (Some limit) fresh d Hd)).
  destruct (rsv_new_cases limit fresh d) as [[_ ->]|[Hle ->]]; [cbn [recorded]; lia|].
  destruct d; cbn [alloc recorded]. lia.
Qed.

(* (d) a payload is replaced exactly when the tree it describes really has more than `limit` nodes *)
Lemma cull_only_on_growth_proof limit fresh t a args :
  arity_ok t (length args) = true -> forallb well_sized args = true ->
  let n := 1 + sum_N (map node_count (map erase args)) in
  (n <= limit /\ rsv_new (Some limit) fresh (SData t a args) = SNode t a n args) \/
  (limit < n /\ rsv_new (Some limit) fresh (SData t a args) = SNode T_Value [fresh] 1 []).
Proof.
  intros Har Hws n.
  assert (child_size (SData t a args) + 1 = n) as E
    by (rewrite (child_size_sum t a args Har), (ws_sum args Hws); unfold n; lia).
  destruct (rsv_new_cases limit fresh (SData t a args)) as [[H ->]|[H ->]]; rewrite E in *; [right|left]; auto.
Qed.

Lemma not_culled_within_limit_proof limit fresh d :
  child_size d + 1 <= limit -> rsv_new (Some limit) fresh d = alloc (child_size d + 1) d.
Proof. intros H. destruct (rsv_new_cases limit fresh d) as [[H' _]|[_ E]]; [lia|exact E]. Qed.

(* a unary node over a value that was just culled is kept whenever the limit is at least 2 *)
Lemma derive_from_culled_proof limit f1 f2 d t a :
  2 <= limit -> limit < child_size d + 1 -> arity_ok t 1 = true ->
  let c := rsv_new (Some limit) f1 d in
  rsv_new (Some limit) f2 (SData t a [c]) = SNode t a 2 [c].
Proof.
  intros H2 Hbig Har c.
  assert (c = SNode T_Value [f1] 1 []) as Ec
    by (unfold c; destruct (rsv_new_cases limit f1 d) as [[_ E]|[H _]]; [exact E|lia]).
  rewrite Ec. destruct (cull_only_on_growth_proof limit f2 t a [SNode T_Value [f1] 1 []] Har eq_refl) as [[_ E]|[H _]].
  - exact E.
  - cbn in H. lia.
Qed.

(* the sum child_size() computes is small: children built under a limit L contribute at most L each, so
   for a constructor with k children the `usize` addition stays below k * L + 1 *)
Lemma sum_recorded_bound L args : Forall (fun x => recorded x <= L) args ->
  sum_recorded args <= N.of_nat (length args) * L.
Proof.
  unfold sum_recorded. induction 1 as [|x r Hx Hr IH]; cbn [map sum_N length]; [cbn; lia|].
  rewrite Nat2N.inj_succ. lia.
Qed.

Lemma child_size_bound_proof L t a args :
  arity_ok t (length args) = true -> Forall (fun x => recorded x <= L) args ->
  child_size (SData t a args) + 1 <= N.of_nat (length args) * L + 1.
Proof.
  intros Har H. rewrite (child_size_sum t a args Har). pose proof (sum_recorded_bound L args H). lia.
Qed.

(* (e) the builder as pinned: the recorded size of a culled value is wrong, and a 2-node value derived
   from a culled one is culled although the limit is 3 *)
Lemma pinned_refuted_proof :
  exists limit f1 f2 d,
    data_ok d = true /\
    let c := rsv_new_pinned (Some limit) f1 d in
    well_sized c = false /\
    recorded c <> node_count (erase c) /\
    node_count (erase (alloc 0 (SData T_Not [] [c]))) <= limit /\
    rsv_new_pinned (Some limit) f2 (SData T_Not [] [c]) = SNode T_Value [f2] 6 [].
Proof.
  exists 3, 1000000, 1000001,
    (SData T_Add [] [SNode T_Add [] 3 [SNode T_Value [1] 1 []; SNode T_Value [2] 1 []]; SNode T_Value [3] 1 []]).
  vm_compute. repeat split; try reflexivity; intro H; discriminate H.
Qed.
