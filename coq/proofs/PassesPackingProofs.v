(* Theorems about the packing lifting passes (coq/PassesPacking.v), for ALL value trees and ALL 256-bit
   constants.  The fit checks are the terms that tools/tr_packing.py read out of the source text
   (gen/PackingAnchors.v): the proofs below go through for the repaired text and fail for the pinned one,
   for which the refutations at the end are proved instead. *)
From SLX Require Import Base Word256 PackingArith gen.Constants gen.ValueSig gen.FoldTable gen.PackingAnchors SymVal Fold
  PassesPacking PackingIdioms.
From SLX Require Import proofs.Word256Proofs proofs.FoldProofs.
Open Scope N_scope.
Set Default Timeout 120.

(* ================================================================== 1. bits: find_bit and get_region *)

Lemma find_bit_some b w count : forall from p,
  find_bit b w from count = Some p ->
  from <= p /\ p < from + N.of_nat count /\ N.testbit w p = b /\ (forall i, from <= i -> i < p -> N.testbit w i = negb b).
Proof.
  induction count as [|c IH]; intros from p H; cbn [find_bit] in H; [discriminate|].
  destruct (Bool.eqb (N.testbit w from) b) eqn:E.
  - injection H as <-. apply Bool.eqb_prop in E. split; [lia|]. split; [lia|]. split; [exact E|]. intros i H1 H2. lia.
  - apply IH in H as (H1 & H2 & H3 & H4). split; [lia|]. split; [lia|]. split; [exact H3|].
    intros i Hi1 Hi2. destruct (N.eq_dec i from) as [->|Hne].
    + destruct (N.testbit w from), b; cbn in E; try discriminate; reflexivity.
    + apply H4; lia.
Qed.

Lemma find_bit_none b w count : forall from,
  find_bit b w from count = None -> forall i, from <= i -> i < from + N.of_nat count -> N.testbit w i = negb b.
Proof.
  induction count as [|c IH]; intros from H i H1 H2; [lia|]. cbn [find_bit] in H.
  destruct (Bool.eqb (N.testbit w from) b) eqn:E; [discriminate|].
  destruct (N.eq_dec i from) as [->|Hne].
  - destruct (N.testbit w from), b; cbn in E; try discriminate; reflexivity.
  - apply (IH (from + 1)); try assumption; lia.
Qed.

Lemma find_bit_first b w count : forall from p,
  from <= p -> p < from + N.of_nat count -> N.testbit w p = b ->
  (forall i, from <= i -> i < p -> N.testbit w i = negb b) ->
  find_bit b w from count = Some p.
Proof.
  induction count as [|c IH]; intros from p H1 H2 H3 H4; [lia|]. cbn [find_bit].
  destruct (N.eq_dec p from) as [->|Hne].
  - rewrite H3. now rewrite Bool.eqb_reflx.
  - assert (E : Bool.eqb (N.testbit w from) b = false).
    { rewrite (H4 from) by lia. now destruct b. }
    rewrite E. apply IH; try lia; [exact H3|]. intros i Hi1 Hi2. apply H4; lia.
Qed.

Lemma find_bit_all b w count from :
  (forall i, from <= i -> i < from + N.of_nat count -> N.testbit w i = negb b) -> find_bit b w from count = None.
Proof.
  revert from. induction count as [|c IH]; intros from H; [reflexivity|]. cbn [find_bit].
  assert (E : Bool.eqb (N.testbit w from) b = false) by (rewrite (H from) by lia; now destruct b).
  rewrite E. apply IH. intros i H1 H2. apply H; lia.
Qed.

Lemma of_nat_256_sub o : o < 256 -> N.of_nat (256 - N.to_nat o) = 256 - o.
Proof. intros H. lia. Qed.

(* what get_region returns, for ANY word: the lowest run of one bits among the 256 *)
Theorem get_region_sound w o n :
  get_region w = Some (o, n) ->
  0 < n /\ o + n <= 256 /\
  (forall i, i < o -> N.testbit w i = false) /\
  (forall i, o <= i -> i < o + n -> N.testbit w i = true) /\
  (o + n < 256 -> N.testbit w (o + n) = false).
Proof.
  unfold get_region. destruct (find_bit true w 0 256) as [off|] eqn:E1; [|discriminate].
  apply find_bit_some in E1 as (_ & Hlt & Hbit & Hlow). change (N.of_nat 256) with 256 in Hlt.
  destruct (find_bit false w off (256 - N.to_nat off)) as [p|] eqn:E2; intros H; injection H as <- <-.
  - apply find_bit_some in E2 as (Hp1 & Hp2 & Hp3 & Hp4). rewrite of_nat_256_sub in Hp2 by lia.
    assert (Hne : p <> off) by (intros ->; congruence).
    repeat split; try lia.
    + intros i Hi. apply (Hlow i); lia.
    + intros i Hi1 Hi2. apply (Hp4 i); lia.
    + intros _. replace (off + (p - off)) with p by lia. exact Hp3.
  - pose proof (find_bit_none _ _ _ _ E2) as Hall. rewrite of_nat_256_sub in Hall by lia.
    unfold WORD_SIZE_BITS. repeat split; try lia.
    + intros i Hi. apply (Hlow i); lia.
    + intros i Hi1 Hi2. apply (Hall i); lia.
Qed.

Theorem get_region_none w : get_region w = None <-> (forall i, i < 256 -> N.testbit w i = false).
Proof.
  unfold get_region. split.
  - destruct (find_bit true w 0 256) as [off|] eqn:E1.
    + destruct (find_bit false w off (256 - N.to_nat off)); discriminate.
    + intros _ i Hi. apply (find_bit_none _ _ _ _ E1 i); [lia|]. change (N.of_nat 256) with 256. lia.
  - intros H. rewrite find_bit_all; [reflexivity|]. intros i _ Hi. change (N.of_nat 256) with 256 in Hi. apply H. lia.
Qed.

(* conversely: a word whose lowest run of ones is [o, o+n) yields exactly (o, n) *)
Theorem get_region_run w o n :
  0 < n -> o + n <= 256 ->
  (forall i, i < o -> N.testbit w i = false) ->
  (forall i, o <= i -> i < o + n -> N.testbit w i = true) ->
  (o + n < 256 -> N.testbit w (o + n) = false) ->
  get_region w = Some (o, n).
Proof.
  intros Hn Hfit Hlow Hrun Hend. unfold get_region.
  assert (E1 : find_bit true w 0 256 = Some o).
  { apply find_bit_first.
    - lia.
    - change (N.of_nat 256) with 256. lia.
    - apply Hrun; lia.
    - intros i _ Hi. now apply Hlow. }
  rewrite E1.
  destruct (N.eq_dec (o + n) 256) as [E|E].
  - assert (E2 : find_bit false w o (256 - N.to_nat o) = None).
    { apply find_bit_all. intros i H1 H2. rewrite of_nat_256_sub in H2 by lia. apply Hrun; lia. }
    rewrite E2. unfold WORD_SIZE_BITS. f_equal. f_equal. lia.
  - assert (E2 : find_bit false w o (256 - N.to_nat o) = Some (o + n)).
    { apply find_bit_first.
      - lia.
      - rewrite of_nat_256_sub by lia. lia.
      - apply Hend. lia.
      - intros i H1 H2. now apply Hrun. }
    rewrite E2. f_equal. f_equal. lia.
Qed.

Lemma testbit_mask o n i : N.testbit ((2 ^ n - 1) * 2 ^ o) i = (o <=? i) && (i <? o + n).
Proof.
  rewrite <- N.shiftl_mul_pow2. replace (2 ^ n - 1) with (N.ones n) by (rewrite N.ones_equiv; lia).
  destruct (N.leb_spec o i) as [H|H].
  - rewrite N.shiftl_spec_high' by exact H. cbn [andb].
    destruct (N.ltb_spec i (o + n)) as [H2|H2].
    + apply N.ones_spec_low. lia.
    + apply N.ones_spec_high. lia.
  - cbn [andb]. apply N.shiftl_spec_low. exact H.
Qed.

(* the bit-level lemma over all masks (C04's `subword_region`) *)
Theorem get_region_spec o n : 0 < n -> o + n <= 256 -> get_region ((2 ^ n - 1) * 2 ^ o) = Some (o, n).
Proof.
  intros Hn Hfit. apply get_region_run; try assumption.
  - intros i Hi. rewrite testbit_mask. destruct (N.leb_spec o i); [lia|reflexivity].
  - intros i H1 H2. rewrite testbit_mask. destruct (N.leb_spec o i); [|lia]. destruct (N.ltb_spec i (o + n)); [reflexivity|lia].
  - intros _. rewrite testbit_mask. destruct (N.ltb_spec (o + n) (o + n)); [lia|]. now rewrite andb_false_r.
Qed.

(* a contiguous mask is the only 256-bit word with that answer and no other bit set *)
Theorem get_region_contiguous_iff w o n :
  w < 2 ^ 256 ->
  (get_region w = Some (o, n) /\ (forall i, o + n <= i -> N.testbit w i = false))
  <-> (0 < n /\ o + n <= 256 /\ w = (2 ^ n - 1) * 2 ^ o).
Proof.
  intros Hw. split.
  - intros [H Hhigh]. apply get_region_sound in H as (Hn & Hfit & Hlow & Hrun & _). repeat split; try assumption.
    apply N.bits_inj. intros i. rewrite testbit_mask.
    destruct (N.leb_spec o i) as [H1|H1]; cbn [andb].
    + destruct (N.ltb_spec i (o + n)) as [H2|H2]; [now apply Hrun | now apply Hhigh].
    + now apply Hlow.
  - intros (Hn & Hfit & ->). split; [now apply get_region_spec|].
    intros i Hi. rewrite testbit_mask. destruct (N.ltb_spec i (o + n)); [lia|]. now rewrite andb_false_r.
Qed.

(* non-contiguous masks: only the lowest run counts *)
Example get_region_noncontiguous : get_region 0xff00ff = Some (0, 8) /\ get_region 11 = Some (0, 2) /\ get_region 0 = None.
Proof. vm_compute. repeat split. Qed.

(* the subtraction in get_region cannot underflow *)
Lemma get_region_o_ok w : get_region_o w = Ok (get_region w).
Proof.
  unfold get_region_o, get_region. destruct (find_bit true w 0 256) as [off|] eqn:E1; [|reflexivity].
  apply find_bit_some in E1 as (_ & Hlt & _). change (N.of_nat 256) with 256 in Hlt.
  destruct (find_bit false w off (256 - N.to_nat off)); [reflexivity|].
  unfold usize_sub, WORD_SIZE_BITS. destruct (N.leb_spec off 256); [reflexivity|lia].
Qed.

Lemma get_region_bounds w o n : get_region w = Some (o, n) -> 0 < n /\ o + n <= 256.
Proof. intros H. apply get_region_sound in H. tauto. Qed.

(* the inverted mask of a read-modify-write *)
Lemma testbit_inverted x i : x < 2 ^ 256 -> i < 256 -> N.testbit (MAXW - x) i = negb (N.testbit x i).
Proof.
  intros Hx Hi. change MAXW with (N.ones 256).
  assert (E : N.ldiff x (N.ones 256) = 0).
  { apply N.bits_inj. intros j. rewrite N.ldiff_spec, N.bits_0.
    destruct (N.ltb_spec j 256) as [H|H].
    - rewrite N.ones_spec_low by lia. cbn. now rewrite andb_false_r.
    - assert (N.testbit x j = false) as ->; [|reflexivity].
      destruct (N.eq_dec x 0) as [->|Hx0]; [apply N.bits_0|]. apply N.bits_above_log2.
      apply N.log2_lt_pow2; [lia|]. apply N.lt_le_trans with (2 ^ 256); [exact Hx|]. apply N.pow_le_mono_r; lia. }
  rewrite (N.sub_nocarry_ldiff _ _ E), N.ldiff_spec, N.ones_spec_low by lia. reflexivity.
Qed.

Lemma mask_lt o n : o + n <= 256 -> (2 ^ n - 1) * 2 ^ o < 2 ^ 256.
Proof.
  intros H. apply N.lt_le_trans with (2 ^ n * 2 ^ o).
  - apply N.mul_lt_mono_pos_r; [apply N.neq_0_lt_0, N.pow_nonzero; lia|].
    assert (0 < 2 ^ n) by (apply N.neq_0_lt_0, N.pow_nonzero; lia). lia.
  - rewrite <- N.pow_add_r. apply N.pow_le_mono_r; lia.
Qed.

Theorem get_region_inverted_high o n :
  0 < o -> 0 < n -> o + n <= 256 -> get_region (MAXW - (2 ^ n - 1) * 2 ^ o) = Some (0, o).
Proof.
  intros Ho Hn Hfit. pose proof (mask_lt o n Hfit) as Hm. apply get_region_run; try lia.
  - intros i H1 H2. rewrite testbit_inverted by (try exact Hm; lia). rewrite testbit_mask.
    destruct (N.leb_spec o i); [lia|reflexivity].
  - intros _. rewrite testbit_inverted by (try exact Hm; lia). rewrite testbit_mask.
    destruct (N.leb_spec o (0 + o)); [|lia]. destruct (N.ltb_spec (0 + o) (o + n)); [reflexivity|lia].
Qed.

Theorem get_region_inverted_low n :
  0 < n -> n < 256 -> get_region (MAXW - (2 ^ n - 1) * 2 ^ 0) = Some (n, 256 - n).
Proof.
  intros Hn Hfit. assert (Hm : (2 ^ n - 1) * 2 ^ 0 < 2 ^ 256) by (apply mask_lt; lia). apply get_region_run; try lia.
  - intros i H1. rewrite testbit_inverted by (try exact Hm; lia). rewrite testbit_mask.
    destruct (N.leb_spec 0 i); [|lia]. destruct (N.ltb_spec i (0 + n)); [reflexivity|lia].
  - intros i H1 H2. rewrite testbit_inverted by (try exact Hm; lia). rewrite testbit_mask.
    destruct (N.ltb_spec i (0 + n)); [lia|]. now rewrite andb_false_r.
Qed.

(* ================================================================== 2. which_power_of_2 *)

Lemma wp2_giveup_spec c : wp2_giveup c = (256 <? c).
Proof. reflexivity. Qed.

Lemma wp2_loop_some fuel : forall c n k,
  wp2_loop wp2_giveup fuel c n = Some (Some k) -> c <= k /\ n / 2 ^ (k - c) = 2 /\ (k = c \/ k <= 256).
Proof.
  induction fuel as [|f IH]; intros c n k H; cbn [wp2_loop] in H.
  - destruct (N.eqb_spec n 2) as [->|]; [|discriminate]. injection H as <-. rewrite N.sub_diag. change (2 ^ 0) with 1. rewrite N.div_1_r.
    split; [lia|]. split; [reflexivity|]. now left.
  - destruct (N.eqb_spec n 2) as [->|Hne].
    + injection H as <-. rewrite N.sub_diag. change (2 ^ 0) with 1. rewrite N.div_1_r.
      split; [lia|]. split; [reflexivity|]. now left.
    + rewrite wp2_giveup_spec in H. destruct (N.ltb_spec 256 (c + 1)) as [Hg|Hg]; [discriminate|].
      apply IH in H as (H1 & H2 & H3). split; [lia|]. split.
      * replace (k - c) with (N.succ (k - (c + 1))) by lia. rewrite N.pow_succ_r', <- N.div_div by (try apply N.pow_nonzero; lia). exact H2.
      * right. destruct H3; lia.
Qed.

(* the fuel given to the loop is never exhausted: the counter check stops it first *)
Lemma wp2_fuel_enough fuel : forall c n, c <= 256 -> 257 <= N.of_nat fuel + c -> wp2_loop wp2_giveup fuel c n <> None.
Proof.
  induction fuel as [|f IH]; intros c n Hc Hf; [lia|]. cbn [wp2_loop].
  destruct (n =? 2); [discriminate|]. rewrite wp2_giveup_spec.
  destruct (N.ltb_spec 256 (c + 1)); [discriminate|]. apply IH; lia.
Qed.

Theorem which_power_of_2_bound n k :
  which_power_of_2 n = Some k -> k <= 256 /\ 2 ^ k <= n /\ (n < 2 ^ 256 -> k < 256).
Proof.
  unfold which_power_of_2, which_power_of_2_gen.
  destruct (N.eqb_spec n 1) as [->|H1]. { intros [= <-]. cbn. repeat split; lia. }
  destruct (N.eqb_spec n 0) as [->|H0]; [discriminate|].
  destruct (n mod 2 =? 0); [|discriminate].
  destruct (wp2_loop wp2_giveup 300 1 n) as [[r|]|] eqn:E; try discriminate. intros [= ->].
  apply wp2_loop_some in E as (Hc & Hd & Hk).
  assert (Hge : 2 ^ k <= n).
  { replace k with (N.succ (k - 1)) by lia. rewrite N.pow_succ_r'.
    assert (Hp : 2 ^ (k - 1) <> 0) by (apply N.pow_nonzero; lia).
    pose proof (N.mul_div_le n (2 ^ (k - 1)) Hp) as Hle. rewrite Hd in Hle. lia. }
  repeat split; [destruct Hk; lia | exact Hge |].
  intros Hn. destruct (N.lt_ge_cases k 256) as [|Hk2]; [assumption|].
  assert (2 ^ 256 <= 2 ^ k) by (apply N.pow_le_mono_r; lia). lia.
Qed.

(* every power of two below 2^256 is recognised (the unit test of the pass covers exactly these) *)
Lemma which_power_of_2_pow2_all :
  forallb (fun k => match which_power_of_2 (2 ^ k) with Some j => j =? k | None => false end) (map N.of_nat (seq 0 256)) = true.
Proof. vm_compute. reflexivity. Qed.

Theorem which_power_of_2_pow2 k : k < 256 -> which_power_of_2 (2 ^ k) = Some k.
Proof.
  intros Hk. pose proof which_power_of_2_pow2_all as H. rewrite forallb_forall in H.
  specialize (H k). destruct (which_power_of_2 (2 ^ k)) as [j|].
  - assert (E : (j =? k) = true). { apply H. apply in_map_iff. exists (N.to_nat k). split; [lia|]. apply in_seq. lia. }
    apply N.eqb_eq in E. now subst.
  - assert (E : false = true); [|discriminate]. apply H. apply in_map_iff. exists (N.to_nat k). split; [lia|]. apply in_seq. lia.
Qed.

(* FINDING: it is not only powers of two: the division truncates, so every even word whose two leading bits are `10`
   is accepted (10 = 0b1010 is taken for 2^3) *)
Example which_power_of_2_accepts_10 : which_power_of_2 10 = Some 3 /\ which_power_of_2 40 = Some 5 /\ which_power_of_2 6 = None.
Proof. vm_compute. repeat split. Qed.

(* ================================================================== 3. generalities on trees *)

Lemma fold_max_le (l : list sv) c : In c l -> (sv_depth c <= fold_right Nat.max 0 (map sv_depth l))%nat.
Proof. induction l as [|x l IH]; cbn [In map fold_right]; [tauto|]. intros [->|H]; [lia|]. specialize (IH H). lia. Qed.

Lemma sv_depth_child t a args c : In c args -> (sv_depth c < sv_depth (Node t a args))%nat.
Proof. intros H. cbn [sv_depth]. pose proof (fold_max_le args c H). lia. Qed.

Lemma sv_depth_ind (P : sv -> Prop) :
  (forall v, (forall u, (sv_depth u < sv_depth v)%nat -> P u) -> P v) -> forall v, P v.
Proof.
  intros H. assert (G : forall n v, (sv_depth v < n)%nat -> P v).
  { induction n as [|n IH]; intros v Hv; [lia|]. apply H. intros u Hu. apply IH. lia. }
  intros v. apply (G (S (sv_depth v))). lia.
Qed.

(* x occurs in v *)
Definition sub (x v : sv) : Prop := In x (subterms v).
Lemma sub_refl v : sub v v.
Proof. destruct v. left. reflexivity. Qed.
Lemma sub_child x c t a args : In c args -> sub x c -> sub x (Node t a args).
Proof. intros Hc Hx. right. apply in_flat_map. exists c. now split. Qed.
Lemma sub_inv x t a args : sub x (Node t a args) -> x = Node t a args \/ exists c, In c args /\ sub x c.
Proof. intros [H|H]; [now left|]. right. apply in_flat_map in H as (c & Hc & Hx). now exists c. Qed.
Lemma sub_depth x v : sub x v -> (sv_depth x <= sv_depth v)%nat.
Proof.
  revert x. induction v as [t a args IH] using sv_ind'. intros x H. apply sub_inv in H as [->|(c & Hc & Hx)]; [lia|].
  rewrite Forall_forall in IH. pose proof (IH c Hc x Hx). pose proof (sv_depth_child t a args c Hc). lia.
Qed.

Lemma sub_trans a b c : sub a b -> sub b c -> sub a c.
Proof.
  revert a b. induction c as [tc ac argc IHc] using sv_ind'. intros a b Hab Hbc.
  apply sub_inv in Hbc as [->|(d & Hd & Hbd)]; [exact Hab|]. rewrite Forall_forall in IHc.
  apply (sub_child _ d); [exact Hd|]. exact (IHc d Hd a b Hab Hbd).
Qed.

Lemma nodes_ok_sub P x v : sub x v -> nodes_ok P v = true -> nodes_ok P x = true.
Proof.
  revert x. induction v as [t a args IH] using sv_ind'. intros x H Hv. apply sub_inv in H as [->|(c & Hc & Hx)]; [exact Hv|].
  cbn [nodes_ok] in Hv. apply andb_prop in Hv as [_ Hv]. rewrite forallb_forall in Hv. rewrite Forall_forall in IH.
  apply (IH c Hc x Hx). now apply Hv.
Qed.

Lemma shifted_wf_sub x v : sub x v -> shifted_wf v = true -> shifted_wf x = true.
Proof.
  revert x. induction v as [t a args IH] using sv_ind'. intros x H Hv. apply sub_inv in H as [->|(c & Hc & Hx)]; [exact Hv|].
  cbn [shifted_wf] in Hv. apply andb_prop in Hv as [_ Hv]. rewrite forallb_forall in Hv. rewrite Forall_forall in IH.
  apply (IH c Hc x Hx). now apply Hv.
Qed.

Definition wf_node (t : tag) (a : list N) : bool := if tag_eqb t T_KnownData then forallb in_rangeb a else true.
Lemma wfb_nodes_ok v : wfb v = nodes_ok wf_node v.
Proof.
  induction v as [t a args IH] using sv_ind'. cbn [wfb nodes_ok]. unfold wf_node at 1. f_equal.
  induction IH as [|x l Hx _ IHl]; [reflexivity|]. cbn [forallb]. now rewrite Hx, IHl.
Qed.

Lemma sv_eqb_refl v : sv_eqb v v = true.
Proof.
  induction v as [t a args IH] using sv_ind'. cbn [sv_eqb]. rewrite tag_eqb_refl, (list_eqb_refl N.eqb N.eqb_refl). cbn [andb].
  induction IH as [|x l Hx _ IHl]; [reflexivity|]. now rewrite Hx, IHl.
Qed.

Lemma is_subword_inv x : is_subword x = true -> exists o n y, x = Node T_SubWord [o; n] [y].
Proof.
  destruct x as [t a args]. cbn [is_subword]. destruct t; try discriminate.
  destruct a as [|o [|n [|]]]; try discriminate. destruct args as [|y [|]]; try discriminate. intros _. now exists o, n, y.
Qed.

Lemma mapM_Forall2 {A B} (f : A -> outcome B unit) (R : A -> B -> Prop) l :
  Forall (fun x => exists y, f x = Ok y /\ R x y) l -> exists l', mapM f l = Ok l' /\ Forall2 R l l'.
Proof.
  induction 1 as [|x l (y & Ey & Ry) _ (l' & El & Rl)]; [exists []; split; [reflexivity|constructor]|].
  exists (y :: l'). cbn [mapM]. rewrite Ey, El. split; [reflexivity|now constructor].
Qed.

(* the anchors, as read from the source: what the proofs use of them *)
Lemma sw_offset_spec o s : exists r, sw_offset o s = Ok r /\ (forall off, r = Some off -> off = o + s).
Proof.
  unfold sw_offset, usize_checked_add. destruct (o + s <? two64); eexists; (split; [reflexivity|]); intros off [= <-]; reflexivity.
Qed.
Lemma sw_fits_spec off n : exists r, sw_fits off n = Ok r /\ (r = Some true -> off + n <= 256).
Proof.
  unfold sw_fits, usize_checked_add, WORD_SIZE_BITS. destruct (off + n <? two64); eexists; (split; [reflexivity|]); [|discriminate].
  intros [= E]. destruct (N.ltb_spec 256 (off + n)); [discriminate|assumption].
Qed.
Lemma sw_offset_small o s : o + s < two64 -> sw_offset o s = Ok (Some (o + s)).
Proof. intros H. unfold sw_offset, usize_checked_add. apply N.ltb_lt in H. now rewrite H. Qed.
Lemma sw_fits_small off n : off + n <= 256 -> sw_fits off n = Ok (Some true).
Proof.
  intros H. unfold sw_fits, usize_checked_add, WORD_SIZE_BITS.
  assert (E : off + n <? two64 = true) by (apply N.ltb_lt; unfold two64; lia). rewrite E.
  destruct (N.ltb_spec 256 (off + n)); [lia|reflexivity].
Qed.
Lemma ms_shl_spec off : ms_shl_refuse off = false -> off < 256.
Proof. unfold ms_shl_refuse, WORD_SIZE_BITS. destruct (N.leb_spec 256 off); [discriminate|auto]. Qed.
Lemma ms_shl_small off : off < 256 -> ms_shl_enabled = true /\ ms_shl_refuse off = false.
Proof. intros H. split; [reflexivity|]. unfold ms_shl_refuse, WORD_SIZE_BITS. destruct (N.leb_spec 256 off); [lia|reflexivity]. Qed.
Lemma sat_add_small o n : o + n <= 256 -> usize_saturating_add o n = o + n.
Proof. intros H. unfold usize_saturating_add. assert (E : o + n <? two64 = true) by (apply N.ltb_lt; unfold two64; lia). now rewrite E. Qed.
Lemma sat_add_le o n : usize_saturating_add o n <= 256 -> o + n <= 256.
Proof. unfold usize_saturating_add, usize_max. destruct (N.ltb_spec (o + n) two64); [auto|]. unfold two64. lia. Qed.
Lemma pe_valid_true valid last o n : pe_valid valid last o n = true -> valid = true /\ last <= o /\ o + n <= 256.
Proof.
  unfold pe_valid, WORD_SIZE_BITS. intros H. apply andb_prop in H as [H H3]. apply andb_prop in H as [H1 H2].
  apply N.leb_le in H2, H3. apply sat_add_le in H3. auto.
Qed.
Lemma pe_valid_intro last o n : last <= o -> o + n <= 256 -> pe_valid true last o n = true.
Proof.
  intros H1 H2. unfold pe_valid, WORD_SIZE_BITS. rewrite sat_add_small by exact H2. cbn [andb].
  apply andb_true_intro. split; now apply N.leb_le.
Qed.
Lemma pe_valid_false last o n : pe_valid false last o n = false.
Proof. reflexivity. Qed.
Lemma pe_last_spec o n : exists l, pe_last o n = Ok l /\ (o + n <= 256 -> l = o + n).
Proof. unfold pe_last. eexists. split; [reflexivity|]. intros H. now apply sat_add_small. Qed.

(* ================================================================== 4. sub_word: what the pass does to any tree *)

Definition region_pure (v : sv) : option (N * N) :=
  match as_word (constant_fold v) with Some w => get_region w | None => None end.
Lemma region_of_ok v : region_of v = Ok (region_pure v).
Proof. unfold region_of, region_pure. destruct (as_word (constant_fold v)); [apply get_region_o_ok|reflexivity]. Qed.
Lemma region_pure_bounds v o n : region_pure v = Some (o, n) -> 0 < n /\ o + n <= 256.
Proof. unfold region_pure. destruct (as_word (constant_fold v)); [apply get_region_bounds|discriminate]. Qed.

Definition sw_dflt_of (t : tag) (a : list N) (args : list sv) : outcome sv unit :=
  obind (mapM sub_word args) (fun args' => Ok (Node (transform_ctor t) a args')).

(* one unfolding of the fixpoint *)
Lemma sub_word_eq t a args :
  sub_word (Node t a args) =
  let dflt := sw_dflt_of t a args in
  if negb (tag_eqb t T_And) then dflt else
  match a, args with
  | [], [l; r] =>
      obind (region_of l) (fun rl =>
      obind (match rl with Some _ => Ok None | None => region_of r end) (fun rr =>
      match (match rl with
             | Some reg => Some (true, reg)
             | None => match rr with Some reg => Some (false, reg) | None => None end
             end) with
      | None => dflt
      | Some (value_is_right, (offset, length)) =>
          let value := if value_is_right : bool then r else l in
          if is_known value then dflt else
          obind (sub_word (shift_value value)) (fun value' =>
          let value'' := unwrap_same offset length value' in
          obind (sw_offset offset (shift_amount value)) (fun oo =>
          match oo with
          | None => dflt
          | Some off =>
              obind (sw_fits off length) (fun ff =>
              match ff with
              | Some true => Ok (Node T_SubWord [off; length] [value''])
              | _ => dflt
              end)
          end))
      end))
  | _, _ => dflt
  end.
Proof. reflexivity. Qed.

(* the And node's value operand and mask region, as the closure selects them *)
Definition sw_select (l r : sv) : option (sv * N * N) :=
  match region_pure l with
  | Some (o, n) => Some (r, o, n)
  | None => match region_pure r with Some (o, n) => Some (l, o, n) | None => None end
  end.

Lemma sub_word_and l r :
  sub_word (Node T_And [] [l; r]) =
  match sw_select l r with
  | None => sw_dflt_of T_And [] [l; r]
  | Some (value, offset, length) =>
      if is_known value then sw_dflt_of T_And [] [l; r] else
      obind (sub_word (shift_value value)) (fun value' =>
      obind (sw_offset offset (shift_amount value)) (fun oo =>
      match oo with
      | None => sw_dflt_of T_And [] [l; r]
      | Some off =>
          obind (sw_fits off length) (fun ff =>
          match ff with
          | Some true => Ok (Node T_SubWord [off; length] [unwrap_same offset length value'])
          | _ => sw_dflt_of T_And [] [l; r]
          end)
      end))
  end.
Proof.
  rewrite sub_word_eq. cbv zeta. rewrite tag_eqb_refl. cbn [negb]. rewrite !region_of_ok. cbn [obind]. unfold sw_select.
  destruct (region_pure l) as [[o n]|]; [reflexivity|]. cbn [obind].
  destruct (region_pure r) as [[o n]|]; reflexivity.
Qed.

Lemma sub_word_other t a args : t <> T_And -> sub_word (Node t a args) = sw_dflt_of t a args.
Proof.
  intros H. rewrite sub_word_eq. cbv zeta. destruct (tag_eqb t T_And) eqn:E; [apply tag_eqb_eq in E; contradiction|reflexivity].
Qed.

Inductive sw_rel : sv -> sv -> Prop :=
| sw_dflt t a args args' : sw_rels args args' -> sw_rel (Node t a args) (Node t a args')
| sw_lift v x x' o0 o n :
    sv_tag v = T_And -> sub x v -> x <> v -> sw_rel x x' -> 0 < n -> o + n <= 256 ->
    sw_rel v (Node T_SubWord [o; n] [unwrap_same o0 n x'])
with sw_rels : list sv -> list sv -> Prop :=
| sw_nil : sw_rels [] []
| sw_cons x x' l l' : sw_rel x x' -> sw_rels l l' -> sw_rels (x :: l) (x' :: l').
Scheme sw_rel_mind := Minimality for sw_rel Sort Prop
  with sw_rels_mind := Minimality for sw_rels Sort Prop.

Lemma sw_rels_of_Forall2 l l' : Forall2 sw_rel l l' -> sw_rels l l'.
Proof. induction 1; constructor; assumption. Qed.

Lemma shift_value_sub x : sub (shift_value x) x.
Proof.
  destruct x as [t a args]. unfold shift_value.
  destruct t; try apply sub_refl; destruct a; try apply sub_refl; destruct args as [|p [|q [|]]]; try apply sub_refl.
  - destruct (div_shift q); [|apply sub_refl]. apply (sub_child _ p); [now left|apply sub_refl].
  - apply (sub_child _ q); [right; now left|apply sub_refl].
Qed.

Lemma sub_neq_depth x c t a args : In c args -> sub x c -> x <> Node t a args.
Proof.
  intros Hc Hx ->. pose proof (sub_depth _ _ Hx). pose proof (sv_depth_child t a args c Hc). lia.
Qed.

(* sub_word never fails, and its result is related to its argument by sw_rel *)
Theorem sub_word_rel v : exists v', sub_word v = Ok v' /\ sw_rel v v'.
Proof.
  induction v as [v IH] using sv_depth_ind. destruct v as [t a args].
  assert (Hd : exists v', sw_dflt_of t a args = Ok v' /\ sw_rel (Node t a args) v').
  { destruct (mapM_Forall2 sub_word sw_rel args) as (args' & E & R).
    - apply Forall_forall. intros c Hc. apply IH. now apply sv_depth_child.
    - exists (Node t a args'). unfold sw_dflt_of. rewrite E. cbn [obind]. rewrite transform_ctor_id. split; [reflexivity|].
      constructor. now apply sw_rels_of_Forall2. }
  destruct (tag_eqb t T_And) eqn:Et.
  2:{ rewrite sub_word_other; [exact Hd|]. intros ->. now rewrite tag_eqb_refl in Et. }
  apply tag_eqb_eq in Et. subst t.
  destruct a as [|a0 a]. 2:{ rewrite sub_word_eq. cbv zeta. cbn [tag_eqb negb]. exact Hd. }
  destruct args as [|l [|r [|z args]]]; try (rewrite sub_word_eq; cbv zeta; exact Hd).
  rewrite sub_word_and. destruct (sw_select l r) as [[[value offset] length]|] eqn:Es; [|exact Hd].
  assert (Hv : In value [l; r] /\ 0 < length /\ offset + length <= 256).
  { unfold sw_select in Es. destruct (region_pure l) as [[o n]|] eqn:El.
    - injection Es as <- <- <-. split; [right; now left|]. now apply region_pure_bounds in El.
    - destruct (region_pure r) as [[o n]|] eqn:Er; [|discriminate]. injection Es as <- <- <-.
      split; [now left|]. now apply region_pure_bounds in Er. }
  destruct Hv as (Hin & Hn & Hfit).
  destruct (is_known value); [exact Hd|].
  assert (Hsub : sub (shift_value value) (Node T_And [] [l; r])) by (apply (sub_child _ value); [exact Hin|apply shift_value_sub]).
  assert (Hne : shift_value value <> Node T_And [] [l; r]) by (apply (sub_neq_depth _ value); [exact Hin|apply shift_value_sub]).
  destruct (IH (shift_value value)) as (x' & Ex & Rx).
  { pose proof (sub_depth _ _ (shift_value_sub value)). pose proof (sv_depth_child T_And [] [l; r] value Hin). lia. }
  rewrite Ex. cbn [obind].
  destruct (sw_offset_spec offset (shift_amount value)) as (oo & Eo & Ho). rewrite Eo. cbn [obind].
  destruct oo as [off|]; [|exact Hd].
  destruct (sw_fits_spec off length) as (ff & Ef & Hf). rewrite Ef. cbn [obind].
  destruct ff as [[|]|]; try exact Hd.
  eexists. split; [reflexivity|]. eapply sw_lift; try eassumption; [reflexivity|]. now apply Hf.
Qed.

Lemma sub_word_total v : exists v', sub_word v = Ok v'.
Proof. destruct (sub_word_rel v) as (v' & E & _). now exists v'. Qed.

Lemma unwrap_same_nodes_ok P o n x : nodes_ok P x = true -> nodes_ok P (unwrap_same o n x) = true.
Proof.
  intros H. destruct x as [t a args]. unfold unwrap_same. destruct t; try exact H.
  destruct a as [|io [|isz [|]]]; try exact H. destruct args as [|iv [|]]; try exact H.
  destruct ((o =? io) && (n =? isz)); [|exact H]. cbn [nodes_ok forallb] in H.
  apply andb_prop in H as [_ H]. now apply andb_prop in H as [H _].
Qed.
Lemma unwrap_same_shifted_wf o n x : shifted_wf x = true -> shifted_wf (unwrap_same o n x) = true.
Proof.
  intros H. destruct x as [t a args]. unfold unwrap_same. destruct t; try exact H.
  destruct a as [|io [|isz [|]]]; try exact H. destruct args as [|iv [|]]; try exact H.
  destruct ((o =? io) && (n =? isz)); [|exact H]. cbn [shifted_wf forallb] in H.
  apply andb_prop in H as [_ H]. now apply andb_prop in H as [H _].
Qed.

(* every node predicate that accepts the SubWord nodes that fit is preserved *)
Lemma sw_rel_nodes_ok P :
  (forall o n, 0 < n -> o + n <= 256 -> P T_SubWord [o; n] = true) ->
  forall v v', sw_rel v v' -> nodes_ok P v = true -> nodes_ok P v' = true.
Proof.
  intros HP.
  apply (sw_rel_mind (fun v v' => nodes_ok P v = true -> nodes_ok P v' = true)
                     (fun l l' => forallb (nodes_ok P) l = true -> forallb (nodes_ok P) l' = true)).
  - intros t a args args' _ IH H. cbn [nodes_ok] in *. apply andb_prop in H as [H1 H2]. rewrite H1. cbn [andb]. now apply IH.
  - intros v x x' o0 o n _ Hsub _ _ IH Hn Hfit H. cbn [nodes_ok forallb]. rewrite (HP o n Hn Hfit). cbn [andb].
    rewrite unwrap_same_nodes_ok; [reflexivity|]. apply IH. exact (nodes_ok_sub P x v Hsub H).
  - auto.
  - intros x x' l l' _ IH1 _ IH2 H. cbn [forallb] in *. apply andb_prop in H as [H1 H2]. now rewrite IH1, IH2.
Qed.

Lemma sw_rel_subword x x' : sw_rel x x' -> is_subword x = true -> is_subword x' = true.
Proof.
  intros R H. apply is_subword_inv in H as (o & n & y & ->). inversion R as [t a args args' Rs|v x0 x0' o0 o' n' Ht]; subst.
  - inversion Rs as [|? y' ? l' _ Rl]; subst. inversion Rl; subst. reflexivity.
  - discriminate Ht.
Qed.

Lemma sw_rel_shifted_wf : forall v v', sw_rel v v' -> shifted_wf v = true -> shifted_wf v' = true.
Proof.
  apply (sw_rel_mind (fun v v' => shifted_wf v = true -> shifted_wf v' = true)
                     (fun l l' => sw_rels l l' /\ (forallb shifted_wf l = true -> forallb shifted_wf l' = true))).
  - intros t a args args' _ [Rs IH] H. cbn [shifted_wf] in *. apply andb_prop in H as [H1 H2]. rewrite (IH H2), andb_true_r.
    destruct (tag_eqb t T_Shifted); [|reflexivity].
    destruct a as [|k [|]]; try discriminate. destruct args as [|c [|]]; try discriminate.
    inversion Rs as [|? c' ? l' Rc Rl]; subst. inversion Rl; subst. exact (sw_rel_subword _ _ Rc H1).
  - intros v x x' o0 o n _ Hsub _ _ IH _ _ H. cbn [shifted_wf forallb tag_eqb]. cbn. rewrite andb_true_r.
    apply unwrap_same_shifted_wf, IH. exact (shifted_wf_sub x v Hsub H).
  - split; [constructor|auto].
  - intros x x' l l' R IH1 _ [Rs IH2]. split; [now constructor|]. intros H. cbn [forallb] in *.
    apply andb_prop in H as [H1 H2]. now rewrite IH1, IH2.
Qed.

(* ================================================================== 5. mul_shifted *)

Definition ms_dflt_of (t : tag) (a : list N) (args : list sv) : sv := Node (transform_ctor t) a (map mul_shifted args).

Lemma mul_shifted_eq t a args :
  mul_shifted (Node t a args) =
  let dflt := ms_dflt_of t a args in
  if tag_eqb t T_LeftShift then
    match a, args with
    | [], [sh; x] =>
        if ms_shl_enabled then
          match as_word (constant_fold sh) with
          | Some w =>
              if is_subword x then
                let offset := as_usize w in
                if ms_shl_refuse offset then dflt else Node T_Shifted [offset] [mul_shifted x]
              else dflt
          | None => dflt
          end
        else dflt
    | _, _ => dflt
    end
  else if tag_eqb t T_Multiply then
    match a, args with
    | [], [l; r] =>
        let fl := constant_fold l in
        let fr := constant_fold r in
        let lift (c : N) (value : sv) :=
          match which_power_of_2 c with Some k => Node T_Shifted [k] [value] | None => dflt end in
        match (if is_subword fr then as_word fl else None) with
        | Some c => lift c (mul_shifted r)
        | None =>
            match (if is_subword fl then as_word fr else None) with
            | Some c => lift c (mul_shifted l)
            | None => dflt
            end
        end
    | _, _ => dflt
    end
  else dflt.
Proof. reflexivity. Qed.

Lemma mul_shifted_other t a args : t <> T_LeftShift -> t <> T_Multiply -> mul_shifted (Node t a args) = Node t a (map mul_shifted args).
Proof.
  intros H1 H2. rewrite mul_shifted_eq. cbv zeta.
  destruct (tag_eqb t T_LeftShift) eqn:E1; [apply tag_eqb_eq in E1; contradiction|].
  destruct (tag_eqb t T_Multiply) eqn:E2; [apply tag_eqb_eq in E2; contradiction|].
  unfold ms_dflt_of. now rewrite transform_ctor_id.
Qed.

(* constant folding neither makes nor unmakes a SubWord node *)
Lemma fold_is_subword v : is_subword (constant_fold v) = is_subword v.
Proof.
  destruct v as [t a args]. rewrite fold_node. destruct (find_arm t) as [r|] eqn:Ef.
  - destruct (arm_matches r a args) eqn:Em.
    + apply arm_matches_true in Em as [-> Hl]. pose proof Ef as Ef0. apply find_arm_some in Ef0 as (Hok & _ & Ht).
      rewrite run_arm_ok by (try rewrite map_length; assumption).
      destruct (all_words (map constant_fold args)); [destruct t; reflexivity|].
      rewrite Ht. destruct t; reflexivity.
    + rewrite transform_ctor_id. destruct t; try reflexivity. destruct a as [|? [|? [|]]]; try reflexivity.
      destruct args as [|? [|]]; reflexivity.
  - rewrite transform_ctor_id. destruct t; try reflexivity. destruct a as [|? [|? [|]]]; try reflexivity.
    destruct args as [|? [|]]; reflexivity.
Qed.

Lemma as_word_fold_range v w : wfb v = true -> as_word (constant_fold v) = Some w -> w < 2 ^ 256.
Proof.
  intros Hwf E. apply as_word_some in E. pose proof (fold_wf v Hwf) as H. rewrite E in H. now apply wf_known in H.
Qed.

Inductive ms_rel : sv -> sv -> Prop :=
| ms_dflt t a args args' : ms_rels args args' -> ms_rel (Node t a args) (Node t a args')
| ms_lift v x x' k :
    sv_tag v = T_LeftShift \/ sv_tag v = T_Multiply ->
    sub x v -> is_subword x = true -> ms_rel x x' -> k <= 256 -> (wfb v = true -> k < 256) ->
    ms_rel v (Node T_Shifted [k] [x'])
with ms_rels : list sv -> list sv -> Prop :=
| ms_nil : ms_rels [] []
| ms_cons x x' l l' : ms_rel x x' -> ms_rels l l' -> ms_rels (x :: l) (x' :: l').
Scheme ms_rel_mind := Minimality for ms_rel Sort Prop
  with ms_rels_mind := Minimality for ms_rels Sort Prop.

Lemma ms_rels_map l : Forall (fun x => ms_rel x (mul_shifted x)) l -> ms_rels l (map mul_shifted l).
Proof. induction 1; cbn [map]; constructor; assumption. Qed.

Lemma wfb_child t a args c : In c args -> wfb (Node t a args) = true -> wfb c = true.
Proof. intros Hc H. cbn [wfb] in H. apply andb_prop in H as [_ H]. rewrite forallb_forall in H. now apply H. Qed.

Theorem mul_shifted_rel v : ms_rel v (mul_shifted v).
Proof.
  induction v as [t a args IH] using sv_ind'.
  assert (Hd : ms_rel (Node t a args) (ms_dflt_of t a args)).
  { unfold ms_dflt_of. rewrite transform_ctor_id. constructor. now apply ms_rels_map. }
  rewrite mul_shifted_eq. cbv zeta.
  destruct (tag_eqb t T_LeftShift) eqn:E1.
  { apply tag_eqb_eq in E1. subst t. destruct a; [|exact Hd]. destruct args as [|sh [|x [|]]]; try exact Hd.
    destruct ms_shl_enabled; [|exact Hd]. destruct (as_word (constant_fold sh)) as [w|]; [|exact Hd].
    destruct (is_subword x) eqn:Ex; [|exact Hd]. destruct (ms_shl_refuse (as_usize w)) eqn:Er; [exact Hd|].
    apply ms_shl_spec in Er. apply (ms_lift _ x); try assumption.
    - now left.
    - apply (sub_child _ x); [right; now left|apply sub_refl].
    - inversion IH as [|? ? _ IH2]; subst. now inversion IH2.
    - lia.
    - auto. }
  destruct (tag_eqb t T_Multiply) eqn:E2; [|exact Hd].
  apply tag_eqb_eq in E2. subst t. destruct a; [|exact Hd]. destruct args as [|l [|r [|]]]; try exact Hd.
  inversion IH as [|? ? IHl IH2]; subst. inversion IH2 as [|? ? IHr _]; subst.
  assert (Lift : forall c x, In x [l; r] -> is_subword x = true -> (wfb (Node T_Multiply [] [l; r]) = true -> c < 2 ^ 256) ->
                 ms_rel x (mul_shifted x) ->
                 ms_rel (Node T_Multiply [] [l; r])
                   match which_power_of_2 c with Some k => Node T_Shifted [k] [mul_shifted x] | None => ms_dflt_of T_Multiply [] [l; r] end).
  { intros c x Hin Hx Hc Rx. destruct (which_power_of_2 c) as [k|] eqn:Ek; [|exact Hd].
    apply which_power_of_2_bound in Ek as (Hk1 & _ & Hk2). apply (ms_lift _ x); try assumption.
    - now right.
    - apply (sub_child _ x); [exact Hin|apply sub_refl].
    - intros Hwf. apply Hk2, Hc, Hwf. }
  rewrite !fold_is_subword.
  destruct (is_subword r) eqn:Er.
  - destruct (as_word (constant_fold l)) as [c|] eqn:Ec.
    + apply Lift; try assumption; [right; now left|]. intros Hwf. apply (as_word_fold_range l); [|exact Ec].
      apply (wfb_child _ _ _ l) in Hwf; [exact Hwf|now left].
    + destruct (is_subword l) eqn:El; [|exact Hd]. destruct (as_word (constant_fold r)) as [c|] eqn:Ec2; [|exact Hd].
      apply Lift; try assumption; [now left|]. intros Hwf. apply (as_word_fold_range r); [|exact Ec2].
      apply (wfb_child _ _ _ r) in Hwf; [exact Hwf|right; now left].
  - destruct (is_subword l) eqn:El; [|exact Hd]. destruct (as_word (constant_fold r)) as [c|] eqn:Ec2; [|exact Hd].
    apply Lift; try assumption; [now left|]. intros Hwf. apply (as_word_fold_range r); [|exact Ec2].
    apply (wfb_child _ _ _ r) in Hwf; [exact Hwf|right; now left].
Qed.

Lemma wfb_sub x v : sub x v -> wfb v = true -> wfb x = true.
Proof. rewrite !wfb_nodes_ok. apply nodes_ok_sub. Qed.

Lemma ms_rel_nodes_ok P :
  (forall k, k < 256 -> P T_Shifted [k] = true) ->
  forall v v', ms_rel v v' -> wfb v = true -> nodes_ok P v = true -> nodes_ok P v' = true.
Proof.
  intros HP.
  apply (ms_rel_mind (fun v v' => wfb v = true -> nodes_ok P v = true -> nodes_ok P v' = true)
                     (fun l l' => forallb wfb l = true -> forallb (nodes_ok P) l = true -> forallb (nodes_ok P) l' = true)).
  - intros t a args args' _ IH Hwf H. cbn [nodes_ok wfb] in *. apply andb_prop in H as [H1 H2]. apply andb_prop in Hwf as [_ Hwf].
    rewrite H1. cbn [andb]. now apply IH.
  - intros v x x' k _ Hsub _ _ IH _ Hk Hwf H. cbn [nodes_ok forallb]. rewrite (HP k (Hk Hwf)). cbn [andb].
    rewrite IH; [reflexivity| exact (wfb_sub x v Hsub Hwf) | exact (nodes_ok_sub P x v Hsub H)].
  - auto.
  - intros x x' l l' _ IH1 _ IH2 Hwf H. cbn [forallb] in *. apply andb_prop in H as [H1 H2]. apply andb_prop in Hwf as [W1 W2].
    now rewrite IH1, IH2.
Qed.

(* node predicates that do not look at Shifted nodes at all survive without the range hypothesis *)
Lemma ms_rel_nodes_ok_any P :
  (forall k, P T_Shifted [k] = true) ->
  forall v v', ms_rel v v' -> nodes_ok P v = true -> nodes_ok P v' = true.
Proof.
  intros HP.
  apply (ms_rel_mind (fun v v' => nodes_ok P v = true -> nodes_ok P v' = true)
                     (fun l l' => forallb (nodes_ok P) l = true -> forallb (nodes_ok P) l' = true)).
  - intros t a args args' _ IH H. cbn [nodes_ok] in *. apply andb_prop in H as [H1 H2]. rewrite H1. cbn [andb]. now apply IH.
  - intros v x x' k _ Hsub _ _ IH _ _ H. cbn [nodes_ok forallb]. rewrite (HP k). cbn [andb].
    rewrite IH; [reflexivity| exact (nodes_ok_sub P x v Hsub H)].
  - auto.
  - intros x x' l l' _ IH1 _ IH2 H. cbn [forallb] in *. apply andb_prop in H as [H1 H2]. now rewrite IH1, IH2.
Qed.

Lemma ms_rel_subword x x' : ms_rel x x' -> is_subword x = true -> is_subword x' = true.
Proof.
  intros R H. apply is_subword_inv in H as (o & n & y & ->). inversion R as [t a args args' Rs|v x0 x0' k Ht]; subst.
  - inversion Rs as [|? y' ? l' _ Rl]; subst. inversion Rl; subst. reflexivity.
  - destruct Ht as [Ht|Ht]; discriminate Ht.
Qed.

Lemma ms_rel_shifted_wf : forall v v', ms_rel v v' -> shifted_wf v = true -> shifted_wf v' = true.
Proof.
  apply (ms_rel_mind (fun v v' => shifted_wf v = true -> shifted_wf v' = true)
                     (fun l l' => ms_rels l l' /\ (forallb shifted_wf l = true -> forallb shifted_wf l' = true))).
  - intros t a args args' _ [Rs IH] H. cbn [shifted_wf] in *. apply andb_prop in H as [H1 H2]. rewrite (IH H2), andb_true_r.
    destruct (tag_eqb t T_Shifted); [|reflexivity].
    destruct a as [|k [|]]; try discriminate. destruct args as [|c [|]]; try discriminate.
    inversion Rs as [|? c' ? l' Rc Rl]; subst. inversion Rl; subst. exact (ms_rel_subword _ _ Rc H1).
  - intros v x x' k _ Hsub Hx Rx IH _ _ H. cbn [shifted_wf forallb]. rewrite tag_eqb_refl.
    rewrite (ms_rel_subword _ _ Rx Hx). cbn [andb]. rewrite andb_true_r. apply IH. exact (shifted_wf_sub x v Hsub H).
  - split; [constructor|auto].
  - intros x x' l l' R IH1 _ [Rs IH2]. split; [now constructor|]. intros H. cbn [forallb] in *.
    apply andb_prop in H as [H1 H2]. now rewrite IH1, IH2.
Qed.

(* ================================================================== 6. packed_encoding *)

Definition pe_dflt_of (t : tag) (a : list N) (args : list sv) : outcome sv unit :=
  obind (mapM packed_encoding args) (fun args' => Ok (Node (transform_ctor t) a args')).

Lemma packed_encoding_eq t a args :
  packed_encoding (Node t a args) =
  let dflt := pe_dflt_of t a args in
  if negb (tag_eqb t T_StorageWrite) then dflt else
  match a, args with
  | [], [key; value] =>
      let elements := unpick_ors value in
      if negb (forallb is_seg elements) then dflt else
      obind (mapM span_of elements) (fun spans0 =>
      let spans := sort_spans spans0 in
      obind (spans_valid true 0 spans) (fun valid =>
      if valid
      then Ok (Node T_StorageWrite [] [key; mk_packed (filter (span_used key) spans)])
      else dflt))
  | _, _ => dflt
  end.
Proof. reflexivity. Qed.

Lemma packed_encoding_other t a args : t <> T_StorageWrite -> packed_encoding (Node t a args) = pe_dflt_of t a args.
Proof.
  intros H. rewrite packed_encoding_eq. cbv zeta. destruct (tag_eqb t T_StorageWrite) eqn:E; [apply tag_eqb_eq in E; contradiction|reflexivity].
Qed.

Definition attrs_of (l : list span) : list N := flat_map (fun s => [span_off s; span_size s]) l.

Lemma spans_ok_weaken a : forall last last', last' <= last -> spans_ok last a = true -> spans_ok last' a = true.
Proof.
  destruct a as [|o [|n r]]; intros last last' Hl H; cbn [spans_ok] in *; try discriminate; [reflexivity|].
  apply andb_prop in H as [H H3]. apply andb_prop in H as [H1 H2]. apply N.leb_le in H1.
  rewrite H2, H3. assert (E : last' <=? o = true) by (apply N.leb_le; lia). now rewrite E.
Qed.

(* the validity loop: never panics; `true` means ordered, disjoint, inside the word *)
Lemma spans_valid_false l : forall last, exists b, spans_valid false last l = Ok b /\ b = false.
Proof.
  induction l as [|s l IH]; intros last; [now exists false|]. unfold spans_valid. cbn [spans_valid_gen].
  destruct (pe_last_spec (span_off s) (span_size s)) as (l1 & E & _). rewrite E. cbn [obind]. rewrite pe_valid_false. apply IH.
Qed.

Lemma spans_valid_spec l : forall last,
  exists b, spans_valid true last l = Ok b /\ (b = true -> spans_ok last (attrs_of l) = true).
Proof.
  induction l as [|s l IH]; intros last; [exists true; split; reflexivity|]. unfold spans_valid. cbn [spans_valid_gen].
  destruct (pe_last_spec (span_off s) (span_size s)) as (l1 & E & Hl1). rewrite E. cbn [obind].
  destruct (pe_valid true last (span_off s) (span_size s)) eqn:Ev.
  - apply pe_valid_true in Ev as (_ & H1 & H2). rewrite (Hl1 H2). destruct (IH (span_off s + span_size s)) as (b & Eb & Hb).
    exists b. split; [exact Eb|]. intros ->. cbn [attrs_of flat_map app spans_ok].
    apply N.leb_le in H1, H2. rewrite H1, H2. cbn [andb]. now apply Hb.
  - destruct (spans_valid_false l l1) as (b & Eb & ->). exists false. split; [exact Eb|discriminate].
Qed.

Lemma spans_valid_intro l : forall last, spans_ok last (attrs_of l) = true -> spans_valid true last l = Ok true.
Proof.
  induction l as [|s l IH]; intros last H; [reflexivity|]. unfold spans_valid. cbn [spans_valid_gen].
  cbn [attrs_of flat_map app spans_ok] in H. apply andb_prop in H as [H H3]. apply andb_prop in H as [H1 H2].
  apply N.leb_le in H1, H2. destruct (pe_last_spec (span_off s) (span_size s)) as (l1 & E & Hl1). rewrite E, (Hl1 H2). cbn [obind].
  rewrite pe_valid_intro by assumption. now apply IH.
Qed.

Lemma spans_ok_filter (f : span -> bool) l : forall last, spans_ok last (attrs_of l) = true -> spans_ok last (attrs_of (filter f l)) = true.
Proof.
  induction l as [|s l IH]; intros last H; [reflexivity|]. cbn [attrs_of flat_map app spans_ok] in H.
  apply andb_prop in H as [H H3]. apply andb_prop in H as [H1 H2]. cbn [filter]. destruct (f s).
  - cbn [attrs_of flat_map app spans_ok]. rewrite H1, H2. cbn [andb]. now apply IH.
  - apply IH. apply N.leb_le in H1. apply (spans_ok_weaken _ (span_off s + span_size s)); [lia|exact H3].
Qed.

Lemma insert_span_Forall (Q : span -> Prop) x l : Q x -> Forall Q l -> Forall Q (insert_span x l).
Proof.
  intros Hx. induction 1 as [|y l Hy Hl IH]; cbn [insert_span]; [now constructor|].
  destruct (span_off x <=? span_off y); repeat constructor; assumption.
Qed.
Lemma sort_spans_Forall (Q : span -> Prop) l : Forall Q l -> Forall Q (sort_spans l).
Proof. induction 1; cbn [sort_spans fold_right]; [constructor|]. now apply insert_span_Forall. Qed.
Lemma filter_Forall {A} (Q : A -> Prop) f l : Forall Q l -> Forall Q (filter f l).
Proof. induction 1; cbn [filter]; [constructor|]. destruct (f x); [now constructor|assumption]. Qed.

Lemma unpick_ors_sub v : forall e, In e (unpick_ors v) -> sub e v.
Proof.
  induction v as [t a args IH] using sv_ind'. intros e He.
  assert (Hleaf : In e [Node t a args] -> sub e (Node t a args)) by (intros [<-|[]]; apply sub_refl).
  destruct t; try (now apply Hleaf). destruct a; try (now apply Hleaf).
  destruct args as [|l [|r [|]]]; try (now apply Hleaf).
  cbn [unpick_ors] in He. apply in_app_or in He. inversion IH as [|? ? IHl IH2]; subst. inversion IH2 as [|? ? IHr _]; subst.
  destruct He as [He|He]; [apply (sub_child _ l); [now left|now apply IHl] | apply (sub_child _ r); [right; now left|now apply IHr]].
Qed.

Lemma span_of_seg e : is_seg e = true -> shifted_wf e = true -> exists s, span_of e = Ok s /\ sub (span_val s) e.
Proof.
  destruct e as [t a args]. cbn [is_seg]. destruct t; try discriminate.
  - destruct a as [|o [|n [|]]]; try discriminate. destruct args as [|y [|]]; try discriminate. intros _ _.
    eexists. split; [reflexivity|apply sub_refl].
  - destruct a as [|o [|]]; try discriminate. destruct args as [|x [|]]; try discriminate. intros _ H.
    cbn [shifted_wf tag_eqb] in H. cbn in H. apply andb_prop in H as [H _]. apply is_subword_inv in H as (o' & n & y & ->).
    eexists. split; [reflexivity|]. cbn [span_val snd]. apply (sub_child _ (Node T_SubWord [o'; n] [y])); [now left|apply sub_refl].
Qed.

Lemma shifted_wf_sub_false x v : sub x v -> shifted_wf x = false -> shifted_wf v = false.
Proof. intros Hs Hx. destruct (shifted_wf v) eqn:E; [|reflexivity]. now rewrite (shifted_wf_sub x v Hs E) in Hx. Qed.

(* a span is made from every segment unless a Shifted node does not wrap a SubWord *)
Lemma span_of_cases e : is_seg e = true ->
  match span_of e with Ok s => sub (span_val s) e | Err _ => False | Panic _ => shifted_wf e = false end.
Proof.
  destruct e as [t a args]. cbn [is_seg]. destruct t; try discriminate.
  - destruct a as [|o [|n [|]]]; try discriminate. destruct args as [|y [|]]; try discriminate. intros _. apply sub_refl.
  - destruct a as [|o [|]]; try discriminate. destruct args as [|x [|]]; try discriminate. intros _.
    assert (Hp : is_subword x = false -> shifted_wf (Node T_Shifted [o] [x]) = false).
    { intros E. cbn [shifted_wf]. rewrite tag_eqb_refl, E. reflexivity. }
    destruct x as [tx ax argx]. cbn [span_of].
    destruct tx; try (now apply Hp). destruct ax as [|o' [|n [|]]]; try (now apply Hp).
    destruct argx as [|y [|]]; try (now apply Hp).
    cbn [span_val snd]. apply (sub_child _ (Node T_SubWord [o'; n] [y])); [now left|apply sub_refl].
Qed.

Lemma mapM_cases {A B} (f : A -> outcome B unit) (R : A -> B -> Prop) (G : A -> bool) l :
  Forall (fun x => match f x with Ok y => R x y | Err _ => False | Panic _ => G x = false end) l ->
  match mapM f l with Ok l' => Forall2 R l l' | Err _ => False | Panic _ => forallb G l = false end.
Proof.
  induction 1 as [|x l Hx _ IH]; cbn [mapM forallb]; [constructor|].
  destruct (f x) as [y|e|s]; [|contradiction|now rewrite Hx].
  destruct (mapM f l) as [l'|e|s]; [now constructor|contradiction|]. rewrite IH. apply andb_false_r.
Qed.

Inductive pe_rel : sv -> sv -> Prop :=
| pe_dflt t a args args' : pe_rels args args' -> pe_rel (Node t a args) (Node t a args')
| pe_lift key value attrs kids :
    spans_ok 0 attrs = true -> Forall (fun k => sub k value) kids -> length attrs = (2 * length kids)%nat ->
    pe_rel (Node T_StorageWrite [] [key; value]) (Node T_StorageWrite [] [key; Node T_Packed attrs kids])
with pe_rels : list sv -> list sv -> Prop :=
| pe_nil : pe_rels [] []
| pe_cons x x' l l' : pe_rel x x' -> pe_rels l l' -> pe_rels (x :: l) (x' :: l').
Scheme pe_rel_mind := Minimality for pe_rel Sort Prop
  with pe_rels_mind := Minimality for pe_rels Sort Prop.

Lemma pe_rels_of_Forall2 l l' : Forall2 pe_rel l l' -> pe_rels l l'.
Proof. induction 1; constructor; assumption. Qed.

Lemma attrs_of_length l : length (attrs_of l) = (2 * length l)%nat.
Proof. induction l as [|s l IH]; [reflexivity|]. cbn [attrs_of flat_map app length] in *. unfold attrs_of in IH. rewrite IH. lia. Qed.

Lemma forallb_false_sub (G : sv -> bool) l : forallb G l = false -> exists x, In x l /\ G x = false.
Proof.
  induction l as [|x l IH]; cbn [forallb]; [discriminate|]. destruct (G x) eqn:E; [|intros _; exists x; split; [now left|exact E]].
  intros H. destruct (IH H) as (y & Hy & Gy). exists y. split; [now right|exact Gy].
Qed.

(* packed_encoding never returns Err; it panics only on a tree with an ill-formed Shifted node; otherwise its result is
   related to its argument by pe_rel *)
Theorem packed_encoding_rel v :
  match packed_encoding v with Ok v' => pe_rel v v' | Err _ => False | Panic _ => shifted_wf v = false end.
Proof.
  induction v as [t a args IH] using sv_ind'.
  assert (Hd : match pe_dflt_of t a args with Ok v' => pe_rel (Node t a args) v' | Err _ => False | Panic _ => shifted_wf (Node t a args) = false end).
  { unfold pe_dflt_of. pose proof (mapM_cases packed_encoding pe_rel shifted_wf args IH) as Hm.
    destruct (mapM packed_encoding args) as [args'|e|s]; cbn [obind]; [|contradiction|].
    - rewrite transform_ctor_id. constructor. now apply pe_rels_of_Forall2.
    - cbn [shifted_wf]. rewrite Hm. apply andb_false_r. }
  destruct (tag_eqb t T_StorageWrite) eqn:Et.
  2:{ rewrite packed_encoding_other; [exact Hd|]. intros ->. now rewrite tag_eqb_refl in Et. }
  apply tag_eqb_eq in Et. subst t. rewrite packed_encoding_eq. cbv zeta. rewrite tag_eqb_refl. cbn [negb].
  destruct a; [|exact Hd]. destruct args as [|key [|value [|]]]; try exact Hd.
  destruct (forallb is_seg (unpick_ors value)) eqn:Eseg; cbn [negb]; [|exact Hd].
  assert (Hsp : Forall (fun e => match span_of e with Ok s => sub (span_val s) value | Err _ => False | Panic _ => shifted_wf e = false end)
                       (unpick_ors value)).
  { apply Forall_forall. intros e He. rewrite forallb_forall in Eseg. pose proof (span_of_cases e (Eseg e He)) as Hc.
    destruct (span_of e) as [s|x|x]; try exact Hc.
    exact (sub_trans _ _ _ Hc (unpick_ors_sub value e He)). }
  pose proof (mapM_cases span_of (fun e s => sub (span_val s) value) shifted_wf (unpick_ors value) Hsp) as Hm.
  destruct (mapM span_of (unpick_ors value)) as [spans0|e|s]; cbn [obind]; [|contradiction|].
  2:{ apply forallb_false_sub in Hm as (e & He & Ge). apply (shifted_wf_sub_false e); [|exact Ge].
      apply (sub_child _ value); [right; now left|]. now apply unpick_ors_sub. }
  assert (Hall : Forall (fun s => sub (span_val s) value) spans0).
  { clear - Hm. induction Hm; constructor; assumption. }
  destruct (spans_valid_spec (sort_spans spans0) 0) as (b & Eb & Hb). rewrite Eb. cbn [obind].
  destruct b; [|exact Hd].
  unfold mk_packed. apply pe_lift.
  - apply (spans_ok_filter _ _ 0). now apply Hb.
  - apply Forall_forall. intros k Hk. apply in_map_iff in Hk as (s & <- & Hs).
    assert (F : Forall (fun s => sub (span_val s) value) (filter (span_used key) (sort_spans spans0))).
    { apply filter_Forall, sort_spans_Forall, Hall. }
    rewrite Forall_forall in F. now apply F.
  - rewrite map_length. apply attrs_of_length.
Qed.

Lemma pe_rel_nodes_ok P :
  (forall attrs, spans_ok 0 attrs = true -> P T_Packed attrs = true) ->
  forall v v', pe_rel v v' -> nodes_ok P v = true -> nodes_ok P v' = true.
Proof.
  intros HP.
  apply (pe_rel_mind (fun v v' => nodes_ok P v = true -> nodes_ok P v' = true)
                     (fun l l' => forallb (nodes_ok P) l = true -> forallb (nodes_ok P) l' = true)).
  - intros t a args args' _ IH H. cbn [nodes_ok] in *. apply andb_prop in H as [H1 H2]. rewrite H1. cbn [andb]. now apply IH.
  - intros key value attrs kids Hs Hk _ H. cbn [nodes_ok forallb] in *.
    apply andb_prop in H as [H1 H]. apply andb_prop in H as [H2 H]. apply andb_prop in H as [H3 _].
    rewrite H1, H2, (HP attrs Hs). cbn [andb]. rewrite andb_true_r.
    apply forallb_forall. intros k Hin. rewrite Forall_forall in Hk. exact (nodes_ok_sub P k value (Hk k Hin) H3).
  - auto.
  - intros x x' l l' _ IH1 _ IH2 H. cbn [forallb] in *. apply andb_prop in H as [H1 H2]. now rewrite IH1, IH2.
Qed.

Lemma pe_rel_subword x x' : pe_rel x x' -> is_subword x = true -> is_subword x' = true.
Proof.
  intros R H. apply is_subword_inv in H as (o & n & y & ->). inversion R as [t a args args' Rs|]; subst.
  inversion Rs as [|? y' ? l' _ Rl]; subst. inversion Rl; subst. reflexivity.
Qed.

Lemma pe_rel_shifted_wf : forall v v', pe_rel v v' -> shifted_wf v = true -> shifted_wf v' = true.
Proof.
  apply (pe_rel_mind (fun v v' => shifted_wf v = true -> shifted_wf v' = true)
                     (fun l l' => pe_rels l l' /\ (forallb shifted_wf l = true -> forallb shifted_wf l' = true))).
  - intros t a args args' _ [Rs IH] H. cbn [shifted_wf] in *. apply andb_prop in H as [H1 H2]. rewrite (IH H2), andb_true_r.
    destruct (tag_eqb t T_Shifted); [|reflexivity].
    destruct a as [|k [|]]; try discriminate. destruct args as [|c [|]]; try discriminate.
    inversion Rs as [|? c' ? l' Rc Rl]; subst. inversion Rl; subst. exact (pe_rel_subword _ _ Rc H1).
  - intros key value attrs kids _ Hk _ H. cbn [shifted_wf forallb] in *.
    change (tag_eqb T_StorageWrite T_Shifted) with false in *. change (tag_eqb T_Packed T_Shifted) with false. cbn [andb] in *.
    apply andb_prop in H as [Hkey H]. apply andb_prop in H as [H3 _]. rewrite Hkey. cbn [andb]. rewrite andb_true_r.
    apply forallb_forall. intros k Hin. rewrite Forall_forall in Hk. exact (shifted_wf_sub k value (Hk k Hin) H3).
  - split; [constructor|auto].
  - intros x x' l l' R IH1 _ [Rs IH2]. split; [now constructor|]. intros H. cbn [forallb] in *.
    apply andb_prop in H as [H1 H2]. now rewrite IH1, IH2.
Qed.

(* ================================================================== 7. the in-slot theorems (C12's stage lemma) and panic freedom *)

Lemma sw_node_ok_closed o n : 0 < n -> o + n <= 256 -> sw_node_ok T_SubWord [o; n] = true.
Proof.
  intros H1 H2. unfold sw_node_ok, subword_ok. rewrite tag_eqb_refl. apply andb_true_intro. split; [now apply N.ltb_lt|now apply N.leb_le].
Qed.

(* every SubWord node the pass creates has size > 0 and offset + size <= 256 *)
Theorem subword_in_slot v : exists v', sub_word v = Ok v' /\ (subwords_in_slot v = true -> subwords_in_slot v' = true).
Proof.
  destruct (sub_word_rel v) as (v' & E & R). exists v'. split; [exact E|]. apply (sw_rel_nodes_ok sw_node_ok sw_node_ok_closed v v' R).
Qed.

(* every Shifted node the pass creates has offset < 256 and wraps a SubWord *)
Theorem shifted_in_slot v :
  (wfb v = true -> shifteds_in_slot v = true -> shifteds_in_slot (mul_shifted v) = true)
  /\ (shifted_wf v = true -> shifted_wf (mul_shifted v) = true).
Proof.
  pose proof (mul_shifted_rel v) as R. split.
  - apply (ms_rel_nodes_ok sh_node_ok); [|exact R]. intros k Hk. unfold sh_node_ok, shifted_ok. rewrite tag_eqb_refl. now apply N.ltb_lt.
  - apply ms_rel_shifted_wf, R.
Qed.

(* every Packed node the pass creates has ordered, disjoint spans that end inside the word *)
Theorem packed_spans_in_slot v v' : packed_encoding v = Ok v' -> packeds_in_slot v = true -> packeds_in_slot v' = true.
Proof.
  intros E. pose proof (packed_encoding_rel v) as R. rewrite E in R. apply (pe_rel_nodes_ok pk_node_ok); [|exact R].
  intros attrs H. unfold pk_node_ok. now rewrite tag_eqb_refl.
Qed.

(* the three passes never panic: sub_word and mul_shifted on ANY tree; packed_encoding (hence the composition) on any
   tree in which Shifted nodes wrap SubWords -- in particular on trees without Shifted nodes, i.e. everything the VM
   produces *)
Theorem packing_no_panic v :
  is_ok (sub_word v) = true
  /\ (shifted_wf v = true -> is_ok (packed_encoding v) = true)
  /\ (shifted_wf v = true -> is_ok (packing3 v) = true).
Proof.
  split; [destruct (sub_word_total v) as (v' & ->); reflexivity|]. split.
  - intros H. pose proof (packed_encoding_rel v) as R. destruct (packed_encoding v); [reflexivity|contradiction|congruence].
  - intros H. unfold packing3. destruct (sub_word_rel v) as (v1 & -> & R1). cbn [obind].
    assert (H2 : shifted_wf (mul_shifted v1) = true) by (apply (ms_rel_shifted_wf v1), (sw_rel_shifted_wf v v1 R1 H); apply mul_shifted_rel).
    pose proof (packed_encoding_rel (mul_shifted v1)) as R. destruct (packed_encoding (mul_shifted v1)); [reflexivity|contradiction|congruence].
Qed.

(* `panic!("Shift of non-sub-word")` (and `unreachable!("Element was of impossible type")`) cannot be reached by a tree that
   went through the real pass order sub_word, mul_shifted, packed_encoding -- provided the tree that ENTERED sub_word had no
   ill-formed Shifted node, which holds for every tree without Shifted nodes, i.e. for everything the VM produces *)
Theorem shift_of_non_subword_unreachable v v1 :
  shifted_wf v = true -> sub_word v = Ok v1 ->
  shifted_wf (mul_shifted v1) = true /\ forall s, packed_encoding (mul_shifted v1) <> Panic s.
Proof.
  intros H E. destruct (sub_word_rel v) as (v1' & E' & R1). rewrite E in E'. injection E' as <-.
  assert (H2 : shifted_wf (mul_shifted v1) = true) by (apply (ms_rel_shifted_wf v1), (sw_rel_shifted_wf v v1 R1 H); apply mul_shifted_rel).
  split; [exact H2|]. intros s Es. pose proof (packed_encoding_rel (mul_shifted v1)) as R. rewrite Es in R. congruence.
Qed.

(* the hypothesis cannot be dropped for packed_encoding alone: `panic!("Shift of non-sub-word")` is reachable through
   the public pass on a constructible value *)
Example packed_encoding_panics_on_ill_formed_shifted :
  is_panic (packed_encoding (Node T_StorageWrite [] [Known 0; Node T_Shifted [3] [Val 1]])) = true.
Proof. reflexivity. Qed.

Lemma no_lifted_nodes_ok P v : (forall t a, is_lifted t = false -> P t a = true) -> no_lifted v = true -> nodes_ok P v = true.
Proof.
  intros HP. induction v as [t a args IH] using sv_ind'. unfold no_lifted. cbn [nodes_ok]. intros H.
  apply andb_prop in H as [H1 H2]. rewrite HP by (now apply negb_true_iff in H1). cbn [andb].
  apply forallb_forall. intros c Hc. rewrite forallb_forall in H2. rewrite Forall_forall in IH. apply (IH c Hc). now apply H2.
Qed.

Lemma no_lifted_in_slot v : no_lifted v = true -> lifted_in_slot v = true /\ shifted_wf v = true.
Proof.
  intros H. split.
  - unfold lifted_in_slot, subwords_in_slot, shifteds_in_slot, packeds_in_slot.
    rewrite !no_lifted_nodes_ok; try exact H; try reflexivity; intros t a Ht; unfold is_lifted in Ht;
      apply orb_false_iff in Ht as [Ht Ht3]; apply orb_false_iff in Ht as [Ht1 Ht2].
    + unfold pk_node_ok. now rewrite Ht3.
    + unfold sh_node_ok. now rewrite Ht2.
    + unfold sw_node_ok. now rewrite Ht1.
  - induction v as [t a args IH] using sv_ind'. unfold no_lifted in H. cbn [nodes_ok shifted_wf] in *.
    apply andb_prop in H as [H1 H2]. apply negb_true_iff in H1. unfold is_lifted in H1.
    apply orb_false_iff in H1 as [H1 _]. apply orb_false_iff in H1 as [_ H1]. rewrite H1. cbn [andb].
    apply forallb_forall. intros c Hc. rewrite forallb_forall in H2. rewrite Forall_forall in IH. apply (IH c Hc). now apply H2.
Qed.

(* the three passes in the default order: nothing that is lifted describes bits that do not exist *)
Theorem packing3_in_slot v :
  wfb v = true -> shifted_wf v = true -> lifted_in_slot v = true ->
  exists v', packing3 v = Ok v' /\ lifted_in_slot v' = true /\ shifted_wf v' = true /\ wfb v' = true.
Proof.
  intros Hwf Hsw Hin. unfold lifted_in_slot in Hin. apply andb_prop in Hin as [Hin H3]. apply andb_prop in Hin as [H1 H2].
  unfold packing3. destruct (sub_word_rel v) as (v1 & -> & R1). cbn [obind].
  pose proof (mul_shifted_rel v1) as R2.
  assert (W1 : wfb v1 = true).
  { rewrite wfb_nodes_ok in *. apply (sw_rel_nodes_ok wf_node) with (v := v); [reflexivity|exact R1|exact Hwf]. }
  assert (S1 : shifted_wf v1 = true) by exact (sw_rel_shifted_wf v v1 R1 Hsw).
  assert (S2 : shifted_wf (mul_shifted v1) = true) by exact (ms_rel_shifted_wf _ _ R2 S1).
  assert (W2 : wfb (mul_shifted v1) = true).
  { rewrite wfb_nodes_ok in *. apply (ms_rel_nodes_ok_any wf_node) with (v := v1); [reflexivity|exact R2|exact W1]. }
  pose proof (packed_encoding_rel (mul_shifted v1)) as R3.
  destruct (packed_encoding (mul_shifted v1)) as [v3|e|s]; [|contradiction|congruence].
  exists v3. split; [reflexivity|].
  assert (A1 : subwords_in_slot v3 = true).
  { apply (pe_rel_nodes_ok sw_node_ok) with (v := mul_shifted v1); [reflexivity|exact R3|].
    apply (ms_rel_nodes_ok_any sw_node_ok) with (v := v1); [reflexivity|exact R2|].
    exact (sw_rel_nodes_ok sw_node_ok sw_node_ok_closed v v1 R1 H1). }
  assert (A2 : shifteds_in_slot v3 = true).
  { apply (pe_rel_nodes_ok sh_node_ok) with (v := mul_shifted v1); [reflexivity|exact R3|].
    apply (ms_rel_nodes_ok sh_node_ok) with (v := v1); [|exact R2|exact W1|].
    - intros k Hk. unfold sh_node_ok, shifted_ok. rewrite tag_eqb_refl. now apply N.ltb_lt.
    - apply (sw_rel_nodes_ok sh_node_ok) with (v := v); [reflexivity|exact R1|exact H2]. }
  assert (A3 : packeds_in_slot v3 = true).
  { apply (pe_rel_nodes_ok pk_node_ok) with (v := mul_shifted v1); [|exact R3|].
    - intros attrs H. unfold pk_node_ok. now rewrite tag_eqb_refl.
    - apply (ms_rel_nodes_ok_any pk_node_ok) with (v := v1); [reflexivity|exact R2|].
      apply (sw_rel_nodes_ok pk_node_ok) with (v := v); [reflexivity|exact R1|exact H3]. }
  unfold lifted_in_slot. rewrite A1, A2, A3. repeat split.
  - exact (pe_rel_shifted_wf _ _ R3 S2).
  - rewrite wfb_nodes_ok in *. apply (pe_rel_nodes_ok wf_node) with (v := mul_shifted v1); [reflexivity|exact R3|exact W2].
Qed.

(* in particular for everything the VM produces (no SubWord / Shifted / Packed nodes, 256-bit constants) *)
Corollary packing3_in_slot_vm v :
  wfb v = true -> no_lifted v = true -> exists v', packing3 v = Ok v' /\ lifted_in_slot v' = true /\ shifted_wf v' = true.
Proof.
  intros Hwf Hn. destruct (no_lifted_in_slot v Hn) as [H1 H2]. destruct (packing3_in_slot v Hwf H2 H1) as (v' & E & A & B & _).
  now exists v'.
Qed.

(* ---- the pinned texts (what the translator selects when the repairs are reverted) are refuted *)

Definition sload0 : sv := Node T_SLoad [] [Known 0; Node T_UnwrittenStorageValue [] [Known 0]].
(* 5f5461012c1c60ff1660015500: (sload(0) >> 300) & 0xff *)
Definition witness_300 : sv := Node T_And [] [Known 255; Node T_RightShift [] [Known 300; sload0]].

Theorem subword_in_slot_pinned_refuted :
  exists v v', no_lifted v = true /\ wfb v = true /\ sub_word_pinned v = Ok v' /\ subwords_in_slot v' = false.
Proof. exists witness_300, (Node T_SubWord [300; 8] [sload0]). repeat split; vm_compute; reflexivity. Qed.

Example witness_300_pinned : sub_word_pinned witness_300 = Ok (Node T_SubWord [300; 8] [sload0]).
Proof. vm_compute. reflexivity. Qed.
Example witness_300_repaired : sub_word witness_300 = Ok witness_300.
Proof. vm_compute. reflexivity. Qed.

(* `offset + shift` overflows usize: (sload(0) >> (2^64 - 1)) & 0xff00 *)
Theorem sub_word_pinned_panics :
  exists v, no_lifted v = true /\ wfb v = true /\ is_panic (sub_word_pinned v) = true.
Proof. exists (Node T_And [] [Node T_RightShift [] [Known (2 ^ 64 - 1); sload0]; Known 0xff00]). repeat split; vm_compute; reflexivity. Qed.

(* a sub-word times 2^255 ends beyond bit 256 and is packed all the same *)
Definition witness_255 : sv :=
  Node T_StorageWrite [] [Known 0; Node T_Or [] [Node T_And [] [Val 1; Known 255];
    Node T_Multiply [] [Node T_And [] [Val 2; Known (2 ^ 160 - 1)]; Known (2 ^ 255)]]].
Definition witness_255_out : sv :=
  Node T_StorageWrite [] [Known 0; Node T_Packed [0; 8; 255; 160] [Node T_SubWord [0; 8] [Val 1]; Node T_SubWord [0; 160] [Val 2]]].
Example witness_255_pinned : packing3_pinned witness_255 = Ok witness_255_out.
Proof. vm_compute. reflexivity. Qed.

Theorem packed_spans_in_slot_pinned_refuted :
  exists v v', no_lifted v = true /\ wfb v = true /\ packing3_pinned v = Ok v' /\ packeds_in_slot v' = false.
Proof. exists witness_255, witness_255_out. repeat split; vm_compute; reflexivity. Qed.

(* `offset + size` overflows usize in the validity loop *)
Theorem packed_encoding_pinned_panics :
  exists v, shifted_wf v = true /\ wfb v = true /\ is_panic (packed_encoding_pinned v) = true.
Proof.
  exists (Node T_StorageWrite [] [Known 0; Node T_Or [] [Node T_SubWord [2 ^ 64 - 8; 16] [Val 1]; Node T_SubWord [0; 8] [Val 2]]]).
  repeat split; vm_compute; reflexivity.
Qed.

(* ================================================================== 8. C04: compiler-style packings are recovered exactly *)

Lemma fold_known c : constant_fold (Known c) = Known c.
Proof. unfold Known. rewrite fold_node, find_arm_known, transform_ctor_id. reflexivity. Qed.
Lemma region_pure_known c : region_pure (Known c) = get_region c.
Proof. unfold region_pure. now rewrite fold_known, as_word_known. Qed.

Lemma sub_word_known c : sub_word (Known c) = Ok (Known c).
Proof. unfold Known. rewrite sub_word_other by discriminate. unfold sw_dflt_of. cbn [mapM obind]. now rewrite transform_ctor_id. Qed.
Lemma mul_shifted_known c : mul_shifted (Known c) = Known c.
Proof. unfold Known. now rewrite mul_shifted_other by discriminate. Qed.

(* a value that the mask recognition takes as it is *)
Definition maskable (x : sv) : Prop :=
  region_pure x = None /\ is_known x = false /\ shift_value x = x /\ shift_amount x = 0
  /\ sv_tag x <> T_And /\ sv_tag x <> T_SubWord.

Lemma plain_source_maskable x : plain_source x = true -> maskable x /\ sv_tag x <> T_SLoad.
Proof.
  unfold plain_source, maskable, region_pure. intros H. apply andb_prop in H as [Ht Hf].
  destruct (as_word (constant_fold x)); [discriminate|]. destruct x as [t a args]. cbn [sv_tag] in *.
  destruct t; cbn in Ht; try discriminate; repeat split; try reflexivity; try discriminate.
Qed.

Lemma sload_maskable key prev : maskable (Node T_SLoad [] [key; prev]).
Proof.
  unfold maskable, region_pure. rewrite fold_node. change (find_arm T_SLoad) with (@None fold_arm). rewrite transform_ctor_id.
  repeat split; try reflexivity; discriminate.
Qed.

Lemma sub_word_keeps_tag x : sv_tag x <> T_And -> exists x1, sub_word x = Ok x1 /\ sv_tag x1 = sv_tag x.
Proof.
  intros Ht. destruct (sub_word_rel x) as (x1 & E & R). exists x1. split; [exact E|].
  inversion R as [t a args args' _|v y y' o0 o n Hv]; subst; [reflexivity|contradiction].
Qed.

Lemma mul_shifted_tag v : sv_tag (mul_shifted v) = sv_tag v \/ sv_tag (mul_shifted v) = T_Shifted.
Proof. pose proof (mul_shifted_rel v) as R. destruct R; [now left|now right]. Qed.

Lemma unwrap_same_other o n x : sv_tag x <> T_SubWord -> unwrap_same o n x = x.
Proof. destruct x as [t a args]. cbn [sv_tag]. intros H. destruct t; try reflexivity. contradiction. Qed.

(* value & contiguous-mask, either operand order, lifts to SubWord{offset o, size n} *)
Lemma sub_word_mask ml x o n x1 :
  maskable x -> sub_word x = Ok x1 -> sv_tag x1 = sv_tag x -> 0 < n -> o + n <= 256 ->
  sub_word (if ml : bool then Node T_And [] [Known ((2 ^ n - 1) * 2 ^ o); x] else Node T_And [] [x; Known ((2 ^ n - 1) * 2 ^ o)])
  = Ok (Node T_SubWord [o; n] [x1]).
Proof.
  intros (Hr & Hk & Hsv & Hsa & Hta & Hts) Ex Etag Hn Hfit.
  assert (Esel : sw_select (if ml then Known ((2 ^ n - 1) * 2 ^ o) else x) (if ml then x else Known ((2 ^ n - 1) * 2 ^ o)) = Some (x, o, n)).
  { unfold sw_select. destruct ml.
    - now rewrite region_pure_known, get_region_spec.
    - now rewrite Hr, region_pure_known, get_region_spec. }
  assert (G : forall l r, sw_select l r = Some (x, o, n) -> sub_word (Node T_And [] [l; r]) = Ok (Node T_SubWord [o; n] [x1])).
  { intros l r Es. rewrite sub_word_and, Es, Hk, Hsv, Ex, Hsa. cbn [obind].
    rewrite sw_offset_small by (unfold two64; lia). rewrite N.add_0_r. cbn [obind]. rewrite sw_fits_small by exact Hfit.
    rewrite unwrap_same_other by congruence. reflexivity. }
  destruct ml; now apply G.
Qed.

Lemma pow2_mask_0 n : (2 ^ n - 1) * 2 ^ 0 = 2 ^ n - 1.
Proof. rewrite N.pow_0_r. lia. Qed.

(* C04: a value masked to 160 bits is a 20-byte quantity *)
Theorem address_mask x :
  plain_source x = true ->
  exists x', sub_word (Node T_And [] [x; Known (2 ^ 160 - 1)]) = Ok (Node T_SubWord [0; 160] [x'])
          /\ sub_word (Node T_And [] [Known (2 ^ 160 - 1); x]) = Ok (Node T_SubWord [0; 160] [x']).
Proof.
  intros Hp. apply plain_source_maskable in Hp as [Hm _]. destruct (sub_word_keeps_tag x) as (x1 & E & Et); [apply Hm|].
  exists x1. rewrite <- (pow2_mask_0 160). split.
  - apply (sub_word_mask false); try assumption; lia.
  - apply (sub_word_mask true); try assumption; lia.
Qed.

(* the same for a contiguous mask anywhere in the word *)
Theorem subword_mask_lift x o n :
  plain_source x = true -> 0 < n -> o + n <= 256 ->
  exists x', sub_word (Node T_And [] [x; Known ((2 ^ n - 1) * 2 ^ o)]) = Ok (Node T_SubWord [o; n] [x'])
          /\ sub_word (Node T_And [] [Known ((2 ^ n - 1) * 2 ^ o); x]) = Ok (Node T_SubWord [o; n] [x']).
Proof.
  intros Hp Hn Hfit. apply plain_source_maskable in Hp as [Hm _]. destruct (sub_word_keeps_tag x) as (x1 & E & Et); [apply Hm|].
  exists x1. split; [apply (sub_word_mask false)|apply (sub_word_mask true)]; assumption.
Qed.

(* ---- one field through sub_word and mul_shifted *)

Definition seg1 (st : style) (o n : N) (x1 : sv) : sv := shift_in st o (Node T_SubWord [0; n] [x1]).
Definition seg2 (st : style) (o n : N) (x2 : sv) : sv :=
  match st with St_none => Node T_SubWord [0; n] [x2] | _ => Node T_Shifted [o] [Node T_SubWord [0; n] [x2]] end.

Lemma sub_word_seg st ml o n x x1 :
  maskable x -> sub_word x = Ok x1 -> sv_tag x1 = sv_tag x -> 0 < n -> n <= 256 ->
  sub_word (shift_in st o (masked ml x n)) = Ok (seg1 st o n x1).
Proof.
  intros Hm Ex Et Hn Hfit.
  assert (E : sub_word (masked ml x n) = Ok (Node T_SubWord [0; n] [x1])).
  { unfold masked. rewrite <- (pow2_mask_0 n). destruct ml; [apply (sub_word_mask true)|apply (sub_word_mask false)]; try assumption; lia. }
  destruct st; cbn [shift_in seg1]; [exact E| | |].
  - rewrite sub_word_other by discriminate. unfold sw_dflt_of. cbn [mapM]. rewrite E, sub_word_known. cbn [obind]. now rewrite transform_ctor_id.
  - rewrite sub_word_other by discriminate. unfold sw_dflt_of. cbn [mapM]. rewrite E, sub_word_known. cbn [obind]. now rewrite transform_ctor_id.
  - rewrite sub_word_other by discriminate. unfold sw_dflt_of. cbn [mapM]. rewrite E, sub_word_known. cbn [obind]. now rewrite transform_ctor_id.
Qed.

Lemma mul_shifted_subword o n x : mul_shifted (Node T_SubWord [o; n] [x]) = Node T_SubWord [o; n] [mul_shifted x].
Proof. now rewrite mul_shifted_other by discriminate. Qed.

Lemma mul_shifted_seg st o n x1 : o < 256 -> mul_shifted (seg1 st o n x1) = seg2 st o n (mul_shifted x1).
Proof.
  intros Ho. pose proof (mul_shifted_subword 0 n x1) as Esw.
  assert (Hsub : forall y, is_subword (Node T_SubWord [0; n] [y]) = true) by reflexivity.
  destruct st; cbn [seg1 seg2 shift_in].
  - exact Esw.
  - rewrite mul_shifted_eq. cbv zeta. change (tag_eqb T_Multiply T_LeftShift) with false. rewrite tag_eqb_refl. cbv iota.
    rewrite !fold_is_subword, fold_known, as_word_known. change (is_subword (Known (2 ^ o))) with false. rewrite Hsub. cbv iota.
    rewrite which_power_of_2_pow2 by exact Ho. now rewrite Esw.
  - rewrite mul_shifted_eq. cbv zeta. change (tag_eqb T_Multiply T_LeftShift) with false. rewrite tag_eqb_refl. cbv iota.
    rewrite !fold_is_subword, fold_known, as_word_known. rewrite Hsub. cbv iota.
    rewrite which_power_of_2_pow2 by exact Ho. now rewrite Esw.
  - rewrite mul_shifted_eq. cbv zeta. rewrite tag_eqb_refl. cbv iota.
    destruct (ms_shl_small o Ho) as [-> Er]. rewrite fold_known, as_word_known, Hsub. cbv iota.
    rewrite as_usize_small by (unfold two64; lia). rewrite Er. now rewrite Esw.
Qed.

(* ---- or-trees of fields through the first two passes *)

Inductive seg2_tree : sv -> list (N * N) -> Prop :=
| s2_leaf st o n x2 : style_ok st o -> sv_tag x2 <> T_SLoad -> seg2_tree (seg2 st o n x2) [(o, n)]
| s2_or l r fl fr : seg2_tree l fl -> seg2_tree r fr -> seg2_tree (Node T_Or [] [l; r]) (fl ++ fr).

Lemma field_tree_stage12 v fs :
  field_tree v fs -> Forall (fun f => 0 < snd f /\ fst f + snd f <= 256) fs ->
  exists v1, sub_word v = Ok v1 /\ seg2_tree (mul_shifted v1) fs.
Proof.
  induction 1 as [st ml o n x Hp Hst|l r fl fr _ IHl _ IHr]; intros Hf.
  - inversion Hf as [|? ? [Hn Hfit] _]; subst. cbn [fst snd] in *.
    apply plain_source_maskable in Hp as [Hm Hns]. destruct (sub_word_keeps_tag x) as (x1 & E & Et); [apply Hm|].
    exists (seg1 st o n x1). split; [apply sub_word_seg; try assumption; lia|].
    rewrite mul_shifted_seg by lia. constructor; [exact Hst|].
    destruct (mul_shifted_tag x1) as [T|T]; rewrite T; congruence.
  - apply Forall_app in Hf as [Hl Hr]. destruct (IHl Hl) as (l1 & El & Tl). destruct (IHr Hr) as (r1 & Er & Tr).
    exists (Node T_Or [] [l1; r1]). split.
    + rewrite sub_word_other by discriminate. unfold sw_dflt_of. cbn [mapM]. rewrite El, Er. cbn [obind]. now rewrite transform_ctor_id.
    + rewrite mul_shifted_other by discriminate. cbn [map]. now constructor.
Qed.

(* ---- the spans packed_encoding makes of them *)

Lemma mapM_app {A B} (f : A -> outcome B unit) l1 l2 r1 r2 :
  mapM f l1 = Ok r1 -> mapM f l2 = Ok r2 -> mapM f (l1 ++ l2) = Ok (r1 ++ r2).
Proof.
  revert r1. induction l1 as [|x l1 IH]; intros r1 E1 E2; cbn [mapM app] in *; [injection E1 as <-; exact E2|].
  destruct (f x) as [y| |]; try discriminate. destruct (mapM f l1) as [ys| |]; try discriminate. injection E1 as <-.
  now rewrite (IH ys eq_refl E2).
Qed.

Definition field_span (f : N * N) (s : span) : Prop :=
  span_off s = fst f /\ span_size s = snd f /\ exists x2, span_val s = Node T_SubWord [0; snd f] [x2] /\ sv_tag x2 <> T_SLoad.

Lemma seg2_tree_spans v fs :
  seg2_tree v fs ->
  forallb is_seg (unpick_ors v) = true /\ exists spans, mapM span_of (unpick_ors v) = Ok spans /\ Forall2 field_span fs spans.
Proof.
  induction 1 as [st o n x2 Hst Hns|l r fl fr _ [Sl (sl & El & Fl)] _ [Sr (sr & Er & Fr)]].
  - destruct st; cbn [seg2 style_ok] in *; subst; (split; [reflexivity|]); eexists; (split; [reflexivity|]);
      repeat constructor; cbn; eauto.
  - cbn [unpick_ors]. split; [rewrite forallb_app; now rewrite Sl, Sr|].
    exists (sl ++ sr). split; [now apply mapM_app|now apply Forall2_app].
Qed.

Lemma field_spans_attrs fs spans : Forall2 field_span fs spans -> attrs_of spans = span_attrs fs.
Proof.
  induction 1 as [|f s fs spans (H1 & H2 & _) _ IH]; [reflexivity|].
  unfold attrs_of, span_attrs in *. cbn [flat_map]. now rewrite H1, H2, IH.
Qed.

Lemma insert_span_head x l : match l with [] => True | y :: _ => span_off x <= span_off y end -> insert_span x l = x :: l.
Proof. destruct l as [|y l]; [reflexivity|]. intros H. cbn [insert_span]. apply N.leb_le in H. now rewrite H. Qed.

Lemma sort_spans_sorted l : forall last, spans_ok last (attrs_of l) = true -> sort_spans l = l.
Proof.
  induction l as [|s l IH]; intros last H; [reflexivity|]. cbn [attrs_of flat_map app spans_ok] in H.
  apply andb_prop in H as [H H3]. apply andb_prop in H as [H1 H2].
  cbn [sort_spans fold_right]. change (fold_right insert_span [] l) with (sort_spans l). rewrite (IH _ H3).
  apply insert_span_head. destruct l as [|y l]; [exact I|].
  cbn [attrs_of flat_map app spans_ok] in H3. apply andb_prop in H3 as [H3 _]. apply andb_prop in H3 as [H3 _].
  apply N.leb_le in H3. lia.
Qed.

Lemma span_used_field key f s : field_span f s -> span_used key s = true.
Proof.
  intros (_ & _ & x2 & Ev & Hns). unfold span_used. rewrite Ev. destruct x2 as [t a args]. cbn [sv_tag] in Hns.
  destruct t; try reflexivity. contradiction.
Qed.

Lemma filter_all {A} (f : A -> bool) l : Forall (fun x => f x = true) l -> filter f l = l.
Proof. induction 1 as [|x l Hx _ IH]; [reflexivity|]. cbn [filter]. now rewrite Hx, IH. Qed.

Lemma packed_encoding_of_fields key v fs :
  seg2_tree v fs -> spans_ok 0 (span_attrs fs) = true ->
  exists kids, packed_encoding (Node T_StorageWrite [] [key; v]) = Ok (Node T_StorageWrite [] [key; Node T_Packed (span_attrs fs) kids])
            /\ Forall2 (fun f k => exists x', k = Node T_SubWord [0; snd f] [x']) fs kids.
Proof.
  intros Ht Hok. destruct (seg2_tree_spans v fs Ht) as (Hseg & spans & Em & Hf).
  pose proof (field_spans_attrs fs spans Hf) as Ea.
  rewrite packed_encoding_eq. cbv zeta. rewrite tag_eqb_refl. cbn [negb]. rewrite Hseg. cbn [negb]. rewrite Em. cbn [obind].
  rewrite (sort_spans_sorted spans 0) by (rewrite Ea; exact Hok).
  rewrite spans_valid_intro by (rewrite Ea; exact Hok). cbn [obind].
  rewrite filter_all.
  2:{ clear - Hf. induction Hf as [|f s fs spans H _ IH]; constructor; [exact (span_used_field key f s H)|exact IH]. }
  exists (map span_val spans). unfold mk_packed. fold (attrs_of spans). rewrite Ea. split; [reflexivity|].
  clear - Hf. induction Hf as [|f s fs spans (_ & _ & x2 & Ev & _) _ IH]; cbn [map]; constructor; [now exists x2|exact IH].
Qed.

Lemma spans_ok_fit fs : forall last, spans_ok last (span_attrs fs) = true -> Forall (fun f => fst f + snd f <= 256) fs.
Proof.
  induction fs as [|f fs IH]; intros last H; [constructor|]. cbn [span_attrs flat_map app spans_ok] in H.
  apply andb_prop in H as [H H3]. apply andb_prop in H as [_ H2]. constructor; [now apply N.leb_le|exact (IH _ H3)].
Qed.

(* C04 `lift_packed`: a storage write of an or-tree (any shape) of fields -- each `x & (2^n - 1)` shifted in by `* 2^o`
   (either operand order), by `<< o`, or not at all at offset 0, in any mixture -- at ANY ordered, disjoint bit positions
   inside the word (in particular 2-6 fields at byte boundaries) lifts to Packed with exactly those (offset, size) pairs *)
Theorem lift_packed_fields key v fs :
  field_tree v fs -> fields_ok fs ->
  exists key' kids,
    packing3 (Node T_StorageWrite [] [key; v]) = Ok (Node T_StorageWrite [] [key'; Node T_Packed (span_attrs fs) kids])
    /\ Forall2 (fun f k => exists x', k = Node T_SubWord [0; snd f] [x']) fs kids.
Proof.
  intros Ht [Hok Hpos].
  assert (Hf : Forall (fun f => 0 < snd f /\ fst f + snd f <= 256) fs).
  { pose proof (spans_ok_fit fs 0 Hok) as Hfit. rewrite Forall_forall in *. intros f Hin. split; [now apply Hpos|now apply Hfit]. }
  destruct (field_tree_stage12 v fs Ht Hf) as (v1 & E1 & T2). destruct (sub_word_total key) as (key1 & Ek).
  destruct (packed_encoding_of_fields (mul_shifted key1) (mul_shifted v1) fs T2 Hok) as (kids & Ep & Hk).
  exists (mul_shifted key1), kids. split; [|exact Hk].
  unfold packing3. rewrite sub_word_other by discriminate. unfold sw_dflt_of. cbn [mapM]. rewrite Ek, E1. cbn [obind].
  rewrite transform_ctor_id, mul_shifted_other by discriminate. exact Ep.
Qed.

(* ---- read-modify-write of one field with an inverted mask *)

Lemma sub_word_mask_gen ml x m o n x1 :
  maskable x -> sub_word x = Ok x1 -> sv_tag x1 = sv_tag x -> get_region m = Some (o, n) ->
  sub_word (if ml : bool then Node T_And [] [Known m; x] else Node T_And [] [x; Known m]) = Ok (Node T_SubWord [o; n] [x1]).
Proof.
  intros (Hr & Hk & Hsv & Hsa & Hta & Hts) Ex Etag Hm. destruct (get_region_bounds m o n Hm) as [Hn Hfit].
  assert (Esel : sw_select (if ml then Known m else x) (if ml then x else Known m) = Some (x, o, n)).
  { unfold sw_select. destruct ml.
    - now rewrite region_pure_known, Hm.
    - now rewrite Hr, region_pure_known, Hm. }
  assert (G : forall l r, sw_select l r = Some (x, o, n) -> sub_word (Node T_And [] [l; r]) = Ok (Node T_SubWord [o; n] [x1])).
  { intros l r Es. rewrite sub_word_and, Es, Hk, Hsv, Ex, Hsa. cbn [obind].
    rewrite sw_offset_small by (unfold two64; lia). rewrite N.add_0_r. cbn [obind]. rewrite sw_fits_small by exact Hfit.
    rewrite unwrap_same_other by congruence. reflexivity. }
  destruct ml; now apply G.
Qed.

(* the part of the slot a read-modify-write keeps: [0, o) when the field is not the lowest, (n, 256) when it is *)
Definition kept_region (o n : N) : N * N := if o =? 0 then (n, 256 - n) else (0, o).

Lemma get_region_cleared o n :
  0 < n -> o + n <= 256 -> (o = 0 -> n < 256) -> get_region (MAXW - (2 ^ n - 1) * 2 ^ o) = Some (kept_region o n).
Proof.
  intros Hn Hfit H0. unfold kept_region. destruct (N.eqb_spec o 0) as [->|Ho].
  - apply get_region_inverted_low; [exact Hn|now apply H0].
  - apply get_region_inverted_high; [lia|exact Hn|exact Hfit].
Qed.

Lemma sort_two (p q : span) : sort_spans [p; q] = if span_off p <=? span_off q then [p; q] else [q; p].
Proof. reflexivity. Qed.

Lemma pe_two key sa sb :
  span_used key sa = false -> span_used key sb = true ->
  span_off sa + span_size sa <= 256 -> span_off sb + span_size sb <= 256 ->
  (span_off sa + span_size sa <= span_off sb /\ span_off sa < span_off sb)
  \/ (span_off sb + span_size sb <= span_off sa /\ span_off sb < span_off sa) ->
  forall l, l = [sa; sb] \/ l = [sb; sa] ->
  spans_valid true 0 (sort_spans l) = Ok true /\ filter (span_used key) (sort_spans l) = [sb].
Proof.
  intros Ua Ub Ha Hb Hord l Hl.
  assert (V : forall p q, span_off p + span_size p <= span_off q -> span_off p + span_size p <= 256 -> span_off q + span_size q <= 256 ->
              spans_valid true 0 [p; q] = Ok true).
  { intros p q H1 H2 H3. apply spans_valid_intro. cbn [attrs_of flat_map app spans_ok].
    rewrite (proj2 (N.leb_le 0 (span_off p))) by lia. rewrite (proj2 (N.leb_le _ 256) H2), (proj2 (N.leb_le _ _) H1), (proj2 (N.leb_le _ 256) H3).
    reflexivity. }
  destruct Hord as [[H1 H2]|[H1 H2]]; destruct Hl as [-> | ->]; rewrite sort_two.
  - destruct (N.leb_spec (span_off sa) (span_off sb)); [|lia]. split; [now apply V|]. cbn [filter]. now rewrite Ua, Ub.
  - destruct (N.leb_spec (span_off sb) (span_off sa)); [lia|]. split; [now apply V|]. cbn [filter]. now rewrite Ua, Ub.
  - destruct (N.leb_spec (span_off sa) (span_off sb)); [lia|]. split; [now apply V|]. cbn [filter]. now rewrite Ua, Ub.
  - destruct (N.leb_spec (span_off sb) (span_off sa)); [|lia]. split; [now apply V|]. cbn [filter]. now rewrite Ua, Ub.
Qed.

Lemma seg2_span st o n x2 :
  style_ok st o -> is_seg (seg2 st o n x2) = true /\ unpick_ors (seg2 st o n x2) = [seg2 st o n x2]
  /\ span_of (seg2 st o n x2) = Ok (o, n, Node T_SubWord [0; n] [x2]).
Proof. destruct st; cbn [style_ok seg2]; intros H; subst; repeat split. Qed.

(* C04 `lift_packed`, read-modify-write: `sstore(k, (sload(k) & ~(mask << o)) | shifted-in field)`, either operand order of
   the or and of both ands, all shift-in styles, lifts to Packed with exactly the written field: the kept part of the slot
   is recognised as a sub-word that reads the slot being written and is dropped *)
Theorem lift_packed_rmw key prev st ml mlc (seg_first : bool) o n x :
  plain_source x = true -> style_ok st o -> 0 < n -> o + n <= 256 -> (o = 0 -> n < 256) ->
  let seg := shift_in st o (masked ml x n) in
  let old := cleared mlc key prev o n in
  exists key' x',
    packing3 (Node T_StorageWrite [] [key; Node T_Or [] (if seg_first then [seg; old] else [old; seg])])
    = Ok (Node T_StorageWrite [] [key'; Node T_Packed [o; n] [Node T_SubWord [0; n] [x']]]).
Proof.
  intros Hp Hst Hn Hfit H0 seg old.
  apply plain_source_maskable in Hp as [Hm Hns]. destruct (sub_word_keeps_tag x) as (x1 & Ex & Et); [apply Hm|].
  destruct (sub_word_total key) as (key1 & Ek). destruct (sub_word_total prev) as (prev1 & Ep).
  set (key2 := mul_shifted key1). set (prev2 := mul_shifted prev1). set (x2 := mul_shifted x1).
  assert (Esl : sub_word (Node T_SLoad [] [key; prev]) = Ok (Node T_SLoad [] [key1; prev1])).
  { rewrite sub_word_other by discriminate. unfold sw_dflt_of. cbn [mapM]. rewrite Ek, Ep. cbn [obind]. now rewrite transform_ctor_id. }
  destruct (kept_region o n) as [ro rn] eqn:Ekr.
  assert (Eold : sub_word old = Ok (Node T_SubWord [ro; rn] [Node T_SLoad [] [key1; prev1]])).
  { unfold old, cleared. apply sub_word_mask_gen; [apply sload_maskable|exact Esl|reflexivity|]. rewrite <- Ekr. now apply get_region_cleared. }
  assert (Eseg : sub_word seg = Ok (seg1 st o n x1)) by (apply sub_word_seg; try assumption; lia).
  set (A := Node T_SubWord [ro; rn] [Node T_SLoad [] [key2; prev2]]).
  assert (EA : mul_shifted (Node T_SubWord [ro; rn] [Node T_SLoad [] [key1; prev1]]) = A).
  { rewrite mul_shifted_subword. now rewrite mul_shifted_other by discriminate. }
  assert (EB : mul_shifted (seg1 st o n x1) = seg2 st o n x2) by (apply mul_shifted_seg; lia).
  destruct (seg2_span st o n x2 Hst) as (SegB & UnB & SpB).
  set (sa := (ro, rn, A) : span). set (sb := (o, n, Node T_SubWord [0; n] [x2]) : span).
  assert (Ua : span_used key2 sa = false).
  { unfold span_used, sa, A. cbn [span_val snd]. now rewrite sv_eqb_refl. }
  assert (Ub : span_used key2 sb = true).
  { unfold span_used, sb. cbn [span_val snd]. assert (T : sv_tag x2 <> T_SLoad).
    { unfold x2. destruct (mul_shifted_tag x1) as [T|T]; rewrite T; congruence. }
    destruct x2 as [t a args]. cbn [sv_tag] in T. destruct t; try reflexivity. contradiction. }
  assert (Hkr : ro + rn <= 256 /\ ((ro + rn <= o /\ ro < o) \/ (o + n <= ro /\ o < ro))).
  { unfold kept_region in Ekr. destruct (N.eqb_spec o 0) as [->|Ho]; injection Ekr as <- <-.
    - specialize (H0 eq_refl). split; [lia|right; lia].
    - split; [lia|left; lia]. }
  destruct Hkr as [Hra Hord].
  exists key2, x2. unfold packing3. rewrite sub_word_other by discriminate. unfold sw_dflt_of. cbn [mapM]. rewrite Ek.
  assert (Final : forall l, l = [sa; sb] \/ l = [sb; sa] ->
            obind (spans_valid true 0 (sort_spans l)) (fun valid =>
              if valid then Ok (Node T_StorageWrite [] [key2; mk_packed (filter (span_used key2) (sort_spans l))])
              else pe_dflt_of T_StorageWrite [] [key2; Node T_Or [] (if seg_first then [seg2 st o n x2; A] else [A; seg2 st o n x2])])
            = Ok (Node T_StorageWrite [] [key2; Node T_Packed [o; n] [Node T_SubWord [0; n] [x2]]])).
  { intros l Hl. destruct (pe_two key2 sa sb Ua Ub Hra Hfit Hord l Hl) as [-> ->]. reflexivity. }
  destruct seg_first.
  - rewrite sub_word_other by discriminate. unfold sw_dflt_of. cbn [mapM]. rewrite Eseg, Eold. cbn [obind].
    rewrite !transform_ctor_id. rewrite mul_shifted_other by discriminate. cbn [map]. rewrite mul_shifted_other by discriminate. cbn [map].
    rewrite EA, EB. fold key2. rewrite packed_encoding_eq. cbv zeta. rewrite tag_eqb_refl. cbn [negb].
    cbn [unpick_ors]. rewrite UnB. change (unpick_ors A) with [A]. cbn [app forallb]. rewrite SegB. cbn [is_seg A andb negb mapM].
    rewrite SpB. change (span_of A) with (@Ok span unit sa). cbn [obind]. apply (Final [sb; sa]). now right.
  - rewrite sub_word_other by discriminate. unfold sw_dflt_of. cbn [mapM]. rewrite Eseg, Eold. cbn [obind].
    rewrite !transform_ctor_id. rewrite mul_shifted_other by discriminate. cbn [map]. rewrite mul_shifted_other by discriminate. cbn [map].
    rewrite EA, EB. fold key2. rewrite packed_encoding_eq. cbv zeta. rewrite tag_eqb_refl. cbn [negb].
    cbn [unpick_ors]. rewrite UnB. change (unpick_ors A) with [A]. cbn [app forallb]. rewrite SegB. cbn [is_seg A andb negb mapM].
    rewrite SpB. change (span_of A) with (@Ok span unit sa). cbn [obind]. apply (Final [sa; sb]). now left.
Qed.

(* the SHL shift-in style is only lifted since the repair of F10: with the pinned pass the widths are lost *)
Theorem lift_packed_fields_pinned_refuted :
  exists v fs, field_tree v fs /\ fields_ok fs /\
    packing3_pinned (Node T_StorageWrite [] [Known 0; v])
    = Ok (Node T_StorageWrite [] [Known 0; Node T_Or [] [Node T_SubWord [0; 8] [Val 1];
            Node T_LeftShift [] [Known 8; Node T_SubWord [0; 16] [Val 2]]]]).
Proof.
  exists (Node T_Or [] [shift_in St_none 0 (masked false (Val 1) 8); shift_in St_shl 8 (masked false (Val 2) 16)]), ([(0, 8)] ++ [(8, 16)]).
  split; [|split].
  - apply ft_or; apply ft_leaf; cbn; auto.
  - split; [reflexivity|]. repeat constructor.
  - vm_compute. reflexivity.
Qed.
