(* The operator bodies of the pinned snapshot ccf401a (kept in the T4 dictionary so that reverting the repair
   8f97eeb still translates) are refuted against the Yellow-Paper specification by concrete operands.  These
   statements are about the Word256 models of the ethnum primitives those bodies are made of, so they hold
   whatever the current text of known.rs selects; they document what `impl_*_eq_spec` rules out. *)
From SLX Require Import Base Word256 EvmSpec proofs.Word256Proofs proofs.EvmSpecProofs.
Open Scope N_scope.
Set Default Timeout 60.

(* exp: `self.value.wrapping_pow(rhs.value.as_u32())` -- 2^(2^32) is 0, the truncated exponent gives 2^0 = 1 *)
Theorem pinned_exp_refuted : exists a b, a < W /\ b < W /\ u256_wrapping_pow a (as_u32 b) <> spec_exp a b.
Proof.
  exists 2, (2 ^ 32). split; [reflexivity|]. split; [reflexivity|].
  rewrite <- xspec_exp_eq. vm_compute. discriminate.
Qed.

(* shl: `self.value_le() << rhs.value_le()` -- 1 << 256: the debug build panics, the release build yields 2^128 *)
Theorem pinned_shl_refuted : exists v s, v < W /\ s < W /\
  (255 <? s) = true /\ u256_shl_u256 v s <> spec_shl s v.
Proof.
  exists 1, 256. split; [reflexivity|]. split; [reflexivity|]. split; [reflexivity|].
  rewrite <- xspec_shl_eq. vm_compute. discriminate.
Qed.

(* shr: (2^256-1) >> 256: panic / 2^128-1 instead of 0 *)
Theorem pinned_shr_refuted : exists v s, v < W /\ s < W /\
  (255 <? s) = true /\ u256_shr_u256 v s <> spec_shr s v.
Proof.
  exists MAXW, 256. split; [reflexivity|]. split; [reflexivity|]. split; [reflexivity|].
  rewrite <- xspec_shr_eq by reflexivity. vm_compute. discriminate.
Qed.

(* sar: MIN >> 256: panic / -2^127 instead of -1 *)
Theorem pinned_sar_refuted : exists v s, v < W /\ s < W /\
  (255 <? s) = true /\ of_signed (i256_sar_u256 (to_signed v) s) <> spec_sar s v.
Proof.
  exists HALF, 256. split; [reflexivity|]. split; [reflexivity|]. split; [reflexivity|].
  rewrite <- xspec_sar_eq by reflexivity. vm_compute. discriminate.
Qed.
