(* Proofs about coq/Unify.v (properties C14, the unification half of C03, the unification-level half of C15).
   Part 1: `unify` (concrete forest) refines `a_unify` (partition specification) -- C19's simulation, lifted
           through the generic algorithm. *)
From Coq Require Import String Permutation.
From SLX Require Import Base VectorMap DisjointSet gen.Constants gen.WordUseTable TypeExpr Merge Unify.
From SLX Require Import proofs.VecMapProofs proofs.DsuProofs proofs.MergeEquivProofs proofs.MergeFactsProofs
  proofs.MergeLatticeProofs proofs.MergeProofs.
Open Scope N_scope.

(* ========================================================================================== *)
(* 1. Simulation                                                                              *)

Definition orel {A B} (P : A -> B -> Prop) (x : ures A) (y : ures B) : Prop :=
  match x, y with
  | Ok a, Ok b => P a b
  | Err e, Err e' => e = e'
  | Panic p, Panic q => p = q
  | _, _ => False
  end.

Lemma orel_bind {A B A' B'} (P : A -> B -> Prop) (Q : A' -> B' -> Prop) x y f g :
  orel P x y -> (forall a b, P a b -> orel Q (f a) (g b)) -> orel Q (ubind x f) (ubind y g).
Proof. destruct x, y; cbn; intros H Hf; try contradiction; auto. Qed.

Lemma orel_ok {A B} (P : A -> B -> Prop) a b : P a b -> orel P (Ok a) (Ok b).
Proof. exact (fun H => H). Qed.

Section Sim.
  Context {S1 S2 : Type}.
  Variable F1 : forest_ops S1.
  Variable F2 : forest_ops S2.
  Variable R : S1 -> S2 -> Prop.
  Variable o : orders.

  Definition Rp {A} (p : S1 * A) (q : S2 * A) : Prop := R (fst p) (fst q) /\ snd p = snd q.

  Hypothesis H_new : R (f_new F1) (f_new F2).
  Hypothesis H_insert : forall s a v, R s a -> orel R (f_insert F1 s v) (f_insert F2 a v).
  Hypothesis H_union : forall s a x y, R s a -> orel R (f_union F1 s x y) (f_union F2 a x y).
  Hypothesis H_add : forall s a v d, R s a -> orel R (f_add F1 s v d) (f_add F2 a v d).
  Hypothesis H_set : forall s a v d, R s a -> orel R (f_set F1 s v d) (f_set F2 a v d).
  Hypothesis H_get : forall s a v, R s a -> orel Rp (f_get F1 s v) (f_get F2 a v).
  Hypothesis H_sets : forall s a, R s a -> orel Rp (f_sets F1 s) (f_sets F2 a).

  Lemma insert_all_sim vars : forall s a, R s a -> orel R (insert_all F1 s vars) (insert_all F2 a vars).
  Proof.
    induction vars as [|v t IH]; intros s a H; cbn [insert_all]; [exact H|].
    eapply orel_bind; [apply H_insert, H|]. intros s1 a1 H1. apply IH, H1.
  Qed.

  Lemma union_all_sim es : forall s a, R s a -> orel R (union_all F1 s es) (union_all F2 a es).
  Proof.
    induction es as [|[l r] t IH]; intros s a H; cbn [union_all]; [exact H|].
    eapply orel_bind; [apply H_union, H|]. intros s1 a1 H1. apply IH, H1.
  Qed.

  Lemma add_all_sim js : forall s a, R s a -> orel R (add_all F1 s js) (add_all F2 a js).
  Proof.
    induction js as [|[v e] t IH]; intros s a H; cbn [add_all]; [exact H|].
    eapply orel_bind; [apply H_add, H|]. intros s1 a1 H1. apply IH, H1.
  Qed.

  Lemma init_exprs_sim v l : forall s a, R s a -> orel R (init_exprs F1 s v l) (init_exprs F2 a v l).
  Proof.
    induction l as [|e t IH]; intros s a H; cbn [init_exprs]; [exact H|].
    eapply orel_bind; [destruct e; first [apply H_union, H | apply H_add, H]|].
    intros s1 a1 H1. apply IH, H1.
  Qed.

  Lemma init_vars_sim st vars : forall s a, R s a -> orel R (init_vars F1 o st s vars) (init_vars F2 o st a vars).
  Proof.
    induction vars as [|v t IH]; intros s a H; cbn [init_vars]; [exact H|].
    eapply orel_bind; [apply init_exprs_sim, H|]. intros s1 a1 H1. apply IH, H1.
  Qed.

  Lemma init_forest_sim st : orel R (init_forest F1 o st) (init_forest F2 o st).
  Proof.
    unfold init_forest. eapply orel_bind; [apply insert_all_sim, H_new|].
    intros s a H. apply init_vars_sim, H.
  Qed.

  Lemma classes_loop_sim rnd sets : forall s a acc, R s a ->
    orel Rp (classes_loop F1 o rnd s sets acc) (classes_loop F2 o rnd a sets acc).
  Proof.
    induction sets as [|[root infs] t IH]; intros s a acc H; cbn [classes_loop]; [split; [exact H|reflexivity]|].
    destruct infs as [|i0 infs]; [apply IH, H|].
    destruct (o_class o rnd root (i0 :: infs)) as [|cur rest]; [cbn; reflexivity|].
    destruct (fold_class cur rest root acc) as [[c acc']| |]; cbn [ubind fst snd]; try (cbn; reflexivity).
    eapply orel_bind; [apply H_set, H|]. intros s1 a1 H1. apply IH, H1.
  Qed.

  Lemma round_sim rnd nxt s a : R s a ->
    orel (fun p q => R (fst (fst p)) (fst (fst q)) /\ snd (fst p) = snd (fst q) /\ snd p = snd q)
      (round F1 o rnd s nxt) (round F2 o rnd a nxt).
  Proof.
    intros H. unfold round.
    eapply orel_bind; [apply H_sets, H|]. intros [s1 l1] [a1 l2] [H1 El]. cbn [fst snd] in *. subst l2.
    eapply orel_bind; [apply classes_loop_sim, H1|]. intros [s2 acc1] [a2 acc2] [H2 Ea]. cbn [fst snd] in *. subst acc2.
    eapply orel_bind; [apply insert_all_sim, H2|]. intros s3 a3 H3.
    eapply orel_bind; [apply union_all_sim, H3|]. intros s4 a4 H4.
    eapply orel_bind; [apply add_all_sim, H4|]. intros s5 a5 H5.
    cbn. auto.
  Qed.

  Lemma unify_loop_sim fuel : forall rnd nxt s a, R s a ->
    orel Rp (unify_loop F1 o fuel rnd s nxt) (unify_loop F2 o fuel rnd a nxt).
  Proof.
    induction fuel as [|f IH]; intros rnd nxt s a H; cbn [unify_loop]; [cbn; reflexivity|].
    eapply orel_bind; [apply round_sim, H|].
    intros [[s1 n1] p1] [[a1 n2] p2] (H1 & En & Ep). cbn [fst snd] in *. subst n2 p2.
    destruct p1; [apply IH, H1|split; [exact H1|reflexivity]].
  Qed.

  Theorem unify_gen_sim fuel st : orel Rp (unify_gen F1 o fuel st) (unify_gen F2 o fuel st).
  Proof.
    unfold unify_gen. eapply orel_bind; [apply init_forest_sim|]. intros s a H. apply unify_loop_sim, H.
  Qed.

  Lemma rounds_from_sim k : forall rnd nxt s a, R s a ->
    orel (fun p q => R (fst (fst p)) (fst (fst q)) /\ snd (fst p) = snd (fst q) /\ snd p = snd q)
      (rounds_from F1 o k rnd s nxt) (rounds_from F2 o k rnd a nxt).
  Proof.
    induction k as [|k IH]; intros rnd nxt s a H; cbn [rounds_from]; [cbn; auto|].
    eapply orel_bind; [apply round_sim, H|].
    intros [[s1 n1] p1] [[a1 n2] p2] (H1 & En & Ep). cbn [fst snd] in *. subst n2 p2.
    destruct p1; [apply IH, H1|cbn; auto].
  Qed.

  Lemma type_of_sim s a v : R s a -> orel Rp (type_of F1 s v) (type_of F2 a v).
  Proof.
    intros H. unfold type_of. eapply orel_bind; [apply H_get, H|].
    intros [s1 d1] [a1 d2] [H1 Ed]. cbn [fst snd] in *. subst d2. split; [exact H1|reflexivity].
  Qed.
End Sim.

(* the instance: concrete forest against the partition specification, related by C19's Inv / Abs *)
Definition fsim (s : dsu iset) (a : astate iset) : Prop := Inv iset s /\ Abs iset s a.

Notation dstep := (ds_step iset iset_union iset_ident insert_is_guarded).
Notation astep := (a_step iset iset_union iset_ident).

Lemma fsim_step s a op : fsim s a ->
  exists s' out, dstep s op = Ok (s', out) /\ fsim s' (fst (astep a op)) /\ out = snd (astep a op).
Proof.
  intros [HI HA].
  destruct (step_sim iset iset_union iset_ident insert_is_guarded s a op HI HA (or_introl eq_refl))
    as (s' & out & E & HI' & HA' & Eo).
  exists s', out. split; [exact E|]. split; [split; assumption|exact Eo].
Qed.

Lemma fsim_new : fsim (f_new ds_forest) (f_new a_forest).
Proof. split; [apply inv_new|apply abs_new]. Qed.

Lemma fsim_insert s a v : fsim s a -> orel fsim (f_insert ds_forest s v) (f_insert a_forest a v).
Proof.
  intros H. destruct (fsim_step s a (DInsert v) H) as (s' & out & E & H' & _).
  cbn [ds_step] in E. injection E as <- _. exact H'.
Qed.

Lemma fsim_union s a x y : fsim s a -> orel fsim (f_union ds_forest s x y) (f_union a_forest a x y).
Proof.
  intros H. destruct (fsim_step s a (DUnion x y) H) as (s' & out & E & H' & _).
  cbn [ds_step] in E. cbn [f_union ds_forest a_forest].
  destruct (ds_union iset iset_union iset_ident s x y) as [s1| |]; cbn [lift] in E; try discriminate.
  injection E as <- _. exact H'.
Qed.

Lemma fsim_add s a v d : fsim s a -> orel fsim (f_add ds_forest s v d) (f_add a_forest a v d).
Proof.
  intros H. destruct (fsim_step s a (DAdd v d) H) as (s' & out & E & H' & _).
  cbn [ds_step] in E. cbn [f_add ds_forest a_forest].
  destruct (ds_add_data iset iset_union iset_ident s v d) as [s1| |]; cbn [lift] in E; try discriminate.
  injection E as <- _. exact H'.
Qed.

Lemma fsim_set s a v d : fsim s a -> orel fsim (f_set ds_forest s v d) (f_set a_forest a v d).
Proof.
  intros H. destruct (fsim_step s a (DSet v d) H) as (s' & out & E & H' & _).
  cbn [ds_step] in E. cbn [f_set ds_forest a_forest].
  destruct (ds_set_data iset s v d) as [s1| |]; cbn [lift] in E; try discriminate.
  injection E as <- _. exact H'.
Qed.

Lemma fsim_get s a v : fsim s a -> orel (Rp fsim) (f_get ds_forest s v) (f_get a_forest a v).
Proof.
  intros H. destruct (fsim_step s a (DGet v) H) as (s' & out & E & H' & Eo).
  cbn [ds_step] in E. cbn [f_get ds_forest a_forest].
  destruct (ds_get_data iset s v) as [[s1 d1]| |]; cbn [lift fst snd] in E; try discriminate.
  injection E as <- <-. cbn [a_step snd] in Eo. injection Eo as ->. split; [exact H'|reflexivity].
Qed.

Lemma fsim_sets s a : fsim s a -> orel (Rp fsim) (f_sets ds_forest s) (f_sets a_forest a).
Proof.
  intros H. destruct (fsim_step s a DSets H) as (s' & out & E & H' & Eo).
  cbn [ds_step] in E. cbn [f_sets ds_forest a_forest]. unfold a_sets.
  destruct (ds_sets iset iset_ident s) as [s1 l1]. injection E as <- <-.
  cbn [a_step] in H', Eo.
  destruct (a_sets_fold iset iset_ident (root_keys (a_tbl a)) (a_data a)) as [dt l]. cbn [fst snd] in *.
  injection Eo as ->. split; [exact H'|reflexivity].
Qed.

(* `unify` returns exactly what `a_unify` returns (same counter, same out-of-fuel / panic outcome), and the
   resulting forest is well formed and abstracts to the specification's partition *)
Theorem unify_refines fuel o st : orel (Rp fsim) (unify fuel o st) (a_unify fuel o st).
Proof.
  apply (unify_gen_sim ds_forest a_forest fsim o fsim_new fsim_insert fsim_union fsim_add fsim_set fsim_sets).
Qed.

Theorem type_of_refines s a v : fsim s a -> orel (Rp fsim) (type_of ds_forest s v) (type_of a_forest a v).
Proof. apply (type_of_sim ds_forest a_forest fsim fsim_get). Qed.

(* ========================================================================================== *)
(* 2. The partition specification seen as (class of a variable, data of a class)              *)

Notation rep := (a_rep iset).
Notation a_un := (a_union iset iset_union iset_ident).

(* the data of the class represented by r; a class without an entry has the empty set *)
Definition dat (a : astate iset) (r : N) : iset := or_ident iset iset_ident (fm_get r (a_data a)).

(* well-formedness of a partition-model state *)
Definition AS (a : astate iset) : Prop :=
  tbl_ok iset a /\ fm_sorted (a_tbl a) /\ fm_sorted (a_data a) /\
  (forall r d, fm_get r (a_data a) = Some d -> fm_get r (a_tbl a) = Some r).

Lemma as_new : AS (a_new iset).
Proof.
  split; [intros v r E; discriminate|]. split; [constructor|]. split; [constructor|]. intros r d E. discriminate.
Qed.

Lemma rep_idem a v : tbl_ok iset a -> rep a (rep a v) = rep a v.
Proof.
  intros Hok. unfold a_rep. destruct (fm_get v (a_tbl a)) as [r|] eqn:E.
  - rewrite (Hok v r E). reflexivity.
  - rewrite E. reflexivity.
Qed.

Lemma as_touch a v : AS a -> AS (a_touch iset a v).
Proof.
  intros (Hok & Hs & Hd & Hr).
  split; [apply touch_ok, Hok|]. split; [apply touch_sorted, Hs|]. rewrite touch_data.
  split; [exact Hd|]. intros r d E. apply touch_keeps, (Hr r d E).
Qed.

Lemma dat_touch a v r : dat (a_touch iset a v) r = dat a r.
Proof. unfold dat. rewrite touch_data. reflexivity. Qed.

(* a value that is not a member represents itself and has no data *)
Lemma nonmember_nodata a v : AS a -> fm_get v (a_tbl a) = None -> fm_get v (a_data a) = None.
Proof.
  intros (_ & _ & _ & Hr) E. destruct (fm_get v (a_data a)) as [d|] eqn:Ed; [|reflexivity].
  rewrite (Hr v d Ed) in E. discriminate.
Qed.

Lemma rep_is_root a v : AS a -> fm_get v (a_tbl a) <> None -> fm_get (rep a v) (a_tbl a) = Some (rep a v).
Proof.
  intros (Hok & _) Hm. unfold a_rep. destruct (fm_get v (a_tbl a)) as [r|] eqn:E; [|congruence]. apply (Hok v r E).
Qed.

(* ---- insert ---- *)
Lemma as_insert a v : AS a -> AS (a_insert a v).
Proof. apply as_touch. Qed.
Lemma rep_insert a v u : rep (a_insert a v) u = rep a u.
Proof. apply rep_touch. Qed.
Lemma dat_insert a v r : dat (a_insert a v) r = dat a r.
Proof. apply dat_touch. Qed.

(* ---- set_data / add_data ---- *)
Lemma as_set_class a r d : AS a -> fm_get r (a_tbl a) = Some r -> AS (a_set_class_data iset a r d).
Proof.
  intros (Hok & Hs & Hd & Hr) Er. unfold a_set_class_data.
  split; [exact Hok|]. split; [exact Hs|]. cbn [a_tbl a_data]. split; [apply fm_insert_sorted, Hd|].
  intros k d0. rewrite fm_get_insert. destruct (N.eqb_spec k r) as [->|]; [intros _; exact Er|apply Hr].
Qed.

Lemma touched_root a v : AS a -> let a1 := a_touch iset a v in fm_get (rep a1 v) (a_tbl a1) = Some (rep a1 v).
Proof.
  intros HA a1. apply rep_is_root; [apply as_touch, HA|]. unfold a1. rewrite touch_member. discriminate.
Qed.

Lemma as_set a v d : AS a -> AS (a_set a v d).
Proof. intros HA. unfold a_set. apply as_set_class; [apply as_touch, HA|apply touched_root, HA]. Qed.
Lemma rep_set a v d u : rep (a_set a v d) u = rep a u.
Proof. unfold a_set, a_set_class_data, a_rep. cbn [a_tbl]. fold (rep (a_touch iset a v) u). apply rep_touch. Qed.
Lemma dat_set a v d r : dat (a_set a v d) r = if r =? rep a v then d else dat a r.
Proof.
  unfold a_set, a_set_class_data, dat. cbn [a_data]. rewrite fm_get_insert, rep_touch, touch_data.
  destruct (r =? rep a v); reflexivity.
Qed.

Lemma as_add a v d : AS a -> AS (a_add a v d).
Proof. intros HA. unfold a_add. apply as_set_class; [apply as_touch, HA|apply touched_root, HA]. Qed.
Lemma rep_add a v d u : rep (a_add a v d) u = rep a u.
Proof. unfold a_add, a_set_class_data, a_rep. cbn [a_tbl]. fold (rep (a_touch iset a v) u). apply rep_touch. Qed.
Lemma dat_add a v d r : dat (a_add a v d) r = if r =? rep a v then iset_union (dat a r) d else dat a r.
Proof.
  unfold a_add, a_set_class_data, dat. cbn [a_data]. rewrite fm_get_insert, rep_touch, touch_data.
  destruct (N.eqb_spec r (rep a v)) as [->|]; reflexivity.
Qed.

(* ---- union ---- *)
Lemma as_union a x y : AS a -> AS (a_un a x y).
Proof.
  intros HA. unfold a_union. set (a2 := a_touch iset (a_touch iset a x) y).
  assert (HA2 : AS a2) by (apply as_touch, as_touch, HA).
  assert (Mx : fm_get x (a_tbl a2) = Some (rep a2 x)).
  { unfold a2. rewrite rep_touch. apply touch_keeps, touch_member. }
  assert (My : fm_get y (a_tbl a2) = Some (rep a2 y)) by apply touch_member.
  destruct HA2 as (Hok & Hs & Hd & Hr).
  pose proof (Hok _ _ Mx) as R1. pose proof (Hok _ _ My) as R2.
  destruct (N.eqb_spec (rep a2 x) (rep a2 y)) as [Heq|Hne]; [repeat split; assumption|].
  set (r1 := rep a2 x) in *. set (r2 := rep a2 y) in *.
  change (map (fun p => (fst p, if snd p =? r2 then r1 else snd p)) (a_tbl a2)) with (merge_tbl r1 r2 (a_tbl a2)).
  split; [apply merge_ok; assumption|]. cbn [a_tbl a_data].
  split. { apply (fm_sorted_keys (a_tbl a2)); [|exact Hs]. unfold merge_tbl. rewrite map_map. reflexivity. }
  split; [apply fm_insert_sorted, fm_remove_sorted, Hd|].
  intros k d. rewrite fm_get_insert, fm_get_remove. unfold merge_tbl.
  rewrite (fm_get_map_snd (fun r0 => if r0 =? r2 then r1 else r0)).
  destruct (N.eqb_spec k r1) as [->|Hk1].
  - intros _. rewrite R1. cbn [option_map]. destruct (N.eqb_spec r1 r2); [congruence|reflexivity].
  - destruct (N.eqb_spec k r2) as [->|Hk2]; [discriminate|]. intros E. rewrite (Hr k d E). cbn [option_map].
    destruct (N.eqb_spec k r2); [congruence|reflexivity].
Qed.

Lemma rep_union a x y u : AS a ->
  rep (a_un a x y) u = if rep a u =? rep a y then rep a x else rep a u.
Proof.
  intros HA. unfold a_union. set (a2 := a_touch iset (a_touch iset a x) y).
  assert (HA2 : AS a2) by (apply as_touch, as_touch, HA).
  assert (E2 : forall w, rep a2 w = rep a w) by (intros w; unfold a2; rewrite !rep_touch; reflexivity).
  assert (My : fm_get y (a_tbl a2) = Some (rep a2 y)) by apply touch_member.
  destruct HA2 as (Hok & Hs & Hd & Hr). pose proof (Hok _ _ My) as R2.
  destruct (N.eqb_spec (rep a2 x) (rep a2 y)) as [Heq|Hne].
  - rewrite E2. rewrite !E2 in Heq. destruct (N.eqb_spec (rep a u) (rep a y)); congruence.
  - change (map (fun p => (fst p, if snd p =? rep a2 y then rep a2 x else snd p)) (a_tbl a2))
      with (merge_tbl (rep a2 x) (rep a2 y) (a_tbl a2)).
    rewrite rep_merge by assumption. rewrite !E2. reflexivity.
Qed.

Lemma dat_union a x y r : AS a ->
  dat (a_un a x y) r =
    if rep a x =? rep a y then dat a r
    else if r =? rep a x then iset_union (dat a (rep a x)) (dat a (rep a y))
    else if r =? rep a y then [] else dat a r.
Proof.
  intros HA. unfold a_union. set (a2 := a_touch iset (a_touch iset a x) y).
  assert (E2 : forall w, rep a2 w = rep a w) by (intros w; unfold a2; rewrite !rep_touch; reflexivity).
  assert (D2 : forall w, dat a2 w = dat a w) by (intros w; unfold a2; rewrite !dat_touch; reflexivity).
  rewrite !E2. destruct (N.eqb_spec (rep a x) (rep a y)) as [Heq|Hne]; [apply D2|].
  unfold dat at 1. cbn [a_data]. rewrite fm_get_insert, fm_get_remove.
  destruct (N.eqb_spec r (rep a x)) as [->|H1].
  - cbn [or_ident]. fold (dat a2 (rep a x)). fold (dat a2 (rep a y)). rewrite !D2. reflexivity.
  - destruct (N.eqb_spec r (rep a y)) as [->|H2]; [reflexivity|]. apply D2.
Qed.

(* ---- sets ---- *)
Lemma a_sets_fold_view roots : forall dt : fmap iset, fm_sorted dt ->
  let '(dt', l) := a_sets_fold iset iset_ident roots dt in
  fm_sorted dt' /\ (forall r, or_ident iset iset_ident (fm_get r dt') = or_ident iset iset_ident (fm_get r dt)) /\
  (forall r d, fm_get r dt' = Some d -> fm_get r dt = Some d \/ In r roots) /\
  l = map (fun k => (k, or_ident iset iset_ident (fm_get k dt))) roots.
Proof.
  induction roots as [|k t IH]; intros dt Hs; cbn [a_sets_fold map].
  - repeat split; auto.
  - destruct (fm_get k dt) as [d0|] eqn:E.
    + specialize (IH dt Hs). destruct (a_sets_fold iset iset_ident t dt) as [dt' l].
      destruct IH as (H1 & H2 & H3 & H4). split; [exact H1|]. split; [exact H2|]. split.
      * intros r d Hr. destruct (H3 r d Hr); [left|right; right]; assumption.
      * rewrite H4. reflexivity.
    + specialize (IH (fm_insert k iset_ident dt) (fm_insert_sorted k iset_ident dt Hs)).
      destruct (a_sets_fold iset iset_ident t (fm_insert k iset_ident dt)) as [dt' l].
      destruct IH as (H1 & H2 & H3 & H4). split; [exact H1|]. split; [|split].
      * intros r. rewrite H2, fm_get_insert. destruct (N.eqb_spec r k) as [->|]; [rewrite E|]; reflexivity.
      * intros r d Hr. destruct (H3 r d Hr) as [Hg|Hg]; [|right; right; exact Hg].
        rewrite fm_get_insert in Hg. destruct (N.eqb_spec r k) as [->|]; [right; left; reflexivity|left; exact Hg].
      * rewrite H4. cbn [or_ident]. f_equal. apply map_ext_in. intros j Hj. rewrite fm_get_insert.
        destruct (N.eqb_spec j k) as [->|]; [rewrite E|]; reflexivity.
Qed.

Definition roots_of (a : astate iset) : list N := root_keys (a_tbl a).

Lemma a_sets_view a : AS a ->
  AS (fst (a_sets a)) /\ a_tbl (fst (a_sets a)) = a_tbl a /\
  (forall r, dat (fst (a_sets a)) r = dat a r) /\
  snd (a_sets a) = map (fun k => (k, dat a k)) (roots_of a).
Proof.
  intros (Hok & Hs & Hd & Hr). unfold a_sets, roots_of.
  pose proof (a_sets_fold_view (root_keys (a_tbl a)) (a_data a) Hd) as H.
  destruct (a_sets_fold iset iset_ident (root_keys (a_tbl a)) (a_data a)) as [dt l].
  destruct H as (H1 & H2 & H3 & H4). cbn [fst snd a_tbl].
  split; [|split; [reflexivity|split; [exact H2|exact H4]]].
  split; [exact Hok|]. split; [exact Hs|]. cbn [a_tbl a_data]. split; [exact H1|].
  intros r d E. destruct (H3 r d E) as [Hg|Hg]; [eapply Hr, Hg|]. apply root_keys_in_tbl; assumption.
Qed.

Lemma rep_sets a u : rep (fst (a_sets a)) u = rep a u.
Proof.
  unfold a_sets. destruct (a_sets_fold iset iset_ident (root_keys (a_tbl a)) (a_data a)) as [dt l]. reflexivity.
Qed.

(* roots: every root listed is its own representative; the representative of a member is listed *)
Lemma roots_of_root a k : AS a -> In k (roots_of a) -> fm_get k (a_tbl a) = Some k.
Proof. intros (_ & Hs & _) H. apply root_keys_in_tbl; assumption. Qed.

Lemma roots_of_rep a k : AS a -> In k (roots_of a) -> rep a k = k.
Proof. intros HA H. unfold a_rep. rewrite (roots_of_root a k HA H). reflexivity. Qed.

Lemma root_in_roots_of a k : fm_get k (a_tbl a) = Some k -> In k (roots_of a).
Proof.
  intros E. unfold roots_of, root_keys. apply in_map_iff. exists (k, k). split; [reflexivity|].
  apply filter_In. split; [apply fm_get_in, E|apply N.eqb_refl].
Qed.

Lemma roots_of_nodup a : AS a -> NoDup (roots_of a).
Proof.
  intros (_ & Hs & _). unfold roots_of, root_keys.
  pose proof (fm_sorted_nodup _ Hs) as Hn. revert Hn. generalize (a_tbl a). intros l.
  induction l as [|[k p] t IH]; cbn [map filter fst snd]; intros Hn; [constructor|].
  inversion Hn as [|? ? Hnot Hn']; subst. destruct (k =? p); cbn [map fst]; [|apply IH, Hn'].
  constructor; [|apply IH, Hn']. intros Hin. apply Hnot. apply in_map_iff in Hin as ([k' p'] & E & Hin). cbn in E. subst k'.
  apply filter_In in Hin as [Hin _]. apply in_map_iff. exists (k, p'). split; [reflexivity|exact Hin].
Qed.

(* ========================================================================================== *)
(* 3. The algorithm over the specification: every forest operation succeeds, so each phase is a
      fold, and a round is a pure plan (the merges) followed by a fold of operations           *)

Definition orders_ok (o : orders) : Prop :=
  (forall l, Permutation (o_vars o l) l) /\
  (forall v l, Permutation (o_init o v l) l) /\
  (forall r k l, Permutation (o_class o r k l) l) /\
  (forall r l, Permutation (o_newv o r l) l) /\
  (forall r l, Permutation (o_eqs o r l) l) /\
  (forall r l, Permutation (o_judg o r l) l).

Definition ins_f (a : astate iset) (v : tyvar) := a_insert a v.
Definition un_f (a : astate iset) (p : tyvar * tyvar) := a_un a (fst p) (snd p).
Definition add_f (a : astate iset) (j : tyvar * te) := a_add a (fst j) [snd j].
Definition set_f (a : astate iset) (rc : tyvar * te) := a_set a (fst rc) [snd rc].
Definition init_f (v : tyvar) (a : astate iset) (e : te) :=
  match e with Equal id => a_un a v id | _ => a_add a v [e] end.

Lemma insert_all_a vars : forall a, insert_all a_forest a vars = Ok (fold_left ins_f vars a).
Proof. induction vars as [|v t IH]; intros a; cbn [insert_all fold_left]; [reflexivity|]. cbn. apply IH. Qed.

Lemma union_all_a es : forall a, union_all a_forest a es = Ok (fold_left un_f es a).
Proof. induction es as [|[l r] t IH]; intros a; cbn [union_all fold_left]; [reflexivity|]. cbn. apply IH. Qed.

Lemma add_all_a js : forall a, add_all a_forest a js = Ok (fold_left add_f js a).
Proof. induction js as [|[v e] t IH]; intros a; cbn [add_all fold_left]; [reflexivity|]. cbn. apply IH. Qed.

Lemma init_exprs_a v l : forall a, init_exprs a_forest a v l = Ok (fold_left (init_f v) l a).
Proof.
  induction l as [|e t IH]; intros a; cbn [init_exprs fold_left]; [reflexivity|].
  destruct e; cbn; apply IH.
Qed.

Definition init_var_f (o : orders) (st : tstate) (a : astate iset) (v : tyvar) :=
  fold_left (init_f v) (o_init o v (ts_get st v)) a.

Lemma init_vars_a o st vars : forall a, init_vars a_forest o st a vars = Ok (fold_left (init_var_f o st) vars a).
Proof.
  induction vars as [|v t IH]; intros a; cbn [init_vars fold_left]; [reflexivity|].
  rewrite init_exprs_a. cbn. apply IH.
Qed.

Definition a_init (o : orders) (st : tstate) : astate iset :=
  let vars := o_vars o (ts_vars st) in
  fold_left (init_var_f o st) vars (fold_left ins_f vars (a_new iset)).

Lemma init_forest_a o st : init_forest a_forest o st = Ok (a_init o st).
Proof. unfold init_forest, a_init. rewrite insert_all_a. cbn. apply init_vars_a. Qed.

(* the merges of one round, without the forest: the (root, resolved expression) pairs to be stored and
   what was accumulated *)
Fixpoint plan_classes (o : orders) (rnd : nat) (sets : list (tyvar * iset)) (acc : racc)
  : ures (list (tyvar * te) * racc) :=
  match sets with
  | [] => Ok ([], acc)
  | (root, infs) :: t =>
      match infs with
      | [] => plan_classes o rnd t acc
      | _ =>
          match o_class o rnd root infs with
          | [] => Panic site_expect_first
          | cur :: rest =>
              do ca <- fold_class cur rest root acc;
              do r <- plan_classes o rnd t (snd ca);
              Ok ((root, fst ca) :: fst r, snd r)
          end
      end
  end.

Lemma classes_loop_a o rnd sets : forall a acc,
  classes_loop a_forest o rnd a sets acc =
  (do p <- plan_classes o rnd sets acc; Ok (fold_left set_f (fst p) a, snd p)).
Proof.
  induction sets as [|[root infs] t IH]; intros a acc; cbn [classes_loop plan_classes]; [reflexivity|].
  destruct infs as [|i0 infs]; [apply IH|].
  destruct (o_class o rnd root (i0 :: infs)) as [|cur rest]; [reflexivity|].
  destruct (fold_class cur rest root acc) as [[c acc']| |]; cbn [ubind fst snd]; try reflexivity.
  cbn [f_set a_forest ubind]. rewrite IH.
  destruct (plan_classes o rnd t acc') as [[l acc'']| |]; reflexivity.
Qed.

Definition acc0 (nxt : N) : racc := mk_racc [] [] [] nxt false.

(* the state a round leaves, given its plan *)
Definition a_apply (o : orders) (rnd : nat) (a1 : astate iset) (settled : list (tyvar * te)) (acc : racc) : astate iset :=
  fold_left add_f (o_judg o rnd (dedup judg_eqb (r_judg acc)))
    (fold_left un_f (o_eqs o rnd (dedup pair_eqb (r_eqs acc)))
       (fold_left ins_f (o_newv o rnd (dedup N.eqb (r_newv acc)))
          (fold_left set_f settled a1))).

Lemma round_a o rnd a nxt :
  round a_forest o rnd a nxt =
  (do p <- plan_classes o rnd (snd (a_sets a)) (acc0 nxt);
   Ok (a_apply o rnd (fst (a_sets a)) (fst p) (snd p), r_next (snd p), r_prog (snd p))).
Proof.
  unfold round. cbn [f_sets a_forest ubind fst snd]. rewrite classes_loop_a. fold (acc0 nxt).
  destruct (plan_classes o rnd (snd (a_sets a)) (acc0 nxt)) as [[l acc]| |]; cbn [ubind fst snd]; try reflexivity.
  rewrite insert_all_a. cbn [ubind]. rewrite union_all_a. cbn [ubind]. rewrite add_all_a. reflexivity.
Qed.

(* ---- folds of operations keep the state well formed; their effect on classes and data ---- *)
Lemma fold_as {X} (f : astate iset -> X -> astate iset) (l : list X) :
  (forall a x, AS a -> AS (f a x)) -> forall a, AS a -> AS (fold_left f l a).
Proof. intros Hf. induction l as [|x t IH]; intros a HA; cbn [fold_left]; [exact HA|]. apply IH, Hf, HA. Qed.

Lemma as_ins_f a v : AS a -> AS (ins_f a v). Proof. apply as_insert. Qed.
Lemma as_un_f a p : AS a -> AS (un_f a p). Proof. apply as_union. Qed.
Lemma as_add_f a j : AS a -> AS (add_f a j). Proof. apply as_add. Qed.
Lemma as_set_f a rc : AS a -> AS (set_f a rc). Proof. apply as_set. Qed.
Lemma as_init_f v a e : AS a -> AS (init_f v a e).
Proof. intros HA. destruct e; first [apply as_union, HA | apply as_add, HA]. Qed.

Lemma as_init o st : AS (a_init o st).
Proof.
  unfold a_init. apply fold_as; [|apply fold_as; [apply as_ins_f|apply as_new]].
  intros a v HA. unfold init_var_f. apply fold_as; [apply as_init_f|exact HA].
Qed.

Lemma as_apply o rnd a1 settled acc : AS a1 -> AS (a_apply o rnd a1 settled acc).
Proof.
  intros HA. unfold a_apply.
  apply fold_as; [apply as_add_f|]. apply fold_as; [apply as_un_f|]. apply fold_as; [apply as_ins_f|].
  apply fold_as; [apply as_set_f|exact HA].
Qed.

Lemma round_as o rnd a nxt a' n' p : AS a -> round a_forest o rnd a nxt = Ok (a', n', p) -> AS a'.
Proof.
  intros HA. rewrite round_a. destruct (plan_classes o rnd (snd (a_sets a)) (acc0 nxt)) as [[l acc]| |]; cbn [ubind]; try discriminate.
  intros [= <- _ _]. apply as_apply. apply (a_sets_view a HA).
Qed.

(* ========================================================================================== *)
(* 4. `merge` never returns an equality, nor does it emit one as a judgement                  *)

Ltac split_ifs :=
  repeat match goal with
         | |- context [if ?c then _ else _] => destruct c
         end.

Definition ne (e : te) : Prop := is_equal e = false.
Definition noeq_ok (r : mresult) : Prop :=
  match r with
  | Ok m => ne (expr m) /\ Forall (fun j => ne (snd j)) (judg m)
  | _ => True
  end.

Lemma noeq_expression e n : ne e -> noeq_ok (m_expression e n).
Proof. intros H. split; [exact H|constructor]. Qed.

Lemma ne_conflict l r rs : ne (conflict l r rs).
Proof. reflexivity. Qed.

Lemma mpa_noeq l r ts n : noeq_ok (merge_packed_array l r ts n).
Proof.
  unfold merge_packed_array. destruct ts as [|t1 [|t2 [|t3 [|t4 ts]]]];
    try (apply noeq_expression; reflexivity).
  - split_ifs; apply noeq_expression; reflexivity.
  - destruct (sort_by le_offset [t1; t2]) as [|x [|y ?]]; try exact I. split_ifs; apply noeq_expression; reflexivity.
  - destruct (sort_by le_offset [t1; t2; t3]) as [|x [|y [|z ?]]]; try exact I. split_ifs; apply noeq_expression; reflexivity.
Qed.

Lemma mpw_noeq l r ts w u p n : ne l -> ne r -> noeq_ok (merge_packed_word l r ts w u p n).
Proof.
  intros Hl Hr. unfold merge_packed_word. destruct ts as [|sp ts]; [apply noeq_expression, Hr|].
  destruct u, w; split_ifs; try (apply noeq_expression; first [exact Hl | reflexivity]);
    cbn [noeq_ok m_judgements expr judg]; (split; [exact Hl|]); repeat constructor; try exact Hr.
Qed.

Lemma process_spans_packed spans input :
  Forall (fun j : tyvar * te => is_packed (snd j) = true) (snd (process_spans spans input)).
Proof.
  unfold process_spans. generalize (sort_by le_offset_size input). intros l.
  assert (G : forall acc : list (tyvar * tyvar) * list (tyvar * te),
             Forall (fun j => is_packed (snd j) = true) (snd acc) ->
             Forall (fun j : tyvar * te => is_packed (snd j) = true)
               (snd (fold_left
                  (fun acc s =>
                     let corr := take_while (fun '(_, _, e) => e <=? s_off s + s_sz s)
                                   (skip_while (fun '(_, st, _) => st <? s_off s) spans) in
                     match corr with
                     | [(t, _, _)] => (fst acc ++ [(s_typ s, t)], snd acc)
                     | _ => (fst acc,
                             snd acc ++ [(s_typ s,
                                          packed_of (map (fun '(t, st, e) => mk_span t (st - s_off s) (e - st)) corr))])
                     end) l acc))).
  { induction l as [|s t IH]; intros acc Hacc; cbn [fold_left]; [exact Hacc|]. apply IH.
    destruct (take_while _ _) as [|[[t0 st0] e0] [|c2 cs]]; cbn [snd]; try exact Hacc;
      apply Forall_app; (split; [exact Hacc|repeat constructor]). }
  apply G. constructor.
Qed.

Lemma packed_ne j : is_packed j = true -> ne j.
Proof. destruct j; try discriminate; reflexivity. Qed.

Lemma mpp_noeq tl sl tr sr n : noeq_ok (merge_packed_packed tl sl tr sr n).
Proof.
  unfold merge_packed_packed. destruct tl as [|t1 tl], tr as [|t2 tr]; try (apply noeq_expression; reflexivity).
  destruct (existsb _ _); [exact I|]. destruct (sortN _) as [|b0 rest]; [exact I|].
  destruct (mk_spans rest b0 n) as [spans n'].
  pose proof (process_spans_packed spans (t1 :: tl)) as H1. pose proof (process_spans_packed spans (t2 :: tr)) as H2.
  destruct (process_spans spans (t1 :: tl)) as [e1 j1]. destruct (process_spans spans (t2 :: tr)) as [e2 j2].
  cbn [noeq_ok expr judg snd] in *. split; [reflexivity|]. apply Forall_app. split.
  - eapply Forall_impl; [|exact H1]. intros j Hj. apply packed_ne, Hj.
  - eapply Forall_impl; [|exact H2]. intros j Hj. apply packed_ne, Hj.
Qed.

Theorem merge_no_equal a b p n : ne a -> ne b -> noeq_ok (merge a b p n).
Proof.
  intros Ha Hb. unfold merge, merge_body. destruct (te_eqb a b); [apply noeq_expression, Ha|].
  destruct a, b; try discriminate Ha; try discriminate Hb; simpl;
    try (apply noeq_expression; first [reflexivity | exact Ha | exact Hb]);
    try apply mpa_noeq; try (apply mpw_noeq; assumption); try apply mpp_noeq;
    split_ifs; try (apply noeq_expression; first [reflexivity | exact Ha | exact Hb]);
    try apply mpa_noeq; try (apply mpw_noeq; assumption); try apply mpp_noeq.
  all: try (cbn [noeq_ok m_equalities expr judg]; split; [first [reflexivity | exact Ha | exact Hb]|constructor]).
  all: try (destruct (width_merge _ _); [destruct (wuse_merge _ _)|]; apply noeq_expression; reflexivity).
Qed.

(* ========================================================================================== *)
(* 5. Invariants of the data of all classes                                                    *)

Lemma te_mem_in e l : te_mem e l = true <-> In e l.
Proof.
  unfold te_mem. rewrite existsb_exists. split.
  - intros (x & Hx & E). apply te_eqb_eq in E. subst x. exact Hx.
  - intros H. exists e. split; [exact H|apply te_eqb_refl].
Qed.

Lemma iset_add_in l e x : In x (iset_add l e) <-> In x l \/ x = e.
Proof.
  unfold iset_add. destruct (te_mem e l) eqn:E.
  - apply te_mem_in in E. split; [auto|]. intros [H| ->]; assumption.
  - rewrite in_app_iff. cbn [In]. split; [intros [H|[<-|[]]]; auto|intros [H| ->]; auto].
Qed.

Lemma iset_union_in b : forall a x, In x (iset_union a b) <-> In x a \/ In x b.
Proof.
  unfold iset_union. induction b as [|e t IH]; intros a x; cbn [fold_left In]; [tauto|].
  rewrite IH, iset_add_in. split; [intros [[H| ->]|H]; auto|intros [H|[<-|H]]; auto].
Qed.

Definition DP (P : te -> Prop) (a : astate iset) : Prop := forall r e, In e (dat a r) -> P e.
Definition ASP (P : te -> Prop) (a : astate iset) : Prop := AS a /\ DP P a.

Lemma fold_inv {X} (I : astate iset -> Prop) (f : astate iset -> X -> astate iset) (l : list X) :
  (forall a x, In x l -> I a -> I (f a x)) -> forall a, I a -> I (fold_left f l a).
Proof.
  induction l as [|x t IH]; intros Hf a HI; cbn [fold_left]; [exact HI|].
  apply IH; [intros b y Hy; apply Hf; right; exact Hy|apply Hf; [left; reflexivity|exact HI]].
Qed.

Section DataPred.
  Variable P : te -> Prop.

  Lemma asp_ins a v : ASP P a -> ASP P (ins_f a v).
  Proof. intros [HA HD]. split; [apply as_insert, HA|]. intros r e. unfold ins_f. rewrite dat_insert. apply HD. Qed.

  Lemma asp_set a rc : P (snd rc) -> ASP P a -> ASP P (set_f a rc).
  Proof.
    intros Hc [HA HD]. split; [apply as_set, HA|]. intros r e. unfold set_f. rewrite dat_set.
    destruct (r =? rep a (fst rc)); [|apply HD]. intros [<-|Hf]; [exact Hc|destruct Hf].
  Qed.

  Lemma asp_add a j : P (snd j) -> ASP P a -> ASP P (add_f a j).
  Proof.
    intros Hc [HA HD]. split; [apply as_add, HA|]. intros r e. unfold add_f. rewrite dat_add.
    destruct (r =? rep a (fst j)); [|apply HD]. rewrite iset_union_in. intros [H|[<-|Hf]]; [eapply HD, H|exact Hc|destruct Hf].
  Qed.

  Lemma asp_un a p : ASP P a -> ASP P (un_f a p).
  Proof.
    intros [HA HD]. split; [apply as_union, HA|]. intros r e. unfold un_f. rewrite (dat_union _ _ _ _ HA).
    destruct (rep a (fst p) =? rep a (snd p)); [apply HD|].
    destruct (r =? rep a (fst p)); [rewrite iset_union_in; intros [H|H]; eapply HD, H|].
    destruct (r =? rep a (snd p)); [intros Hf; destruct Hf|apply HD].
  Qed.

  Lemma asp_sets a : ASP P a -> ASP P (fst (a_sets a)).
  Proof.
    intros [HA HD]. destruct (a_sets_view a HA) as (H1 & _ & H3 & _). split; [exact H1|].
    intros r e. rewrite H3. apply HD.
  Qed.

  Lemma asp_new : ASP P (a_new iset).
  Proof. split; [apply as_new|]. intros r e Hf. destruct Hf. Qed.

  (* initial evidence *)
  Lemma asp_init o st : orders_ok o ->
    (forall v e, In e (ts_get st v) -> ne e -> P e) -> ASP P (a_init o st).
  Proof.
    intros Ho Hst. unfold a_init.
    apply fold_inv; [|apply fold_inv; [intros a v _; apply asp_ins|apply asp_new]].
    intros a v _ Ha. unfold init_var_f. apply fold_inv; [|exact Ha].
    intros b e He Hb. assert (He' : In e (ts_get st v)).
    { destruct Ho as (_ & Hi & _). eapply Permutation_in; [apply Hi|exact He]. }
    destruct e; cbn [init_f];
      first [ exact (asp_un b (v, _) Hb)
            | match goal with |- ASP P (a_add b v [?e0]) =>
                refine (asp_add b (v, e0) _ Hb); apply (Hst v); [exact He' | reflexivity] end ].
  Qed.

  (* merge keeps P: on its result and on the judgements it emits *)
  Definition merge_closed : Prop :=
    forall a b p n m, P a -> P b -> merge a b p n = Ok m -> P (expr m) /\ Forall (fun j => P (snd j)) (judg m).
  Hypothesis Hmc : merge_closed.

  Definition judg_P (acc : racc) : Prop := Forall (fun j : tyvar * te => P (snd j)) (r_judg acc).

  Lemma fold_class_dp rest : forall cur root acc c acc',
    P cur -> Forall P rest -> judg_P acc -> fold_class cur rest root acc = Ok (c, acc') -> P c /\ judg_P acc'.
  Proof.
    induction rest as [|e t IH]; intros cur root acc c acc' Hc Hr Hj; cbn [fold_class].
    - intros [= <- <-]. auto.
    - inversion Hr as [|? ? He Ht]; subst. destruct (merge cur e root (r_next acc)) as [m| |] eqn:Em; try discriminate.
      destruct (Hmc _ _ _ _ _ Hc He Em) as [H1 H2]. apply IH; [exact H1|exact Ht|].
      unfold judg_P. cbn [r_judg]. apply Forall_app. split; assumption.
  Qed.

  Lemma plan_dp o rnd : orders_ok o -> forall sets acc settled acc',
    (forall root infs, In (root, infs) sets -> Forall P infs) -> judg_P acc ->
    plan_classes o rnd sets acc = Ok (settled, acc') ->
    Forall (fun rc => P (snd rc)) settled /\ judg_P acc'.
  Proof.
    intros Ho. induction sets as [|[root infs] t IH]; intros acc settled acc' Hs Hj; cbn [plan_classes].
    - intros [= <- <-]. auto.
    - assert (Ht : forall r i, In (r, i) t -> Forall P i) by (intros r i Hi; apply (Hs r i); right; exact Hi).
      destruct infs as [|i0 infs]; [apply IH; assumption|].
      assert (Hperm : Permutation (o_class o rnd root (i0 :: infs)) (i0 :: infs)) by apply Ho.
      assert (Hall : Forall P (o_class o rnd root (i0 :: infs))).
      { eapply Permutation_Forall; [apply Permutation_sym, Hperm|]. apply (Hs root). left. reflexivity. }
      destruct (o_class o rnd root (i0 :: infs)) as [|cur rest]; [discriminate|].
      inversion Hall as [|? ? Hc Hr]; subst.
      destruct (fold_class cur rest root acc) as [[c acc1]| |] eqn:Ef; cbn [ubind fst snd]; try discriminate.
      destruct (fold_class_dp _ _ _ _ _ _ Hc Hr Hj Ef) as [Pc Hj1].
      destruct (plan_classes o rnd t acc1) as [[l acc2]| |] eqn:Ep; cbn [ubind fst snd]; try discriminate.
      intros [= <- <-]. destruct (IH _ _ _ Ht Hj1 Ep) as [H1 H2]. split; [constructor; assumption|exact H2].
  Qed.

  Lemma dedup_in {A} (eqb : A -> A -> bool) l x : In x (dedup eqb l) -> In x l.
  Proof.
    induction l as [|y t IH]; cbn [dedup]; [auto|]. destruct (existsb (eqb y) t); [right; auto|].
    intros [<-|H]; [left; reflexivity|right; auto].
  Qed.

  Lemma round_dp o rnd a nxt a' n' p : orders_ok o -> ASP P a ->
    round a_forest o rnd a nxt = Ok (a', n', p) -> ASP P a'.
  Proof.
    intros Ho HP. rewrite round_a.
    destruct (plan_classes o rnd (snd (a_sets a)) (acc0 nxt)) as [[settled acc]| |] eqn:Ep; cbn [ubind fst snd]; try discriminate.
    intros [= <- _ _]. pose proof HP as [HA HD].
    destruct (a_sets_view a HA) as (_ & _ & _ & Hl).
    assert (Hj0 : judg_P (acc0 nxt)) by constructor.
    assert (Hsets : forall root infs, In (root, infs) (snd (a_sets a)) -> Forall P infs).
    { intros root infs Hin. rewrite Hl in Hin. apply in_map_iff in Hin as (k & [= <- <-] & _).
      apply Forall_forall. intros e He. eapply HD, He. }
    destruct (plan_dp o rnd Ho _ _ _ _ Hsets Hj0 Ep) as [Hs Hj].
    unfold a_apply.
    apply fold_inv.
    { intros b j Hj' Hb. apply asp_add; [|exact Hb].
      assert (Hin : In j (r_judg acc)).
      { eapply dedup_in. eapply Permutation_in; [apply Ho|exact Hj']. }
      unfold judg_P in Hj. rewrite Forall_forall in Hj. apply Hj, Hin. }
    apply fold_inv; [intros b q _; apply asp_un|].
    apply fold_inv; [intros b q _; apply asp_ins|].
    apply fold_inv; [|apply asp_sets, HP].
    intros b rc Hrc Hb. apply asp_set; [|exact Hb]. rewrite Forall_forall in Hs. apply Hs, Hrc.
  Qed.

  Lemma loop_dp o fuel : orders_ok o -> forall rnd a nxt a' n', ASP P a ->
    unify_loop a_forest o fuel rnd a nxt = Ok (a', n') -> ASP P a'.
  Proof.
    intros Ho. induction fuel as [|f IH]; intros rnd a nxt a' n' HP; cbn [unify_loop]; [discriminate|].
    destruct (round a_forest o rnd a nxt) as [[[a1 n1] p1]| |] eqn:Er; cbn [ubind]; try discriminate.
    pose proof (round_dp _ _ _ _ _ _ _ Ho HP Er) as HP1.
    destruct p1; [apply IH, HP1|]. intros [= <- _]. exact HP1.
  Qed.

  Theorem a_unify_dp o fuel st a n : orders_ok o ->
    (forall v e, In e (ts_get st v) -> ne e -> P e) -> a_unify fuel o st = Ok (a, n) -> ASP P a.
  Proof.
    intros Ho Hst. unfold a_unify, unify_gen. rewrite init_forest_a. cbn [ubind].
    apply loop_dp; [exact Ho|apply asp_init; assumption].
  Qed.
End DataPred.

Lemma ne_merge_closed : merge_closed ne.
Proof.
  intros a b p n m Ha Hb E. pose proof (merge_no_equal a b p n Ha Hb) as H. rewrite E in H. exact H.
Qed.

(* ========================================================================================== *)
(* 6. What a round's plan looks like, and the state after the `set_data` phase                *)

Lemma fold_class_prog_true rest : forall cur root acc c acc',
  fold_class cur rest root acc = Ok (c, acc') -> r_prog acc = true -> r_prog acc' = true.
Proof.
  induction rest as [|e t IH]; intros cur root acc c acc'; cbn [fold_class].
  - intros [= _ <-] H. exact H.
  - destruct (merge cur e root (r_next acc)) as [m| |]; try discriminate. intros E _. eapply IH; [exact E|reflexivity].
Qed.

Lemma fold_class_noprog rest cur root acc c acc' :
  fold_class cur rest root acc = Ok (c, acc') -> r_prog acc' = false -> rest = [] /\ c = cur /\ acc' = acc.
Proof.
  destruct rest as [|e t]; cbn [fold_class].
  - intros [= <- <-] _. auto.
  - destruct (merge cur e root (r_next acc)) as [m| |]; try discriminate. intros E H.
    rewrite (fold_class_prog_true _ _ _ _ _ _ E eq_refl) in H. discriminate.
Qed.

Definition nonempty (l : iset) : bool := match l with [] => false | _ => true end.

Lemma plan_prog_true o rnd sets : forall acc settled acc',
  plan_classes o rnd sets acc = Ok (settled, acc') -> r_prog acc = true -> r_prog acc' = true.
Proof.
  induction sets as [|[root infs] t IH]; intros acc settled acc'; cbn [plan_classes].
  - intros [= _ <-] H. exact H.
  - destruct infs as [|i0 infs]; [apply IH|].
    destruct (o_class o rnd root (i0 :: infs)) as [|cur rest]; [discriminate|].
    destruct (fold_class cur rest root acc) as [[c acc1]| |] eqn:Ef; cbn [ubind fst snd]; try discriminate.
    destruct (plan_classes o rnd t acc1) as [[l acc2]| |] eqn:Ep; cbn [ubind fst snd]; try discriminate.
    intros [= _ <-] H. eapply IH; [exact Ep|]. eapply fold_class_prog_true; eassumption.
Qed.

(* which roots are settled, and with what: the result of folding the class's data in the oracle's order *)
Lemma plan_settled o rnd sets : forall acc settled acc',
  plan_classes o rnd sets acc = Ok (settled, acc') ->
  map fst settled = map fst (filter (fun p => nonempty (snd p)) sets) /\
  (forall root c, In (root, c) settled ->
     exists infs cur rest acc1 acc2, In (root, infs) sets /\ o_class o rnd root infs = cur :: rest /\
       fold_class cur rest root acc1 = Ok (c, acc2)).
Proof.
  induction sets as [|[root infs] t IH]; intros acc settled acc'; cbn [plan_classes].
  - intros [= <- _]. split; [reflexivity|]. intros r c [].
  - destruct infs as [|i0 infs]; cbn [filter snd nonempty].
    + intros E. destruct (IH _ _ _ E) as [H1 H2]. split; [exact H1|].
      intros r c Hin. destruct (H2 r c Hin) as (i & cu & re & a1 & a2 & Hi & Ho & Hf).
      exists i, cu, re, a1, a2. split; [right; exact Hi|auto].
    + destruct (o_class o rnd root (i0 :: infs)) as [|cur rest] eqn:Eo; [discriminate|].
      destruct (fold_class cur rest root acc) as [[c acc1]| |] eqn:Ef; cbn [ubind fst snd]; try discriminate.
      destruct (plan_classes o rnd t acc1) as [[l acc2]| |] eqn:Ep; cbn [ubind fst snd]; try discriminate.
      intros [= <- <-]. destruct (IH _ _ _ Ep) as [H1 H2]. split; [cbn [map fst]; rewrite H1; reflexivity|].
      intros r c0 [[= <- <-]|Hin].
      * exists (i0 :: infs), cur, rest, acc, acc1. split; [left; reflexivity|auto].
      * destruct (H2 r c0 Hin) as (i & cu & re & a1 & a2 & Hi & Ho & Hf).
        exists i, cu, re, a1, a2. split; [right; exact Hi|auto].
Qed.

(* a round that reports no progress has merged nothing *)
Lemma plan_noprog o rnd sets : forall acc settled acc',
  plan_classes o rnd sets acc = Ok (settled, acc') -> r_prog acc' = false ->
  acc' = acc /\ forall root c, In (root, c) settled -> exists infs, In (root, infs) sets /\ o_class o rnd root infs = [c].
Proof.
  induction sets as [|[root infs] t IH]; intros acc settled acc'; cbn [plan_classes].
  - intros [= <- <-] _. split; [reflexivity|]. intros r c [].
  - destruct infs as [|i0 infs].
    + intros E Hp. destruct (IH _ _ _ E Hp) as [H1 H2]. split; [exact H1|].
      intros r c Hin. destruct (H2 r c Hin) as (i & Hi & Ho). exists i. split; [right; exact Hi|exact Ho].
    + destruct (o_class o rnd root (i0 :: infs)) as [|cur rest] eqn:Eo; [discriminate|].
      destruct (fold_class cur rest root acc) as [[c acc1]| |] eqn:Ef; cbn [ubind fst snd]; try discriminate.
      destruct (plan_classes o rnd t acc1) as [[l acc2]| |] eqn:Ep; cbn [ubind fst snd]; try discriminate.
      intros [= <- <-] Hp. destruct (IH _ _ _ Ep Hp) as [H1 H2]. subst acc2.
      pose proof Hp as Hp1.
      destruct (fold_class_noprog _ _ _ _ _ _ Ef Hp1) as (-> & -> & ->). split; [reflexivity|].
      intros r c0 [[= <- <-]|Hin].
      * exists (i0 :: infs). split; [left; reflexivity|exact Eo].
      * destruct (H2 r c0 Hin) as (i & Hi & Ho). exists i. split; [right; exact Hi|exact Ho].
Qed.

Definition lookup (r : tyvar) (settled : list (tyvar * te)) : option (tyvar * te) :=
  find (fun rc => fst rc =? r) settled.

(* storing the resolved expressions at distinct roots *)
Lemma settle_view settled : forall a, AS a -> NoDup (map fst settled) ->
  (forall rc, In rc settled -> rep a (fst rc) = fst rc) ->
  let a2 := fold_left set_f settled a in
  AS a2 /\ (forall u, rep a2 u = rep a u) /\
  (forall r, dat a2 r = match lookup r settled with Some rc => [snd rc] | None => dat a r end).
Proof.
  induction settled as [|[k c] t IH]; intros a HA Hnd Hroots; cbn [fold_left].
  - cbv zeta. split; [exact HA|]. split; reflexivity.
  - cbv zeta. inversion Hnd as [|? ? Hnot Hnd']; subst.
    assert (Hk : rep a k = k) by (apply (Hroots (k, c)); left; reflexivity).
    destruct (IH (set_f a (k, c)) (as_set_f a (k, c) HA) Hnd') as (H1 & H2 & H3).
    { intros rc Hrc. unfold set_f. rewrite rep_set. apply Hroots. right. exact Hrc. }
    split; [exact H1|]. split.
    + intros u. rewrite H2. unfold set_f. apply rep_set.
    + intros r. rewrite H3. unfold lookup. cbn [find fst]. unfold set_f at 1. rewrite dat_set. cbn [fst snd]. rewrite Hk.
      destruct (N.eqb_spec k r) as [->|Hne].
      * destruct (find (fun rc => fst rc =? r) t) as [rc|] eqn:Ef; [|rewrite N.eqb_refl; reflexivity].
        exfalso. apply Hnot. apply find_some in Ef as [Hin Heq]. apply N.eqb_eq in Heq. subst r.
        apply in_map_iff. exists rc. split; [reflexivity|exact Hin].
      * destruct (N.eqb_spec r k); [congruence|]. reflexivity.
Qed.

Lemma filter_map_fst_nodup {A B} (f : A * B -> bool) (l : list (A * B)) : NoDup (map fst l) -> NoDup (map fst (filter f l)).
Proof.
  induction l as [|x t IH]; cbn [map filter]; intros H; [constructor|]. inversion H as [|? ? Hn Ht]; subst.
  destruct (f x); cbn [map]; [|apply IH, Ht]. constructor; [|apply IH, Ht].
  intros Hin. apply Hn. apply in_map_iff in Hin as (y & E & Hy). apply filter_In in Hy as [Hy _].
  apply in_map_iff. exists y. auto.
Qed.

(* the state after the `set_data` phase of a round: same classes; every class holds at most one
   expression -- its resolved expression if it had data, nothing otherwise *)
Lemma after_settle o rnd a acc settled acc' : AS a ->
  plan_classes o rnd (snd (a_sets a)) acc = Ok (settled, acc') ->
  let a2 := fold_left set_f settled (fst (a_sets a)) in
  AS a2 /\ (forall u, rep a2 u = rep a u) /\
  (forall r, dat a2 r = match lookup r settled with Some rc => [snd rc] | None => dat a r end) /\
  (forall r, lookup r settled = None -> dat a r = []) /\
  (forall r, (length (dat a2 r) <= 1)%nat).
Proof.
  intros HA Ep. destruct (a_sets_view a HA) as (HA1 & Ht & Hd & Hl).
  destruct (plan_settled _ _ _ _ _ _ Ep) as [Hk _].
  assert (Hkeys : map fst (snd (a_sets a)) = roots_of a) by (rewrite Hl, map_map; cbn [fst]; apply map_id).
  assert (Hnd : NoDup (map fst settled)).
  { rewrite Hk. apply filter_map_fst_nodup. rewrite Hkeys. apply roots_of_nodup, HA. }
  assert (Hin : forall rc, In rc settled -> In (fst rc) (roots_of a)).
  { intros rc Hrc. rewrite <- Hkeys. assert (H : In (fst rc) (map fst settled)) by (apply in_map, Hrc).
    rewrite Hk in H. apply in_map_iff in H as (p & E & Hp). apply filter_In in Hp as [Hp _].
    rewrite <- E. apply in_map, Hp. }
  destruct (settle_view settled (fst (a_sets a)) HA1 Hnd) as (H1 & H2 & H3).
  { intros rc Hrc. rewrite rep_sets. apply roots_of_rep; [exact HA|apply Hin, Hrc]. }
  assert (Hnone : forall r, lookup r settled = None -> dat a r = []).
  { intros r Hr. destruct (dat a r) as [|e0 d0] eqn:Ed; [reflexivity|]. exfalso.
    assert (Hroot : In r (roots_of a)).
    { apply root_in_roots_of. unfold dat in Ed. destruct (fm_get r (a_data a)) as [d|] eqn:Eg; [|discriminate].
      destruct HA as (_ & _ & _ & Hr4). eapply Hr4, Eg. }
    assert (Hs : In r (map fst settled)).
    { rewrite Hk. apply in_map_iff. exists (r, dat a r). split; [reflexivity|]. apply filter_In. split.
      - rewrite Hl. apply in_map_iff. exists r. auto.
      - cbn [snd]. rewrite Ed. reflexivity. }
    apply in_map_iff in Hs as (rc & E & Hrc). unfold lookup in Hr.
    apply (find_none _ _ Hr) in Hrc. apply N.eqb_neq in Hrc. apply Hrc. exact E. }
  cbv zeta. split; [exact H1|]. split; [intros u; rewrite H2; apply rep_sets|].
  split; [intros r; rewrite H3, Hd; reflexivity|]. split; [exact Hnone|].
  intros r. rewrite H3, Hd. destruct (lookup r settled) eqn:El; [cbn; lia|]. rewrite (Hnone r El). cbn. lia.
Qed.

(* ========================================================================================== *)
(* 7. C14: the postcondition                                                                  *)

Lemma o_nil {A} (f : list A -> list A) : Permutation (f []) [] -> f [] = [].
Proof. intros H. apply Permutation_nil. apply Permutation_sym, H. Qed.

(* the last round: nothing was merged, so nothing changes and every class is small *)
Lemma round_final o rnd a nxt a' n' : orders_ok o -> AS a ->
  round a_forest o rnd a nxt = Ok (a', n', false) ->
  AS a' /\ (forall u, rep a' u = rep a u) /\ (forall r, dat a' r = dat a r) /\
  (forall r, (length (dat a' r) <= 1)%nat) /\ n' = nxt.
Proof.
  intros Ho HA. rewrite round_a.
  destruct (plan_classes o rnd (snd (a_sets a)) (acc0 nxt)) as [[settled acc]| |] eqn:Ep; cbn [ubind fst snd]; try discriminate.
  intros [= <- <- Hp]. destruct (plan_noprog _ _ _ _ _ _ Ep Hp) as [-> Hs].
  destruct Ho as (_ & _ & Hoc & Hon & Hoe & Hoj).
  unfold a_apply, acc0. cbn [r_judg r_eqs r_newv r_next dedup].
  set (l1 := o_judg o rnd _). set (l2 := o_eqs o rnd _). set (l3 := o_newv o rnd _).
  assert (E1 : l1 = []) by (apply o_nil, Hoj). assert (E2 : l2 = []) by (apply o_nil, Hoe).
  assert (E3 : l3 = []) by (apply o_nil, Hon). rewrite E1, E2, E3.
  cbn [fold_left]. destruct (after_settle _ _ _ _ _ _ HA Ep) as (H1 & H2 & H3 & H4 & H5).
  split; [exact H1|]. split; [exact H2|]. split; [|split; [exact H5|reflexivity]].
  intros r. rewrite H3. destruct (lookup r settled) as [[k c]|] eqn:El; [|reflexivity].
  unfold lookup in El. apply find_some in El as [Hin Hk]. cbn [fst] in Hk. apply N.eqb_eq in Hk. subst k.
  destruct (Hs r c Hin) as (infs & Hi & Hoc1).
  destruct (a_sets_view a HA) as (_ & _ & _ & Hl). rewrite Hl in Hi.
  apply in_map_iff in Hi as (k & [= -> <-] & _).
  pose proof (Hoc rnd r (dat a r)) as Hperm. rewrite Hoc1 in Hperm.
  symmetry. apply Permutation_length_1_inv, Hperm.
Qed.

Lemma loop_post o fuel : orders_ok o -> forall rnd a nxt a' n', AS a ->
  unify_loop a_forest o fuel rnd a nxt = Ok (a', n') -> AS a' /\ forall r, (length (dat a' r) <= 1)%nat.
Proof.
  intros Ho. induction fuel as [|f IH]; intros rnd a nxt a' n' HA; cbn [unify_loop]; [discriminate|].
  destruct (round a_forest o rnd a nxt) as [[[a1 n1] p1]| |] eqn:Er; cbn [ubind]; try discriminate.
  destruct p1.
  - apply IH. eapply round_as; eassumption.
  - intros [= <- <-]. destruct (round_final _ _ _ _ _ _ Ho HA Er) as (H1 & _ & _ & H4 & _). auto.
Qed.

Theorem a_unify_post o fuel st a n : orders_ok o -> a_unify fuel o st = Ok (a, n) ->
  AS a /\ forall r, (length (dat a r) <= 1)%nat /\ (forall e, In e (dat a r) -> ne e).
Proof.
  intros Ho E. pose proof (a_unify_dp ne ne_merge_closed o fuel st a n Ho (fun v e _ H => H) E) as [HA HD].
  unfold a_unify, unify_gen in E. rewrite init_forest_a in E. cbn [ubind] in E.
  destruct (loop_post o fuel Ho _ _ _ _ _ (as_init o st) E) as [_ H]. split; [exact HA|].
  intros r. split; [apply H|apply HD].
Qed.

(* carrying results over to the concrete forest *)
Lemma unify_ok_refines fuel o st s n : unify fuel o st = Ok (s, n) ->
  exists a, a_unify fuel o st = Ok (a, n) /\ fsim s a.
Proof.
  intros E. pose proof (unify_refines fuel o st) as H. rewrite E in H.
  destruct (a_unify fuel o st) as [[a n2]| |]; cbn in H; try contradiction.
  destruct H as [H1 H2]. cbn [fst snd] in *. subst n2. exists a. auto.
Qed.

Lemma get_data_refines s a v : fsim s a ->
  exists s', ds_get_data iset s v = Ok (s', fm_get (rep a v) (a_data a)) /\ fsim s' (a_touch iset a v).
Proof.
  intros H. pose proof (fsim_get s a v H) as Hg. cbn [f_get ds_forest a_forest] in Hg.
  destruct (ds_get_data iset s v) as [[s' d]| |]; cbn in Hg; try contradiction.
  destruct Hg as [H1 H2]. cbn [fst snd a_get] in *. subst d. exists s'. rewrite rep_touch, touch_data. auto.
Qed.

Lemma find_refines s a v : fsim s a ->
  exists s', ds_find_top iset s v = Ok (rep a v, s') /\ fsim s' (a_touch iset a v).
Proof.
  intros H. destruct (fsim_step s a (DFind v) H) as (s' & out & E & H' & Eo).
  cbn [ds_step] in E. destruct (ds_find_top iset s v) as [[r s1]| |]; cbn [lift fst snd] in E; try discriminate.
  injection E as <- <-. cbn [a_step fst snd] in *. injection Eo as ->. exists s1. rewrite rep_touch. auto.
Qed.

(* C14, first half: whenever unify returns, every class -- the class of every value, member or not --
   holds at most one type expression, and no equality *)
Theorem unify_post_proof fuel o st s n : orders_ok o -> unify fuel o st = Ok (s, n) ->
  forall v, exists s' d, ds_get_data iset s v = Ok (s', d) /\
    match d with
    | None => True
    | Some l => (length l <= 1)%nat /\ Forall (fun e => is_equal e = false) l
    end.
Proof.
  intros Ho E v. destruct (unify_ok_refines _ _ _ _ _ E) as (a & Ea & Hs).
  destruct (a_unify_post _ _ _ _ _ Ho Ea) as [HA Hp].
  destruct (get_data_refines s a v Hs) as (s' & Eg & _). exists s', (fm_get (rep a v) (a_data a)). split; [exact Eg|].
  destruct (fm_get (rep a v) (a_data a)) as [l|] eqn:El; [|exact I].
  specialize (Hp (rep a v)). unfold dat in Hp. rewrite El in Hp. cbn [or_ident] in Hp.
  split; [apply Hp|apply Forall_forall, Hp].
Qed.

(* the same, as `type_of` sees it: never UnificationIncomplete, never an equality *)
Theorem type_of_post_proof fuel o st s n : orders_ok o -> unify fuel o st = Ok (s, n) ->
  forall v, exists s' t, type_of ds_forest s v = Ok (s', t) /\
    match t with
    | TofType e => is_equal e = false
    | TofFailure => True
    | TofIncomplete _ => False
    end.
Proof.
  intros Ho E v. destruct (unify_post_proof _ _ _ _ _ Ho E v) as (s' & d & Eg & Hd).
  unfold type_of. cbn [f_get ds_forest]. rewrite Eg. cbn [of_ds ubind fst snd]. eexists _, _. split; [reflexivity|].
  destruct d as [[|e [|e2 l]]|]; try exact I; try reflexivity.
  - destruct Hd as [_ Hf]. inversion Hf; assumption.
  - destruct Hd as [Hlen _]. cbn in Hlen. lia.
Qed.

(* ---- the `Equal` panics of merge are unreachable from unify ---- *)
Lemma fold_class_panic rest : forall cur root acc p, ne cur -> Forall ne rest ->
  fold_class cur rest root acc = Panic p -> p = site_usize_overflow.
Proof.
  induction rest as [|e t IH]; intros cur root acc p Hc Hr; cbn [fold_class]; [discriminate|].
  inversion Hr as [|? ? He Ht]; subst.
  destruct (merge cur e root (r_next acc)) as [m| |s] eqn:Em.
  - apply IH; [|exact Ht]. pose proof (merge_no_equal cur e root (r_next acc) Hc He) as H. rewrite Em in H. apply H.
  - discriminate.
  - intros [= <-]. destruct (merge_panic_cases_proof _ _ _ _ _ Em) as [[_ H]|[[_ H]|[H _]]];
      [unfold ne in Hc; congruence|unfold ne in He; congruence|exact H].
Qed.

Lemma plan_panic o rnd : orders_ok o -> forall sets acc p,
  (forall root infs, In (root, infs) sets -> Forall ne infs) ->
  plan_classes o rnd sets acc = Panic p -> p = site_usize_overflow.
Proof.
  intros Ho. induction sets as [|[root infs] t IH]; intros acc p Hs; cbn [plan_classes]; [discriminate|].
  assert (Ht : forall r i, In (r, i) t -> Forall ne i) by (intros r i Hi; apply (Hs r i); right; exact Hi).
  destruct infs as [|i0 infs]; [apply IH, Ht|].
  assert (Hperm : Permutation (o_class o rnd root (i0 :: infs)) (i0 :: infs)) by apply Ho.
  assert (Hall : Forall ne (o_class o rnd root (i0 :: infs))).
  { eapply Permutation_Forall; [apply Permutation_sym, Hperm|]. apply (Hs root). left. reflexivity. }
  destruct (o_class o rnd root (i0 :: infs)) as [|cur rest].
  { apply Permutation_nil in Hperm. discriminate. }
  inversion Hall as [|? ? Hc Hr]; subst.
  destruct (fold_class cur rest root acc) as [[c acc1]| |] eqn:Ef; cbn [ubind fst snd]; try discriminate.
  - destruct (plan_classes o rnd t acc1) as [[l acc2]| |] eqn:Ep; cbn [ubind fst snd]; try discriminate.
    intros [= <-]. eapply IH; eassumption.
  - intros [= <-]. eapply fold_class_panic; eassumption.
Qed.

Lemma loop_panic o fuel : orders_ok o -> forall rnd a nxt p, ASP ne a ->
  unify_loop a_forest o fuel rnd a nxt = Panic p -> p = site_usize_overflow.
Proof.
  intros Ho. induction fuel as [|f IH]; intros rnd a nxt p HP; cbn [unify_loop]; [discriminate|].
  destruct (round a_forest o rnd a nxt) as [[[a1 n1] p1]| |q] eqn:Er; cbn [ubind]; try discriminate.
  - destruct p1; [|discriminate]. apply IH. eapply round_dp; [apply ne_merge_closed|exact Ho|exact HP|exact Er].
  - intros [= <-]. rewrite round_a in Er.
    destruct (plan_classes o rnd (snd (a_sets a)) (acc0 nxt)) as [[settled acc]| |q'] eqn:Ep; cbn [ubind] in Er; try discriminate.
    injection Er as <-. eapply plan_panic; [exact Ho| |exact Ep].
    destruct HP as [HA HD]. destruct (a_sets_view a HA) as (_ & _ & _ & Hl).
    intros root infs Hin. rewrite Hl in Hin. apply in_map_iff in Hin as (k & [= <- <-] & _).
    apply Forall_forall. intros e He. eapply HD, He.
Qed.

(* the only panic of unify is the `usize` overflow of a span end inside the (Packed, Packed) arm *)
Theorem unify_panic_proof fuel o st p : orders_ok o -> unify fuel o st = Panic p -> p = site_usize_overflow.
Proof.
  intros Ho E. pose proof (unify_refines fuel o st) as H. rewrite E in H.
  destruct (a_unify fuel o st) as [| |q] eqn:Ea; cbn in H; try contradiction. subst q.
  unfold a_unify, unify_gen in Ea. rewrite init_forest_a in Ea. cbn [ubind] in Ea.
  eapply loop_panic; [exact Ho| |exact Ea]. apply asp_init; [exact Ho|]. intros v e _ Hne. exact Hne.
Qed.

(* ========================================================================================== *)
(* 8. C14: equalities are honoured (C19's closure theorem, through the whole run)              *)

Notation PI := (part_inv iset).

Definition eq_pairs_of (v : tyvar) (l : list te) : list (tyvar * tyvar) :=
  flat_map (fun e => match e with Equal id => [(v, id)] | _ => [] end) l.

(* the equalities of a judgement set, as `unify` reads it *)
Definition declared_eqs (st : tstate) : list (tyvar * tyvar) :=
  flat_map (fun v => eq_pairs_of v (ts_get st v)) (ts_vars st).

Lemma pi_ins a ps v : PI a ps -> PI (ins_f a v) ps.
Proof. apply part_touch. Qed.
Lemma pi_set a ps rc : PI a ps -> PI (set_f a rc) ps.
Proof. intros H. exact (part_touch iset a ps (fst rc) H). Qed.
Lemma pi_add a ps j : PI a ps -> PI (add_f a j) ps.
Proof. intros H. exact (part_touch iset a ps (fst j) H). Qed.
Lemma pi_un a ps p : PI a ps -> PI (un_f a p) (ps ++ [p]).
Proof.
  intros H. pose proof (part_step iset iset_union iset_ident a ps (DUnion (fst p) (snd p)) H) as H1.
  cbn [a_step fst union_pairs] in H1. destruct p. exact H1.
Qed.
Lemma pi_sets a ps : PI a ps -> PI (fst (a_sets a)) ps.
Proof.
  intros H. unfold a_sets. destruct (a_sets_fold iset iset_ident (root_keys (a_tbl a)) (a_data a)) as [dt l]. exact H.
Qed.

Lemma pi_fold_same {X} (f : astate iset -> X -> astate iset) (l : list X) ps :
  (forall a x, PI a ps -> PI (f a x) ps) -> forall a, PI a ps -> PI (fold_left f l a) ps.
Proof. intros Hf. induction l as [|x t IH]; intros a H; cbn [fold_left]; [exact H|]. apply IH, Hf, H. Qed.

Lemma pi_fold_un es : forall a ps, PI a ps -> PI (fold_left un_f es a) (ps ++ es).
Proof.
  induction es as [|p t IH]; intros a ps H; cbn [fold_left]; [rewrite app_nil_r; exact H|].
  change (p :: t) with ([p] ++ t). rewrite app_assoc. apply IH, pi_un, H.
Qed.

Lemma pi_init_exprs v l : forall a ps, PI a ps -> PI (fold_left (init_f v) l a) (ps ++ eq_pairs_of v l).
Proof.
  induction l as [|e t IH]; intros a ps H; cbn [fold_left eq_pairs_of flat_map]; [rewrite app_nil_r; exact H|].
  fold (eq_pairs_of v t).
  destruct e; cbn [init_f app];
    try (apply IH; match goal with |- PI (a_add a v [?e0]) ps => exact (pi_add a ps (v, e0) H) end).
  change ((v, id) :: eq_pairs_of v t) with ([(v, id)] ++ eq_pairs_of v t). rewrite app_assoc.
  apply IH. exact (pi_un a ps (v, id) H).
Qed.

Definition init_pairs (o : orders) (st : tstate) : list (tyvar * tyvar) :=
  flat_map (fun v => eq_pairs_of v (o_init o v (ts_get st v))) (o_vars o (ts_vars st)).

Lemma pi_new : PI (a_new iset) [].
Proof.
  split; [intros v r E; discriminate|]. intros u w. unfold a_rep. cbn. split; [intros ->; apply ConnRefl|].
  intros H. apply (conn_least [] (fun z => z)); [intros a b []|exact H].
Qed.

Lemma pi_init o st : PI (a_init o st) (init_pairs o st).
Proof.
  unfold a_init, init_pairs. set (vars := o_vars o (ts_vars st)).
  assert (H0 : PI (fold_left ins_f vars (a_new iset)) []) by (apply pi_fold_same; [intros a x; apply pi_ins|apply pi_new]).
  assert (G : forall vs a ps, PI a ps ->
             PI (fold_left (init_var_f o st) vs a)
                (ps ++ flat_map (fun v => eq_pairs_of v (o_init o v (ts_get st v))) vs)).
  { induction vs as [|v t IH]; intros a ps H; cbn [fold_left flat_map].
    - rewrite app_nil_r. exact H.
    - rewrite app_assoc. apply IH. apply pi_init_exprs, H. }
  exact (G vars _ [] H0).
Qed.

Lemma eq_pairs_perm v l l' : Permutation l l' -> forall p, In p (eq_pairs_of v l) -> In p (eq_pairs_of v l').
Proof.
  intros Hp p. unfold eq_pairs_of. rewrite !in_flat_map. intros (e & He & Hin). exists e. split; [|exact Hin].
  eapply Permutation_in; eassumption.
Qed.

Lemma declared_in_init o st : orders_ok o -> incl (declared_eqs st) (init_pairs o st).
Proof.
  intros (Hv & Hi & _) p. unfold declared_eqs, init_pairs. rewrite !in_flat_map. intros (v & Hvin & Hp).
  exists v. split; [eapply Permutation_in; [apply Permutation_sym, Hv|exact Hvin]|].
  eapply eq_pairs_perm; [apply Permutation_sym, Hi|exact Hp].
Qed.

Lemma pi_round o rnd a nxt a' n' p ps : AS a -> PI a ps ->
  round a_forest o rnd a nxt = Ok (a', n', p) -> exists ps', PI a' (ps ++ ps').
Proof.
  intros HA H. rewrite round_a.
  destruct (plan_classes o rnd (snd (a_sets a)) (acc0 nxt)) as [[settled acc]| |]; cbn [ubind fst snd]; try discriminate.
  intros [= <- _ _]. unfold a_apply. eexists.
  apply pi_fold_same; [intros b x; apply pi_add|]. apply pi_fold_un.
  apply pi_fold_same; [intros b x; apply pi_ins|]. apply pi_fold_same; [intros b x; apply pi_set|].
  apply pi_sets, H.
Qed.

Lemma pi_loop o fuel : forall rnd a nxt a' n' ps, AS a -> PI a ps ->
  unify_loop a_forest o fuel rnd a nxt = Ok (a', n') -> exists ps', PI a' (ps ++ ps').
Proof.
  induction fuel as [|f IH]; intros rnd a nxt a' n' ps HA H; cbn [unify_loop]; [discriminate|].
  destruct (round a_forest o rnd a nxt) as [[[a1 n1] p1]| |] eqn:Er; cbn [ubind]; try discriminate.
  destruct (pi_round _ _ _ _ _ _ _ _ HA H Er) as (ps1 & H1).
  destruct p1.
  - intros E. destruct (IH _ _ _ _ _ _ (round_as _ _ _ _ _ _ _ HA Er) H1 E) as (ps2 & H2).
    exists (ps1 ++ ps2). rewrite app_assoc. exact H2.
  - intros [= <- _]. exists ps1. exact H1.
Qed.

Theorem a_unify_eq o fuel st a n x y : orders_ok o -> a_unify fuel o st = Ok (a, n) ->
  Conn (declared_eqs st) x y -> rep a x = rep a y.
Proof.
  intros Ho E Hc. unfold a_unify, unify_gen in E. rewrite init_forest_a in E. cbn [ubind] in E.
  destruct (pi_loop _ _ _ _ _ _ _ _ (as_init o st) (pi_init o st) E) as (ps' & [_ H]).
  apply H. eapply conn_mono; [|exact Hc]. intros p Hp. apply in_or_app. left. apply declared_in_init; assumption.
Qed.

(* C14: variables declared equal, directly or transitively, end in the same class *)
Theorem eq_same_class_proof fuel o st s n x y : orders_ok o -> unify fuel o st = Ok (s, n) ->
  Conn (declared_eqs st) x y ->
  exists r sx sy, ds_find_top iset s x = Ok (r, sx) /\ ds_find_top iset s y = Ok (r, sy).
Proof.
  intros Ho E Hc. destruct (unify_ok_refines _ _ _ _ _ E) as (a & Ea & Hs).
  pose proof (a_unify_eq _ _ _ _ _ _ _ Ho Ea Hc) as Hr.
  destruct (find_refines s a x Hs) as (sx & Ex & _). destruct (find_refines s a y Hs) as (sy & Ey & _).
  exists (rep a x), sx, sy. split; [exact Ex|]. rewrite Hr. exact Ey.
Qed.

(* ========================================================================================== *)
(* 9. C03 / C14: unification does not terminate in general (known finding K2)                 *)

(* a forest that a round reproduces exactly, with made_progress = true *)
Definition Loop (o : orders) (s : dsu iset) (n : N) : Prop :=
  forall rnd, round ds_forest o rnd s n = Ok (s, n, true).

Lemma loop_invariant o s n : Loop o s n ->
  forall rnd, exists s' n', round ds_forest o rnd s n = Ok (s', n', true) /\ Loop o s' n'.
Proof. intros H rnd. exists s, n. split; [apply H|exact H]. Qed.

Lemma loop_diverges o s n : Loop o s n -> forall fuel rnd, unify_loop ds_forest o fuel rnd s n = Err URounds.
Proof.
  intros H. induction fuel as [|f IH]; intros rnd; cbn [unify_loop]; [reflexivity|].
  rewrite H. cbn [ubind]. apply IH.
Qed.

Lemma rounds_then_diverges o k : forall rnd s n s' n',
  rounds_from ds_forest o k rnd s n = Ok (s', n', true) ->
  (forall fuel r, unify_loop ds_forest o fuel r s' n' = Err URounds) ->
  forall fuel, unify_loop ds_forest o fuel rnd s n = Err URounds.
Proof.
  induction k as [|k IH]; intros rnd s n s' n'; cbn [rounds_from].
  - intros [= <- <-] H fuel. apply H.
  - destruct (round ds_forest o rnd s n) as [[[s1 n1] p1]| |] eqn:Er; cbn [ubind]; try discriminate.
    destruct p1; [|discriminate]. intros E H [|f]; cbn [unify_loop]; [reflexivity|].
    rewrite Er. cbn [ubind]. eapply IH; eassumption.
Qed.

(* the smallest witness: one variable whose evidence is Packed[Span(V0, 0, 160)] and Word<Address,160> *)
Definition k2_witness_small : tstate :=
  mk_tstate [(0, [Packed [mk_span 0 0 160] false; Word (Some 160) UAddress])] 1.

(* the judgement set that reaches `unify` on the 36-byte program
   33 5f55 73ff..ff 5f54 16 6001 55 6001 54 5f 55 00 (dumped by the harness, `unify P ..`) *)
Definition k2_witness_program : tstate :=
  let pk := Packed [mk_span 8 0 160] false in
  mk_tstate
    [(0, [Word None UUnsignedNumeric]); (1, [Equal 2; Equal 7; Equal 9]); (2, [Equal 1; Word (Some 160) UAddress]);
     (3, []); (4, [Word None UUnsignedNumeric]); (5, [Equal 11; Equal 9]); (6, [Equal 7; Word (Some 160) UAddress]);
     (7, [Equal 1; Equal 6; pk]); (8, [Equal 9; Word (Some 160) UBytes]); (9, [Equal 1; Equal 5; Equal 8]);
     (10, []); (11, [Equal 5; pk]); (12, [])] 13.

Definition reaches_loop (k : nat) (st : tstate) : Prop :=
  exists s n, after_rounds ds_forest orders_sorted k st = Ok (s, n, true) /\ Loop orders_sorted s n.

Lemma reaches_loop_diverges k st : reaches_loop k st -> forall fuel, unify fuel orders_sorted st = Err URounds.
Proof.
  intros (s & n & E & HL) fuel. unfold unify, unify_gen. unfold after_rounds in E.
  destruct (init_forest ds_forest orders_sorted st) as [s0| |]; cbn [ubind] in *; try discriminate.
  eapply rounds_then_diverges; [exact E|]. apply loop_diverges, HL.
Qed.

Lemma k2_small_loops : reaches_loop 0 k2_witness_small.
Proof.
  eexists _, _. split; [vm_compute; reflexivity|]. intros rnd. vm_compute. reflexivity.
Qed.

Lemma k2_program_loops : reaches_loop 2 k2_witness_program.
Proof.
  eexists _, _. split; [vm_compute; reflexivity|]. intros rnd. vm_compute. reflexivity.
Qed.

Theorem unify_loop_refuted_proof :
  exists st, k2_class 2 st = true /\ reaches_loop 2 st /\ forall fuel, unify fuel orders_sorted st = Err URounds.
Proof.
  exists k2_witness_program. split; [vm_compute; reflexivity|]. split; [apply k2_program_loops|].
  apply reaches_loop_diverges with (k := 2%nat), k2_program_loops.
Qed.

Theorem unify_loop_refuted_small_proof :
  k2_class 0 k2_witness_small = true /\ reaches_loop 0 k2_witness_small /\
  forall fuel, unify fuel orders_sorted k2_witness_small = Err URounds.
Proof.
  split; [vm_compute; reflexivity|]. split; [apply k2_small_loops|].
  apply reaches_loop_diverges with (k := 0%nat), k2_small_loops.
Qed.

(* ========================================================================================== *)
(* 10. C03: without packed encodings unification terminates within n + 2 rounds               *)

Definition b2n (b : bool) : nat := if b then 1%nat else 0%nat.
Definition cnt (l : fmap iset) : nat := length (filter (fun p => nonempty (snd p)) l).
(* the number of classes that hold evidence *)
Definition mu (a : astate iset) : nat := cnt (a_data a).
Definition odat (l : fmap iset) (k : N) : iset := or_ident iset iset_ident (fm_get k l).

Lemma cnt_absent k l : Forall (fun p : N * iset => k < fst p) l -> odat l k = [].
Proof. intros H. unfold odat. rewrite (fm_get_none_lt k l H). reflexivity. Qed.

Lemma cnt_insert k v l : fm_sorted l ->
  (cnt (fm_insert k v l) + b2n (nonempty (odat l k)) = cnt l + b2n (nonempty v))%nat.
Proof.
  intros Hs. induction l as [|[k0 v0] t IH]; cbn [fm_insert].
  - unfold odat, cnt. cbn. destruct (nonempty v); reflexivity.
  - destruct (fm_sorted_tail _ _ Hs) as [Hst Hgt].
    destruct (N.ltb_spec k k0) as [Hlt|Hge].
    + assert (Ha : odat ((k0, v0) :: t) k = []).
      { apply cnt_absent. constructor; [exact Hlt|]. eapply Forall_impl; [|exact Hgt].
        intros p Hp. unfold key_lt in Hp. cbn [fst] in Hp. lia. }
      rewrite Ha. unfold cnt. cbn [filter snd nonempty b2n length]. destruct (nonempty v); cbn [length b2n]; lia.
    + destruct (N.eqb_spec k k0) as [->|Hne].
      * unfold odat, cnt. cbn [fm_get filter snd]. rewrite N.eqb_refl. cbn [or_ident].
        destruct (nonempty v), (nonempty v0); cbn [length b2n]; lia.
      * specialize (IH Hst). unfold odat in *. cbn [fm_get]. destruct (N.eqb_spec k k0); [congruence|].
        unfold cnt in *. cbn [filter snd]. destruct (nonempty v0); cbn [length]; lia.
Qed.

Lemma cnt_remove k l : fm_sorted l -> (cnt (fm_remove k l) + b2n (nonempty (odat l k)) = cnt l)%nat.
Proof.
  intros Hs. induction l as [|[k0 v0] t IH]; [reflexivity|].
  destruct (fm_sorted_tail _ _ Hs) as [Hst Hgt]. specialize (IH Hst).
  unfold fm_remove, odat, cnt in *. cbn [filter fst snd fm_get].
  destruct (N.eqb_spec k0 k) as [->|Hne]; cbn [negb].
  - rewrite N.eqb_refl. cbn [or_ident].
    assert (Ha : fm_get k t = None).
    { apply fm_get_none_lt. eapply Forall_impl; [|exact Hgt]. intros p Hp. exact Hp. }
    rewrite Ha in IH. cbn [or_ident iset_ident nonempty b2n] in IH. destruct (nonempty v0); cbn [length b2n]; lia.
  - destruct (N.eqb_spec k k0); [congruence|]. cbn [filter snd]. destruct (nonempty v0); cbn [length]; lia.
Qed.

Lemma odat_dat a r : odat (a_data a) r = dat a r.
Proof. reflexivity. Qed.

Lemma mu_touch a v : mu (a_touch iset a v) = mu a.
Proof. unfold mu. rewrite touch_data. reflexivity. Qed.

Lemma mu_set a v d : AS a -> (mu (a_set a v d) + b2n (nonempty (dat a (rep a v))) = mu a + b2n (nonempty d))%nat.
Proof.
  intros (_ & _ & Hd & _). unfold mu, a_set, a_set_class_data. cbn [a_data]. rewrite touch_data, rep_touch.
  apply cnt_insert, Hd.
Qed.

Lemma mu_sets a : AS a -> mu (fst (a_sets a)) = mu a.
Proof.
  intros (_ & _ & Hd & _). unfold mu, a_sets. generalize (root_keys (a_tbl a)). revert Hd. generalize (a_data a).
  intros dt Hd roots. revert dt Hd. induction roots as [|k t IH]; intros dt Hd; cbn [a_sets_fold]; [reflexivity|].
  destruct (fm_get k dt) as [d0|] eqn:E.
  - specialize (IH dt Hd). destruct (a_sets_fold iset iset_ident t dt) as [dt' l]. exact IH.
  - specialize (IH (fm_insert k iset_ident dt) (fm_insert_sorted k iset_ident dt Hd)).
    destruct (a_sets_fold iset iset_ident t (fm_insert k iset_ident dt)) as [dt' l]. cbn [fst a_data] in *.
    rewrite IH. pose proof (cnt_insert k iset_ident dt Hd) as H. unfold odat in H. rewrite E in H.
    cbn [or_ident iset_ident nonempty b2n] in H. lia.
Qed.

Definition small (a : astate iset) : Prop := forall r, (length (dat a r) <= 1)%nat.

Lemma iset_union_nil_r d : iset_union d [] = d.
Proof. reflexivity. Qed.
Lemma iset_union_nil_one e : iset_union [] [e] = [e].
Proof. reflexivity. Qed.

(* a union never increases the number of inhabited classes; if it keeps it, small classes stay small *)
Lemma mu_union a p : AS a ->
  (mu (un_f a p) <= mu a)%nat /\ (small a -> mu (un_f a p) = mu a -> small (un_f a p)).
Proof.
  intros HA. destruct p as [x y]. unfold un_f. cbn [fst snd].
  pose proof (dat_union a x y) as Hdat.
  unfold a_union in *. set (a2 := a_touch iset (a_touch iset a x) y) in *.
  assert (HA2 : AS a2) by (apply as_touch, as_touch, HA).
  assert (E2 : forall w, rep a2 w = rep a w) by (intros w; unfold a2; rewrite !rep_touch; reflexivity).
  assert (D2 : forall w, dat a2 w = dat a w) by (intros w; unfold a2; rewrite !dat_touch; reflexivity).
  assert (M2 : mu a2 = mu a) by (unfold a2; rewrite !mu_touch; reflexivity).
  rewrite !E2 in *. destruct (N.eqb_spec (rep a x) (rep a y)) as [Heq|Hne].
  - rewrite M2. split; [lia|]. intros Hs _ r. rewrite D2. apply Hs.
  - set (r1 := rep a x) in *. set (r2 := rep a y) in *.
    set (d := iset_union (or_ident iset iset_ident (fm_get r1 (a_data a2))) (or_ident iset iset_ident (fm_get r2 (a_data a2)))).
    destruct HA2 as (_ & _ & Hd2 & _).
    pose proof (cnt_remove r2 (a_data a2) Hd2) as Hrm.
    pose proof (cnt_insert r1 d (fm_remove r2 (a_data a2)) (fm_remove_sorted r2 _ Hd2)) as Hin.
    assert (Ho : odat (fm_remove r2 (a_data a2)) r1 = dat a r1).
    { unfold odat. rewrite fm_get_remove. destruct (N.eqb_spec r1 r2); [congruence|]. apply D2. }
    rewrite Ho in Hin. rewrite odat_dat, D2 in Hrm. fold (mu a2) in Hrm. rewrite M2 in Hrm.
    unfold mu at 1 3. cbn [a_data].
    assert (Ed : d = iset_union (dat a r1) (dat a r2)) by (unfold d; fold (dat a2 r1); fold (dat a2 r2); rewrite !D2; reflexivity).
    assert (Hb : (b2n (nonempty d) <= b2n (nonempty (dat a r1)) + b2n (nonempty (dat a r2)))%nat).
    { rewrite Ed. assert (G : (b2n (nonempty (iset_union (dat a r1) (dat a r2))) <= 1)%nat)
        by (destruct (nonempty (iset_union (dat a r1) (dat a r2))); cbn; lia).
      destruct (dat a r1) as [|e1 l1], (dat a r2) as [|e2 l2]; cbn [nonempty b2n] in *; try lia.
      cbn. lia. }
    split; [lia|]. intros Hs Hmu r. specialize (Hdat r HA).
    destruct (N.eqb_spec (rep a x) (rep a y)) as [|_]; [contradiction|]. fold r1 r2 in Hdat. unfold d. rewrite Hdat.
    destruct (N.eqb_spec r r1) as [Er|H1].
    + (* the count is unchanged, so at most one of the two classes was inhabited *)
      pose proof (Hs r1) as S1. pose proof (Hs r2) as S2.
      destruct (dat a r1) as [|e1 [|? ?]] eqn:Ed1, (dat a r2) as [|e2 [|? ?]] eqn:Ed2; cbn [length] in S1, S2; try lia;
        cbn [iset_union fold_left iset_add te_mem existsb app length]; try lia.
      exfalso. rewrite Ed in Hin, Hmu. cbn [nonempty b2n] in *.
      assert (b2n (nonempty (iset_union [e1] [e2])) = 1%nat).
      { cbn [iset_union fold_left]. unfold iset_add. destruct (te_mem e2 [e1]); reflexivity. }
      lia.
    + destruct (N.eqb_spec r r2); [cbn; lia|apply Hs].
Qed.

(* evidence without equalities and without packed encodings *)
Definition npe (e : te) : Prop := ne e /\ no_packed e = true.
Definition nj (acc : racc) : Prop := r_judg acc = [] /\ r_newv acc = [].

Lemma npe_merge a b p n : npe a -> npe b ->
  exists m, merge a b p n = Ok m /\ npe (expr m) /\ judg m = [] /\ newv m = [] /\ next m = n.
Proof.
  intros [Ha Pa] [Hb Pb].
  assert (Ho : packed_overflow a b = false) by (destruct a; try reflexivity; discriminate).
  destruct (merge_total_proof a b p n Ha Hb Ho) as [m Em]. exists m. split; [exact Em|].
  destruct (merge_nopacked_shape a b p n m Pa Pb Em) as (H1 & H2 & H3 & H4).
  pose proof (merge_no_equal a b p n Ha Hb) as H. rewrite Em in H. destruct H as [H5 _].
  repeat split; assumption.
Qed.

Lemma npe_merge_closed : merge_closed npe.
Proof.
  intros a b p n m Ha Hb E. destruct (npe_merge a b p n Ha Hb) as (m' & E' & H1 & H2 & _).
  rewrite E in E'. injection E' as <-. split; [exact H1|]. rewrite H2. constructor.
Qed.

Lemma fold_class_np rest : forall cur root acc, npe cur -> Forall npe rest -> nj acc ->
  exists c acc', fold_class cur rest root acc = Ok (c, acc') /\ nj acc' /\ r_next acc' = r_next acc.
Proof.
  induction rest as [|e t IH]; intros cur root acc Hc Hr Hj; cbn [fold_class].
  - exists cur, acc. auto.
  - inversion Hr as [|? ? He Ht]; subst.
    destruct (npe_merge cur e root (r_next acc) Hc He) as (m & Em & H1 & H2 & H3 & H4). rewrite Em.
    destruct (IH (expr m) root (mk_racc (r_eqs acc ++ eqs m) (r_judg acc ++ judg m) (r_newv acc ++ newv m) (next m) true) H1 Ht)
      as (c & acc' & E & Hj' & Hn).
    { destruct Hj as [J1 J2]. split; cbn [r_judg r_newv]; [rewrite J1, H2|rewrite J2, H3]; reflexivity. }
    exists c, acc'. split; [exact E|]. split; [exact Hj'|]. rewrite Hn. exact H4.
Qed.

Lemma plan_np o rnd : orders_ok o -> forall sets acc,
  (forall root infs, In (root, infs) sets -> Forall npe infs) -> nj acc ->
  exists settled acc', plan_classes o rnd sets acc = Ok (settled, acc') /\ nj acc' /\ r_next acc' = r_next acc.
Proof.
  intros Ho. induction sets as [|[root infs] t IH]; intros acc Hs Hj; cbn [plan_classes].
  - exists [], acc. auto.
  - assert (Ht : forall r i, In (r, i) t -> Forall npe i) by (intros r i Hi; apply (Hs r i); right; exact Hi).
    destruct infs as [|i0 infs]; [apply IH; assumption|].
    assert (Hperm : Permutation (o_class o rnd root (i0 :: infs)) (i0 :: infs)) by apply Ho.
    assert (Hall : Forall npe (o_class o rnd root (i0 :: infs))).
    { eapply Permutation_Forall; [apply Permutation_sym, Hperm|]. apply (Hs root). left. reflexivity. }
    destruct (o_class o rnd root (i0 :: infs)) as [|cur rest].
    { apply Permutation_nil in Hperm. discriminate. }
    inversion Hall as [|? ? Hc Hr]; subst.
    destruct (fold_class_np rest cur root acc Hc Hr Hj) as (c & acc1 & Ef & Hj1 & Hn1). rewrite Ef. cbn [ubind fst snd].
    destruct (IH acc1 Ht Hj1) as (l & acc2 & Ep & Hj2 & Hn2). rewrite Ep. cbn [ubind fst snd].
    eexists _, _. split; [reflexivity|]. split; [exact Hj2|]. congruence.
Qed.

(* all classes small: the plan merges nothing *)
Lemma plan_small o rnd : orders_ok o -> forall sets acc,
  (forall root infs, In (root, infs) sets -> (length infs <= 1)%nat) ->
  exists settled, plan_classes o rnd sets acc = Ok (settled, acc).
Proof.
  intros Ho. induction sets as [|[root infs] t IH]; intros acc Hs; cbn [plan_classes].
  - exists []. reflexivity.
  - assert (Ht : forall r i, In (r, i) t -> (length i <= 1)%nat) by (intros r i Hi; apply (Hs r i); right; exact Hi).
    destruct infs as [|i0 infs]; [apply IH, Ht|].
    assert (Hlen : (length (i0 :: infs) <= 1)%nat) by (apply (Hs root); left; reflexivity).
    destruct infs; [|cbn in Hlen; lia].
    assert (Hperm : Permutation (o_class o rnd root [i0]) [i0]) by apply Ho.
    apply Permutation_sym, Permutation_length_1_inv in Hperm. rewrite Hperm. cbn [fold_class ubind fst snd].
    destruct (IH acc Ht) as (l & Ep). rewrite Ep. cbn [ubind fst snd]. eexists. reflexivity.
Qed.

Lemma dat_set_other a v d r : r <> rep a v -> dat (a_set a v d) r = dat a r.
Proof. intros H. rewrite dat_set. destruct (N.eqb_spec r (rep a v)); [congruence|reflexivity]. Qed.

Lemma mu_settle settled : forall a, AS a -> NoDup (map fst settled) ->
  (forall rc, In rc settled -> rep a (fst rc) = fst rc /\ dat a (fst rc) <> []) ->
  mu (fold_left set_f settled a) = mu a.
Proof.
  induction settled as [|[k c] t IH]; intros a HA Hnd Hr; cbn [fold_left]; [reflexivity|].
  inversion Hnd as [|? ? Hnot Hnd']; subst.
  destruct (Hr (k, c) (or_introl eq_refl)) as [Hk Hd]. cbn [fst] in Hk, Hd.
  rewrite IH; [|apply as_set_f, HA|exact Hnd'|].
  - pose proof (mu_set a k [c] HA) as H. rewrite Hk in H. unfold set_f. cbn [fst snd].
    destruct (dat a k); [congruence|]. cbn [nonempty b2n] in H. lia.
  - intros rc Hrc. destruct (Hr rc (or_intror Hrc)) as [H1 H2]. unfold set_f. cbn [fst snd]. rewrite rep_set. split; [exact H1|].
    rewrite dat_set_other; [exact H2|]. rewrite Hk. intros E. apply Hnot. rewrite <- E. apply in_map, Hrc.
Qed.

(* the unions of a round: never more inhabited classes; if as many, all classes stay small *)
Lemma mu_unions es : forall a, AS a ->
  AS (fold_left un_f es a) /\ (mu (fold_left un_f es a) <= mu a)%nat /\
  (small a -> mu (fold_left un_f es a) = mu a -> small (fold_left un_f es a)).
Proof.
  induction es as [|p t IH]; intros a HA; cbn [fold_left].
  - split; [exact HA|]. split; [lia|auto].
  - destruct (mu_union a p HA) as [H1 H2]. destruct (IH (un_f a p) (as_un_f a p HA)) as (H3 & H4 & H5).
    split; [exact H3|]. split; [lia|]. intros Hs Hm. apply H5; [apply H2; [exact Hs|lia]|lia].
Qed.

Lemma sets_small a : AS a -> small a -> forall root infs, In (root, infs) (snd (a_sets a)) -> (length infs <= 1)%nat.
Proof.
  intros HA Hs root infs Hin. destruct (a_sets_view a HA) as (_ & _ & _ & Hl). rewrite Hl in Hin.
  apply in_map_iff in Hin as (k & [= <- <-] & _). apply Hs.
Qed.

(* one round on evidence without packed encodings *)
Lemma round_pf o rnd a nxt : orders_ok o -> ASP npe a ->
  exists a' p, round a_forest o rnd a nxt = Ok (a', nxt, p) /\ ASP npe a' /\
    (mu a' <= mu a)%nat /\ (mu a' = mu a -> small a') /\ (small a -> p = false).
Proof.
  intros Ho HP. pose proof HP as [HA HD]. rewrite round_a.
  destruct (a_sets_view a HA) as (HA1 & _ & Hd1 & Hl).
  assert (Hsets : forall root infs, In (root, infs) (snd (a_sets a)) -> Forall npe infs).
  { intros root infs Hin. rewrite Hl in Hin. apply in_map_iff in Hin as (k & [= <- <-] & _).
    apply Forall_forall. intros e He. eapply HD, He. }
  destruct (plan_np o rnd Ho (snd (a_sets a)) (acc0 nxt) Hsets (conj eq_refl eq_refl)) as (settled & acc & Ep & [J1 J2] & Hn).
  rewrite Ep. cbn [ubind fst snd]. eexists _, _. split; [rewrite Hn; reflexivity|].
  assert (HP' : ASP npe (a_apply o rnd (fst (a_sets a)) settled acc)).
  { eapply (round_dp npe npe_merge_closed o rnd a nxt _ _ _ Ho HP). rewrite round_a, Ep. reflexivity. }
  split; [exact HP'|].
  (* the shape of the new state *)
  pose proof Ho as (_ & _ & Hoc & Hon & Hoe & Hoj).
  unfold a_apply. rewrite J1, J2. cbn [dedup].
  set (l1 := o_judg o rnd _). set (l3 := o_newv o rnd _).
  assert (E1 : l1 = []) by (apply o_nil, Hoj). assert (E3 : l3 = []) by (apply o_nil, Hon). rewrite E1, E3. cbn [fold_left].
  destruct (after_settle _ _ _ _ _ _ HA Ep) as (H1 & H2 & H3 & H4 & H5).
  set (a2 := fold_left set_f settled (fst (a_sets a))) in *.
  assert (Hmu2 : mu a2 = mu a).
  { assert (Hnd : NoDup (map fst settled)).
    { destruct (plan_settled _ _ _ _ _ _ Ep) as [Hk _]. rewrite Hk. apply filter_map_fst_nodup.
      rewrite Hl, map_map. cbn [fst]. rewrite map_id. apply roots_of_nodup, HA. }
    unfold a2. rewrite mu_settle; [apply mu_sets, HA|exact HA1|exact Hnd|].
    intros rc Hrc. destruct (plan_settled _ _ _ _ _ _ Ep) as [Hk _].
    assert (Hin : In (fst rc) (map fst settled)) by (apply in_map, Hrc). rewrite Hk in Hin.
    apply in_map_iff in Hin as ([k infs] & Ek & Hp). cbn [fst] in Ek. subst k. apply filter_In in Hp as [Hp Hne].
    rewrite Hl in Hp. apply in_map_iff in Hp as (k & [= <- <-] & Hroot). cbn [snd] in Hne.
    split; [rewrite rep_sets; apply roots_of_rep; assumption|]. rewrite Hd1. destruct (dat a k); [cbn in Hne; discriminate Hne|discriminate]. }
  destruct (mu_unions (o_eqs o rnd (dedup pair_eqb (r_eqs acc))) a2 H1) as (_ & M1 & M2).
  split; [lia|]. split.
  - intros Hm. apply M2; [exact H5|lia].
  - intros Hs. destruct (plan_small o rnd Ho (snd (a_sets a)) (acc0 nxt) (sets_small a HA Hs)) as (l & Ep').
    rewrite Ep in Ep'. injection Ep' as _ ->. reflexivity.
Qed.

Lemma loop_pf o : orders_ok o -> forall fuel rnd a nxt, ASP npe a ->
  ((mu a + 2 <= fuel)%nat \/ (small a /\ (1 <= fuel)%nat)) ->
  exists a', unify_loop a_forest o fuel rnd a nxt = Ok (a', nxt).
Proof.
  intros Ho. induction fuel as [|f IH]; intros rnd a nxt HP Hf; [lia|]. cbn [unify_loop].
  destruct (round_pf o rnd a nxt Ho HP) as (a1 & p & Er & HP1 & M1 & M2 & M3). rewrite Er. cbn [ubind].
  destruct p; [|eexists; reflexivity].
  destruct Hf as [Hf|[Hs _]]; [|specialize (M3 Hs); discriminate].
  apply IH; [exact HP1|]. destruct (Nat.eq_dec (mu a1) (mu a)) as [E|N].
  - right. split; [apply M2, E|lia].
  - left. lia.
Qed.

(* every inhabited class contains one of the listed variables *)
Definition witnessed (vars : list tyvar) (a : astate iset) : Prop :=
  forall r, dat a r <> [] -> exists v, In v vars /\ rep a v = r.

Lemma wit_ins vars a v : witnessed vars a -> witnessed vars (ins_f a v).
Proof. intros H r. unfold ins_f. rewrite dat_insert. intros Hr. destruct (H r Hr) as (u & Hu & E). exists u. rewrite rep_insert. auto. Qed.

Lemma wit_add vars a v e : In v vars -> witnessed vars a -> witnessed vars (a_add a v [e]).
Proof.
  intros Hv H r. rewrite dat_add. destruct (N.eqb_spec r (rep a v)) as [->|Hne].
  - intros _. exists v. rewrite rep_add. auto.
  - intros Hr. destruct (H r Hr) as (u & Hu & E). exists u. rewrite rep_add. auto.
Qed.

Lemma wit_un vars a x y : AS a -> witnessed vars a -> witnessed vars (a_un a x y).
Proof.
  intros HA H r. rewrite (dat_union a x y r HA).
  assert (Hrep : forall u, rep (a_un a x y) u = if rep a u =? rep a y then rep a x else rep a u)
    by (intros u; apply rep_union, HA).
  destruct (N.eqb_spec (rep a x) (rep a y)) as [Heq|Hne].
  - intros Hr. destruct (H r Hr) as (u & Hu & E). exists u. split; [exact Hu|]. rewrite Hrep.
    destruct (N.eqb_spec (rep a u) (rep a y)); congruence.
  - destruct (N.eqb_spec r (rep a x)) as [->|H1].
    + intros Hr.
      assert (Hor : dat a (rep a x) <> [] \/ dat a (rep a y) <> []).
      { destruct (dat a (rep a x)); [|left; discriminate]. destruct (dat a (rep a y)); [|right; discriminate].
        exfalso. apply Hr. reflexivity. }
      destruct Hor as [Hd|Hd]; destruct (H _ Hd) as (u & Hu & E); exists u; (split; [exact Hu|]); rewrite Hrep, E.
      * destruct (N.eqb_spec (rep a x) (rep a y)); [congruence|reflexivity].
      * rewrite N.eqb_refl. reflexivity.
    + destruct (N.eqb_spec r (rep a y)) as [->|H2]; [intros Hr; exfalso; apply Hr; reflexivity|].
      intros Hr. destruct (H r Hr) as (u & Hu & E). exists u. split; [exact Hu|]. rewrite Hrep, E.
      destruct (N.eqb_spec r (rep a y)); [congruence|reflexivity].
Qed.

Lemma wit_init o st : orders_ok o -> witnessed (o_vars o (ts_vars st)) (a_init o st).
Proof.
  intros Ho. unfold a_init. set (vars := o_vars o (ts_vars st)).
  assert (H0 : AS (fold_left ins_f vars (a_new iset)) /\ witnessed vars (fold_left ins_f vars (a_new iset))).
  { apply (fold_inv (fun a => AS a /\ witnessed vars a)).
    - intros a v _ [HA HW]. split; [apply as_ins_f, HA|apply wit_ins, HW].
    - split; [apply as_new|]. intros r Hr. exfalso. apply Hr. reflexivity. }
  revert H0. generalize (fold_left ins_f vars (a_new iset)). intros a0 H0.
  apply (fold_inv (fun a => AS a /\ witnessed vars a)); [|exact H0].
  intros a v Hv [HA HW]. unfold init_var_f.
  apply (fold_inv (fun a => AS a /\ witnessed vars a)); [|auto].
  intros b e _ [HB HWb]. split; [apply as_init_f, HB|].
  destruct e; cbn [init_f]; first [apply wit_un; assumption | apply wit_add; assumption].
Qed.

Lemma mu_le_vars vars a : AS a -> witnessed vars a -> (mu a <= length vars)%nat.
Proof.
  intros (_ & _ & Hd & _) HW. unfold mu, cnt.
  assert (E1 : length (filter (fun p : N * iset => nonempty (snd p)) (a_data a))
               = length (map fst (filter (fun p : N * iset => nonempty (snd p)) (a_data a)))) by (symmetry; apply map_length).
  assert (E2 : length (map (rep a) vars) = length vars) by apply map_length.
  rewrite E1, <- E2.
  apply NoDup_incl_length.
  - apply filter_map_fst_nodup, fm_sorted_nodup, Hd.
  - intros r Hr. apply in_map_iff in Hr as ([k d] & Ek & Hp). cbn [fst] in Ek. subst k.
    apply filter_In in Hp as [Hin Hne]. cbn [snd] in Hne.
    assert (Hdat : dat a r <> []).
    { unfold dat. rewrite (fm_in_get r d (a_data a) Hd Hin). cbn [or_ident]. destruct d; [discriminate|discriminate]. }
    destruct (HW r Hdat) as (v & Hv & E). apply in_map_iff. exists v. auto.
Qed.

Theorem a_unify_terminates_packed_free o st fuel : orders_ok o -> packed_free st = true ->
  (length (ts_vars st) + 2 <= fuel)%nat -> exists a, a_unify fuel o st = Ok (a, ts_next st).
Proof.
  intros Ho Hpf Hfuel. unfold a_unify, unify_gen. rewrite init_forest_a. cbn [ubind].
  assert (HP : ASP npe (a_init o st)).
  { apply asp_init; [exact Ho|]. intros v e He Hne. split; [exact Hne|].
    unfold packed_free in Hpf. rewrite forallb_forall in Hpf. unfold ts_get in He.
    destruct (find (fun p => fst p =? v) (ts_inf st)) as [p|] eqn:Ef; [|destruct He].
    apply find_some in Ef as [Hin _]. specialize (Hpf p Hin). rewrite forallb_forall in Hpf. apply Hpf, He. }
  apply loop_pf; [exact Ho|exact HP|]. left.
  pose proof (mu_le_vars _ _ (as_init o st) (wit_init o st Ho)) as Hm.
  assert (Hl : length (o_vars o (ts_vars st)) = length (ts_vars st)) by (apply Permutation_length, Ho).
  lia.
Qed.

(* C03 (type checker half), outside the known class: a judgement set without packed encodings over n
   variables is unified within n + 2 rounds, whatever the iteration orders *)
Theorem unify_terminates_packed_free_proof o st fuel : orders_ok o -> packed_free st = true ->
  (length (ts_vars st) + 2 <= fuel)%nat -> exists s, unify fuel o st = Ok (s, ts_next st).
Proof.
  intros Ho Hpf Hfuel. destruct (a_unify_terminates_packed_free o st fuel Ho Hpf Hfuel) as (a & Ea).
  pose proof (unify_refines fuel o st) as H. rewrite Ea in H.
  destruct (unify fuel o st) as [[s n]| |]; cbn in H; try contradiction.
  destruct H as [_ H2]. cbn [snd] in H2. subst n. exists s. reflexivity.
Qed.

(* ========================================================================================== *)
(* 11. The orders of hook H1 (Sorted / SortedReversed) are permutations                       *)

Lemma ins_le_perm {A} (le : A -> A -> bool) x l : Permutation (ins_le le x l) (x :: l).
Proof.
  induction l as [|y t IH]; cbn [ins_le]; [apply Permutation_refl|].
  destruct (le y x); [|apply Permutation_refl].
  eapply Permutation_trans; [apply perm_skip, IH|apply perm_swap].
Qed.

Lemma sort_le_perm {A} (le : A -> A -> bool) l : Permutation (sort_le le l) l.
Proof.
  unfold sort_le. assert (G : forall acc, Permutation (fold_left (fun acc x => ins_le le x acc) l acc) (l ++ acc)).
  { induction l as [|x t IH]; intros acc; cbn [fold_left app]; [apply Permutation_refl|].
    eapply Permutation_trans; [apply IH|]. eapply Permutation_trans; [apply Permutation_app_head, ins_le_perm|].
    apply Permutation_sym, Permutation_middle. }
  specialize (G []). rewrite app_nil_r in G. exact G.
Qed.

Lemma sort_keyed_perm {A K} (le : K * A -> K * A -> bool) (key : A -> K) l :
  Permutation (map snd (sort_le le (map (fun e => (key e, e)) l))) l.
Proof.
  eapply Permutation_trans; [apply Permutation_map, sort_le_perm|].
  rewrite map_map. cbn [snd]. rewrite map_id. apply Permutation_refl.
Qed.

Lemma sort_tes_perm l : Permutation (sort_tes l) l.
Proof. apply (sort_keyed_perm _ te_debug). Qed.
Lemma sort_judgs_perm l : Permutation (sort_judgs l) l.
Proof. apply (sort_keyed_perm _ (fun j => (fst j, te_debug (snd j)))). Qed.

Lemma rev_perm {A} (l l' : list A) : Permutation l l' -> Permutation (rev l) l'.
Proof. intros H. eapply Permutation_trans; [apply Permutation_sym, Permutation_rev|exact H]. Qed.

Theorem sorted_orders_ok : orders_ok orders_sorted /\ orders_ok orders_sorted_rev.
Proof.
  split; repeat split; intros; cbn [orders_sorted orders_sorted_rev o_vars o_init o_class o_newv o_eqs o_judg];
    try apply rev_perm; first [apply sort_le_perm | apply sort_tes_perm | apply sort_judgs_perm].
Qed.

(* ========================================================================================== *)
(* 12. Evidence is never lost: every piece of evidence stays accounted for by an element of its
       class's data ("cover"), through merges, unions and re-added judgements                  *)

(* the data of a value's class only grows under insert / union / add_data *)
Definition grows (a a' : astate iset) : Prop :=
  forall x t, In t (dat a (rep a x)) -> In t (dat a' (rep a' x)).

Lemma grows_refl a : grows a a.
Proof. intros x t H. exact H. Qed.
Lemma grows_trans a b c : grows a b -> grows b c -> grows a c.
Proof. intros H1 H2 x t H. apply H2, H1, H. Qed.

Lemma grows_ins a v : grows a (ins_f a v).
Proof. intros x t. unfold ins_f. rewrite rep_insert, dat_insert. auto. Qed.

Lemma grows_add a j : grows a (add_f a j).
Proof.
  intros x t. unfold add_f. rewrite rep_add, dat_add. destruct (rep a x =? rep a (fst j)); [|auto].
  intros H. apply iset_union_in. left. exact H.
Qed.

Lemma grows_un a p : AS a -> grows a (un_f a p).
Proof.
  intros HA x t. unfold un_f. rewrite (rep_union a _ _ x HA), (dat_union a _ _ _ HA).
  destruct (N.eqb_spec (rep a (fst p)) (rep a (snd p))) as [Heq|Hne].
  - destruct (N.eqb_spec (rep a x) (rep a (snd p))) as [E|]; [rewrite Heq, <- E|]; auto.
  - destruct (N.eqb_spec (rep a x) (rep a (snd p))) as [E|E].
    + rewrite N.eqb_refl. intros H. apply iset_union_in. right. rewrite <- E. exact H.
    + destruct (N.eqb_spec (rep a x) (rep a (fst p))) as [E1|E1].
      * intros H. apply iset_union_in. left. rewrite <- E1. exact H.
      * destruct (N.eqb_spec (rep a x) (rep a (snd p))); [congruence|auto].
Qed.

Lemma grows_fold {X} (f : astate iset -> X -> astate iset) (l : list X) :
  (forall a x, AS a -> AS (f a x)) -> (forall a x, AS a -> grows a (f a x)) ->
  forall a, AS a -> grows a (fold_left f l a).
Proof.
  intros Hf Hg. induction l as [|x t IH]; intros a HA; cbn [fold_left]; [apply grows_refl|].
  eapply grows_trans; [apply Hg, HA|apply IH, Hf, HA].
Qed.

Lemma grows_init_f v a e : AS a -> grows a (init_f v a e).
Proof. intros HA. destruct e; cbn [init_f]; first [exact (grows_un a (v, _) HA) | exact (grows_add a (v, _))]. Qed.

Lemma dedup_complete {A} (eqb : A -> A -> bool) (Heq : forall x y, eqb x y = true -> x = y) l x :
  In x l -> In x (dedup eqb l).
Proof.
  induction l as [|y t IH]; cbn [dedup In]; [auto|]. intros [<-|H].
  - destruct (existsb (eqb y) t) eqn:E; [|left; reflexivity].
    apply existsb_exists in E as (z & Hz & Ez). apply Heq in Ez. subst z. apply IH, Hz.
  - destruct (existsb (eqb y) t); [|right]; apply IH, H.
Qed.

Lemma pair_eqb_eq a b : pair_eqb a b = true -> a = b.
Proof.
  destruct a, b. unfold pair_eqb. cbn [fst snd]. intros H. apply andb_true_iff in H as [H1 H2].
  apply N.eqb_eq in H1, H2. congruence.
Qed.

(* the original evidence of a judgement set *)
Definition orig (st : tstate) (x : tyvar) (e : te) : Prop := In x (ts_vars st) /\ In e (ts_get st x) /\ ne e.

Lemma init_var_evidence v e l : forall a, AS a -> In e l -> ne e ->
  In e (dat (fold_left (init_f v) l a) (rep (fold_left (init_f v) l a) v)).
Proof.
  induction l as [|e0 t IH]; intros a HA Hin Hne; [destruct Hin|]. cbn [fold_left]. destruct Hin as [->|Hin].
  - assert (G2 : grows (init_f v a e) (fold_left (init_f v) t (init_f v a e))).
    { apply grows_fold; [apply as_init_f|intros; apply grows_init_f; assumption|apply as_init_f, HA]. }
    apply G2. destruct e; try discriminate Hne; cbn [init_f]; rewrite rep_add, dat_add, N.eqb_refl;
      apply iset_union_in; right; left; reflexivity.
  - apply IH; [apply as_init_f, HA|exact Hin|exact Hne].
Qed.

(* after forest construction every piece of evidence is in the data of its variable's class *)
Lemma init_evidence o st x e : orders_ok o -> orig st x e -> In e (dat (a_init o st) (rep (a_init o st) x)).
Proof.
  intros Ho (Hx & He & Hne). unfold a_init. set (vars := o_vars o (ts_vars st)).
  assert (Hxv : In x vars) by (eapply Permutation_in; [apply Permutation_sym, Ho|exact Hx]).
  set (a0 := fold_left ins_f vars (a_new iset)).
  assert (HA0 : AS a0) by (apply fold_as; [apply as_ins_f|apply as_new]).
  clearbody a0. revert a0 HA0. induction vars as [|v t IH]; intros a0 HA0; [destruct Hxv|]. cbn [fold_left].
  assert (HA1 : AS (init_var_f o st a0 v)) by (apply fold_as; [apply as_init_f|exact HA0]).
  destruct (N.eq_dec v x) as [->|Hvx].
  - (* x's own evidence is added now, and only grows afterwards *)
    assert (G : grows (init_var_f o st a0 x) (fold_left (init_var_f o st) t (init_var_f o st a0 x))).
    { apply grows_fold; [| |exact HA1].
      - intros a u HA. apply fold_as; [apply as_init_f|exact HA].
      - intros a u HA. apply grows_fold; [apply as_init_f|intros; apply grows_init_f; assumption|exact HA]. }
    apply G. unfold init_var_f. apply init_var_evidence; [exact HA0| |exact Hne].
    eapply Permutation_in; [apply Permutation_sym, Ho|exact He].
  - destruct Hxv as [E|Hxt]; [congruence|]. apply IH; assumption.
Qed.

Section Cover.
  Variable st : tstate.
  (* what all data elements satisfy (at least: no equalities) *)
  Variable Pd : te -> Prop.
  Hypothesis Pd_closed : merge_closed Pd.
  Hypothesis Pd_init : forall v e, In e (ts_get st v) -> ne e -> Pd e.

  Variable cov : list (tyvar * tyvar) -> te -> te -> Prop.
  Hypothesis cov_mono : forall ps ps' t e, incl ps ps' -> cov ps t e -> cov ps' t e.
  Hypothesis cov_self : forall ps e, Pd e -> cov ps e e.
  Hypothesis cov_merge_l : forall ps t u p n m e, Pd t -> Pd u -> merge t u p n = Ok m ->
    cov ps t e -> cov (ps ++ eqs m) (expr m) e.
  Hypothesis cov_merge_r : forall ps t u p n m e, Pd t -> Pd u -> merge u t p n = Ok m ->
    cov ps t e -> cov (ps ++ eqs m) (expr m) e.

  Definition CV (a : astate iset) (ps : list (tyvar * tyvar)) : Prop :=
    PI a ps /\ forall x e, orig st x e -> exists t, In t (dat a (rep a x)) /\ cov ps t e.

  Lemma fold_class_cov ps e rest : forall cur root acc c acc',
    Forall Pd (cur :: rest) -> fold_class cur rest root acc = Ok (c, acc') ->
    (cov (ps ++ r_eqs acc) cur e \/ exists t, In t rest /\ cov (ps ++ r_eqs acc) t e) ->
    cov (ps ++ r_eqs acc') c e.
  Proof.
    induction rest as [|u t IH]; intros cur root acc c acc' Hne; cbn [fold_class].
    - intros [= <- <-] [H|(t & [] & _)]. exact H.
    - inversion Hne as [|? ? Hc Hr]; subst. inversion Hr as [|? ? Hu Ht]; subst.
      destruct (merge cur u root (r_next acc)) as [m| |] eqn:Em; try discriminate.
      intros E Hcov. eapply IH; [|exact E|].
      + constructor; [|exact Ht]. apply (Pd_closed _ _ _ _ _ Hc Hu Em).
      + cbn [r_eqs]. rewrite app_assoc. destruct Hcov as [H|(t0 & [<-|Hin] & H)].
        * left. exact (cov_merge_l _ _ _ _ _ _ _ Hc Hu Em H).
        * left. exact (cov_merge_r _ _ _ _ _ _ _ Hu Hc Em H).
        * right. exists t0. split; [exact Hin|]. eapply cov_mono; [|exact H]. apply incl_appl, incl_refl.
  Qed.

  Lemma fold_class_eqs_grow rest : forall cur root acc c acc',
    fold_class cur rest root acc = Ok (c, acc') -> incl (r_eqs acc) (r_eqs acc').
  Proof.
    induction rest as [|u t IH]; intros cur root acc c acc'; cbn [fold_class].
    - intros [= _ <-]. apply incl_refl.
    - destruct (merge cur u root (r_next acc)) as [m| |]; try discriminate. intros E.
      eapply incl_tran; [|eapply IH, E]. cbn [r_eqs]. apply incl_appl, incl_refl.
  Qed.

  Lemma plan_eqs_grow o rnd sets : forall acc settled acc',
    plan_classes o rnd sets acc = Ok (settled, acc') -> incl (r_eqs acc) (r_eqs acc').
  Proof.
    induction sets as [|[root infs] t IH]; intros acc settled acc'; cbn [plan_classes].
    - intros [= _ <-]. apply incl_refl.
    - destruct infs as [|i0 infs]; [apply IH|].
      destruct (o_class o rnd root (i0 :: infs)) as [|cur rest]; [discriminate|].
      destruct (fold_class cur rest root acc) as [[c acc1]| |] eqn:Ef; cbn [ubind fst snd]; try discriminate.
      destruct (plan_classes o rnd t acc1) as [[l acc2]| |] eqn:Ep; cbn [ubind fst snd]; try discriminate.
      intros [= _ <-]. eapply incl_tran; [eapply fold_class_eqs_grow, Ef|eapply IH, Ep].
  Qed.

  Lemma plan_cov o rnd ps e : orders_ok o -> forall sets acc settled acc',
    (forall root infs, In (root, infs) sets -> Forall Pd infs) ->
    plan_classes o rnd sets acc = Ok (settled, acc') ->
    forall root infs t, In (root, infs) sets -> In t infs -> cov (ps ++ r_eqs acc) t e ->
    exists c, In (root, c) settled /\ cov (ps ++ r_eqs acc') c e.
  Proof.
    intros Ho. induction sets as [|[root infs] tl IH]; intros acc settled acc' Hs; cbn [plan_classes].
    - intros _ r i t [].
    - assert (Ht : forall r i, In (r, i) tl -> Forall Pd i) by (intros r i Hi; apply (Hs r i); right; exact Hi).
      destruct infs as [|i0 infs].
      + intros E r i t [[= <- <-]|Hin] Hti Hc; [destruct Hti|]. eapply IH; eassumption.
      + assert (Hperm : Permutation (o_class o rnd root (i0 :: infs)) (i0 :: infs)) by apply Ho.
        assert (Hall : Forall Pd (o_class o rnd root (i0 :: infs))).
        { eapply Permutation_Forall; [apply Permutation_sym, Hperm|]. apply (Hs root). left. reflexivity. }
        destruct (o_class o rnd root (i0 :: infs)) as [|cur rest] eqn:Eo; [discriminate|].
        destruct (fold_class cur rest root acc) as [[c acc1]| |] eqn:Ef; cbn [ubind fst snd]; try discriminate.
        destruct (plan_classes o rnd tl acc1) as [[l acc2]| |] eqn:Ep; cbn [ubind fst snd]; try discriminate.
        intros [= <- <-] r i t [[= <- <-]|Hin] Hti Hc.
        * exists c. split; [left; reflexivity|].
          eapply cov_mono; [apply incl_app; [apply incl_appl, incl_refl|apply incl_appr, (plan_eqs_grow _ _ _ _ _ _ Ep)]|].
          eapply fold_class_cov; [exact Hall|exact Ef|].
          assert (Hin : In t (cur :: rest)) by (eapply Permutation_in; [apply Permutation_sym, Hperm|exact Hti]).
          destruct Hin as [<-|Hin]; [left; exact Hc|right; exists t; auto].
        * destruct (IH acc1 l acc2 Ht Ep r i t Hin Hti) as (c0 & Hc0 & Hcov).
          { eapply cov_mono; [|exact Hc]. apply incl_app; [apply incl_appl, incl_refl|].
            apply incl_appr, (fold_class_eqs_grow _ _ _ _ _ _ Ef). }
          exists c0. split; [right; exact Hc0|exact Hcov].
  Qed.

  Lemma lookup_in settled r c : NoDup (map fst settled) -> In (r, c) settled -> lookup r settled = Some (r, c).
  Proof.
    unfold lookup. induction settled as [|[k c0] t IH]; intros Hnd Hin; [destruct Hin|]. cbn [find fst].
    inversion Hnd as [|? ? Hnot Hnd']; subst. destruct Hin as [[= -> ->]|Hin].
    - rewrite N.eqb_refl. reflexivity.
    - destruct (N.eqb_spec k r) as [->|]; [|apply IH; assumption].
      exfalso. apply Hnot. apply in_map_iff. exists (r, c). auto.
  Qed.

  Lemma round_cv o rnd a nxt a' n' p ps : orders_ok o -> ASP Pd a -> CV a ps ->
    round a_forest o rnd a nxt = Ok (a', n', p) -> exists ps', CV a' (ps ++ ps').
  Proof.
    intros Ho [HA HD] [HPI HC]. rewrite round_a.
    destruct (plan_classes o rnd (snd (a_sets a)) (acc0 nxt)) as [[settled acc]| |] eqn:Ep; cbn [ubind fst snd]; try discriminate.
    intros [= <- _ _]. set (es := o_eqs o rnd (dedup pair_eqb (r_eqs acc))). exists es.
    destruct (a_sets_view a HA) as (HA1 & _ & Hd1 & Hl).
    destruct (after_settle _ _ _ _ _ _ HA Ep) as (H1 & H2 & H3 & H4 & H5).
    set (a2 := fold_left set_f settled (fst (a_sets a))) in *.
    set (a3 := fold_left ins_f (o_newv o rnd (dedup N.eqb (r_newv acc))) a2).
    assert (HA3 : AS a3) by (apply fold_as; [apply as_ins_f|exact H1]).
    set (a4 := fold_left un_f es a3).
    assert (HA4 : AS a4) by (apply fold_as; [apply as_un_f|exact HA3]).
    assert (G : grows a2 (a_apply o rnd (fst (a_sets a)) settled acc)).
    { unfold a_apply. fold a2. fold a3. fold es. fold a4.
      eapply grows_trans; [apply (grows_fold ins_f); [apply as_ins_f|intros; apply grows_ins|exact H1]|].
      eapply grows_trans; [apply (grows_fold un_f); [apply as_un_f|intros; apply grows_un; assumption|exact HA3]|].
      apply (grows_fold add_f); [apply as_add_f|intros; apply grows_add|exact HA4]. }
    split.
    - unfold a_apply. fold a2. fold es.
      apply pi_fold_same; [intros b x; apply pi_add|]. apply pi_fold_un.
      apply pi_fold_same; [intros b x; apply pi_ins|]. apply pi_fold_same; [intros b x; apply pi_set|].
      apply pi_sets, HPI.
    - intros x e Ho_e. destruct (HC x e Ho_e) as (t & Ht & Hcov).
      assert (Hsets : forall root infs, In (root, infs) (snd (a_sets a)) -> Forall Pd infs).
      { intros root infs Hin. rewrite Hl in Hin. apply in_map_iff in Hin as (k & [= <- <-] & _).
        apply Forall_forall. intros e0 He0. eapply HD, He0. }
      assert (Hroot : In (rep a x, dat a (rep a x)) (snd (a_sets a))).
      { rewrite Hl. apply in_map_iff. exists (rep a x). split; [reflexivity|]. apply root_in_roots_of.
        unfold dat in Ht. destruct (fm_get (rep a x) (a_data a)) as [d|] eqn:Eg; [|destruct Ht].
        destruct HA as (_ & _ & _ & Hr4). eapply Hr4, Eg. }
      destruct (plan_cov o rnd ps e Ho _ _ _ _ Hsets Ep _ _ t Hroot Ht) as (c & Hc & Hcc).
      { cbn [acc0 r_eqs]. rewrite app_nil_r. exact Hcov. }
      exists c. split.
      + apply G. rewrite H2, H3.
        assert (Hnd : NoDup (map fst settled)).
        { destruct (plan_settled _ _ _ _ _ _ Ep) as [Hk _]. rewrite Hk. apply filter_map_fst_nodup.
          rewrite Hl, map_map. cbn [fst]. rewrite map_id. apply roots_of_nodup, HA. }
        rewrite (lookup_in settled _ c Hnd Hc). left. reflexivity.
      + eapply cov_mono; [|exact Hcc]. apply incl_app; [apply incl_appl, incl_refl|apply incl_appr].
        intros q Hq. unfold es. eapply Permutation_in; [apply Permutation_sym, Ho|].
        apply (dedup_complete pair_eqb pair_eqb_eq), Hq.
  Qed.

  Lemma loop_cv o fuel : orders_ok o -> forall rnd a nxt a' n' ps, ASP Pd a -> CV a ps ->
    unify_loop a_forest o fuel rnd a nxt = Ok (a', n') -> exists ps', CV a' (ps ++ ps').
  Proof.
    intros Ho. induction fuel as [|f IH]; intros rnd a nxt a' n' ps HP HC; cbn [unify_loop]; [discriminate|].
    destruct (round a_forest o rnd a nxt) as [[[a1 n1] p1]| |] eqn:Er; cbn [ubind]; try discriminate.
    destruct (round_cv _ _ _ _ _ _ _ _ Ho HP HC Er) as (ps1 & HC1).
    pose proof (round_dp Pd Pd_closed _ _ _ _ _ _ _ Ho HP Er) as HP1.
    destruct p1.
    - intros E. destruct (IH _ _ _ _ _ _ HP1 HC1 E) as (ps2 & HC2). exists (ps1 ++ ps2). rewrite app_assoc. exact HC2.
    - intros [= <- _]. exists ps1. exact HC1.
  Qed.

  Theorem a_unify_cover o fuel a n : orders_ok o -> a_unify fuel o st = Ok (a, n) ->
    exists ps, PI a ps /\ forall x e, orig st x e -> exists t, In t (dat a (rep a x)) /\ cov ps t e.
  Proof.
    intros Ho E. unfold a_unify, unify_gen in E. rewrite init_forest_a in E. cbn [ubind] in E.
    assert (HP : ASP Pd (a_init o st)) by (apply asp_init; [exact Ho|exact Pd_init]).
    assert (HC : CV (a_init o st) (init_pairs o st)).
    { split; [apply pi_init|]. intros x e Hoe. exists e. split; [apply init_evidence; assumption|].
      apply cov_self. destruct Hoe as (_ & He & Hne). eapply Pd_init; eassumption. }
    destruct (loop_cv o fuel Ho _ _ _ _ _ _ HP HC E) as (ps' & HC'). eexists. exact HC'.
  Qed.
End Cover.

(* ========================================================================================== *)
(* 13. C14: when constructed types meet, their components are unified                          *)

(* t accounts for the constructed evidence e: it is a conflict, or the same kind of type with components in
   the classes of e's components (a dynamic array may also have been absorbed into dynamic bytes) *)
Definition cov_ctor (ps : list (tyvar * tyvar)) (t e : te) : Prop :=
  match e with
  | Mapping k v => is_conflict t = true \/ exists k' v', t = Mapping k' v' /\ Conn ps k k' /\ Conn ps v v'
  | FixedArray x l => is_conflict t = true \/ exists x', t = FixedArray x' l /\ Conn ps x x'
  | DynamicArray x => is_conflict t = true \/ t = Bytes \/ exists x', t = DynamicArray x' /\ Conn ps x x'
  | _ => True
  end.

Lemma cov_ctor_mono ps ps' t e : incl ps ps' -> cov_ctor ps t e -> cov_ctor ps' t e.
Proof.
  intros Hi. destruct e; cbn [cov_ctor]; auto.
  - intros [H|(x' & -> & H)]; [left; exact H|right; exists x'; split; [reflexivity|eapply conn_mono; eassumption]].
  - intros [H|(k' & v' & -> & H1 & H2)]; [left; exact H|right; exists k', v'; repeat split; eapply conn_mono; eassumption].
  - intros [H|[H|(x' & -> & H)]]; [left; exact H|right; left; exact H|right; right; exists x'; split; [reflexivity|eapply conn_mono; eassumption]].
Qed.

Lemma cov_ctor_self ps e : ne e -> cov_ctor ps e e.
Proof.
  intros _. destruct e; cbn [cov_ctor]; auto.
  - right. eexists. split; [reflexivity|apply ConnRefl].
  - right. eexists _, _. repeat split; apply ConnRefl.
  - right. right. eexists. split; [reflexivity|apply ConnRefl].
Qed.

Lemma mpa_shape l r ts n m : merge_packed_array l r ts n = Ok m -> expr m = Bytes \/ is_conflict (expr m) = true.
Proof.
  unfold merge_packed_array. destruct ts as [|t1 [|t2 [|t3 [|t4 ts]]]].
  - intros [= <-]. left. reflexivity.
  - split_ifs; intros [= <-]; [left|right]; reflexivity.
  - destruct (sort_by le_offset [t1; t2]) as [|x [|y ?]]; try discriminate. split_ifs; intros [= <-]; [left|right]; reflexivity.
  - destruct (sort_by le_offset [t1; t2; t3]) as [|x [|y [|z ?]]]; try discriminate. split_ifs; intros [= <-]; [left|right]; reflexivity.
  - intros [= <-]. right. reflexivity.
Qed.

Lemma conn_app_l ps qs x y : Conn ps x y -> Conn (ps ++ qs) x y.
Proof. apply conn_mono, incl_appl, incl_refl. Qed.
Lemma conn_new ps x y : Conn (ps ++ [(x, y)]) x y.
Proof. apply ConnPair, in_or_app. right. left. reflexivity. Qed.
Lemma conn_new2a ps x y z w : Conn (ps ++ [(x, y); (z, w)]) x y.
Proof. apply ConnPair, in_or_app. right. left. reflexivity. Qed.
Lemma conn_new2b ps x y z w : Conn (ps ++ [(x, y); (z, w)]) z w.
Proof. apply ConnPair, in_or_app. right. right. left. reflexivity. Qed.

(* a conflict stays a conflict on either side *)
Lemma merge_conflict_l cs rs u p n m : ne u -> merge (Conflict cs rs) u p n = Ok m -> is_conflict (expr m) = true.
Proof.
  intros Hu E. destruct (conflict_absorbs_proof cs rs u p n Hu) as [(cs' & rs' & E' & _) _].
  rewrite E in E'. injection E' as ->. reflexivity.
Qed.
Lemma merge_conflict_r cs rs u p n m : ne u -> merge u (Conflict cs rs) p n = Ok m -> is_conflict (expr m) = true.
Proof.
  intros Hu E. destruct (conflict_absorbs_proof cs rs u p n Hu) as [_ (cs' & rs' & E' & _)].
  rewrite E in E'. injection E' as ->. reflexivity.
Qed.

Ltac conflict_case t H :=
  destruct t; try discriminate H.

Lemma cov_ctor_merge_l ps t u p n m e : ne t -> ne u -> merge t u p n = Ok m ->
  cov_ctor ps t e -> cov_ctor (ps ++ eqs m) (expr m) e.
Proof.
  intros Ht Hu Em. destruct e; cbn [cov_ctor]; auto.
  - (* FixedArray *)
    intros [Hc|(x' & -> & Hx)].
    + left. destruct t; try discriminate Hc. eapply merge_conflict_l; eassumption.
    + unfold merge, merge_body in Em. destruct (te_eqb (FixedArray x' length) u) eqn:Eq.
      * injection Em as <-. right. exists x'. split; [reflexivity|apply conn_app_l, Hx].
      * destruct u; try discriminate Hu; simpl in Em; try (injection Em as <-; left; reflexivity);
          try (injection Em as <-; right; exists x'; split; [reflexivity|apply conn_app_l, Hx]).
        destruct (length =? length0); injection Em as <-; [right; exists x'; split; [reflexivity|apply conn_app_l, Hx]|left; reflexivity].
  - (* Mapping *)
    intros [Hc|(k' & v' & -> & Hk & Hv)].
    + left. destruct t; try discriminate Hc. eapply merge_conflict_l; eassumption.
    + unfold merge, merge_body in Em. destruct (te_eqb (Mapping k' v') u) eqn:Eq.
      * injection Em as <-. right. exists k', v'. repeat split; apply conn_app_l; assumption.
      * destruct u; try discriminate Hu; simpl in Em; injection Em as <-;
          first [left; reflexivity | right; exists k', v'; repeat split; apply conn_app_l; assumption].
  - (* DynamicArray *)
    intros [Hc|[->|(x' & -> & Hx)]].
    + left. destruct t; try discriminate Hc. eapply merge_conflict_l; eassumption.
    + unfold merge, merge_body in Em. destruct (te_eqb Bytes u) eqn:Eq.
      * injection Em as <-. right. left. reflexivity.
      * destruct u; try discriminate Hu; simpl in Em;
          try (injection Em as <-; first [left; reflexivity | right; left; reflexivity]).
        -- destruct (negb (is_definitely_signed usage)); injection Em as <-; [right; left; reflexivity|left; reflexivity].
        -- destruct (mpa_shape _ _ _ _ _ Em) as [H|H]; [right; left; exact H|left; exact H].
    + unfold merge, merge_body in Em. destruct (te_eqb (DynamicArray x') u) eqn:Eq.
      * injection Em as <-. right. right. exists x'. split; [reflexivity|apply conn_app_l, Hx].
      * destruct u; try discriminate Hu; simpl in Em;
          try (injection Em as <-; first [left; reflexivity | right; left; reflexivity
                                         | right; right; exists x'; split; [reflexivity|apply conn_app_l, Hx]]).
        -- destruct (is_definitely_signed usage); injection Em as <-;
             [left; reflexivity|right; right; exists x'; split; [reflexivity|apply conn_app_l, Hx]].
        -- destruct (mpa_shape _ _ _ _ _ Em) as [H|H]; [right; left; exact H|left; exact H].
Qed.

Lemma cov_ctor_merge_r ps t u p n m e : ne t -> ne u -> merge u t p n = Ok m ->
  cov_ctor ps t e -> cov_ctor (ps ++ eqs m) (expr m) e.
Proof.
  intros Ht Hu Em. destruct e; cbn [cov_ctor]; auto.
  - (* FixedArray *)
    intros [Hc|(x' & -> & Hx)].
    + left. destruct t; try discriminate Hc. eapply merge_conflict_r; eassumption.
    + unfold merge, merge_body in Em. destruct (te_eqb u (FixedArray x' length)) eqn:Eq.
      * apply te_eqb_eq in Eq. subst u. injection Em as <-. right. exists x'. split; [reflexivity|apply conn_app_l, Hx].
      * destruct u; try discriminate Hu; simpl in Em; try (injection Em as <-; left; reflexivity);
          try (injection Em as <-; right; exists x'; split; [reflexivity|apply conn_app_l, Hx]).
        destruct (N.eqb_spec length0 length) as [->|]; injection Em as <-; [|left; reflexivity].
        right. eexists. split; [reflexivity|]. cbn [eqs].
        eapply ConnTrans; [apply conn_app_l, Hx|apply ConnSym, conn_new].
  - (* Mapping *)
    intros [Hc|(k' & v' & -> & Hk & Hv)].
    + left. destruct t; try discriminate Hc. eapply merge_conflict_r; eassumption.
    + unfold merge, merge_body in Em. destruct (te_eqb u (Mapping k' v')) eqn:Eq.
      * apply te_eqb_eq in Eq. subst u. injection Em as <-. right. exists k', v'. repeat split; apply conn_app_l; assumption.
      * destruct u; try discriminate Hu; simpl in Em; injection Em as <-;
          try (left; reflexivity); try (right; exists k', v'; repeat split; apply conn_app_l; assumption).
        right. eexists _, _. cbn [eqs]. split; [reflexivity|]. split.
        -- eapply ConnTrans; [apply conn_app_l, Hk|apply ConnSym, conn_new2a].
        -- eapply ConnTrans; [apply conn_app_l, Hv|apply ConnSym, conn_new2b].
  - (* DynamicArray *)
    intros [Hc|[->|(x' & -> & Hx)]].
    + left. destruct t; try discriminate Hc. eapply merge_conflict_r; eassumption.
    + unfold merge, merge_body in Em. destruct (te_eqb u Bytes) eqn:Eq.
      * apply te_eqb_eq in Eq. subst u. injection Em as <-. right. left. reflexivity.
      * destruct u; try discriminate Hu; simpl in Em;
          try (injection Em as <-; first [left; reflexivity | right; left; reflexivity]).
        -- destruct (negb (is_definitely_signed usage)); injection Em as <-; [right; left; reflexivity|left; reflexivity].
        -- destruct (mpa_shape _ _ _ _ _ Em) as [H|H]; [right; left; exact H|left; exact H].
    + unfold merge, merge_body in Em. destruct (te_eqb u (DynamicArray x')) eqn:Eq.
      * apply te_eqb_eq in Eq. subst u. injection Em as <-. right. right. exists x'. split; [reflexivity|apply conn_app_l, Hx].
      * destruct u; try discriminate Hu; simpl in Em;
          try (injection Em as <-; first [left; reflexivity | right; left; reflexivity
                                         | right; right; exists x'; split; [reflexivity|apply conn_app_l, Hx]]).
        -- destruct (is_definitely_signed usage); injection Em as <-;
             [left; reflexivity|right; right; exists x'; split; [reflexivity|apply conn_app_l, Hx]].
        -- injection Em as <-. right. right. eexists. split; [reflexivity|]. cbn [eqs].
           eapply ConnTrans; [apply conn_app_l, Hx|apply ConnSym, conn_new].
        -- destruct (mpa_shape _ _ _ _ _ Em) as [H|H]; [right; left; exact H|left; exact H].
Qed.

(* the same relation, read on the concrete forest: same root *)
Definition same_class (s : dsu iset) (x y : tyvar) : Prop :=
  exists r sx sy, ds_find_top iset s x = Ok (r, sx) /\ ds_find_top iset s y = Ok (r, sy).

Definition ctor_resolved (s : dsu iset) (t e : te) : Prop :=
  match e with
  | Mapping k v => is_conflict t = true \/ exists k' v', t = Mapping k' v' /\ same_class s k k' /\ same_class s v v'
  | FixedArray x l => is_conflict t = true \/ exists x', t = FixedArray x' l /\ same_class s x x'
  | DynamicArray x => is_conflict t = true \/ t = Bytes \/ exists x', t = DynamicArray x' /\ same_class s x x'
  | _ => True
  end.

Lemma same_class_of_rep s a x y : fsim s a -> rep a x = rep a y -> same_class s x y.
Proof.
  intros Hs Hr. destruct (find_refines s a x Hs) as (sx & Ex & _). destruct (find_refines s a y Hs) as (sy & Ey & _).
  exists (rep a x), sx, sy. split; [exact Ex|]. rewrite Hr. exact Ey.
Qed.

(* C14: a class that was given constructed evidence (a mapping, a fixed array, a dynamic array) for one of
   its variables resolves to a conflict or to a type of the same kind (same length) whose component variables
   are in the classes of the evidence's component variables; a dynamic array may instead have been absorbed
   into dynamic bytes *)
Theorem ctor_components_unified_proof fuel o st s n x e : orders_ok o -> unify fuel o st = Ok (s, n) ->
  In x (ts_vars st) -> In e (ts_get st x) -> is_equal e = false ->
  exists s' t, ds_get_data iset s x = Ok (s', Some [t]) /\ ctor_resolved s t e.
Proof.
  intros Ho E Hx He Ee.
  destruct (unify_ok_refines _ _ _ _ _ E) as (a & Ea & Hs).
  destruct (a_unify_post _ _ _ _ _ Ho Ea) as [HA Hp].
  destruct (get_data_refines s a x Hs) as (s' & Eg & _).
  destruct (a_unify_cover st ne ne_merge_closed (fun v e _ H => H) cov_ctor cov_ctor_mono cov_ctor_self cov_ctor_merge_l cov_ctor_merge_r o fuel a n Ho Ea)
    as (ps & [_ HPI] & HC).
  destruct (HC x e (conj Hx (conj He Ee))) as (t & Ht & Hcov).
  specialize (Hp (rep a x)). destruct Hp as [Hlen _].
  assert (Hd : dat a (rep a x) = [t]).
  { destruct (dat a (rep a x)) as [|t0 [|t1 l]]; [destruct Ht| |cbn in Hlen; lia]. destruct Ht as [->|[]]. reflexivity. }
  exists s', t. split.
  - rewrite Eg. unfold dat in Hd. destruct (fm_get (rep a x) (a_data a)) as [l|]; cbn [or_ident] in Hd; [rewrite Hd; reflexivity|discriminate].
  - destruct e; cbn [ctor_resolved cov_ctor] in *; auto.
    + destruct Hcov as [H|(x' & -> & H)]; [left; exact H|right; exists x'; split; [reflexivity|]].
      eapply same_class_of_rep; [exact Hs|apply HPI, H].
    + destruct Hcov as [H|(k' & v' & -> & H1 & H2)]; [left; exact H|right; exists k', v'; split; [reflexivity|]].
      split; (eapply same_class_of_rep; [exact Hs|apply HPI; assumption]).
    + destruct Hcov as [H|[H|(x' & -> & H)]]; [left; exact H|right; left; exact H|right; right; exists x'; split; [reflexivity|]].
      eapply same_class_of_rep; [exact Hs|apply HPI, H].
Qed.

(* two pieces of constructed evidence of the same kind in one class *)
Definition pair_unified (s : dsu iset) (t e1 e2 : te) : Prop :=
  match e1, e2 with
  | Mapping k1 v1, Mapping k2 v2 => is_conflict t = true \/ (same_class s k1 k2 /\ same_class s v1 v2)
  | FixedArray x1 l1, FixedArray x2 l2 => is_conflict t = true \/ (l1 = l2 /\ same_class s x1 x2)
  | DynamicArray x1, DynamicArray x2 => is_conflict t = true \/ t = Bytes \/ same_class s x1 x2
  | _, _ => True
  end.

Theorem ctor_pair_unified_proof fuel o st s n x y e1 e2 : orders_ok o -> unify fuel o st = Ok (s, n) ->
  In x (ts_vars st) -> In e1 (ts_get st x) -> In y (ts_vars st) -> In e2 (ts_get st y) ->
  is_equal e1 = false -> is_equal e2 = false -> same_class s x y ->
  exists s' t, ds_get_data iset s x = Ok (s', Some [t]) /\ pair_unified s t e1 e2.
Proof.
  intros Ho E Hx He1 Hy He2 Ee1 Ee2 Hxy.
  destruct (unify_ok_refines _ _ _ _ _ E) as (a & Ea & Hs).
  destruct (a_unify_post _ _ _ _ _ Ho Ea) as [HA Hp].
  destruct (get_data_refines s a x Hs) as (s' & Eg & _).
  assert (Hrep : rep a x = rep a y).
  { destruct Hxy as (r & sx & sy & Ex & Ey).
    destruct (find_refines s a x Hs) as (sx' & Ex' & _). destruct (find_refines s a y Hs) as (sy' & Ey' & _).
    rewrite Ex in Ex'. rewrite Ey in Ey'. congruence. }
  destruct (a_unify_cover st ne ne_merge_closed (fun v e _ H => H) cov_ctor cov_ctor_mono cov_ctor_self cov_ctor_merge_l cov_ctor_merge_r o fuel a n Ho Ea)
    as (ps & [_ HPI] & HC).
  destruct (HC x e1 (conj Hx (conj He1 Ee1))) as (t & Ht & Hcov1).
  destruct (HC y e2 (conj Hy (conj He2 Ee2))) as (t2 & Ht2 & Hcov2).
  specialize (Hp (rep a x)). destruct Hp as [Hlen _].
  assert (Hd : dat a (rep a x) = [t]).
  { destruct (dat a (rep a x)) as [|t0 [|t1 l]]; [destruct Ht| |cbn in Hlen; lia]. destruct Ht as [->|[]]. reflexivity. }
  rewrite <- Hrep, Hd in Ht2. destruct Ht2 as [<-|[]].
  exists s', t. split.
  - rewrite Eg. unfold dat in Hd. destruct (fm_get (rep a x) (a_data a)) as [l|]; cbn [or_ident] in Hd; [rewrite Hd; reflexivity|discriminate].
  - assert (SC : forall u w, Conn ps u w -> same_class s u w).
    { intros u w H. eapply same_class_of_rep; [exact Hs|apply HPI, H]. }
    destruct e1, e2; cbn [pair_unified cov_ctor] in *; auto.
    + destruct Hcov1 as [H|(x1 & -> & H1)]; [left; exact H|]. destruct Hcov2 as [H|(x2 & [= <- <-] & H2)]; [discriminate H|].
      right. split; [reflexivity|]. apply SC. eapply ConnTrans; [exact H1|apply ConnSym, H2].
    + destruct Hcov1 as [H|(k1 & v1 & -> & H1 & H1')]; [left; exact H|].
      destruct Hcov2 as [H|(k2 & v2 & [= <- <-] & H2 & H2')]; [discriminate H|].
      right. split; apply SC; (eapply ConnTrans; [eassumption|apply ConnSym; eassumption]).
    + destruct Hcov1 as [H|[H|(x1 & -> & H1)]]; [left; exact H|right; left; exact H|].
      destruct Hcov2 as [H|[H|(x2 & [= <-] & H2)]]; [discriminate H|discriminate H|].
      right. right. apply SC. eapply ConnTrans; [exact H1|apply ConnSym, H2].
Qed.

(* the exception is real: a class that resolves to dynamic bytes can hold two dynamic arrays whose elements
   are in different classes (Bytes first in the fold: neither array ever meets the other) *)
Theorem ctor_components_bytes_refuted_proof :
  exists st s n, unify 5 orders_sorted st = Ok (s, n) /\
    In (DynamicArray 1) (ts_get st 0) /\ In (DynamicArray 2) (ts_get st 0) /\
    (exists s', ds_get_data iset s 0 = Ok (s', Some [Bytes])) /\ root_of s 1 <> root_of s 2.
Proof.
  exists (mk_tstate [(0, [Bytes; DynamicArray 1; DynamicArray 2]); (1, []); (2, [])] 3).
  eexists _, _. split; [vm_compute; reflexivity|]. split; [right; left; reflexivity|]. split; [right; right; left; reflexivity|].
  split; [eexists; vm_compute; reflexivity|]. vm_compute. discriminate.
Qed.

(* ========================================================================================== *)
(* 14. Without packed encodings: what a round does, and invariants that relate the data of a
       class to ALL the evidence given for its members                                         *)

Lemma round_pf_shape o rnd a nxt a' n' p : orders_ok o -> ASP npe a ->
  round a_forest o rnd a nxt = Ok (a', n', p) ->
  exists settled acc, plan_classes o rnd (snd (a_sets a)) (acc0 nxt) = Ok (settled, acc) /\
    a' = fold_left un_f (o_eqs o rnd (dedup pair_eqb (r_eqs acc))) (fold_left set_f settled (fst (a_sets a))).
Proof.
  intros Ho HP. pose proof HP as [HA HD]. rewrite round_a.
  destruct (a_sets_view a HA) as (HA1 & _ & Hd1 & Hl).
  assert (Hsets : forall root infs, In (root, infs) (snd (a_sets a)) -> Forall npe infs).
  { intros root infs Hin. rewrite Hl in Hin. apply in_map_iff in Hin as (k & [= <- <-] & _).
    apply Forall_forall. intros e He. eapply HD, He. }
  destruct (plan_np o rnd Ho (snd (a_sets a)) (acc0 nxt) Hsets (conj eq_refl eq_refl)) as (settled & acc & Ep & [J1 J2] & Hn).
  rewrite Ep. cbn [ubind fst snd]. intros [= <- _ _]. exists settled, acc. split; [reflexivity|].
  destruct Ho as (_ & _ & _ & Hon & _ & Hoj).
  unfold a_apply. rewrite J1, J2. cbn [dedup].
  set (l1 := o_judg o rnd _). set (l3 := o_newv o rnd _).
  assert (E1 : l1 = []) by (apply o_nil, Hoj). assert (E3 : l3 = []) by (apply o_nil, Hon). rewrite E1, E3. reflexivity.
Qed.

Section ClassPred.
  Variable st : tstate.

  (* the evidence given for the members of the class represented by r *)
  Definition ev (a : astate iset) (r : tyvar) (e : te) : Prop := exists y, orig st y e /\ rep a y = r.

  Variable Q : (te -> Prop) -> te -> Prop.
  Hypothesis Q_mono : forall (E E' : te -> Prop) t, (forall e, E e -> E' e) -> Q E t -> Q E' t.
  Hypothesis Q_self : forall (E : te -> Prop) e, npe e -> E e -> Q E e.
  Hypothesis Q_merge : forall (E : te -> Prop) t u p n m, npe t -> npe u -> Q E t -> Q E u ->
    merge t u p n = Ok m -> Q E (expr m).

  Definition CP (a : astate iset) : Prop := forall r t, In t (dat a r) -> Q (ev a r) t.

  Lemma cp_ins a v : CP a -> CP (ins_f a v).
  Proof.
    intros H r t. unfold ins_f. rewrite dat_insert. intros Ht. eapply Q_mono; [|apply H, Ht].
    intros e (y & Hy & E). exists y. rewrite rep_insert. auto.
  Qed.

  Lemma cp_add a v e : orig st v e -> npe e -> CP a -> CP (a_add a v [e]).
  Proof.
    intros Ho He H r t. rewrite dat_add.
    assert (Hev : forall r0 e0, ev a r0 e0 -> ev (a_add a v [e]) r0 e0).
    { intros r0 e0 (y & Hy & E). exists y. rewrite rep_add. auto. }
    destruct (N.eqb_spec r (rep a v)) as [->|Hne].
    - rewrite iset_union_in. intros [Ht|[<-|[]]].
      + eapply Q_mono; [apply Hev|apply H, Ht].
      + apply Q_self; [exact He|]. exists v. rewrite rep_add. auto.
    - intros Ht. eapply Q_mono; [apply Hev|apply H, Ht].
  Qed.

  Lemma cp_un a p : AS a -> CP a -> CP (un_f a p).
  Proof.
    intros HA H r t. unfold un_f. rewrite (dat_union a _ _ r HA).
    assert (Hrep : forall u, rep (a_un a (fst p) (snd p)) u = if rep a u =? rep a (snd p) then rep a (fst p) else rep a u)
      by (intros u; apply rep_union, HA).
    destruct (N.eqb_spec (rep a (fst p)) (rep a (snd p))) as [Heq|Hne].
    - intros Ht. eapply Q_mono; [|apply H, Ht]. intros e (y & Hy & E). exists y. split; [exact Hy|]. rewrite Hrep.
      destruct (N.eqb_spec (rep a y) (rep a (snd p))); congruence.
    - destruct (N.eqb_spec r (rep a (fst p))) as [->|H1].
      + rewrite iset_union_in. intros [Ht|Ht]; (eapply Q_mono; [|apply H, Ht]); intros e (y & Hy & E); exists y; (split; [exact Hy|]);
          rewrite Hrep, E.
        * destruct (N.eqb_spec (rep a (fst p)) (rep a (snd p))); [congruence|reflexivity].
        * rewrite N.eqb_refl. reflexivity.
      + destruct (N.eqb_spec r (rep a (snd p))) as [->|H2]; [intros []|].
        intros Ht. eapply Q_mono; [|apply H, Ht]. intros e (y & Hy & E). exists y. split; [exact Hy|]. rewrite Hrep, E.
        destruct (N.eqb_spec r (rep a (snd p))); [congruence|reflexivity].
  Qed.

  Lemma cp_init o : orders_ok o -> (forall v e, In e (ts_get st v) -> ne e -> npe e) -> AS (a_init o st) /\ CP (a_init o st).
  Proof.
    intros Ho Hnpe. pose proof Ho as (Hov & Hoi & _). unfold a_init. set (vars := o_vars o (ts_vars st)).
    assert (Hvars : forall v, In v vars -> In v (ts_vars st)) by (intros v Hv; eapply Permutation_in; [apply Hov|exact Hv]).
    apply (fold_inv (fun a => AS a /\ CP a)).
    - intros a v Hv [HA HC]. unfold init_var_f.
      assert (Hl : forall e, In e (o_init o v (ts_get st v)) -> In e (ts_get st v))
        by (intros e He; eapply Permutation_in; [apply Hoi|exact He]).
      revert Hl. generalize (o_init o v (ts_get st v)). intros l Hl.
      apply (fold_inv (fun a => AS a /\ CP a)); [|auto].
      intros b e He [HB HCb]. split; [apply as_init_f, HB|].
      destruct e; cbn [init_f]; try (exact (cp_un b (v, _) HB HCb));
        (apply cp_add; [split; [apply Hvars, Hv|split; [apply Hl, He|reflexivity]]|apply (Hnpe v); [apply Hl, He|reflexivity]|exact HCb]).
    - apply (fold_inv (fun a => AS a /\ CP a)).
      + intros a v _ [HA HC]. split; [apply as_ins_f, HA|apply cp_ins, HC].
      + split; [apply as_new|]. intros r t [].
  Qed.

  Lemma fold_class_q (E : te -> Prop) rest : forall cur root acc c acc',
    Forall npe (cur :: rest) -> Q E cur -> Forall (Q E) rest ->
    fold_class cur rest root acc = Ok (c, acc') -> Q E c.
  Proof.
    induction rest as [|u t IH]; intros cur root acc c acc' Hn Hc Hr; cbn [fold_class].
    - intros [= <- _]. exact Hc.
    - inversion Hn as [|? ? Nc Nr]; subst. inversion Nr as [|? ? Nu Nt]; subst. inversion Hr as [|? ? Qu Qt]; subst.
      destruct (merge cur u root (r_next acc)) as [m| |] eqn:Em; try discriminate.
      apply IH; [|exact (Q_merge E _ _ _ _ _ Nc Nu Hc Qu Em)|exact Qt].
      constructor; [|exact Nt]. apply (npe_merge_closed _ _ _ _ _ Nc Nu Em).
  Qed.

  Lemma cp_sets a : AS a -> CP a -> CP (fst (a_sets a)).
  Proof.
    intros HA H r t. destruct (a_sets_view a HA) as (_ & _ & Hd & _). rewrite Hd. intros Ht.
    eapply Q_mono; [|apply H, Ht]. intros e (y & Hy & E). exists y. rewrite rep_sets. auto.
  Qed.

  Lemma cp_round o rnd a nxt a' n' p : orders_ok o -> ASP npe a -> CP a ->
    round a_forest o rnd a nxt = Ok (a', n', p) -> CP a'.
  Proof.
    intros Ho HP HC Er. pose proof HP as [HA HD].
    destruct (round_pf_shape _ _ _ _ _ _ _ Ho HP Er) as (settled & acc & Ep & ->).
    destruct (a_sets_view a HA) as (HA1 & _ & Hd1 & Hl).
    destruct (after_settle _ _ _ _ _ _ HA Ep) as (H1 & H2 & H3 & H4 & H5).
    set (a2 := fold_left set_f settled (fst (a_sets a))) in *.
    assert (HC2 : CP a2).
    { intros r t. rewrite H3. destruct (lookup r settled) as [[k c]|] eqn:El.
      - intros [<-|[]]. cbn [snd]. unfold lookup in El. apply find_some in El as [Hin Hk]. cbn [fst] in Hk.
        apply N.eqb_eq in Hk. subst k.
        destruct (plan_settled _ _ _ _ _ _ Ep) as [_ Hs]. destruct (Hs r c Hin) as (infs & cur & rest & a1 & a2' & Hi & Hoc & Hf).
        rewrite Hl in Hi. apply in_map_iff in Hi as (k & [= -> <-] & _).
        assert (Hperm : Permutation (cur :: rest) (dat a r)).
        { rewrite <- Hoc. destruct Ho as (_ & _ & Hocl & _). apply Hocl. }
        assert (Hall : forall t0, In t0 (cur :: rest) -> npe t0 /\ Q (ev a2 r) t0).
        { intros t0 Ht0. assert (Hin0 : In t0 (dat a r)) by (eapply Permutation_in; eassumption). split; [eapply HD, Hin0|].
          eapply Q_mono; [|apply HC, Hin0]. intros e (y & Hy & E). exists y. rewrite H2. auto. }
        eapply fold_class_q; [| | |exact Hf].
        + apply Forall_forall. intros t0 Ht0. apply Hall, Ht0.
        + apply Hall. left. reflexivity.
        + apply Forall_forall. intros t0 Ht0. apply Hall. right. exact Ht0.
      - intros Ht. eapply Q_mono; [|apply HC, Ht]. intros e (y & Hy & E). exists y. rewrite H2. auto. }
    assert (G : forall es b, AS b -> CP b -> CP (fold_left un_f es b)).
    { induction es as [|q t IH]; intros b HB HCb; cbn [fold_left]; [exact HCb|].
      apply IH; [apply as_un_f, HB|apply cp_un; assumption]. }
    apply G; assumption.
  Qed.

  Lemma cp_loop o fuel : orders_ok o -> forall rnd a nxt a' n', ASP npe a -> CP a ->
    unify_loop a_forest o fuel rnd a nxt = Ok (a', n') -> CP a'.
  Proof.
    intros Ho. induction fuel as [|f IH]; intros rnd a nxt a' n' HP HC; cbn [unify_loop]; [discriminate|].
    destruct (round a_forest o rnd a nxt) as [[[a1 n1] p1]| |] eqn:Er; cbn [ubind]; try discriminate.
    pose proof (cp_round _ _ _ _ _ _ _ Ho HP HC Er) as HC1.
    pose proof (round_dp npe npe_merge_closed _ _ _ _ _ _ _ Ho HP Er) as HP1.
    destruct p1; [apply IH; assumption|]. intros [= <- _]. exact HC1.
  Qed.

  Theorem a_unify_class_pred o fuel a n : orders_ok o -> packed_free st = true ->
    a_unify fuel o st = Ok (a, n) -> CP a.
  Proof.
    intros Ho Hpf E. unfold a_unify, unify_gen in E. rewrite init_forest_a in E. cbn [ubind] in E.
    assert (Hnpe : forall v e, In e (ts_get st v) -> ne e -> npe e).
    { intros v e He Hne. split; [exact Hne|].
      unfold packed_free in Hpf. rewrite forallb_forall in Hpf. unfold ts_get in He.
      destruct (find (fun p => fst p =? v) (ts_inf st)) as [p|] eqn:Ef; [|destruct He].
      apply find_some in Ef as [Hin _]. specialize (Hpf p Hin). rewrite forallb_forall in Hpf. apply Hpf, He. }
    destruct (cp_init o Ho Hnpe) as [_ HC0].
    eapply cp_loop; [exact Ho| |exact HC0|exact E]. apply asp_init; assumption.
  Qed.
End ClassPred.

(* ========================================================================================== *)
(* 15. C15 at the level of unification: a class of word / Any evidence resolves to the join    *)

Definition wordlike (e : te) : Prop := is_word e = true \/ is_any e = true.
(* d is an upper bound of the word evidence in E *)
Definition ubd (E : te -> Prop) (d : wordev) : Prop := forall w u, E (Word w u) -> wordev_le (w, u) d = true.

(* what a data element of a class whose evidence E is all words / Any looks like *)
Definition Qw (E : te -> Prop) (t : te) : Prop :=
  (forall e, E e -> wordlike e) ->
  (exists e, E e) /\
  match t with
  | Word w u => (forall d, ubd E d -> wordev_le (w, u) d = true) /\ (exists w' u', E (Word w' u'))
  | Any => True
  | Conflict _ _ => forall d, ~ ubd E d
  | _ => False
  end.

Lemma Qw_mono (E E' : te -> Prop) t : (forall e, E e -> E' e) -> Qw E t -> Qw E' t.
Proof.
  intros Hs H Hw. destruct (H (fun e He => Hw e (Hs e He))) as [(e0 & He0) Ht]. split; [exists e0; auto|].
  destruct t; auto.
  - destruct Ht as [H1 (w' & u' & H2)]. split; [|exists w', u'; auto]. intros d Hd. apply H1. intros w u Hwu. apply Hd, Hs, Hwu.
  - intros d Hd. apply (Ht d). intros w u Hwu. apply Hd, Hs, Hwu.
Qed.

Lemma Qw_self (E : te -> Prop) e : npe e -> E e -> Qw E e.
Proof.
  intros _ He Hw. split; [exists e; exact He|]. destruct (Hw e He) as [H|H]; destruct e; try discriminate H; [|exact I].
  split; [intros d Hd; apply Hd, He|eauto].
Qed.

Lemma Qw_merge (E : te -> Prop) t u p n m : npe t -> npe u -> Qw E t -> Qw E u -> merge t u p n = Ok m -> Qw E (expr m).
Proof.
  intros [Nt _] [Nu _] Ht Hu Em Hw. destruct (Ht Hw) as [Hex Ht']. destruct (Hu Hw) as [_ Hu']. split; [exact Hex|].
  destruct t as [| | wt ut | | | | | |cs rs]; try contradiction.
  - (* Any, u *) destruct u as [| | wu uu | | | | | |cs rs]; try contradiction.
    + unfold merge, merge_body in Em. simpl in Em. injection Em as <-. exact I.
    + destruct (any_identity_proof (Word wu uu) p n eq_refl eq_refl) as [_ E2]. rewrite Em in E2. injection E2 as ->. exact Hu'.
    + pose proof (merge_conflict_r cs rs Any p n m eq_refl Em) as Hc. destruct (expr m); try discriminate Hc. exact Hu'.
  - (* Word, u *) destruct u as [| | wu uu | | | | | |cs rs]; try contradiction.
    + destruct (any_identity_proof (Word wt ut) p n eq_refl eq_refl) as [E1 _]. rewrite Em in E1. injection E1 as ->. exact Ht'.
    + destruct (merge_word_word wt ut wu uu p n) as (e & E1 & He). rewrite Em in E1. injection E1 as ->.
      destruct Ht' as [Lt Xt]. destruct Hu' as [Lu _]. cbn [expr].
      destruct (wordev_join (wt, ut) (wu, uu)) as [[wj uj]|] eqn:Ej.
      * subst e. cbn [word_of fst snd]. split; [|exact Xt]. intros d Hd.
        destruct (wordev_join_least (wt, ut) (wu, uu) d (Lt d Hd) (Lu d Hd)) as (c & Ec & Hc). rewrite Ej in Ec. injection Ec as <-. exact Hc.
      * destruct e; try discriminate He. intros d Hd.
        destruct (wordev_join_least (wt, ut) (wu, uu) d (proj1 (conj (Lt d Hd) I)) (Lu d Hd)) as (c & Ec & _). rewrite Ej in Ec. discriminate.
    + pose proof (merge_conflict_r cs rs (Word wt ut) p n m eq_refl Em) as Hc. destruct (expr m); try discriminate Hc. exact Hu'.
  - (* Conflict, u *)
    pose proof (merge_conflict_l cs rs u p n m Nu Em) as Hc. destruct (expr m); try discriminate Hc. exact Ht'.
Qed.

(* a word of the evidence is below every word it has been merged into, and never disappears into Any *)
Definition cov_w (ps : list (tyvar * tyvar)) (t e : te) : Prop :=
  match e with
  | Word w u => match t with
                | Any => False
                | Word w' u' => wordev_le (w, u) (w', u') = true
                | _ => True
                end
  | _ => True
  end.

Lemma cov_w_mono ps ps' t e : incl ps ps' -> cov_w ps t e -> cov_w ps' t e.
Proof. intros _ H. exact H. Qed.

Lemma cov_w_self ps e : npe e -> cov_w ps e e.
Proof. intros _. destruct e; cbn [cov_w]; auto. apply wordev_le_refl. Qed.

Lemma cov_w_merge_l ps t u p n m e : npe t -> npe u -> merge t u p n = Ok m -> cov_w ps t e -> cov_w (ps ++ eqs m) (expr m) e.
Proof.
  intros [Nt Pt] [Nu Pu] Em. destruct e as [| | w0 u0 | | | | | |]; cbn [cov_w]; auto.
  destruct t as [| | wt ut | | | | | |]; try discriminate Nt; try discriminate Pt.
  - (* t = Any *) intros [].
  - (* t = Word *) intros Hle. destruct u as [| | wu uu | | | | | |]; try discriminate Nu; try discriminate Pu.
    + destruct (any_identity_proof (Word wt ut) p n eq_refl eq_refl) as [E1 _]. rewrite Em in E1. injection E1 as ->. exact Hle.
    + destruct (merge_word_word wt ut wu uu p n) as (e & E1 & He). rewrite Em in E1. injection E1 as ->. cbn [expr].
      destruct (wordev_join (wt, ut) (wu, uu)) as [[wj uj]|] eqn:Ej.
      * subst e. cbn [word_of fst snd]. destruct (wordev_join_ub _ _ _ Ej) as [H1 _]. eapply wordev_le_trans; eassumption.
      * destruct e; try discriminate He. exact I.
    + unfold merge, merge_body in Em. simpl in Em. destruct (negb (is_definitely_signed ut)); injection Em as <-; exact I.
    + unfold merge, merge_body in Em. simpl in Em. injection Em as <-. exact I.
    + unfold merge, merge_body in Em. simpl in Em. injection Em as <-. exact I.
    + unfold merge, merge_body in Em. simpl in Em. destruct (is_definitely_signed ut); injection Em as <-; exact I.
    + unfold merge, merge_body in Em. simpl in Em. injection Em as <-. exact I.
  - (* t = Bytes *) intros _. unfold merge, merge_body in Em. destruct (te_eqb Bytes u); [injection Em as <-; exact I|].
    destruct u; try discriminate Nu; try discriminate Pu; simpl in Em; try (injection Em as <-; exact I).
    destruct (negb (is_definitely_signed usage)); injection Em as <-; exact I.
  - (* t = FixedArray *) intros _. unfold merge, merge_body in Em. destruct (te_eqb (FixedArray element length) u); [injection Em as <-; exact I|].
    destruct u; try discriminate Nu; try discriminate Pu; simpl in Em; try (injection Em as <-; exact I).
    destruct (length =? length0); injection Em as <-; exact I.
  - (* t = Mapping *) intros _. unfold merge, merge_body in Em. destruct (te_eqb (Mapping key value) u); [injection Em as <-; exact I|].
    destruct u; try discriminate Nu; try discriminate Pu; simpl in Em; injection Em as <-; exact I.
  - (* t = DynamicArray *) intros _. unfold merge, merge_body in Em. destruct (te_eqb (DynamicArray element) u); [injection Em as <-; exact I|].
    destruct u; try discriminate Nu; try discriminate Pu; simpl in Em; try (injection Em as <-; exact I).
    destruct (is_definitely_signed usage); injection Em as <-; exact I.
  - (* t = Conflict *) intros _. pose proof (merge_conflict_l conflicts reasons u p n m Nu Em) as Hc. destruct (expr m); try discriminate Hc. exact I.
Qed.

Lemma cov_w_merge_r ps t u p n m e : npe t -> npe u -> merge u t p n = Ok m -> cov_w ps t e -> cov_w (ps ++ eqs m) (expr m) e.
Proof.
  intros [Nt Pt] [Nu Pu] Em. destruct e as [| | w0 u0 | | | | | |]; cbn [cov_w]; auto.
  destruct t as [| | wt ut | | | | | |]; try discriminate Nt; try discriminate Pt.
  - (* t = Any *) intros [].
  - (* t = Word *) intros Hle. destruct u as [| | wu uu | | | | | |]; try discriminate Nu; try discriminate Pu.
    + destruct (any_identity_proof (Word wt ut) p n eq_refl eq_refl) as [_ E1]. rewrite Em in E1. injection E1 as ->. exact Hle.
    + destruct (merge_word_word wu uu wt ut p n) as (e & E1 & He). rewrite Em in E1. injection E1 as ->. cbn [expr].
      destruct (wordev_join (wu, uu) (wt, ut)) as [[wj uj]|] eqn:Ej.
      * subst e. cbn [word_of fst snd]. destruct (wordev_join_ub _ _ _ Ej) as [_ H1]. eapply wordev_le_trans; eassumption.
      * destruct e; try discriminate He. exact I.
    + unfold merge, merge_body in Em. simpl in Em. destruct (negb (is_definitely_signed ut)); injection Em as <-; exact I.
    + unfold merge, merge_body in Em. simpl in Em. injection Em as <-. exact I.
    + unfold merge, merge_body in Em. simpl in Em. injection Em as <-. exact I.
    + unfold merge, merge_body in Em. simpl in Em. destruct (is_definitely_signed ut); injection Em as <-; exact I.
    + unfold merge, merge_body in Em. simpl in Em. injection Em as <-. exact I.
  - (* t = Bytes *) intros _. unfold merge, merge_body in Em. destruct (te_eqb u Bytes) eqn:Eq; [apply te_eqb_eq in Eq; subst u; injection Em as <-; exact I|].
    destruct u; try discriminate Nu; try discriminate Pu; simpl in Em; try (injection Em as <-; exact I).
    destruct (negb (is_definitely_signed usage)); injection Em as <-; exact I.
  - (* t = FixedArray *) intros _. unfold merge, merge_body in Em.
    destruct (te_eqb u (FixedArray element length)) eqn:Eq; [apply te_eqb_eq in Eq; subst u; injection Em as <-; exact I|].
    destruct u; try discriminate Nu; try discriminate Pu; simpl in Em; try (injection Em as <-; exact I).
    destruct (length0 =? length); injection Em as <-; exact I.
  - (* t = Mapping *) intros _. unfold merge, merge_body in Em.
    destruct (te_eqb u (Mapping key value)) eqn:Eq; [apply te_eqb_eq in Eq; subst u; injection Em as <-; exact I|].
    destruct u; try discriminate Nu; try discriminate Pu; simpl in Em; injection Em as <-; exact I.
  - (* t = DynamicArray *) intros _. unfold merge, merge_body in Em.
    destruct (te_eqb u (DynamicArray element)) eqn:Eq; [apply te_eqb_eq in Eq; subst u; injection Em as <-; exact I|].
    destruct u; try discriminate Nu; try discriminate Pu; simpl in Em; try (injection Em as <-; exact I).
    destruct (is_definitely_signed usage); injection Em as <-; exact I.
  - (* t = Conflict *) intros _. pose proof (merge_conflict_r conflicts reasons u p n m Nu Em) as Hc. destruct (expr m); try discriminate Hc. exact I.
Qed.

(* the word evidence of a list of expressions *)
Definition words_of (l : list te) : list wordev := flat_map (fun t => match t with Word w u => [(w, u)] | _ => [] end) l.

(* all the non-equality evidence given for the variables that end in the class of x, on the concrete forest *)
Definition class_evidence_of (st : tstate) (s : dsu iset) (x : tyvar) : list te :=
  flat_map (fun v => if root_of s v =? root_of s x then filter (fun e => negb (is_equal e)) (ts_get st v) else []) (ts_vars st).

(* the resolution C15 asks for *)
Definition resolves_to_join (evd : list te) (d : option iset) : Prop :=
  match words_of evd with
  | [] => match evd with
          | [] => d = None \/ d = Some []
          | _ => d = Some [Any]
          end
  | x :: l =>
      match wordev_join_all x l with
      | Some j => d = Some [word_of j]
      | None => exists c, d = Some [c] /\ is_conflict c = true
      end
  end.

Lemma in_words_of l w u : In (w, u) (words_of l) <-> In (Word w u) l.
Proof.
  unfold words_of. rewrite in_flat_map. split.
  - intros (t & Ht & Hin). destruct t; try (destruct Hin; fail). destruct Hin as [[= <- <-]|[]]. exact Ht.
  - intros H. exists (Word w u). split; [exact H|left; reflexivity].
Qed.

Theorem a_unify_words_join o fuel st a n x (evd : list te) : orders_ok o -> packed_free st = true ->
  a_unify fuel o st = Ok (a, n) ->
  (forall e, In e evd <-> ev st a (rep a x) e) -> (forall e, In e evd -> wordlike e) ->
  resolves_to_join evd (match dat a (rep a x) with [] => match fm_get (rep a x) (a_data a) with None => None | Some l => Some l end | l => Some l end).
Proof.
  intros Ho Hpf Ea Hev Hwl.
  destruct (a_unify_post _ _ _ _ _ Ho Ea) as [HA Hp].
  assert (Hnpe : forall v e, In e (ts_get st v) -> ne e -> npe e).
  { intros v e He Hne. split; [exact Hne|].
    unfold packed_free in Hpf. rewrite forallb_forall in Hpf. unfold ts_get in He.
    destruct (find (fun p => fst p =? v) (ts_inf st)) as [p|] eqn:Ef; [|destruct He].
    apply find_some in Ef as [Hin _]. specialize (Hpf p Hin). rewrite forallb_forall in Hpf. apply Hpf, He. }
  pose proof (a_unify_class_pred st Qw Qw_mono Qw_self Qw_merge o fuel a n Ho Hpf Ea) as HCP.
  destruct (a_unify_cover st npe npe_merge_closed Hnpe cov_w cov_w_mono cov_w_self cov_w_merge_l cov_w_merge_r o fuel a n Ho Ea)
    as (ps & _ & HC).
  set (r := rep a x) in *.
  assert (HwlE : forall e, ev st a r e -> wordlike e) by (intros e He; apply Hwl, Hev, He).
  destruct (Hp r) as [Hlen _].
  unfold resolves_to_join.
  (* the data of the class: nothing, or one element t *)
  destruct (dat a r) as [|t [|t2 l]] eqn:Ed; [| |cbn in Hlen; lia].
  - (* no data: then there is no evidence at all *)
    assert (Hnone : evd = []).
    { destruct evd as [|e0 evd']; [reflexivity|]. exfalso.
      assert (He0 : ev st a r e0) by (apply Hev; left; reflexivity). destruct He0 as (y & Hy & Er).
      destruct (HC y e0 Hy) as (t & Ht & _). rewrite Er, Ed in Ht. destruct Ht. }
    subst evd. cbn [words_of flat_map]. unfold dat in Ed.
    destruct (fm_get r (a_data a)) as [l0|]; [right; cbn [or_ident] in Ed; subst l0; reflexivity|left; reflexivity].
  - assert (Ht : In t (dat a r)) by (rewrite Ed; left; reflexivity).
    destruct (HCP r t Ht HwlE) as [(e0 & He0) HQ].
    assert (Hub : forall w u j, t = word_of j -> In (w, u) (words_of evd) -> wordev_le (w, u) j = true).
    { intros w u j -> Hin. apply in_words_of, Hev in Hin. destruct Hin as (y & Hy & Er).
      destruct (HC y (Word w u) Hy) as (t' & Ht' & Hcov). rewrite Er, Ed in Ht'. destruct Ht' as [<-|[]].
      destruct j as [wj uj]. exact Hcov. }
    assert (HnotAny : words_of evd <> [] -> t <> Any).
    { intros Hne ->. destruct (words_of evd) as [|[w u] l'] eqn:Ew; [congruence|].
      assert (Hin : In (w, u) (words_of evd)) by (rewrite Ew; left; reflexivity).
      apply in_words_of, Hev in Hin. destruct Hin as (y & Hy & Er).
      destruct (HC y (Word w u) Hy) as (t' & Ht' & Hcov). rewrite Er, Ed in Ht'. destruct Ht' as [<-|[]]. exact Hcov. }
    destruct (words_of evd) as [|xw lw] eqn:Ew.
    + (* only Any evidence *)
      assert (Hevd : evd <> []) by (intros ->; apply Hev in He0; destruct He0).
      destruct evd as [|e1 evd']; [congruence|].
      assert (Hnow : forall w u, ~ ev st a r (Word w u)).
      { intros w u Hwu. apply Hev, in_words_of in Hwu. rewrite Ew in Hwu. destruct Hwu. }
      destruct t; try contradiction.
      * reflexivity.
      * destruct HQ as [_ (w' & u' & Hx)]. exfalso. eapply Hnow, Hx.
      * exfalso. apply (HQ (None, UBytes)). intros w u Hwu. exfalso. eapply Hnow, Hwu.
    + specialize (HnotAny ltac:(discriminate)).
      assert (HubE : forall d, (forall y, In y (xw :: lw) -> wordev_le y d = true) -> ubd (ev st a r) d).
      { intros d Hd w u Hwu. apply Hd. apply Hev, in_words_of in Hwu. rewrite Ew in Hwu. exact Hwu. }
      destruct (wordev_join_all xw lw) as [j0|] eqn:Ej.
      * pose proof (wordev_join_all_ub xw lw j0 Ej) as Hj0.
        destruct t as [| | wt ut | | | | | |cs rs]; try contradiction.
        -- destruct HQ as [Hleast _].
           assert (H1 : wordev_le (wt, ut) j0 = true) by (apply Hleast, HubE, Hj0).
           assert (H2 : wordev_le j0 (wt, ut) = true).
           { destruct (wordev_join_all_least xw lw (wt, ut)) as (c & Ec & Hc).
             - intros [w u] Hy. apply (Hub w u (wt, ut) eq_refl). exact Hy.
             - rewrite Ej in Ec. injection Ec as <-. exact Hc. }
           pose proof (wordev_le_antisym _ _ H1 H2) as Eq. subst j0. reflexivity.
        -- exfalso. apply (HQ j0), HubE, Hj0.
      * destruct t as [| | wt ut | | | | | |cs rs]; try contradiction.
        -- exfalso. destruct (wordev_join_all_least xw lw (wt, ut)) as (c & Ec & _).
           ++ intros [w u] Hy. apply (Hub w u (wt, ut) eq_refl). exact Hy.
           ++ rewrite Ej in Ec. discriminate.
        -- eexists. split; reflexivity.
Qed.

Lemma root_of_rep s a v : fsim s a -> root_of s v = rep a v.
Proof. intros Hs. destruct (find_refines s a v Hs) as (s' & E & _). unfold root_of. rewrite E. reflexivity. Qed.

(* C15, unification level: in a judgement set without packed encodings, a class all of whose evidence (over
   ALL variables that end in it) is words / Any resolves to the lattice join of that evidence -- the known
   width and the most specific usage are kept -- and to a conflict exactly when the join is the top element;
   no evidence: no type (Any); only Any: Any *)
Theorem unify_words_join_proof fuel o st s n x : orders_ok o -> packed_free st = true ->
  unify fuel o st = Ok (s, n) ->
  (forall e, In e (class_evidence_of st s x) -> is_word e || is_any e = true) ->
  exists s' d, ds_get_data iset s x = Ok (s', d) /\ resolves_to_join (class_evidence_of st s x) d.
Proof.
  intros Ho Hpf E Hwl.
  destruct (unify_ok_refines _ _ _ _ _ E) as (a & Ea & Hs).
  destruct (get_data_refines s a x Hs) as (s' & Eg & _). exists s', (fm_get (rep a x) (a_data a)). split; [exact Eg|].
  assert (Hev : forall e, In e (class_evidence_of st s x) <-> ev st a (rep a x) e).
  { intros e. unfold class_evidence_of. rewrite in_flat_map. split.
    - intros (v & Hv & Hin). rewrite !(root_of_rep s a _ Hs) in Hin.
      destruct (N.eqb_spec (rep a v) (rep a x)) as [Er|]; [|destruct Hin].
      apply filter_In in Hin as [Hin Hne]. exists v. split; [|exact Er]. split; [exact Hv|]. split; [exact Hin|].
      unfold ne. destruct (is_equal e); [discriminate|reflexivity].
    - intros (y & (Hy & Hin & Hne) & Er). exists y. split; [exact Hy|]. rewrite !(root_of_rep s a _ Hs), Er, N.eqb_refl.
      apply filter_In. split; [exact Hin|]. unfold ne in Hne. rewrite Hne. reflexivity. }
  pose proof (a_unify_words_join o fuel st a n x (class_evidence_of st s x) Ho Hpf Ea Hev) as H.
  assert (Hw : forall e, In e (class_evidence_of st s x) -> wordlike e).
  { intros e He. specialize (Hwl e He). apply orb_true_iff in Hwl. exact Hwl. }
  specialize (H Hw).
  replace (fm_get (rep a x) (a_data a))
    with (match dat a (rep a x) with
          | [] => match fm_get (rep a x) (a_data a) with None => None | Some l => Some l end
          | l => Some l
          end); [exact H|].
  unfold dat. destruct (fm_get (rep a x) (a_data a)) as [[|e l]|]; reflexivity.
Qed.

(* ---- mode Seeded: sorting followed by a sequence of transpositions ---- *)
Lemma set_at_perm {A} (t : list A) : forall j b x, nth_error t j = Some b -> Permutation (b :: set_at t j x) (x :: t).
Proof.
  induction t as [|h t IH]; intros [|j] b x E; cbn in E; try discriminate.
  - injection E as ->. cbn [set_at]. apply perm_swap.
  - cbn [set_at]. eapply Permutation_trans; [apply perm_swap|]. eapply Permutation_trans; [apply perm_skip, IH, E|].
    apply perm_swap.
Qed.

Lemma swap_at_perm {A} (l : list A) : forall i j, Permutation (swap_at l i j) l.
Proof.
  induction l as [|h t IH]; intros i j; unfold swap_at.
  - destruct i; cbn; apply Permutation_refl.
  - destruct i as [|i], j as [|j]; cbn [nth_error].
    + cbn. apply Permutation_refl.
    + destruct (nth_error t j) as [b|] eqn:Ej; [|apply Permutation_refl]. cbn [set_at]. apply set_at_perm, Ej.
    + destruct (nth_error t i) as [a|] eqn:Ei; [|apply Permutation_refl]. cbn [set_at]. apply set_at_perm, Ei.
    + specialize (IH i j). unfold swap_at in IH.
      destruct (nth_error t i) as [a|]; [|apply Permutation_refl].
      destruct (nth_error t j) as [b|]; [|apply Permutation_refl]. cbn [set_at]. apply perm_skip, IH.
Qed.

Lemma shuffle_down_perm {A} i : forall st (l : list A), Permutation (shuffle_down i st l) l.
Proof.
  induction i as [|i IH]; intros st l; cbn [shuffle_down]; [apply Permutation_refl|].
  destruct (mix_next st) as [r st']. eapply Permutation_trans; [apply IH|apply swap_at_perm].
Qed.

Lemma seeded_perm {A} seed point (l l' : list A) : Permutation l l' -> Permutation (seeded seed point l) l'.
Proof. intros H. unfold seeded. eapply Permutation_trans; [apply shuffle_down_perm|exact H]. Qed.

Theorem seeded_orders_ok seed : orders_ok (orders_seeded seed).
Proof.
  repeat split; intros; cbn [orders_seeded o_vars o_init o_class o_newv o_eqs o_judg]; apply seeded_perm;
    first [apply sort_le_perm | apply sort_tes_perm | apply sort_judgs_perm].
Qed.
