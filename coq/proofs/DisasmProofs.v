From SLX Require Import Base gen.Constants gen.OpcodeTable Disasm.
Open Scope N_scope.

Definition bytes256 : list N := map N.of_nat (seq 0 256).
Lemma in_bytes256 b : b < 256 -> In b bytes256.
Proof.
  intros H. unfold bytes256. apply in_map_iff. exists (N.to_nat b). split; [lia|].
  apply in_seq. lia.
Qed.

Definition bytes_ok (bs : list byte) : Prop := Forall (fun b => b < 256) bs.

(* ---- facts about the generated table, by complete enumeration of the 256 byte values ---- *)
Definition push_fact (b : N) : bool :=
  if is_push b then
    match sub_u8 b PUSH_OPCODE_BASE_VALUE with
    | Ok n => (1 <=? n) && (n <=? PUSH_OPCODE_MAX_BYTES) && (pushn_byte n =? b) && (n =? b - PUSH_OPCODE_BASE_VALUE)
    | _ => false end
  else true.
Definition plain_fact (b : N) : bool :=
  if is_push b then true else
    match decode1 b with
    | Ok i => list_eqb N.eqb (encode i) [b]
              && (if assigned b then true else match i with IInvalid b' => b' =? b | _ => false end)
              && negb (match i with INop | IPush _ _ => true | _ => false end)
    | _ => false end.

Lemma push_fact_all : forallb push_fact bytes256 = true. Proof. vm_compute. reflexivity. Qed.
Lemma plain_fact_all : forallb plain_fact bytes256 = true. Proof. vm_compute. reflexivity. Qed.

Lemma push_ok b : b < 256 -> is_push b = true ->
  sub_u8 b PUSH_OPCODE_BASE_VALUE = Ok (b - PUSH_OPCODE_BASE_VALUE)
  /\ 1 <= b - PUSH_OPCODE_BASE_VALUE <= PUSH_OPCODE_MAX_BYTES
  /\ pushn_byte (b - PUSH_OPCODE_BASE_VALUE) = b.
Proof.
  intros Hb Hp. pose proof (proj1 (forallb_forall _ _) push_fact_all b (in_bytes256 b Hb)) as F.
  unfold push_fact in F. rewrite Hp in F.
  destruct (sub_u8 b PUSH_OPCODE_BASE_VALUE) as [n| |] eqn:E; try discriminate.
  repeat (apply andb_true_iff in F as [F ?]).
  apply N.leb_le in F. repeat match goal with H : (_ <=? _) = true |- _ => apply N.leb_le in H | H : (_ =? _) = true |- _ => apply N.eqb_eq in H end.
  subst n. repeat split; auto.
Qed.

Lemma plain_ok b : b < 256 -> is_push b = false ->
  exists i, decode1 b = Ok i /\ encode i = [b] /\ i <> INop /\ (forall n d, i <> IPush n d)
            /\ (assigned b = false -> i = IInvalid b).
Proof.
  intros Hb Hp. pose proof (proj1 (forallb_forall _ _) plain_fact_all b (in_bytes256 b Hb)) as F.
  unfold plain_fact in F. rewrite Hp in F.
  destruct (decode1 b) as [i| |] eqn:E; try discriminate.
  apply andb_true_iff in F as [F F3]. apply andb_true_iff in F as [F1 F2].
  apply list_eqb_N_eq in F1. exists i. repeat split; auto.
  - intros ->. discriminate.
  - intros n d ->. discriminate.
  - intros Ha. rewrite Ha in F2. destruct i; try discriminate. apply N.eqb_eq in F2. congruence.
Qed.

(* ---- the state machine equals the token-at-a-time specification ---- *)
Definition clean (s : st) : Prop :=
  push_size s = 0 /\ remaining s = 0 /\ push_bytes s = [] /\ failed s = None.

Lemma enc_all_app a b : enc_all (a ++ b) = enc_all a ++ enc_all b.
Proof. unfold enc_all. now rewrite map_app, concat_app. Qed.
Lemma enc_nops n : enc_all (nops n) = [].
Proof. unfold nops, enc_all. induction (N.to_nat n); simpl; auto. Qed.
Lemma len_nops n : length (nops n) = N.to_nat n.
Proof. unfold nops. apply repeat_length. Qed.
Lemma enc_map_invalid l : enc_all (map IInvalid l) = l.
Proof. unfold enc_all. induction l; cbn; congruence. Qed.

(* consuming immediate bytes while more than those remain outstanding *)
Lemma fold_pending d : forall s,
  failed s = None -> N.of_nat (length d) < remaining s ->
  off s + N.of_nat (length d) <= two32 ->
  fold_left step d s =
  {| ops := ops s; off := off s + N.of_nat (length d); last_push := last_push s; push_size := push_size s;
     remaining := remaining s - N.of_nat (length d); push_bytes := push_bytes s ++ d; failed := None |}.
Proof.
  induction d as [|b d IH]; intros s Hf Hr Ho.
  - cbn [fold_left length]. destruct s; cbn in *. subst. f_equal; try lia. now rewrite app_nil_r.
  - cbn [fold_left]. cbn [length] in Hr, Ho.
    assert (Hstep : step s b = {| ops := ops s; off := off s + 1; last_push := last_push s; push_size := push_size s;
            remaining := remaining s - 1; push_bytes := push_bytes s ++ [b]; failed := None |}).
    { unfold step. rewrite Hf.
      destruct (two32 <=? off s) eqn:E; [apply N.leb_le in E; lia|].
      destruct (remaining s =? 0) eqn:E0; [apply N.eqb_eq in E0; lia|]. cbn [negb].
      destruct (remaining s - 1 =? 0) eqn:E1; [apply N.eqb_eq in E1; lia|]. reflexivity. }
    rewrite Hstep, IH; cbn [ops off last_push push_size remaining push_bytes failed]; try reflexivity; try lia.
    f_equal; cbn [length]; try lia. now rewrite <- app_assoc.
Qed.

Lemma firstn_skipn_len {A} n (l : list A) : (n <= length l)%nat -> length (firstn n l) = n.
Proof. intros. rewrite firstn_length. lia. Qed.

Lemma run_clean n : forall bs s,
  (length bs <= n)%nat -> bytes_ok bs -> clean s -> off s + N.of_nat (length bs) <= two32 ->
  finish (fold_left step bs s) = Ok (ops s ++ spec n bs).
Proof.
  induction n as [|n IH]; intros bs s Hl Hb (Hps & Hrem & Hpb & Hf) Ho.
  - destruct bs; [|cbn in Hl; lia]. cbn [fold_left spec]. unfold finish. rewrite Hf, Hpb, Hps. cbn. now rewrite app_nil_r.
  - destruct bs as [|b rest].
    { cbn [fold_left spec]. unfold finish. rewrite Hf, Hpb, Hps. cbn. now rewrite app_nil_r. }
    cbn [length] in Hl, Ho. inversion Hb as [|? ? Hb1 Hb2]; subst.
    cbn [fold_left spec].
    destruct (is_push b) eqn:Ep.
    + destruct (push_ok b Hb1 Ep) as (Hsub & Hrange & Hbyte).
      set (k := b - PUSH_OPCODE_BASE_VALUE) in *.
      assert (Hstep : step s b = {| ops := ops s; off := off s + 1; last_push := b; push_size := k;
                 remaining := k; push_bytes := []; failed := None |}).
      { unfold step. rewrite Hf. destruct (two32 <=? off s) eqn:E; [apply N.leb_le in E; lia|].
        rewrite Hrem. cbn [N.eqb negb]. rewrite Ep, Hsub, Hpb. reflexivity. }
      rewrite Hstep.
      destruct (N.of_nat (length rest) <? k) eqn:Et.
      * apply N.ltb_lt in Et.
        rewrite fold_pending; cbn [ops off last_push push_size remaining push_bytes failed]; try reflexivity; try lia.
        unfold finish. cbn [ops off last_push push_size remaining push_bytes failed app].
        destruct rest as [|r0 rest'].
        -- cbn [negb andb map]. destruct (k =? 0) eqn:Ek; [apply N.eqb_eq in Ek; lia|]. reflexivity.
        -- cbn [negb andb]. destruct (N.of_nat (length (r0 :: rest')) =? k) eqn:Ek; [apply N.eqb_eq in Ek; lia|].
           reflexivity.
      * apply N.ltb_ge in Et.
        assert (Hkl : (N.to_nat k <= length rest)%nat) by lia.
        rewrite <- (firstn_skipn (N.to_nat k) rest) at 1.
        rewrite fold_left_app.
        set (d := firstn (N.to_nat k) rest). set (tl := skipn (N.to_nat k) rest).
        assert (Hd : length d = N.to_nat k) by (apply firstn_skipn_len; exact Hkl).
        assert (Htl : (length tl + N.to_nat k = length rest)%nat) by (unfold tl; rewrite skipn_length; lia).
        (* all but the last immediate byte *)
        destruct (exists_last (l := d)) as (d0 & bl & Hdl).
        { intros E. rewrite E in Hd. cbn in Hd. lia. }
        rewrite Hdl, fold_left_app. cbn [fold_left].
        assert (Hd0 : (length d0 + 1 = N.to_nat k)%nat) by (rewrite Hdl, app_length in Hd; cbn in Hd; lia).
        rewrite (fold_pending d0); cbn [ops off last_push push_size remaining push_bytes failed]; try reflexivity; try lia.
        match goal with |- context [step ?s0 bl] => set (s1 := s0) end.
        assert (Hs1 : step s1 bl = {| ops := ops s ++ IPush k (d0 ++ [bl]) :: nops k; off := off s + 1 + N.of_nat (length d0) + 1;
                   last_push := 0; push_size := 0; remaining := 0; push_bytes := []; failed := None |}).
        { unfold step, s1. cbn [ops off last_push push_size remaining push_bytes failed app].
          destruct (two32 <=? off s + 1 + N.of_nat (length d0)) eqn:E; [apply N.leb_le in E; lia|].
          destruct (k - N.of_nat (length d0) =? 0) eqn:E0; [apply N.eqb_eq in E0; lia|]. cbn [negb].
          destruct (k - N.of_nat (length d0) - 1 =? 0) eqn:E1; [|apply N.eqb_neq in E1; lia].
          replace (match d0 ++ [bl] with [] => true | _ :: _ => false end) with false by (destruct d0; reflexivity).
          cbn [negb andb].
          unfold pushn_new_ok. rewrite app_length. cbn [length].
          replace (0 <? k) with true by (symmetry; apply N.ltb_lt; lia).
          replace (k <=? PUSH_OPCODE_MAX_BYTES) with true by (symmetry; apply N.leb_le; lia).
          replace (N.of_nat (length d0 + 1) =? k) with true by (symmetry; apply N.eqb_eq; lia).
          reflexivity. }
        rewrite Hs1. rewrite IH; cbn [ops off last_push push_size remaining push_bytes failed].
        -- rewrite <- Hdl. rewrite <- app_assoc. reflexivity.
        -- lia.
        -- unfold tl. unfold bytes_ok in *. rewrite <- (firstn_skipn (N.to_nat k) rest) in Hb2.
           apply Forall_app in Hb2. tauto.
        -- repeat split; reflexivity.
        -- lia.
    + destruct (plain_ok b Hb1 Ep) as (i & Hi & _).
      assert (Hstep : step s b = {| ops := ops s ++ [i]; off := off s + 1; last_push := last_push s; push_size := push_size s;
                 remaining := remaining s; push_bytes := push_bytes s; failed := None |}).
      { unfold step. rewrite Hf. destruct (two32 <=? off s) eqn:E; [apply N.leb_le in E; lia|].
        rewrite Hrem. cbn [N.eqb negb]. rewrite Ep, Hi. reflexivity. }
      rewrite Hstep, Hi, IH; cbn [ops off last_push push_size remaining push_bytes failed]; try assumption; try lia.
      * now rewrite <- app_assoc.
      * repeat split; assumption.
Qed.

Lemma disasm_is_spec bs : bs <> [] -> bytes_ok bs -> N.of_nat (length bs) <= two32 ->
  disasm bs = Ok (spec (length bs) bs).
Proof.
  intros Hne Hb Hl. unfold disasm. destruct bs as [|b0 bs0] eqn:E; [congruence|]. rewrite <- E in *.
  rewrite (run_clean (length bs)); try reflexivity; auto.
  repeat split; reflexivity.
Qed.

(* ---- properties of the specification ---- *)
Lemma spec_length n : forall bs, (length bs <= n)%nat -> bytes_ok bs -> length (spec n bs) = length bs.
Proof.
  induction n as [|n IH]; intros bs Hl Hb.
  - destruct bs; [reflexivity|cbn in Hl; lia].
  - destruct bs as [|b rest]; [reflexivity|]. cbn [spec length] in *. inversion Hb as [|? ? Hb1 Hb2]; subst.
    destruct (is_push b) eqn:Ep.
    + destruct (push_ok b Hb1 Ep) as (_ & Hrange & _). set (k := b - PUSH_OPCODE_BASE_VALUE) in *.
      destruct (N.of_nat (length rest) <? k) eqn:Et.
      * cbn [length]. now rewrite map_length.
      * apply N.ltb_ge in Et. cbn [length]. rewrite app_length, len_nops, IH.
        -- rewrite skipn_length. lia.
        -- rewrite skipn_length. lia.
        -- unfold bytes_ok in *. rewrite <- (firstn_skipn (N.to_nat k) rest) in Hb2. apply Forall_app in Hb2. tauto.
    + destruct (plain_ok b Hb1 Ep) as (i & Hi & _). rewrite Hi. cbn [length]. rewrite IH; auto. lia.
Qed.

Lemma spec_roundtrip n : forall bs, (length bs <= n)%nat -> bytes_ok bs -> enc_all (spec n bs) = bs.
Proof.
  induction n as [|n IH]; intros bs Hl Hb.
  - destruct bs; [reflexivity|cbn in Hl; lia].
  - destruct bs as [|b rest]; [reflexivity|]. cbn [spec length] in *. inversion Hb as [|? ? Hb1 Hb2]; subst.
    destruct (is_push b) eqn:Ep.
    + destruct (push_ok b Hb1 Ep) as (_ & Hrange & Hbyte). set (k := b - PUSH_OPCODE_BASE_VALUE) in *.
      destruct (N.of_nat (length rest) <? k) eqn:Et.
      * change (IInvalid b :: map IInvalid rest) with (map IInvalid (b :: rest)). apply enc_map_invalid.
      * apply N.ltb_ge in Et.
        change (IPush k (firstn (N.to_nat k) rest) :: nops k ++ spec n (skipn (N.to_nat k) rest))
          with ([IPush k (firstn (N.to_nat k) rest)] ++ nops k ++ spec n (skipn (N.to_nat k) rest)).
        rewrite !enc_all_app, enc_nops, IH.
        -- unfold enc_all. cbn [map concat encode app]. rewrite Hbyte, app_nil_r. cbn [app].
           now rewrite firstn_skipn.
        -- rewrite skipn_length. lia.
        -- unfold bytes_ok in *. rewrite <- (firstn_skipn (N.to_nat k) rest) in Hb2. apply Forall_app in Hb2. tauto.
    + destruct (plain_ok b Hb1 Ep) as (i & Hi & He & _). rewrite Hi.
      change (i :: spec n rest) with ([i] ++ spec n rest). rewrite enc_all_app, IH; auto; [|lia].
      unfold enc_all. cbn [map concat]. rewrite He. reflexivity.
Qed.

(* per position: what the byte, its immediate-or-not status and the emitted entry have to do with each other *)
Definition pos_ok (bi : byte * bool) (i : instr) : Prop :=
  let (b, imm) := bi in
  (imm = true -> i = INop \/ i = IInvalid b) /\
  (imm = false -> is_push b = false -> decode1 b = Ok i /\ i <> INop) /\
  (imm = false -> is_push b = true -> (exists d, i = IPush (b - PUSH_OPCODE_BASE_VALUE) d) \/ i = IInvalid b).

Lemma immediates_all n : forall rest, N.of_nat (length rest) <= n -> immediates n rest = repeat true (length rest).
Proof.
  intros rest. revert n. induction rest as [|r rest IH]; intros n H; [reflexivity|].
  cbn [immediates length repeat] in *. destruct (0 <? n) eqn:E; [|apply N.ltb_ge in E; lia].
  f_equal. apply IH. lia.
Qed.

Lemma immediates_split n : forall rest, (N.to_nat n <= length rest)%nat ->
  immediates n rest = repeat true (N.to_nat n) ++ immediates 0 (skipn (N.to_nat n) rest).
Proof.
  induction n as [|n IH] using N.peano_ind; intros rest H.
  - reflexivity.
  - rewrite N2Nat.inj_succ in *. destruct rest as [|r rest]; [cbn in H; lia|].
    cbn [immediates skipn repeat app]. destruct (0 <? N.succ n) eqn:E; [|apply N.ltb_ge in E; lia].
    f_equal. replace (N.succ n - 1) with n by lia. apply IH. cbn in H. lia.
Qed.

Lemma Forall2_nops_imm k (d : list byte) : length d = N.to_nat k ->
  Forall2 pos_ok (combine d (repeat true (N.to_nat k))) (nops k).
Proof.
  unfold nops. revert d. induction (N.to_nat k) as [|m IH]; intros d Hd.
  - destruct d; [constructor|discriminate].
  - destruct d as [|x d]; [discriminate|]. cbn [repeat combine]. constructor.
    + cbn. repeat split; intros; try discriminate. now left.
    + apply IH. now injection Hd.
Qed.

Lemma Forall2_invalid_imm (rest : list byte) :
  Forall2 pos_ok (combine rest (repeat true (length rest))) (map IInvalid rest).
Proof.
  induction rest as [|r rest IH]; cbn; constructor; auto.
  repeat split; intros; try discriminate. now right.
Qed.

Lemma combine_app {A B} (a1 a2 : list A) (b1 b2 : list B) : length a1 = length b1 ->
  combine (a1 ++ a2) (b1 ++ b2) = combine a1 b1 ++ combine a2 b2.
Proof.
  revert b1; induction a1 as [|x a1 IH]; destruct b1; cbn; intros H; try discriminate; auto.
  f_equal. apply IH. now injection H.
Qed.

Lemma spec_pointwise n : forall bs, (length bs <= n)%nat -> bytes_ok bs ->
  Forall2 pos_ok (combine bs (immediates 0 bs)) (spec n bs).
Proof.
  induction n as [|n IH]; intros bs Hl Hb.
  - destruct bs; [constructor|cbn in Hl; lia].
  - destruct bs as [|b rest]; [constructor|]. cbn [spec length immediates combine] in *.
    inversion Hb as [|? ? Hb1 Hb2]; subst. cbn [N.ltb N.compare].
    destruct (is_push b) eqn:Ep.
    + destruct (push_ok b Hb1 Ep) as (_ & Hrange & Hbyte). set (k := b - PUSH_OPCODE_BASE_VALUE) in *.
      destruct (N.of_nat (length rest) <? k) eqn:Et.
      * apply N.ltb_lt in Et. constructor.
        -- cbn. repeat split; intros; try discriminate; try congruence. now right.
        -- rewrite immediates_all by lia. apply Forall2_invalid_imm.
      * apply N.ltb_ge in Et. constructor.
        -- cbn. repeat split; intros; try discriminate; try congruence. left. eexists. reflexivity.
        -- rewrite immediates_split by lia.
           rewrite <- (firstn_skipn (N.to_nat k) rest) at 1.
           rewrite combine_app by (rewrite repeat_length; apply firstn_skipn_len; lia).
           apply Forall2_app.
           ++ apply Forall2_nops_imm. apply firstn_skipn_len. lia.
           ++ apply IH.
              ** rewrite skipn_length. lia.
              ** unfold bytes_ok in *. rewrite <- (firstn_skipn (N.to_nat k) rest) in Hb2. apply Forall_app in Hb2. tauto.
    + destruct (plain_ok b Hb1 Ep) as (i & Hi & He & Hn & _). rewrite Hi. constructor.
      * cbn. repeat split; intros; try discriminate; try congruence.
      * apply IH; auto. lia.
Qed.

(* ---- the statements of props/C10.v ---- *)
Lemma C10_total_proof : forall bs, bs <> [] -> bytes_ok bs -> N.of_nat (length bs) <= two32 ->
  try_from bs = Ok (spec (length bs) bs).
Proof.
  intros bs Hne Hb Hl. unfold try_from. rewrite disasm_is_spec by assumption.
  rewrite spec_roundtrip by auto. now rewrite (proj2 (list_eqb_N_eq bs bs) eq_refl).
Qed.

Lemma try_from_ok_nonempty bs is : try_from bs = Ok is -> bs <> [].
Proof. intros H ->. discriminate. Qed.

Lemma C10_lossless_proof : forall bs is, bytes_ok bs -> N.of_nat (length bs) <= two32 ->
  try_from bs = Ok is -> length is = length bs /\ enc_all is = bs.
Proof.
  intros bs is Hb Hl H. pose proof (try_from_ok_nonempty _ _ H) as Hne.
  rewrite C10_total_proof in H by assumption. injection H as <-.
  split; [apply spec_length|apply spec_roundtrip]; auto.
Qed.

Lemma C10_positions_proof : forall bs is, bytes_ok bs -> N.of_nat (length bs) <= two32 ->
  try_from bs = Ok is -> Forall2 pos_ok (combine bs (immediates 0 bs)) is.
Proof.
  intros bs is Hb Hl H. pose proof (try_from_ok_nonempty _ _ H) as Hne.
  rewrite C10_total_proof in H by assumption. injection H as <-. apply spec_pointwise; auto.
Qed.

Lemma immediates_length bs : forall k, length (immediates k bs) = length bs.
Proof. induction bs as [|b bs IH]; intros k; cbn; [reflexivity|]. destruct (0 <? k); cbn; now rewrite IH. Qed.

Lemma Forall2_nth_error {A B} (P : A -> B -> Prop) l1 l2 : Forall2 P l1 l2 ->
  forall i a, nth_error l1 i = Some a -> exists b, nth_error l2 i = Some b /\ P a b.
Proof.
  induction 1 as [|x y l1 l2 Hxy HF IH]; intros i a Hi.
  - destruct i; discriminate.
  - destruct i as [|i]; cbn in *.
    + injection Hi as <-. eauto.
    + eauto.
Qed.

Lemma nth_error_combine {A B} (l1 : list A) (l2 : list B) i a b :
  nth_error l1 i = Some a -> nth_error l2 i = Some b -> nth_error (combine l1 l2) i = Some (a, b).
Proof.
  revert l2 i; induction l1 as [|x l1 IH]; intros l2 i H1 H2; destruct i, l2; cbn in *; try discriminate.
  - congruence.
  - eauto.
Qed.

Lemma C10_push_data_proof : forall bs is i, bytes_ok bs -> N.of_nat (length bs) <= two32 ->
  try_from bs = Ok is -> nth_error (immediates 0 bs) i = Some true ->
  exists x, nth_error is i = Some x /\ is_filler x = true /\ x <> IOp control_JumpDest.
Proof.
  intros bs is i Hb Hl H Hi. pose proof (C10_positions_proof _ _ Hb Hl H) as F.
  assert (Hlt : (i < length bs)%nat).
  { rewrite <- (immediates_length bs 0). apply nth_error_Some. congruence. }
  destruct (nth_error bs i) as [b|] eqn:Eb; [|apply nth_error_None in Eb; lia].
  destruct (Forall2_nth_error _ _ _ F i (b, true) (nth_error_combine _ _ _ _ _ Eb Hi)) as (x & Hx & Hp).
  exists x. split; [assumption|]. destruct Hp as (Hp & _). destruct (Hp eq_refl) as [-> | ->]; split; try reflexivity; discriminate.
Qed.

Lemma C10_unassigned_proof : forall bs is i b, bytes_ok bs -> N.of_nat (length bs) <= two32 ->
  try_from bs = Ok is -> nth_error bs i = Some b -> nth_error (immediates 0 bs) i = Some false ->
  assigned b = false -> nth_error is i = Some (IInvalid b).
Proof.
  intros bs is i b Hb Hl H Eb Hi Ha. pose proof (C10_positions_proof _ _ Hb Hl H) as F.
  destruct (Forall2_nth_error _ _ _ F i (b, false) (nth_error_combine _ _ _ _ _ Eb Hi)) as (x & Hx & Hp).
  rewrite Hx. f_equal. destruct Hp as (_ & Hp & _).
  assert (Hnp : is_push b = false).
  { unfold assigned in Ha. destruct (is_push b); [discriminate|reflexivity]. }
  destruct (Hp eq_refl Hnp) as (Hd & _).
  assert (Hb1 : b < 256). { unfold bytes_ok in Hb. rewrite Forall_forall in Hb. apply Hb. eapply nth_error_In; eauto. }
  destruct (plain_ok b Hb1 Hnp) as (i' & Hi' & _ & _ & _ & Hu). rewrite Hi' in Hd. injection Hd as <-. now apply Hu.
Qed.

Lemma C10_bare_push_proof : forall b, b < 256 -> is_push b = true -> try_from [b] = Ok [IInvalid b].
Proof.
  intros b Hb Hp.
  assert (H1 : [b] <> []) by discriminate.
  assert (H2 : bytes_ok [b]) by (constructor; [assumption|constructor]).
  assert (H3 : N.of_nat (length [b]) <= two32) by (cbn; unfold two32; lia).
  rewrite (C10_total_proof [b] H1 H2 H3).
  cbn [length spec]. rewrite Hp. destruct (push_ok b Hb Hp) as (_ & Hr & _).
  replace (N.of_nat 0 <? b - PUSH_OPCODE_BASE_VALUE) with true; [reflexivity|].
  symmetry. apply N.ltb_lt. lia.
Qed.

Lemma C10_table_proof : forall b, b < 256 ->
  (is_push b = true /\ pushn_byte (b - PUSH_OPCODE_BASE_VALUE) = b /\ 1 <= b - PUSH_OPCODE_BASE_VALUE <= 32)
  \/ (is_push b = false /\ exists i, decode1 b = Ok i /\ encode i = [b]).
Proof.
  intros b Hb. destruct (is_push b) eqn:Ep.
  - left. destruct (push_ok b Hb Ep) as (_ & Hr & Hbyte). unfold PUSH_OPCODE_MAX_BYTES in Hr. auto.
  - right. destruct (plain_ok b Hb Ep) as (i & Hi & He & _). eauto.
Qed.
