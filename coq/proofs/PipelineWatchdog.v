(* C13 and C17 on the composed model (Pipeline.v), end to end:
     never_stop_interval_irrelevant   a watchdog that never stops: the result does not depend on the polling interval
     stop_is_error                    more polls made than the stop index => the result is the watchdog-stop error
     stops_within_bound               at most poll_every + 1 polls are made after the watchdog has turned to stop
     strict_success_same_as_permissive / permissive_errors_subset
   The VM halves rest on proofs/VmWatchdog.v (`never_stop_same`, `vm_step_stops`) and proofs/VmErrors.v (`run_same`,
   `step_errors`, `subset_run`); the poll accounting of every opcode body against the stop index (`exec_instr_pr`) is proved
   here; the type-checker halves are `PipelinePolls.analyze_tc_spec`. *)
From Coq Require Import String.
From SLX Require Import Base Word256 gen.Constants gen.ValueSig gen.OpcodeTable SymVal Micro gen.OpcodeSem Disasm VM Fold
  TypeExpr Register Rules Unify AbiT Layout Abi PolledLoop Pipeline.
From SLX.proofs Require Import VmBounds VmWatchdog VmErrors PipelinePolls.
Open Scope N_scope.

(* ================================================================================================ polls of an opcode body *)
(* `j` = the stop index: polls number j, j+1, .. are answered "stop".  An opcode body that is not stopped leaves the
   poll counter alone or, if it polled, at or below j; a body that is stopped made exactly one poll beyond max(p, j). *)
Definition is_stop_err (e : option exec_err) : bool := match e with Some EStoppedByWatchdog => true | _ => false end.
Definition PRn (j p p' : N) (e : option exec_err) : Prop :=
  if is_stop_err e then p' = N.max p j + 1 else p' = p \/ (p <= p' /\ p' <= j).

Lemma PRn_eq j p p' e : p' = p -> is_stop_err e = false -> PRn j p p' e.
Proof. intros -> H. unfold PRn. rewrite H. left. reflexivity. Qed.

Lemma PRn_trans j p p1 p2 e : PRn j p p1 None -> PRn j p1 p2 e -> PRn j p p2 e.
Proof.
  unfold PRn. cbn [is_stop_err]. intros H1 H2. destruct (is_stop_err e).
  - destruct H1 as [->|[A B]]; [exact H2|]. rewrite H2. rewrite !N.max_r by lia. reflexivity.
  - lia.
Qed.

Section Body.
Variable fold : sv -> sv.
Variable cfg : limits.
Variable j : N.
Hypothesis Hstop : stop_at cfg = Some j.

Lemma copy_loop_pr body : (forall c io, o_polls (body c io) = o_polls c) ->
  forall n count off limit c,
    PRn j (o_polls c) (o_polls (fst (copy_loop cfg body n count off limit c))) (snd (copy_loop cfg body n count off limit c)).
Proof.
  intros Hb. induction n as [|n IH]; intros count off limit c; cbn [copy_loop]; [apply PRn_eq; reflexivity|].
  destruct (off <? limit); [|apply PRn_eq; reflexivity].
  destruct (count mod poll_every cfg =? 0).
  - unfold poll. rewrite Hstop. destruct (j <=? o_polls c) eqn:Ej; cbn [fst snd].
    + apply N.leb_le in Ej. unfold PRn. cbn [is_stop_err o_polls]. rewrite N.max_l by lia. reflexivity.
    + apply N.leb_gt in Ej.
      set (c1 := mk_octx (o_env c) (o_st c) (o_id c) (o_kill c) (o_polls c + 1)).
      apply (PRn_trans j _ (o_polls (body c1 off))); [|apply IH].
      rewrite Hb. unfold PRn. cbn [is_stop_err o_polls c1]. right. lia.
  - apply (PRn_trans j _ (o_polls (body c off))); [|apply IH]. rewrite Hb. apply PRn_eq; reflexivity.
Qed.

Lemma store_return_data_pr c a b :
  PRn j (o_polls c) (o_polls (fst (store_return_data fold cfg c a b))) (snd (store_return_data fold cfg c a b)).
Proof.
  unfold store_return_data. destruct (as_word (fold a)).
  - apply copy_loop_pr. intros c0 io.
    pose proof (build_exec_polls cfg c0 (Node T_Add [] [fold b; Known io])) as H1.
    destruct (build_exec cfg c0 (Node T_Add [] [fold b; Known io])) as [dest c1]. cbn [snd] in H1.
    pose proof (build_exec_polls cfg c1 (Node T_ReturnData [] [Known io; Known 32])) as H2.
    destruct (build_exec cfg c1 (Node T_ReturnData [] [Known io; Known 32])) as [value c2]. cbn [snd] in H2.
    cbn. congruence.
  - pose proof (build_exec_polls cfg (ctx_id c (o_id c + 1)) (Val (o_id c))) as H1.
    destruct (build_exec cfg (ctx_id c (o_id c + 1)) (Val (o_id c))) as [rv c1]. apply PRn_eq; [cbn in *; exact H1|reflexivity].
Qed.

Ltac same := apply PRn_eq; [cbn; try reflexivity; try congruence|reflexivity].

Lemma run_mop_pr ie m c : PRn j (o_polls c) (o_polls (fst (run_mop fold cfg ie m c))) (snd (run_mop fold cfg ie m c)).
Proof.
  destruct m; cbn [run_mop].
  - destruct (stack (o_st c)); same.
  - pose proof (build_exec_polls cfg c (Node t [] (map (env_get c) args))) as H.
    destruct (build_exec cfg c (Node t [] (map (env_get c) args))). apply PRn_eq; [cbn in *; congruence|reflexivity].
  - pose proof (build_exec_polls cfg (ctx_id c (o_id c + 1)) (Node T_CallData [o_id c] [env_get c a; env_get c b])) as H.
    destruct (build_exec cfg (ctx_id c (o_id c + 1)) (Node T_CallData [o_id c] [env_get c a; env_get c b])). apply PRn_eq; [cbn in *; congruence|reflexivity].
  - pose proof (build_exec_polls cfg c (Known w)) as H. destruct (build_exec cfg c (Known w)). apply PRn_eq; [cbn in *; congruence|reflexivity].
  - pose proof (build_exec_polls cfg c (Known (i_ip ie))) as H. destruct (build_exec cfg c (Known (i_ip ie))). apply PRn_eq; [cbn in *; congruence|reflexivity].
  - pose proof (build_exec_polls cfg c (Known (i_code_len ie))) as H. destruct (build_exec cfg c (Known (i_code_len ie))). apply PRn_eq; [cbn in *; congruence|reflexivity].
  - pose proof (build_exec_polls cfg c (Known (i_self_word ie))) as H. destruct (build_exec cfg c (Known (i_self_word ie))). apply PRn_eq; [cbn in *; congruence|reflexivity].
  - same.
  - destruct (stack_push (stack (o_st c)) (env_get c x)); same.
  - same.
  - same.
  - same.
  - destruct (mem_load_slice fold (mem_limit cfg) (o_st c) (env_get c a) (env_get c b)). same.
  - destruct (mem_load fold (o_st c) (env_get c a)). same.
  - same.
  - same.
  - destruct (sto_load _ _ _ _) as [[v st'] n]. same.
  - same.
  - apply store_return_data_pr.
  - destruct (N.of_nat (length (stack (o_st c))) <=? _); [same|]. destruct (stack_push _ _); same.
  - destruct (stack (o_st c)) as [|top rest]; [same|].
    destruct (N.of_nat (length rest) + 1 <=? i_self_n ie); [same|].
    destruct (i_self_n ie); [same|]. destruct (swap_nth _ _ _) as [[o rest']|]; same.
Qed.

Lemma run_mops_pr ie ms : forall c, PRn j (o_polls c) (o_polls (fst (run_mops fold cfg ie ms c))) (snd (run_mops fold cfg ie ms c)).
Proof.
  induction ms as [|m ms IH]; intros c; cbn [run_mops]; [apply PRn_eq; reflexivity|].
  pose proof (run_mop_pr ie m c) as H. destruct (run_mop fold cfg ie m c) as [c' e]. cbn [fst snd] in H.
  destruct e as [e|]; [exact H|]. apply (PRn_trans j _ (o_polls c')); [exact H|apply IH].
Qed.

Lemma exec_copy_pr k c : PRn j (o_polls c) (o_polls (fst (exec_copy fold cfg k c))) (snd (exec_copy fold cfg k c)).
Proof.
  unfold exec_copy. pose proof (pop_n_polls (match k with CKExtCode => 4%nat | _ => 3%nat end) c []) as Hp.
  destruct (pop_n _ c []) as [c0 [vals|]]; cbn [fst] in Hp; [|apply PRn_eq; [exact Hp|reflexivity]].
  destruct (as_word _).
  - rewrite <- Hp. apply copy_loop_pr. intros c1 io.
    match goal with |- context [build_exec cfg c1 ?v] => pose proof (build_exec_polls cfg c1 v) as H1; destruct (build_exec cfg c1 v) as [dest c2] end.
    match goal with |- context [build_exec cfg c2 ?v] => pose proof (build_exec_polls cfg c2 v) as H2; destruct (build_exec cfg c2 v) as [src c3] end.
    match goal with |- context [copy_value cfg k ?a ?b ?d c3] => pose proof (copy_value_polls cfg k a b d c3) as H3; destruct (copy_value cfg k a b d c3) as [value c4] end.
    cbn in *. congruence.
  - match goal with |- context [copy_value cfg k ?a ?b ?d c0] => pose proof (copy_value_polls cfg k a b d c0) as H3; destruct (copy_value cfg k a b d c0) as [value c4] end.
    apply PRn_eq; [cbn in *; congruence|reflexivity].
Qed.

Lemma exec_log_pr n c : PRn j (o_polls c) (o_polls (fst (exec_log fold cfg n c))) (snd (exec_log fold cfg n c)).
Proof.
  unfold exec_log. pose proof (pop_n_polls (2 + N.to_nat n) c []) as Hp.
  destruct (pop_n _ c []) as [c0 [vals|]]; cbn [fst] in Hp; [|apply PRn_eq; [exact Hp|reflexivity]].
  destruct (mem_load_slice _ _ _ _ _) as [data st'].
  match goal with |- context [build_exec cfg ?cc ?v] => pose proof (build_exec_polls cfg cc v) as H1; destruct (build_exec cfg cc v) as [lg c1] end.
  apply PRn_eq; [cbn in *; congruence|reflexivity].
Qed.

Lemma validate_jump_not_stop code counter e : validate_jump fold code counter = inr e -> e <> EStoppedByWatchdog.
Proof.
  unfold validate_jump. destruct (as_word (fold counter)) as [w|]; [|intros [= <-]; discriminate].
  destruct (two32 <=? w); [intros [= <-]; discriminate|].
  destruct (N.of_nat (length code) <=? w); [intros [= <-]; discriminate|].
  destruct (nth_error code (N.to_nat w)) as [i|]; [|intros [= <-]; discriminate].
  destruct (is_jumpdest i); [discriminate|intros [= <-]; discriminate].
Qed.

Ltac via_mops :=
  let r := fresh "r" in let Er := fresh "Er" in
  match goal with |- context [run_mops ?a ?b ?c ?d ?e] => remember (run_mops a b c d e) as r eqn:Er end;
  intros [= <- <- _ _ _]; rewrite Er; apply run_mops_pr.

(* one instruction body, against the stop index *)
Lemma exec_instr_pr code vis jt ip i c c' e se k jt' :
  exec_instr fold cfg code vis jt ip i c = (c', e, se, k, jt') -> PRn j (o_polls c) (o_polls c') e.
Proof.
  unfold exec_instr. destruct i as [o|n d|n|n|n| |b].
  - destruct (op_sem o) as [ms|].
    + via_mops.
    + destruct (op_idx o =? op_idx control_Jump).
      { unfold exec_jump. destruct (stack (o_st c)) as [|counter s]; [intros [= <- <- _ _ _]; apply PRn_eq; reflexivity|].
        destruct (validate_jump fold code counter) as [t|er] eqn:Ev; [intros [= <- <- _ _ _]; apply PRn_eq; reflexivity|].
        pose proof (validate_jump_not_stop _ _ _ Ev) as Hn.
        destruct er; try congruence; intros [= <- <- _ _ _]; apply PRn_eq; reflexivity. }
      destruct (op_idx o =? op_idx control_JumpI).
      { unfold exec_jumpi. destruct (stack (o_st c)) as [|counter s]; [intros [= <- <- _ _ _]; apply PRn_eq; reflexivity|].
        destruct s as [|cond s']; [intros [= <- <- _ _ _]; apply PRn_eq; reflexivity|].
        destruct (validate_jump fold code counter) as [t|er]; [|intros [= <- <- _ _ _]; apply PRn_eq; reflexivity].
        destruct (_ <=? _); [intros [= <- <- _ _ _]; apply PRn_eq; reflexivity|].
        destruct (_ <=? _); intros [= <- <- _ _ _]; apply PRn_eq; reflexivity. }
      repeat (match goal with |- context [if ?b then _ else _] => destruct b end;
              try (intros [= <- <- _ _ _]; first [apply exec_copy_pr|apply PRn_eq; reflexivity])).
  - via_mops.
  - via_mops.
  - via_mops.
  - intros [= <- <- _ _ _]. apply exec_log_pr.
  - via_mops.
  - via_mops.
Qed.
End Body.

(* ================================================================================================ the machine *)
Section Machine.
Variable fold : sv -> sv.

Ltac proj := cbn [v_code v_queue v_stored v_jt v_killed v_errors v_next_id v_polls v_counter v_retired v_paths v_cfg
                  tip tvis tgas VM.tstate tpath snd fst lim permissive].

(* one iteration: the parts, the polls before the body (after the main loop's own poll, which was answered "go on"),
   the polls after it *)
Lemma vm_step_running m m' : VM.vm_step fold m = SRunning m' ->
  exists t i c3 err serr k jt' p1,
    step_parts fold m = Some (t, i, (c3, err, serr, k, jt')) /\
    v_polls m' = o_polls c3 /\ v_counter m' = v_counter m + 1 /\ v_cfg m' = v_cfg m /\
    (forall j, stop_at (v_cfg m) = Some j -> PRn j p1 (o_polls c3) err) /\
    ((v_counter m mod poll_every (v_cfg m) = 0 /\ p1 = v_polls m + 1 /\ (forall j, stop_at (v_cfg m) = Some j -> v_polls m < j))
     \/ (v_counter m mod poll_every (v_cfg m) <> 0 /\ p1 = v_polls m)).
Proof.
  unfold VM.vm_step, step_parts. destruct (v_queue m) as [|t rest]; [discriminate|].
  destruct (nth_error (v_code m) (N.to_nat (tip t))) as [i|]; [|discriminate].
  set (c0 := mk_octx [] (VM.tstate t) (v_next_id m) (v_killed m) (v_polls m)).
  destruct (if v_counter m mod poll_every (v_cfg m) =? 0 then poll (v_cfg m) c0 else (false, c0)) as [stopped c1] eqn:Ep.
  destruct stopped; [discriminate|].
  destruct (exec_instr fold (v_cfg m) (v_code m) (bump (tip t) (tvis t)) (v_jt m) (tip t) i c1) as [[[[c3 err] serr] k] jt'] eqn:Ex.
  intros Hs. exists t, i, c3, err, serr, k, jt', (o_polls c1). split; [reflexivity|].
  assert (Hm' : v_polls m' = o_polls c3 /\ v_counter m' = v_counter m + 1 /\ v_cfg m' = v_cfg m).
  { destruct err; cbv beta iota zeta in Hs; injection Hs as <-; unfold advance; proj; destruct (_ || _ || _); proj; auto. }
  destruct Hm' as (H1 & H2 & H3). repeat split; auto.
  - intros j Hj. exact (exec_instr_pr fold (v_cfg m) j Hj _ _ _ _ _ _ _ _ _ _ _ Ex).
  - destruct (v_counter m mod poll_every (v_cfg m) =? 0) eqn:Em.
    + left. apply N.eqb_eq in Em. split; [exact Em|]. unfold poll in Ep. injection Ep as Hst <-. cbn [o_polls c0]. split; [reflexivity|].
      intros j Hj. rewrite Hj in Hst. cbn [o_polls c0] in Hst. apply N.leb_gt. exact Hst.
    + right. apply N.eqb_neq in Em. injection Ep as <-. split; [exact Em|reflexivity].
Qed.

Lemma vm_step_stopped_polls m ip m' : VM.vm_step fold m = SStopped ip m' ->
  v_polls m' = v_polls m + 1 /\ v_counter m mod poll_every (v_cfg m) = 0 /\ v_cfg m' = v_cfg m /\ v_counter m' = v_counter m.
Proof.
  unfold VM.vm_step. destruct (v_queue m) as [|t rest]; [discriminate|].
  destruct (nth_error (v_code m) (N.to_nat (tip t))) as [i|]; [|discriminate].
  destruct (v_counter m mod poll_every (v_cfg m) =? 0) eqn:Em.
  - unfold poll. destruct (match stop_at (v_cfg m) with Some k => k <=? _ | None => false end).
    + intros [= _ <-]. proj. apply N.eqb_eq in Em. auto.
    + destruct (exec_instr _ _ _ _ _ _ _ _) as [[[[c3 err] serr] k] jt']. destruct err; cbv beta iota zeta; discriminate.
  - destruct (exec_instr _ _ _ _ _ _ _ _) as [[[[c3 err] serr] k] jt']. destruct err; cbv beta iota zeta; discriminate.
Qed.

(* (b): once a poll has been answered "stop" the error buffer holds the watchdog error *)
Definition Ib (m : vm) : Prop :=
  forall j, stop_at (v_cfg m) = Some j -> j < v_polls m -> exists ip, In (ip, EStoppedByWatchdog) (v_errors m).

(* (c): after the turn, the polls made plus the iterations left until the main loop's next poll stay within
   j + poll_every *)
Definition Ic (m : vm) : Prop :=
  forall j, stop_at (v_cfg m) = Some j ->
    v_polls m <= j \/ exists q, q < poll_every (v_cfg m) /\ (v_counter m + q) mod poll_every (v_cfg m) = 0
                                /\ v_polls m + q <= j + poll_every (v_cfg m).

Lemma next_multiple pe c : 1 <= pe -> exists q, q < pe /\ (c + q) mod pe = 0.
Proof.
  intros Hpe. exists ((pe - c mod pe) mod pe). split; [apply N.mod_lt; lia|].
  pose proof (N.mod_lt c pe ltac:(lia)) as Hlt. pose proof (N.div_mod c pe ltac:(lia)) as Hdm.
  remember (c mod pe) as r eqn:Er. remember (c / pe) as d eqn:Ed.
  destruct (N.eq_dec r 0) as [E|E].
  - rewrite E, N.sub_0_r, N.mod_same by lia. rewrite N.add_0_r. rewrite <- Er. exact E.
  - assert (Hsm : (pe - r) mod pe = pe - r) by (apply N.mod_small; lia).
    rewrite Hsm, Hdm. replace (pe * d + r + (pe - r)) with ((d + 1) * pe) by nia. apply N.mod_mul. lia.
Qed.

Lemma step_inv m m' : 1 <= poll_every (v_cfg m) -> VM.vm_step fold m = SRunning m' -> Ib m -> Ic m -> Ib m' /\ Ic m'.
Proof.
  intros Hpe Hs HIb HIc.
  destruct (vm_step_running _ _ Hs) as (t & i & c3 & err & serr & k & jt' & p1 & Hparts & Hp & Hc & Hcf & Hpr & Hmain).
  destruct (step_errors fold _ _ Hs) as (t0 & i0 & c30 & err0 & serr0 & k0 & jt0 & Hparts0 & Herr).
  rewrite Hparts in Hparts0. injection Hparts0 as <- <- <- <- <- <- <-.
  split.
  - intros j Hj Hlt. rewrite Hcf in Hj. specialize (Hpr j Hj). rewrite Hp in Hlt.
    destruct (N.le_gt_cases (v_polls m) j) as [Hle|Hgt].
    + (* the turn happens in this iteration: the body was stopped *)
      assert (Hp1 : p1 <= j).
      { destruct Hmain as [(_ & -> & Hm)|(_ & ->)]; [specialize (Hm j Hj); lia|exact Hle]. }
      unfold PRn in Hpr. destruct (is_stop_err err) eqn:Es; [|lia].
      destruct err as [[]|]; try discriminate Es. exists (tip t). apply Herr. right. right. left.
      exists EStoppedByWatchdog. auto.
    + destruct (HIb j Hj Hgt) as (ip & Hin). exists ip. apply Herr. left. exact Hin.
  - intros j Hj. rewrite Hcf in Hj |- *. specialize (Hpr j Hj). rewrite Hp, Hc.
    destruct (HIc j Hj) as [Hle|(q & Hq & Hmod & Hbound)].
    + assert (Hp1 : p1 <= j).
      { destruct Hmain as [(_ & -> & Hm)|(_ & ->)]; [specialize (Hm j Hj); lia|exact Hle]. }
      unfold PRn in Hpr. destruct (is_stop_err err).
      * right. rewrite N.max_r in Hpr by exact Hp1. destruct (next_multiple (poll_every (v_cfg m)) (v_counter m + 1) Hpe) as (q & Hq & Hmod).
        exists q. split; [exact Hq|]. split; [exact Hmod|]. lia.
      * left. lia.
    + (* already turned: the main loop did not poll in this iteration (it would have been stopped) *)
      assert (Hgt : j < v_polls m \/ v_polls m <= j) by lia. destruct Hgt as [Hgt|Hle].
      2: { assert (Hp1 : p1 <= j).
           { destruct Hmain as [(_ & -> & Hm)|(_ & ->)]; [specialize (Hm j Hj); lia|exact Hle]. }
           unfold PRn in Hpr. destruct (is_stop_err err).
           - right. rewrite N.max_r in Hpr by exact Hp1. destruct (next_multiple (poll_every (v_cfg m)) (v_counter m + 1) Hpe) as (q' & Hq' & Hmod').
             exists q'. split; [exact Hq'|]. split; [exact Hmod'|]. lia.
           - left. lia. }
      destruct Hmain as [(_ & _ & Hm)|(Hnz & ->)]; [specialize (Hm j Hj); lia|].
      assert (Hq0 : q <> 0). { intros ->. rewrite N.add_0_r in Hmod. contradiction. }
      right. exists (q - 1). split; [lia|]. split; [replace (v_counter m + 1 + (q - 1)) with (v_counter m + q) by lia; exact Hmod|].
      unfold PRn in Hpr. destruct (is_stop_err err); [rewrite N.max_l in Hpr by lia; lia|lia].
Qed.

Definition result_vm (r : exec_result) : vm := match r with RDone m | RStopped _ m | ROutOfFuel m => m end.

(* along a whole run; for a run that ends stopped the bound counts the final poll *)
Lemma run_inv_w n : forall m, 1 <= poll_every (v_cfg m) -> Ib m -> Ic m ->
  match VM.run fold n m with
  | RDone m' | ROutOfFuel m' => Ib m' /\ Ic m' /\ v_cfg m' = v_cfg m
  | RStopped _ m' => v_cfg m' = v_cfg m /\
                     forall j, stop_at (v_cfg m) = Some j -> v_polls m' <= j + poll_every (v_cfg m) + 1
  end.
Proof.
  induction n as [|n IH]; intros m Hpe HIb HIc; cbn [VM.run]; [auto|].
  destruct (VM.vm_step fold m) as [m1|m1|ip m1] eqn:Es.
  - destruct (step_inv _ _ Hpe Es HIb HIc) as [B C]. destruct (vm_step_running _ _ Es) as (_ & _ & _ & _ & _ & _ & _ & _ & _ & _ & _ & Hcf & _).
    specialize (IH m1 ltac:(rewrite Hcf; exact Hpe) B C). rewrite Hcf in IH. exact IH.
  - rewrite (vm_step_done_eq fold _ _ Es). auto.
  - destruct (vm_step_stopped_polls _ _ _ Es) as (Hp & Hm & Hcf & _). split; [exact Hcf|].
    intros j Hj. destruct (HIc j Hj) as [Hle|(q & Hq & Hmod & Hb)]; [lia|].
    assert (q = 0).
    { rewrite N.add_mod in Hmod by lia. rewrite Hm, N.add_0_l, N.mod_mod in Hmod by lia. rewrite N.mod_small in Hmod by exact Hq. exact Hmod. }
    lia.
Qed.

Lemma init_inv_w code cfg : Ib (init_vm code cfg) /\ Ic (init_vm code cfg).
Proof. split; intros j Hj; cbn; [lia|left; lia]. Qed.
End Machine.

(* ================================================================================================ end to end *)
Section EndToEnd.
Variable keccak : list byte -> N.
Variable table : list (N * N).
Variable mode : order_mode.
Variable fu : fuels.

(* ---- (a) C13: a watchdog that never stops has no influence, whatever the polling interval ---- *)
Definition same_but_interval (c1 c2 : config) : Prop :=
  gas_limit c1 = gas_limit c2 /\ iter_limit c1 = iter_limit c2 /\ fork_limit c1 = fork_limit c2 /\
  size_limit c1 = size_limit c2 /\ mem_limit c1 = mem_limit c2 /\ permissive c1 = permissive c2 /\
  stop_at c1 = None /\ stop_at c2 = None /\ 1 <= poll_every c1 /\ 1 <= poll_every c2.

Theorem never_stop_interval_irrelevant bytes c1 c2 : same_but_interval c1 c2 ->
  analyze_model_fuel keccak table mode fu bytes c1 = analyze_model_fuel keccak table mode fu bytes c2.
Proof.
  intros (G1 & G2 & G3 & G4 & G5 & G6 & S1 & S2 & P1 & P2).
  unfold analyze_model_fuel, analyze_trace, vm_phase_of.
  destruct (try_from bytes) as [code|e|s]; [|reflexivity|reflexivity].
  replace (poll_every c1 =? 0) with false by (symmetry; apply N.eqb_neq; lia).
  replace (poll_every c2 =? 0) with false by (symmetry; apply N.eqb_neq; lia).
  rewrite !run_p_run.
  assert (Hpeq : vm_peq (init_vm code c1) (init_vm code c2)).
  { unfold vm_peq, init_vm, leq. cbn. repeat split; auto. }
  pose proof (never_stop_same constant_fold (Pos.to_nat (f_vm fu)) _ _ Hpeq) as R.
  destruct (run constant_fold (Pos.to_nat (f_vm fu)) (init_vm code c1)) as [a|ipa a|a];
    destruct (run constant_fold (Pos.to_nat (f_vm fu)) (init_vm code c2)) as [b|ipb b|b]; try contradiction; [|reflexivity].
  destruct R as (_ & _ & Hst & _ & _ & Her & _). rewrite <- Her, <- Hst.
  destruct (v_errors a); [|reflexivity].
  destruct (analyze_tc_spec keccak table mode fu c1 (v_polls a) (order_determined (v_stored a)) (v_stored a)) as (_ & E1 & _).
  destruct (analyze_tc_spec keccak table mode fu c2 (v_polls b) (order_determined (v_stored a)) (v_stored a)) as (_ & E2 & _).
  cbv zeta in E1, E2. rewrite (E1 S1), (E2 S2). reflexivity.
Qed.

(* ---- (b), (c) C13: a stop is an error, and comes within poll_every + 1 polls ---- *)
Definition watchdog_stop (r : pipeline_result) : Prop :=
  (exists stage, r = PErrStopped stage) \/ (exists errs ip, r = PErrVm errs /\ In (ip, EStoppedByWatchdog) errs).

Lemma trace_watchdog bytes (cfg : config) j : stop_at cfg = Some j ->
  let tr := analyze_trace keccak table mode fu bytes cfg in
  t_polls tr <= j + poll_every cfg + 1 /\
  (j < t_polls tr -> watchdog_stop (t_result tr) \/ t_result tr = PFuelVm).
Proof.
  intros Hj. unfold analyze_trace, vm_phase_of. cbv zeta.
  destruct (try_from bytes) as [code|e|s]; [|cbn; split; lia|cbn; split; lia].
  destruct (poll_every cfg =? 0) eqn:Epe; [cbn; split; lia|]. apply N.eqb_neq in Epe.
  rewrite run_p_run. destruct (init_inv_w code cfg) as [B0 C0].
  pose proof (run_inv_w constant_fold (Pos.to_nat (f_vm fu)) (init_vm code cfg) ltac:(cbn; lia) B0 C0) as R.
  destruct (run constant_fold (Pos.to_nat (f_vm fu)) (init_vm code cfg)) as [m|ip m|m]; cbn [v_cfg init_vm] in R.
  - destruct R as (B & C & Hcf). specialize (B j ltac:(rewrite Hcf; exact Hj)). specialize (C j ltac:(rewrite Hcf; exact Hj)).
    rewrite Hcf in C. destruct (v_errors m) as [|x errs] eqn:Ee.
    + (* no error recorded: the watchdog had not turned when the type checker started *)
      assert (Hle : v_polls m <= j).
      { destruct (N.le_gt_cases (v_polls m) j) as [H|H]; [exact H|]. destruct (B H) as (ip & []). }
      destruct (analyze_tc_spec keccak table mode fu cfg (v_polls m) (order_determined (v_stored m)) (v_stored m)) as (_ & _ & _ & G).
      cbv zeta in G. destruct (G j Hj Hle) as [[_ Hp]|[(st & Hr) Hp]].
      * split; lia.
      * split; [lia|]. intros _. left. left. exists st. exact Hr.
    + cbn [no_trace t_polls t_result]. split.
      * destruct C as [H|(q & _ & _ & H)]; lia.
      * intros Hlt. left. right. destruct (B Hlt) as (ip & Hin). exists (x :: errs), ip. split; [reflexivity|exact Hin].
  - cbn [no_trace t_polls t_result]. destruct R as (_ & R). split; [exact (R j Hj)|].
    intros _. left. right. exists [(ip, EStoppedByWatchdog)], ip. split; [reflexivity|left; reflexivity].
  - cbn [no_trace t_polls t_result]. destruct R as (_ & C & Hcf). specialize (C j ltac:(rewrite Hcf; exact Hj)). rewrite Hcf in C.
    split; [destruct C as [H|(q & _ & _ & H)]; lia|]. intros _. right. reflexivity.
Qed.

Theorem stop_is_error bytes (cfg : config) j : stop_at cfg = Some j ->
  j < t_polls (analyze_trace keccak table mode fu bytes cfg) ->
  watchdog_stop (analyze_model_fuel keccak table mode fu bytes cfg) \/ analyze_model_fuel keccak table mode fu bytes cfg = PFuelVm.
Proof. intros Hj. exact (proj2 (trace_watchdog bytes cfg j Hj)). Qed.

Theorem stops_within_bound bytes (cfg : config) j : stop_at cfg = Some j ->
  t_polls (analyze_trace keccak table mode fu bytes cfg) <= j + poll_every cfg + 1.
Proof. intros Hj. exact (proj1 (trace_watchdog bytes cfg j Hj)). Qed.

(* a watchdog stop is never a layout *)
Lemma watchdog_stop_not_layout r l : watchdog_stop r -> r <> PLayout l.
Proof. intros [(st & ->)|(errs & ip & -> & _)]; discriminate. Qed.
End EndToEnd.

(* ================================================================================================ C17 end to end *)
Section Modes.
Variable keccak : list byte -> N.
Variable table : list (N * N).
Variable mode : order_mode.
Variable fu : fuels.

(* the unmonitored type checker never returns the VM's error container *)
Lemma fold_lift_err vals : forall st e, fold_e (lift_body keccak table) vals st = inr e -> exists s, e = PPanic s.
Proof.
  induction vals as [|v r IH]; intros st e; cbn [fold_e]; [discriminate|]. unfold lift_body at 1.
  destruct (lift_value keccak table v) as [v'|x|s]; [apply IH|apply IH|intros [= <-]; eexists; reflexivity].
Qed.

Lemma analyze_plain_not_vm stored errs : analyze_plain keccak table mode fu stored <> PErrVm errs.
Proof.
  unfold analyze_plain. cbv zeta.
  destruct (fold_e (lift_body keccak table) (unique (all_values mode stored)) ([], false)) as [[acc failed]|e] eqn:E1.
  2: { destruct (fold_lift_err _ _ _ E1) as (s & ->). discriminate. }
  destruct failed; [discriminate|]. rewrite fold_reg, fold_infer.
  destruct (infer_values _ _ _) as [st'|e|p]; try discriminate.
  destruct (unify (f_rounds fu) (orders_of mode) (tstate_of st')) as [[s n]|[]|p]; cbn [ures_res]; try discriminate.
  rewrite fold_layout. destruct (build_layout _ _ _ _ _ _) as [l|e|p]; discriminate.
Qed.

Lemma analyze_tc_not_vm lim det stored polls errs :
  t_result (analyze_tc keccak table mode fu lim det stored polls) <> PErrVm errs.
Proof.
  destruct (analyze_tc_spec keccak table mode fu lim polls det stored) as ([H|(st & H)] & _); cbv zeta in H; rewrite H;
    [apply analyze_plain_not_vm|discriminate].
Qed.

(* what the two modes do, side by side *)
Lemma modes_related bytes L :
  let strict := analyze_trace keccak table mode fu bytes (mk_config' L false) in
  let perm := analyze_trace keccak table mode fu bytes (mk_config' L true) in
  (forall l, t_result strict = PLayout l -> t_result perm = PLayout l /\ t_polls perm = t_polls strict) /\
  (forall e, t_result perm = PErrVm e -> exists e', t_result strict = PErrVm e' /\ incl e e').
Proof.
  unfold analyze_trace, vm_phase_of. cbv zeta.
  destruct (try_from bytes) as [code|e|s]; [|split; [discriminate|intros e0 H; eexists; split; [exact H|apply incl_refl]]
                                            |split; [discriminate|intros e0 H; eexists; split; [exact H|apply incl_refl]]].
  cbn [lim poll_every]. destruct (poll_every L =? 0); [split; discriminate|].
  rewrite !run_p_run.
  pose proof (C17_same_states_proof constant_fold code L (Pos.to_nat (f_vm fu))) as R.
  pose proof (C17_permissive_subset_proof constant_fold code L (Pos.to_nat (f_vm fu))) as Sub.
  destruct (run constant_fold (Pos.to_nat (f_vm fu)) (init_vm code (mk_config' L false))) as [a|ia a|a];
    destruct (run constant_fold (Pos.to_nat (f_vm fu)) (init_vm code (mk_config' L true))) as [b|ib b|b]; try contradiction;
    cbn [result_state result_rel] in *.
  - destruct R as (errs & p & ->). cbn [reperm v_errors v_stored v_polls] in *.
    destruct (v_errors a) as [|x ea] eqn:Ea.
    + assert (errs = []) by (destruct errs as [|y r]; [reflexivity|exfalso; exact (Sub y (or_introl eq_refl))]). subst errs.
      cbn [lim]. split; [intros l H; split; [exact H|reflexivity]|]. intros e H. exfalso. exact (analyze_tc_not_vm _ _ _ _ _ H).
    + split; [discriminate|]. destruct errs as [|y r].
      * intros e H. exfalso. exact (analyze_tc_not_vm _ _ _ _ _ H).
      * intros e [= <-]. exists (x :: ea). split; [reflexivity|exact Sub].
  - destruct R as (-> & _). split; [discriminate|]. intros e [= <-]. eexists. split; [reflexivity|apply incl_refl].
  - split; discriminate.
Qed.

(* (d) C17: strict mode succeeds => permissive mode returns the very same layout *)
Theorem strict_success_same_as_permissive bytes L l :
  analyze_model_fuel keccak table mode fu bytes (mk_config' L false) = PLayout l ->
  analyze_model_fuel keccak table mode fu bytes (mk_config' L true) = PLayout l.
Proof. intros H. exact (proj1 (proj1 (modes_related bytes L) l H)). Qed.

(* what permissive mode reports from the VM is a subset of what strict mode reports *)
Theorem permissive_errors_subset bytes L e :
  analyze_model_fuel keccak table mode fu bytes (mk_config' L true) = PErrVm e ->
  exists e', analyze_model_fuel keccak table mode fu bytes (mk_config' L false) = PErrVm e' /\ incl e e'.
Proof. intros H. exact (proj2 (modes_related bytes L) e H). Qed.
End Modes.

(* the polled wrapper of unification is Unify.unify when the watchdog never stops *)
Lemma unify_polled_never_stop mode k fuel st w : stop_from w = None ->
  match unify_polled mode k fuel st w with
  | UDone s' n' _ _ => unify fuel (orders_of mode) st = Ok (s', n')
  | UFail e _ => ures_res (unify fuel (orders_of mode) st) = inr e
  | UStop _ => False
  end.
Proof.
  intros Hw. pose proof (unify_polled_spec mode k fuel st w) as F.
  assert (Nv : match unify_polled mode k fuel st w with UStop _ => False | _ => True end).
  { unfold unify_polled. destruct (ures_res (init_forest ds_forest (orders_of mode) st)) as [s0|e]; [|exact I].
    exact (proj1 (proj2 (proj2 (unify_rounds_wdog mode k fuel 0 s0 (ts_next st) 0 w))) Hw). }
  destruct (unify_polled mode k fuel st w) as [w'|e w'|s' n' c' w']; [exact Nv|exact F|].
  destruct (unify fuel (orders_of mode) st) as [[a b]|[]|p]; cbn [ures_res] in F; try discriminate. congruence.
Qed.
