(* After a successful `unify` every variable of the judgement set is a member of the forest, and every member's class
   HAS a data entry (possibly the empty set): the last round made no progress, so it consisted of `forest.sets()` --
   which stores the identity for every root without data (DisjointSet.v `sets_fold`) -- followed by `set_data` calls
   only.  Hence `type_of` never answers UnificationFailure for a registered variable, it answers Any
   (`a_unify_total`, `unify_total`).  Proved on the partition specification `a_unify` and carried over by the
   refinement of UnifyProofs.v. *)
From Coq Require Import String Permutation.
From SLX Require Import Base VectorMap DisjointSet gen.Constants TypeExpr Merge Unify.
From SLX.proofs Require Import VecMapProofs DsuProofs UnifyProofs.
Open Scope N_scope.

(* ---- membership only grows ---- *)
Definition Mem (a : astate iset) (x : tyvar) : Prop := fm_get x (a_tbl a) <> None.

Lemma mem_touch a v x : Mem a x -> Mem (a_touch iset a v) x.
Proof.
  unfold Mem. intros H. destruct (fm_get x (a_tbl a)) as [r|] eqn:E; [|congruence].
  rewrite (touch_keeps iset a v x r E). discriminate.
Qed.
Lemma mem_touch_self a v : Mem (a_touch iset a v) v.
Proof. unfold Mem. rewrite touch_member. discriminate. Qed.

Lemma mem_set_class a r d x : Mem a x -> Mem (a_set_class_data iset a r d) x.
Proof. exact (fun H => H). Qed.

Lemma mem_ins a v x : Mem a x -> Mem (ins_f a v) x.
Proof. apply mem_touch. Qed.
Lemma mem_add a v d x : Mem a x -> Mem (a_add a v d) x.
Proof. intros H. unfold a_add. apply mem_set_class, mem_touch, H. Qed.
Lemma mem_add_self a v d : Mem (a_add a v d) v.
Proof. unfold a_add. apply mem_set_class, mem_touch_self. Qed.
Lemma mem_set a v d x : Mem a x -> Mem (a_set a v d) x.
Proof. intros H. unfold a_set. apply mem_set_class, mem_touch, H. Qed.
Lemma mem_un a u w x : Mem a x -> Mem (a_un a u w) x.
Proof.
  intros H. unfold a_un, a_union.
  set (a1 := a_touch iset (a_touch iset a u) w).
  assert (H1 : Mem a1 x) by (apply mem_touch, mem_touch, H).
  destruct (a_rep iset a1 u =? a_rep iset a1 w); [exact H1|].
  unfold Mem in *. cbn [a_tbl].
  pose (f := fun s : N => if s =? a_rep iset a1 w then a_rep iset a1 u else s).
  change (fm_get x (map (fun p : N * N => (fst p, f (snd p))) (a_tbl a1)) <> None).
  rewrite fm_get_map_snd. destruct (fm_get x (a_tbl a1)); [discriminate|congruence].
Qed.

Lemma mem_fold {X} (f : astate iset -> X -> astate iset) (l : list X) x :
  (forall a y, Mem a x -> Mem (f a y) x) -> forall a, Mem a x -> Mem (fold_left f l a) x.
Proof. intros Hf. induction l as [|y t IH]; intros a H; cbn [fold_left]; [exact H|]. apply IH, Hf, H. Qed.

Lemma mem_init_f v a e x : Mem a x -> Mem (init_f v a e) x.
Proof. intros H. destruct e; first [apply mem_un, H|apply mem_add, H]. Qed.

Lemma mem_sets a x : Mem a x -> Mem (fst (a_sets a)) x.
Proof.
  unfold a_sets. destruct (a_sets_fold iset iset_ident (root_keys (a_tbl a)) (a_data a)) as [dt l]. exact (fun H => H).
Qed.

Lemma mem_apply o rnd a1 settled acc x : Mem a1 x -> Mem (a_apply o rnd a1 settled acc) x.
Proof.
  intros H. unfold a_apply.
  apply mem_fold; [intros; apply mem_add; assumption|]. apply mem_fold; [intros; apply mem_un; assumption|].
  apply mem_fold; [intros; apply mem_ins; assumption|]. apply mem_fold; [intros; apply mem_set; assumption|exact H].
Qed.

Lemma mem_round o rnd a nxt a' n' p x : round a_forest o rnd a nxt = Ok (a', n', p) -> Mem a x -> Mem a' x.
Proof.
  rewrite round_a. destruct (plan_classes o rnd (snd (a_sets a)) (acc0 nxt)) as [[l acc]| |]; cbn [ubind]; try discriminate.
  intros [= <- _ _] H. apply mem_apply, mem_sets, H.
Qed.

Lemma mem_loop o fuel x : forall rnd a nxt a' n', unify_loop a_forest o fuel rnd a nxt = Ok (a', n') -> Mem a x -> Mem a' x.
Proof.
  induction fuel as [|f IH]; intros rnd a nxt a' n'; cbn [unify_loop]; [discriminate|].
  destruct (round a_forest o rnd a nxt) as [[[a1 n1] p1]| |] eqn:Er; cbn [ubind]; try discriminate.
  intros E H. pose proof (mem_round _ _ _ _ _ _ _ x Er H) as H1.
  destruct p1; [eapply IH; eassumption|]. injection E as <- _. exact H1.
Qed.

Lemma mem_ins_all l v : In v l -> forall a, Mem (fold_left ins_f l a) v.
Proof.
  induction l as [|y t IH]; intros Hin a; [destruct Hin|]. cbn [fold_left]. destruct Hin as [->|Hin]; [|apply IH, Hin].
  apply mem_fold; [intros; apply mem_ins; assumption|apply mem_touch_self].
Qed.

Lemma mem_init o st x : orders_ok o -> In x (ts_vars st) -> Mem (a_init o st) x.
Proof.
  intros (Hov & _) Hin. unfold a_init.
  apply mem_fold.
  - intros a v H. unfold init_var_f. apply mem_fold; [intros; apply mem_init_f; assumption|exact H].
  - apply mem_ins_all. eapply Permutation_in; [apply Permutation_sym, Hov|exact Hin].
Qed.

Theorem a_unify_members o fuel st a n x : orders_ok o -> a_unify fuel o st = Ok (a, n) -> In x (ts_vars st) -> Mem a x.
Proof.
  intros Ho E Hin. unfold a_unify, unify_gen in E. rewrite init_forest_a in E. cbn [ubind] in E.
  eapply mem_loop; [exact E|apply mem_init; assumption].
Qed.

(* ---- every root has a data entry after the last round ---- *)
Definition Tot (a : astate iset) : Prop := forall k, fm_get k (a_tbl a) = Some k -> fm_get k (a_data a) <> None.

Lemma sets_fold_total roots : forall dt : fmap iset,
  let '(dt', l) := a_sets_fold iset iset_ident roots dt in
  (forall k, In k roots -> fm_get k dt' <> None) /\ (forall k, fm_get k dt <> None -> fm_get k dt' <> None).
Proof.
  induction roots as [|k t IH]; intros dt; cbn [a_sets_fold].
  - split; [intros k []|auto].
  - destruct (fm_get k dt) as [d0|] eqn:E.
    + specialize (IH dt). destruct (a_sets_fold iset iset_ident t dt) as [dt' l]. destruct IH as [H1 H2].
      split; [|exact H2]. intros j [<-|Hj]; [apply H2; congruence|apply H1, Hj].
    + specialize (IH (fm_insert k iset_ident dt)). destruct (a_sets_fold iset iset_ident t (fm_insert k iset_ident dt)) as [dt' l].
      destruct IH as [H1 H2].
      assert (G : forall j, fm_get j dt <> None \/ j = k -> fm_get j (fm_insert k iset_ident dt) <> None).
      { intros j Hj. rewrite fm_get_insert. destruct (N.eqb_spec j k); [discriminate|]. destruct Hj; [assumption|contradiction]. }
      split.
      * intros j [<-|Hj]; [apply H2, G; right; reflexivity|apply H1, Hj].
      * intros j Hj. apply H2, G. left. exact Hj.
Qed.

Lemma tot_sets a : Tot (fst (a_sets a)).
Proof.
  unfold a_sets. pose proof (sets_fold_total (root_keys (a_tbl a)) (a_data a)) as H.
  destruct (a_sets_fold iset iset_ident (root_keys (a_tbl a)) (a_data a)) as [dt l]. destruct H as [H1 _].
  intros k Hk. cbn [fst a_tbl a_data] in *. apply H1. unfold root_keys. apply in_map_iff. exists (k, k).
  split; [reflexivity|]. apply filter_In. split; [apply fm_get_in, Hk|apply N.eqb_refl].
Qed.

Lemma tot_set a v d : Tot a -> Tot (a_set a v d).
Proof.
  intros H k. unfold a_set, a_set_class_data, a_touch, a_rep. cbn [a_tbl a_data].
  destruct (fm_get v (a_tbl a)) as [r|] eqn:E; cbn [a_tbl a_data].
  - rewrite E. intros Hk. rewrite fm_get_insert. destruct (k =? r); [discriminate|apply H, Hk].
  - rewrite !fm_get_insert, N.eqb_refl. destruct (N.eqb_spec k v) as [->|Hne]; [discriminate|]. intros Hk. apply H, Hk.
Qed.

Lemma tot_fold_set l : forall a, Tot a -> Tot (fold_left set_f l a).
Proof. induction l as [|rc t IH]; intros a H; cbn [fold_left]; [exact H|]. apply IH. unfold set_f. apply tot_set, H. Qed.

Lemma round_final_total o rnd a nxt a' n' : orders_ok o -> round a_forest o rnd a nxt = Ok (a', n', false) -> Tot a'.
Proof.
  intros Ho. rewrite round_a.
  destruct (plan_classes o rnd (snd (a_sets a)) (acc0 nxt)) as [[settled acc]| |] eqn:Ep; cbn [ubind fst snd]; try discriminate.
  intros [= <- <- Hp]. destruct (plan_noprog _ _ _ _ _ _ Ep Hp) as [-> _].
  destruct Ho as (_ & _ & _ & Hon & Hoe & Hoj).
  unfold a_apply, acc0. cbn [r_judg r_eqs r_newv r_next dedup].
  set (l1 := o_judg o rnd _). set (l2 := o_eqs o rnd _). set (l3 := o_newv o rnd _).
  assert (E1 : l1 = []) by (apply o_nil, Hoj). assert (E2 : l2 = []) by (apply o_nil, Hoe).
  assert (E3 : l3 = []) by (apply o_nil, Hon). rewrite E1, E2, E3. cbn [fold_left].
  apply tot_fold_set, tot_sets.
Qed.

Lemma loop_total o fuel : orders_ok o -> forall rnd a nxt a' n', unify_loop a_forest o fuel rnd a nxt = Ok (a', n') -> Tot a'.
Proof.
  intros Ho. induction fuel as [|f IH]; intros rnd a nxt a' n'; cbn [unify_loop]; [discriminate|].
  destruct (round a_forest o rnd a nxt) as [[[a1 n1] p1]| |] eqn:Er; cbn [ubind]; try discriminate.
  destruct p1; [apply IH|]. intros [= <- _]. eapply round_final_total; eassumption.
Qed.

(* every variable of the judgement set: its class has a data entry *)
Theorem a_unify_total o fuel st a n x : orders_ok o -> a_unify fuel o st = Ok (a, n) -> In x (ts_vars st) ->
  fm_get (a_rep iset a x) (a_data a) <> None.
Proof.
  intros Ho E Hin. pose proof (a_unify_members o fuel st a n x Ho E Hin) as Hm.
  destruct (a_unify_post o fuel st a n Ho E) as [HA _].
  assert (Ht : Tot a).
  { unfold a_unify, unify_gen in E. rewrite init_forest_a in E. cbn [ubind] in E. eapply loop_total; eassumption. }
  apply Ht. apply rep_is_root; assumption.
Qed.

Theorem unify_total o fuel st s n x : orders_ok o -> unify fuel o st = Ok (s, n) -> In x (ts_vars st) ->
  exists s' d, ds_get_data iset s x = Ok (s', Some d).
Proof.
  intros Ho U Hin. destruct (unify_ok_refines _ _ _ _ _ U) as (a & E & S).
  destruct (get_data_refines s a x S) as (s' & G & _).
  pose proof (a_unify_total o fuel st a n x Ho E Hin) as H.
  destruct (fm_get (a_rep iset a x) (a_data a)) as [d|]; [|congruence]. exists s', d. exact G.
Qed.
