(* DisjointSet refines the naive partition model (C19, first half). *)
From Coq Require Import Sorting.Sorted Wf_nat.
From SLX Require Import Base VectorMap DisjointSet proofs.VecMapProofs.
Open Scope N_scope.

(* ==================================================================================================
   Part 1: the parent vector as a forest.  Root m v x: following parent pointers from v ends in x. *)
Section Forest.
  Implicit Types (m : vmap N) (rank : N -> nat).

  Inductive Root m : N -> N -> Prop :=
  | RootAbsent v : vm_get m v = None -> Root m v v
  | RootSelf v : vm_get m v = Some v -> Root m v v
  | RootStep v p x : vm_get m v = Some p -> p <> v -> Root m p x -> Root m v x.

  (* acyclicity: a rank function that strictly decreases along every proper parent pointer *)
  Definition WF rank m : Prop := forall v p, vm_get m v = Some p -> p <> v -> (rank p < rank v)%nat.
  (* parents are members *)
  Definition closed m : Prop := forall v p, vm_get m v = Some p -> vm_get m p <> None.

  Lemma root_fun m v x y : Root m v x -> Root m v y -> x = y.
  Proof.
    intros H; revert y. induction H as [v E|v E|v p x E Hne _ IH]; intros y Hy; inversion Hy; subst; try congruence.
    replace p0 with p in * by congruence. now apply IH.
  Qed.

  Lemma root_rank rank m v x : WF rank m -> Root m v x -> x = v \/ (rank x < rank v)%nat.
  Proof.
    intros W H. induction H as [v E|v E|v p x E Hne _ IH]; auto.
    right. pose proof (W v p E Hne). destruct IH; subst; lia.
  Qed.

  Lemma root_is_root m v x : Root m v x -> vm_get m x = None \/ vm_get m x = Some x.
  Proof. induction 1; auto. Qed.

  Lemma root_total rank m : WF rank m -> forall v, exists x, Root m v x.
  Proof.
    intros W v. induction v as [v IH] using (induction_ltof1 _ rank). unfold ltof in IH.
    destruct (vm_get m v) as [p|] eqn:E.
    - destruct (N.eq_dec p v) as [->|Hne].
      + exists v. now apply RootSelf.
      + destruct (IH p (W v p E Hne)) as [x Hx]. exists x. eapply RootStep; eauto.
    - exists v. now apply RootAbsent.
  Qed.

  (* a member whose root is itself has itself as parent *)
  Lemma root_self_parent rank m v : WF rank m -> Root m v v -> vm_get m v <> None -> vm_get m v = Some v.
  Proof.
    intros W H Hk. inversion H as [u E|u E|u p x E Hne Hp]; subst; [congruence|exact E|].
    exfalso. pose proof (W v p E Hne). destruct (root_rank rank m p v W Hp); [congruence|lia].
  Qed.

  Lemma upd_get m k v u : vm_get (vm_insert m k v) u = if u =? k then Some v else vm_get m u.
  Proof. apply vm_get_insert. Qed.

  (* Re-pointing v at its own root changes nobody's root and keeps the rank function. *)
  Lemma compress_wf rank m v x : WF rank m -> Root m v x -> WF rank (vm_insert m v x).
  Proof.
    intros W H u p. rewrite upd_get. destruct (N.eqb_spec u v) as [->|Hn].
    - intros [= <-] Hne. destruct (root_rank rank m v x W H); [congruence|lia].
    - apply W.
  Qed.

  Lemma compress_root rank m v x : WF rank m -> Root m v x ->
    forall u y, Root m u y <-> Root (vm_insert m v x) u y.
  Proof.
    intros W H.
    assert (Hx : vm_get (vm_insert m v x) x = None \/ vm_get (vm_insert m v x) x = Some x).
    { rewrite upd_get. destruct (N.eqb_spec x v) as [->|]; [right; reflexivity|apply (root_is_root _ _ _ H)]. }
    assert (Fwd : forall u y, Root m u y -> Root (vm_insert m v x) u y).
    { intros u y Hu. induction Hu as [u E|u E|u p y E Hne Hp IH].
      - destruct (N.eq_dec u v) as [->|Hn].
        + assert (x = v) by (eapply root_fun; [exact H|now apply RootAbsent]). subst.
          apply RootSelf. rewrite upd_get, N.eqb_refl. reflexivity.
        + apply RootAbsent. rewrite upd_get. destruct (N.eqb_spec u v); [congruence|exact E].
      - destruct (N.eq_dec u v) as [->|Hn].
        + assert (x = v) by (eapply root_fun; [exact H|now apply RootSelf]). subst.
          apply RootSelf. rewrite upd_get, N.eqb_refl. reflexivity.
        + apply RootSelf. rewrite upd_get. destruct (N.eqb_spec u v); [congruence|exact E].
      - destruct (N.eq_dec u v) as [->|Hn].
        + assert (y = x) by (eapply root_fun; [eapply RootStep; eauto|exact H]). subst y.
          destruct (N.eq_dec x v) as [->|Hxv].
          * apply RootSelf. rewrite upd_get, N.eqb_refl. reflexivity.
          * eapply RootStep; [rewrite upd_get, N.eqb_refl; reflexivity|exact Hxv|].
            destruct Hx as [Hx|Hx]; [now apply RootAbsent|now apply RootSelf].
        + eapply RootStep; [rewrite upd_get; destruct (N.eqb_spec u v); [congruence|exact E]|exact Hne|exact IH]. }
    intros u y; split; [apply Fwd|].
    intros Hu'. destruct (root_total rank m W u) as [z Hz].
    pose proof (Fwd _ _ Hz) as Hz'. now rewrite (root_fun _ _ _ _ Hu' Hz').
  Qed.

  Lemma insert_self_wf rank m v : WF rank m -> vm_get m v = None -> WF rank (vm_insert m v v).
  Proof. intros W E. apply compress_wf; [exact W|now apply RootAbsent]. Qed.

  Lemma insert_self_root rank m v : WF rank m -> vm_get m v = None ->
    forall u y, Root m u y <-> Root (vm_insert m v v) u y.
  Proof. intros W E. apply (compress_root rank m v v W). now apply RootAbsent. Qed.

  Lemma compress_closed m v x : closed m -> vm_get m x <> None \/ x = v -> closed (vm_insert m v x).
  Proof.
    intros C Hx u p. rewrite !upd_get. destruct (N.eqb_spec u v) as [->|Hn].
    - intros [= <-]. destruct (N.eqb_spec x v); [congruence|]. destruct Hx; [assumption|congruence].
    - intros E. destruct (N.eqb_spec p v); [congruence|]. eapply C, E.
  Qed.

  (* a pure root function, used to build the rank function after a union *)
  Fixpoint rootf (fuel : nat) m (v : N) : N :=
    match fuel with
    | O => v
    | S f => match vm_get m v with Some p => if p =? v then v else rootf f m p | None => v end
    end.

  Lemma rootf_spec rank m : WF rank m -> forall fuel v, (rank v + 1 <= fuel)%nat -> Root m v (rootf fuel m v).
  Proof.
    intros W fuel. induction fuel as [|f IH]; intros v Hf; [lia|]. cbn [rootf].
    destruct (vm_get m v) as [p|] eqn:E; [|now apply RootAbsent].
    destruct (N.eqb_spec p v) as [->|Ep].
    - now apply RootSelf.
    - pose proof (W v p E Ep). eapply RootStep; eauto. apply IH. lia.
  Qed.

  (* union of two distinct roots: re-rooting b under a merges exactly those two classes *)
  Lemma union_roots rank m a b : WF rank m -> a <> b ->
    (vm_get m a = None \/ vm_get m a = Some a) -> (vm_get m b = None \/ vm_get m b = Some b) ->
    let m' := vm_insert m b a in
    (exists rank', WF rank' m') /\
    (forall u y, Root m u y -> Root m' u (if y =? b then a else y)).
  Proof.
    intros W Hab Ha Hb m'.
    assert (Ra : Root m a a) by (destruct Ha; [now apply RootAbsent|now apply RootSelf]).
    assert (Rb : Root m b b) by (destruct Hb; [now apply RootAbsent|now apply RootSelf]).
    assert (Ha' : vm_get m' a = None \/ vm_get m' a = Some a).
    { unfold m'. rewrite upd_get. destruct (N.eqb_spec a b); [congruence|exact Ha]. }
    split.
    - exists (fun u => if rootf (rank u + 1) m u =? b then (rank u + rank a + 1)%nat else rank u).
      intros u p. unfold m'. rewrite upd_get. destruct (N.eqb_spec u b) as [->|E].
      + intros [= <-] _.
        pose proof (rootf_spec rank m W (rank a + 1) a (le_n _)) as Hza.
        pose proof (rootf_spec rank m W (rank b + 1) b (le_n _)) as Hzb.
        rewrite (root_fun _ _ _ _ Hza Ra), (root_fun _ _ _ _ Hzb Rb).
        destruct (N.eqb_spec a b); [congruence|]. rewrite N.eqb_refl. lia.
      + intros Hu Hne. pose proof (W u p Hu Hne) as Hlt.
        pose proof (rootf_spec rank m W (rank p + 1) p (le_n _)) as Hzp.
        pose proof (rootf_spec rank m W (rank u + 1) u (le_n _)) as Hzu.
        assert (Heq : rootf (rank u + 1) m u = rootf (rank p + 1) m p)
          by (eapply root_fun; [exact Hzu|eapply RootStep; eauto]).
        rewrite Heq. destruct (rootf (rank p + 1) m p =? b); lia.
    - intros u y Hu. induction Hu as [u E|u E|u p y E Hne Hp IH].
      + destruct (N.eqb_spec u b) as [->|Eb].
        * eapply RootStep; [unfold m'; rewrite upd_get, N.eqb_refl; reflexivity|congruence|].
          destruct Ha' as [Hx|Hx]; [now apply RootAbsent|now apply RootSelf].
        * apply RootAbsent. unfold m'. rewrite upd_get. destruct (N.eqb_spec u b); [congruence|exact E].
      + destruct (N.eqb_spec u b) as [->|Eb].
        * eapply RootStep; [unfold m'; rewrite upd_get, N.eqb_refl; reflexivity|congruence|].
          destruct Ha' as [Hx|Hx]; [now apply RootAbsent|now apply RootSelf].
        * apply RootSelf. unfold m'. rewrite upd_get. destruct (N.eqb_spec u b); [congruence|exact E].
      + assert (Hub : u <> b). { intros ->. destruct Hb; congruence. }
        eapply RootStep; [unfold m'; rewrite upd_get; destruct (N.eqb_spec u b); [congruence|exact E]|exact Hne|exact IH].
  Qed.

  (* ---- the chain of proper parent pointers above a value, and its length (for find's fuel) ---- *)
  Inductive Chain m : N -> list N -> Prop :=
  | Chain1 v : Chain m v [v]
  | ChainS v p l : vm_get m v = Some p -> p <> v -> Chain m p l -> Chain m v (v :: l).

  Lemma chain_hd m v l : Chain m v l -> exists t, l = v :: t.
  Proof. destruct 1; eauto. Qed.

  Lemma chain_rank rank m v l : WF rank m -> Chain m v l -> forall x, In x (tl l) -> (rank x < rank v)%nat.
  Proof.
    intros W H. induction H as [v|v p l E Hne Hc IH]; cbn [tl]; [intros x []|].
    intros x Hx. pose proof (W v p E Hne) as Hlt. destruct (chain_hd _ _ _ Hc) as [t ->].
    destruct Hx as [<-|Hx]; [exact Hlt|]. specialize (IH x Hx). lia.
  Qed.

  Lemma chain_nodup rank m v l : WF rank m -> Chain m v l -> NoDup l.
  Proof.
    intros W H. induction H as [v|v p l E Hne Hc IH]; [constructor; [intros []|constructor]|].
    constructor; [|exact IH]. intros Hin.
    pose proof (chain_rank rank m v (v :: l) W (ChainS m v p l E Hne Hc) v Hin). lia.
  Qed.

  Lemma chain_known m v l : closed m -> Chain m v l -> vm_get m v <> None -> Forall (fun x => vm_get m x <> None) l.
  Proof.
    intros C H. induction H as [v|v p l E Hne Hc IH]; intros Hk; constructor; auto.
    apply IH. eapply C, E.
  Qed.

  Lemma chain_length rank m v l : WF rank m -> closed m -> Chain m v l ->
    (length l <= S (length (vm_data m)))%nat.
  Proof.
    intros W C H. destruct H as [v|v p l E Hne Hc]; [cbn; lia|].
    assert (Hall : Forall (fun x => vm_get m x <> None) (v :: l)).
    { apply (chain_known m v); [exact C|econstructor; eauto|congruence]. }
    assert (Hnd : NoDup (v :: l)) by (eapply chain_nodup; [exact W|econstructor; eauto]).
    assert (Hincl : incl (v :: l) (map N.of_nat (seq 0 (length (vm_data m))))).
    { intros x Hx. rewrite Forall_forall in Hall. specialize (Hall x Hx). apply vm_get_some_lt in Hall.
      apply in_map_iff. exists (N.to_nat x). split; [lia|]. apply in_seq. lia. }
    pose proof (NoDup_incl_length Hnd Hincl) as Hle. rewrite map_length, seq_length in Hle. lia.
  Qed.
End Forest.

(* ==================================================================================================
   Part 2: the concrete operations against the partition model. *)
Lemma fm_sorted_map {V} (l : fmap V) : fm_sorted l <-> StronglySorted N.lt (map fst l).
Proof.
  induction l as [|a t IH]; cbn [map]; split; intros H; try constructor.
  - apply IH. apply (fm_sorted_tail a t H).
  - apply (proj2 (@Forall_map _ _ fst (N.lt (fst a)) t)). apply (fm_sorted_tail a t H).
  - apply IH. inversion H; assumption.
  - inversion H as [|x y Hs Hall]; subst. exact (proj1 (@Forall_map _ _ fst (N.lt (fst a)) t) Hall).
Qed.

Lemma fm_sorted_keys {V W} (l1 : fmap V) (l2 : fmap W) : map fst l1 = map fst l2 -> fm_sorted l1 -> fm_sorted l2.
Proof. intros E H. apply fm_sorted_map. rewrite <- E. apply fm_sorted_map, H. Qed.

Lemma indices_present {V} (m : vmap V) v : vm_get m v <> None -> key_ins v (vm_indices m) = vm_indices m.
Proof.
  intros H. rewrite vm_indices_iter. apply key_ins_present; [apply vm_iter_sorted|]. rewrite <- vm_get_iter. exact H.
Qed.

Lemma fm_get_map_snd {V W} (f : V -> W) k (l : fmap V) :
  fm_get k (map (fun p => (fst p, f (snd p))) l) = option_map f (fm_get k l).
Proof.
  induction l as [|[k0 v0] t IH]; cbn [map fm_get fst snd]; [reflexivity|].
  destruct (k =? k0); [reflexivity|exact IH].
Qed.

Section Refine.
  Variable D : Type.
  Variable combine : D -> D -> D.
  Variable ident : D.
  Variable guard : bool.

  Definition Inv (s : dsu D) : Prop :=
    (exists rank, WF rank (reps s)) /\ closed (reps s) /\ vm_ok (reps s) /\ vm_ok (data s) /\
    (forall k d, vm_get (data s) k = Some d -> vm_get (reps s) k = Some k).

  (* the abstraction relation: the data table IS the data vector's contents; the members are the parent
     vector's keys; the representative recorded for a member is the root of its tree *)
  Definition Abs (s : dsu D) (a : astate D) : Prop :=
    a_data a = vm_iter (data s) /\
    map fst (a_tbl a) = vm_indices (reps s) /\
    (forall v r, fm_get v (a_tbl a) = Some r -> Root (reps s) v r).

  Lemma abs_known s a v : Abs s a -> (fm_get v (a_tbl a) = None <-> vm_get (reps s) v = None).
  Proof.
    clear combine ident guard.
    intros (_ & Hk & _). rewrite vm_get_iter, !fm_get_none_keys, Hk, vm_indices_iter. tauto.
  Qed.

  Lemma abs_tbl_sorted s a : Abs s a -> fm_sorted (a_tbl a).
  Proof.
    clear combine ident guard.
    intros (_ & Hk & _). apply (fm_sorted_keys (vm_iter (reps s))); [|apply vm_iter_sorted].
    rewrite Hk, vm_indices_iter. reflexivity.
  Qed.

  Lemma abs_rep s a v r : Abs s a -> vm_get (reps s) v <> None -> Root (reps s) v r -> a_rep D a v = r.
  Proof.
    clear combine ident guard.
    intros HA Hk Hr. unfold a_rep. destruct (fm_get v (a_tbl a)) as [r'|] eqn:E.
    - destruct HA as (_ & _ & H3). eapply root_fun; [apply H3, E|exact Hr].
    - exfalso. apply Hk. apply (abs_known s a v HA), E.
  Qed.

  (* ---------------------------------------------------------------------------------- find *)
  Lemma find_spec rank (s : dsu D) : WF rank (reps s) -> closed (reps s) -> vm_ok (reps s) ->
    forall fuel v, (forall l, Chain (reps s) v l -> (length l + 1 <= fuel)%nat) ->
    exists root s', ds_find D fuel s v = Ok (root, s') /\ data s' = data s /\
      Root (reps s) v root /\ WF rank (reps s') /\ closed (reps s') /\ vm_ok (reps s') /\
      (forall u y, Root (reps s) u y <-> Root (reps s') u y) /\
      vm_get (reps s') root = Some root /\
      vm_indices (reps s') = key_ins v (vm_indices (reps s)) /\
      (forall u, vm_get (reps s) u <> None -> vm_get (reps s') u <> None) /\
      vm_get (reps s') v <> None.
  Proof.
    clear combine ident guard.
    intros W C Hok fuel. induction fuel as [|f IH]; intros v Hf.
    - specialize (Hf [v] (Chain1 _ v)). cbn in Hf. lia.
    - cbn [ds_find]. destruct (vm_get (reps s) v) as [p|] eqn:E.
      + destruct (N.eqb_spec p v) as [->|Hne].
        * exists v, s. split; [reflexivity|]. split; [reflexivity|]. split; [now apply RootSelf|].
          split; [exact W|]. split; [exact C|]. split; [exact Hok|]. split; [tauto|]. split; [exact E|].
          split; [symmetry; apply indices_present; congruence|]. split; [auto|congruence].
        * destruct (IH p) as (root & s1 & Hfind & Hd & Hroot & W1 & C1 & Ok1 & Heq & Hrr & Hidx & Hkn & Hpk).
          { intros l Hl. specialize (Hf (v :: l) (ChainS _ v p l E Hne Hl)). cbn [length] in Hf. lia. }
          rewrite Hfind. eexists root, _. split; [reflexivity|]. cbn [reps data].
          assert (Hv : Root (reps s) v root) by (eapply RootStep; eauto).
          assert (Hv1 : Root (reps s1) v root) by (apply Heq, Hv).
          split; [exact Hd|]. split; [exact Hv|]. split; [eapply compress_wf; eauto|].
          split; [apply compress_closed; [exact C1|left; congruence]|].
          split; [apply vm_insert_ok, Ok1|].
          split; [intros u y; rewrite (Heq u y); apply (compress_root rank (reps s1) v root W1 Hv1)|].
          split; [rewrite upd_get; destruct (root =? v); [reflexivity|exact Hrr]|].
          split.
          { rewrite vm_indices_insert, Hidx. f_equal. apply indices_present. eapply C, E. }
          split; [intros u Hu; rewrite upd_get; destruct (u =? v); [congruence|apply Hkn, Hu]|].
          rewrite upd_get, N.eqb_refl. congruence.
      + destruct f as [|f']; [specialize (Hf [v] (Chain1 _ v)); cbn in Hf; lia|].
        cbn [ds_find reps]. rewrite upd_get, N.eqb_refl, N.eqb_refl.
        eexists v, _. split; [reflexivity|]. cbn [reps data].
        split; [reflexivity|]. split; [now apply RootAbsent|]. split; [now apply insert_self_wf|].
        split; [apply compress_closed; [exact C|right; reflexivity]|].
        split; [apply vm_insert_ok, Hok|].
        split; [apply (insert_self_root rank (reps s) v W E)|].
        split; [rewrite upd_get, N.eqb_refl; reflexivity|].
        split; [apply vm_indices_insert|].
        split; [intros u Hu; rewrite upd_get; destruct (u =? v); [congruence|exact Hu]|].
        rewrite upd_get, N.eqb_refl. congruence.
  Qed.

  (* the fuel handed to find by every operation is sufficient; find keeps the invariant, does not change
     anybody's root and does not touch the data *)
  Lemma find_top_spec s v : Inv s ->
    exists root s', ds_find_top D s v = Ok (root, s') /\ data s' = data s /\ Inv s' /\
      Root (reps s) v root /\
      (forall u y, Root (reps s) u y <-> Root (reps s') u y) /\
      vm_get (reps s') root = Some root /\
      vm_indices (reps s') = key_ins v (vm_indices (reps s)) /\
      (forall u, vm_get (reps s) u <> None -> vm_get (reps s') u <> None) /\
      vm_get (reps s') v <> None.
  Proof.
    clear combine ident guard.
    intros ((rank & W) & C & Hok & Hdok & Hdr).
    destruct (find_spec rank s W C Hok (find_fuel D s) v) as (root & s' & Hf & Hd & Hr & W' & C' & Ok' & Heq & Hrr & Hidx & Hkn & Hvk).
    { intros l Hl. pose proof (chain_length rank (reps s) v l W C Hl). unfold find_fuel. lia. }
    exists root, s'. split; [exact Hf|]. split; [exact Hd|]. split.
    - split; [exists rank; exact W'|]. split; [exact C'|]. split; [exact Ok'|]. split; [rewrite Hd; exact Hdok|].
      intros k d Hk. rewrite Hd in Hk. pose proof (Hdr k d Hk) as Hkk.
      apply (root_self_parent rank); [exact W'| |apply Hkn; congruence].
      apply Heq. now apply RootSelf.
    - repeat split; auto; apply Heq.
  Qed.

  (* on the specification side, find = "make it a member if it is not one" + table lookup *)
  Lemma abs_touch s a v root s' : Inv s -> Abs s a ->
    data s' = data s -> Root (reps s) v root ->
    (forall u y, Root (reps s) u y <-> Root (reps s') u y) ->
    vm_indices (reps s') = key_ins v (vm_indices (reps s)) ->
    vm_get (reps s') v <> None ->
    Abs s' (a_touch D a v) /\ a_rep D (a_touch D a v) v = root.
  Proof.
    clear combine ident guard.
    intros HI HA Hd Hr Heq Hidx Hvk.
    assert (HA' : Abs s' (a_touch D a v)).
    { destruct HA as (H1 & H2 & H3). unfold a_touch. destruct (fm_get v (a_tbl a)) as [r|] eqn:E.
      - split; [rewrite Hd; exact H1|]. split.
        + rewrite Hidx, H2. symmetry. apply indices_present.
          intros Hn. apply (abs_known s a v (conj H1 (conj H2 H3))) in Hn. congruence.
        + intros u y Hu. apply Heq, H3, Hu.
      - unfold Abs. cbn [a_tbl a_data]. split; [rewrite Hd; exact H1|]. split.
        + rewrite fm_insert_keys, H2, Hidx. reflexivity.
        + intros u y. rewrite fm_get_insert. destruct (N.eqb_spec u v) as [->|Hn].
          * intros [= <-]. apply Heq. apply RootAbsent. apply (abs_known s a v (conj H1 (conj H2 H3))), E.
          * intros Hu. apply Heq, H3, Hu. }
    split; [exact HA'|]. apply (abs_rep s'); [exact HA'|exact Hvk|apply Heq, Hr].
  Qed.
  Lemma find_abs s a v : Inv s -> Abs s a ->
    exists root s', ds_find_top D s v = Ok (root, s') /\ Inv s' /\ Abs s' (a_touch D a v) /\
      a_rep D (a_touch D a v) v = root /\ data s' = data s /\ vm_get (reps s') root = Some root /\
      (forall u, vm_get (reps s) u <> None -> vm_get (reps s') u <> None) /\
      (forall u y, Root (reps s) u y <-> Root (reps s') u y) /\
      vm_get (reps s') v <> None /\ Root (reps s) v root.
  Proof.
    clear combine ident guard.
    intros HI HA. destruct (find_top_spec s v HI) as (root & s' & Hf & Hd & HI' & Hr & Heq & Hrr & Hidx & Hkn & Hvk).
    destruct (abs_touch s a v root s' HI HA Hd Hr Heq Hidx Hvk) as (HA' & Hrep).
    exists root, s'. split; [exact Hf|]. split; [exact HI'|]. split; [exact HA'|]. split; [exact Hrep|].
    split; [exact Hd|]. split; [exact Hrr|]. split; [exact Hkn|]. split; [exact Heq|]. split; [exact Hvk|exact Hr].
  Qed.

  (* a root of the forest stays one across a find *)
  Lemma root_stays rank (m m' : vmap N) r : WF rank m' -> vm_get m r = Some r ->
    (forall u y, Root m u y <-> Root m' u y) -> (forall u, vm_get m u <> None -> vm_get m' u <> None) ->
    vm_get m' r = Some r.
  Proof.
    clear combine ident guard.
    intros W E Heq Hkn. apply (root_self_parent rank); [exact W| |apply Hkn; congruence].
    apply Heq. now apply RootSelf.
  Qed.

  (* replacing the data of the set represented by r *)
  Lemma data_update s a r x dm' : Inv s -> Abs s a -> vm_get (reps s) r = Some r ->
    vm_ok dm' -> vm_iter dm' = fm_insert r x (vm_iter (data s)) ->
    Inv (mk_dsu (reps s) dm') /\ Abs (mk_dsu (reps s) dm') (a_set_class_data D a r x).
  Proof.
    clear combine ident guard.
    intros (HW & C & Hok & Hdok & Hdr) (H1 & H2 & H3) Hr Hok' Hit. split.
    - split; [exact HW|]. split; [exact C|]. split; [exact Hok|]. split; [exact Hok'|]. cbn [reps data].
      intros k d. rewrite vm_get_iter, Hit, fm_get_insert, <- vm_get_iter.
      destruct (N.eqb_spec k r) as [->|]; [intros _; exact Hr|apply Hdr].
    - unfold Abs, a_set_class_data. cbn [reps data a_tbl a_data]. rewrite Hit, H1. auto.
  Qed.

  Lemma root_keys_in (m : vmap N) k : In k (root_keys (vm_iter m)) -> vm_get m k = Some k.
  Proof.
    clear combine ident guard.
    unfold root_keys. intros H. apply in_map_iff in H as ([k' p] & E & Hin). cbn in E. subst k'.
    apply filter_In in Hin as (Hin & Hkp). cbn in Hkp. apply N.eqb_eq in Hkp. subst p.
    rewrite vm_get_iter. apply fm_in_get; [apply vm_iter_sorted|exact Hin].
  Qed.

  Lemma root_keys_ext (l1 l2 : fmap N) : map fst l1 = map fst l2 ->
    (forall k p r, In (k, p) l1 -> In (k, r) l2 -> (k =? p) = (k =? r)) -> root_keys l1 = root_keys l2.
  Proof.
    clear combine ident guard.
    unfold root_keys. revert l2. induction l1 as [|[k1 p1] t1 IH]; intros [|[k2 r2] t2]; cbn [map fst]; try discriminate; [reflexivity|].
    intros [= -> Ht] H. cbn [filter fst snd].
    rewrite (H k2 p1 r2) by (left; reflexivity).
    assert (IH' : map fst (filter (fun p => fst p =? snd p) t1) = map fst (filter (fun p => fst p =? snd p) t2)).
    { apply IH; [exact Ht|]. intros k p r Hp Hr. apply H; right; assumption. }
    destruct (k2 =? r2); cbn [map fst]; rewrite IH'; reflexivity.
  Qed.

  Lemma root_keys_eq s a : Inv s -> Abs s a -> root_keys (vm_iter (reps s)) = root_keys (a_tbl a).
  Proof.
    clear combine ident guard.
    intros ((rank & W) & _) HA. pose proof (abs_tbl_sorted s a HA) as Hs. destruct HA as (H1 & H2 & H3).
    apply root_keys_ext; [rewrite H2, vm_indices_iter; reflexivity|].
    intros k p r Hp Hr.
    assert (Ep : vm_get (reps s) k = Some p) by (rewrite vm_get_iter; apply fm_in_get; [apply vm_iter_sorted|exact Hp]).
    assert (Er : Root (reps s) k r) by (apply H3, fm_in_get; assumption).
    destruct (N.eqb_spec k p) as [<-|Hne].
    - assert (r = k) by (eapply root_fun; [exact Er|now apply RootSelf]). subst. symmetry. apply N.eqb_refl.
    - destruct (N.eqb_spec k r) as [<-|]; [|reflexivity].
      exfalso. apply Hne. pose proof (root_self_parent rank (reps s) k W Er ltac:(congruence)). congruence.
  Qed.

  Lemma sets_fold_sim roots : forall dm : vmap D, vm_ok dm ->
    exists dm' l, sets_fold D ident roots dm = (dm', l) /\ a_sets_fold D ident roots (vm_iter dm) = (vm_iter dm', l) /\
      vm_ok dm' /\ (forall k d, vm_get dm' k = Some d -> vm_get dm k = Some d \/ In k roots).
  Proof.
    induction roots as [|k t IH]; intros dm Hok; cbn [sets_fold a_sets_fold].
    - exists dm, []. repeat split; auto.
    - rewrite <- vm_get_iter. destruct (vm_get dm k) as [d0|] eqn:E.
      + destruct (IH dm Hok) as (dm' & l & H1 & H2 & Hok' & Hin). rewrite H1, H2.
        exists dm', ((k, d0) :: l). repeat split; auto. intros k' d' Hk'. destruct (Hin k' d' Hk'); [left|right; right]; assumption.
      + destruct (IH (vm_insert dm k ident) (vm_insert_ok dm k ident Hok)) as (dm' & l & H1 & H2 & Hok' & Hin).
        rewrite H1. rewrite vm_insert_iter in H2. rewrite H2.
        exists dm', ((k, ident) :: l). repeat split; auto. intros k' d' Hk'.
        destruct (Hin k' d' Hk') as [Hg|Hg]; [|right; right; exact Hg].
        rewrite vm_get_insert in Hg. destruct (N.eqb_spec k' k) as [->|]; [right; left; reflexivity|left; exact Hg].
  Qed.

  (* ---------------------------------------------------------------------------------- one operation *)
  Lemma step_sim s a op : Inv s -> Abs s a -> guard = true \/ op_ok D a op = true ->
    exists s' o, ds_step D combine ident guard s op = Ok (s', o) /\ Inv s' /\
                 Abs s' (fst (a_step D combine ident a op)) /\ o = snd (a_step D combine ident a op).
  Proof.
    intros HI HA Hg. destruct op as [v|v|x y|v d|v|v d| |]; cbn [ds_step a_step fst snd].
    - (* insert *)
      unfold ds_insert. destruct (vm_get (reps s) v) as [p|] eqn:E.
      + assert (Hk : fm_get v (a_tbl a) <> None).
        { intros Hn. apply (abs_known s a v HA) in Hn. congruence. }
        assert (Ht : a_touch D a v = a) by (unfold a_touch; destruct (fm_get v (a_tbl a)); [reflexivity|congruence]).
        rewrite Ht. destruct guard; cbn [andb].
        * exists s, DoUnit. auto.
        * destruct Hg as [Hg|Hg]; [discriminate|]. cbn [op_ok] in Hg.
          destruct (fm_get v (a_tbl a)) as [r|] eqn:Er; [|congruence]. apply N.eqb_eq in Hg. subst r.
          destruct HI as ((rank & W) & HI'). destruct HA as (H1 & H2 & H3).
          assert (Ev : vm_get (reps s) v = Some v).
          { apply (root_self_parent rank); [exact W|apply H3, Er|congruence]. }
          rewrite (vm_insert_same (reps s) v v Ev). exists s, DoUnit. destruct s as [rs ds]. cbn [reps data].
          split; [reflexivity|]. split; [split; [exists rank; exact W|exact HI']|]. split; [repeat split; auto|reflexivity].
      + replace (guard && false) with false by (destruct guard; reflexivity).
        eexists _, DoUnit. split; [reflexivity|].
        destruct HI as ((rank & W) & C & Hok & Hdok & Hdr).
        assert (HI : Inv s) by (split; [exists rank; exact W|auto]).
        destruct (abs_touch s a v v (mk_dsu (vm_insert (reps s) v v) (data s)) HI HA) as (HA' & _);
          [reflexivity|now apply RootAbsent|apply (insert_self_root rank (reps s) v W E)|apply vm_indices_insert|
           cbn [reps]; rewrite upd_get, N.eqb_refl; congruence|].
        split; [|split; [exact HA'|reflexivity]].
        split; [exists rank; now apply insert_self_wf|]. cbn [reps data].
        split; [apply compress_closed; [exact C|right; reflexivity]|].
        split; [apply vm_insert_ok, Hok|]. split; [exact Hdok|].
        intros k d0 Hk. rewrite upd_get. destruct (N.eqb_spec k v) as [->|]; [reflexivity|eapply Hdr, Hk].
    - (* find *)
      destruct (find_abs s a v HI HA) as (root & s' & Hf & HI' & HA' & Hrep & _). rewrite Hf. cbn [lift fst snd].
      exists s', (DoFind root). rewrite Hrep. auto.
    - (* union *)
      unfold ds_union, a_union.
      destruct (find_abs s a x HI HA) as (r1 & s1 & Hf1 & HI1 & HA1 & Hrep1 & Hd1 & Hrr1 & Hkn1 & Heq1 & Hxk & Hxr).
      destruct (find_abs s1 (a_touch D a x) y HI1 HA1) as (r2 & s2 & Hf2 & HI2 & HA2 & Hrep2 & Hd2 & Hrr2 & Hkn2 & Heq2 & Hyk & Hyr).
      rewrite Hf1, Hf2. set (a2 := a_touch D (a_touch D a x) y) in *.
      assert (Hr1 : a_rep D a2 x = r1).
      { apply (abs_rep s2); [exact HA2|apply Hkn2, Hxk|apply Heq2, Heq1, Hxr]. }
      rewrite Hr1, Hrep2.
      destruct (N.eqb_spec r1 r2) as [->|Hne]; cbn [lift fst snd].
      + exists s2, DoUnit. auto.
      + destruct HI2 as ((rank & W2) & C2 & Hok2 & Hdok2 & Hdr2).
        assert (E1 : vm_get (reps s2) r1 = Some r1) by (apply (root_stays rank (reps s1)); auto).
        destruct (vm_remove_spec (E:=ds_err) (data s2) r2 Hdok2) as (dm & Hrm & Hit & Hokm). rewrite Hrm.
        eexists _, DoUnit. split; [reflexivity|].
        destruct (union_roots rank (reps s2) r1 r2 W2 Hne (or_intror E1) (or_intror Hrr2)) as ((rank' & W') & Hroots).
        destruct HA2 as (A1 & A2 & A3).
        split; [|split; [|reflexivity]].
        * split; [exists rank'; exact W'|]. cbn [reps data].
          split; [apply compress_closed; [exact C2|left; congruence]|].
          split; [apply vm_insert_ok, Hok2|]. split; [apply vm_insert_ok, Hokm|].
          intros k d0. rewrite vm_get_insert, upd_get. destruct (N.eqb_spec k r1) as [->|Hk1].
          -- intros _. destruct (N.eqb_spec r1 r2); [congruence|exact E1].
          -- rewrite (vm_get_remove (E:=ds_err) (data s2) r2 dm _ k Hdok2 Hrm).
             destruct (N.eqb_spec k r2); [discriminate|apply Hdr2].
        * unfold Abs. cbn [reps data a_tbl a_data]. rewrite A1, <- !vm_get_iter.
          split; [rewrite vm_insert_iter, Hit; reflexivity|]. split.
          -- rewrite map_map. cbn [fst]. rewrite vm_indices_insert, indices_present by congruence. exact A2.
          -- intros v r. rewrite (fm_get_map_snd (fun r0 => if r0 =? r2 then r1 else r0)).
             destruct (fm_get v (a_tbl a2)) as [r0|] eqn:E0; cbn [option_map]; [|discriminate].
             intros [= <-]. apply Hroots, A3, E0.
    - (* add_data *)
      destruct (find_abs s a v HI HA) as (root & s' & Hf & HI' & HA' & Hrep & Hd & Hrr & _).
      unfold ds_add_data. rewrite Hf. rewrite Hrep.
      pose proof HI' as (_ & _ & _ & Hdok & _).
      destruct (vm_remove_spec (E:=ds_err) (data s') root Hdok) as (dm & Hrm & Hit & Hokm). rewrite Hrm. cbn [lift].
      eexists _, DoUnit. split; [reflexivity|].
      pose proof HA' as (A1 & _). rewrite A1, <- vm_get_iter.
      destruct (data_update s' (a_touch D a v) root (combine (or_ident D ident (vm_get (data s') root)) d)
                  (vm_insert dm root (combine (or_ident D ident (vm_get (data s') root)) d)) HI' HA' Hrr) as (HI2 & HA2).
      { apply vm_insert_ok, Hokm. }
      { rewrite vm_insert_iter, Hit. apply fm_insert_overwrite, vm_iter_sorted. }
      auto.
    - (* get_data *)
      destruct (find_abs s a v HI HA) as (root & s' & Hf & HI' & HA' & Hrep & _).
      unfold ds_get_data. rewrite Hf. cbn [lift fst snd]. eexists _, _. split; [reflexivity|].
      rewrite Hrep. destruct HA' as (A1 & A23). rewrite A1, <- vm_get_iter.
      split; [exact HI'|]. split; [split; assumption|reflexivity].
    - (* set_data *)
      destruct (find_abs s a v HI HA) as (root & s' & Hf & HI' & HA' & Hrep & Hd & Hrr & _).
      unfold ds_set_data. rewrite Hf. cbn [lift]. rewrite Hrep. eexists _, DoUnit. split; [reflexivity|].
      destruct (data_update s' (a_touch D a v) root d (vm_insert (data s') root d) HI' HA' Hrr) as (HI2 & HA2).
      { apply vm_insert_ok. apply HI'. }
      { apply vm_insert_iter. }
      auto.
    - (* sets *)
      unfold ds_sets. rewrite (root_keys_eq s a HI HA).
      pose proof HI as (HW & C & Hok & Hdok & Hdr). pose proof HA as (A1 & A2 & A3).
      destruct (sets_fold_sim (root_keys (a_tbl a)) (data s) Hdok) as (dm' & l & H1 & H2 & Hok' & Hin).
      rewrite H1, A1, H2. cbn [fst snd]. eexists _, _. split; [reflexivity|].
      split; [|split; [|reflexivity]].
      + split; [exact HW|]. split; [exact C|]. split; [exact Hok|]. split; [exact Hok'|]. cbn [reps data].
        intros k d0 Hk. destruct (Hin k d0 Hk) as [Hq|Hq]; [eapply Hdr, Hq|].
        apply root_keys_in. rewrite (root_keys_eq s a HI HA). exact Hq.
      + unfold Abs. cbn [reps data a_tbl a_data]. auto.
    - (* values *)
      exists s, (DoValues (ds_values D s)). split; [reflexivity|]. split; [exact HI|]. split; [exact HA|].
      unfold ds_values. destruct HA as (_ & A2 & _). rewrite A2. reflexivity.
  Qed.
  (* ---------------------------------------------------------------------------------- every history *)
  Lemma run_sim ops : forall s a, Inv s -> Abs s a ->
    guard = true \/ hist_ok_from D combine ident a ops = true ->
    exists s' outs, ds_run_from D combine ident guard s ops = Ok (s', outs) /\ Inv s' /\
                    Abs s' (fst (a_run_from D combine ident a ops)) /\
                    outs = snd (a_run_from D combine ident a ops).
  Proof.
    induction ops as [|op t IH]; intros s a HI HA Hg; cbn [ds_run_from a_run_from].
    - exists s, []. auto.
    - assert (Hg1 : guard = true \/ op_ok D a op = true).
      { destruct Hg as [Hg|Hg]; [left; exact Hg|right]. cbn [hist_ok_from] in Hg. apply andb_true_iff in Hg. tauto. }
      assert (Hg2 : guard = true \/ hist_ok_from D combine ident (fst (a_step D combine ident a op)) t = true).
      { destruct Hg as [Hg|Hg]; [left; exact Hg|right]. cbn [hist_ok_from] in Hg. apply andb_true_iff in Hg. tauto. }
      destruct (step_sim s a op HI HA Hg1) as (s1 & o & H1 & HI1 & HA1 & Ho). rewrite H1.
      destruct (IH s1 _ HI1 HA1 Hg2) as (s2 & outs & H2 & HI2 & HA2 & Houts). rewrite H2.
      destruct (a_step D combine ident a op) as [a1 o1]. cbn [fst snd] in *.
      destruct (a_run_from D combine ident a1 t) as [a2 os]. cbn [fst snd] in *.
      exists s2, (o :: outs). subst. auto.
  Qed.

  Lemma inv_new : Inv (ds_new D).
  Proof.
    assert (Hn : forall v, vm_get (@vm_new N) v = None) by (intros v; unfold vm_get; cbn; destruct (N.to_nat v); reflexivity).
    split; [exists (fun _ => O); intros v p E; rewrite Hn in E; discriminate|].
    split; [intros v p E; rewrite Hn in E; discriminate|].
    split; [apply vm_new_ok|]. split; [apply vm_new_ok|].
    intros k d E. unfold vm_get in E. cbn in E. destruct (N.to_nat k); discriminate.
  Qed.

  Lemma abs_new : Abs (ds_new D) (a_new D).
  Proof. split; [reflexivity|]. split; [reflexivity|]. intros v r E. discriminate. Qed.

  (* THE REFINEMENT THEOREM.  For every history (outside the known class when insert is unguarded):
     the concrete run completes -- find never runs out of the fuel it is given and nothing panics --,
     every operation returns exactly what the partition model returns, the final state is well formed
     and abstracts to the model's final state. *)
  Theorem ds_run_refines_proof ops : guard = true \/ hist_ok D combine ident ops = true ->
    exists s outs, ds_run D combine ident guard ops = Ok (s, outs) /\
                   outs = snd (a_run D combine ident ops) /\ Inv s /\ Abs s (fst (a_run D combine ident ops)).
  Proof.
    intros Hg. destruct (run_sim ops (ds_new D) (a_new D) inv_new abs_new Hg) as (s & outs & H & HI & HA & Ho).
    exists s, outs. auto.
  Qed.

  (* what Inv and Abs say, spelled out *)
  Theorem ds_wellformed_proof ops : guard = true \/ hist_ok D combine ident ops = true ->
    exists s outs, ds_run D combine ident guard ops = Ok (s, outs) /\
      let a := fst (a_run D combine ident ops) in
      (* parent pointers are acyclic: some rank strictly decreases along every proper parent pointer *)
      (exists rank : N -> nat, forall v p, vm_get (reps s) v = Some p -> p <> v -> (rank p < rank v)%nat) /\
      (* parents are members *)
      (forall v p, vm_get (reps s) v = Some p -> vm_get (reps s) p <> None) /\
      (* data lives only at roots *)
      (forall k d, vm_get (data s) k = Some d -> vm_get (reps s) k = Some k) /\
      (* both size counters are accurate *)
      vm_len (reps s) = N.of_nat (length (vm_iter (reps s))) /\ vm_len (data s) = N.of_nat (length (vm_iter (data s))) /\
      (* the members are the model's members, every member's root is the model's representative,
         and the data vector is the model's data table *)
      vm_indices (reps s) = map fst (a_tbl a) /\
      (forall v, vm_get (reps s) v <> None -> Root (reps s) v (a_rep D a v)) /\
      vm_iter (data s) = a_data a /\
      (* a later find needs at most this much fuel, and gets two more *)
      (forall v l, Chain (reps s) v l -> (length l <= S (length (vm_data (reps s))))%nat).
  Proof.
    intros Hg. destruct (ds_run_refines_proof ops Hg) as (s & outs & H & _ & HI & HA).
    exists s, outs. split; [exact H|]. cbv zeta.
    destruct HI as ((rank & W) & C & Hok & Hdok & Hdr). pose proof HA as (A1 & A2 & A3).
    split; [exists rank; exact W|]. split; [exact C|]. split; [exact Hdr|]. split; [exact Hok|]. split; [exact Hdok|].
    split; [symmetry; exact A2|]. split; [|split; [symmetry; exact A1|]].
    - intros v Hv. unfold a_rep. destruct (fm_get v (a_tbl (fst (a_run D combine ident ops)))) as [r|] eqn:E.
      + apply A3, E.
      + exfalso. apply Hv. apply (abs_known s _ v HA), E.
    - intros v l Hl. eapply chain_length; eauto.
  Qed.
End Refine.

(* the unguarded insert really departs from the partition model: union(0,1); insert(1); find(1) *)
Lemma reinsert_refuted :
  exists ops : list (dop N),
    hist_ok N N.add 0 ops = false /\
    match ds_run N N.add 0 false ops with
    | Ok (_, outs) => outs <> snd (a_run N N.add 0 ops)
    | _ => False
    end.
Proof. exists [DUnion 0 1; DInsert 1; DFind 1]. split; [reflexivity|]. vm_compute. intros H. discriminate H. Qed.

(* ==================================================================================================
   Part 3: the partition model itself says what the property says.
   (a) its partition is the smallest equivalence containing the union pairs of the history;
   (b) for a commutative monoid, the data of a set is the monoid sum of everything added to its members:
       nothing is lost and nothing is counted twice when sets are merged. *)
Section Spec.
  Variable D : Type.
  Variable combine : D -> D -> D.
  Variable ident : D.

  Notation astep := (a_step D combine ident).
  Notation rep := (a_rep D).

  (* every recorded representative is a member that represents itself *)
  Definition tbl_ok (a : astate D) : Prop := forall v r, fm_get v (a_tbl a) = Some r -> fm_get r (a_tbl a) = Some r.

  Lemma rep_touch a v u : rep (a_touch D a v) u = rep a u.
  Proof.
    unfold a_rep, a_touch. destruct (fm_get v (a_tbl a)) as [r|] eqn:E; [reflexivity|]. cbn [a_tbl].
    rewrite fm_get_insert. destruct (N.eqb_spec u v) as [->|]; [rewrite E|]; reflexivity.
  Qed.

  Lemma touch_ok a v : tbl_ok a -> tbl_ok (a_touch D a v).
  Proof.
    unfold tbl_ok, a_touch. intros H. destruct (fm_get v (a_tbl a)) as [r|] eqn:E; [exact H|]. cbn [a_tbl].
    intros u r. rewrite !fm_get_insert. destruct (N.eqb_spec u v) as [->|Hn].
    - intros [= <-]. rewrite N.eqb_refl. reflexivity.
    - intros Hu. destruct (N.eqb_spec r v) as [->|]; [reflexivity|]. eapply H, Hu.
  Qed.

  Lemma touch_member a v : fm_get v (a_tbl (a_touch D a v)) = Some (rep (a_touch D a v) v).
  Proof.
    unfold a_rep, a_touch. destruct (fm_get v (a_tbl a)) as [r|] eqn:E; [rewrite E; reflexivity|]. cbn [a_tbl].
    rewrite fm_get_insert, N.eqb_refl. reflexivity.
  Qed.

  Lemma touch_keeps a v u r : fm_get u (a_tbl a) = Some r -> fm_get u (a_tbl (a_touch D a v)) = Some r.
  Proof.
    unfold a_touch. intros H. destruct (fm_get v (a_tbl a)) eqn:E; [exact H|]. cbn [a_tbl].
    rewrite fm_get_insert. destruct (N.eqb_spec u v); [congruence|exact H].
  Qed.

  Lemma touch_data a v : a_data (a_touch D a v) = a_data a.
  Proof. unfold a_touch. destruct (fm_get v (a_tbl a)); reflexivity. Qed.

  (* the table after merging the sets represented by r1 and r2 *)
  Definition merge_tbl (r1 r2 : N) (t : fmap N) : fmap N := map (fun p => (fst p, if snd p =? r2 then r1 else snd p)) t.

  Lemma rep_merge a r1 r2 dt u : tbl_ok a -> fm_get r2 (a_tbl a) = Some r2 ->
    rep (mk_a (merge_tbl r1 r2 (a_tbl a)) dt) u = if rep a u =? r2 then r1 else rep a u.
  Proof.
    intros Hok H2. unfold a_rep, merge_tbl. cbn [a_tbl].
    rewrite (fm_get_map_snd (fun r0 => if r0 =? r2 then r1 else r0)).
    destruct (fm_get u (a_tbl a)) as [r|] eqn:E; cbn [option_map]; [reflexivity|].
    destruct (N.eqb_spec u r2) as [->|]; [congruence|reflexivity].
  Qed.

  Lemma merge_ok a r1 r2 dt : tbl_ok a -> fm_get r1 (a_tbl a) = Some r1 -> r1 <> r2 ->
    tbl_ok (mk_a (merge_tbl r1 r2 (a_tbl a)) dt).
  Proof.
    intros Hok H1 Hne v r. unfold merge_tbl. cbn [a_tbl].
    rewrite !(fm_get_map_snd (fun r0 => if r0 =? r2 then r1 else r0)).
    destruct (fm_get v (a_tbl a)) as [r0|] eqn:E; cbn [option_map]; [|discriminate]. intros [= <-].
    destruct (N.eqb_spec r0 r2) as [->|Hn].
    - rewrite H1. cbn [option_map]. destruct (N.eqb_spec r1 r2); [congruence|reflexivity].
    - rewrite (Hok v r0 E). cbn [option_map]. destruct (N.eqb_spec r0 r2); [congruence|reflexivity].
  Qed.

  (* ---- (a) the partition ---- *)
  Fixpoint union_pairs (ops : list (dop D)) : list (N * N) :=
    match ops with
    | [] => []
    | DUnion x y :: t => (x, y) :: union_pairs t
    | _ :: t => union_pairs t
    end.

  (* the smallest equivalence relation containing the pairs *)
  Inductive Conn (ps : list (N * N)) : N -> N -> Prop :=
  | ConnRefl x : Conn ps x x
  | ConnPair x y : In (x, y) ps -> Conn ps x y
  | ConnSym x y : Conn ps x y -> Conn ps y x
  | ConnTrans x y z : Conn ps x y -> Conn ps y z -> Conn ps x z.

  Lemma conn_mono ps qs x y : incl ps qs -> Conn ps x y -> Conn qs x y.
  Proof.
    intros Hi H. induction H; [apply ConnRefl|apply ConnPair, Hi; assumption|apply ConnSym; assumption|eapply ConnTrans; eassumption].
  Qed.

  Lemma conn_least ps (f : N -> N) x y : (forall a b, In (a, b) ps -> f a = f b) -> Conn ps x y -> f x = f y.
  Proof. intros Hp H. induction H; [reflexivity|apply Hp; assumption|congruence|congruence]. Qed.

  Definition part_inv (a : astate D) (ps : list (N * N)) : Prop :=
    tbl_ok a /\ forall x y, rep a x = rep a y <-> Conn ps x y.

  Lemma part_touch a ps v : part_inv a ps -> part_inv (a_touch D a v) ps.
  Proof.
    intros (Hok & H). split; [apply touch_ok, Hok|]. intros x y. rewrite !rep_touch. apply H.
  Qed.

  Lemma part_data a ps dt : part_inv a ps -> part_inv (mk_a (a_tbl a) dt) ps.
  Proof. intros H. exact H. Qed.

  Lemma part_step a ps op : part_inv a ps -> part_inv (fst (astep a op)) (ps ++ union_pairs [op]).
  Proof.
    intros HP. destruct op as [v|v|x y|v d|v|v d| |]; cbn [a_step fst union_pairs]; rewrite ?app_nil_r.
    - exact (part_touch a ps v HP).
    - exact (part_touch a ps v HP).
    - (* union *)
      unfold a_union. set (a2 := a_touch D (a_touch D a x) y).
      assert (HP2 : part_inv a2 ps) by (apply part_touch, part_touch, HP). destruct HP2 as (Hok2 & H2).
      assert (Mx : fm_get x (a_tbl a2) = Some (rep a2 x)).
      { unfold a2. rewrite rep_touch. apply touch_keeps, touch_member. }
      assert (My : fm_get y (a_tbl a2) = Some (rep a2 y)) by apply touch_member.
      pose proof (Hok2 _ _ Mx) as R1. pose proof (Hok2 _ _ My) as R2.
      destruct (N.eqb_spec (rep a2 x) (rep a2 y)) as [Heq|Hne].
      + split; [exact Hok2|]. intros u w. split.
        * intros E. apply (conn_mono ps); [apply incl_appl, incl_refl|apply H2, E].
        * apply conn_least. intros p q Hin. apply in_app_or in Hin as [Hin|[[= <- <-]|[]]]; [|exact Heq].
          apply H2. apply ConnPair, Hin.
      + change (map (fun p => (fst p, if snd p =? rep a2 y then rep a2 x else snd p)) (a_tbl a2))
          with (merge_tbl (rep a2 x) (rep a2 y) (a_tbl a2)).
        split; [apply merge_ok; assumption|]. intros u w. rewrite !rep_merge by assumption. split.
        * assert (Hold : forall p q, rep a2 p = rep a2 q -> Conn (ps ++ [(x, y)]) p q).
          { intros p q E. apply (conn_mono ps); [apply incl_appl, incl_refl|apply H2, E]. }
          assert (Hxy : Conn (ps ++ [(x, y)]) x y) by (apply ConnPair, in_or_app; right; left; reflexivity).
          destruct (N.eqb_spec (rep a2 u) (rep a2 y)) as [Eu|Eu]; destruct (N.eqb_spec (rep a2 w) (rep a2 y)) as [Ew|Ew]; intros E.
          -- apply Hold. congruence.
          -- eapply ConnTrans; [apply Hold, Eu|]. eapply ConnTrans; [apply ConnSym, Hxy|]. apply Hold. exact E.
          -- eapply ConnTrans; [apply Hold, E|]. eapply ConnTrans; [exact Hxy|]. apply Hold. congruence.
          -- apply Hold, E.
        * apply (conn_least _ (fun u => if rep a2 u =? rep a2 y then rep a2 x else rep a2 u)).
          intros p q Hin. apply in_app_or in Hin as [Hin|[[= <- <-]|[]]].
          -- assert (E : rep a2 p = rep a2 q) by (apply H2, ConnPair, Hin). rewrite E. reflexivity.
          -- rewrite N.eqb_refl. destruct (N.eqb_spec (rep a2 x) (rep a2 y)); [congruence|reflexivity].
    - (* add_data *) exact (part_touch a ps v HP).
    - (* get_data *) exact (part_touch a ps v HP).
    - (* set_data *) exact (part_touch a ps v HP).
    - (* sets *) destruct (a_sets_fold D ident (root_keys (a_tbl a)) (a_data a)) as [dt l]. exact HP.
    - exact HP.
  Qed.

  Lemma union_pairs_app ops1 ops2 : union_pairs (ops1 ++ ops2) = union_pairs ops1 ++ union_pairs ops2.
  Proof.
    induction ops1 as [|op t IH]; [reflexivity|]. destruct op; cbn [app union_pairs]; rewrite IH; reflexivity.
  Qed.

  Lemma part_run ops : forall a ps, part_inv a ps ->
    part_inv (fst (a_run_from D combine ident a ops)) (ps ++ union_pairs ops).
  Proof.
    induction ops as [|op t IH]; intros a ps HP; cbn [a_run_from].
    - cbn [union_pairs fst]. rewrite app_nil_r. exact HP.
    - pose proof (part_step a ps op HP) as H1. destruct (astep a op) as [a1 o1]. cbn [fst] in H1.
      specialize (IH a1 _ H1). destruct (a_run_from D combine ident a1 t) as [a2 os]. cbn [fst] in *.
      change (op :: t) with ([op] ++ t). rewrite union_pairs_app, app_assoc. exact IH.
  Qed.

  (* Two values are reported in the same set (same representative) exactly when they are connected by
     the union operations of the history -- whatever else happened in between (find, compression, data
     operations, enumeration, insertion): the partition is never split and never merged otherwise. *)
  Theorem partition_is_closure_proof ops x y :
    let a := fst (a_run D combine ident ops) in rep a x = rep a y <-> Conn (union_pairs ops) x y.
  Proof.
    cbv zeta. assert (H0 : part_inv (a_new D) []).
    { split; [intros v r E; discriminate|]. intros u w. unfold a_rep. cbn. split; [intros ->; apply ConnRefl|].
      intros H. apply (conn_least [] (fun z => z)); [intros a b []|exact H]. }
    apply (part_run ops (a_new D) [] H0).
  Qed.
End Spec.

Section Conservation.
  Variable D : Type.
  Variable combine : D -> D -> D.
  Variable ident : D.
  (* Combine's contract (src/data/combine.rs): symmetric, associative, identity *)
  Hypothesis comb_comm : forall a b, combine a b = combine b a.
  Hypothesis comb_assoc : forall a b c, combine a (combine b c) = combine (combine a b) c.
  Hypothesis comb_ident : forall a, combine a ident = a.

  Notation astep := (a_step D combine ident).
  Notation rep := (a_rep D).
  Notation oid := (or_ident D ident).

  Definition msum (l : list D) : D := fold_right combine ident l.

  Lemma msum_app l1 l2 : msum (l1 ++ l2) = combine (msum l1) (msum l2).
  Proof.
    induction l1 as [|a t IH]; cbn [app msum fold_right].
    - rewrite comb_comm, comb_ident. reflexivity.
    - fold (msum (t ++ l2)). fold (msum t). rewrite IH, comb_assoc. reflexivity.
  Qed.

  Lemma msum_filter_or (p1 p2 : N * D -> bool) cs : (forall x, p1 x = true -> p2 x = true -> False) ->
    msum (map snd (filter (fun x => p1 x || p2 x) cs)) =
    combine (msum (map snd (filter p1 cs))) (msum (map snd (filter p2 cs))).
  Proof.
    intros Hd. induction cs as [|x t IH]; cbn [filter map msum fold_right].
    - rewrite comb_ident. reflexivity.
    - destruct (p1 x) eqn:E1; destruct (p2 x) eqn:E2; cbn [orb map msum fold_right];
        fold (msum (map snd (filter (fun x => p1 x || p2 x) t))); fold (msum (map snd (filter p1 t)));
        fold (msum (map snd (filter p2 t))); rewrite ?IH.
      + exfalso. eauto.
      + apply comb_assoc.
      + rewrite comb_assoc, (comb_comm (snd x)), <- comb_assoc. reflexivity.
      + reflexivity.
  Qed.

  (* everything that was ever added, in order *)
  Fixpoint adds (ops : list (dop D)) : list (N * D) :=
    match ops with
    | [] => []
    | DAdd v d :: t => (v, d) :: adds t
    | _ :: t => adds t
    end.

  Fixpoint no_set_data (ops : list (dop D)) : bool :=
    match ops with
    | [] => true
    | DSet _ _ :: _ => false
    | _ :: t => no_set_data t
    end.

  (* the contributions that went to members of the set represented by r *)
  Definition sel (a : astate D) (cs : list (N * D)) (r : N) : list D :=
    map snd (filter (fun p => rep a (fst p) =? r) cs).

  Definition cons_inv (a : astate D) (cs : list (N * D)) : Prop :=
    tbl_ok D a /\ fm_sorted (a_tbl a) /\
    (forall r d, fm_get r (a_data a) = Some d -> fm_get r (a_tbl a) = Some r) /\
    (forall v d, In (v, d) cs -> fm_get v (a_tbl a) <> None) /\
    (forall r, fm_get r (a_tbl a) = Some r -> oid (fm_get r (a_data a)) = msum (sel a cs r)).

  Lemma sel_ext a a' cs r : (forall u, rep a' u = rep a u) -> sel a' cs r = sel a cs r.
  Proof. intros H. unfold sel. f_equal. apply filter_ext. intros p. rewrite H. reflexivity. Qed.

  Lemma filter_none {A} (f : A -> bool) l : (forall x, In x l -> f x = false) -> filter f l = [].
  Proof.
    induction l as [|x t IH]; intros H; cbn [filter]; [reflexivity|].
    rewrite (H x (or_introl eq_refl)). apply IH. intros y Hy. apply H. right. exact Hy.
  Qed.

  Lemma touch_sorted a v : fm_sorted (a_tbl a) -> fm_sorted (a_tbl (a_touch D a v)).
  Proof.
    unfold a_touch. intros H. destruct (fm_get v (a_tbl a)); [exact H|]. cbn [a_tbl]. apply fm_insert_sorted, H.
  Qed.

  Lemma cons_touch a cs v : cons_inv a cs -> cons_inv (a_touch D a v) cs.
  Proof.
    intros (Hok & Hs & D1 & D2 & J).
    split; [apply touch_ok, Hok|]. split; [apply touch_sorted, Hs|]. rewrite touch_data.
    split; [intros r d Hr; apply touch_keeps, (D1 r d Hr)|].
    split.
    { intros u d Hu. destruct (fm_get u (a_tbl a)) as [ru|] eqn:E; [|exfalso; eapply D2; eauto].
      rewrite (touch_keeps D a v u ru E). discriminate. }
    intros r Hr. rewrite (sel_ext a) by (intros u; apply rep_touch).
    unfold a_touch in Hr. destruct (fm_get v (a_tbl a)) as [rv|] eqn:Ev; [apply J, Hr|]. cbn [a_tbl] in Hr.
    rewrite fm_get_insert in Hr. destruct (N.eqb_spec r v) as [->|Hn]; [|apply J, Hr].
    assert (Hd : fm_get v (a_data a) = None).
    { destruct (fm_get v (a_data a)) as [d|] eqn:Ed; [|reflexivity]. rewrite (D1 v d Ed) in Ev. discriminate. }
    rewrite Hd. unfold sel. rewrite filter_none; [reflexivity|].
    intros [u d] Hin. cbn [fst]. apply N.eqb_neq. intros Hu.
    destruct (fm_get u (a_tbl a)) as [ru|] eqn:E; [|eapply D2; eauto].
    unfold a_rep in Hu. rewrite E in Hu. subst ru. rewrite (Hok u v E) in Ev. discriminate.
  Qed.

  Lemma sets_fold_data roots : forall dt : fmap D,
    (forall r, oid (fm_get r (fst (a_sets_fold D ident roots dt))) = oid (fm_get r dt)) /\
    (forall r d, fm_get r (fst (a_sets_fold D ident roots dt)) = Some d -> fm_get r dt = Some d \/ In r roots).
  Proof.
    induction roots as [|k t IH]; intros dt; cbn [a_sets_fold].
    - cbn [fst]. split; auto.
    - destruct (fm_get k dt) as [d0|] eqn:E.
      + destruct (IH dt) as (H1 & H2). destruct (a_sets_fold D ident t dt) as [dt' l]. cbn [fst] in *.
        split; [exact H1|]. intros r d Hr. destruct (H2 r d Hr); [left|right; right]; assumption.
      + destruct (IH (fm_insert k ident dt)) as (H1 & H2).
        destruct (a_sets_fold D ident t (fm_insert k ident dt)) as [dt' l]. cbn [fst] in *. split.
        * intros r. rewrite H1, fm_get_insert. destruct (N.eqb_spec r k) as [->|]; [rewrite E|]; reflexivity.
        * intros r d Hr. destruct (H2 r d Hr) as [Hg|Hg]; [|right; right; exact Hg].
          rewrite fm_get_insert in Hg. destruct (N.eqb_spec r k) as [->|]; [right; left; reflexivity|left; exact Hg].
  Qed.

  Lemma root_keys_in_tbl (l : fmap N) k : fm_sorted l -> In k (root_keys l) -> fm_get k l = Some k.
  Proof.
    unfold root_keys. intros Hs H. apply in_map_iff in H as ([k' p] & E & Hin). cbn in E. subst k'.
    apply filter_In in Hin as (Hin & Hkp). cbn in Hkp. apply N.eqb_eq in Hkp. subst p.
    apply fm_in_get; assumption.
  Qed.

  (* The ledger: what has been contributed to the data of the sets and is still in effect.  add_data v d
     contributes d to v; set_data v d discards what was contributed to the members of v's set and contributes d. *)
  Definition step_ledger (a : astate D) (cs : list (N * D)) (op : dop D) : list (N * D) :=
    match op with
    | DAdd v d => cs ++ [(v, d)]
    | DSet v d => let a1 := a_touch D a v in filter (fun p => negb (rep a1 (fst p) =? rep a1 v)) cs ++ [(v, d)]
    | _ => cs
    end.

  Fixpoint ledger_from (a : astate D) (cs : list (N * D)) (ops : list (dop D)) : list (N * D) :=
    match ops with
    | [] => cs
    | op :: t => ledger_from (fst (astep a op)) (step_ledger a cs op) t
    end.
  Definition ledger (ops : list (dop D)) : list (N * D) := ledger_from (a_new D) [] ops.

  Lemma filter_filter_imp {A} (f g : A -> bool) l : (forall x, f x = true -> g x = true) -> filter f (filter g l) = filter f l.
  Proof.
    intros H. induction l as [|x t IH]; cbn [filter]; [reflexivity|].
    destruct (g x) eqn:Eg; cbn [filter]; destruct (f x) eqn:Ef; rewrite ?IH; try reflexivity.
    rewrite (H x Ef) in Eg. discriminate.
  Qed.

  Lemma cons_step a cs op : cons_inv a cs -> cons_inv (fst (astep a op)) (step_ledger a cs op).
  Proof.
    intros HC. destruct op as [v|v|x y|v d|v|v d| |]; cbn [a_step fst step_ledger].
    - exact (cons_touch a cs v HC).
    - exact (cons_touch a cs v HC).
    - (* union *)
      unfold a_union. set (a2 := a_touch D (a_touch D a x) y).
      assert (HC2 : cons_inv a2 cs) by (apply cons_touch, cons_touch, HC).
      destruct HC2 as (Hok & Hs & D1 & D2 & J).
      assert (Mx : fm_get x (a_tbl a2) = Some (rep a2 x)).
      { unfold a2. rewrite rep_touch. apply touch_keeps, touch_member. }
      assert (My : fm_get y (a_tbl a2) = Some (rep a2 y)) by apply touch_member.
      pose proof (Hok _ _ Mx) as R1. pose proof (Hok _ _ My) as R2.
      destruct (N.eqb_spec (rep a2 x) (rep a2 y)) as [Heq|Hne]; [repeat split; assumption|].
      set (r1 := rep a2 x) in *. set (r2 := rep a2 y) in *.
      change (map (fun p => (fst p, if snd p =? r2 then r1 else snd p)) (a_tbl a2)) with (merge_tbl r1 r2 (a_tbl a2)).
      set (c := combine (oid (fm_get r1 (a_data a2))) (oid (fm_get r2 (a_data a2)))).
      assert (Hrep : forall u, rep (mk_a (merge_tbl r1 r2 (a_tbl a2)) (fm_insert r1 c (fm_remove r2 (a_data a2)))) u
                               = if rep a2 u =? r2 then r1 else rep a2 u) by (intros u; apply rep_merge; assumption).
      assert (Hget : forall v, fm_get v (merge_tbl r1 r2 (a_tbl a2)) = option_map (fun r0 => if r0 =? r2 then r1 else r0) (fm_get v (a_tbl a2))).
      { intros v. unfold merge_tbl. apply (fm_get_map_snd (fun r0 => if r0 =? r2 then r1 else r0)). }
      split; [apply merge_ok; assumption|].
      split; [apply (fm_sorted_keys (a_tbl a2)); [cbn [a_tbl]; unfold merge_tbl; rewrite map_map; reflexivity|exact Hs]|].
      cbn [a_tbl a_data]. split.
      { intros r d. rewrite fm_get_insert, fm_get_remove, Hget. destruct (N.eqb_spec r r1) as [->|Hn1].
        - intros _. rewrite R1. cbn [option_map]. destruct (N.eqb_spec r1 r2); [congruence|reflexivity].
        - destruct (N.eqb_spec r r2) as [->|Hn2]; [discriminate|]. intros Hd. rewrite (D1 r d Hd). cbn [option_map].
          destruct (N.eqb_spec r r2); [congruence|reflexivity]. }
      split.
      { intros v d Hin. rewrite Hget. destruct (fm_get v (a_tbl a2)) eqn:E; [discriminate|]. exfalso. eapply D2; eauto. }
      intros r Hr. rewrite Hget in Hr. rewrite fm_get_insert, fm_get_remove.
      unfold sel. rewrite (filter_ext _ (fun p => (rep a2 (fst p) =? r2) && (r1 =? r) || negb (rep a2 (fst p) =? r2) && (rep a2 (fst p) =? r))).
      2:{ intros p. rewrite Hrep. destruct (rep a2 (fst p) =? r2); cbn [andb orb negb]; [rewrite orb_false_r|]; reflexivity. }
      destruct (N.eqb_spec r r1) as [->|Hn1].
      + cbn [oid or_ident]. unfold c. rewrite (J r1 R1), (J r2 R2). unfold sel. rewrite comb_comm.
        rewrite <- msum_filter_or.
        * f_equal. f_equal. apply filter_ext. intros p. rewrite N.eqb_refl, andb_true_r.
          destruct (N.eqb_spec (rep a2 (fst p)) r2) as [E|E]; cbn [negb andb orb]; reflexivity.
        * intros p E1 E2. apply N.eqb_eq in E1, E2. congruence.
      + destruct (fm_get r (a_tbl a2)) as [r0|] eqn:E0; cbn [option_map] in Hr; [|discriminate].
        assert (r0 = r /\ r <> r2) as (-> & Hn2).
        { destruct (N.eqb_spec r0 r2) as [->|]; [congruence|]. injection Hr as ->. split; [reflexivity|assumption]. }
        destruct (N.eqb_spec r r2); [congruence|]. rewrite (J r E0). unfold sel. f_equal. f_equal.
        apply filter_ext. intros p. destruct (N.eqb_spec r1 r); [congruence|]. rewrite andb_false_r. cbn [orb].
        destruct (N.eqb_spec (rep a2 (fst p)) r2) as [E|E]; cbn [negb andb]; [|reflexivity].
        rewrite E. destruct (N.eqb_spec r2 r); [congruence|reflexivity].
    - (* add_data *)
      pose proof (cons_touch a cs v HC) as (Hok & Hs & D1 & D2 & J). set (a1 := a_touch D a v) in *.
      pose proof (touch_member D a v) as Mv. fold a1 in Mv. pose proof (Hok _ _ Mv) as R0. set (r0 := rep a1 v) in *.
      unfold a_set_class_data. split; [exact Hok|]. split; [exact Hs|]. cbn [a_tbl a_data].
      split.
      { intros r d0. rewrite fm_get_insert. destruct (N.eqb_spec r r0) as [->|]; [intros _; exact R0|apply D1]. }
      split.
      { intros u d0 Hin. apply in_app_or in Hin as [Hin|[[= <- <-]|[]]]; [eapply D2, Hin|]. rewrite Mv. discriminate. }
      intros r Hr. rewrite fm_get_insert.
      assert (Hsel : sel (mk_a (a_tbl a1) (fm_insert r0 (combine (oid (fm_get r0 (a_data a1))) d) (a_data a1))) (cs ++ [(v, d)]) r
                     = sel a1 cs r ++ (if r0 =? r then [d] else [])).
      { unfold sel. rewrite filter_app, map_app. f_equal. cbn [filter fst]. fold r0.
        change (rep (mk_a (a_tbl a1) _) v) with (rep a1 v). fold r0. destruct (r0 =? r); reflexivity. }
      rewrite Hsel, msum_app. destruct (N.eqb_spec r r0) as [->|Hn].
      + rewrite N.eqb_refl. cbn [oid or_ident msum fold_right]. rewrite (J r0 R0), comb_ident. reflexivity.
      + destruct (N.eqb_spec r0 r); [congruence|]. cbn [msum fold_right]. rewrite comb_ident. apply J, Hr.
    - exact (cons_touch a cs v HC).
    - (* set_data *)
      pose proof (cons_touch a cs v HC) as (Hok & Hs & D1 & D2 & J). set (a1 := a_touch D a v) in *.
      pose proof (touch_member D a v) as Mv. fold a1 in Mv. pose proof (Hok _ _ Mv) as R0. set (r0 := rep a1 v) in *.
      unfold a_set_class_data. split; [exact Hok|]. split; [exact Hs|]. cbn [a_tbl a_data].
      split.
      { intros r d0. rewrite fm_get_insert. destruct (N.eqb_spec r r0) as [->|]; [intros _; exact R0|apply D1]. }
      split.
      { intros u d0 Hin. apply in_app_or in Hin as [Hin|[[= <- <-]|[]]]; [|rewrite Mv; discriminate].
        apply filter_In in Hin. eapply D2, Hin. }
      intros r Hr. rewrite fm_get_insert.
      assert (Hsel : sel (mk_a (a_tbl a1) (fm_insert r0 d (a_data a1)))
                         (filter (fun p => negb (rep a1 (fst p) =? r0)) cs ++ [(v, d)]) r
                     = map snd (filter (fun p => rep a1 (fst p) =? r) (filter (fun p => negb (rep a1 (fst p) =? r0)) cs))
                       ++ (if r0 =? r then [d] else [])).
      { unfold sel. rewrite filter_app, map_app. f_equal. cbn [filter fst].
        change (rep (mk_a (a_tbl a1) _) v) with (rep a1 v). fold r0. destruct (r0 =? r); reflexivity. }
      rewrite Hsel, msum_app. destruct (N.eqb_spec r r0) as [->|Hn].
      + rewrite N.eqb_refl. rewrite filter_none.
        * cbn [map msum fold_right oid or_ident]. rewrite comb_ident, comb_comm, comb_ident. reflexivity.
        * intros p Hp. apply filter_In in Hp as (_ & Hp). destruct (rep a1 (fst p) =? r0); [discriminate|reflexivity].
      + destruct (N.eqb_spec r0 r); [congruence|]. cbn [msum fold_right]. rewrite comb_ident.
        rewrite filter_filter_imp; [apply J, Hr|].
        intros p Hp. apply N.eqb_eq in Hp. rewrite Hp. destruct (N.eqb_spec r r0); [congruence|reflexivity].
    - (* sets *)
      destruct HC as (Hok & Hs & D1 & D2 & J).
      destruct (sets_fold_data (root_keys (a_tbl a)) (a_data a)) as (H1 & H2).
      destruct (a_sets_fold D ident (root_keys (a_tbl a)) (a_data a)) as [dt l]. cbn [fst] in *.
      split; [exact Hok|]. split; [exact Hs|]. cbn [a_tbl a_data]. split.
      { intros r d Hr. destruct (H2 r d Hr) as [Hg|Hg]; [eapply D1, Hg|apply root_keys_in_tbl; assumption]. }
      split; [exact D2|]. intros r Hr. rewrite H1. apply J, Hr.
    - exact HC.
  Qed.

  Lemma cons_run ops : forall a cs, cons_inv a cs ->
    cons_inv (fst (a_run_from D combine ident a ops)) (ledger_from a cs ops).
  Proof.
    induction ops as [|op t IH]; intros a cs HC; cbn [a_run_from ledger_from]; [exact HC|].
    pose proof (cons_step a cs op HC) as H1.
    destruct (astep a op) as [a1 o1]. cbn [fst] in *. specialize (IH a1 _ H1).
    destruct (a_run_from D combine ident a1 t) as [a2 os]. cbn [fst] in *. exact IH.
  Qed.

  Lemma ledger_no_set ops : forall a cs, no_set_data ops = true -> ledger_from a cs ops = cs ++ adds ops.
  Proof.
    induction ops as [|op t IH]; intros a cs Hn; cbn [ledger_from adds]; [rewrite app_nil_r; reflexivity|].
    destruct op; cbn [no_set_data] in Hn; try discriminate; rewrite IH by exact Hn; cbn [step_ledger]; try reflexivity.
    rewrite <- app_assoc. reflexivity.
  Qed.

  (* Conservation of data.  After ANY history, the data reported for a member x (get_data x returns the data
     table's entry for x's representative; identity when there is none) is the monoid sum of exactly the ledger
     entries of the values that are, at the end, in x's set -- each once, whichever sets they were in when
     they were contributed, however the sets were merged since. *)
  Theorem data_conservation_proof ops x :
    let a := fst (a_run D combine ident ops) in
    fm_get x (a_tbl a) <> None ->
    oid (fm_get (rep a x) (a_data a)) = msum (sel a (ledger ops) (rep a x)).
  Proof.
    cbv zeta. intros Hx.
    assert (H0 : cons_inv (a_new D) []).
    { split; [intros v r E; discriminate|]. split; [constructor|]. split; [intros r d E; discriminate|].
      split; [intros v d []|intros r E; discriminate]. }
    pose proof (cons_run ops (a_new D) [] H0) as (Hok & _ & _ & _ & J).
    apply J. unfold a_rep. destruct (fm_get x (a_tbl (fst (a_run D combine ident ops)))) as [r|] eqn:E; [|congruence].
    eapply Hok, E.
  Qed.

  (* without set_data the ledger is simply everything that was ever added *)
  Theorem ledger_adds_proof ops : no_set_data ops = true -> ledger ops = adds ops.
  Proof. intros Hn. unfold ledger. rewrite ledger_no_set by exact Hn. reflexivity. Qed.
End Conservation.

(* End to end, about the concrete forest only: after any history, two members have the same root exactly
   when the history's union operations connect them. *)
Theorem concrete_partition_proof (D : Type) (combine : D -> D -> D) (ident : D) (guard : bool) (ops : list (dop D)) :
  guard = true \/ hist_ok D combine ident ops = true ->
  exists s outs, ds_run D combine ident guard ops = Ok (s, outs) /\
    forall x y rx ry, vm_get (reps s) x <> None -> vm_get (reps s) y <> None ->
      Root (reps s) x rx -> Root (reps s) y ry -> (rx = ry <-> Conn (union_pairs D ops) x y).
Proof.
  intros Hg. destruct (ds_run_refines_proof D combine ident guard ops Hg) as (s & outs & H & _ & HI & HA).
  exists s, outs. split; [exact H|]. intros x y rx ry Hx Hy Rx Ry.
  rewrite <- (abs_rep D s _ x rx HA Hx Rx), <- (abs_rep D s _ y ry HA Hy Ry).
  apply partition_is_closure_proof.
Qed.
