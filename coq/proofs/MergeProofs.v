(* Proofs about Merge.v, part 2 (part 1: MergeEquivProofs.v). *)
From Coq Require Import Permutation.
From SLX Require Import Base gen.Constants gen.WordUseTable TypeExpr Merge proofs.MergeEquivProofs.
Open Scope N_scope.

(* ========================================================================================== *)
(* 3. `merge` on expressions without `Packed`: no judgements, no fresh variables, and the parent
      variable and the counter play no role                                                     *)

Definition set_next (r : mresult) (n : N) : mresult :=
  match r with
  | Ok m => Ok {| expr := expr m; eqs := eqs m; judg := judg m; newv := newv m; next := n |}
  | Err e => Err e
  | Panic s => Panic s
  end.

Ltac split_ifs :=
  repeat match goal with
         | |- context [if ?c then _ else _] => destruct c
         end.

Lemma merge_nopacked_pn a b p n : no_packed a = true -> no_packed b = true ->
  merge a b p n = set_next (merge a b 0 0) n.
Proof.
  intros Ha Hb. destruct a, b; try discriminate; unfold merge, merge_body; simpl;
    split_ifs; try reflexivity;
    repeat match goal with |- context [match ?x with _ => _ end] => destruct x end; reflexivity.
Qed.

Lemma merge_nopacked_shape a b p n r : no_packed a = true -> no_packed b = true ->
  merge a b p n = Ok r -> no_packed (expr r) = true /\ judg r = [] /\ newv r = [] /\ next r = n.
Proof.
  intros Ha Hb. destruct a, b; try discriminate; unfold merge, merge_body; simpl;
    split_ifs; try (intros [= <-]; simpl; auto; fail); try discriminate;
    repeat match goal with |- context [match ?x with _ => _ end] => destruct x end;
    try (intros [= <-]; simpl; auto; fail); try discriminate.
Qed.

Lemma merge2_pn a b p n : no_packed a = true -> no_packed b = true -> merge2 a b p n = merge2 a b 0 0.
Proof.
  intros Ha Hb. unfold merge2. rewrite (merge_nopacked_pn a b p n Ha Hb).
  destruct (merge a b 0 0); reflexivity.
Qed.

Lemma merge3L_pn a b c p n : no_packed a = true -> no_packed b = true -> no_packed c = true ->
  merge3L a b c p n = merge3L a b c 0 0.
Proof.
  intros Ha Hb Hc. unfold merge3L. rewrite (merge_nopacked_pn a b p n Ha Hb).
  destruct (merge a b 0 0) as [r1| |] eqn:E1; simpl; auto.
  destruct (merge_nopacked_shape _ _ _ _ _ Ha Hb E1) as [Hn [_ [_ Hnx]]].
  rewrite (merge_nopacked_pn (expr r1) c p n Hn Hc), (merge_nopacked_pn (expr r1) c 0 (next r1) Hn Hc).
  destruct (merge (expr r1) c 0 0); reflexivity.
Qed.

Lemma merge3R_pn a b c p n : no_packed a = true -> no_packed b = true -> no_packed c = true ->
  merge3R a b c p n = merge3R a b c 0 0.
Proof.
  intros Ha Hb Hc. unfold merge3R. rewrite (merge_nopacked_pn b c p n Hb Hc).
  destruct (merge b c 0 0) as [r1| |] eqn:E1; simpl; auto.
  destruct (merge_nopacked_shape _ _ _ _ _ Hb Hc E1) as [Hn [_ [_ Hnx]]].
  rewrite (merge_nopacked_pn a (expr r1) p n Ha Hn), (merge_nopacked_pn a (expr r1) 0 (next r1) Ha Hn).
  destruct (merge a (expr r1) 0 0); reflexivity.
Qed.

(* the delegation artefact of the model is never reached *)
Lemma mpa_not99 l r ts n : merge_packed_array l r ts n <> Panic site_delegation.
Proof.
  unfold merge_packed_array. destruct ts as [|t1 [|t2 [|t3 [|t4 ts]]]]; try discriminate.
  - split_ifs; discriminate.
  - destruct (sort_by le_offset [t1; t2]) as [|x [|y ?]]; try discriminate. split_ifs; discriminate.
  - destruct (sort_by le_offset [t1; t2; t3]) as [|x [|y [|z ?]]]; try discriminate. split_ifs; discriminate.
Qed.

Lemma mpw_not99 l r ts w u p n : merge_packed_word l r ts w u p n <> Panic site_delegation.
Proof.
  unfold merge_packed_word. destruct ts; try discriminate. destruct u, w; try discriminate; split_ifs; discriminate.
Qed.

Lemma mpp_not99 tl sl tr sr n : merge_packed_packed tl sl tr sr n <> Panic site_delegation.
Proof.
  unfold merge_packed_packed. destruct tl, tr; try discriminate.
  destruct (existsb _ _); try discriminate.
  destruct (sortN _); try discriminate.
  destruct (mk_spans _ _ _). destruct (process_spans _ _). destruct (process_spans _ _). discriminate.
Qed.

Lemma merge_never_site_delegation a b p n : merge a b p n <> Panic site_delegation.
Proof.
  unfold merge, merge_body. destruct (te_eqb a b); [discriminate|].
  destruct a, b; try discriminate; simpl;
    try apply mpa_not99; try apply mpw_not99; try apply mpp_not99;
    split_ifs; try discriminate;
    try apply mpa_not99; try apply mpw_not99; try apply mpp_not99.
  destruct (width_merge _ _); [destruct (wuse_merge _ _)|]; discriminate.
Qed.

(* ========================================================================================== *)
(* 4. C16 layer (i): the property as quantified, decided completely over the finite domain      *)

Definition all2 (f : te -> te -> bool) : bool :=
  forallb (fun a => forallb (fun b => f a b) evidence_domain) evidence_domain.
Definition all3 (f : te -> te -> te -> bool) : bool :=
  forallb (fun a => forallb (fun b => forallb (fun c => f a b c) evidence_domain) evidence_domain) evidence_domain.

Lemma all2_spec f : all2 f = true -> forall a b, In a evidence_domain -> In b evidence_domain -> f a b = true.
Proof.
  unfold all2. intros H a b Ha Hb. rewrite forallb_forall in H. specialize (H a Ha).
  rewrite forallb_forall in H. exact (H b Hb).
Qed.
Lemma all3_spec f : all3 f = true -> forall a b c, In a evidence_domain -> In b evidence_domain ->
  In c evidence_domain -> f a b c = true.
Proof.
  unfold all3. intros H a b c Ha Hb Hc. rewrite forallb_forall in H. specialize (H a Ha).
  rewrite forallb_forall in H. specialize (H b Hb). rewrite forallb_forall in H. exact (H c Hc).
Qed.

Lemma domain_size : length evidence_domain = 40%nat.
Proof. vm_compute. reflexivity. Qed.

Lemma domain_no_packed : forall a, In a evidence_domain -> no_packed a = true.
Proof. apply forallb_forall. vm_compute. reflexivity. Qed.

Lemma comm_finite_b : all2 (fun a b => comm_ok a b 0 0) = true.
Proof. vm_compute. reflexivity. Qed.

Lemma assoc_finite_b : all3 (fun a b c => KnownNonAssoc a b c || assoc_ok a b c 0 0) = true.
Proof. vm_compute. reflexivity. Qed.

Lemma fold_order_finite_b : all3 (fun a b c => KnownNonAssoc a b c || fold_order_ok a b c 0 0) = true.
Proof. vm_compute. reflexivity. Qed.

Theorem C16_comm_finite_proof : forall a b, In a evidence_domain -> In b evidence_domain ->
  forall p n, merge2 a b p n ≈ merge2 b a p n.
Proof.
  intros a b Ha Hb p n.
  rewrite (merge2_pn a b p n), (merge2_pn b a p n) by (apply domain_no_packed; assumption).
  apply comb_equivb_spec. exact (all2_spec _ comm_finite_b a b Ha Hb).
Qed.

Theorem C16_assoc_finite_outside_known_proof : forall a b c,
  In a evidence_domain -> In b evidence_domain -> In c evidence_domain ->
  KnownNonAssoc a b c = false -> forall p n, merge3L a b c p n ≈ merge3R a b c p n.
Proof.
  intros a b c Ha Hb Hc HK p n.
  rewrite (merge3L_pn a b c p n), (merge3R_pn a b c p n) by (apply domain_no_packed; assumption).
  apply comb_equivb_spec. pose proof (all3_spec _ assoc_finite_b a b c Ha Hb Hc) as H. cbv beta in H.
  rewrite HK in H. exact H.
Qed.

(* outside the known class the left fold over three pieces does not depend on their order *)
Theorem C16_fold_order_finite_outside_known_proof : forall a b c,
  In a evidence_domain -> In b evidence_domain -> In c evidence_domain ->
  KnownNonAssoc a b c = false -> forall p n,
  merge3L a b c p n ≈ merge3L a c b p n /\ merge3L a b c p n ≈ merge3L b a c p n /\
  merge3L a b c p n ≈ merge3L b c a p n /\ merge3L a b c p n ≈ merge3L c a b p n /\
  merge3L a b c p n ≈ merge3L c b a p n.
Proof.
  intros a b c Ha Hb Hc HK p n.
  rewrite !(fun x y z => merge3L_pn x y z p n) by (apply domain_no_packed; assumption).
  pose proof (all3_spec _ fold_order_finite_b a b c Ha Hb Hc) as H. cbv beta in H. rewrite HK in H. simpl in H.
  unfold fold_order_ok in H. rewrite !andb_true_iff in H. destruct H as [[[[H1 H2] H3] H4] H5].
  repeat split; apply comb_equivb_spec; assumption.
Qed.

(* the class is tight: every triple in it really is order-dependent -- associativity fails for some
   arrangement of the three operands, and the left folds over the six arrangements do not all agree *)
Definition some_assoc_fails (a b c : te) : bool :=
  negb (assoc_ok a b c 0 0 && assoc_ok a c b 0 0 && assoc_ok b a c 0 0
        && assoc_ok b c a 0 0 && assoc_ok c a b 0 0 && assoc_ok c b a 0 0).

Lemma tight_assoc_b : all3 (fun a b c => negb (KnownNonAssoc a b c) || some_assoc_fails a b c) = true.
Proof. vm_compute. reflexivity. Qed.
Lemma tight_fold_b : all3 (fun a b c => negb (KnownNonAssoc a b c) || negb (fold_order_ok a b c 0 0)) = true.
Proof. vm_compute. reflexivity. Qed.
Lemma K1_K2_disjoint_b : all3 (fun a b c => negb (K1 a b c && K2 a b c)) = true.
Proof. vm_compute. reflexivity. Qed.
Lemma known_perm_b : all3 (fun a b c => Bool.eqb (K1 a b c) (K1 b a c) && Bool.eqb (K1 a b c) (K1 a c b)
                                      && Bool.eqb (K2 a b c) (K2 b a c) && Bool.eqb (K2 a b c) (K2 a c b)) = true.
Proof. vm_compute. reflexivity. Qed.

Lemma assoc_ok_false a b c : assoc_ok a b c 0 0 = false -> ~ (merge3L a b c 0 0 ≈ merge3R a b c 0 0).
Proof. intros H E. apply comb_equivb_spec in E. unfold assoc_ok in H. congruence. Qed.

Theorem C16_known_class_tight_proof : forall a b c,
  In a evidence_domain -> In b evidence_domain -> In c evidence_domain -> KnownNonAssoc a b c = true ->
  (exists a' b' c', Permutation [a; b; c] [a'; b'; c'] /\ ~ (merge3L a' b' c' 0 0 ≈ merge3R a' b' c' 0 0))
  /\ fold_order_ok a b c 0 0 = false.
Proof.
  intros a b c Ha Hb Hc HK. split.
  - pose proof (all3_spec _ tight_assoc_b a b c Ha Hb Hc) as H. cbv beta in H. rewrite HK in H. simpl in H.
    unfold some_assoc_fails in H. apply negb_true_iff in H. rewrite !andb_false_iff in H.
    destruct H as [[[[[H|H]|H]|H]|H]|H]; apply assoc_ok_false in H.
    + exists a, b, c. split; [apply Permutation_refl | exact H].
    + exists a, c, b. split; [apply perm_skip; apply perm_swap | exact H].
    + exists b, a, c. split; [apply perm_swap | exact H].
    + exists b, c, a. split; [|exact H].
      eapply perm_trans; [apply perm_swap|]. apply perm_skip. apply perm_swap.
    + exists c, a, b. split; [|exact H].
      eapply perm_trans; [apply perm_skip; apply perm_swap|]. apply perm_swap.
    + exists c, b, a. split; [|exact H].
      eapply perm_trans; [apply perm_skip; apply perm_swap|].
      eapply perm_trans; [apply perm_swap|]. apply perm_skip. apply perm_swap.
  - pose proof (all3_spec _ tight_fold_b a b c Ha Hb Hc) as H. cbv beta in H. rewrite HK in H. simpl in H.
    apply negb_true_iff in H. exact H.
Qed.

(* K1 and K2 are disjoint and describe multisets: permuting the operands does not change membership *)
Theorem C16_known_class_multiset_proof : forall a b c,
  In a evidence_domain -> In b evidence_domain -> In c evidence_domain ->
  K1 a b c = K1 b a c /\ K1 a b c = K1 a c b /\ K2 a b c = K2 b a c /\ K2 a b c = K2 a c b
  /\ (K1 a b c && K2 a b c = false).
Proof.
  intros a b c Ha Hb Hc.
  pose proof (all3_spec _ known_perm_b a b c Ha Hb Hc) as H. simpl in H.
  rewrite !andb_true_iff in H. destruct H as [[[H1 H2] H3] H4].
  apply eqb_prop in H1, H2, H3, H4.
  pose proof (all3_spec _ K1_K2_disjoint_b a b c Ha Hb Hc) as H5. simpl in H5. apply negb_true_iff in H5.
  auto.
Qed.

(* the refutation: Bool(8) and Address(160) contradict each other, a dynamic array absorbs both *)
Theorem C16_refuted_proof :
  exists a b c, In a evidence_domain /\ In b evidence_domain /\ In c evidence_domain /\
    ~ (merge3L a b c 0 0 ≈ merge3R a b c 0 0).
Proof.
  exists (Word (Some 8) UBool), (Word (Some 160) UAddress), (DynamicArray 0).
  split; [vm_compute; tauto|]. split; [vm_compute; tauto|]. split; [vm_compute; tauto|].
  apply assoc_ok_false. vm_compute. reflexivity.
Qed.

(* ========================================================================================== *)
(* 5. C15, merge level: Any is the identity, conflicts absorb and accumulate, plainly
      contradictory constructors conflict                                                     *)

Theorem any_identity_proof : forall a p n, is_equal a = false -> is_conflict a = false ->
  merge a Any p n = m_expression a n /\ merge Any a p n = m_expression a n.
Proof.
  intros a p n He Hc. destruct a; try discriminate; unfold merge, merge_body; simpl; split; reflexivity.
Qed.

(* for a conflict, Any is the identity up to what the conflict says *)
Theorem any_identity_conflict_proof : forall cs rs p n,
  exists cs1 rs1 cs2 rs2, merge (Conflict cs rs) Any p n = m_expression (Conflict cs1 rs1) n
                          /\ merge Any (Conflict cs rs) p n = m_expression (Conflict cs2 rs2) n.
Proof. intros. unfold merge, merge_body. simpl. do 4 eexists. split; reflexivity. Qed.

Ltac incl_solve :=
  solve [ apply incl_refl | apply incl_appl; apply incl_refl | apply incl_appr; apply incl_refl
        | apply incl_tl; apply incl_appl; apply incl_refl | apply incl_tl; apply incl_appr; apply incl_refl ].

Theorem conflict_absorbs_proof : forall cs rs b p n, is_equal b = false ->
  (exists cs' rs', merge (Conflict cs rs) b p n = m_expression (Conflict cs' rs') n /\ incl cs cs' /\ incl rs rs')
  /\ (exists cs' rs', merge b (Conflict cs rs) p n = m_expression (Conflict cs' rs') n /\ incl cs cs' /\ incl rs rs').
Proof.
  intros cs rs b p n Hb. split.
  - unfold merge, merge_body. destruct (te_eqb (Conflict cs rs) b) eqn:E.
    + exists cs, rs. repeat split; auto using incl_refl.
    + destruct b; try discriminate; unfold conflict_with; simpl; eexists _, _;
        (split; [reflexivity|]); split; incl_solve.
  - unfold merge, merge_body. destruct (te_eqb b (Conflict cs rs)) eqn:E.
    + apply te_eqb_eq in E. subst b. exists cs, rs. repeat split; auto using incl_refl.
    + destruct b; try discriminate; unfold conflict_with; simpl; eexists _, _;
        (split; [reflexivity|]); split; incl_solve.
Qed.

Theorem ctor_mismatch_conflicts_proof : forall a b p n, ctor_mismatch a b = true ->
  exists cs rs, merge a b p n = m_expression (Conflict cs rs) n.
Proof.
  intros a b p n H.
  destruct a as [| | [wa|] ua | | | | | |], b as [| | [wb|] ub | | | | | |]; try discriminate H;
    unfold merge, merge_body; simpl; eexists _, _; reflexivity.
Qed.

(* where "contradictions conflict" fails: the recorded witness (class K1) *)
Theorem C15_contradiction_refuted_proof :
  exists a b c, contradicts a b = true /\ K1 a b c = true /\
    exists r, merge3R a b c 0 0 = Ok r /\ is_conflict (c_expr r) = false.
Proof.
  exists (Word (Some 8) UBool), (Word (Some 160) UAddress), (DynamicArray 0).
  split; [vm_compute; reflexivity|]. split; [vm_compute; reflexivity|].
  eexists. split; [vm_compute; reflexivity|]. reflexivity.
Qed.
