(* C07: the simulation theorems.  A thread of the symbolic machine followed along its path computes
   what the reference EVM computes along that path. *)
From SLX Require Import Base gen.Constants gen.ValueSig gen.OpcodeTable SymVal Micro gen.OpcodeSem Disasm
                        Word256 EvmSpec KnownWord Fold Evm VM Sim SimTrace SimGuards.
From SLX Require Import VmCases SimCases.
From SLX Require Import proofs.DisasmProofs proofs.Word256Proofs proofs.FoldProofs proofs.VmBounds proofs.VmControl
                        proofs.VmSimBase proofs.VmSimRel proofs.VmSimOps proofs.VmSimEvm proofs.VmSimStep.
Open Scope N_scope.
Set Default Timeout 120.

(* ---- the reference EVM, one more step at the end of an execution ---- *)
Lemma at_jumpi_eq bytes pc : match byte_at bytes pc with Some 87 => true | _ => false end
                              = match byte_at bytes pc with Some b => b =? 87 | None => false end.
Proof.
  destruct (byte_at bytes pc) as [b|]; [|reflexivity].
  destruct (N.eqb_spec b 87) as [->|Hne]; [reflexivity|].
  destruct b as [|p]; [reflexivity|]. repeat (destruct p as [p|p|]; try reflexivity). congruence.
Qed.

Lemma epcs_snoc bytes n : forall s pq e q,
  erun bytes n pq s = (ENext e, q) -> epcs bytes (S n) pq s = epcs bytes n pq s ++ epcs bytes 1 q e.
Proof.
  induction n as [|n IH]; intros s pq e q H.
  - cbn [erun] in H. injection H as -> ->. cbn [epcs app]. reflexivity.
  - remember (S n) as m eqn:Em. cbn [epcs]. subst m. cbn [erun] in H. rewrite at_jumpi_eq in H.
    destruct (byte_at bytes (e_pc s)) as [b|] eqn:Eb.
    2: { cbn [epcs]. rewrite Eb. cbn in H. unfold estep in H. rewrite Eb in H. discriminate. }
    cbn [epcs]. rewrite Eb.
    destruct (if b =? 87 then match pq with x :: r => (x, r) | [] => (false, []) end else (false, pq)) as [br p'] eqn:Ebr.
    cbn [app]. f_equal.
    destruct (estep bytes br s) as [s'| | |]; try discriminate H.
    apply IH. exact H.
Qed.

Section Machine.
Variable bytes : list byte.
Variable code : list instr.
Hypothesis Hbytes : bytes_ok bytes.
Hypothesis Hlen : N.of_nat (length bytes) <= two32.
Hypothesis Htry : try_from bytes = Ok code.
Variable cfg : config.

(* the concrete machine has followed path p from the initial state, executed the offsets tr, and stands at e *)
Definition reaches (p : list bool) (e : estate) (tr : list N) : Prop :=
  exists n, forall q, erun bytes n (p ++ q) e_init = (ENext e, q) /\ epcs bytes n (p ++ q) e_init = tr.

Lemma reaches_init : reaches [] e_init [].
Proof. exists 0%nat. intros q. split; reflexivity. Qed.

Lemma estep_next_byte br e e' : estep bytes br e = ENext e' -> exists b, byte_at bytes (e_pc e) = Some b.
Proof. unfold estep. destruct (byte_at bytes (e_pc e)) as [b|]; [eauto|discriminate]. Qed.

Lemma erun1 q e : erun bytes 1 q e =
  (let at_jumpi := match byte_at bytes (e_pc e) with Some 87 => true | _ => false end in
   let '(br, path') := if at_jumpi then match q with b :: r => (b, r) | [] => (false, []) end else (false, q) in
   match estep bytes br e with ENext s' => (ENext s', path') | r => (r, path') end).
Proof. cbn [erun]. destruct (match byte_at bytes (e_pc e) with Some 87 => true | _ => false end);
  [destruct q|]; destruct (estep bytes _ e); reflexivity. Qed.

Lemma epcs1 q e : epcs bytes 1 q e = match byte_at bytes (e_pc e) with Some _ => [e_pc e] | None => [] end.
Proof.
  cbn [epcs]. destruct (byte_at bytes (e_pc e)) as [b|]; [|reflexivity].
  destruct (if b =? 87 then match q with x :: r => (x, r) | [] => (false, []) end else (false, q)) as [br p'].
  destruct (estep bytes br e); reflexivity.
Qed.

Lemma not_jumpi_flag pc : byte_at bytes pc <> Some 87 -> match byte_at bytes pc with Some 87 => true | _ => false end = false.
Proof.
  intros H. rewrite at_jumpi_eq. destruct (byte_at bytes pc) as [b|]; [|reflexivity].
  apply N.eqb_neq. intros E. apply H. now rewrite E.
Qed.

Lemma reaches_step p e tr e' :
  reaches p e tr -> byte_at bytes (e_pc e) <> Some 87 -> estep bytes false e = ENext e' -> reaches p e' (tr ++ [e_pc e]).
Proof.
  intros [n H] Hb Hs. exists (S n). intros q. destruct (H q) as [H1 H2].
  destruct (estep_next_byte _ _ _ Hs) as [b Eb]. split.
  - rewrite (erun_snoc _ _ _ _ _ _ H1), erun1, (not_jumpi_flag _ Hb). cbv beta iota zeta. rewrite Hs. reflexivity.
  - rewrite (epcs_snoc _ _ _ _ _ _ H1), H2, epcs1, Eb. reflexivity.
Qed.

Lemma reaches_jumpi p e tr br e' :
  reaches p e tr -> byte_at bytes (e_pc e) = Some 87 -> estep bytes br e = ENext e' -> reaches (p ++ [br]) e' (tr ++ [e_pc e]).
Proof.
  intros [n H] Hb Hs. exists (S n). intros q. rewrite <- app_assoc. cbn [app]. destruct (H (br :: q)) as [H1 H2]. split.
  - rewrite (erun_snoc _ _ _ _ _ _ H1), erun1, Hb. cbv beta iota zeta. rewrite Hs. reflexivity.
  - rewrite (epcs_snoc _ _ _ _ _ _ H1), H2, epcs1, Hb. reflexivity.
Qed.

Lemma reaches_halt p e tr e' :
  reaches p e tr -> byte_at bytes (e_pc e) <> Some 87 -> byte_at bytes (e_pc e) <> None -> estep bytes false e = EHalt e' ->
  exists n, erun bytes n p e_init = (EHalt e', []) /\ epcs bytes n p e_init = tr ++ [e_pc e].
Proof.
  intros [n H] Hb Hnn Hs. exists (S n). destruct (H []) as [H1 H2]. rewrite app_nil_r in H1, H2. split.
  - rewrite (erun_snoc _ _ _ _ _ _ H1), erun1, (not_jumpi_flag _ Hb). cbv beta iota zeta. rewrite Hs. reflexivity.
  - rewrite (epcs_snoc _ _ _ _ _ _ H1), H2, epcs1. destruct (byte_at bytes (e_pc e)); [reflexivity|congruence].
Qed.

Lemma reaches_end p e tr :
  reaches p e tr -> N.of_nat (length bytes) <= e_pc e ->
  exists n, erun bytes n p e_init = (EHalt e, []) /\ epcs bytes n p e_init = tr.
Proof.
  intros [n H] Hge. exists (S n). destruct (H []) as [H1 H2]. rewrite app_nil_r in H1, H2.
  assert (Eb : byte_at bytes (e_pc e) = None).
  { unfold byte_at. destruct (N.of_nat (length bytes) <=? e_pc e) eqn:E; [reflexivity|apply N.leb_gt in E; lia]. }
  split.
  - rewrite (erun_snoc _ _ _ _ _ _ H1), erun1, Eb. cbv beta iota zeta. unfold estep. rewrite Eb. reflexivity.
  - rewrite (epcs_snoc _ _ _ _ _ _ H1), H2, epcs1, Eb. apply app_nil_r.
Qed.


(* ---- one iteration of the machine, decomposed ---- *)
Definition post_thread (t : thread) (i : instr) (c3 : octx) (err : option exec_err) (k : ctl) : thread :=
  mk_thread (o_st c3) (bump (tip t) (tvis t)) (match k with CJump target => target | _ => tip t end)
            (match err with None => tgas t + instr_gas i | Some _ => tgas t end)
            (if is_jumpi i then tpath t ++ [false] else tpath t).
Definition post_forked (t : thread) (c3 : octx) (k : ctl) : list thread :=
  match k with
  | CFork target => [mk_thread (with_fork_point (o_st c3) (tip t)) (bump (tip t) (tvis t)) target (tgas t) (tpath t ++ [true])]
  | _ => [] end.

Lemma vm_step_decomp m m' t rest :
  vm_step constant_fold m = SRunning m' -> v_queue m = t :: rest ->
  exists i c1 c3 err serr k jt' m1,
    nth_error (v_code m) (N.to_nat (tip t)) = Some i /\
    o_st c1 = tstate t /\ o_kill c1 = v_killed m /\
    exec_instr constant_fold (v_cfg m) (v_code m) (bump (tip t) (tvis t)) (v_jt m) (tip t) i c1 = (c3, err, serr, k, jt') /\
    m' = advance m1 (post_thread t i c3 err k) rest (post_forked t c3 k) /\
    v_code m1 = v_code m /\ v_cfg m1 = v_cfg m /\ v_stored m1 = v_stored m /\ v_paths m1 = v_paths m /\
    v_killed m1 = match err with None => o_kill c3 | Some _ => true end.
Proof.
  intros Hs Hq. unfold vm_step in Hs. rewrite Hq in Hs.
  destruct (nth_error (v_code m) (N.to_nat (tip t))) as [i|] eqn:Ei; [|discriminate].
  set (c0 := mk_octx [] (tstate t) (v_next_id m) (v_killed m) (v_polls m)) in *.
  destruct (if v_counter m mod poll_every (v_cfg m) =? 0 then poll (v_cfg m) c0 else (false, c0)) as [stopped c1] eqn:Ep.
  assert (Hc1 : o_st c1 = tstate t /\ o_kill c1 = v_killed m).
  { destruct (v_counter m mod poll_every (v_cfg m) =? 0); [unfold poll in Ep|]; injection Ep as _ <-; split; reflexivity. }
  destruct Hc1 as [Hc1a Hc1b]. destruct stopped; [discriminate|].
  destruct (exec_instr constant_fold (v_cfg m) (v_code m) (bump (tip t) (tvis t)) (v_jt m) (tip t) i c1)
    as [[[[c3 err] serr] k] jt'] eqn:Ex.
  exists i, c1, c3, err, serr, k, jt'.
  destruct err as [er|]; cbv beta iota zeta in Hs; injection Hs as <-;
    (eexists; split; [reflexivity|]; split; [exact Hc1a|]; split; [exact Hc1b|]; split; [exact Ex|];
     split; [unfold post_thread, post_forked; reflexivity|]; repeat split; reflexivity).
Qed.

Lemma advance_cases m1 t' rest forked :
  let m' := advance m1 t' rest forked in
  let retire := (N.of_nat (length (v_code m1)) <=? tip t' + 1) || (iter_limit (v_cfg m1) <=? count_of (tip t' + 1) (tvis t'))
                || (gas_limit (v_cfg m1) <? tgas t') || v_killed m1 in
  v_code m' = v_code m1 /\ v_cfg m' = v_cfg m1 /\ v_killed m' = false /\
  ((retire = true /\ v_queue m' = rest ++ forked /\ v_stored m' = v_stored m1 ++ [(tstate t', tvis t')]
    /\ v_paths m' = v_paths m1 ++ [tpath t'])
   \/ (retire = false /\ v_queue m' = mk_thread (tstate t') (tvis t') (tip t' + 1) (tgas t') (tpath t') :: rest ++ forked
       /\ v_stored m' = v_stored m1 /\ v_paths m' = v_paths m1)).
Proof.
  cbv zeta. unfold advance.
  destruct ((N.of_nat (length (v_code m1)) <=? tip t' + 1) || (iter_limit (v_cfg m1) <=? count_of (tip t' + 1) (tvis t'))
            || (gas_limit (v_cfg m1) <? tgas t') || v_killed m1) eqn:E; cbn [v_code v_cfg v_killed v_queue v_stored v_paths];
    (split; [reflexivity|]; split; [reflexivity|]; split; [reflexivity|]); [left|right]; repeat split; reflexivity.
Qed.

Local Notation limits_guard := (SimGuards.limits_guard cfg).
Local Notation step_guard := (SimGuards.step_guard code cfg).
Local Notation guards_along := (SimGuards.guards_along code cfg).

(* ---- threads and retired states versus the reference EVM ---- *)
Definition vis_in (vis : list (N * N)) (tr : list N) : Prop :=
  forall o, 0 < count_of o vis -> nth_error code (N.to_nat o) <> Some INop -> In o tr.

Definition live (t : thread) : Prop :=
  exists e tr, reaches (tpath t) e tr /\ R bytes code t e /\ vis_in (tvis t) tr.

Definition matched (st : vstate) (vis : list (N * N)) (p : list bool) : Prop :=
  exists n e, erun bytes n p e_init = (EHalt e, []) /\ Rst st e /\ vis_in vis (epcs bytes n p e_init).

Lemma vis_in_bump vis tr ip tr' :
  vis_in vis tr -> (forall o, In o tr -> In o tr') -> (nth_error code (N.to_nat ip) <> Some INop -> In ip tr') ->
  vis_in (bump ip vis) tr'.
Proof.
  intros Hv Hsub Hip o Ho Hn. destruct (N.eq_dec o ip) as [E|Hne]; [subst o; now apply Hip|].
  rewrite count_bump_other in Ho by exact Hne. apply Hsub, Hv; assumption.
Qed.

Lemma live_init : live (mk_thread empty_state [] 0 0 []).
Proof.
  exists e_init, []. split; [apply reaches_init|]. split.
  - split; [apply Rst_init|]. cbn [tip e_init e_pc]. apply Rpc_same. unfold bdry. cbn [N.to_nat skipn].
    split; [now apply Hal|apply imm_ok_0].
  - intros o Ho. unfold count_of in Ho. cbn in Ho. lia.
Qed.

Lemma advance_live m1 t' rest forked e' tr' :
  v_code m1 = code -> v_cfg m1 = cfg -> v_killed m1 = false ->
  (iter_limit cfg <=? count_of (tip t' + 1) (tvis t')) = false -> (gas_limit cfg <? tgas t') = false ->
  reaches (tpath t') e' tr' -> Rst (tstate t') e' -> Rpc bytes code (tip t' + 1) (e_pc e') -> vis_in (tvis t') tr' ->
  let m' := advance m1 t' rest forked in
  (exists t'', v_queue m' = t'' :: rest ++ forked /\ v_stored m' = v_stored m1 /\ v_paths m' = v_paths m1 /\ live t''
               /\ tpath t'' = tpath t')
  \/ (v_queue m' = rest ++ forked /\ v_stored m' = v_stored m1 ++ [(tstate t', tvis t')] /\ v_paths m' = v_paths m1 ++ [tpath t']
      /\ matched (tstate t') (tvis t') (tpath t')).
Proof.
  intros Hc Hcf Hk Hit Hgas Hre HR Hpc Hvis. cbv zeta.
  destruct (advance_cases m1 t' rest forked) as (_ & _ & _ & [(Hret & Hq & Hs & Hp)|(Hret & Hq & Hs & Hp)]).
  - right. rewrite Hc, Hcf, Hit, Hgas, Hk, !orb_false_r in Hret. apply N.leb_le in Hret.
    split; [exact Hq|]. split; [exact Hs|]. split; [exact Hp|].
    destruct (reaches_end _ _ _ Hre) as (n & Hn1 & Hn2).
    { rewrite <- (code_len bytes code Hbytes Hlen Htry). pose proof (rp_le _ _ _ _ Hpc). lia. }
    exists n, e'. split; [exact Hn1|]. split; [exact HR|]. now rewrite Hn2.
  - left. eexists. split; [exact Hq|]. split; [exact Hs|]. split; [exact Hp|]. split; [|reflexivity].
    exists e', tr'. split; [exact Hre|]. split; [|exact Hvis]. split; assumption.
Qed.

Lemma advance_killed m1 t' rest forked :
  v_killed m1 = true ->
  let m' := advance m1 t' rest forked in
  v_queue m' = rest ++ forked /\ v_stored m' = v_stored m1 ++ [(tstate t', tvis t')] /\ v_paths m' = v_paths m1 ++ [tpath t'].
Proof.
  intros Hk. cbv zeta. destruct (advance_cases m1 t' rest forked) as (_ & _ & _ & [(Hret & Hq & Hs & Hp)|(Hret & Hq & Hs & Hp)]).
  - auto.
  - rewrite Hk, orb_true_r in Hret. discriminate.
Qed.


(* ---- step_sim: one iteration of the machine on a thread that is related to the concrete machine ---- *)
Theorem step_sim m m' t rest :
  v_code m = code -> v_cfg m = cfg -> v_killed m = false -> v_queue m = t :: rest ->
  vm_step constant_fold m = SRunning m' -> live t -> step_guard t = true ->
  exists forked,
    Forall (fun f => live f /\ tpath f = tpath t ++ [true]) forked /\
    ((exists t', v_queue m' = t' :: rest ++ forked /\ v_stored m' = v_stored m /\ v_paths m' = v_paths m /\ live t'
                 /\ (tpath t' = tpath t \/ tpath t' = tpath t ++ [false]))
     \/ (exists st vis p, v_queue m' = rest ++ forked /\ v_stored m' = v_stored m ++ [(st, vis)] /\ v_paths m' = v_paths m ++ [p]
                 /\ matched st vis p /\ (p = tpath t \/ p = tpath t ++ [false]))).
Proof.
  intros Hcode Hcfg Hkill Hq Hstep (e & tr & Hre & [HRst HRpc] & Hvis) Hg.
  destruct (vm_step_decomp _ _ _ _ Hstep Hq)
    as (i & c1 & c3 & err & serr & k & jt' & m1 & Hi & Hc1 & Hc1k & Hex & -> & Hm1c & Hm1f & Hm1s & Hm1p & Hm1k).
  rewrite Hcode in *. rewrite Hcfg in *. rewrite Hkill in *.
  unfold SimGuards.step_guard in Hg. rewrite Hi in Hg. apply andb_true_iff in Hg as [Hig Hlim].
  unfold SimGuards.limits_guard in Hlim. apply andb_true_iff in Hlim as [Hl1 Hl2]. apply negb_true_iff in Hl1, Hl2.
  rewrite <- Hm1s, <- Hm1p.
  destruct (N.eq_dec (tip t) (e_pc e)) as [Heq|Hne].
  2: { (* stepping through push data: the concrete machine does not move *)
    assert (Hlt : tip t < e_pc e) by (pose proof (rp_le _ _ _ _ HRpc); lia).
    pose proof (rp_nops _ _ _ _ HRpc (tip t) ltac:(lia)) as Hnop. rewrite Hi in Hnop. injection Hnop as ->.
    change (exec_instr constant_fold cfg code (bump (tip t) (tvis t)) (v_jt m) (tip t) INop c1)
      with (c1, @None exec_err, @None exec_err, CNone, v_jt m) in Hex.
    injection Hex as <- <- <- <- <-.
    exists []. split; [constructor|].
    destruct (advance_live m1 (post_thread t INop c1 None CNone) rest [] e tr Hm1c Hm1f) as [H|H].
    - now rewrite Hm1k, Hc1k.
    - exact Hl1.
    - exact Hl2.
    - exact Hre.
    - cbn [post_thread tstate]. now rewrite Hc1.
    - cbn [post_thread tip]. constructor; [lia| |apply (rp_bdry _ _ _ _ HRpc)].
      intros j Hj. apply (rp_nops _ _ _ _ HRpc). lia.
    - cbn [post_thread tvis]. apply (vis_in_bump _ tr); auto. intros Hn. congruence.
    - left. destruct H as (t'' & H1 & H2 & H3 & H4 & H5). exists t''. repeat split; auto.
    - right. destruct H as (H1 & H2 & H3 & H4). do 3 eexists. repeat split; eauto. }
  (* an instruction: both machines execute it *)
  rewrite Heq in Hi, Hig, Hex, Hl1.
  pose proof (exec_sim bytes code Hbytes Hlen Htry cfg c1 e i (bump (e_pc e) (tvis t)) (v_jt m)) as Ho.
  rewrite Hc1 in Ho. specialize (Ho HRst (rp_bdry _ _ _ _ HRpc) Hi Hig). rewrite Hex in Ho.
  assert (Hvis1 : forall x, vis_in (bump (tip t) (tvis t)) (tr ++ e_pc e :: x)).
  { intros x. apply (vis_in_bump _ tr); auto.
    - intros o Ho'. apply in_or_app. now left.
    - intros _. apply in_or_app. right. left. now symmetry. }
  inversion Ho as [c' e' Hk87 Hb87 Hes HR' Hpc' Hx Hj Hn
                  |c' e' Hk87 Hb87 HbN Hes HR' Hx Hj Hn
                  |c' t0 e1 e2 Hk87 Hb87 Hes1 Hb87' Hes2 HR' Hpc' Hx Hj Hn
                  |c' serr' k' jt'' e' Hk87 Hb87 Hes HR' Hpc' Hfork Hx Hj Hn];
    [subst c' err serr k jt'|subst c' err serr k jt'|subst c' err serr k jt'|subst c' err serr' k' jt''].
  - (* an ordinary instruction *)
    exists []. split; [constructor|].
    destruct (advance_live m1 (post_thread t i c3 None CNone) rest [] e' (tr ++ [e_pc e]) Hm1c Hm1f) as [H|H].
    + now rewrite Hm1k, Hk87, Hc1k.
    + cbn [post_thread tip tvis]. rewrite Heq, Hn. exact Hl1.
    + exact Hl2.
    + cbn [post_thread tpath]. rewrite <- Hj. now apply reaches_step.
    + exact HR'.
    + cbn [post_thread tip]. now rewrite Heq.
    + apply Hvis1.
    + left. destruct H as (t'' & H1 & H2 & H3 & H4 & H5). exists t''. repeat split; auto.
      left. rewrite H5. cbn [post_thread tpath]. now rewrite <- Hj.
    + right. destruct H as (H1 & H2 & H3 & H4). do 3 eexists. repeat split; eauto.
      left. cbn [post_thread tpath]. now rewrite <- Hj.
  - (* STOP, INVALID, RETURN, REVERT, SELFDESTRUCT: both machines end the path *)
    exists []. split; [constructor|]. right.
    destruct (advance_killed m1 (post_thread t i c3 None CNone) rest []) as (H1 & H2 & H3); [now rewrite Hm1k|].
    do 3 eexists. split; [exact H1|]. split; [exact H2|]. split; [exact H3|]. split.
    + destruct (reaches_halt _ _ _ _ Hre Hb87 HbN Hes) as (n & Hn1 & Hn2).
      exists n, e'. cbn [post_thread tpath tstate tvis]. rewrite <- Hj. split; [exact Hn1|]. split; [exact HR'|].
      rewrite Hn2. apply Hvis1.
    + left. cbn [post_thread tpath]. now rewrite <- Hj.
  - (* JUMP: the concrete machine also executes the JUMPDEST the symbolic machine steps over *)
    exists []. split; [constructor|].
    destruct (advance_live m1 (post_thread t i c3 None (CJump t0)) rest [] e2 ((tr ++ [e_pc e]) ++ [e_pc e1]) Hm1c Hm1f) as [H|H].
    + now rewrite Hm1k, Hk87, Hc1k.
    + cbn [post_thread tip tvis]. rewrite Hn, Heq. exact Hl1.
    + exact Hl2.
    + cbn [post_thread tpath]. rewrite <- Hj. apply reaches_step; auto. apply reaches_step; auto. rewrite Hb87. discriminate.
    + exact HR'.
    + exact Hpc'.
    + rewrite <- app_assoc. apply Hvis1.
    + left. destruct H as (t'' & H1 & H2 & H3 & H4 & H5). exists t''. repeat split; auto.
      left. rewrite H5. cbn [post_thread tpath]. now rewrite <- Hj.
    + right. destruct H as (H1 & H2 & H3 & H4). do 3 eexists. repeat split; eauto.
      left. cbn [post_thread tpath]. now rewrite <- Hj.
  - (* JUMPI: the thread falls through; the forked copy, if any, is at the target *)
    exists (post_forked t c3 k). split.
    + destruct k as [|tg|tg]; cbn [post_forked]; [constructor|contradiction|].
      destruct Hfork as (e'' & Hes'' & HR'' & Hpc''). constructor; [|constructor]. split; [|reflexivity].
      exists e'', (tr ++ [e_pc e]). cbn [tpath tstate tip tvis]. split; [now apply reaches_jumpi|]. split; [|apply Hvis1].
      split; [now apply Rst_fork_point|exact Hpc''].
    + destruct (advance_live m1 (post_thread t i c3 None k) rest (post_forked t c3 k) e' (tr ++ [e_pc e]) Hm1c Hm1f) as [H|H].
      * now rewrite Hm1k, Hk87, Hc1k.
      * assert (Htip : tip (post_thread t i c3 None k) = tip t) by (destruct k; [reflexivity|contradiction|reflexivity]).
        rewrite Htip. cbn [post_thread tvis]. rewrite Heq, Hn. exact Hl1.
      * exact Hl2.
      * cbn [post_thread tpath]. rewrite <- Hj. now apply reaches_jumpi.
      * exact HR'.
      * assert (Htip : tip (post_thread t i c3 None k) = tip t) by (destruct k; [reflexivity|contradiction|reflexivity]).
        rewrite Htip, Heq. exact Hpc'.
      * apply Hvis1.
      * left. destruct H as (t'' & H1 & H2 & H3 & H4 & H5). exists t''. repeat split; auto.
        right. rewrite H5. cbn [post_thread tpath]. now rewrite <- Hj.
      * right. destruct H as (H1 & H2 & H3 & H4). do 3 eexists. repeat split; eauto.
        right. cbn [post_thread tpath]. now rewrite <- Hj.
Qed.


(* ---- any iteration, guarded or not: where the threads go (includes fork_copies_state) ---- *)
Lemma vm_step_shape m m' t rest :
  vm_step constant_fold m = SRunning m' -> v_queue m = t :: rest ->
  v_code m' = v_code m /\ v_cfg m' = v_cfg m /\ v_killed m' = false /\
  exists t' forked,
    (tpath t' = tpath t \/ tpath t' = tpath t ++ [false]) /\
    (forall f, In f forked -> tpath f = tpath t ++ [true] /\ tstate f = with_fork_point (tstate t') (tip t)) /\
    ((v_queue m' = mk_thread (tstate t') (tvis t') (tip t' + 1) (tgas t') (tpath t') :: rest ++ forked
      /\ v_stored m' = v_stored m /\ v_paths m' = v_paths m)
     \/ (v_queue m' = rest ++ forked /\ v_stored m' = v_stored m ++ [(tstate t', tvis t')] /\ v_paths m' = v_paths m ++ [tpath t'])).
Proof.
  intros Hstep Hq.
  destruct (vm_step_decomp _ _ _ _ Hstep Hq)
    as (i & c1 & c3 & err & serr & k & jt' & m1 & Hi & Hc1 & Hc1k & Hex & -> & Hm1c & Hm1f & Hm1s & Hm1p & Hm1k).
  destruct (advance_cases m1 (post_thread t i c3 err k) rest (post_forked t c3 k)) as (H1 & H2 & H3 & H4).
  rewrite H1, H2, Hm1c, Hm1f. split; [reflexivity|]. split; [reflexivity|]. split; [exact H3|].
  exists (post_thread t i c3 err k), (post_forked t c3 k). split; [|split].
  - cbn [post_thread tpath]. destruct (is_jumpi i); auto.
  - intros f Hf. destruct k; cbn [post_forked In] in Hf; try contradiction. destruct Hf as [<-|[]]. split; reflexivity.
  - rewrite <- Hm1s, <- Hm1p. destruct H4 as [(_ & Ha & Hb & Hc)|(_ & Ha & Hb & Hc)]; [right|left]; auto.
Qed.

(* forking deep-copies the state: the forked thread starts from the parent's state at the JUMPI (only the fork
   point differs), whether the parent then continues or is retired *)
Theorem fork_copies_state m m' t rest :
  vm_step constant_fold m = SRunning m' -> v_queue m = t :: rest ->
  exists st' forked,
    (forall f, In f forked -> tstate f = with_fork_point st' (tip t) /\ tpath f = tpath t ++ [true]) /\
    ((exists t', v_queue m' = t' :: rest ++ forked /\ tstate t' = st')
     \/ (exists vis, v_queue m' = rest ++ forked /\ v_stored m' = v_stored m ++ [(st', vis)])).
Proof.
  intros Hstep Hq. destruct (vm_step_shape _ _ _ _ Hstep Hq) as (_ & _ & _ & t' & forked & _ & Hf & Hc).
  exists (tstate t'), forked. split; [intros f Hin; destruct (Hf f Hin); auto|].
  destruct Hc as [(Ha & _)|(Ha & Hb & _)]; [left|right]; eauto.
Qed.

(* ---- following one path through the whole run ---- *)
Definition prefix (a p : list bool) : Prop := exists r, p = a ++ r.
Lemma is_prefix_spec a : forall p, is_prefix a p = true <-> prefix a p.
Proof.
  induction a as [|x a IH]; intros p; cbn [is_prefix].
  - split; [intros _; now exists p|reflexivity].
  - destruct p as [|y p]; [split; [discriminate|intros [r Hr]; discriminate]|].
    rewrite andb_true_iff, IH. split.
    + intros [H1 [r ->]]. apply Bool.eqb_prop in H1. subst. now exists r.
    + intros [r Hr]. injection Hr as -> ->. split; [apply Bool.eqb_reflx|now exists r].
Qed.
Lemma prefix_app a x p : prefix (a ++ x) p -> prefix a p.
Proof. intros [r ->]. exists (x ++ r). now rewrite app_assoc. Qed.
Lemma prefix_refl p : prefix p p.
Proof. exists []. now rewrite app_nil_r. Qed.

Record MInv (p : list bool) (m : vm) : Prop := mk_MInv {
  mi_code : v_code m = code;
  mi_cfg : v_cfg m = cfg;
  mi_killed : v_killed m = false;
  mi_len : length (v_stored m) = length (v_paths m);
  mi_queue : Forall (fun t => prefix (tpath t) p -> live t) (v_queue m);
  mi_stored : forall i sv q, nth_error (v_stored m) i = Some sv -> nth_error (v_paths m) i = Some q ->
              prefix q p -> matched (fst sv) (snd sv) q }.

Lemma stored_app {A B} (P : A -> B -> Prop) (l1 : list A) (l2 : list B) a b :
  length l1 = length l2 ->
  (forall i x y, nth_error l1 i = Some x -> nth_error l2 i = Some y -> P x y) -> P a b ->
  forall i x y, nth_error (l1 ++ [a]) i = Some x -> nth_error (l2 ++ [b]) i = Some y -> P x y.
Proof.
  intros Hl Hold Hnew i x y H1 H2. destruct (Nat.lt_ge_cases i (length l1)) as [Hlt|Hge].
  - rewrite nth_error_app1 in H1 by exact Hlt. rewrite nth_error_app1 in H2 by (rewrite <- Hl; exact Hlt). eauto.
  - rewrite nth_error_app2 in H1 by exact Hge. rewrite nth_error_app2 in H2 by (rewrite <- Hl; exact Hge). rewrite <- Hl in H2.
    destruct (i - length l1)%nat as [|j]; cbn in H1, H2; [|destruct j; discriminate].
    injection H1 as <-. injection H2 as <-. exact Hnew.
Qed.

Lemma minv_init p : MInv p (init_vm code cfg).
Proof.
  constructor; cbn [init_vm v_code v_cfg v_killed v_stored v_paths v_queue]; try reflexivity.
  - constructor; [|constructor]. intros _. apply live_init.
  - intros i sv q H. destruct i; discriminate.
Qed.

Lemma minv_step p m m' :
  MInv p m -> vm_step constant_fold m = SRunning m' ->
  (forall t rest, v_queue m = t :: rest -> prefix (tpath t) p -> step_guard t = true) ->
  MInv p m'.
Proof.
  intros [Hc Hcf Hk Hl Hqu Hst] Hstep Hg.
  destruct (v_queue m) as [|t rest] eqn:Hq; [unfold vm_step in Hstep; rewrite Hq in Hstep; discriminate|].
  destruct (vm_step_shape _ _ _ _ Hstep Hq) as (Hc' & Hcf' & Hk' & t' & forked & Hpath & Hfk & Hcases).
  apply Forall_cons_iff in Hqu as [Ht Hrest].
  destruct (is_prefix (tpath t) p) eqn:Ep.
  - (* the head thread belongs to the lineage of p: it is related to the concrete machine and its step is guarded *)
    apply is_prefix_spec in Ep. specialize (Ht Ep). specialize (Hg t rest eq_refl Ep).
    destruct (step_sim m m' t rest Hc Hcf Hk Hq Hstep Ht Hg) as (fk & Hfl & Hcase).
    assert (Hfl' : Forall (fun t0 => prefix (tpath t0) p -> live t0) fk).
    { eapply Forall_impl; [|exact Hfl]. intros f [Hf _] _. exact Hf. }
    destruct Hcase as [(t'' & Hq' & Hs' & Hp' & Hlive & _)|(st & vis & q & Hq' & Hs' & Hp' & Hm & _)].
    + constructor; try congruence.
      * rewrite Hq'. constructor; [intros _; exact Hlive|]. apply Forall_app. now split.
      * rewrite Hs', Hp'. exact Hst.
    + constructor; try congruence.
      * rewrite Hs', Hp', !app_length, Hl. reflexivity.
      * rewrite Hq'. apply Forall_app. now split.
      * rewrite Hs', Hp'. apply (stored_app (fun sv q => prefix q p -> matched (fst sv) (snd sv) q)); auto.
  - (* another lineage: nothing it produces has a path that is a prefix of p *)
    assert (Hnp : forall x, ~ prefix (tpath t ++ x) p).
    { intros x Hx. apply prefix_app in Hx. apply is_prefix_spec in Hx. congruence. }
    assert (Hnt : ~ prefix (tpath t') p).
    { destruct Hpath as [E|E]; rewrite E; [rewrite <- (app_nil_r (tpath t))|]; apply Hnp. }
    assert (Hfl' : Forall (fun t0 => prefix (tpath t0) p -> live t0) forked).
    { apply Forall_forall. intros f Hf Hpf. destruct (Hfk f Hf) as [E _]. rewrite E in Hpf. now apply Hnp in Hpf. }
    destruct Hcases as [(Hq' & Hs' & Hp')|(Hq' & Hs' & Hp')].
    + constructor; try congruence.
      * rewrite Hq'. constructor; [cbn [tpath]; intros Hx; contradiction|]. apply Forall_app. now split.
      * rewrite Hs', Hp'. exact Hst.
    + constructor; try congruence.
      * rewrite Hs', Hp', !app_length, Hl. reflexivity.
      * rewrite Hq'. apply Forall_app. now split.
      * rewrite Hs', Hp'. apply (stored_app (fun sv q => prefix q p -> matched (fst sv) (snd sv) q)); auto.
        intros Hx. contradiction.
Qed.

Lemma vm_step_done_same m m' : vm_step constant_fold m = SDone m' -> m' = m.
Proof.
  unfold vm_step. destruct (v_queue m) as [|t rest]; [now intros [= <-]|].
  destruct (nth_error (v_code m) (N.to_nat (tip t))); [|now intros [= <-]].
  destruct (if v_counter m mod poll_every (v_cfg m) =? 0 then _ else _) as [stopped c1]. destruct stopped; [discriminate|].
  destruct (exec_instr _ _ _ _ _ _ _ _) as [[[[c3 err] serr] k] jt']. destruct err; cbv beta iota zeta; discriminate.
Qed.

Lemma vm_step_stopped_minv p m ip m' : MInv p m -> vm_step constant_fold m = SStopped ip m' -> MInv p m'.
Proof.
  intros [Hc Hcf Hk Hl Hqu Hst]. unfold vm_step. destruct (v_queue m) as [|t rest] eqn:Hq; [discriminate|].
  destruct (nth_error (v_code m) (N.to_nat (tip t))); [|discriminate].
  destruct (if v_counter m mod poll_every (v_cfg m) =? 0 then _ else _) as [stopped c1]. destruct stopped.
  - intros [= <- <-]. constructor; cbn [v_code v_cfg v_killed v_stored v_paths v_queue]; rewrite ?Hq; auto.
  - destruct (exec_instr _ _ _ _ _ _ _ _) as [[[[c3 err] serr] k] jt']. destruct err; cbv beta iota zeta; discriminate.
Qed.

Lemma run_minv p n : forall m, MInv p m -> guards_along n m p = true -> MInv p (result_state (run constant_fold n m)).
Proof.
  induction n as [|n IH]; intros m Hi Hg; cbn [run result_state]; [exact Hi|]. cbn [SimGuards.guards_along] in Hg.
  destruct (vm_step constant_fold m) as [m'|m'|ip m'] eqn:Es.
  - apply andb_true_iff in Hg as [Hg1 Hg2]. apply IH; [|exact Hg2].
    apply (minv_step p m m' Hi Es). intros t rest Hq Hp. rewrite Hq in Hg1.
    apply is_prefix_spec in Hp. now rewrite Hp in Hg1.
  - cbn [result_state]. now rewrite (vm_step_done_same _ _ Es).
  - cbn [result_state]. eapply vm_step_stopped_minv; eauto.
Qed.

(* ---- path_sim ---- *)
Theorem path_sim n p :
  guards_along n (init_vm code cfg) p = true ->
  forall i sv, nth_error (v_stored (result_state (run constant_fold n (init_vm code cfg)))) i = Some sv ->
               nth_error (v_paths (result_state (run constant_fold n (init_vm code cfg)))) i = Some p ->
  matched (fst sv) (snd sv) p.
Proof.
  intros Hg i sv Hs Hp. destruct (run_minv p n _ (minv_init p) Hg) as [_ _ _ _ _ Hst].
  apply (Hst i sv p Hs Hp). apply prefix_refl.
Qed.

(* the executable comparison of the check agrees *)
Theorem matched_state_vs_path st vis p : matched st vis p -> state_vs_path bytes st p = 0.
Proof.
  intros (n & e & Hrun & HR & _). unfold state_vs_path.
  destruct (erun_halt_any _ _ _ _ _ _ Hrun (efuel bytes)) as [H|(s' & q' & H)]; rewrite H; [|reflexivity].
  now apply match_state_sound.
Qed.

Lemma imm_false_not_nop o :
  nth (N.to_nat o) (immediates 0 bytes) false = false -> nth_error code (N.to_nat o) <> Some INop.
Proof.
  intros Himm Hn. pose proof (C10_positions_proof _ _ Hbytes Hlen Htry) as F.
  assert (Hlt : (N.to_nat o < length code)%nat) by (apply nth_error_Some; congruence).
  rewrite (code_len bytes code Hbytes Hlen Htry) in Hlt.
  destruct (nth_error bytes (N.to_nat o)) as [b|] eqn:Eb; [|apply nth_error_None in Eb; lia].
  assert (Ei : nth_error (immediates 0 bytes) (N.to_nat o) = Some false).
  { rewrite <- Himm. apply nth_error_nth'. now rewrite immediates_length. }
  destruct (Forall2_nth_error _ _ _ F _ (b, false) (nth_error_combine _ _ _ _ _ Eb Ei)) as (x & Hx & Hp).
  rewrite Hn in Hx. injection Hx as <-. destruct Hp as (_ & P2 & P3).
  destruct (is_push b) eqn:Epb.
  - destruct (P3 eq_refl eq_refl) as [(d & H)|H]; discriminate.
  - destruct (P2 eq_refl eq_refl) as [_ H]. congruence.
Qed.

End Machine.

(* ---- the statements re-exported by props/C07.v and props/C08.v ---- *)
Theorem path_sim_check bytes code (cfg : config) :
  bytes_ok bytes -> N.of_nat (length bytes) <= two32 -> try_from bytes = Ok code ->
  forall n p, guards_along code cfg n (init_vm code cfg) p = true ->
  forall i sv, nth_error (v_stored (result_state (run constant_fold n (init_vm code cfg)))) i = Some sv ->
               nth_error (v_paths (result_state (run constant_fold n (init_vm code cfg)))) i = Some p ->
  (exists fuel e, erun bytes fuel p e_init = (EHalt e, []) /\ Rst (fst sv) e /\ match_state (fst sv) e = 0)
  /\ state_vs_path bytes (fst sv) p = 0.
Proof.
  intros Hb Hl Ht n p Hg i sv Hs Hp. pose proof (path_sim bytes code Hb Hl Ht cfg n p Hg i sv Hs Hp) as Hm. split.
  - destruct Hm as (fuel & e & H1 & H2 & _). exists fuel, e. split; [exact H1|]. split; [exact H2|]. now apply match_state_sound.
  - eapply matched_state_vs_path; eauto.
Qed.

(* the same for the binary-fuel evaluator the check runs (VmCases.model_run) *)
Theorem path_sim_run_p bytes code (cfg : config) :
  bytes_ok bytes -> N.of_nat (length bytes) <= two32 -> try_from bytes = Ok code ->
  forall q p, guards_along code cfg (Pos.to_nat q) (init_vm code cfg) p = true ->
  forall i sv, nth_error (v_stored (result_vm (run_p constant_fold q (init_vm code cfg)))) i = Some sv ->
               nth_error (v_paths (result_vm (run_p constant_fold q (init_vm code cfg)))) i = Some p ->
  state_vs_path bytes (fst sv) p = 0.
Proof.
  intros Hb Hl Ht q p Hg i sv. rewrite run_p_run.
  change (result_vm (run constant_fold (Pos.to_nat q) (init_vm code cfg)))
    with (result_state (run constant_fold (Pos.to_nat q) (init_vm code cfg))).
  intros Hs Hp. now apply (path_sim_check bytes code cfg Hb Hl Ht _ p Hg i sv).
Qed.

(* C08: every instruction offset such a thread has visited is executed by the reference EVM along its path *)
Theorem executed_offsets_reachable bytes code (cfg : config) :
  bytes_ok bytes -> N.of_nat (length bytes) <= two32 -> try_from bytes = Ok code ->
  forall n p, guards_along code cfg n (init_vm code cfg) p = true ->
  forall i sv, nth_error (v_stored (result_state (run constant_fold n (init_vm code cfg)))) i = Some sv ->
               nth_error (v_paths (result_state (run constant_fold n (init_vm code cfg)))) i = Some p ->
  exists fuel e, erun bytes fuel p e_init = (EHalt e, []) /\
    forall o, 0 < count_of o (snd sv) -> nth (N.to_nat o) (immediates 0 bytes) false = false ->
              In o (epcs bytes fuel p e_init).
Proof.
  intros Hb Hl Ht n p Hg i sv Hs Hp. destruct (path_sim bytes code Hb Hl Ht cfg n p Hg i sv Hs Hp) as (fuel & e & H1 & _ & H3).
  exists fuel, e. split; [exact H1|]. intros o Ho Himm. apply H3; [exact Ho|]. now apply (imm_false_not_nop bytes code Hb Hl Ht).
Qed.
