(* C01 end to end (props/C01_pipeline.v): the composed model `Pipeline.analyze_model` never returns `PPanic`.

   The stage lemmas are about the stage functions, not about the text of `analyze_model`:
     try_from_no_panic                  (NoPanicVmLift.v)   InstructionStream::try_from, any byte string
     vm_values_wellformed_lemma         (NoPanicVmLift.v)   run_p / all_values: no SubWord / Shifted / Packed node
     lifted_spans_bounded_lemma         (NoPanicVmLift.v)   lift_value: no panic; SubWord / Packed nodes inside the word
     assign_vars_tinv, infer_values_tinv(NoPanicTc.v)       assign_vars / infer_values: the judgement set is tstate_ok
     infer_values_ok                    (RulesProofs.v)     infer_values: no panic, no error
     unify_preserves_span_bound_lemma   (NoPanicUnify.v)    unify: no panic; class data te_ok under the returned counter
     final_state_closed_lemma,
     layout_after_unify_no_panic        (NoPanicUnify.v)    build_layout on env_of_forest: no panic
   The composition: `analyze_plain` (the type checker without a watchdog: every loop the plain fold of its body) is walked
   through once, each stage loop rewritten into the stage model's own function by PipelinePolls.v (`fold_lift`, `fold_reg`,
   `fold_infer`, `fold_layout`); the monitored `analyze_tc` returns that result or `PErrStopped _` (`analyze_tc_spec`). *)
From Coq Require Import String Permutation.
From SLX Require Import Base Word256 PackingArith gen.Constants gen.ValueSig gen.OpcodeTable gen.PassOrder gen.RulesSig
  SymVal Micro gen.OpcodeSem Disasm VM Fold PassesSlots PassesPacking TypeExpr Merge VectorMap DisjointSet Register Rules
  Unify AbiT Layout Abi Pipeline NoPanic.
From SLX.proofs Require Import DisasmProofs RegisterProofs RulesProofs UnifyProofs PipelinePolls PipelineProofs
  NoPanicVmLift NoPanicTc NoPanicUnify.
Open Scope N_scope.

Lemma firstn_in {A} n : forall (l : list A) x, In x (firstn n l) -> In x l.
Proof.
  induction n as [|n IH]; intros l x; destruct l as [|y l]; cbn [firstn In]; try tauto.
  intros [E|H0]; [left; exact E|right; apply IH, H0].
Qed.

Lemma orders_of_ok mode : orders_ok (orders_of mode).
Proof. destruct mode; cbn [orders_of]; [apply sorted_orders_ok|apply sorted_orders_ok|apply seeded_orders_ok]. Qed.

Lemma pipeline_rules_bounded mode : Forall rule_bounded (pipeline_rules mode).
Proof.
  pose proof default_rules_bounded as G. rewrite Forall_forall in *. intros r Hr. apply G.
  unfold pipeline_rules in Hr. apply in_map_iff in Hr as (nm & <- & Hn). apply arrange_in in Hn.
  unfold default_rule_set. apply in_map. unfold sorted_rules in Hn. apply in_sort_le in Hn. exact Hn.
Qed.

(* ---- stage boundary lift -> assign_vars, for the loop of TypeChecker::lift ---- *)
Lemma lifted_list_spans keccak table vals lifted :
  Forall (fun x => no_lifted x = true) vals ->
  Forall2 (fun v v' => lift_value keccak table v = Ok v') vals lifted ->
  Forall (fun v => spans_small v = true) lifted.
Proof.
  intros Hv F. apply Forall_forall. intros v' Hv'. destruct (forall2_from _ _ _ _ F Hv') as (v & Hin & E).
  rewrite Forall_forall in Hv. exact (proj2 (lifted_spans_bounded_lemma keccak table v (Hv v Hin)) v' E).
Qed.

(* ---- stage boundary assign_vars -> infer -> unify: the state the rules leave ---- *)
Theorem registered_state_closed_lemma mode lifted xs st' :
  Forall (fun v => spans_small v = true) lifted ->
  (forall x, In x xs -> In x (tc_values mode (Register.values (snd (assign_vars lifted))))) ->
  infer_values (pipeline_rules mode) xs (snd (assign_vars lifted)) = Ok st' ->
  tinv st' /\ tstate_ok (tstate_of st') = true.
Proof.
  intros Hl Hxs Ei. pose proof (assign_vars_tinv lifted Hl) as T0.
  destruct (infer_values_tinv (pipeline_rules mode) (pipeline_rules_good mode) (pipeline_rules_bounded mode) xs _ st' T0) as (T1 & _ & _).
  - intros x Hx. specialize (Hxs x Hx). unfold tc_values in Hxs. apply arrange_in in Hxs.
    exact (values_in_exprs _ x (ti_w _ T0) (ti_var _ T0) Hxs).
  - exact Ei.
  - split; [exact T1|]. unfold tstate_of. exact (tinv_tstate_ok st' T1).
Qed.

(* infer itself: no panic, no error, on any part of the registered values (RulesProofs.infer_values_ok) *)
Lemma infer_values_total mode lifted xs :
  Forall (fun v => spans_small v = true) lifted ->
  (forall x, In x xs -> In x (tc_values mode (Register.values (snd (assign_vars lifted))))) ->
  exists st', infer_values (pipeline_rules mode) xs (snd (assign_vars lifted)) = Ok st'.
Proof.
  intros Hl Hxs. pose proof (assign_vars_tinv lifted Hl) as T0.
  destruct (infer_values_ok (pipeline_rules mode) (pipeline_rules_good mode) xs _ (ti_w _ T0)) as (st' & E & _).
  - intros x Hx. specialize (Hxs x Hx). unfold tc_values in Hxs. apply arrange_in in Hxs.
    exact (values_in_exprs _ x (ti_w _ T0) (ti_var _ T0) Hxs).
  - eauto.
Qed.

(* ---- the values the layout loop visits carry variables below the counter `unify` returns ---- *)
Lemma layout_values_below mode st' n x : tinv st' -> Register.next st' <= n ->
  In x (tc_values mode (Register.values st' ++ synthetic_values (Register.next st') n)) -> tv_of x < n.
Proof.
  intros T Hn Hx. unfold tc_values in Hx. apply arrange_in in Hx. apply in_app_or in Hx as [Hx|Hx].
  - pose proof (tinv_values_lt st' x T Hx). lia.
  - unfold synthetic_values in Hx. apply in_map_iff in Hx as (k & <- & Hk). cbn [tv_of]. apply in_seq in Hk. lia.
Qed.

(* ================================================================================================ the type checker *)
(* without a watchdog *)
Theorem analyze_plain_no_panic keccak table mode fu stored :
  Forall (fun x => no_lifted x = true) (unique (all_values mode stored)) ->
  forall site, analyze_plain keccak table mode fu stored <> PPanic site.
Proof.
  intros Hv site. unfold analyze_plain. cbv zeta.
  destruct (fold_lift_no_panic keccak table (unique (all_values mode stored)) ([], false)) as ([acc failed] & E1).
  { intros v Hin. rewrite Forall_forall in Hv. exact (proj1 (lifted_spans_bounded_lemma keccak table v (Hv v Hin))). }
  rewrite E1. destruct failed; [discriminate|].
  destruct (fold_lift keccak table _ _ _ _ _ E1 eq_refl) as (_ & ls & Ea & F). rewrite app_nil_r in Ea. subst acc. rewrite rev_involutive.
  pose proof (lifted_list_spans _ _ _ _ Hv F) as Hl.
  rewrite fold_reg. fold (assign_vars ls). rewrite fold_infer.
  destruct (infer_values_total mode ls (tc_values mode (Register.values (snd (assign_vars ls)))) Hl (fun x Hx => Hx)) as (st' & Ei). rewrite Ei.
  destruct (registered_state_closed_lemma mode ls _ st' Hl (fun x Hx => Hx) Ei) as [T1 Hts].
  pose proof (unify_preserves_span_bound_lemma (f_rounds fu) (orders_of mode) (tstate_of st') (orders_of_ok mode) Hts) as Hu.
  destruct (unify (f_rounds fu) (orders_of mode) (tstate_of st')) as [[s n]|[]|p]; cbn [ures_res]; try discriminate; [|contradiction].
  destruct Hu as (Hn & a & Hs & HP). cbn [tstate_of ts_next] in Hn.
  rewrite fold_layout.
  pose proof (layout_after_unify_no_panic s n a (S (N.to_nat n))
                (tc_values mode (Register.values st' ++ synthetic_values (Register.next st') n)) [] Hs HP
                (fun x Hx => layout_values_below mode st' n x T1 Hn Hx)) as Hb.
  destruct (build_layout abi_nested_add abi_nested_fit (env_of_forest s n) (S (N.to_nat n))
              (tc_values mode (Register.values st' ++ synthetic_values (Register.next st') n)) []) as [l|e|p]; try discriminate.
  intros E. injection E as ->. exact (Hb site eq_refl).
Qed.

(* with the watchdog: the plain result or a stop (PipelinePolls.analyze_tc_spec) *)
Theorem analyze_tc_no_panic_lim keccak table mode fu (lim : limits) det stored polls :
  Forall (fun x => no_lifted x = true) (unique (all_values mode stored)) ->
  forall site, t_result (analyze_tc keccak table mode fu lim det stored polls) <> PPanic site.
Proof.
  intros Hv site. pose proof (analyze_tc_spec keccak table mode fu lim polls det stored) as G. cbv zeta in G.
  destruct G as ([G|(st & G)] & _); rewrite G; [apply analyze_plain_no_panic; exact Hv|discriminate].
Qed.

Theorem analyze_tc_no_panic keccak table mode fu (cfg : config) det stored polls :
  Forall (fun x => no_lifted x = true) (unique (all_values mode stored)) ->
  forall site, t_result (analyze_tc keccak table mode fu cfg det stored polls) <> PPanic site.
Proof. apply analyze_tc_no_panic_lim. Qed.

(* ================================================================================================ the whole analysis *)
(* THE end-to-end statement: for every byte string, every configuration whose watchdog polling interval is at least 1,
   every keccak function, slot table, iteration-order mode and fuel, the composed model returns a layout, a structured
   error, or one of the model's own out-of-fuel / beyond-the-model results -- never a panic *)
Definition pipeline_no_panic_statement : Prop :=
  forall keccak table mode fu bytes (cfg : config), bytes_ok bytes -> 1 <= poll_every cfg ->
  forall site, analyze_model_fuel keccak table mode fu bytes cfg <> PPanic site.

Theorem pipeline_no_panic_trace_lemma keccak table mode fu bytes (cfg : config) :
  bytes_ok bytes -> 1 <= poll_every cfg ->
  forall site, t_result (analyze_trace keccak table mode fu bytes cfg) <> PPanic site.
Proof.
  intros Hb Hp site. unfold analyze_trace, vm_phase_of.
  destruct (try_from bytes) as [code|e|s] eqn:Ed; cbn [t_result no_trace]; try discriminate.
  2:{ exfalso. exact (try_from_no_panic bytes Hb s Ed). }
  destruct (poll_every cfg =? 0) eqn:E0; [apply N.eqb_eq in E0; lia|].
  destruct (run_p constant_fold (f_vm fu) (init_vm code cfg)) as [m|ip m|m] eqn:Ev; cbn [t_result no_trace]; try discriminate.
  destruct (v_errors m); cbn [t_result no_trace]; try discriminate.
  apply analyze_tc_no_panic_lim. exact (vm_values_wellformed_lemma mode code cfg (f_vm fu) m Ev).
Qed.

Theorem pipeline_no_panic_lemma : pipeline_no_panic_statement.
Proof. intros keccak table mode fu bytes cfg Hb Hp site. unfold analyze_model_fuel. apply pipeline_no_panic_trace_lemma; assumption. Qed.

Corollary pipeline_no_panic_sorted_lemma keccak table bytes (cfg : config) :
  bytes_ok bytes -> 1 <= poll_every cfg -> forall site, analyze_model keccak table bytes cfg <> PPanic site.
Proof. intros Hb Hp site. unfold analyze_model. apply pipeline_no_panic_lemma; assumption. Qed.

(* the hypothesis on the configuration cannot be dropped: a watchdog whose polling interval is 0 makes
   `counter % poll_every()` panic in VM::execute (DESIGN.md 4.3), for every program that disassembles *)
Theorem pipeline_poll_zero_panics_lemma keccak table mode fu bytes code (cfg : config) :
  try_from bytes = Ok code -> poll_every cfg = 0 ->
  analyze_model_fuel keccak table mode fu bytes cfg = PPanic SITE_POLL_ZERO.
Proof.
  intros Ed Ep. unfold analyze_model_fuel, analyze_trace, vm_phase_of. rewrite Ed, Ep. reflexivity.
Qed.
