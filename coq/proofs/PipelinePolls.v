(* The polled loops of the composed model (Pipeline.v): `ploop_e` is PolledLoop.ploop with the failure kept; a polled
   loop either is stopped by the watchdog or returns what the unmonitored fold of its body returns; the loops of the
   five type-checker stages are the stage models' own functions (`assign_vars`, `infer_values`, `Unify.unify`,
   `Abi.build_layout`) when the watchdog never stops; `analyze_tc` = `analyze_plain` or a watchdog stop. *)
From Coq Require Import String.
From SLX Require Import Base Word256 PackingArith gen.Constants gen.ValueSig gen.OpcodeTable gen.PassOrder gen.RulesSig
  SymVal Micro gen.OpcodeSem Disasm VM Fold PassesSlots PassesPacking TypeExpr Merge VectorMap DisjointSet Register Rules
  Unify AbiT Layout Abi PolledLoop Pipeline.
From SLX.proofs Require Import PolledLoopProofs.
Open Scope N_scope.

(* ================================================================================================ ploop_e *)
Section LoopE.
  Context {A St E : Type}.
  Variable body : A -> St -> St + E.
  Variable k : N.

  (* forgetting the failure gives the loop of PolledLoop.v, so its three theorems apply *)
  Lemma ploop_e_forget items : forall c w s,
    forget (ploop_e body k items c w s) = ploop (forget_body body) k items c w s.
  Proof.
    induction items as [|x r IH]; intros c w s; cbn [ploop_e ploop]; [reflexivity|].
    destruct (if c mod k =? 0 then should_stop w else (false, w)) as [stop w1]. destruct stop; [reflexivity|].
    unfold forget_body at 1. destruct (body x s) as [s1|e]; [apply IH|reflexivity].
  Qed.

  Lemma fold_e_plain items : forall s,
    plain (forget_body body) items s = match fold_e body items s with inl s' => Some s' | inr _ => None end.
  Proof.
    induction items as [|x r IH]; intros s; cbn [plain fold_e]; [reflexivity|]. unfold forget_body at 1.
    destruct (body x s) as [s1|e]; [apply IH|reflexivity].
  Qed.

  (* stopped, or the unmonitored result *)
  Lemma ploop_e_fold items : forall c w s,
    match ploop_e body k items c w s with
    | PDone s' c' _ => fold_e body items s = inl s' /\ c' = c + N.of_nat (length items)
    | PFailed e _ => fold_e body items s = inr e
    | PStopped _ => True
    end.
  Proof.
    induction items as [|x r IH]; intros c w s; cbn [ploop_e fold_e length]; [split; [reflexivity|lia]|].
    destruct (if c mod k =? 0 then should_stop w else (false, w)) as [stop w1]. destruct stop; [exact I|].
    destruct (body x s) as [s1|e]; [|reflexivity].
    specialize (IH (c + 1) w1 s1). destruct (ploop_e body k r (c + 1) w1 s1); auto.
    destruct IH as [H1 H2]. split; [exact H1|lia].
  Qed.

  (* the watchdog's stop index never changes *)
  Lemma ploop_e_stop_from items : forall c w s, stop_from (pres_wdog (ploop_e body k items c w s)) = stop_from w.
  Proof.
    induction items as [|x r IH]; intros c w s; cbn [ploop_e]; [reflexivity|].
    destruct (c mod k =? 0); cbn [should_stop].
    - destruct (match stop_from w with Some k0 => k0 <=? polls w | None => false end); [reflexivity|].
      destruct (body x s); [rewrite IH; reflexivity|reflexivity].
    - destruct (body x s); [apply IH|reflexivity].
  Qed.

  (* never told to stop: never stopped *)
  Lemma ploop_e_never items : forall c w s, stop_from w = None ->
    match ploop_e body k items c w s with PStopped _ => False | _ => True end.
  Proof.
    induction items as [|x r IH]; intros c w s Hw; cbn [ploop_e]; [exact I|].
    destruct (c mod k =? 0); cbn [should_stop].
    - rewrite Hw. destruct (body x s); [apply IH; reflexivity|exact I].
    - destruct (body x s); [apply IH; exact Hw|exact I].
  Qed.

  (* poll accounting against the stop index j: as long as the loop is not stopped every poll was answered "go on", so
     the polls stay at or below j once they were; a stop makes exactly one poll beyond max(polls, j) *)
  Lemma ploop_e_polls items j : forall c w s, stop_from w = Some j ->
    match ploop_e body k items c w s with
    | PDone _ _ w' | PFailed _ w' => polls w' = polls w \/ (polls w <= polls w' /\ polls w' <= j)
    | PStopped w' => polls w' = N.max (polls w) j + 1
    end.
  Proof.
    induction items as [|x r IH]; intros c w s Hw; cbn [ploop_e]; [left; reflexivity|].
    destruct (c mod k =? 0); cbn [should_stop].
    - rewrite Hw. destruct (j <=? polls w) eqn:Ej.
      + apply N.leb_le in Ej. cbn [polls]. rewrite N.max_l by lia. reflexivity.
      + apply N.leb_gt in Ej.
        destruct (body x s) as [s1|e]; [|cbn [polls]; right; lia].
        specialize (IH (c + 1) (mk_wdog (polls w + 1) (Some j)) s1 eq_refl). cbn [polls] in IH.
        destruct (ploop_e body k r (c + 1) (mk_wdog (polls w + 1) (Some j)) s1) as [s' c' w'|w'|e w'];
          try (destruct IH as [IH|IH]; [right; lia|right; lia]).
        rewrite IH. rewrite !N.max_r by lia. reflexivity.
    - destruct (body x s) as [s1|e]; [apply IH; exact Hw|left; reflexivity].
  Qed.

  (* a watchdog that never stops only counts *)
  Lemma ploop_e_polls_mono items : forall c w s, polls w <= polls (pres_wdog (ploop_e body k items c w s)).
  Proof.
    induction items as [|x r IH]; intros c w s; cbn [ploop_e]; [cbn; lia|].
    destruct (c mod k =? 0); cbn [should_stop].
    - destruct (match stop_from w with Some k0 => k0 <=? polls w | None => false end); [cbn; lia|].
      destruct (body x s) as [s1|e]; [|cbn; lia].
      specialize (IH (c + 1) (mk_wdog (polls w + 1) (stop_from w)) s1). cbn [polls] in IH. lia.
    - destruct (body x s) as [s1|e]; [apply IH|cbn; lia].
  Qed.
End LoopE.

Lemma ploop_e_ext {A St E} (b1 b2 : A -> St -> St + E) k items : (forall x s, In x items -> b1 x s = b2 x s) ->
  forall c w s, ploop_e b1 k items c w s = ploop_e b2 k items c w s.
Proof.
  induction items as [|x r IH]; intros H c w s; cbn [ploop_e]; [reflexivity|].
  destruct (if c mod k =? 0 then should_stop w else (false, w)) as [stop w1]. destruct stop; [reflexivity|].
  rewrite (H x s (or_introl eq_refl)). destruct (b2 x s); [|reflexivity]. apply IH. intros y s' Hy. apply H. right. exact Hy.
Qed.

Lemma fold_e_ext {A St E} (b1 b2 : A -> St -> St + E) items : (forall x s, In x items -> b1 x s = b2 x s) ->
  forall s, fold_e b1 items s = fold_e b2 items s.
Proof.
  induction items as [|x r IH]; intros H s; cbn [fold_e]; [reflexivity|].
  rewrite (H x s (or_introl eq_refl)). destruct (b2 x s); [|reflexivity]. apply IH. intros y s' Hy. apply H. right. exact Hy.
Qed.

(* ================================================================================================ the stage loops *)
Section Stages.
  Variable keccak : list byte -> N.
  Variable table : list (N * N).
  Variable mode : order_mode.
  Notation o := (orders_of mode).

  (* ---- lift ---- *)
  Lemma fold_lift vals : forall acc failed acc' failed',
    fold_e (lift_body keccak table) vals (acc, failed) = inl (acc', failed') ->
    (failed' = false -> failed = false /\
       exists ls, acc' = rev ls ++ acc /\ Forall2 (fun v v' => lift_value keccak table v = Ok v') vals ls).
  Proof.
    induction vals as [|v r IH]; intros acc failed acc' failed'; cbn [fold_e].
    - intros [= <- <-] F. split; [exact F|]. exists []. split; [reflexivity|constructor].
    - unfold lift_body at 1. cbn [fst snd]. destruct (lift_value keccak table v) as [v'|e|s] eqn:E; [| |discriminate].
      + intros H F. destruct (IH _ _ _ _ H F) as (F0 & ls & -> & H2). split; [exact F0|]. exists (v' :: ls). split.
        * cbn [rev]. rewrite <- app_assoc. reflexivity.
        * constructor; assumption.
      + intros H F. destruct (IH _ _ _ _ H F) as (F0 & _). discriminate.
  Qed.

  (* ---- assign_vars ---- *)
  Lemma fold_reg vals : forall st, fold_e reg_body vals st = inl (snd (reg_list vals st)).
  Proof.
    induction vals as [|v r IH]; intros st; cbn [fold_e reg_list]; [reflexivity|]. unfold reg_body at 1.
    rewrite IH. destruct (reg v st) as [tx s1]. cbn [snd]. destruct (reg_list r s1). reflexivity.
  Qed.

  (* ---- infer ---- *)
  Lemma fold_infer xs : forall st,
    fold_e (infer_body mode) xs st =
    match infer_values (pipeline_rules mode) xs st with Ok st' => inl st' | Err _ => inr PErrInfer | Panic s => inr (PPanic s) end.
  Proof.
    induction xs as [|x r IH]; intros st; cbn [fold_e infer_values]; [reflexivity|]. unfold infer_body at 1.
    destruct (infer_value (pipeline_rules mode) x st); [apply IH|reflexivity|reflexivity].
  Qed.

  (* ---- unify ---- *)
  Lemma ures_res_bind {X Y} (x : ures X) (f : X -> ures Y) :
    ures_res (ubind x f) = match ures_res x with inl a => ures_res (f a) | inr e => inr e end.
  Proof. destruct x as [a|[]|p]; reflexivity. Qed.

  Lemma classes_loop_cons rnd s p t acc :
    classes_loop ds_forest o rnd s (p :: t) acc =
    ubind (classes_loop ds_forest o rnd s [p] acc) (fun r => classes_loop ds_forest o rnd (fst r) t (snd r)).
  Proof.
    destruct p as [root infs]. cbn [classes_loop]. destruct infs as [|i infs]; [reflexivity|].
    destruct (o_class o rnd root (i :: infs)) as [|cur rest]; [reflexivity|].
    unfold ubind. destruct (fold_class cur rest root acc) as [ca|e|q]; [|reflexivity|reflexivity].
    destruct (f_set ds_forest s root [fst ca]) as [s1|e|q]; reflexivity.
  Qed.

  Lemma fold_classes rnd sets : forall st,
    fold_e (class_body mode rnd) sets st = ures_res (classes_loop ds_forest o rnd (fst st) sets (snd st)).
  Proof.
    induction sets as [|p t IH]; intros [s acc]; cbn [fold_e]; [reflexivity|].
    cbn [fst snd]. rewrite classes_loop_cons, ures_res_bind. unfold class_body at 1. cbn [fst snd].
    destruct (ures_res (classes_loop ds_forest o rnd s [p] acc)) as [r|e]; [|reflexivity]. rewrite IH. reflexivity.
  Qed.

  Lemma round_split rnd s nxt :
    round ds_forest o rnd s nxt =
    ubind (f_sets ds_forest s) (fun sl =>
    ubind (classes_loop ds_forest o rnd (fst sl) (snd sl) (mk_racc [] [] [] nxt false)) (fun sa =>
    ubind (round_tail mode rnd sa) (fun s4 => Ok (s4, r_next (snd sa), r_prog (snd sa))))).
  Proof.
    unfold round, round_tail. unfold ubind. destruct (f_sets ds_forest s) as [sl|e|q]; [|reflexivity|reflexivity].
    destruct (classes_loop ds_forest o rnd (fst sl) (snd sl) (mk_racc [] [] [] nxt false)) as [sa|e|q]; [|reflexivity|reflexivity].
    destruct (insert_all ds_forest (fst sa) _) as [s2|e|q]; [|reflexivity|reflexivity].
    destruct (union_all ds_forest s2 _) as [s3|e|q]; [|reflexivity|reflexivity].
    destruct (add_all ds_forest s3 _) as [s4|e|q]; reflexivity.
  Qed.

  (* the polled rounds: stopped, or what `Unify.unify_loop` returns *)
  Lemma unify_rounds_spec k fuel : forall rnd s nxt c w,
    match unify_rounds mode k fuel rnd s nxt c w with
    | UDone s' n' _ _ => ures_res (unify_loop ds_forest o fuel rnd s nxt) = inl (s', n')
    | UFail e _ => ures_res (unify_loop ds_forest o fuel rnd s nxt) = inr e
    | UStop _ => True
    end.
  Proof.
    induction fuel as [|f IH]; intros rnd s nxt c w; cbn [unify_rounds unify_loop]; [reflexivity|].
    rewrite round_split, !ures_res_bind.
    destruct (ures_res (f_sets ds_forest s)) as [sl|e]; [|reflexivity].
    pose proof (ploop_e_fold (class_body mode rnd) k (snd sl) c w (fst sl, mk_racc [] [] [] nxt false)) as Hl.
    rewrite fold_classes in Hl. cbn [fst snd] in Hl.
    destruct (ploop_e (class_body mode rnd) k (snd sl) c w (fst sl, mk_racc [] [] [] nxt false)) as [sa c' w'|w'|e w'].
    - destruct Hl as [Hl _]. rewrite ures_res_bind, Hl, ures_res_bind.
      destruct (ures_res (round_tail mode rnd sa)) as [s4|e]; [|reflexivity]. cbn [ures_res].
      destruct (r_prog (snd sa)); [apply IH|cbn [ures_res]; reflexivity].
    - exact I.
    - rewrite ures_res_bind, Hl. reflexivity.
  Qed.

  Lemma unify_polled_spec k fuel st w :
    match unify_polled mode k fuel st w with
    | UDone s' n' _ _ => ures_res (unify fuel o st) = inl (s', n')
    | UFail e _ => ures_res (unify fuel o st) = inr e
    | UStop _ => True
    end.
  Proof.
    unfold unify_polled, unify, unify_gen. rewrite ures_res_bind.
    destruct (ures_res (init_forest ds_forest o st)) as [s0|e]; [|reflexivity]. apply unify_rounds_spec.
  Qed.

  (* never told to stop: never stopped, and the watchdog still never stops afterwards *)
  Definition unify_out_wdog (r : unify_out) : wdog := match r with UStop w | UFail _ w | UDone _ _ _ w => w end.

  Lemma unify_rounds_wdog k fuel : forall rnd s nxt c w,
    let r := unify_rounds mode k fuel rnd s nxt c w in
    stop_from (unify_out_wdog r) = stop_from w /\ polls w <= polls (unify_out_wdog r) /\
    (stop_from w = None -> match r with UStop _ => False | _ => True end) /\
    (forall j, stop_from w = Some j ->
       match r with
       | UStop w' => polls w' = N.max (polls w) j + 1
       | UFail _ w' | UDone _ _ _ w' => polls w' = polls w \/ (polls w <= polls w' /\ polls w' <= j)
       end).
  Proof.
    induction fuel as [|f IH]; intros rnd s nxt c w; cbn [unify_rounds]; cbv zeta.
    - cbn. repeat split; auto; try lia.
    - destruct (ures_res (f_sets ds_forest s)) as [sl|e]; [|cbn; repeat split; auto; try lia].
      pose proof (ploop_e_stop_from (class_body mode rnd) k (snd sl) c w (fst sl, mk_racc [] [] [] nxt false)) as H1.
      pose proof (ploop_e_polls_mono (class_body mode rnd) k (snd sl) c w (fst sl, mk_racc [] [] [] nxt false)) as H2.
      pose proof (ploop_e_never (class_body mode rnd) k (snd sl) c w (fst sl, mk_racc [] [] [] nxt false)) as H3.
      pose proof (fun j => ploop_e_polls (class_body mode rnd) k (snd sl) j c w (fst sl, mk_racc [] [] [] nxt false)) as H4.
      destruct (ploop_e (class_body mode rnd) k (snd sl) c w (fst sl, mk_racc [] [] [] nxt false)) as [sa c' w'|w'|e w'];
        cbn [pres_wdog] in *.
      + destruct (ures_res (round_tail mode rnd sa)) as [s4|e]; [|cbn; repeat split; auto].
        destruct (r_prog (snd sa)); [|cbn; repeat split; auto].
        specialize (IH (S rnd) s4 (r_next (snd sa)) c' w'). cbv zeta in IH. destruct IH as (I1 & I2 & I3 & I4).
        split; [congruence|]. split; [lia|]. split.
        * intros Hn. apply I3. congruence.
        * intros j Hj. specialize (H4 j Hj). assert (Hj' : stop_from w' = Some j) by congruence. specialize (I4 j Hj').
          destruct (unify_rounds mode k f (S rnd) s4 (r_next (snd sa)) c' w'); lia.
      + cbn. repeat split; auto; try (intros Hn; exact (H3 Hn)).
      + cbn. repeat split; auto.
  Qed.

  (* ---- the layout loop ---- *)
  Lemma fold_layout env fuel vals : forall layout,
    fold_e (layout_body env fuel) (filter is_const_slot vals) layout =
    match build_layout abi_nested_add abi_nested_fit env fuel vals layout with
    | Ok l => inl l | Err e => inr (PErrAbi e) | Panic p => inr (PPanic p) end.
  Proof.
    induction vals as [|x r IH]; intros layout; cbn [filter fold_e build_layout]; [reflexivity|].
    unfold is_const_slot at 1. destruct (const_slot_key x) as [index|] eqn:K; [|apply IH].
    cbn [fold_e]. unfold layout_body at 1. cbn [build_layout]. rewrite K.
    destruct (abi_type_for abi_nested_add abi_nested_fit env fuel (tv_of x)) as [a|e|p]; [apply IH|reflexivity|reflexivity].
  Qed.
End Stages.

(* ================================================================================================ the whole type checker *)
Section Whole.
  Variable keccak : list byte -> N.
  Variable table : list (N * N).
  Variable mode : order_mode.
  Variable fu : fuels.
  Variable lim : limits.
  Variable polls0 : N.

  (* the watchdog handed from stage to stage: the stop index of the configuration, polls only grow, and as long as
     no poll was answered "stop" they stay at or below the stop index *)
  Definition Wd (w : wdog) : Prop :=
    stop_from w = stop_at lim /\ polls0 <= polls w /\ (forall j, stop_at lim = Some j -> polls0 <= j -> polls w <= j).
  Definition Wstop (w : wdog) : Prop :=
    stop_at lim <> None /\ polls0 <= polls w /\ (forall j, stop_at lim = Some j -> polls0 <= j -> polls w = j + 1).

  Lemma Wd_init : Wd (mk_wdog polls0 (stop_at lim)).
  Proof. repeat split; cbn; auto; lia. Qed.

  Lemma stage_step {A St} (body : A -> St -> St + pipeline_result) k items c w s : Wd w ->
    match ploop_e body k items c w s with
    | PDone s' _ w' => fold_e body items s = inl s' /\ Wd w'
    | PFailed e w' => fold_e body items s = inr e /\ Wd w'
    | PStopped w' => Wstop w'
    end.
  Proof.
    intros (H1 & H2 & H3).
    pose proof (ploop_e_fold body k items c w s) as F. pose proof (ploop_e_stop_from body k items c w s) as S.
    pose proof (ploop_e_polls_mono body k items c w s) as M. pose proof (ploop_e_never body k items c w s) as Nv.
    pose proof (fun j => ploop_e_polls body k items j c w s) as P.
    destruct (ploop_e body k items c w s) as [s' c' w'|w'|e w']; cbn [pres_wdog] in *.
    - destruct F as [F _]. split; [exact F|]. split; [congruence|]. split; [lia|].
      intros j Hj Hp. specialize (P j ltac:(congruence)). specialize (H3 j Hj Hp). lia.
    - split; [|split; [lia|]].
      + intros E. apply Nv. congruence.
      + intros j Hj Hp. specialize (P j ltac:(congruence)). specialize (H3 j Hj Hp). rewrite P. rewrite N.max_r by lia. reflexivity.
    - split; [exact F|]. split; [congruence|]. split; [lia|].
      intros j Hj Hp. specialize (P j ltac:(congruence)). specialize (H3 j Hj Hp). lia.
  Qed.

  Lemma unify_step k fuel st w : Wd w ->
    match unify_polled mode k fuel st w with
    | UDone s' n' _ w' => ures_res (unify fuel (orders_of mode) st) = inl (s', n') /\ Wd w'
    | UFail e w' => ures_res (unify fuel (orders_of mode) st) = inr e /\ Wd w'
    | UStop w' => Wstop w'
    end.
  Proof.
    intros (H1 & H2 & H3). pose proof (unify_polled_spec mode k fuel st w) as F.
    assert (G : let r := unify_polled mode k fuel st w in
                stop_from (unify_out_wdog r) = stop_from w /\ polls w <= polls (unify_out_wdog r) /\
                (stop_from w = None -> match r with UStop _ => False | _ => True end) /\
                (forall j, stop_from w = Some j ->
                   match r with
                   | UStop w' => polls w' = N.max (polls w) j + 1
                   | UFail _ w' | UDone _ _ _ w' => polls w' = polls w \/ (polls w <= polls w' /\ polls w' <= j)
                   end)).
    { unfold unify_polled. destruct (ures_res (init_forest ds_forest (orders_of mode) st)) as [s0|e].
      - apply unify_rounds_wdog.
      - cbn. repeat split; auto; lia. }
    cbv zeta in G. destruct G as (S & M & Nv & P).
    destruct (unify_polled mode k fuel st w) as [w'|e w'|s' n' c' w']; cbn [unify_out_wdog] in *.
    - split; [|split; [lia|]].
      + intros E. apply Nv. congruence.
      + intros j Hj Hp. specialize (P j ltac:(congruence)). specialize (H3 j Hj Hp). rewrite P. rewrite N.max_r by lia. reflexivity.
    - split; [exact F|]. split; [congruence|]. split; [lia|].
      intros j Hj Hp. specialize (P j ltac:(congruence)). specialize (H3 j Hj Hp). lia.
    - split; [exact F|]. split; [congruence|]. split; [lia|].
      intros j Hj Hp. specialize (P j ltac:(congruence)). specialize (H3 j Hj Hp). lia.
  Qed.

  (* what a trace that ends with watchdog `w` and result `r` must satisfy *)
  Definition Good (plain : pipeline_result) (p : N) (r : pipeline_result) : Prop :=
    (r = plain \/ exists st, r = PErrStopped st) /\
    (stop_at lim = None -> r = plain) /\
    polls0 <= p /\
    (forall j, stop_at lim = Some j -> polls0 <= j ->
       (r = plain /\ p <= j) \/ ((exists st, r = PErrStopped st) /\ p = j + 1)).

  Lemma Good_plain plain w : Wd w -> Good plain (polls w) plain.
  Proof. intros (H1 & H2 & H3). repeat split; auto. Qed.
  Lemma Good_stop plain w st : Wstop w -> Good plain (polls w) (PErrStopped st).
  Proof.
    intros (H1 & H2 & H3). repeat split; auto.
    - right. eexists. reflexivity.
    - intros E. contradiction.
    - intros j Hj Hp. right. split; [eexists; reflexivity|exact (H3 j Hj Hp)].
  Qed.

  (* the type checker with the watchdog: the unmonitored result, or a watchdog stop; with the poll accounting *)
  Theorem analyze_tc_spec det stored :
    let tr := analyze_tc keccak table mode fu lim det stored polls0 in
    Good (analyze_plain keccak table mode fu stored) (t_polls tr) (t_result tr).
  Proof.
    unfold analyze_tc, analyze_plain. cbv zeta.
    set (values := unique (all_values mode stored)).
    pose proof (stage_step (lift_body keccak table) (poll_every lim) values 0 _ ([], false) Wd_init) as S1.
    destruct (ploop_e (lift_body keccak table) (poll_every lim) values 0 (mk_wdog polls0 (stop_at lim)) ([], false)) as [[acc failed] c1 w1|w1|e w1].
    2: { cbn [t_polls t_result]. apply Good_stop. exact S1. }
    2: { destruct S1 as [F W]. rewrite F. cbn [t_polls t_result]. apply Good_plain. exact W. }
    destruct S1 as [F1 W1]. rewrite F1. destruct failed; [cbn [t_polls t_result]; apply Good_plain; exact W1|].
    pose proof (stage_step reg_body (poll_every lim) (rev acc) 0 w1 empty_tcs W1) as S2.
    destruct (ploop_e reg_body (poll_every lim) (rev acc) 0 w1 empty_tcs) as [st c2 w2|w2|e w2].
    2: { cbn [t_polls t_result]. apply Good_stop. exact S2. }
    2: { destruct S2 as [F W]. rewrite F. cbn [t_polls t_result]. apply Good_plain. exact W. }
    destruct S2 as [F2 W2]. rewrite F2.
    pose proof (stage_step (infer_body mode) (poll_every lim) (tc_values mode (Register.values st)) 0 w2 st W2) as S3.
    destruct (ploop_e (infer_body mode) (poll_every lim) (tc_values mode (Register.values st)) 0 w2 st) as [st' c3 w3|w3|e w3].
    2: { cbn [t_polls t_result]. apply Good_stop. exact S3. }
    2: { destruct S3 as [F W]. rewrite F. cbn [t_polls t_result]. apply Good_plain. exact W. }
    destruct S3 as [F3 W3]. rewrite F3.
    pose proof (unify_step (poll_every lim) (f_rounds fu) (tstate_of st') w3 W3) as S4.
    destruct (unify_polled mode (poll_every lim) (f_rounds fu) (tstate_of st') w3) as [w4|e w4|s n c4 w4].
    1: { cbn [t_polls t_result]. apply Good_stop. exact S4. }
    1: { destruct S4 as [F W]. rewrite F. cbn [t_polls t_result]. apply Good_plain. exact W. }
    destruct S4 as [F4 W4]. rewrite F4.
    set (slots := filter is_const_slot (tc_values mode (Register.values st' ++ synthetic_values (next st') n))).
    pose proof (stage_step (layout_body (env_of_forest s n) (S (N.to_nat n))) (poll_every lim) slots 0 w4 [] W4) as S5.
    destruct (ploop_e (layout_body (env_of_forest s n) (S (N.to_nat n))) (poll_every lim) slots 0 w4 []) as [l c5 w5|w5|e w5].
    - destruct S5 as [F W]. rewrite F. cbn [t_polls t_result]. apply Good_plain. exact W.
    - cbn [t_polls t_result]. apply Good_stop. exact S5.
    - destruct S5 as [F W]. rewrite F. cbn [t_polls t_result]. apply Good_plain. exact W.
  Qed.
End Whole.
