(* C07 simulation, part 3: what the opcode bodies do.
   - generic lemmas about `run_mops` on the micro-program SHAPES the translator produces;
   - `classify`: the hand-written statement of which EVM instruction each opcode of the fragment is
     (byte, constructor, Yellow-Paper function), and `kind_ok`, the table fact that ties it to the
     REGENERATED `op_sem` / `op_byte` and to the dispatch of the reference EVM -- re-established by
     computation on every run, so a changed `execute` body breaks it. *)
From SLX Require Import Base gen.Constants gen.ValueSig gen.OpcodeTable SymVal Micro gen.OpcodeSem Disasm
                        Word256 EvmSpec KnownWord Fold Evm VM Sim SimGuards.
From SLX Require Import proofs.DisasmProofs proofs.Word256Proofs proofs.FoldProofs proofs.VmSimBase proofs.VmSimRel.
Open Scope N_scope.
Set Default Timeout 120.

(* ---- shapes ---- *)
Definition bin_shape (t : tag) : list mop := [MPop 0 false; MPop 1 false; MBuild 2 t [0; 1]; MPush 2].
Definition un_shape (t : tag) : list mop := [MPop 0 false; MBuild 1 t [0]; MPush 1].
Definition pop_shape : list mop := [MPop 0 false; MRecord 0].
Definition mstore_shape : list mop := [MPop 0 false; MPop 1 false; MMemStore 0 1].
Definition mload_shape : list mop := [MPop 0 false; MMemLoad 1 0; MPush 1].
Definition sload_shape : list mop := [MPop 0 false; MSLoad 1 0 true; MPush 1].
Definition sstore_shape : list mop := [MPop 0 false; MPop 1 false; MSStore 0 1].
(* RETURN / REVERT and SELFDESTRUCT: pop, (load the returned slice,) record the halting value, end the path *)
Definition halt2_shape (t : tag) : list mop := [MPop 0 false; MPop 1 false; MLoadSlice 2 0 1; MBuild 3 t [2]; MRecord 3; MKill].
(* an environment read: a childless node is built and pushed *)
Definition env_shape (t : tag) : list mop := [MBuild 0 t []; MPush 0].
Definition selfdestruct_shape : list mop := [MPop 0 false; MBuild 1 T_SelfDestruct [0]; MRecord 1; MKill].

Section Shapes.
Variable fold : sv -> sv.
Variable cfg : limits.
Variable ie : ienv.

Lemma build_fit c v : fits cfg v = true -> build_exec cfg c v = (v, ctx_id c (o_id c)).
Proof.
  unfold fits, build_exec, build_limited. intros H. apply N.leb_le in H.
  destruct (size_limit cfg <? node_count v) eqn:E; [apply N.ltb_lt in E; lia|reflexivity].
Qed.

Lemma push_ok s v : (length s < 1024)%nat -> stack_push s v = Some (v :: s).
Proof.
  intros H. unfold stack_push, MAXIMUM_STACK_DEPTH.
  destruct (1024 <? N.of_nat (length s) + 1) eqn:E; [apply N.ltb_lt in E; lia|reflexivity].
Qed.

Ltac unf := cbn [run_mops run_mop ctx_st ctx_id env_set env_get with_stack with_recorded o_st o_env o_id o_kill o_polls stack
                 map alookup N.eqb Pos.eqb].

Ltac unf2 := cbn [run_mops run_mop]; cbv [env_get env_set ctx_st ctx_id o_env o_st o_id o_kill o_polls alookup N.eqb Pos.eqb].

Lemma run_bin t c a b s :
  stack (o_st c) = a :: b :: s -> fits cfg (Node t [] [a; b]) = true -> (length s < 1024)%nat ->
  exists c', run_mops fold cfg ie (bin_shape t) c = (c', None)
             /\ o_st c' = with_stack (o_st c) (Node t [] [a; b] :: s) /\ o_kill c' = o_kill c.
Proof.
  intros Hs Hf Hd. destruct c as [env st id kill polls]. cbn [o_st o_kill] in *.
  unfold bin_shape. unf. rewrite Hs. unf. rewrite build_fit by exact Hf. unf. rewrite (push_ok s _ Hd).
  eexists. split; [reflexivity|]. destruct st; cbn. split; reflexivity.
Qed.

Lemma run_un t c a s :
  stack (o_st c) = a :: s -> fits cfg (Node t [] [a]) = true -> (length s < 1024)%nat ->
  exists c', run_mops fold cfg ie (un_shape t) c = (c', None)
             /\ o_st c' = with_stack (o_st c) (Node t [] [a] :: s) /\ o_kill c' = o_kill c.
Proof.
  intros Hs Hf Hd. destruct c as [env st id kill polls]. cbn [o_st o_kill] in *.
  unfold un_shape. unf. rewrite Hs. unf. rewrite build_fit by exact Hf. unf. rewrite (push_ok s _ Hd).
  eexists. split; [reflexivity|]. destruct st; cbn. split; reflexivity.
Qed.

(* push-constant shape: PUSH0, PUSHn, PC, CODESIZE *)
Definition const_val (m : mop) : option N :=
  match m with
  | MConst 0 w => Some w | MConstIp 0 => Some (i_ip ie) | MConstCodeSize 0 => Some (i_code_len ie)
  | MConstSelfWord 0 => Some (i_self_word ie) | _ => None end.

Lemma run_const m w c :
  const_val m = Some w -> fits cfg (Known w) = true -> (length (stack (o_st c)) < 1024)%nat ->
  exists c', run_mops fold cfg ie [m; MPush 0] c = (c', None)
             /\ o_st c' = with_stack (o_st c) (Known w :: stack (o_st c)) /\ o_kill c' = o_kill c.
Proof.
  intros Hm Hf Hd. destruct c as [env st id kill polls]. cbn [o_st o_kill] in *.
  destruct m; try discriminate Hm; destruct x; try discriminate Hm; cbn [const_val] in Hm; injection Hm as <-;
    unf; rewrite build_fit by exact Hf; unf; rewrite (push_ok _ _ Hd);
    (eexists; split; [reflexivity|]; destruct st; cbn; split; reflexivity).
Qed.

Lemma run_env t c :
  fits cfg (Node t [] []) = true -> (length (stack (o_st c)) < 1024)%nat ->
  exists c', run_mops fold cfg ie (env_shape t) c = (c', None)
             /\ o_st c' = with_stack (o_st c) (Node t [] [] :: stack (o_st c)) /\ o_kill c' = o_kill c.
Proof.
  intros Hf Hd. destruct c as [env st id kill polls]. cbn [o_st o_kill] in *.
  unfold env_shape. unf. rewrite build_fit by exact Hf. unf. rewrite (push_ok _ _ Hd).
  eexists. split; [reflexivity|]. destruct st; cbn. split; reflexivity.
Qed.

Lemma run_pop c a s :
  stack (o_st c) = a :: s ->
  exists c', run_mops fold cfg ie pop_shape c = (c', None)
             /\ o_st c' = with_recorded (with_stack (o_st c) s) a /\ o_kill c' = o_kill c.
Proof.
  intros Hs. destruct c as [env st id kill polls]. cbn [o_st o_kill] in *.
  unfold pop_shape. unf. rewrite Hs. unf.
  eexists. split; [reflexivity|]. destruct st; cbn. split; reflexivity.
Qed.

Lemma run_nil c : run_mops fold cfg ie [] c = (c, None).
Proof. reflexivity. Qed.

Lemma run_kill c :
  exists c', run_mops fold cfg ie [MKill] c = (c', None) /\ o_st c' = o_st c /\ o_kill c' = true.
Proof. eexists. split; [reflexivity|]. split; reflexivity. Qed.

Lemma run_mstore c a b s :
  stack (o_st c) = a :: b :: s ->
  exists c', run_mops fold cfg ie mstore_shape c = (c', None)
             /\ o_st c' = mem_store fold (with_stack (o_st c) s) a b false /\ o_kill c' = o_kill c.
Proof.
  intros Hs. destruct c as [env st id kill polls]. cbn [o_st o_kill] in *.
  unfold mstore_shape. unf. rewrite Hs. unf.
  eexists. split; [reflexivity|]. destruct st; cbn. split; reflexivity.
Qed.

Lemma run_sstore c a b s :
  stack (o_st c) = a :: b :: s ->
  exists c', run_mops fold cfg ie sstore_shape c = (c', None)
             /\ o_st c' = sto_store (with_stack (o_st c) s) a b /\ o_kill c' = o_kill c.
Proof.
  intros Hs. destruct c as [env st id kill polls]. cbn [o_st o_kill] in *.
  unfold sstore_shape. unf. rewrite Hs. unf.
  eexists. split; [reflexivity|]. destruct st; cbn. split; reflexivity.
Qed.

Lemma run_mload c a s v st1 :
  stack (o_st c) = a :: s -> mem_load fold (with_stack (o_st c) s) a = (v, st1) -> stack st1 = s -> (length s < 1024)%nat ->
  exists c', run_mops fold cfg ie mload_shape c = (c', None)
             /\ o_st c' = with_stack st1 (v :: s) /\ o_kill c' = o_kill c.
Proof.
  intros Hs Hl Hs1 Hd. destruct c as [env st id kill polls]. cbn [o_st o_kill] in *.
  unfold mload_shape. unf2. rewrite Hs. unf2. rewrite Hl. unf2. rewrite Hs1, (push_ok s _ Hd).
  eexists. split; [reflexivity|]. split; reflexivity.
Qed.

Lemma run_sload c a s v st1 n :
  stack (o_st c) = a :: s ->
  sto_load (Some (size_limit cfg)) (o_id c) (with_stack (o_st c) s) a = (v, st1, n) -> stack st1 = s -> (length s < 1024)%nat ->
  exists c', run_mops fold cfg ie sload_shape c = (c', None)
             /\ o_st c' = with_stack st1 (v :: s) /\ o_kill c' = o_kill c.
Proof.
  intros Hs Hl Hs1 Hd. destruct c as [env st id kill polls]. cbn [o_st o_kill o_id] in *.
  unfold sload_shape. unf2. rewrite Hs. unf2. rewrite Hl. unf2. rewrite Hs1, (push_ok s _ Hd).
  eexists. split; [reflexivity|]. split; reflexivity.
Qed.

(* DUPn, for every n *)
Lemma run_dup c n :
  i_self_n ie = n -> 1 <= n -> (N.to_nat n <= length (stack (o_st c)))%nat -> (length (stack (o_st c)) < 1024)%nat ->
  exists c', run_mops fold cfg ie [MDupSelf true] c = (c', None)
             /\ o_st c' = with_stack (o_st c) (nth (N.to_nat (n - 1)) (stack (o_st c)) (Val 0) :: stack (o_st c))
             /\ o_kill c' = o_kill c.
Proof.
  intros Hn H1 Hl Hd. destruct c as [env st id kill polls]. cbn [o_st o_kill] in *.
  unf. rewrite Hn.
  destruct (N.of_nat (length (stack st)) <=? n - 1) eqn:E; [apply N.leb_le in E; lia|].
  rewrite (push_ok _ _ Hd). eexists. split; [reflexivity|]. split; reflexivity.
Qed.

(* SWAPn, for every n *)
Lemma swap_nth_some k : forall top (rest : list sv), (k < length rest)%nat -> exists o rest', swap_nth k top rest = Some (o, rest').
Proof.
  induction k as [|k IH]; intros top [|x rest] H; cbn [length] in H; try lia; cbn [swap_nth]; [eauto|].
  destruct (IH top rest ltac:(lia)) as (o & rest' & ->). eauto.
Qed.

Lemma run_swap c n top rest o rest' :
  i_self_n ie = n -> 1 <= n -> stack (o_st c) = top :: rest -> swap_nth (N.to_nat (n - 1)) top rest = Some (o, rest') ->
  (N.to_nat n <= length rest)%nat ->
  exists c', run_mops fold cfg ie [MSwapSelf] c = (c', None)
             /\ o_st c' = with_stack (o_st c) (o :: rest') /\ o_kill c' = o_kill c.
Proof.
  intros Hn H1 Hs Hw Hl. destruct c as [env st id kill polls]. cbn [o_st o_kill] in *.
  unf. rewrite Hn, Hs.
  destruct (N.of_nat (length rest) + 1 <=? n) eqn:E; [apply N.leb_le in E; lia|].
  destruct n as [|p]; [lia|]. rewrite Hw. eexists. split; [reflexivity|]. split; reflexivity.
Qed.

(* compositional reading of a micro-program, for the bodies whose intermediate results do not matter *)
Lemma run_mops_step m ms c c' : run_mop fold cfg ie m c = (c', None) -> run_mops fold cfg ie (m :: ms) c = run_mops fold cfg ie ms c'.
Proof. intros H. cbn [run_mops]. now rewrite H. Qed.
Lemma mop_pop c x v s : stack (o_st c) = v :: s ->
  run_mop fold cfg ie (MPop x false) c = (env_set (ctx_st c (with_stack (o_st c) s)) x v, None).
Proof. intros H. cbn [run_mop]. now rewrite H. Qed.
Lemma mop_loadslice c x a b v st' : mem_load_slice fold (mem_limit cfg) (o_st c) (env_get c a) (env_get c b) = (v, st') ->
  run_mop fold cfg ie (MLoadSlice x a b) c = (env_set (ctx_st c st') x v, None).
Proof. intros H. cbn [run_mop]. now rewrite H. Qed.
Lemma mop_build c x t args : exists r n, run_mop fold cfg ie (MBuild x t args) c = (env_set (ctx_id c n) x r, None).
Proof. cbn [run_mop]. unfold build_exec. destruct (build_limited _ _ _) as [r n]. eauto. Qed.
Lemma env_get_same c x v : env_get (env_set c x v) x = v.
Proof. unfold env_get, env_set. cbn [o_env alookup]. now rewrite N.eqb_refl. Qed.

Lemma run_halt2 t c a b s :
  stack (o_st c) = a :: b :: s ->
  exists c' v st1 rv, mem_load_slice fold (mem_limit cfg) (with_stack (o_st c) s) a b = (v, st1)
     /\ run_mops fold cfg ie (halt2_shape t) c = (c', None) /\ o_st c' = with_recorded st1 rv /\ o_kill c' = true.
Proof.
  intros Hs. unfold halt2_shape.
  rewrite (run_mops_step _ _ _ _ (mop_pop c 0 a (b :: s) Hs)).
  set (c1 := env_set (ctx_st c (with_stack (o_st c) (b :: s))) 0 a).
  assert (Hs1 : stack (o_st c1) = b :: s) by reflexivity.
  rewrite (run_mops_step _ _ _ _ (mop_pop c1 1 b s Hs1)).
  set (c2 := env_set (ctx_st c1 (with_stack (o_st c1) s)) 1 b).
  destruct (mem_load_slice fold (mem_limit cfg) (with_stack (o_st c) s) a b) as [v st1] eqn:El.
  assert (El2 : mem_load_slice fold (mem_limit cfg) (o_st c2) (env_get c2 0) (env_get c2 1) = (v, st1)).
  { rewrite <- El. destruct c as [env st id kill polls]. destruct st. reflexivity. }
  rewrite (run_mops_step _ _ _ _ (mop_loadslice c2 2 0 1 v st1 El2)).
  set (c3 := env_set (ctx_st c2 st1) 2 v).
  destruct (mop_build c3 3 t [2]) as (r & n & Hb). rewrite (run_mops_step _ _ _ _ Hb).
  exists (mk_octx (o_env (env_set (ctx_id c3 n) 3 r)) (with_recorded st1 r) n true (o_polls c)), v, st1, r.
  split; [reflexivity|]. split; [|split; reflexivity].
  cbn [run_mops run_mop]. rewrite env_get_same. reflexivity.
Qed.

Lemma run_selfdestruct c a s :
  stack (o_st c) = a :: s ->
  exists c' rv, run_mops fold cfg ie selfdestruct_shape c = (c', None)
                /\ o_st c' = with_recorded (with_stack (o_st c) s) rv /\ o_kill c' = true.
Proof.
  intros Hs. unfold selfdestruct_shape.
  rewrite (run_mops_step _ _ _ _ (mop_pop c 0 a s Hs)).
  set (c1 := env_set (ctx_st c (with_stack (o_st c) s)) 0 a).
  destruct (mop_build c1 1 T_SelfDestruct [0]) as (r & n & Hb). rewrite (run_mops_step _ _ _ _ Hb).
  exists (mk_octx (o_env (env_set (ctx_id c1 n) 1 r)) (with_recorded (with_stack (o_st c) s) r) n true (o_polls c)), r.
  split; [|split; reflexivity].
  cbn [run_mops run_mop]. rewrite env_get_same. reflexivity.
Qed.

End Shapes.

(* ---- the fragment: `classify` (SimGuards.v) says which EVM instruction each opcode is ---- *)
(* the table fact of one opcode *)
Definition kind_ok (o : opname) : Prop :=
  match classify o with
  | KBin t b f =>
      op_sem o = Some (bin_shape t) /\ op_byte o = b
      /\ (forall x y, den (Node t [] [x; y]) = lift2 f (den x) (den y))
      /\ (forall bytes br e, byte_at bytes (e_pc e) = Some b -> estep bytes br e = binop e f)
      /\ t <> T_KnownData /\ t <> T_UnwrittenStorageValue /\ b <> 87
  | KUn t b f =>
      op_sem o = Some (un_shape t) /\ op_byte o = b
      /\ (forall x, den (Node t [] [x]) = lift1 f (den x))
      /\ (forall bytes br e, byte_at bytes (e_pc e) = Some b -> estep bytes br e = unop e f)
      /\ t <> T_KnownData /\ t <> T_UnwrittenStorageValue /\ b <> 87
  | KPop => op_sem o = Some pop_shape /\ op_byte o = 80
  | KPc => op_sem o = Some [MConstIp 0; MPush 0] /\ op_byte o = 88
  | KCodeSize => op_sem o = Some [MConstCodeSize 0; MPush 0] /\ op_byte o = 56
  | KPush0 => op_sem o = Some [MConst 0 0; MPush 0] /\ op_byte o = 95
  | KJumpDest => op_sem o = Some [] /\ op_byte o = 91
  | KStop => op_sem o = Some [MKill] /\ op_byte o = 0
  | KMStore => op_sem o = Some mstore_shape /\ op_byte o = 82
  | KMLoad => op_sem o = Some mload_shape /\ op_byte o = 81
  | KSLoad => op_sem o = Some sload_shape /\ op_byte o = 84
  | KSStore => op_sem o = Some sstore_shape /\ op_byte o = 85
  | KJump => op_sem o = None /\ o = control_Jump /\ op_byte o = 86
  | KJumpI => op_sem o = None /\ o = control_JumpI /\ op_byte o = 87
  | KHalt2 t b =>
      op_sem o = Some (halt2_shape t) /\ op_byte o = b /\ b <> 87
      /\ (forall bytes br e, byte_at bytes (e_pc e) = Some b ->
           estep bytes br e = match e_stack e with _ :: _ :: r => EHalt (with_pc_stack e (e_pc e) r) | _ => EFault e end)
  | KSelfDestruct =>
      op_sem o = Some selfdestruct_shape /\ op_byte o = 255
      /\ (forall bytes br e, byte_at bytes (e_pc e) = Some 255 ->
           estep bytes br e = match e_stack e with _ :: r => EHalt (with_pc_stack e (e_pc e) r) | _ => EFault e end)
  | KEnv t b =>
      op_sem o = Some (env_shape t) /\ op_byte o = b /\ b <> 87 /\ den (Node t [] []) = None
      /\ t <> T_KnownData /\ t <> T_UnwrittenStorageValue
      /\ (forall bytes br e, byte_at bytes (e_pc e) = Some b ->
           estep bytes br e = if 1024 <? N.of_nat (length (None :: e_stack e)) then EFault e
                              else ENext (with_pc_stack e (e_pc e + 1) (None :: e_stack e)))
  | KOther => True
  end.

Ltac estep_row := intros bytes br e Hb; unfold estep; rewrite Hb; reflexivity.

(* established by computation on the generated tables *)
Lemma table_fact : forall o, kind_ok o.
Proof.
  intros o. unfold kind_ok.
  destruct o; cbn [classify]; try exact I;
    repeat match goal with
           | |- _ /\ _ => split
           | |- _ = _ => reflexivity
           | |- _ <> _ => discriminate
           | |- forall x y, den _ = _ => intros; reflexivity
           | |- forall x, den _ = _ => intros; reflexivity
           | |- forall bytes br e, _ -> estep _ _ _ = _ => estep_row
           end.
Qed.

Lemma pushn_sem_shape : pushn_sem = [MConstSelfWord 0; MPush 0]. Proof. reflexivity. Qed.
Lemma dupn_sem_shape : dupn_sem = [MDupSelf true]. Proof. reflexivity. Qed.
Lemma swapn_sem_shape : swapn_sem = [MSwapSelf]. Proof. reflexivity. Qed.
Lemma nop_sem_shape : nop_sem = []. Proof. reflexivity. Qed.
