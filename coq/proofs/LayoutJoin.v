(* C15 through the layout: the row reported for a constant slot whose class carries word evidence IS the lattice join.

   unify_words_join_proof (UnifyProofs.v) resolves a packed-free class whose evidence is words to the join of ALL that evidence;
   abi_word_reported (AbiProofs.v) turns a resolved word into its ABI type.  Composed over the layout loop: for every iteration
   order and fuel, the layout built for a constant-slot value x after unification is the single row
   (slot index, bit 0, word_abi (join)) -- the known width and the most specific usage are what the user sees -- and when the
   join does not exist the row is a conflicted type, never a silent choice of one side. *)
From Coq Require Import String Permutation.
From SLX Require Import Base VectorMap DisjointSet gen.Constants gen.WordUseTable gen.RulesSig gen.LayoutKey TypeExpr Merge Unify Register
  AbiT Layout Abi Pipeline.
From SLX.proofs Require Import LayoutProofs UnifyProofs AbiProofs.
Open Scope N_scope.

Lemma type_of_forest s n v s' e : v < n -> ds_get_data iset s v = Ok (s', Some [e]) -> Abi.type_of (env_of_forest s n) v = Ok e.
Proof.
  intros Hv Hg. unfold Abi.type_of. cbn [env_of_forest ty_data has_expr]. rewrite (proj2 (N.ltb_lt _ _) Hv), Hg. reflexivity.
Qed.

Lemma layout_add_single e : layout_add [] e = [e].
Proof. unfold layout_add. cbn [app]. reflexivity. Qed.

Theorem layout_reports_join_proof fuel o st s n x index w l j t afuel :
  orders_ok o -> packed_free st = true -> unify fuel o st = Ok (s, n) ->
  (forall e, In e (class_evidence_of st s (tv_of x)) -> is_word e || is_any e = true) ->
  words_of (class_evidence_of st s (tv_of x)) = w :: l -> wordev_join_all w l = Some j ->
  const_slot_key x = Some index -> tv_of x < n ->
  word_abi (word_of j) (fst j) (snd j) = Ok t ->
  build_layout abi_nested_add abi_nested_fit (env_of_forest s n) (S afuel) [x] [] = Ok [(index, 0, t)].
Proof.
  intros Ho Hpf Hu Hw Ew Ej Hk Hv Ht.
  destruct (unify_words_join_proof fuel o st s n (tv_of x) Ho Hpf Hu Hw) as (s' & d & Hg & Hd).
  unfold resolves_to_join in Hd. rewrite Ew, Ej in Hd. subst d.
  pose proof (type_of_forest s n (tv_of x) s' (word_of j) Hv Hg) as T. unfold word_of in T.
  assert (He : has_expr (env_of_forest s n) (tv_of x) = true) by (cbn [env_of_forest has_expr]; apply N.ltb_lt; exact Hv).
  cbn [build_layout]. rewrite Hk. unfold abi_type_for.
  rewrite (abi_word_reported abi_nested_add abi_nested_fit (env_of_forest s n) afuel (tv_of x) [] PNone (fst j) (snd j) t T He Ht).
  cbn [rows_of fold_left]. rewrite layout_add_single. reflexivity.
Qed.

(* contradictory word evidence: the row is a conflicted type *)
Theorem layout_reports_conflict_proof fuel o st s n x index w l afuel :
  orders_ok o -> packed_free st = true -> unify fuel o st = Ok (s, n) ->
  (forall e, In e (class_evidence_of st s (tv_of x)) -> is_word e || is_any e = true) ->
  words_of (class_evidence_of st s (tv_of x)) = w :: l -> wordev_join_all w l = None ->
  const_slot_key x = Some index -> tv_of x < n ->
  build_layout abi_nested_add abi_nested_fit (env_of_forest s n) (S afuel) [x] [] = Ok [(index, 0, a_conflict)].
Proof.
  intros Ho Hpf Hu Hw Ew Ej Hk Hv.
  destruct (unify_words_join_proof fuel o st s n (tv_of x) Ho Hpf Hu Hw) as (s' & d & Hg & Hd).
  unfold resolves_to_join in Hd. rewrite Ew, Ej in Hd. destruct Hd as (c & -> & Hc).
  destruct c as [| | | | | | | |cs rs]; try discriminate Hc.
  pose proof (type_of_forest s n (tv_of x) s' (Conflict cs rs) Hv Hg) as T.
  assert (He : has_expr (env_of_forest s n) (tv_of x) = true) by (cbn [env_of_forest has_expr]; apply N.ltb_lt; exact Hv).
  cbn [build_layout]. rewrite Hk. unfold abi_type_for. cbn [abi_impl]. rewrite T. cbn [is_type_constructor].
  rewrite andb_false_r, seen_insert_on, He. cbn [negb rows_of fold_left]. rewrite layout_add_single. reflexivity.
Qed.
