(* C07 simulation: the dispatch of the reference EVM by opcode byte (one lemma per byte or range of bytes;
   ranges are enumerated for the DISPATCH only -- the semantics stay generic in n). *)
From SLX Require Import Base Word256 EvmSpec Evm.
Open Scope N_scope.
Set Default Timeout 300.

(* ---- dispatch of the reference EVM, by opcode byte ---- *)
Ltac estep_at := intros H; unfold estep; rewrite H; reflexivity.

Lemma estep_stop bs br e : byte_at bs (e_pc e) = Some 0 -> estep bs br e = EHalt e. Proof. estep_at. Qed.
Lemma estep_invalid bs br e : byte_at bs (e_pc e) = Some 254 -> estep bs br e = EHalt e. Proof. estep_at. Qed.
Lemma estep_pop bs br e : byte_at bs (e_pc e) = Some 80 ->
  estep bs br e = match e_stack e with _ :: r => ENext (with_pc_stack e (e_pc e + 1) r) | [] => EFault e end.
Proof. estep_at. Qed.
Lemma estep_mload bs br e : byte_at bs (e_pc e) = Some 81 ->
  estep bs br e = match e_stack e with
        | Some o :: r =>
            if (o mod 32 =? 0) && (o <? two64) then
              ENext (with_pc_stack e (e_pc e + 1) (match alist_get o (e_mem e) with Some v => v | None => Some 0 end :: r))
            else EBeyond e
        | None :: _ => EBeyond e
        | [] => EFault e
        end.
Proof. estep_at. Qed.
Lemma estep_mstore bs br e : byte_at bs (e_pc e) = Some 82 ->
  estep bs br e = match e_stack e with
        | Some o :: v :: r =>
            if (o mod 32 =? 0) && (o <? two64) then
              ENext (mk_estate (e_pc e + 1) r (alist_set o v (e_mem e)) (e_sto e) (e_hist e))
            else EBeyond e
        | None :: _ :: _ => EBeyond e
        | _ => EFault e
        end.
Proof. estep_at. Qed.
Lemma estep_sload bs br e : byte_at bs (e_pc e) = Some 84 ->
  estep bs br e = match e_stack e with
        | Some k :: r => ENext (with_pc_stack e (e_pc e + 1) (match alist_get k (e_sto e) with Some v => v | None => Some 0 end :: r))
        | None :: _ => EBeyond e
        | [] => EFault e
        end.
Proof. estep_at. Qed.
Lemma estep_sstore bs br e : byte_at bs (e_pc e) = Some 85 ->
  estep bs br e = match e_stack e with
        | Some k :: v :: r => ENext (mk_estate (e_pc e + 1) r (e_mem e) (alist_set k v (e_sto e)) (e_hist e ++ [(k, v)]))
        | None :: _ :: _ => EBeyond e
        | _ => EFault e
        end.
Proof. estep_at. Qed.
Lemma estep_jump bs br e : byte_at bs (e_pc e) = Some 86 ->
  estep bs br e = match e_stack e with
        | Some t :: r => if valid_dest bs t then ENext (with_pc_stack e t r) else EFault (with_pc_stack e (e_pc e) r)
        | None :: _ => EBeyond e
        | [] => EFault e
        end.
Proof. estep_at. Qed.
Lemma estep_jumpi bs br e : byte_at bs (e_pc e) = Some 87 ->
  estep bs br e = match e_stack e with
        | t :: _ :: r =>
            if br then
              match t with
              | Some t' => if valid_dest bs t' then ENext (with_pc_stack e t' r) else EFault (with_pc_stack e (e_pc e) r)
              | None => EBeyond e
              end
            else ENext (with_pc_stack e (e_pc e + 1) r)
        | _ => EFault e
        end.
Proof. estep_at. Qed.
Lemma estep_pc bs br e : byte_at bs (e_pc e) = Some 88 -> estep bs br e = push_val e (Some (e_pc e)) (e_pc e + 1).
Proof. estep_at. Qed.
Lemma estep_codesize bs br e : byte_at bs (e_pc e) = Some 56 ->
  estep bs br e = push_val e (Some (N.of_nat (length bs))) (e_pc e + 1).
Proof. estep_at. Qed.
Lemma estep_jumpdest bs br e : byte_at bs (e_pc e) = Some 91 -> estep bs br e = ENext (with_pc_stack e (e_pc e + 1) (e_stack e)).
Proof. estep_at. Qed.
Lemma estep_push0 bs br e : byte_at bs (e_pc e) = Some 95 -> estep bs br e = push_val e (Some 0) (e_pc e + 1).
Proof. estep_at. Qed.

(* ranges of bytes: the dispatch is by enumeration of the byte, the semantics are generic in n *)
Lemma cases16 (P : N -> Prop) : P 0 -> P 1 -> P 2 -> P 3 -> P 4 -> P 5 -> P 6 -> P 7 -> P 8 -> P 9 -> P 10 -> P 11 -> P 12 -> P 13 -> P 14 -> P 15 -> forall k, k < 16 -> P k.
Proof.
  intros H0 H1 H2 H3 H4 H5 H6 H7 H8 H9 H10 H11 H12 H13 H14 H15 k Hk.
  repeat match goal with H : P ?v |- _ => destruct (N.eq_dec k v) as [->|?]; [exact H|clear H] end. lia.
Qed.
Lemma cases32 (P : N -> Prop) : P 0 -> P 1 -> P 2 -> P 3 -> P 4 -> P 5 -> P 6 -> P 7 -> P 8 -> P 9 -> P 10 -> P 11 -> P 12 -> P 13 -> P 14 -> P 15 -> P 16 -> P 17 -> P 18 -> P 19 -> P 20 -> P 21 -> P 22 -> P 23 -> P 24 -> P 25 -> P 26 -> P 27 -> P 28 -> P 29 -> P 30 -> P 31 -> forall k, k < 32 -> P k.
Proof.
  intros H0 H1 H2 H3 H4 H5 H6 H7 H8 H9 H10 H11 H12 H13 H14 H15 H16 H17 H18 H19 H20 H21 H22 H23 H24 H25 H26 H27 H28 H29 H30 H31 k Hk.
  repeat match goal with H : P ?v |- _ => destruct (N.eq_dec k v) as [->|?]; [exact H|clear H] end. lia.
Qed.

Lemma estep_push bs br e b : byte_at bs (e_pc e) = Some b -> 96 <= b <= 127 ->
  estep bs br e = push_val e (Some (push_data bs (e_pc e) (b - 95))) (e_pc e + 1 + (b - 95)).
Proof.
  intros Hb Hr. assert (Hk : b - 96 < 32) by lia.
  replace b with (96 + (b - 96)) in Hb |- * by lia. revert Hk Hb. generalize (b - 96) as k. clear Hr b.
  intros k Hk Hb. unfold estep. rewrite Hb. clear Hb. pattern k. revert k Hk.
  apply cases32; reflexivity.
Qed.

Lemma estep_dup bs br e b : byte_at bs (e_pc e) = Some b -> 128 <= b <= 143 ->
  estep bs br e = match nth_error (e_stack e) (N.to_nat (b - 128)) with
                  | Some v => push_val e v (e_pc e + 1)
                  | None => EFault e end.
Proof.
  intros Hb Hr. assert (Hk : b - 128 < 16) by lia.
  replace b with (128 + (b - 128)) in Hb |- * by lia. revert Hk Hb. generalize (b - 128) as k. clear Hr b.
  intros k Hk Hb. unfold estep. rewrite Hb. clear Hb. pattern k. revert k Hk.
  apply cases16; reflexivity.
Qed.

Lemma estep_swap bs br e b : byte_at bs (e_pc e) = Some b -> 144 <= b <= 159 ->
  estep bs br e = match e_stack e with
                  | top :: rest => match swap_k (N.to_nat (b - 144)) top rest with
                                   | Some (o, rest') => ENext (with_pc_stack e (e_pc e + 1) (o :: rest'))
                                   | None => EFault e end
                  | [] => EFault e end.
Proof.
  intros Hb Hr. assert (Hk : b - 144 < 16) by lia.
  replace b with (144 + (b - 144)) in Hb |- * by lia. revert Hk Hb. generalize (b - 144) as k. clear Hr b.
  intros k Hk Hb. unfold estep. rewrite Hb. clear Hb. pattern k. revert k Hk.
  apply cases16; reflexivity.
Qed.

