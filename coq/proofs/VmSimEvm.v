(* C07 simulation: the dispatch of the reference EVM by opcode byte (one lemma per byte or range of bytes;
   ranges are enumerated for the DISPATCH only -- the semantics stay generic in n). *)
From SLX Require Import Base Word256 EvmSpec Evm SimGuards.
Open Scope N_scope.
Set Default Timeout 300.

(* ---- dispatch of the reference EVM, by opcode byte ---- *)
Ltac estep_at := intros H; unfold estep; rewrite H; reflexivity.

Lemma estep_stop bs br e : byte_at bs (e_pc e) = Some 0 -> estep bs br e = EHalt e. Proof. estep_at. Qed.
Lemma estep_invalid bs br e : byte_at bs (e_pc e) = Some 254 -> estep bs br e = EHalt e. Proof. estep_at. Qed.
Lemma estep_pop bs br e : byte_at bs (e_pc e) = Some 80 ->
  estep bs br e = match e_stack e with _ :: r => ENext (with_pc_stack e (e_pc e + 1) r) | [] => EFault e end.
Proof. estep_at. Qed.
Lemma estep_mload bs br e : byte_at bs (e_pc e) = Some 81 ->
  estep bs br e = match e_stack e with
        | Some o :: r =>
            if (o mod 32 =? 0) && (o <? two64) then
              ENext (with_pc_stack e (e_pc e + 1) (match alist_get o (e_mem e) with Some v => v | None => Some 0 end :: r))
            else EBeyond e
        | None :: _ => EBeyond e
        | [] => EFault e
        end.
Proof. estep_at. Qed.
Lemma estep_mstore bs br e : byte_at bs (e_pc e) = Some 82 ->
  estep bs br e = match e_stack e with
        | Some o :: v :: r =>
            if (o mod 32 =? 0) && (o <? two64) then
              ENext (mk_estate (e_pc e + 1) r (alist_set o v (e_mem e)) (e_sto e) (e_hist e))
            else EBeyond e
        | None :: _ :: _ => EBeyond e
        | _ => EFault e
        end.
Proof. estep_at. Qed.
Lemma estep_sload bs br e : byte_at bs (e_pc e) = Some 84 ->
  estep bs br e = match e_stack e with
        | Some k :: r => ENext (with_pc_stack e (e_pc e + 1) (match alist_get k (e_sto e) with Some v => v | None => Some 0 end :: r))
        | None :: _ => EBeyond e
        | [] => EFault e
        end.
Proof. estep_at. Qed.
Lemma estep_sstore bs br e : byte_at bs (e_pc e) = Some 85 ->
  estep bs br e = match e_stack e with
        | Some k :: v :: r => ENext (mk_estate (e_pc e + 1) r (e_mem e) (alist_set k v (e_sto e)) (e_hist e ++ [(k, v)]))
        | None :: _ :: _ => EBeyond e
        | _ => EFault e
        end.
Proof. estep_at. Qed.
Lemma estep_jump bs br e : byte_at bs (e_pc e) = Some 86 ->
  estep bs br e = match e_stack e with
        | Some t :: r => if valid_dest bs t then ENext (with_pc_stack e t r) else EFault (with_pc_stack e (e_pc e) r)
        | None :: _ => EBeyond e
        | [] => EFault e
        end.
Proof. estep_at. Qed.
Lemma estep_jumpi bs br e : byte_at bs (e_pc e) = Some 87 ->
  estep bs br e = match e_stack e with
        | t :: _ :: r =>
            if br then
              match t with
              | Some t' => if valid_dest bs t' then ENext (with_pc_stack e t' r) else EFault (with_pc_stack e (e_pc e) r)
              | None => EBeyond e
              end
            else ENext (with_pc_stack e (e_pc e + 1) r)
        | _ => EFault e
        end.
Proof. estep_at. Qed.
Lemma estep_pc bs br e : byte_at bs (e_pc e) = Some 88 -> estep bs br e = push_val e (Some (e_pc e)) (e_pc e + 1).
Proof. estep_at. Qed.
Lemma estep_codesize bs br e : byte_at bs (e_pc e) = Some 56 ->
  estep bs br e = push_val e (Some (N.of_nat (length bs))) (e_pc e + 1).
Proof. estep_at. Qed.
Lemma estep_jumpdest bs br e : byte_at bs (e_pc e) = Some 91 -> estep bs br e = ENext (with_pc_stack e (e_pc e + 1) (e_stack e)).
Proof. estep_at. Qed.
Lemma estep_push0 bs br e : byte_at bs (e_pc e) = Some 95 -> estep bs br e = push_val e (Some 0) (e_pc e + 1).
Proof. estep_at. Qed.

(* ranges of bytes: the dispatch is by enumeration of the byte, the semantics are generic in n *)
Lemma cases16 (P : N -> Prop) : P 0 -> P 1 -> P 2 -> P 3 -> P 4 -> P 5 -> P 6 -> P 7 -> P 8 -> P 9 -> P 10 -> P 11 -> P 12 -> P 13 -> P 14 -> P 15 -> forall k, k < 16 -> P k.
Proof.
  intros H0 H1 H2 H3 H4 H5 H6 H7 H8 H9 H10 H11 H12 H13 H14 H15 k Hk.
  repeat match goal with H : P ?v |- _ => destruct (N.eq_dec k v) as [->|?]; [exact H|clear H] end. lia.
Qed.
Lemma cases32 (P : N -> Prop) : P 0 -> P 1 -> P 2 -> P 3 -> P 4 -> P 5 -> P 6 -> P 7 -> P 8 -> P 9 -> P 10 -> P 11 -> P 12 -> P 13 -> P 14 -> P 15 -> P 16 -> P 17 -> P 18 -> P 19 -> P 20 -> P 21 -> P 22 -> P 23 -> P 24 -> P 25 -> P 26 -> P 27 -> P 28 -> P 29 -> P 30 -> P 31 -> forall k, k < 32 -> P k.
Proof.
  intros H0 H1 H2 H3 H4 H5 H6 H7 H8 H9 H10 H11 H12 H13 H14 H15 H16 H17 H18 H19 H20 H21 H22 H23 H24 H25 H26 H27 H28 H29 H30 H31 k Hk.
  repeat match goal with H : P ?v |- _ => destruct (N.eq_dec k v) as [->|?]; [exact H|clear H] end. lia.
Qed.

Lemma estep_push bs br e b : byte_at bs (e_pc e) = Some b -> 96 <= b <= 127 ->
  estep bs br e = push_val e (Some (push_data bs (e_pc e) (b - 95))) (e_pc e + 1 + (b - 95)).
Proof.
  intros Hb Hr. assert (Hk : b - 96 < 32) by lia.
  replace b with (96 + (b - 96)) in Hb |- * by lia. revert Hk Hb. generalize (b - 96) as k. clear Hr b.
  intros k Hk Hb. unfold estep. rewrite Hb. clear Hb. pattern k. match goal with |- ?P k => set (Q := P) end. revert k Hk.
  apply (cases32 Q); unfold Q; reflexivity.
Qed.

Lemma estep_dup bs br e b : byte_at bs (e_pc e) = Some b -> 128 <= b <= 143 ->
  estep bs br e = match nth_error (e_stack e) (N.to_nat (b - 128)) with
                  | Some v => push_val e v (e_pc e + 1)
                  | None => EFault e end.
Proof.
  intros Hb Hr. assert (Hk : b - 128 < 16) by lia.
  replace b with (128 + (b - 128)) in Hb |- * by lia. revert Hk Hb. generalize (b - 128) as k. clear Hr b.
  intros k Hk Hb. unfold estep. rewrite Hb. clear Hb. pattern k. match goal with |- ?P k => set (Q := P) end. revert k Hk.
  apply (cases16 Q); unfold Q; reflexivity.
Qed.

Lemma estep_swap bs br e b : byte_at bs (e_pc e) = Some b -> 144 <= b <= 159 ->
  estep bs br e = match e_stack e with
                  | top :: rest => match swap_k (N.to_nat (b - 144)) top rest with
                                   | Some (o, rest') => ENext (with_pc_stack e (e_pc e + 1) (o :: rest'))
                                   | None => EFault e end
                  | [] => EFault e end.
Proof.
  intros Hb Hr. assert (Hk : b - 144 < 16) by lia.
  replace b with (144 + (b - 144)) in Hb |- * by lia. revert Hk Hb. generalize (b - 144) as k. clear Hr b.
  intros k Hk Hb. unfold estep. rewrite Hb. clear Hb. pattern k. match goal with |- ?P k => set (Q := P) end. revert k Hk.
  apply (cases16 Q); unfold Q; reflexivity.
Qed.


(* INVALID and the unassigned bytes: a normal halt in any state *)
Lemma cases256 (P : N -> Prop) : P 0 -> P 1 -> P 2 -> P 3 -> P 4 -> P 5 -> P 6 -> P 7 -> P 8 -> P 9 -> P 10 -> P 11 -> P 12 -> P 13 -> P 14 -> P 15 -> P 16 -> P 17 -> P 18 -> P 19 -> P 20 -> P 21 -> P 22 -> P 23 -> P 24 -> P 25 -> P 26 -> P 27 -> P 28 -> P 29 -> P 30 -> P 31 -> P 32 -> P 33 -> P 34 -> P 35 -> P 36 -> P 37 -> P 38 -> P 39 -> P 40 -> P 41 -> P 42 -> P 43 -> P 44 -> P 45 -> P 46 -> P 47 -> P 48 -> P 49 -> P 50 -> P 51 -> P 52 -> P 53 -> P 54 -> P 55 -> P 56 -> P 57 -> P 58 -> P 59 -> P 60 -> P 61 -> P 62 -> P 63 -> P 64 -> P 65 -> P 66 -> P 67 -> P 68 -> P 69 -> P 70 -> P 71 -> P 72 -> P 73 -> P 74 -> P 75 -> P 76 -> P 77 -> P 78 -> P 79 -> P 80 -> P 81 -> P 82 -> P 83 -> P 84 -> P 85 -> P 86 -> P 87 -> P 88 -> P 89 -> P 90 -> P 91 -> P 92 -> P 93 -> P 94 -> P 95 -> P 96 -> P 97 -> P 98 -> P 99 -> P 100 -> P 101 -> P 102 -> P 103 -> P 104 -> P 105 -> P 106 -> P 107 -> P 108 -> P 109 -> P 110 -> P 111 -> P 112 -> P 113 -> P 114 -> P 115 -> P 116 -> P 117 -> P 118 -> P 119 -> P 120 -> P 121 -> P 122 -> P 123 -> P 124 -> P 125 -> P 126 -> P 127 -> P 128 -> P 129 -> P 130 -> P 131 -> P 132 -> P 133 -> P 134 -> P 135 -> P 136 -> P 137 -> P 138 -> P 139 -> P 140 -> P 141 -> P 142 -> P 143 -> P 144 -> P 145 -> P 146 -> P 147 -> P 148 -> P 149 -> P 150 -> P 151 -> P 152 -> P 153 -> P 154 -> P 155 -> P 156 -> P 157 -> P 158 -> P 159 -> P 160 -> P 161 -> P 162 -> P 163 -> P 164 -> P 165 -> P 166 -> P 167 -> P 168 -> P 169 -> P 170 -> P 171 -> P 172 -> P 173 -> P 174 -> P 175 -> P 176 -> P 177 -> P 178 -> P 179 -> P 180 -> P 181 -> P 182 -> P 183 -> P 184 -> P 185 -> P 186 -> P 187 -> P 188 -> P 189 -> P 190 -> P 191 -> P 192 -> P 193 -> P 194 -> P 195 -> P 196 -> P 197 -> P 198 -> P 199 -> P 200 -> P 201 -> P 202 -> P 203 -> P 204 -> P 205 -> P 206 -> P 207 -> P 208 -> P 209 -> P 210 -> P 211 -> P 212 -> P 213 -> P 214 -> P 215 -> P 216 -> P 217 -> P 218 -> P 219 -> P 220 -> P 221 -> P 222 -> P 223 -> P 224 -> P 225 -> P 226 -> P 227 -> P 228 -> P 229 -> P 230 -> P 231 -> P 232 -> P 233 -> P 234 -> P 235 -> P 236 -> P 237 -> P 238 -> P 239 -> P 240 -> P 241 -> P 242 -> P 243 -> P 244 -> P 245 -> P 246 -> P 247 -> P 248 -> P 249 -> P 250 -> P 251 -> P 252 -> P 253 -> P 254 -> P 255 -> forall k, k < 256 -> P k.
Proof.
  intros H0 H1 H2 H3 H4 H5 H6 H7 H8 H9 H10 H11 H12 H13 H14 H15 H16 H17 H18 H19 H20 H21 H22 H23 H24 H25 H26 H27 H28 H29 H30 H31 H32 H33 H34 H35 H36 H37 H38 H39 H40 H41 H42 H43 H44 H45 H46 H47 H48 H49 H50 H51 H52 H53 H54 H55 H56 H57 H58 H59 H60 H61 H62 H63 H64 H65 H66 H67 H68 H69 H70 H71 H72 H73 H74 H75 H76 H77 H78 H79 H80 H81 H82 H83 H84 H85 H86 H87 H88 H89 H90 H91 H92 H93 H94 H95 H96 H97 H98 H99 H100 H101 H102 H103 H104 H105 H106 H107 H108 H109 H110 H111 H112 H113 H114 H115 H116 H117 H118 H119 H120 H121 H122 H123 H124 H125 H126 H127 H128 H129 H130 H131 H132 H133 H134 H135 H136 H137 H138 H139 H140 H141 H142 H143 H144 H145 H146 H147 H148 H149 H150 H151 H152 H153 H154 H155 H156 H157 H158 H159 H160 H161 H162 H163 H164 H165 H166 H167 H168 H169 H170 H171 H172 H173 H174 H175 H176 H177 H178 H179 H180 H181 H182 H183 H184 H185 H186 H187 H188 H189 H190 H191 H192 H193 H194 H195 H196 H197 H198 H199 H200 H201 H202 H203 H204 H205 H206 H207 H208 H209 H210 H211 H212 H213 H214 H215 H216 H217 H218 H219 H220 H221 H222 H223 H224 H225 H226 H227 H228 H229 H230 H231 H232 H233 H234 H235 H236 H237 H238 H239 H240 H241 H242 H243 H244 H245 H246 H247 H248 H249 H250 H251 H252 H253 H254 H255 k Hk.
  repeat match goal with H : P ?v |- _ => destruct (N.eq_dec k v) as [->|?]; [exact H|clear H] end. lia.
Qed.

Lemma evm_halts_lt b : evm_halts b = true -> b < 256.
Proof.
  unfold evm_halts. rewrite !orb_true_iff, !andb_true_iff, !N.leb_le, N.eqb_eq. intros [[[[H|H]|H]|H]|H]; try lia.
  apply existsb_exists in H as (x & Hin & E). apply N.eqb_eq in E. subst x.
  cbn [In] in Hin. repeat (destruct Hin as [<-|Hin]; [lia|]). contradiction.
Qed.

Lemma estep_halts bs br e b : evm_halts b = true -> byte_at bs (e_pc e) = Some b -> estep bs br e = EHalt e.
Proof.
  intros Hh Hb. pose proof (evm_halts_lt b Hh) as Hlt. unfold estep. rewrite Hb. clear Hb.
  revert Hh. pattern b. match goal with |- ?P b => set (Q := P) end. revert b Hlt.
  apply (cases256 Q); unfold Q; intros Hh; first [(vm_compute in Hh; discriminate Hh) | reflexivity].
Qed.

Lemma evm_halts_not_push b : 96 <= b <= 127 -> evm_halts b = false.
Proof.
  intros Hr. destruct (evm_halts b) eqn:E; [|reflexivity]. exfalso. revert E.
  unfold evm_halts. rewrite !orb_true_iff, !andb_true_iff, !N.leb_le, N.eqb_eq. intros [[[[H|H]|H]|H]|H]; try lia.
  apply existsb_exists in H as (x & Hin & E). apply N.eqb_eq in E. subst x.
  cbn [In] in Hin. repeat (destruct Hin as [<-|Hin]; [lia|]). contradiction.
Qed.
