(* abi_type_for (coq/Abi.v): termination through the `seen` cut, panic freedom, the layout loop (one row per
   constant slot, full-width index), and the in-slot property of reported offsets under the span discipline. *)
From Coq Require Import String Permutation.
From SLX Require Import Base Word256 gen.Constants gen.ValueSig gen.WordUseTable gen.RulesSig SymVal TypeExpr AbiT Layout
  Register Rules Abi.
From SLX Require Import proofs.LayoutProofs proofs.RegisterProofs.
Open Scope N_scope.
Set Default Timeout 300.

(* ------------------------------------------------------------------ te_eqb is reflexive *)
Section TeInd.
  Variable P : te -> Prop.
  Hypothesis HAny : P Any.
  Hypothesis HEq : forall i, P (Equal i).
  Hypothesis HWord : forall w u, P (Word w u).
  Hypothesis HBytes : P Bytes.
  Hypothesis HFixed : forall e l, P (FixedArray e l).
  Hypothesis HMap : forall k v, P (Mapping k v).
  Hypothesis HDyn : forall e, P (DynamicArray e).
  Hypothesis HPacked : forall ts b, P (Packed ts b).
  Hypothesis HConf : forall cs rs, Forall P cs -> P (Conflict cs rs).
  Fixpoint te_ind' (e : te) : P e :=
    match e with
    | Any => HAny | Equal i => HEq i | Word w u => HWord w u | Bytes => HBytes
    | FixedArray x l => HFixed x l | Mapping k v => HMap k v | DynamicArray x => HDyn x
    | Packed ts b => HPacked ts b
    | Conflict cs rs =>
        HConf cs rs ((fix go (l : list te) : Forall P l :=
                        match l with [] => Forall_nil P | x :: r => Forall_cons x (te_ind' x) (go r) end) cs)
    end.
End TeInd.

Lemma wuse_eqb_refl u : wuse_eqb u u = true.
Proof. destruct u; reflexivity. Qed.
Lemma optN_eqb_refl o : optN_eqb o o = true.
Proof. destruct o; cbn; [apply N.eqb_refl|reflexivity]. Qed.
Lemma span_eqb_refl s : span_eqb s s = true.
Proof. unfold span_eqb. rewrite !N.eqb_refl. reflexivity. Qed.
Lemma reason_eqb_refl r : reason_eqb r r = true.
Proof. destruct r; cbn; try reflexivity. apply N.eqb_refl. Qed.

Lemma te_eqb_refl e : te_eqb e e = true.
Proof.
  induction e using te_ind'; cbn [te_eqb]; rewrite ?N.eqb_refl, ?optN_eqb_refl, ?wuse_eqb_refl; try reflexivity.
  - rewrite (list_eqb_refl span_eqb span_eqb_refl). destruct b; reflexivity.
  - rewrite (list_eqb_refl reason_eqb reason_eqb_refl). rewrite andb_true_r.
    induction cs as [|c cs IH]; [reflexivity|]. inversion H; subst. rewrite H2. cbn. apply IH. exact H3.
Qed.

Lemma seen_insert_on : abi_seen_insert = true.
Proof. reflexivity. Qed.

(* ------------------------------------------------------------------ generic facts about the loops *)
Section Loops.
  Variable nested_add : N -> N -> outcome N unit.
  Hypothesis add_no_err : forall a b e, nested_add a b <> Err e.

  Lemma shift_pairs_no_oof off xs : shift_pairs nested_add off xs <> Err EOutOfFuel.
  Proof.
    induction xs as [|[ty ofs] xs IH]; cbn [shift_pairs]; [discriminate|].
    destruct (nested_add ofs off) as [o|e|p] eqn:E; [|exfalso; exact (add_no_err _ _ _ E)|discriminate].
    destruct (shift_pairs nested_add off xs) as [r|e|p]; try discriminate. intros [= ->]. apply IH. reflexivity.
  Qed.
End Loops.

(* ------------------------------------------------------------------ termination: the seen cut *)
Section Terminates.
  Variable nested_add : N -> N -> outcome N unit.
  Variable fit : bool.
  Hypothesis add_no_err : forall a b e, nested_add a b <> Err e.
  Variable env : abi_env.
  Variable dom : list tyvar.
  Hypothesis dom_covers : forall v, ty_data env v <> None -> In v dom.

  (* the resolved expressions of the classes: the only things that can enter `seen` *)
  Definition cands : list te := flat_map (fun v => match ty_data env v with Some [e] => [e] | _ => [] end) dom.
  Definition unseen (seen : list te) : list te := filter (fun c => negb (existsb (te_eqb c) seen)) cands.
  Definition measure (seen : list te) : nat := length (unseen seen).

  Lemma filter_len {A} (f : A -> bool) l : (length (filter f l) <= length l)%nat.
  Proof. induction l as [|x l IH]; cbn; [lia|]. destruct (f x); cbn; lia. Qed.

  Lemma measure_le_dom seen : (measure seen <= length dom)%nat.
  Proof.
    unfold measure, unseen. etransitivity; [apply filter_len|]. unfold cands. clear. induction dom as [|v l IH]; cbn; [lia|].
    rewrite app_length. destruct (ty_data env v) as [[|e [|]]|]; cbn; lia.
  Qed.

  Lemma filter_cons_len {A} (f : A -> bool) x l :
    length (filter f (x :: l)) = ((if f x then 1 else 0) + length (filter f l))%nat.
  Proof. cbn [filter]. destruct (f x); reflexivity. Qed.

  Lemma measure_mono seen seen' : incl seen seen' -> (measure seen' <= measure seen)%nat.
  Proof.
    intros Hi. unfold measure, unseen. generalize cands as l. induction l as [|c l IH]; [cbn; lia|].
    rewrite !filter_cons_len. destruct (existsb (te_eqb c) seen) eqn:E.
    - assert (existsb (te_eqb c) seen' = true) as ->.
      { apply existsb_exists in E as (x & Hx & Ex). apply existsb_exists. exists x. split; [apply Hi, Hx|exact Ex]. }
      simpl negb. cbv iota. lia.
    - destruct (existsb (te_eqb c) seen'); simpl negb; cbv iota; lia.
  Qed.

  Lemma measure_insert e seen : In e cands -> existsb (te_eqb e) seen = false -> (measure (e :: seen) < measure seen)%nat.
  Proof.
    intros Hin Hns. unfold measure, unseen.
    assert (Mono : forall l0, (length (filter (fun c0 => negb (existsb (te_eqb c0) (e :: seen))) l0) <=
                              length (filter (fun c0 => negb (existsb (te_eqb c0) seen)) l0))%nat).
    { induction l0 as [|d l0 IH0]; [cbn; lia|]. rewrite !filter_cons_len.
      change (existsb (te_eqb d) (e :: seen)) with (te_eqb d e || existsb (te_eqb d) seen).
      revert IH0. generalize (length (filter (fun c0 => negb (existsb (te_eqb c0) (e :: seen))) l0)),
                             (length (filter (fun c0 => negb (existsb (te_eqb c0) seen)) l0)). intros X Y IH0.
      destruct (te_eqb d e), (existsb (te_eqb d) seen); simpl; lia. }
    revert Hin. generalize cands as l. induction l as [|c l IH]; [cbn; tauto|]. rewrite !filter_cons_len. cbn [In].
    intros [->|Hin].
    - change (existsb (te_eqb e) (e :: seen)) with (te_eqb e e || existsb (te_eqb e) seen). rewrite te_eqb_refl, Hns.
      specialize (Mono l). revert Mono. generalize (length (filter (fun c0 => negb (existsb (te_eqb c0) (e :: seen))) l)),
                             (length (filter (fun c0 => negb (existsb (te_eqb c0) seen)) l)). intros X Y Mono. simpl. lia.
    - specialize (IH Hin). change (existsb (te_eqb c) (e :: seen)) with (te_eqb c e || existsb (te_eqb c) seen).
      revert IH. generalize (length (filter (fun c0 => negb (existsb (te_eqb c0) (e :: seen))) l)),
                             (length (filter (fun c0 => negb (existsb (te_eqb c0) seen)) l)). intros X Y IH.
      destruct (te_eqb c e), (existsb (te_eqb c) seen); simpl; lia.
  Qed.

  Lemma type_of_cand v e : type_of env v = Ok e -> is_type_constructor e = true -> In e cands.
  Proof.
    unfold type_of. destruct (ty_data env v) as [[|e' [|]]|] eqn:E.
    - intros [= <-]. discriminate.
    - intros [= <-] _. unfold cands. apply in_flat_map. exists v. split; [apply dom_covers; congruence|]. rewrite E. left. reflexivity.
    - destruct (has_expr env v); discriminate.
    - destruct (has_expr env v); discriminate.
  Qed.

  Lemma type_of_not_oof v : type_of env v <> Err EOutOfFuel.
  Proof. unfold type_of. destruct (ty_data env v) as [[|e [|]]|]; try destruct (has_expr env v); discriminate. Qed.

  (* what a call guarantees: never out of fuel; `seen` only grows *)
  Definition call_ok (r : outcome (abi_value * list te) abi_err) (seen : list te) : Prop :=
    match r with
    | Err EOutOfFuel => False
    | Ok (_, seen') => incl seen seen'
    | _ => True
    end.

  Lemma packed_loop_ok rec f : forall l sn pairs,
    (forall v s, (measure s < f)%nat -> call_ok (rec v s) s) -> (measure sn < f)%nat ->
    match packed_loop nested_add fit rec l sn pairs with
    | Err EOutOfFuel => False
    | Ok (_, sn') => incl sn sn'
    | _ => True
    end.
  Proof.
    induction l as [|s l IH]; intros sn pairs Hrec Hm; cbn [packed_loop]; [apply incl_refl|].
    pose proof (Hrec (s_typ s) sn Hm) as Hc. destruct (rec (s_typ s) sn) as [[r sn']|e|p]; cbn [call_ok] in Hc; [|destruct e; try exact I; contradiction|exact I].
    assert (Hm' : (measure sn' < f)%nat) by (pose proof (measure_mono _ _ Hc); lia).
    destruct r as [ty|xs].
    - specialize (IH sn' (pairs ++ [(ty, s_off s)]) Hrec Hm').
      destruct (packed_loop nested_add fit rec l sn' (pairs ++ [(ty, s_off s)])) as [[ps sn'']|e|p]; [|exact IH|exact I].
      eapply incl_tran; eauto.
    - destruct (negb fit || forallb (pair_fits (s_off s mod WORD_SIZE_BITS)) xs).
      + pose proof (shift_pairs_no_oof nested_add add_no_err (s_off s) xs) as Hs.
        destruct (shift_pairs nested_add (s_off s) xs) as [sh|e|p]; [|destruct e; try exact I; congruence|exact I].
        specialize (IH sn' (pairs ++ sh) Hrec Hm').
        destruct (packed_loop nested_add fit rec l sn' (pairs ++ sh)) as [[ps sn'']|e|p]; [|exact IH|exact I]. eapply incl_tran; eauto.
      + specialize (IH sn' (pairs ++ [(a_any, s_off s)]) Hrec Hm').
        destruct (packed_loop nested_add fit rec l sn' (pairs ++ [(a_any, s_off s)])) as [[ps sn'']|e|p]; [|exact IH|exact I]. eapply incl_tran; eauto.
  Qed.

  Lemma abi_impl_ok : forall fuel v seen par, (measure seen < fuel)%nat -> call_ok (abi_impl nested_add fit env fuel v seen par) seen.
  Proof.
    induction fuel as [|f IH]; intros v seen par Hm; [lia|]. cbn [abi_impl].
    destruct (type_of env v) as [e|err|p] eqn:T; cbn [call_ok]; [|destruct err; try exact I; exact (type_of_not_oof v T)|exact I].
    destruct (existsb (te_eqb e) seen && is_type_constructor e) eqn:Cut; [apply incl_refl|].
    rewrite seen_insert_on. destruct (negb (has_expr env v)); [exact I|].
    assert (Hi : incl seen (e :: seen)) by (intros x Hx; right; exact Hx).
    (* measure after the insertion, when e is a constructor *)
    assert (Hm1 : is_type_constructor e = true -> (measure (e :: seen) < f)%nat).
    { intros Tc. rewrite Tc, andb_true_r in Cut. pose proof (measure_insert e seen (type_of_cand v e T Tc) Cut). lia. }
    assert (Sub : forall el sn k, (measure sn < f)%nat -> incl (e :: seen) sn ->
              (forall tp sn', incl sn sn' -> call_ok (k tp sn') seen) ->
              call_ok (sub_type (fun v0 sn0 => abi_impl nested_add fit env f v0 sn0 POther) el sn k) seen).
    { intros el sn k Hms Hinc Hk. unfold sub_type. pose proof (IH el sn POther Hms) as Hc.
      destruct (abi_impl nested_add fit env f el sn POther) as [[r sn']|err|p]; cbn [call_ok] in Hc |- *; [|destruct err; try exact I; contradiction|exact I].
      apply Hk. exact Hc. }
    destruct e as [|id|width usage| |element length|key value|element|types is_struct|conflicts reasons]; cbn [call_ok]; try (apply Hi).
    - (* Equal *) exact I.
    - (* Word *) destruct (word_abi (Word width usage) width usage) as [t|err|p] eqn:W; cbn [call_ok]; [exact Hi| |exact I].
      destruct err; try exact I. unfold word_abi in W. destruct usage, width; try discriminate;
        repeat match type of W with context [if ?c then _ else _] => destruct c end; discriminate.
    - (* FixedArray *) apply Sub; [apply Hm1; reflexivity|apply incl_refl|]. intros tp sn' Hs. cbn [call_ok]. eapply incl_tran; [exact Hi|exact Hs].
    - (* Mapping *) apply Sub; [apply Hm1; reflexivity|apply incl_refl|]. intros ktp sn1 Hs1.
      apply Sub; [pose proof (measure_mono _ _ Hs1); specialize (Hm1 eq_refl); lia|exact Hs1|].
      intros vtp sn2 Hs2. cbn [call_ok]. eapply incl_tran; [exact Hi|]. eapply incl_tran; eauto.
    - (* DynamicArray *) apply Sub; [apply Hm1; reflexivity|apply incl_refl|]. intros tp sn' Hs. cbn [call_ok]. eapply incl_tran; [exact Hi|exact Hs].
    - (* Packed *)
      pose proof (packed_loop_ok (fun v0 sn0 => abi_impl nested_add fit env f v0 sn0 PPacked) f types (Packed types is_struct :: seen) []
                    (fun v0 s0 H0 => IH v0 s0 PPacked H0) (Hm1 eq_refl)) as HL.
      destruct (packed_loop nested_add fit _ types (Packed types is_struct :: seen) []) as [[ps sn']|err|p]; cbn [call_ok]; [|destruct err; try exact I; contradiction|exact I].
      eapply incl_tran; [exact Hi|exact HL].
  Qed.

  (* abi_terminates: with fuel = number of classes + 1 the result is never the out-of-fuel value *)
  Theorem abi_terminates_gen v : abi_type_for nested_add fit env (S (length dom)) v <> Err EOutOfFuel.
  Proof.
    unfold abi_type_for. pose proof (abi_impl_ok (S (length dom)) v [] PNone) as H.
    assert ((measure [] < S (length dom))%nat) by (pose proof (measure_le_dom []); lia). specialize (H H0).
    destruct (abi_impl nested_add fit env (S (length dom)) v [] PNone) as [[r sn]|e|p]; try discriminate.
    destruct e; try discriminate. destruct H.
  Qed.
End Terminates.

(* ------------------------------------------------------------------ no panic *)
Section NoPanic.
  Variable nested_add : N -> N -> outcome N unit.
  Variable fit : bool.
  Hypothesis add_total : forall a b, exists o, nested_add a b = Ok o.
  Variable env : abi_env.
  Variable dom : list tyvar.
  (* every variable with data has an expression, and the variables its resolved expression mentions are in dom *)
  Hypothesis dom_expr : forall v, In v dom -> has_expr env v = true.
  Hypothesis dom_closed : forall v e, In v dom -> type_of env v = Ok e -> forall w, In w (te_vars e) -> In w dom.

  Definition no_panic {A} (r : outcome A abi_err) : Prop := forall p, r <> Panic p.

  Lemma shift_pairs_no_panic off xs : no_panic (shift_pairs nested_add off xs).
  Proof.
    induction xs as [|[ty ofs] xs IH]; intros p; cbn [shift_pairs]; [discriminate|].
    destruct (add_total ofs off) as (o & ->). destruct (shift_pairs nested_add off xs) as [r|e|q]; try discriminate.
    exfalso. exact (IH q eq_refl).
  Qed.

  Lemma packed_loop_no_panic rec : forall l sn pairs,
    (forall s, In s l -> forall sn', no_panic (rec (s_typ s) sn')) -> no_panic (packed_loop nested_add fit rec l sn pairs).
  Proof.
    induction l as [|s l IH]; intros sn pairs Hrec p; cbn [packed_loop]; [discriminate|].
    pose proof (Hrec s (or_introl eq_refl) sn) as Hs. destruct (rec (s_typ s) sn) as [[r sn']|e|q]; [|discriminate|exfalso; exact (Hs q eq_refl)].
    destruct r as [ty|xs].
    - apply IH. intros s' Hs'. apply Hrec. right. exact Hs'.
    - destruct (negb fit || forallb (pair_fits (s_off s mod WORD_SIZE_BITS)) xs); [|apply IH; intros s' Hs'; apply Hrec; right; exact Hs'].
      pose proof (shift_pairs_no_panic (s_off s) xs) as Hp. destruct (shift_pairs nested_add (s_off s) xs) as [sh|e|q]; [|discriminate|exfalso; exact (Hp q eq_refl)].
      apply IH. intros s' Hs'. apply Hrec. right. exact Hs'.
  Qed.

  Lemma type_of_no_panic v : In v dom -> no_panic (type_of env v).
  Proof.
    intros Hv p. unfold type_of. rewrite (dom_expr v Hv). destruct (ty_data env v) as [[|e [|]]|]; discriminate.
  Qed.

  Lemma abi_impl_no_panic : forall fuel v seen par, In v dom -> no_panic (abi_impl nested_add fit env fuel v seen par).
  Proof.
    induction fuel as [|f IH]; intros v seen par Hv p; cbn [abi_impl]; [discriminate|].
    pose proof (type_of_no_panic v Hv) as Ht. destruct (type_of env v) as [e|err|q] eqn:T; [|discriminate|exfalso; exact (Ht q eq_refl)].
    destruct (existsb (te_eqb e) seen && is_type_constructor e); [discriminate|].
    rewrite (dom_expr v Hv). cbn [negb].
    pose proof (dom_closed v e Hv T) as Hc.
    assert (Sub : forall el sn k, In el dom -> (forall tp sn', no_panic (k tp sn')) ->
              no_panic (sub_type (fun v0 sn0 => abi_impl nested_add fit env f v0 sn0 POther) el sn k)).
    { intros el sn k Hel Hk q. unfold sub_type. pose proof (IH el sn POther Hel) as Hi.
      destruct (abi_impl nested_add fit env f el sn POther) as [[r sn']|err|q']; [apply Hk|discriminate|intros E; exact (Hi q' eq_refl)]. }
    destruct e as [|id|width usage| |element length|key value|element|types is_struct|conflicts reasons]; try discriminate.
    - unfold word_abi. destruct usage, width; repeat match goal with |- context [if ?c then _ else _] => destruct c end; discriminate.
    - apply Sub; [apply Hc; cbn; auto|]. intros tp sn' q. discriminate.
    - apply Sub; [apply Hc; cbn; auto|]. intros ktp sn1. apply Sub; [apply Hc; cbn; auto|]. intros vtp sn2 q. discriminate.
    - apply Sub; [apply Hc; cbn; auto|]. intros tp sn' q. discriminate.
    - pose proof (packed_loop_no_panic (fun v0 sn0 => abi_impl nested_add fit env f v0 sn0 PPacked) types
                    (if abi_seen_insert then Packed types is_struct :: seen else seen) []) as HL.
      destruct (packed_loop nested_add fit _ types _ []) as [[ps sn']|err|q]; [discriminate|discriminate|].
      exfalso. eapply HL; [|reflexivity]. intros s Hs sn'0. apply IH. apply Hc. cbn [te_vars]. apply in_map. exact Hs.
  Qed.

  Theorem abi_no_panic_gen fuel v : In v dom -> no_panic (abi_type_for nested_add fit env fuel v).
  Proof.
    intros Hv p. unfold abi_type_for. pose proof (abi_impl_no_panic fuel v [] PNone Hv) as H.
    destruct (abi_impl nested_add fit env fuel v [] PNone) as [[r sn]|e|q]; try discriminate. intros [= ->]. exact (H p eq_refl).
  Qed.

  Theorem build_layout_no_panic fuel vals : forall layout, (forall x, In x vals -> In (tv_of x) dom) ->
    no_panic (build_layout nested_add fit env fuel vals layout).
  Proof.
    induction vals as [|x r IH]; intros layout Hd p; cbn [build_layout]; [discriminate|].
    destruct (const_slot_key x); [|apply IH; intros y Hy; apply Hd; right; exact Hy].
    pose proof (abi_no_panic_gen fuel (tv_of x) (Hd x (or_introl eq_refl))) as Ha.
    destruct (abi_type_for nested_add fit env fuel (tv_of x)) as [a|e|q]; [|discriminate|exfalso; exact (Ha q eq_refl)].
    apply IH. intros y Hy. apply Hd. right. exact Hy.
  Qed.
End NoPanic.

(* the two generated sums *)
Lemma sat_add_total a b : exists o, (Ok (usize_sat_add a b) : outcome N unit) = Ok o.
Proof. eauto. Qed.

(* ------------------------------------------------------------------ the layout loop (C06) *)
Lemma layout_add_in l e x : In x (layout_add l e) <-> In x l \/ x = e.
Proof.
  unfold layout_add. pose proof (stable_sort_perm gen.LayoutKey.layout_key_fields (l ++ [e])) as P. split.
  - intros H. apply (Permutation_in _ P) in H. apply in_app_or in H as [H|[H|[]]]; auto.
  - intros H. apply (Permutation_in _ (Permutation_sym P)). apply in_or_app. destruct H as [H| ->]; [left; exact H|right; left; reflexivity].
Qed.

Lemma fold_layout_add_in rows : forall l x, In x (fold_left layout_add rows l) <-> In x l \/ In x rows.
Proof.
  induction rows as [|r rows IH]; intros l x; cbn [fold_left In]; [tauto|]. rewrite IH, layout_add_in. intuition.
Qed.

Section Layout.
  Variable nested_add : N -> N -> outcome N unit.
  Variable fit : bool.
  Variable env : abi_env.

  (* at the top level (no parent) a class never turns into an empty list of rows *)
  Lemma top_level_nonempty fuel v r sn : abi_impl nested_add fit env fuel v [] PNone = Ok (r, sn) -> r <> APacked [].
  Proof.
    destruct fuel as [|f]; cbn [abi_impl]; [discriminate|].
    destruct (type_of env v) as [e|err|q]; try discriminate.
    destruct (existsb (te_eqb e) [] && is_type_constructor e); [intros [= <- _]; discriminate|].
    destruct (negb (has_expr env v)); [discriminate|].
    destruct e as [|id|width usage| |element length|key value|element|types is_struct|conflicts reasons]; try (intros [= <- _]; discriminate); try discriminate.
    - destruct (word_abi _ width usage); try discriminate. intros [= <- _]. discriminate.
    - unfold sub_type. destruct (abi_impl nested_add fit env f element _ POther) as [[r' sn']|?|?]; try discriminate. intros [= <- _]. discriminate.
    - unfold sub_type. destruct (abi_impl nested_add fit env f key _ POther) as [[r' sn']|?|?]; try discriminate.
      destruct (abi_impl nested_add fit env f value sn' POther) as [[r'' sn'']|?|?]; try discriminate. intros [= <- _]. discriminate.
    - unfold sub_type. destruct (abi_impl nested_add fit env f element _ POther) as [[r' sn']|?|?]; try discriminate. intros [= <- _]. discriminate.
    - destruct (packed_loop nested_add fit _ types _ []) as [[ps sn']|?|?]; try discriminate. intros [= <- _].
      unfold packed_result. cbn [parent_eqb]. destruct ps as [|[t1 o1] [|p2 ps]]; try discriminate.
      + destruct (o1 =? 0); discriminate.
      + destruct is_struct; discriminate.
  Qed.

  (* layout_row_per_const_slot + index_full_width: every constant storage slot among the values gets at least one
     row, whose index is the 256-bit key itself *)
  Theorem layout_row_per_const_slot_gen fuel : forall vals layout L,
    build_layout nested_add fit env fuel vals layout = Ok L ->
    (forall e, In e layout -> In e L) /\
    (forall x c, In x vals -> const_slot_key x = Some c -> exists off ty, In (c, off, ty) L).
  Proof.
    induction vals as [|x r IH]; intros layout L; cbn [build_layout].
    - intros [= <-]. split; [auto|]. intros x c [].
    - destruct (const_slot_key x) as [index|] eqn:K.
      + unfold abi_type_for. destruct (abi_impl nested_add fit env fuel (tv_of x) [] PNone) as [[a sn]|e|q] eqn:A; try discriminate.
        intros B. destruct (IH _ _ B) as (Keep & Rows).
        assert (Hrow : exists off ty, In (index, off, ty) (fold_left layout_add (rows_of index a) layout)).
        { pose proof (top_level_nonempty _ _ _ _ A) as Ne. destruct a as [t|[|[t o] ps]]; [| congruence|].
          - exists 0, t. apply fold_layout_add_in. right. left. reflexivity.
          - exists o, t. apply fold_layout_add_in. right. left. reflexivity. }
        split.
        * intros e He. apply Keep. apply fold_layout_add_in. left. exact He.
        * intros y c [<-|Hy] Hc; [|exact (Rows y c Hy Hc)]. rewrite K in Hc. inversion Hc; subst.
          destruct Hrow as (off & ty & Hin). exists off, ty. apply Keep. exact Hin.
      + intros B. destruct (IH _ _ B) as (Keep & Rows). split; [exact Keep|].
        intros y c [<-|Hy] Hc; [congruence|exact (Rows y c Hy Hc)].
  Qed.
End Layout.

(* ------------------------------------------------------------------ reported offsets stay inside the slot (C12) *)
Section Offsets.
  Variable nested_add : N -> N -> outcome N unit.
  Variable fit : bool.
  (* both generated sums agree with + below 2^64 *)
  Hypothesis add_exact : forall a b o, nested_add a b = Ok o -> a + b < two64 -> o = a + b.
  Variable env : abi_env.
  Variable wd : tyvar -> N.
  Variable v0 : tyvar.

  (* reachable from v0 through the spans of Packed classes *)
  Inductive preach : tyvar -> Prop :=
  | pr_refl : preach v0
  | pr_step v ts b s : preach v -> type_of env v = Ok (Packed ts b) -> In s ts -> preach (s_typ s).

  (* the span discipline: a width for every class such that the queried class fits the slot, spans are not empty,
     lie inside the width of their class, and the class of a span's type fits into the span; sized words fit
     their class *)
  Record discipline : Prop := {
    d_top : wd v0 <= WORD_SIZE_BITS;
    d_spans : forall v ts b s, preach v -> type_of env v = Ok (Packed ts b) -> In s ts ->
                0 < s_sz s /\ s_off s + s_sz s <= wd v /\ wd (s_typ s) <= s_sz s;
    d_word : forall v w u, preach v -> type_of env v = Ok (Word (Some w) u) -> w <= wd v
  }.
  Hypothesis D : discipline.

  Lemma preach_le v : preach v -> wd v <= WORD_SIZE_BITS.
  Proof.
    induction 1 as [|v ts b s Hv IH T Hs]; [exact (d_top D)|].
    destruct (d_spans D v ts b s Hv T Hs) as (_ & A & B). lia.
  Qed.

  Definition pair_ok (W : N) (p : aty * N) : Prop :=
    snd p < W /\ match aty_width (fst p) with Some w => snd p + w <= W | None => True end.
  Definition res_ok (W : N) (r : abi_value) : Prop :=
    match r with
    | APacked ps => Forall (pair_ok W) ps
    | AType t => match aty_width t with Some w => w <= W | None => True end
    end.

  Lemma word_abi_width e width usage t : word_abi e width usage = Ok t ->
    match aty_width t with Some w' => exists w, width = Some w /\ w' <= w | None => True end.
  Proof.
    unfold word_abi. destruct usage.
    - destruct width as [w|]; [|intros [= <-]; exact I]. destruct (w mod BYTE_SIZE_BITS =? 0).
      + intros [= <-]. cbn. exists w. split; [reflexivity|]. change BYTE_SIZE_BITS with 8. pose proof (N.mul_div_le w 8). lia.
      + intros [= <-]. cbn. exists w. split; [reflexivity|lia].
    - intros [= <-]. destruct width as [w|]; cbn; [exists w; split; [reflexivity|lia]|exact I].
    - intros [= <-]. destruct width as [w|]; cbn; [exists w; split; [reflexivity|lia]|exact I].
    - intros [= <-]. destruct width as [w|]; cbn; [exists w; split; [reflexivity|lia]|exact I].
    - destruct (optN_eqb width (wuse_size UBool)) eqn:E; [|discriminate]. intros [= <-]. destruct width as [w|]; [|discriminate].
      cbn in E. apply N.eqb_eq in E. subst w. cbn. exists 8. split; [reflexivity|lia].
    - destruct (optN_eqb width (wuse_size UAddress)) eqn:E; [|discriminate]. intros [= <-]. destruct width as [w|]; [|discriminate].
      cbn in E. apply N.eqb_eq in E. subst w. cbn. exists 160. split; [reflexivity|lia].
    - destruct (optN_eqb width (wuse_size USelector)) eqn:E; [|discriminate]. intros [= <-]. destruct width as [w|]; [|discriminate].
      cbn in E. apply N.eqb_eq in E. subst w. cbn. exists 32. split; [reflexivity|lia].
    - destruct (optN_eqb width (wuse_size UFunction)) eqn:E; [|discriminate]. intros [= <-]. destruct width as [w|]; [|discriminate].
      cbn in E. apply N.eqb_eq in E. subst w. cbn. exists 192. split; [reflexivity|lia].
  Qed.

  Lemma a_bytes_width k : aty_width (a_bytes (Some k)) = Some (8 * k).
  Proof. reflexivity. Qed.

  Lemma shift_pairs_ok off xs sh W Wt : shift_pairs nested_add off xs = Ok sh ->
    Forall (pair_ok Wt) xs -> Wt + off <= W -> W <= WORD_SIZE_BITS -> Forall (pair_ok W) sh.
  Proof.
    intros E HF Hw HW. revert sh E. induction xs as [|[ty ofs] xs IH]; intros sh; cbn [shift_pairs].
    - intros [= <-]. constructor.
    - inversion HF as [|? ? Hp Hr]; subst. destruct (nested_add ofs off) as [o|e|q] eqn:A; try discriminate.
      destruct (shift_pairs nested_add off xs) as [r|e|q]; try discriminate. intros [= <-].
      destruct Hp as (P1 & P2). cbn [fst snd] in *.
      assert (o = ofs + off) by (apply (add_exact _ _ _ A); change WORD_SIZE_BITS with 256 in HW; unfold two64; lia). subst o.
      constructor; [|apply IH; auto]. split; cbn [fst snd]; [lia|]. destruct (aty_width ty); [lia|exact I].
  Qed.

  Lemma packed_loop_ok_w rec v ts b : preach v -> type_of env v = Ok (Packed ts b) ->
    (forall s sn r sn', In s ts -> rec (s_typ s) sn = Ok (r, sn') -> res_ok (wd (s_typ s)) r) ->
    forall l sn pairs ps sn', incl l ts -> Forall (pair_ok (wd v)) pairs ->
      packed_loop nested_add fit rec l sn pairs = Ok (ps, sn') -> Forall (pair_ok (wd v)) ps.
  Proof.
    intros Hv T Hrec. induction l as [|s l IH]; intros sn pairs ps sn' Hl HP; cbn [packed_loop].
    - intros [= <- _]. exact HP.
    - assert (Hs : In s ts) by (apply Hl; left; reflexivity).
      destruct (d_spans D v ts b s Hv T Hs) as (S0 & S1 & S2). pose proof (preach_le v Hv) as Wv.
      destruct (rec (s_typ s) sn) as [[r sn1]|e|q] eqn:R; try discriminate. pose proof (Hrec s sn r sn1 Hs R) as Hr.
      destruct r as [ty|xs].
      + apply IH; [intros z Hz; apply Hl; right; exact Hz|]. apply Forall_app. split; [exact HP|]. constructor; [|constructor].
        split; cbn [fst snd]; [lia|]. cbn [res_ok] in Hr. destruct (aty_width ty); [lia|exact I].
      + destruct (negb fit || forallb (pair_fits (s_off s mod WORD_SIZE_BITS)) xs).
        * destruct (shift_pairs nested_add (s_off s) xs) as [sh|e|q] eqn:Sh; try discriminate.
          apply IH; [intros z Hz; apply Hl; right; exact Hz|]. apply Forall_app. split; [exact HP|].
          eapply shift_pairs_ok; [exact Sh|exact Hr|lia|exact Wv].
        * apply IH; [intros z Hz; apply Hl; right; exact Hz|]. apply Forall_app. split; [exact HP|]. constructor; [|constructor].
          split; cbn [fst snd]; [lia|exact I].
  Qed.

  Lemma packed_result_ok par b ps W : Forall (pair_ok W) ps -> res_ok W (packed_result par b ps).
  Proof.
    intros HP. unfold packed_result. destruct (parent_eqb par PPacked); [exact HP|].
    destruct ps as [|[t o] [|p2 ps]]; [exact I| |destruct b; [exact I|exact HP]].
    inversion HP as [|? ? (P1 & P2) _]; subst. cbn [fst snd] in *. destruct (o =? 0) eqn:E.
    - apply N.eqb_eq in E. subst o. cbn [res_ok]. destruct (aty_width t); [lia|exact I].
    - cbn [res_ok]. constructor; [|exact HP]. split; cbn [fst snd]; [lia|]. rewrite a_bytes_width.
      change BYTE_SIZE_BITS with 8. pose proof (N.mul_div_le o 8). lia.
  Qed.

  Lemma abi_impl_width : forall fuel v seen par r sn, preach v ->
    abi_impl nested_add fit env fuel v seen par = Ok (r, sn) -> res_ok (wd v) r.
  Proof.
    induction fuel as [|f IH]; intros v seen par r sn Hv; cbn [abi_impl]; [discriminate|].
    destruct (type_of env v) as [e|err|q] eqn:T; try discriminate.
    destruct (existsb (te_eqb e) seen && is_type_constructor e); [intros [= <- _]; exact I|].
    destruct (negb (has_expr env v)); [discriminate|].
    assert (Sub : forall el sn0 k, (forall tp sn1, k tp sn1 = Ok (r, sn) -> res_ok (wd v) r) ->
              sub_type (fun v1 sn1 => abi_impl nested_add fit env f v1 sn1 POther) el sn0 k = Ok (r, sn) -> res_ok (wd v) r).
    { intros el sn0 k Hk. unfold sub_type. destruct (abi_impl nested_add fit env f el sn0 POther) as [[r' sn1]|?|?]; try discriminate. apply Hk. }
    destruct e as [|id|width usage| |element length|key value|element|types is_struct|conflicts reasons];
      try (intros [= <- _]; exact I); try discriminate.
    - destruct (word_abi (Word width usage) width usage) as [t|?|?] eqn:W; try discriminate. intros [= <- _]. cbn [res_ok].
      pose proof (word_abi_width _ _ _ _ W) as Hw. destruct (aty_width t) as [w'|]; [|exact I]. destruct Hw as (w & -> & Hle).
      pose proof (d_word D v w usage Hv T). lia.
    - apply Sub. intros tp sn1 [= <- _]. exact I.
    - apply Sub. intros ktp sn1. apply Sub. intros vtp sn2 [= <- _]. exact I.
    - apply Sub. intros tp sn1 [= <- _]. exact I.
    - destruct (packed_loop nested_add fit _ types _ []) as [[ps sn']|?|?] eqn:L; try discriminate. intros [= <- _].
      apply packed_result_ok. eapply (packed_loop_ok_w _ v types is_struct Hv T); [|apply incl_refl|constructor|exact L].
      intros s sn0 r0 sn1 Hs R. eapply IH; [|exact R]. eapply pr_step; eauto.
  Qed.

  (* abi_packed_offsets: every row reported for the queried class starts inside the slot and, when its type has
     a known width, ends inside it *)
  Theorem abi_packed_offsets_gen fuel index a : abi_type_for nested_add fit env fuel v0 = Ok a ->
    forall e, In e (rows_of index a) ->
      fst (fst e) = index /\ snd (fst e) < WORD_SIZE_BITS /\
      match aty_width (snd e) with Some w => snd (fst e) + w <= WORD_SIZE_BITS | None => True end.
  Proof.
    unfold abi_type_for. destruct (abi_impl nested_add fit env fuel v0 [] PNone) as [[r sn]|?|?] eqn:A; try discriminate.
    intros [= <-]. pose proof (abi_impl_width _ _ _ _ _ _ pr_refl A) as Hr. pose proof (d_top D) as Ht.
    intros e He. destruct r as [t|ps]; cbn [rows_of In] in He.
    - destruct He as [<-|[]]. cbn [fst snd]. split; [reflexivity|]. change WORD_SIZE_BITS with 256 in *. split; [lia|].
      cbn [res_ok] in Hr. destruct (aty_width t); [lia|exact I].
    - apply in_map_iff in He as ([t o] & <- & Hin). cbn [fst snd]. cbn [res_ok] in Hr. rewrite Forall_forall in Hr.
      destruct (Hr _ Hin) as (P1 & P2). cbn [fst snd] in *. split; [reflexivity|]. split; [lia|]. destruct (aty_width t); [lia|exact I].
  Qed.
End Offsets.

(* both generated sums are exact below 2^64 *)
Lemma sat_add_exact a b o : (Ok (usize_sat_add a b) : outcome N unit) = Ok o -> a + b < two64 -> o = a + b.
Proof. intros [= <-] H. unfold usize_sat_add. apply N.min_l. lia. Qed.

Lemma checked_add_exact s a b o : usize_add s a b = Ok o -> a + b < two64 -> o = a + b.
Proof. unfold usize_add. destruct (a + b <? two64); [intros [= <-]; reflexivity|discriminate]. Qed.

(* ------------------------------------------------------------------ the decidable discipline is sound *)
Definition agrees (env : abi_env) (cls : list (tyvar * te)) : Prop :=
  forall v e, type_of env v = Ok e ->
    match e with Packed _ _ | Word _ _ => assoc_tv cls v = Some e | _ => True end.

Lemma fold_max_ge (ts : list span) s : In s ts -> s_off s + s_sz s <= fold_right (fun s m => N.max (s_off s + s_sz s) m) 0 ts.
Proof. induction ts as [|x ts IH]; cbn [In fold_right]; [tauto|]. intros [->|H]; [lia|]. specialize (IH H). lia. Qed.

Theorem wd_hyp_sound_lemma env cls v0 : agrees env cls -> wd_hyp cls v0 = true -> discipline env (wd_min cls) v0.
Proof.
  intros Ag H. unfold wd_hyp in H. apply andb_true_iff in H as [H Hfit]. apply andb_true_iff in H as [Hcl Htop].
  unfold reach_closed in Hcl. apply andb_true_iff in Hcl as [H0 Hcl]. rewrite forallb_forall in Hcl, Hfit.
  set (R := packed_reach cls v0) in *.
  assert (InR : forall v, preach env v0 v -> In v R).
  { induction 1 as [|v ts b s Hv IH T Hs].
    - apply existsb_exists in H0 as (x & Hx & E). apply N.eqb_eq in E. subst x. exact Hx.
    - pose proof (Ag v _ T) as A. cbn in A. specialize (Hcl v IH). unfold class_spans in Hcl. rewrite A in Hcl.
      rewrite forallb_forall in Hcl. specialize (Hcl s Hs). apply existsb_exists in Hcl as (x & Hx & E). apply N.eqb_eq in E. subst x. exact Hx. }
  constructor.
  - apply N.leb_le. exact Htop.
  - intros v ts b s Hv T Hs. pose proof (Ag v _ T) as A. cbn in A. specialize (Hfit v (InR v Hv)). unfold spans_fit, class_spans in Hfit.
    rewrite A in Hfit. rewrite forallb_forall in Hfit. specialize (Hfit s Hs). apply andb_true_iff in Hfit as [F1 F2].
    apply N.ltb_lt in F1. apply N.leb_le in F2. split; [exact F1|]. split; [|exact F2].
    unfold wd_min. rewrite A. cbn [te_min_width]. apply fold_max_ge. exact Hs.
  - intros v w u Hv T. pose proof (Ag v _ T) as A. cbn in A. unfold wd_min. rewrite A. cbn [te_min_width]. lia.
Qed.

(* the environment of an explicit class table: a variable without entry has no inference (type Any) *)
Definition env_cls (cls : list (tyvar * te)) : abi_env :=
  mk_env (fun v => match assoc_tv cls v with Some e => Some [e] | None => Some [] end) (fun _ => true).

Lemma env_cls_agrees cls : agrees (env_cls cls) cls.
Proof.
  intros v e. unfold type_of, env_cls. cbn [ty_data]. destruct (assoc_tv cls v) as [e'|].
  - intros [= <-]. destruct e'; auto.
  - intros [= <-]. exact I.
Qed.

(* ------------------------------------------------------------------ witnesses *)
(* the classes of the program 5f5460801c6f..1660015560015460801c6f..1660025500 (finding C12:K-nested), as
   dumped by `slxh tc-classes`: slot 0 = variable 1 *)
Definition nested_witness : list (tyvar * te) :=
  [(1, Packed [mk_span 10 128 128] false);
   (10, Packed [mk_span 24 0 128; mk_span 25 128 128] false);
   (24, Any);
   (25, Packed [mk_span 24 0 128; mk_span 25 128 128] false)].

(* pinned text (no guard on flattening): every span individually fits, the discipline fails, a row at bit 256 *)
Lemma nested_witness_pinned_facts :
  single_spans_ok nested_witness 1 = true /\ wd_hyp nested_witness 1 = false /\ known_nested_spans nested_witness 1 = true /\
  exists ty, abi_type_for abi_nested_add false (env_cls nested_witness) 5 1 = Ok (APacked [(AT "Any" [] [], 128); (ty, 256)]).
Proof. vm_compute. repeat split. eexists. reflexivity. Qed.

(* repaired text: the nested encoding of the 128-bit span does not fit into the rest of the word and is replaced
   by (Any, 128); the synthetic filler covers bits 0..128 *)
Lemma nested_witness_repaired :
  abi_type_for abi_nested_add true (env_cls nested_witness) 5 1 = Ok (APacked [(AT "Bytes" [1; 16] [], 0); (AT "Any" [] [], 128)]).
Proof. vm_compute. reflexivity. Qed.

(* the pinned sum `ofs + offset` without the guard: a closed class table on which abi_type_for panics *)
Definition overflow_witness : list (tyvar * te) :=
  [(1, Packed [mk_span 3 (two64 - 1) 256] false); (3, Packed [mk_span 5 8 8] false); (5, Word (Some 8) UBytes)].

Lemma overflow_witness_panics : abi_type_for (usize_add 9103) false (env_cls overflow_witness) 4 1 = Panic 9103.
Proof. vm_compute. reflexivity. Qed.

Lemma overflow_witness_saturates :
  abi_type_for (fun a b => Ok (usize_sat_add a b)) false (env_cls overflow_witness) 4 1
  = Ok (APacked [(AT "Bytes" [1; 2305843009213693951] [], 0); (AT "Bytes" [1; 1] [], two64 - 1)]).
Proof. vm_compute. reflexivity. Qed.

(* ------------------------------------------------------------------ shapes of reported types (support for C04) *)
Section Shapes.
  Variable nested_add : N -> N -> outcome N unit.
  Variable fit : bool.
  Variable env : abi_env.

  (* a class resolved to a sized word is reported with exactly that usage and width (20-byte address, bytesN, ...) *)
  Lemma abi_word_reported f v seen par width usage t :
    type_of env v = Ok (Word width usage) -> has_expr env v = true -> word_abi (Word width usage) width usage = Ok t ->
    abi_impl nested_add fit env (S f) v seen par = Ok (AType t, Word width usage :: seen).
  Proof.
    intros T H W. cbn [abi_impl]. rewrite T. cbn [is_type_constructor]. rewrite andb_false_r, seen_insert_on, H. cbn [negb]. rewrite W. reflexivity.
  Qed.

  (* a mapping class is reported as Mapping(key type, value type): nesting depth is preserved level by level *)
  Lemma abi_mapping_reported f v seen par k val :
    type_of env v = Ok (Mapping k val) -> has_expr env v = true -> existsb (te_eqb (Mapping k val)) seen = false ->
    abi_impl nested_add fit env (S f) v seen par =
      sub_type (fun v0 sn => abi_impl nested_add fit env f v0 sn POther) k (Mapping k val :: seen) (fun ktp sn1 =>
      sub_type (fun v0 sn => abi_impl nested_add fit env f v0 sn POther) val sn1 (fun vtp sn2 =>
        Ok (AType (AT "Mapping" [] [ktp; vtp]), sn2))).
  Proof.
    intros T H S. cbn [abi_impl]. rewrite T, S. cbn [andb]. rewrite seen_insert_on, H. reflexivity.
  Qed.

  Lemma abi_dynarray_reported f v seen par el :
    type_of env v = Ok (DynamicArray el) -> has_expr env v = true -> existsb (te_eqb (DynamicArray el)) seen = false ->
    abi_impl nested_add fit env (S f) v seen par =
      sub_type (fun v0 sn => abi_impl nested_add fit env f v0 sn POther) el (DynamicArray el :: seen) (fun tp sn =>
        Ok (AType (AT "DynArray" [] [tp]), sn)).
  Proof.
    intros T H S. cbn [abi_impl]. rewrite T, S. cbn [andb]. rewrite seen_insert_on, H. reflexivity.
  Qed.
End Shapes.

(* ------------------------------------------------------------------ the guard on nested encodings (repaired text) *)
Lemma sat_add_ltb a b : (usize_sat_add a b <? WORD_SIZE_BITS) = true <-> a + b < 256.
Proof. unfold usize_sat_add. change WORD_SIZE_BITS with 256. rewrite N.ltb_lt. unfold two64. lia. Qed.

Lemma sat_add_leb a b : (usize_sat_add a b <=? WORD_SIZE_BITS) = true <-> a + b <= 256.
Proof. unfold usize_sat_add. change WORD_SIZE_BITS with 256. rewrite N.leb_le. unfold two64. lia. Qed.

(* AbiType::bit_width (table read from the source) against the width the in-slot predicate of the checks uses *)
Lemma fits_width a start :
  match bit_width a with None => true | Some w => usize_sat_add start w <=? WORD_SIZE_BITS end = true ->
  match aty_width a with Some w => start + w <= 256 | None => True end.
Proof.
  destruct a as [name nums kids]. unfold bit_width, aty_width. cbn [bw_lookup bit_width_table].
  repeat match goal with
         | |- context [String.eqb name ?s] => destruct (String.eqb name s) eqn:?; cbn [orb]
         end;
    try (intros _; exact I);
    try (destruct (opt_num nums) as [w|]; cbn [option_map]; [|intros _; exact I]; rewrite sat_add_leb;
         unfold usize_sat_mul; change BYTE_SIZE_BITS with 8; unfold two64; intros; lia);
    try (rewrite sat_add_leb; unfold ADDRESS_WIDTH_BITS, SELECTOR_WIDTH_BITS, FUNCTION_WIDTH_BITS, BOOL_WIDTH_BITS; intros; lia).
Qed.

Lemma pair_fits_spec siw ty ofs : pair_fits siw (ty, ofs) = true ->
  siw + ofs < 256 /\ match aty_width ty with Some w => siw + ofs + w <= 256 | None => True end.
Proof.
  unfold pair_fits. cbn [fst snd]. intros H. apply andb_true_iff in H as [H1 H2]. apply sat_add_ltb in H1. split; [exact H1|].
  assert (E : usize_sat_add siw ofs = siw + ofs) by (unfold usize_sat_add, two64; lia). rewrite E in H2. exact (fits_width ty (siw + ofs) H2).
Qed.

Section Rows.
  Variable nested_add : N -> N -> outcome N unit.
  Hypothesis add_exact : forall a b o, nested_add a b = Ok o -> a + b < two64 -> o = a + b.
  Variable env : abi_env.

  Definition row_ok (p : aty * N) : Prop :=
    snd p < 256 /\ match aty_width (fst p) with Some w => snd p + w <= 256 | None => True end.

  (* where a reported pair of a Packed class comes from: directly from a span (its offset), or from the nested
     encoding of a span, d bits after the span's start and inside the word the span starts in *)
  Definition origin (s : span) (p : aty * N) : Prop :=
    snd p = s_off s \/
    exists d, snd p = s_off s + d /\ s_off s mod 256 + d < 256 /\
              match aty_width (fst p) with Some w => s_off s mod 256 + d + w <= 256 | None => True end.

  Lemma origin_same_word s p : origin s p -> snd p / 256 = s_off s / 256.
  Proof.
    intros [->|(d & -> & H & _)]; [reflexivity|]. pose proof (N.div_mod (s_off s) 256 ltac:(lia)) as E.
    symmetry. apply (N.div_unique _ 256 _ (s_off s mod 256 + d)); [exact H|]. lia.
  Qed.

  Lemma shift_pairs_origin s xs sh : s_off s < two64 ->
    forallb (pair_fits (s_off s mod WORD_SIZE_BITS)) xs = true -> shift_pairs nested_add (s_off s) xs = Ok sh ->
    Forall (origin s) sh.
  Proof.
    intros Hs. change WORD_SIZE_BITS with 256. revert sh. induction xs as [|[ty ofs] xs IH]; intros sh HF; cbn [shift_pairs].
    - intros [= <-]. constructor.
    - cbn [forallb] in HF. apply andb_true_iff in HF as [H1 H2]. apply pair_fits_spec in H1 as (A & B).
      destruct (nested_add ofs (s_off s)) as [o|e|q] eqn:E; try discriminate.
      destruct (shift_pairs nested_add (s_off s) xs) as [r|e|q]; try discriminate. intros [= <-].
      assert (Hlt : ofs + s_off s < two64).
      { pose proof (N.div_mod (s_off s) 256 ltac:(lia)) as D. pose proof (N.mod_lt (s_off s) 256 ltac:(lia)) as M.
        assert (s_off s / 256 < 2 ^ 56) by (apply N.div_lt_upper_bound; [lia|]; unfold two64 in Hs; lia). unfold two64. lia. }
      pose proof (add_exact _ _ _ E Hlt) as ->. constructor; [|apply IH; auto].
      right. exists ofs. cbn [fst snd]. split; [lia|]. split; [exact A|]. destruct (aty_width ty); [lia|exact I].
  Qed.

  (* for ALL class tables: every pair a Packed class reports lies at the start of one of its spans or, when it
     comes out of a nested encoding, inside the word that span starts in -- no discipline needed *)
  Lemma packed_loop_origin rec L : (forall s, In s L -> s_off s < two64) ->
    forall l sn pairs ps sn', incl l L -> Forall (fun p => exists s, In s L /\ origin s p) pairs ->
      packed_loop nested_add true rec l sn pairs = Ok (ps, sn') -> Forall (fun p => exists s, In s L /\ origin s p) ps.
  Proof.
    intros HL. induction l as [|s l IH]; intros sn pairs ps sn' Hl HP; cbn [packed_loop].
    - intros [= <- _]. exact HP.
    - assert (Hs : In s L) by (apply Hl; left; reflexivity).
      assert (Hl' : incl l L) by (intros z Hz; apply Hl; right; exact Hz).
      destruct (rec (s_typ s) sn) as [[r sn1]|e|q]; try discriminate. destruct r as [ty|xs].
      + apply IH; [exact Hl'|]. apply Forall_app. split; [exact HP|]. constructor; [|constructor]. exists s. split; [exact Hs|]. left. reflexivity.
      + cbn [negb orb]. destruct (forallb (pair_fits (s_off s mod WORD_SIZE_BITS)) xs) eqn:F.
        * destruct (shift_pairs nested_add (s_off s) xs) as [sh|e|q] eqn:Sh; try discriminate.
          apply IH; [exact Hl'|]. apply Forall_app. split; [exact HP|].
          pose proof (shift_pairs_origin s xs sh (HL s Hs) F Sh) as HO. rewrite Forall_forall in *. intros p Hp. exists s. auto.
        * apply IH; [exact Hl'|]. apply Forall_app. split; [exact HP|]. constructor; [|constructor]. exists s. split; [exact Hs|]. left. reflexivity.
  Qed.

  Theorem abi_nested_in_word_gen fuel v seen ts b ps sn :
    type_of env v = Ok (Packed ts b) -> (forall s, In s ts -> s_off s < two64) ->
    abi_impl nested_add true env fuel v seen PPacked = Ok (APacked ps, sn) ->
    Forall (fun p => exists s, In s ts /\ origin s p) ps.
  Proof.
    intros T HL. destruct fuel as [|f]; cbn [abi_impl]; [discriminate|]. rewrite T.
    destruct (existsb (te_eqb (Packed ts b)) seen && is_type_constructor (Packed ts b)); [discriminate|].
    destruct (negb (has_expr env v)); [discriminate|].
    destruct (packed_loop nested_add true _ ts _ []) as [[ps' sn']|?|?] eqn:L; try discriminate.
    unfold packed_result. cbn [parent_eqb]. intros [= <- _].
    eapply packed_loop_origin; [exact HL|apply incl_refl|constructor|exact L].
  Qed.

  (* a single type reported for a class (inside a Packed parent) has a known width only if the class is a sized
     word, and then at most that width *)
  Lemma atype_width_word fit fuel v seen t sn w' :
    abi_impl nested_add fit env fuel v seen PPacked = Ok (AType t, sn) -> aty_width t = Some w' ->
    exists w u, type_of env v = Ok (Word (Some w) u) /\ w' <= w.
  Proof.
    destruct fuel as [|f]; cbn [abi_impl]; [discriminate|]. destruct (type_of env v) as [e|?|?]; try discriminate.
    destruct (existsb (te_eqb e) seen && is_type_constructor e); [intros [= <- _]; discriminate|].
    destruct (negb (has_expr env v)); [discriminate|].
    destruct e as [|id|width usage| |element length|key value|element|types is_struct|conflicts reasons];
      try (intros [= <- _]; discriminate); try discriminate.
    - destruct (word_abi (Word width usage) width usage) as [t'|?|?] eqn:W; try discriminate. intros [= <- _] Hw.
      pose proof (word_abi_width _ _ _ _ W) as HW. rewrite Hw in HW. destruct HW as (w & -> & Hle). eauto.
    - unfold sub_type. destruct (abi_impl nested_add fit env f element _ POther) as [[r' sn']|?|?]; try discriminate. intros [= <- _]. discriminate.
    - unfold sub_type. destruct (abi_impl nested_add fit env f key _ POther) as [[r' sn']|?|?]; try discriminate.
      destruct (abi_impl nested_add fit env f value sn' POther) as [[r'' sn'']|?|?]; try discriminate. intros [= <- _]. discriminate.
    - unfold sub_type. destruct (abi_impl nested_add fit env f element _ POther) as [[r' sn']|?|?]; try discriminate. intros [= <- _]. discriminate.
    - destruct (packed_loop nested_add fit _ types _ []) as [[ps sn']|?|?]; try discriminate; try (unfold packed_result; cbn [parent_eqb]; discriminate).
  Qed.

  Lemma shift_pairs_rows off xs sh : off < 256 ->
    forallb (pair_fits (off mod WORD_SIZE_BITS)) xs = true -> shift_pairs nested_add off xs = Ok sh -> Forall row_ok sh.
  Proof.
    intros Ho. change WORD_SIZE_BITS with 256. rewrite (N.mod_small off 256 Ho). revert sh.
    induction xs as [|[ty ofs] xs IH]; intros sh HF; cbn [shift_pairs].
    - intros [= <-]. constructor.
    - cbn [forallb] in HF. apply andb_true_iff in HF as [H1 H2]. apply pair_fits_spec in H1 as (A & B).
      destruct (nested_add ofs off) as [o|e|q] eqn:E; try discriminate.
      destruct (shift_pairs nested_add off xs) as [r|e|q]; try discriminate. intros [= <-].
      assert (o = ofs + off) by (apply (add_exact _ _ _ E); unfold two64; lia). subst o.
      constructor; [|apply IH; auto]. split; cbn [fst snd]; [lia|]. destruct (aty_width ty); [lia|exact I].
  Qed.

  Lemma packed_loop_rows rec ts :
    (forall s, In s ts -> s_off s < 256) ->
    (forall s sn t sn' w', In s ts -> rec (s_typ s) sn = Ok (AType t, sn') -> aty_width t = Some w' -> s_off s + w' <= 256) ->
    forall l sn pairs ps sn', incl l ts -> Forall row_ok pairs ->
      packed_loop nested_add true rec l sn pairs = Ok (ps, sn') -> Forall row_ok ps.
  Proof.
    intros Hoff Hrec. induction l as [|s l IH]; intros sn pairs ps sn' Hl HP; cbn [packed_loop].
    - intros [= <- _]. exact HP.
    - assert (Hs : In s ts) by (apply Hl; left; reflexivity).
      assert (Hl' : incl l ts) by (intros z Hz; apply Hl; right; exact Hz).
      destruct (rec (s_typ s) sn) as [[r sn1]|e|q] eqn:R; try discriminate. destruct r as [ty|xs].
      + apply IH; [exact Hl'|]. apply Forall_app. split; [exact HP|]. constructor; [|constructor].
        split; cbn [fst snd]; [exact (Hoff s Hs)|]. destruct (aty_width ty) as [w'|] eqn:W; [|exact I]. exact (Hrec s sn ty sn1 w' Hs R W).
      + cbn [negb orb]. destruct (forallb (pair_fits (s_off s mod WORD_SIZE_BITS)) xs) eqn:F.
        * destruct (shift_pairs nested_add (s_off s) xs) as [sh|e|q] eqn:Sh; try discriminate.
          apply IH; [exact Hl'|]. apply Forall_app. split; [exact HP|]. exact (shift_pairs_rows _ _ _ (Hoff s Hs) F Sh).
        * apply IH; [exact Hl'|]. apply Forall_app. split; [exact HP|]. constructor; [|constructor].
          split; cbn [fst snd]; [exact (Hoff s Hs)|exact I].
  Qed.

  Lemma packed_result_rows b ps index : Forall row_ok ps ->
    forall e, In e (rows_of index (packed_result PNone b ps)) ->
      fst (fst e) = index /\ snd (fst e) < WORD_SIZE_BITS /\
      match aty_width (snd e) with Some w => snd (fst e) + w <= WORD_SIZE_BITS | None => True end.
  Proof.
    intros HP e. unfold packed_result. cbn [parent_eqb]. change WORD_SIZE_BITS with 256.
    assert (G : forall l, Forall row_ok l -> In e (rows_of index (APacked l)) ->
                fst (fst e) = index /\ snd (fst e) < 256 /\ match aty_width (snd e) with Some w => snd (fst e) + w <= 256 | None => True end).
    { intros l Hl He. cbn [rows_of] in He. apply in_map_iff in He as ([t o] & <- & Hin). rewrite Forall_forall in Hl.
      destruct (Hl _ Hin) as (A & B). cbn [fst snd] in *. auto. }
    destruct ps as [|[t o] [|p2 ps]].
    - cbn [rows_of In]. intros [<-|[]]. cbn. repeat split; try lia.
    - inversion HP as [|? ? (A & B) _]; subst. cbn [fst snd] in *. destruct (o =? 0) eqn:E.
      + apply N.eqb_eq in E. subst o. cbn [rows_of In]. intros [<-|[]]. cbn [fst snd]. split; [reflexivity|]. split; [lia|].
        destruct (aty_width t); [lia|exact I].
      + apply G. constructor; [|exact HP]. split; cbn [fst snd]; [lia|]. rewrite a_bytes_width.
        change BYTE_SIZE_BITS with 8. pose proof (N.mul_div_le o 8). lia.
    - destruct b; [|apply G; exact HP]. cbn [rows_of In]. intros [<-|[]]. cbn. repeat split; try lia.
  Qed.

  (* abi_rows_in_slot: hypotheses ONLY about the queried class itself -- its spans start inside the slot and a
     span whose type is a sized word ends inside it; a sized-word class is at most 256 bits wide -- and nothing
     about nested classes: every reported row starts inside the slot and known widths end inside it *)
  Theorem abi_rows_in_slot_gen fuel v0 index a :
    (forall ts b s, type_of env v0 = Ok (Packed ts b) -> In s ts ->
       s_off s < 256 /\ forall w u, type_of env (s_typ s) = Ok (Word (Some w) u) -> s_off s + w <= 256) ->
    (forall w u, type_of env v0 = Ok (Word (Some w) u) -> w <= 256) ->
    abi_type_for nested_add true env fuel v0 = Ok a ->
    forall e, In e (rows_of index a) ->
      fst (fst e) = index /\ snd (fst e) < WORD_SIZE_BITS /\
      match aty_width (snd e) with Some w => snd (fst e) + w <= WORD_SIZE_BITS | None => True end.
  Proof.
    intros Htop Hword. unfold abi_type_for. destruct (abi_impl nested_add true env fuel v0 [] PNone) as [[r sn]|?|?] eqn:A; try discriminate.
    intros [= <-]. destruct fuel as [|f]; cbn [abi_impl] in A; [discriminate|].
    destruct (type_of env v0) as [e0|?|?] eqn:T; try discriminate. cbn [existsb andb] in A.
    destruct (negb (has_expr env v0)); [discriminate|].
    assert (Single : forall t, aty_width t = None -> forall e, In e (rows_of index (AType t)) ->
              fst (fst e) = index /\ snd (fst e) < WORD_SIZE_BITS /\
              match aty_width (snd e) with Some w => snd (fst e) + w <= WORD_SIZE_BITS | None => True end).
    { intros t Ht e [<-|[]]. cbn [fst snd]. rewrite Ht. change WORD_SIZE_BITS with 256. repeat split; try lia. }
    destruct e0 as [|id|width usage| |element length|key value|element|types is_struct|conflicts reasons]; try discriminate.
    - inversion A; subst. apply Single. reflexivity.
    - destruct (word_abi (Word width usage) width usage) as [t|?|?] eqn:W; try discriminate. inversion A; subst.
      intros e [<-|[]]. cbn [fst snd]. change WORD_SIZE_BITS with 256. split; [reflexivity|]. split; [lia|].
      pose proof (word_abi_width _ _ _ _ W) as HW. destruct (aty_width t) as [w'|]; [|exact I].
      destruct HW as (w & -> & Hle). pose proof (Hword w usage eq_refl). lia.
    - inversion A; subst. apply Single. reflexivity.
    - unfold sub_type in A. destruct (abi_impl nested_add true env f element _ POther) as [[r' sn']|?|?]; try discriminate.
      inversion A; subst. apply Single. reflexivity.
    - unfold sub_type in A. destruct (abi_impl nested_add true env f key _ POther) as [[r' sn']|?|?]; try discriminate.
      destruct (abi_impl nested_add true env f value sn' POther) as [[r'' sn'']|?|?]; try discriminate.
      inversion A; subst. apply Single. reflexivity.
    - unfold sub_type in A. destruct (abi_impl nested_add true env f element _ POther) as [[r' sn']|?|?]; try discriminate.
      inversion A; subst. apply Single. reflexivity.
    - destruct (packed_loop nested_add true _ types _ []) as [[ps sn']|?|?] eqn:L; try discriminate. inversion A; subst.
      apply packed_result_rows.
      eapply (packed_loop_rows _ types); [| |apply incl_refl|constructor|exact L].
      + intros s Hs. exact (proj1 (Htop types is_struct s eq_refl Hs)).
      + intros s sn0 t sn1 w' Hs R Hw. cbn beta in R. destruct (atype_width_word _ _ _ _ _ _ _ R Hw) as (w & u & Tw & Hle).
        pose proof (proj2 (Htop types is_struct s eq_refl Hs) w u Tw). lia.
    - inversion A; subst. apply Single. reflexivity.
  Qed.
End Rows.
