(* Proofs about the six slot-related lifting passes (coq/PassesSlots.v).  Statements that the properties
   C04 / C05 / C06 use are re-exported, statement only, by props/PassesSlots.v. *)
From Coq Require Import String.
From SLX Require Import Base Word256 gen.ValueSig gen.Constants gen.PassOrder SymVal Fold PassesSlots.
From SLX.proofs Require Import FoldProofs.
Open Scope N_scope.
Set Default Timeout 120.

(* ------------------------------------------------------------------------------------------
   0. generic facts *)

Lemma depth_node t a args : sv_depth (Node t a args) = S (fold_right Nat.max 0%nat (map sv_depth args)).
Proof. reflexivity. Qed.

Lemma depth_child t a args x : In x args -> (sv_depth x < sv_depth (Node t a args))%nat.
Proof.
  rewrite depth_node. induction args as [|y r IH]; cbn [In map fold_right]; [tauto|].
  intros [->|H]; [lia|]. specialize (IH H). lia.
Qed.

Lemma depth_pos v : (1 <= sv_depth v)%nat.
Proof. destruct v. rewrite depth_node. lia. Qed.

Lemma max_map_le (f : sv -> sv) args :
  Forall (fun x => (sv_depth (f x) <= sv_depth x)%nat) args ->
  (fold_right Nat.max 0%nat (map sv_depth (map f args)) <= fold_right Nat.max 0%nat (map sv_depth args))%nat.
Proof. induction 1; cbn [map fold_right]; lia. Qed.

(* induction on the depth: the hypothesis is available for every strictly shallower tree *)
Lemma sv_depth_ind (P : sv -> Prop) :
  (forall v, (forall u, (sv_depth u < sv_depth v)%nat -> P u) -> P v) -> forall v, P v.
Proof.
  intros H v. remember (sv_depth v) as n eqn:E. revert v E.
  induction n as [n IH] using lt_wf_ind. intros v ->. apply H. intros u Hu. exact (IH _ Hu u eq_refl).
Qed.

Lemma map_ext_in' {A B} (f g : A -> B) l : (forall x, In x l -> f x = g x) -> map f l = map g l.
Proof. apply map_ext_in. Qed.

Lemma map_id_in {A} (f : A -> A) l : (forall x, In x l -> f x = x) -> map f l = l.
Proof. intros H. rewrite <- (map_id l) at 2. now apply map_ext_in. Qed.

Lemma fold_known w : constant_fold (Known w) = Known w.
Proof. unfold Known. rewrite fold_node, find_arm_known, transform_ctor_id. reflexivity. Qed.

(* constant folding never makes a tree deeper: the fuel of da_lift is sufficient *)
Lemma depth_fold_le v : (sv_depth (constant_fold v) <= sv_depth v)%nat.
Proof.
  induction v as [t a args IH] using sv_ind'.
  assert (Hm := max_map_le constant_fold args IH).
  rewrite fold_node.
  assert (Hgen : (sv_depth (Node (transform_ctor t) a (map constant_fold args)) <= sv_depth (Node t a args))%nat).
  { rewrite !depth_node. lia. }
  destruct (find_arm t) as [r|] eqn:Ef; [|exact Hgen].
  destruct (arm_matches r a args) eqn:Em; [|exact Hgen].
  apply find_arm_some in Ef as (Hok & _ & _).
  apply arm_matches_true in Em as [-> Hl].
  rewrite run_arm_ok by (rewrite ?map_length; auto).
  destruct (all_words (map constant_fold args)).
  - unfold Known. rewrite !depth_node. cbn [map fold_right]. lia.
  - rewrite !depth_node. lia.
Qed.

Ltac depth_solve := unfold Known; repeat (rewrite depth_node; cbn [map fold_right]); lia.

(* destruct whatever a stuck match in H is waiting for, until H is an equation between constructors *)
Ltac crack H :=
  repeat match type of H with
         | context [match ?x with _ => _ end] => destruct x; try discriminate H
         end.

(* an equation between two stuck matches: destruct the scrutinees until both sides compute *)
Ltac eq_crack :=
  try reflexivity;
  repeat (match goal with
          | |- context [match ?x with _ => _ end] => is_var x; destruct x
          end; try reflexivity).

(* ------------------------------------------------------------------------------------------
   1. unfolding equations: every pass against a non-recursive view of the node *)

Definition generic (f : sv -> sv) (v : sv) : sv :=
  match v with Node t a args => Node t a (map f args) end.

Definition known_view (v : sv) : option N :=
  match v with Node T_KnownData [w] [] => Some w | _ => None end.
Lemma known_view_some v w : known_view v = Some w -> v = Known w.
Proof.
  destruct v as [t a l]. destruct t; try discriminate.
  destruct a as [|w' [|? ?]]; try discriminate. destruct l; try discriminate.
  cbn. now intros [= ->].
Qed.

(* access nodes of the shape the guards and the proxy pass match *)
Definition rw_view (v : sv) : option (tag * list N * sv * sv) :=
  match v with
  | Node T_SLoad a [k; x] => Some (T_SLoad, a, k, x)
  | Node T_StorageWrite a [k; x] => Some (T_StorageWrite, a, k, x)
  | _ => None
  end.
Definition uw_view (v : sv) : option (list N * sv) :=
  match v with Node T_UnwrittenStorageValue a [k] => Some (a, k) | _ => None end.

Lemma rw_view_some v t a k x :
  rw_view v = Some (t, a, k, x) -> v = Node t a [k; x] /\ is_rw_tag t = true.
Proof.
  destruct v as [t' a' l]. destruct t'; try discriminate;
    destruct l as [|k' [|x' [|? ?]]]; try discriminate; cbn; intros [= <- <- <- <-]; now split.
Qed.
Lemma uw_view_some v a k : uw_view v = Some (a, k) -> v = Node T_UnwrittenStorageValue a [k].
Proof.
  destruct v as [t' a' l]. destruct t'; try discriminate.
  destruct l as [|k' [|? ?]]; try discriminate. cbn. now intros [= <- <-].
Qed.
Lemma rw_view_rw t a k x : is_rw_tag t = true -> rw_view (Node t a [k; x]) = Some (t, a, k, x).
Proof. destruct t; try discriminate; reflexivity. Qed.
Lemma rw_view_uw_excl v p : rw_view v = Some p -> uw_view v = None.
Proof. destruct v as [t a l]. destruct t; try discriminate; reflexivity. Qed.

(* a node that neither view matches keeps its access-ness under any generic rebuild *)
Lemma views_none_access t a args :
  rw_view (Node t a args) = None -> uw_view (Node t a args) = None ->
  is_access_tag t = true -> True.
Proof. trivial. Qed.

Section Eqs.
  Variable keccak : list byte -> N.
  Variable table : list (N * N).
  Notation hashed_slots := (hashed_slots table).
  Notation proxy_slots := (proxy_slots keccak).
  Notation unpick_proxy := (unpick_proxy keccak).
  Notation unpick_sha3 := (unpick_sha3 keccak).
  Notation lookup_hash := (lookup_hash table).

  (* ---- hashed_slots *)
  Lemma hashed_eq v :
    hashed_slots v =
    match known_view v with
    | Some w => match lookup_hash w with Some i => Node T_Sha3 [] [Known i] | None => v end
    | None => generic hashed_slots v
    end.
  Proof.
    destruct v as [t a args]. destruct t; try (cbn; rewrite ?transform_ctor_id; reflexivity).
    destruct a as [|w [|? ?]]; try reflexivity.
    destruct args; reflexivity.
  Qed.

  (* ---- proxy_slots *)
  Definition proxy_key (k : sv) : sv := match unpick_proxy k with Some k' => k' | None => proxy_slots k end.
  Lemma proxy_eq v :
    proxy_slots v =
    match rw_view v with
    | Some (t, a, k, x) => Node t a [proxy_key k; proxy_slots x]
    | None => generic proxy_slots v
    end.
  Proof.
    destruct v as [t a args]. destruct t; cbn; eq_crack.
  Qed.

  (* ---- mapping index *)
  Definition mi_view (v : sv) : option (sv * sv) :=
    match v with Node T_Sha3 _ [Node T_Concat _ [k; s]] => Some (k, s) | _ => None end.
  Lemma mi_view_some v k s :
    mi_view v = Some (k, s) -> exists a a', v = Node T_Sha3 a [Node T_Concat a' [k; s]].
  Proof.
    unfold mi_view. intros H. crack H. injection H as <- <-. eauto.
  Qed.
  Lemma mi_ins_eq v :
    mi_ins v =
    match mi_view v with
    | Some (k, s) => Node T_MappingIndex [0] [mi_ins s; mi_ins k]
    | None => generic mi_ins v
    end.
  Proof.
    destruct v as [t a args]. destruct t; cbn; eq_crack.
  Qed.
  Lemma mapping_index_eq v :
    mapping_index v =
    match rw_view v with
    | Some (t, a, k, x) => Node t a [mi_ins k; mi_ins x]
    | None => match uw_view v with
              | Some (a, k) => Node T_UnwrittenStorageValue a [mi_ins k]
              | None => generic mapping_index v
              end
    end.
  Proof.
    destruct v as [t a args]. destruct t; cbn; eq_crack.
  Qed.

  (* ---- dynamic array: the fuel disappears *)
  Lemma da_view_some v s b i :
    da_view v = Some (s, b, i) ->
    exists a l r, v = Node T_Add a [l; r] /\ i = r /\
                  (sv_depth (if b then constant_fold s else s) < sv_depth v)%nat.
  Proof.
    destruct v as [t a args]. destruct t; try discriminate.
    destruct args as [|l [|r [|? ?]]]; try discriminate.
    cbn [da_view]. intros H. exists a, l, r. split; [reflexivity|].
    assert (Hd : forall y d, sha3_data y = Some d -> (sv_depth d < sv_depth y)%nat).
    { intros [ty ay ly] d. destruct ty; try discriminate. destruct ly as [|d' [|? ?]]; try discriminate.
      cbn [sha3_data]. intros [= <-]. apply depth_child. now left. }
    assert (Hl : (sv_depth l < sv_depth (Node T_Add a [l; r]))%nat) by (apply depth_child; cbn; auto).
    assert (Hr : (sv_depth r < sv_depth (Node T_Add a [l; r]))%nat) by (apply depth_child; cbn; auto).
    assert (Hsel : forall d, (match sha3_data l with Some d => Some d | None => sha3_data r end) = Some d ->
                             (sv_depth d < sv_depth (Node T_Add a [l; r]))%nat).
    { intros d. destruct (sha3_data l) eqn:El.
      - intros [= <-]. apply Hd in El. lia.
      - intros Er. apply Hd in Er. lia. }
    destruct (match sha3_data l with Some d => Some d | None => sha3_data r end) as [d|]; [|discriminate].
    specialize (Hsel d eq_refl).
    destruct d as [td ad ld].
    destruct td; try (injection H as <- <- <-; split; [reflexivity|exact Hsel]).
    destruct ld as [|x [|? ?]]; try discriminate.
    injection H as <- <- <-. split; [reflexivity|].
    assert (sv_depth x < sv_depth (Node T_Concat ad [x]))%nat by (apply depth_child; now left).
    pose proof (depth_fold_le x). lia.
  Qed.

  Lemma da_lift_f_stable n v : (sv_depth v <= n)%nat -> da_lift_f n v = da_lift_f (sv_depth v) v.
  Proof.
    revert n. induction v as [v IH] using sv_depth_ind. intros n Hn.
    destruct n as [|n]; [pose proof (depth_pos v); lia|].
    destruct (sv_depth v) as [|m] eqn:Ed; [pose proof (depth_pos v); lia|].
    cbn [da_lift_f].
    assert (E : forall u, (sv_depth u < S m)%nat -> da_lift_f n u = da_lift_f m u).
    { intros u Hu. rewrite (IH u Hu n) by lia. symmetry. apply IH; [exact Hu|lia]. }
    destruct (da_view v) as [[[s b] i]|] eqn:Ev.
    - apply da_view_some in Ev as (a & l & r & -> & -> & Hs).
      assert (Hr : (sv_depth r < sv_depth (Node T_Add a [l; r]))%nat) by (apply depth_child; cbn; auto).
      rewrite Ed in Hs, Hr. rewrite (E _ Hs), (E _ Hr). reflexivity.
    - destruct v as [t a args]. f_equal. apply map_ext_in. intros x Hx.
      pose proof (depth_child t a args x Hx) as Hc. rewrite Ed in Hc. now apply E.
  Qed.

  Lemma da_lift_f_enough n v : (sv_depth v <= n)%nat -> da_lift_f n v = da_lift v.
  Proof. intros H. unfold da_lift. now apply da_lift_f_stable. Qed.

  Lemma da_lift_eq v :
    da_lift v =
    match da_view v with
    | Some (s, b, i) => Node T_DynamicArrayIndex [] [da_lift (if b then constant_fold s else s); da_lift i]
    | None => generic da_lift v
    end.
  Proof.
    unfold da_lift at 1. destruct (sv_depth v) as [|m] eqn:Ed; [pose proof (depth_pos v); lia|].
    cbn [da_lift_f].
    destruct (da_view v) as [[[s b] i]|] eqn:Ev.
    - apply da_view_some in Ev as (a & l & r & -> & -> & Hs).
      assert (Hr : (sv_depth r < sv_depth (Node T_Add a [l; r]))%nat) by (apply depth_child; cbn; auto).
      rewrite Ed in Hs, Hr. rewrite !da_lift_f_enough by lia. reflexivity.
    - destruct v as [t a args]. cbn [generic]. rewrite transform_ctor_id. f_equal. apply map_ext_in. intros x Hx.
      pose proof (depth_child t a args x Hx) as Hc. rewrite Ed in Hc. apply da_lift_f_enough. lia.
  Qed.

  Lemma dyn_array_eq v :
    dyn_array v =
    match rw_view v with
    | Some (t, a, k, x) => Node t a [da_lift k; da_lift x]
    | None => match uw_view v with
              | Some (a, k) => Node T_UnwrittenStorageValue a [da_lift k]
              | None => generic dyn_array v
              end
    end.
  Proof.
    destruct v as [t a args]. destruct t; cbn; eq_crack.
  Qed.

  (* ---- storage slots *)
  Definition wrap_slot (s : sv) : sv := if is_slot s then s else Node T_StorageSlot [] [storage_slots s].
  (* the four constructors with a key / base operand first and one more operand *)
  Definition ss_view (v : sv) : option (tag * list N * sv * sv) :=
    match v with
    | Node T_MappingIndex a [s; k] => Some (T_MappingIndex, a, s, k)
    | Node T_StorageWrite a [k; x] => Some (T_StorageWrite, a, k, x)
    | Node T_DynamicArrayIndex a [s; i] => Some (T_DynamicArrayIndex, a, s, i)
    | Node T_SLoad a [k; x] => Some (T_SLoad, a, k, x)
    | _ => None
    end.
  Definition is_ss_tag (t : tag) : bool :=
    match t with T_MappingIndex | T_StorageWrite | T_DynamicArrayIndex | T_SLoad => true | _ => false end.
  Lemma ss_view_some v t a s x : ss_view v = Some (t, a, s, x) -> v = Node t a [s; x] /\ is_ss_tag t = true.
  Proof.
    destruct v as [t' a' l]. destruct t'; try discriminate;
      destruct l as [|k' [|x' [|? ?]]]; try discriminate; cbn; intros [= <- <- <- <-]; now split.
  Qed.
  Lemma ss_view_of t a s x : is_ss_tag t = true -> ss_view (Node t a [s; x]) = Some (t, a, s, x).
  Proof. destruct t; try discriminate; reflexivity. Qed.
  Lemma storage_slots_eq v :
    storage_slots v =
    match ss_view v with
    | Some (t, a, s, x) => Node t a [wrap_slot s; storage_slots x]
    | None => generic storage_slots v
    end.
  Proof.
    destruct v as [t a args]. destruct t; cbn; eq_crack.
  Qed.

  (* ---- mapping offset *)
  Definition mi_node_view (v : sv) : option (sv * sv) :=
    match v with Node T_MappingIndex _ [s; k] => Some (s, k) | _ => None end.
  Definition mo_view (v : sv) : option (sv * sv * N) :=
    match v with
    | Node T_Add _ [l; r] =>
        match mi_node_view l, known_view r with
        | Some (s, k), Some w => Some (s, k, w)
        | _, _ => match known_view l, mi_node_view r with
                  | Some w, Some (s, k) => Some (s, k, w)
                  | _, _ => None
                  end
        end
    | _ => None
    end.
  Lemma mi_node_view_some v s k : mi_node_view v = Some (s, k) -> exists a, v = Node T_MappingIndex a [s; k].
  Proof.
    destruct v as [t a l]. destruct t; try discriminate.
    destruct l as [|s' [|k' [|? ?]]]; try discriminate. cbn. intros [= <- <-]. now exists a.
  Qed.
  Lemma mo_view_some v s k w :
    mo_view v = Some (s, k, w) ->
    exists a am, v = Node T_Add a [Node T_MappingIndex am [s; k]; Known w] \/
                 v = Node T_Add a [Known w; Node T_MappingIndex am [s; k]].
  Proof.
    destruct v as [t a l]. destruct t; try discriminate.
    destruct l as [|x [|y [|? ?]]]; try discriminate. cbn [mo_view].
    destruct (mi_node_view x) as [[s1 k1]|] eqn:E1; destruct (known_view y) as [w1|] eqn:E2.
    - intros [= <- <- <-]. apply mi_node_view_some in E1 as [am ->]. apply known_view_some in E2 as ->.
      exists a, am. now left.
    - apply mi_node_view_some in E1 as [am ->]. discriminate.
    - destruct (known_view x) as [w2|] eqn:E3; [|discriminate].
      destruct (mi_node_view y) as [[s2 k2]|] eqn:E4; [|discriminate].
      apply known_view_some in E2 as ->. discriminate.
    - destruct (known_view x) as [w2|] eqn:E3; [|discriminate].
      destruct (mi_node_view y) as [[s2 k2]|] eqn:E4; [|discriminate].
      intros [= <- <- <-]. apply known_view_some in E3 as ->. apply mi_node_view_some in E4 as [am ->].
      exists a, am. now right.
  Qed.
  Lemma mapping_offset_eq v :
    mapping_offset v =
    match mo_view v with
    | Some (s, k, w) => Node T_MappingIndex [1; as_usize w] [mapping_offset s; mapping_offset k]
    | None => generic mapping_offset v
    end.
  Proof.
    destruct v as [t a args]. destruct t; cbn; eq_crack.
  Qed.
End Eqs.

(* ------------------------------------------------------------------------------------------
   2. shapes kept by the generic step *)

Lemma rw_view_generic f v :
  rw_view (generic f v) = match rw_view v with Some (t, a, k, x) => Some (t, a, f k, f x) | None => None end.
Proof. destruct v as [t a args]. destruct t; cbn; eq_crack. Qed.
Lemma uw_view_generic f v :
  uw_view (generic f v) = match uw_view v with Some (a, k) => Some (a, f k) | None => None end.
Proof. destruct v as [t a args]. destruct t; cbn; eq_crack. Qed.
Lemma tag_generic f v : sv_tag (generic f v) = sv_tag v.
Proof. now destruct v. Qed.
Lemma args_generic f v : sv_args (generic f v) = map f (sv_args v).
Proof. now destruct v. Qed.

Lemma is_rw_access t : is_rw_tag t = true -> is_access_tag t = true.
Proof. destruct t; try discriminate; reflexivity. Qed.
Lemma is_rw_not_lifted t : is_rw_tag t = true -> is_lifted_tag t = false.
Proof. destruct t; try discriminate; reflexivity. Qed.
Lemma is_rw_not_blocks t : is_rw_tag t = true -> blocks t = false.
Proof. destruct t; try discriminate; reflexivity. Qed.
Lemma is_rw_ss t : is_rw_tag t = true -> is_ss_tag t = true.
Proof. destruct t; try discriminate; reflexivity. Qed.
Lemma is_ss_cases t : is_ss_tag t = true -> is_rw_tag t = true \/ (is_lifted_tag t = true /\ is_access_tag t = false).
Proof. destruct t; try discriminate; cbn; auto. Qed.

Lemma rw_view_none_not_rw_shape t a k x : rw_view (Node t a [k; x]) = None -> is_rw_tag t = false.
Proof. destruct t; try reflexivity; discriminate. Qed.

(* ------------------------------------------------------------------------------------------
   3. C05 (a): lifted nodes only at or below storage accesses *)

Lemma nlo_node t a args :
  no_lift_outside (Node t a args) =
  if is_access_tag t then true else negb (is_lifted_tag t) && forallb no_lift_outside args.
Proof. reflexivity. Qed.

Lemma nlo_generic f v :
  (forall x, In x (sv_args v) -> no_lift_outside x = true -> no_lift_outside (f x) = true) ->
  no_lift_outside v = true -> no_lift_outside (generic f v) = true.
Proof.
  destruct v as [t a args]. cbn [generic sv_args]. rewrite !nlo_node. intros IH.
  destruct (is_access_tag t); [reflexivity|].
  rewrite !andb_true_iff, !forallb_forall. intros [Ht Ha]. split; [exact Ht|].
  intros y Hy. apply in_map_iff in Hy as (x & <- & Hx). auto.
Qed.

Lemma in_args_depth v x : In x (sv_args v) -> (sv_depth x < sv_depth v)%nat.
Proof. destruct v. apply depth_child. Qed.

Section C05a.
  Variable keccak : list byte -> N.
  Variable table : list (N * N).

  Lemma hashed_nlo v : no_lift_outside v = true -> no_lift_outside (hashed_slots table v) = true.
  Proof.
    induction v as [v IH] using sv_depth_ind. intros H. rewrite hashed_eq.
    destruct (known_view v) as [w|] eqn:E.
    - destruct (lookup_hash table w); [reflexivity|exact H].
    - apply nlo_generic; [|exact H]. intros x Hx. apply IH. now apply in_args_depth.
  Qed.

  Lemma rw_result_nlo t a k x : is_rw_tag t = true -> no_lift_outside (Node t a [k; x]) = true.
  Proof. intros H. rewrite nlo_node, (is_rw_access t H). reflexivity. Qed.

  Lemma proxy_nlo v : no_lift_outside v = true -> no_lift_outside (proxy_slots keccak v) = true.
  Proof.
    induction v as [v IH] using sv_depth_ind. intros H. rewrite proxy_eq.
    destruct (rw_view v) as [[[[t a] k] x]|] eqn:E.
    - apply rw_view_some in E as [_ Ht]. now apply rw_result_nlo.
    - apply nlo_generic; [|exact H]. intros x Hx. apply IH. now apply in_args_depth.
  Qed.

  Lemma mapping_index_nlo v : no_lift_outside v = true -> no_lift_outside (mapping_index v) = true.
  Proof.
    induction v as [v IH] using sv_depth_ind. intros H. rewrite mapping_index_eq.
    destruct (rw_view v) as [[[[t a] k] x]|] eqn:E.
    - apply rw_view_some in E as [_ Ht]. now apply rw_result_nlo.
    - destruct (uw_view v) as [[a k]|]; [reflexivity|].
      apply nlo_generic; [|exact H]. intros x Hx. apply IH. now apply in_args_depth.
  Qed.

  Lemma dyn_array_nlo v : no_lift_outside v = true -> no_lift_outside (dyn_array v) = true.
  Proof.
    induction v as [v IH] using sv_depth_ind. intros H. rewrite dyn_array_eq.
    destruct (rw_view v) as [[[[t a] k] x]|] eqn:E.
    - apply rw_view_some in E as [_ Ht]. now apply rw_result_nlo.
    - destruct (uw_view v) as [[a k]|]; [reflexivity|].
      apply nlo_generic; [|exact H]. intros x Hx. apply IH. now apply in_args_depth.
  Qed.

  Lemma storage_slots_nlo v : no_lift_outside v = true -> no_lift_outside (storage_slots v) = true.
  Proof.
    induction v as [v IH] using sv_depth_ind. intros H. rewrite storage_slots_eq.
    destruct (ss_view v) as [[[[t a] s] x]|] eqn:E.
    - apply ss_view_some in E as [-> Ht]. apply is_ss_cases in Ht as [Ht|[Hl Ha]].
      + now apply rw_result_nlo.
      + rewrite nlo_node, Ha, Hl in H. discriminate.
    - apply nlo_generic; [|exact H]. intros x Hx. apply IH. now apply in_args_depth.
  Qed.

  Lemma mapping_offset_nlo v : no_lift_outside v = true -> no_lift_outside (mapping_offset v) = true.
  Proof.
    induction v as [v IH] using sv_depth_ind. intros H. rewrite mapping_offset_eq.
    destruct (mo_view v) as [[[s k] w]|] eqn:E.
    - apply mo_view_some in E as (a & am & [-> | ->]); cbn in H; discriminate.
    - apply nlo_generic; [|exact H]. intros x Hx. apply IH. now apply in_args_depth.
  Qed.

  Lemma six_passes_unfold v :
    six_passes keccak table v =
    mapping_offset (storage_slots (dyn_array (mapping_index (proxy_slots keccak (hashed_slots table v))))).
  Proof. reflexivity. Qed.

  Theorem six_passes_nlo v : no_lift_outside v = true -> no_lift_outside (six_passes keccak table v) = true.
  Proof.
    intros H. rewrite six_passes_unfold.
    now apply mapping_offset_nlo, storage_slots_nlo, dyn_array_nlo, mapping_index_nlo, proxy_nlo, hashed_nlo.
  Qed.

  (* ---- without a storage access the guarded passes are the identity *)
  Lemma hsa_node t a args :
    has_storage_access (Node t a args) = is_access_tag t || existsb has_storage_access args.
  Proof. reflexivity. Qed.
  Lemma hsa_false_inv v :
    has_storage_access v = false ->
    is_access_tag (sv_tag v) = false /\ forall x, In x (sv_args v) -> has_storage_access x = false.
  Proof.
    destruct v as [t a args]. rewrite hsa_node. intros H. apply orb_false_iff in H as [Ht Ha]. split; [exact Ht|].
    intros x Hx. cbn [sv_args] in Hx. destruct (has_storage_access x) eqn:Ex; [|reflexivity].
    assert (existsb has_storage_access args = true) by (apply existsb_exists; eauto). congruence.
  Qed.
  Lemma rw_view_tag v t a k x : rw_view v = Some (t, a, k, x) -> is_access_tag (sv_tag v) = true.
  Proof. intros E. apply rw_view_some in E as [-> Ht]. now apply is_rw_access. Qed.
  Lemma uw_view_tag v a k : uw_view v = Some (a, k) -> is_access_tag (sv_tag v) = true.
  Proof. intros E. apply uw_view_some in E as ->. reflexivity. Qed.
  Lemma generic_id f v : (forall x, In x (sv_args v) -> f x = x) -> generic f v = v.
  Proof. destruct v as [t a args]. cbn. intros H. now rewrite map_id_in. Qed.

  Theorem proxy_no_access_id v : has_storage_access v = false -> proxy_slots keccak v = v.
  Proof.
    induction v as [v IH] using sv_depth_ind. intros H. rewrite proxy_eq.
    apply hsa_false_inv in H as [Ht Ha].
    destruct (rw_view v) as [[[[t a] k] x]|] eqn:E.
    - apply rw_view_tag in E. congruence.
    - apply generic_id. intros x Hx. apply IH; [now apply in_args_depth|auto].
  Qed.
  Theorem mapping_index_no_access_id v : has_storage_access v = false -> mapping_index v = v.
  Proof.
    induction v as [v IH] using sv_depth_ind. intros H. rewrite mapping_index_eq.
    apply hsa_false_inv in H as [Ht Ha].
    destruct (rw_view v) as [[[[t a] k] x]|] eqn:E; [apply rw_view_tag in E; congruence|].
    destruct (uw_view v) as [[a k]|] eqn:E2; [apply uw_view_tag in E2; congruence|].
    apply generic_id. intros x Hx. apply IH; [now apply in_args_depth|auto].
  Qed.
  Theorem dyn_array_no_access_id v : has_storage_access v = false -> dyn_array v = v.
  Proof.
    induction v as [v IH] using sv_depth_ind. intros H. rewrite dyn_array_eq.
    apply hsa_false_inv in H as [Ht Ha].
    destruct (rw_view v) as [[[[t a] k] x]|] eqn:E; [apply rw_view_tag in E; congruence|].
    destruct (uw_view v) as [[a k]|] eqn:E2; [apply uw_view_tag in E2; congruence|].
    apply generic_id. intros x Hx. apply IH; [now apply in_args_depth|auto].
  Qed.

  (* ---- the passes never create a storage access *)
  Lemma hsa_generic f v :
    (forall x, In x (sv_args v) -> has_storage_access x = false -> has_storage_access (f x) = false) ->
    has_storage_access v = false -> has_storage_access (generic f v) = false.
  Proof.
    intros IH H. apply hsa_false_inv in H as [Ht Ha]. destruct v as [t a args]. cbn [generic sv_tag sv_args] in *.
    rewrite hsa_node, Ht. cbn [orb]. destruct (existsb has_storage_access (map f args)) eqn:E; [|reflexivity].
    apply existsb_exists in E as (y & Hy & Ey). apply in_map_iff in Hy as (x & <- & Hx).
    rewrite IH in Ey by auto. discriminate.
  Qed.
  Lemma hashed_no_access v : has_storage_access v = false -> has_storage_access (hashed_slots table v) = false.
  Proof.
    induction v as [v IH] using sv_depth_ind. intros H. rewrite hashed_eq.
    destruct (known_view v) as [w|] eqn:E.
    - destruct (lookup_hash table w); [reflexivity|exact H].
    - apply hsa_generic; [|exact H]. intros x Hx. apply IH. now apply in_args_depth.
  Qed.
  Lemma storage_slots_no_access v : has_storage_access v = false -> has_storage_access (storage_slots v) = false.
  Proof.
    induction v as [v IH] using sv_depth_ind. intros H. rewrite storage_slots_eq.
    destruct (ss_view v) as [[[[t a] s] x]|] eqn:E.
    - apply ss_view_some in E as [-> Ht]. pose proof (hsa_false_inv _ H) as [Hta Ha]. cbn [sv_tag sv_args] in *.
      assert (Hs : has_storage_access s = false) by (apply Ha; cbn; auto).
      assert (Hx : has_storage_access x = false) by (apply Ha; cbn; auto).
      assert (Hs' : has_storage_access (storage_slots s) = false) by (apply IH; [apply depth_child; cbn; auto|exact Hs]).
      assert (Hx' : has_storage_access (storage_slots x) = false) by (apply IH; [apply depth_child; cbn; auto|exact Hx]).
      rewrite hsa_node, Hta. cbn [orb existsb]. rewrite Hx'. unfold wrap_slot.
      destruct (is_slot s); [now rewrite Hs|]. rewrite hsa_node. cbn [is_access_tag existsb orb]. now rewrite Hs'.
    - apply hsa_generic; [|exact H]. intros x Hx. apply IH. now apply in_args_depth.
  Qed.
  Lemma mapping_offset_no_access v : has_storage_access v = false -> has_storage_access (mapping_offset v) = false.
  Proof.
    induction v as [v IH] using sv_depth_ind. intros H. rewrite mapping_offset_eq.
    destruct (mo_view v) as [[[s k] w]|] eqn:E.
    - assert (Hd : (sv_depth s < sv_depth v)%nat /\ (sv_depth k < sv_depth v)%nat /\
                   has_storage_access s = false /\ has_storage_access k = false).
      { apply mo_view_some in E as (a & am & [-> | ->]); cbn in H;
          rewrite ?orb_false_r in H; apply orb_false_iff in H as [Hs Hk];
          rewrite ?depth_node; cbn [map fold_right sv_depth]; repeat split; try lia; auto. }
      destruct Hd as (Ds & Dk & Hs & Hk).
      rewrite hsa_node. cbn [is_access_tag existsb orb]. now rewrite (IH s Ds Hs), (IH k Dk Hk).
    - apply hsa_generic; [|exact H]. intros x Hx. apply IH. now apply in_args_depth.
  Qed.

  Lemma six_passes_no_access v :
    has_storage_access v = false -> six_passes keccak table v = mapping_offset (storage_slots (hashed_slots table v)).
  Proof.
    intros H. rewrite six_passes_unfold.
    pose proof (hashed_no_access v H) as H1.
    rewrite (proxy_no_access_id _ H1), (mapping_index_no_access_id _ H1), (dyn_array_no_access_id _ H1). reflexivity.
  Qed.

  Lemma no_access_nlo v : has_storage_access v = false -> no_lift_outside v = negb (has_lifted v).
  Proof.
    induction v as [t a args IH] using sv_ind'. intros H.
    apply hsa_false_inv in H as [Ht Ha]. cbn [sv_tag sv_args] in *.
    rewrite nlo_node, Ht. cbn [has_lifted]. rewrite negb_orb. f_equal.
    induction args as [|x r IHr]; [reflexivity|].
    inversion IH as [|? ? Hx Hr]; subst. cbn [forallb existsb]. rewrite negb_orb.
    rewrite Hx by (apply Ha; now left). f_equal. apply IHr; [exact Hr|]. intros y Hy. apply Ha. now right.
  Qed.

  (* C05: without a storage access (and without lifted nodes in the input) the six passes produce no
     StorageSlot, MappingIndex or DynamicArrayIndex node at all *)
  Theorem no_storage_no_lifted v :
    has_storage_access v = false -> has_lifted v = false -> has_lifted (six_passes keccak table v) = false.
  Proof.
    intros Ha Hl.
    assert (Hn : no_lift_outside v = true) by (rewrite (no_access_nlo v Ha), Hl; reflexivity).
    apply six_passes_nlo in Hn.
    assert (Ha' : has_storage_access (six_passes keccak table v) = false).
    { rewrite (six_passes_no_access v Ha). now apply mapping_offset_no_access, storage_slots_no_access, hashed_no_access. }
    rewrite (no_access_nlo _ Ha') in Hn. now destruct (has_lifted (six_passes keccak table v)).
  Qed.

  Lemma has_tag_lifted t v : is_lifted_tag t = true -> has_lifted v = false -> has_tag t v = false.
  Proof.
    intros Ht. induction v as [t' a args IH] using sv_ind'. cbn [has_lifted has_tag]. intros H.
    apply orb_false_iff in H as [H1 H2]. apply orb_false_iff. split.
    - destruct (tag_eqb t' t) eqn:E; [|reflexivity]. apply tag_eqb_eq in E. subst. congruence.
    - induction args as [|x r IHr]; [reflexivity|]. inversion IH; subst. cbn [existsb] in *.
      apply orb_false_iff in H2 as [Hx Hr]. apply orb_false_iff. split; auto.
  Qed.

  Theorem no_storage_no_slot v :
    has_storage_access v = false -> has_lifted v = false -> has_tag T_StorageSlot (six_passes keccak table v) = false.
  Proof. intros Ha Hl. apply has_tag_lifted; [reflexivity|]. now apply no_storage_no_lifted. Qed.
End C05a.

(* ------------------------------------------------------------------------------------------
   4. C05 (b): outside the K3 class lifted nodes appear only in key sub-trees *)

Lemma quiet_eq h v :
  quiet h v =
  negb (is_lifted_tag (sv_tag v)) && negb (h v) &&
  match rw_view v with
  | Some (_, _, _, x) => quiet h x
  | None => match uw_view v with Some _ => true | None => forallb (quiet h) (sv_args v) end
  end.
Proof. destruct v as [t a args]. destruct t; cbn; eq_crack. Qed.

Definition map_invariant (h : sv -> bool) : Prop :=
  forall f t a args, h (Node t a (map f args)) = h (Node t a args).

Lemma hashy_map_invariant table : map_invariant (hashy_in table).
Proof. intros f t a args. destruct t; try reflexivity. destruct a as [|w [|? ?]]; try reflexivity. destruct args; reflexivity. Qed.

Lemma quiet_generic h f v :
  map_invariant h ->
  (forall x, In x (sv_args v) -> quiet h x = true -> quiet h (f x) = true) ->
  quiet h v = true -> quiet h (generic f v) = true.
Proof.
  intros Hm IH. rewrite (quiet_eq h v), (quiet_eq h (generic f v)).
  rewrite tag_generic, rw_view_generic, uw_view_generic.
  assert (Hh : h (generic f v) = h v) by (destruct v; apply Hm). rewrite Hh.
  rewrite !andb_true_iff. intros [[H1 H2] H3]. split; [now split|].
  destruct (rw_view v) as [[[[t a] k] x]|] eqn:E.
  - apply rw_view_some in E as [-> _]. apply IH; [cbn; auto|exact H3].
  - destruct (uw_view v) as [[a k]|]; [reflexivity|].
    rewrite args_generic. rewrite forallb_forall in *. intros y Hy.
    apply in_map_iff in Hy as (x & <- & Hx). auto.
Qed.

Lemma quiet_weaken h v : quiet h v = true -> quiet (fun _ => false) v = true.
Proof.
  induction v as [v IH] using sv_depth_ind. rewrite (quiet_eq h v), (quiet_eq (fun _ => false) v).
  rewrite !andb_true_iff. intros [[H1 H2] H3]. split; [now split|].
  destruct (rw_view v) as [[[[t a] k] x]|] eqn:E.
  - apply rw_view_some in E as [-> _]. apply IH; [apply depth_child; cbn; auto|exact H3].
  - destruct (uw_view v); [reflexivity|]. rewrite forallb_forall in *. intros x Hx.
    apply IH; [now apply in_args_depth|auto].
Qed.

(* the result of an access arm: root is an SLoad / StorageWrite, only the value operand matters *)
Lemma quiet_rw h t a k x :
  is_rw_tag t = true -> h (Node t a [k; x]) = false -> quiet h (Node t a [k; x]) = quiet h x.
Proof.
  intros Ht Hh. rewrite quiet_eq, (rw_view_rw t a k x Ht), Hh. cbn [sv_tag]. now rewrite (is_rw_not_lifted t Ht).
Qed.
Lemma hashy_rw table t a k x : is_rw_tag t = true -> hashy_in table (Node t a [k; x]) = false.
Proof. destruct t; try discriminate; reflexivity. Qed.

Lemma sha3_data_tag y d : sha3_data y = Some d -> sv_tag y = T_Sha3.
Proof. destruct y as [t a l]. destruct t; try discriminate. reflexivity. Qed.
Lemma da_view_sha3 v p :
  da_view v = Some p -> exists a l r, v = Node T_Add a [l; r] /\ (sv_tag l = T_Sha3 \/ sv_tag r = T_Sha3).
Proof.
  destruct v as [t a args]. destruct t; try discriminate.
  destruct args as [|l [|r [|? ?]]]; try discriminate. cbn [da_view]. intros H. exists a, l, r. split; [reflexivity|].
  destruct (sha3_data l) eqn:El; [left; now apply sha3_data_tag in El|].
  destruct (sha3_data r) eqn:Er; [right; now apply sha3_data_tag in Er|discriminate].
Qed.
Lemma hashy_sha3 table v : sv_tag v = T_Sha3 -> hashy_in table v = true.
Proof. destruct v as [t a l]. cbn. now intros ->. Qed.

Section C05b.
  Variable keccak : list byte -> N.
  Variable table : list (N * N).
  Notation Q := (quiet (hashy_in table)).
  Let Hm := hashy_map_invariant table.

  Lemma quiet_root v : Q v = true -> is_lifted_tag (sv_tag v) = false /\ hashy_in table v = false.
  Proof. rewrite quiet_eq, !andb_true_iff, !negb_true_iff. tauto. Qed.
  Lemma quiet_args v x :
    Q v = true -> rw_view v = None -> uw_view v = None -> In x (sv_args v) -> Q x = true.
  Proof.
    rewrite (quiet_eq _ v). intros H E1 E2 Hx. rewrite E1, E2, !andb_true_iff, forallb_forall in H. now apply H.
  Qed.

  Lemma hashed_quiet v : Q v = true -> Q (hashed_slots table v) = true.
  Proof.
    induction v as [v IH] using sv_depth_ind. intros H. rewrite hashed_eq.
    destruct (known_view v) as [w|] eqn:E.
    - apply known_view_some in E as ->. pose proof (quiet_root _ H) as [_ Hh]. cbn in Hh.
      unfold lookup_hash. destruct (lookup_in table w); [discriminate|]. exact H.
    - apply quiet_generic; auto. intros x Hx. apply IH. now apply in_args_depth.
  Qed.

  Lemma proxy_quiet v : Q v = true -> Q (proxy_slots keccak v) = true.
  Proof.
    induction v as [v IH] using sv_depth_ind. intros H. rewrite proxy_eq.
    destruct (rw_view v) as [[[[t a] k] x]|] eqn:E.
    - apply rw_view_some in E as [-> Ht].
      rewrite quiet_rw in * by (auto using hashy_rw). apply IH; [apply depth_child; cbn; auto|exact H].
    - apply quiet_generic; auto. intros x Hx. apply IH. now apply in_args_depth.
  Qed.

  Lemma mi_ins_quiet v : Q v = true -> Q (mi_ins v) = true.
  Proof.
    induction v as [v IH] using sv_depth_ind. intros H. rewrite mi_ins_eq.
    destruct (mi_view v) as [[k s]|] eqn:E.
    - apply mi_view_some in E as (a & a' & ->). apply quiet_root in H as [_ Hh]. discriminate.
    - apply quiet_generic; auto. intros x Hx. apply IH. now apply in_args_depth.
  Qed.

  Lemma mapping_index_quiet v : Q v = true -> Q (mapping_index v) = true.
  Proof.
    induction v as [v IH] using sv_depth_ind. intros H. rewrite mapping_index_eq.
    destruct (rw_view v) as [[[[t a] k] x]|] eqn:E.
    - apply rw_view_some in E as [-> Ht]. rewrite quiet_rw in * by (auto using hashy_rw). now apply mi_ins_quiet.
    - destruct (uw_view v) as [[a k]|] eqn:E2; [reflexivity|].
      apply quiet_generic; auto. intros x Hx. apply IH. now apply in_args_depth.
  Qed.

  Lemma da_lift_quiet v : Q v = true -> Q (da_lift v) = true.
  Proof.
    induction v as [v IH] using sv_depth_ind. intros H. rewrite da_lift_eq.
    destruct (da_view v) as [p|] eqn:E.
    - exfalso. apply da_view_sha3 in E as (a & l & r & -> & Hs).
      assert (Hl : Q l = true) by (apply (quiet_args _ l H); cbn; auto).
      assert (Hr : Q r = true) by (apply (quiet_args _ r H); cbn; auto).
      apply quiet_root in Hl as [_ Hl]. apply quiet_root in Hr as [_ Hr].
      destruct Hs as [Hs|Hs]; apply (hashy_sha3 table) in Hs; congruence.
    - apply quiet_generic; auto. intros x Hx. apply IH. now apply in_args_depth.
  Qed.

  Lemma dyn_array_quiet v : Q v = true -> Q (dyn_array v) = true.
  Proof.
    induction v as [v IH] using sv_depth_ind. intros H. rewrite dyn_array_eq.
    destruct (rw_view v) as [[[[t a] k] x]|] eqn:E.
    - apply rw_view_some in E as [-> Ht]. rewrite quiet_rw in * by (auto using hashy_rw). now apply da_lift_quiet.
    - destruct (uw_view v) as [[a k]|] eqn:E2; [reflexivity|].
      apply quiet_generic; auto. intros x Hx. apply IH. now apply in_args_depth.
  Qed.

  Lemma storage_slots_quiet v : Q v = true -> Q (storage_slots v) = true.
  Proof.
    induction v as [v IH] using sv_depth_ind. intros H. rewrite storage_slots_eq.
    destruct (ss_view v) as [[[[t a] s] x]|] eqn:E.
    - apply ss_view_some in E as [-> Ht]. apply is_ss_cases in Ht as [Ht|[Hl _]].
      + rewrite quiet_rw in * by (auto using hashy_rw). apply IH; [apply depth_child; cbn; auto|exact H].
      + apply quiet_root in H as [H _]. cbn [sv_tag] in H. congruence.
    - apply quiet_generic; auto. intros x Hx. apply IH. now apply in_args_depth.
  Qed.

  Lemma mapping_offset_quiet v : Q v = true -> Q (mapping_offset v) = true.
  Proof.
    induction v as [v IH] using sv_depth_ind. intros H. rewrite mapping_offset_eq.
    destruct (mo_view v) as [[[s k] w]|] eqn:E.
    - exfalso. apply mo_view_some in E as (a & am & [-> | ->]).
      + assert (Hq : Q (Node T_MappingIndex am [s; k]) = true) by (apply (quiet_args _ _ H); cbn; auto).
        apply quiet_root in Hq as [Hq _]. discriminate.
      + assert (Hq : Q (Node T_MappingIndex am [s; k]) = true) by (apply (quiet_args _ _ H); cbn; auto).
        apply quiet_root in Hq as [Hq _]. discriminate.
    - apply quiet_generic; auto. intros x Hx. apply IH. now apply in_args_depth.
  Qed.

  Theorem six_passes_quiet v : no_value_hash table v = true -> no_value_hash table (six_passes keccak table v) = true.
  Proof.
    unfold no_value_hash. intros H. rewrite six_passes_unfold.
    now apply mapping_offset_quiet, storage_slots_quiet, dyn_array_quiet, mapping_index_quiet, proxy_quiet, hashed_quiet.
  Qed.

  (* outside the K3 class (no hash-shaped node and no lifted node outside key sub-trees, in particular in no
     stored / loaded value) every StorageSlot / MappingIndex / DynamicArrayIndex of the output lies in a key sub-tree *)
  Theorem lifts_only_in_keys_outside_K3 v :
    no_value_hash table v = true -> no_lift_outside_keys (six_passes keccak table v) = true.
  Proof. intros H. apply six_passes_quiet in H. unfold no_value_hash in H. exact (quiet_weaken _ _ H). Qed.
End C05b.

(* K3: the statement without the class hypothesis is false -- sstore(0, keccak(calldata ++ 5)) yields slot 5,
   which occurs in no key sub-tree (any keccak, empty table) *)
Definition k3_witness : sv :=
  Node T_StorageWrite [] [Known 0; Node T_Sha3 [] [Node T_Concat [] [Node T_CallData [1] [Known 4; Known 32]; Known 5]]].

Theorem K3_refuted_proof keccak :
  no_lift_outside_keys k3_witness = true /\
  no_lift_outside_keys (six_passes keccak [] k3_witness) = false /\
  In 5 (slot_consts (six_passes keccak [] k3_witness)) /\ ~ In 5 (key_consts k3_witness).
Proof.
  repeat split; try (vm_compute; reflexivity).
  - vm_compute. auto.
  - vm_compute. intros [H|[]]. discriminate.
Qed.

(* the same through a pre-folded keccak(slot) constant: sstore(0, H3 + x) with (H3 -> 3) in the table yields slot 3 *)
Definition k3_witness_hashed : sv :=
  Node T_StorageWrite [] [Known 0; Node T_Add [] [Known 99; Val 1]].
Theorem K3_hashed_constant_proof keccak :
  In 3 (slot_consts (six_passes keccak [(99, 3)] k3_witness_hashed)) /\ ~ In 3 (key_consts k3_witness_hashed).
Proof.
  split.
  - vm_compute. auto.
  - vm_compute. intros [H|[]]. discriminate.
Qed.

(* ------------------------------------------------------------------------------------------
   5. C06: literal keys *)

Lemma exposed_node c t a args :
  exposed c (Node t a args) = lit_key_node c (Node t a args) || (negb (blocks t) && existsb (exposed c) args).
Proof. reflexivity. Qed.
Lemma wrapped_node_eq c t a args :
  wrapped c (Node t a args) = wrapped_node c (Node t a args) || existsb (wrapped c) args.
Proof. reflexivity. Qed.

Lemma lit_key_node_inv c v :
  lit_key_node c v = true -> exists t a x, v = Node t a [Known c; x] /\ is_rw_tag t = true.
Proof.
  unfold lit_key_node. intros H. crack H. apply andb_prop in H as [Ht Hw]. apply N.eqb_eq in Hw. subst.
  eexists _, _, _. split; [reflexivity|exact Ht].
Qed.
Lemma lit_key_node_of c t a x : is_rw_tag t = true -> lit_key_node c (Node t a [Known c; x]) = true.
Proof. intros Ht. cbn. now rewrite Ht, N.eqb_refl. Qed.

(* the two ways of being exposed *)
Lemma exposed_cases c v :
  exposed c v = true ->
  (exists t a x, v = Node t a [Known c; x] /\ is_rw_tag t = true) \/
  (blocks (sv_tag v) = false /\ exists x, In x (sv_args v) /\ exposed c x = true).
Proof.
  destruct v as [t a args]. rewrite exposed_node. intros H. apply orb_prop in H as [H|H].
  - left. now apply lit_key_node_inv.
  - right. apply andb_prop in H as [Hb He]. apply negb_true_iff in Hb. split; [exact Hb|].
    apply existsb_exists in He as (x & Hx & Ex). eauto.
Qed.
Lemma exposed_root c v : exposed c v = true -> blocks (sv_tag v) = false.
Proof.
  intros H. apply exposed_cases in H as [(t & a & x & -> & Ht)|[Hb _]]; [|exact Hb]. now apply is_rw_not_blocks.
Qed.
Lemma exposed_child c t a args x :
  blocks t = false -> In x args -> exposed c x = true -> exposed c (Node t a args) = true.
Proof.
  intros Hb Hx Ex. rewrite exposed_node, Hb. cbn [negb andb]. apply orb_true_iff. right.
  apply existsb_exists. eauto.
Qed.
Lemma exposed_generic c f v :
  blocks (sv_tag v) = false ->
  (exists x, In x (sv_args v) /\ exposed c (f x) = true) -> exposed c (generic f v) = true.
Proof.
  destruct v as [t a args]. cbn [sv_tag sv_args generic]. intros Hb (x & Hx & Ex).
  apply (exposed_child c t a (map f args) (f x) Hb); [now apply in_map|exact Ex].
Qed.
Lemma wrapped_node_of c t a a' x :
  is_rw_tag t = true -> wrapped_node c (Node t a [Node T_StorageSlot a' [Known c]; x]) = true.
Proof. intros Ht. unfold Known. cbn. now rewrite Ht, N.eqb_refl. Qed.
Lemma wrapped_child c t a args x : In x args -> wrapped c x = true -> wrapped c (Node t a args) = true.
Proof. intros Hx Wx. rewrite wrapped_node_eq. apply orb_true_iff. right. apply existsb_exists. eauto. Qed.

Section C06.
  Variable keccak : list byte -> N.
  Variable table : list (N * N).
  Notation hashed_slots := (hashed_slots table).
  Notation proxy_slots := (proxy_slots keccak).
  Notation six_passes := (six_passes keccak table).
  Notation six_inner := (six_inner keccak table).

  (* ---- what each pass does to a constant leaf *)
  Lemma hashed_known c : lookup_hash table c = None -> hashed_slots (Known c) = Known c.
  Proof. intros H. rewrite hashed_eq. cbn [known_view Known]. now rewrite H. Qed.
  Lemma proxy_known c : proxy_slots (Known c) = Known c.
  Proof. reflexivity. Qed.
  Lemma unpick_proxy_known c : unpick_proxy keccak (Known c) = None.
  Proof. reflexivity. Qed.
  Lemma mi_ins_known c : mi_ins (Known c) = Known c.
  Proof. reflexivity. Qed.
  Lemma da_lift_known c : da_lift (Known c) = Known c.
  Proof. reflexivity. Qed.
  Lemma storage_slots_known c : storage_slots (Known c) = Known c.
  Proof. reflexivity. Qed.
  Lemma mapping_offset_known c : mapping_offset (Known c) = Known c.
  Proof. reflexivity. Qed.

  Lemma known_view_rw t a k x : is_rw_tag t = true -> known_view (Node t a [k; x]) = None.
  Proof. destruct t; try discriminate; reflexivity. Qed.
  Lemma mi_view_rw t a k x : is_rw_tag t = true -> mi_view (Node t a [k; x]) = None.
  Proof. destruct t; try discriminate; reflexivity. Qed.
  Lemma da_view_rw t a k x : is_rw_tag t = true -> da_view (Node t a [k; x]) = None.
  Proof. destruct t; try discriminate; reflexivity. Qed.
  Lemma mo_view_rw t a k x : is_rw_tag t = true -> mo_view (Node t a [k; x]) = None.
  Proof. destruct t; try discriminate; reflexivity. Qed.

  (* ---- the root access: what each pass does to `SLoad/StorageWrite {key, value}` *)
  Lemma hashed_rw t a k x :
    is_rw_tag t = true -> hashed_slots (Node t a [k; x]) = Node t a [hashed_slots k; hashed_slots x].
  Proof. intros Ht. rewrite hashed_eq, (known_view_rw t a k x Ht). reflexivity. Qed.
  Lemma proxy_rw t a k x :
    is_rw_tag t = true -> proxy_slots (Node t a [k; x]) = Node t a [proxy_key keccak k; proxy_slots x].
  Proof. intros Ht. now rewrite proxy_eq, (rw_view_rw t a k x Ht). Qed.
  Lemma mapping_index_rw t a k x :
    is_rw_tag t = true -> mapping_index (Node t a [k; x]) = Node t a [mi_ins k; mi_ins x].
  Proof. intros Ht. now rewrite mapping_index_eq, (rw_view_rw t a k x Ht). Qed.
  Lemma dyn_array_rw t a k x :
    is_rw_tag t = true -> dyn_array (Node t a [k; x]) = Node t a [da_lift k; da_lift x].
  Proof. intros Ht. now rewrite dyn_array_eq, (rw_view_rw t a k x Ht). Qed.
  Lemma storage_slots_rw t a k x :
    is_rw_tag t = true -> storage_slots (Node t a [k; x]) = Node t a [wrap_slot k; storage_slots x].
  Proof. intros Ht. now rewrite storage_slots_eq, (ss_view_of t a k x (is_rw_ss t Ht)). Qed.
  Lemma mapping_offset_rw t a k x :
    is_rw_tag t = true -> mapping_offset (Node t a [k; x]) = Node t a [mapping_offset k; mapping_offset x].
  Proof. intros Ht. rewrite mapping_offset_eq, (mo_view_rw t a k x Ht). reflexivity. Qed.
  Lemma mi_ins_rw t a k x : is_rw_tag t = true -> mi_ins (Node t a [k; x]) = Node t a [mi_ins k; mi_ins x].
  Proof. intros Ht. rewrite mi_ins_eq, (mi_view_rw t a k x Ht). reflexivity. Qed.
  Lemma da_lift_rw t a k x : is_rw_tag t = true -> da_lift (Node t a [k; x]) = Node t a [da_lift k; da_lift x].
  Proof. intros Ht. rewrite da_lift_eq, (da_view_rw t a k x Ht). reflexivity. Qed.

  (* pass_keeps_literal_key, one per pass: the literal key of a top-level SLoad / StorageWrite *)
  Theorem hashed_keeps_literal_key t a c x :
    is_rw_tag t = true -> lookup_hash table c = None ->
    hashed_slots (Node t a [Known c; x]) = Node t a [Known c; hashed_slots x].
  Proof. intros Ht Hc. now rewrite (hashed_rw t a _ _ Ht), (hashed_known c Hc). Qed.
  Theorem proxy_keeps_literal_key t a c x :
    is_rw_tag t = true -> proxy_slots (Node t a [Known c; x]) = Node t a [Known c; proxy_slots x].
  Proof. intros Ht. now rewrite (proxy_rw t a _ _ Ht). Qed.
  Theorem mapping_index_keeps_literal_key t a c x :
    is_rw_tag t = true -> mapping_index (Node t a [Known c; x]) = Node t a [Known c; mi_ins x].
  Proof. intros Ht. now rewrite (mapping_index_rw t a _ _ Ht). Qed.
  Theorem dyn_array_keeps_literal_key t a c x :
    is_rw_tag t = true -> dyn_array (Node t a [Known c; x]) = Node t a [Known c; da_lift x].
  Proof. intros Ht. now rewrite (dyn_array_rw t a _ _ Ht). Qed.
  Theorem storage_slots_wraps_literal_key t a c x :
    is_rw_tag t = true ->
    storage_slots (Node t a [Known c; x]) = Node t a [Node T_StorageSlot [] [Known c]; storage_slots x].
  Proof. intros Ht. now rewrite (storage_slots_rw t a _ _ Ht). Qed.
  Theorem mapping_offset_keeps_wrapped_key t a c x :
    is_rw_tag t = true ->
    mapping_offset (Node t a [Node T_StorageSlot [] [Known c]; x]) = Node t a [Node T_StorageSlot [] [Known c]; mapping_offset x].
  Proof. intros Ht. now rewrite (mapping_offset_rw t a _ _ Ht). Qed.

  (* the composition: the literal key becomes `StorageSlot (Known c)`, for every 256-bit c outside the table *)
  Theorem six_passes_literal_key t a c x :
    is_rw_tag t = true -> lookup_hash table c = None ->
    six_passes (Node t a [Known c; x]) = Node t a [Node T_StorageSlot [] [Known c]; six_inner x].
  Proof.
    intros Ht Hc. rewrite six_passes_unfold.
    rewrite (hashed_keeps_literal_key t a c x Ht Hc), (proxy_keeps_literal_key t a c _ Ht),
      (mapping_index_keeps_literal_key t a c _ Ht), (dyn_array_keeps_literal_key t a c _ Ht),
      (storage_slots_wraps_literal_key t a c _ Ht), (mapping_offset_keeps_wrapped_key t a c _ Ht).
    reflexivity.
  Qed.

  (* UnwrittenStorageValue {key}: storage_slots has no arm for it, the literal key stays unwrapped *)
  Theorem six_passes_unwritten_key_not_wrapped a c :
    lookup_hash table c = None ->
    six_passes (Node T_UnwrittenStorageValue a [Known c]) = Node T_UnwrittenStorageValue a [Known c].
  Proof.
    intros Hc. rewrite six_passes_unfold.
    assert (E : hashed_slots (Node T_UnwrittenStorageValue a [Known c]) = Node T_UnwrittenStorageValue a [Known c]).
    { rewrite hashed_eq. cbn [known_view generic map]. now rewrite (hashed_known c Hc). }
    rewrite E. reflexivity.
  Qed.

  (* ---- exposed positions *)
  Lemma hashed_exposed c v : lookup_hash table c = None -> exposed c v = true -> exposed c (hashed_slots v) = true.
  Proof.
    intros Hc. induction v as [v IH] using sv_depth_ind. intros H.
    destruct (exposed_cases c v H) as [(t & a & x & -> & Ht)|(Hb & x & Hx & Ex)].
    - rewrite (hashed_keeps_literal_key t a c x Ht Hc). rewrite exposed_node, (lit_key_node_of c t a _ Ht). reflexivity.
    - rewrite hashed_eq. destruct (known_view v) as [w|] eqn:E.
      + apply known_view_some in E as ->. destruct Hx.
      + apply exposed_generic; [exact Hb|]. exists x. split; [exact Hx|]. apply IH; [now apply in_args_depth|exact Ex].
  Qed.

  Lemma unpick_sha3_tag v r : unpick_sha3 keccak v = Some r -> sv_tag v = T_Sha3.
  Proof. destruct v as [t a l]. destruct t; try discriminate. reflexivity. Qed.
  Lemma unpick_proxy_tag v r : unpick_proxy keccak v = Some r -> blocks (sv_tag v) = true.
  Proof.
    destruct v as [t a l]. destruct t; try discriminate; try reflexivity.
  Qed.

  Lemma proxy_key_exposed c k :
    (exposed c k = true -> exposed c (proxy_slots k) = true) ->
    exposed c k = true -> exposed c (proxy_key keccak k) = true.
  Proof.
    intros IH H. unfold proxy_key. destruct (unpick_proxy keccak k) as [r|] eqn:E; [|auto].
    apply unpick_proxy_tag in E. apply exposed_root in H. congruence.
  Qed.

  Lemma proxy_exposed c v : exposed c v = true -> exposed c (proxy_slots v) = true.
  Proof.
    induction v as [v IH] using sv_depth_ind. intros H.
    destruct (exposed_cases c v H) as [(t & a & x & -> & Ht)|(Hb & x & Hx & Ex)].
    - rewrite (proxy_keeps_literal_key t a c x Ht). rewrite exposed_node, (lit_key_node_of c t a _ Ht). reflexivity.
    - rewrite proxy_eq. destruct (rw_view v) as [[[[t a] k] x']|] eqn:E.
      + apply rw_view_some in E as [-> Ht]. cbn [sv_args sv_tag] in *.
        destruct Hx as [<-|[<-|[]]].
        * apply (exposed_child c t a _ (proxy_key keccak k) Hb); [now left|].
          apply proxy_key_exposed; [|exact Ex]. apply IH. apply depth_child. now left.
        * apply (exposed_child c t a _ (proxy_slots x') Hb); [right; now left|].
          apply IH; [apply depth_child; cbn; auto|exact Ex].
      + apply exposed_generic; [exact Hb|]. exists x. split; [exact Hx|]. apply IH; [now apply in_args_depth|exact Ex].
  Qed.

  Lemma mi_ins_exposed c v : exposed c v = true -> exposed c (mi_ins v) = true.
  Proof.
    induction v as [v IH] using sv_depth_ind. intros H.
    destruct (exposed_cases c v H) as [(t & a & x & -> & Ht)|(Hb & x & Hx & Ex)].
    - rewrite (mi_ins_rw t a _ _ Ht), mi_ins_known. rewrite exposed_node, (lit_key_node_of c t a _ Ht). reflexivity.
    - rewrite mi_ins_eq. destruct (mi_view v) as [[k s]|] eqn:E.
      + apply mi_view_some in E as (a & a' & ->). discriminate.
      + apply exposed_generic; [exact Hb|]. exists x. split; [exact Hx|]. apply IH; [now apply in_args_depth|exact Ex].
  Qed.

  Lemma da_lift_exposed c v : exposed c v = true -> exposed c (da_lift v) = true.
  Proof.
    induction v as [v IH] using sv_depth_ind. intros H.
    destruct (exposed_cases c v H) as [(t & a & x & -> & Ht)|(Hb & x & Hx & Ex)].
    - rewrite (da_lift_rw t a _ _ Ht), da_lift_known. rewrite exposed_node, (lit_key_node_of c t a _ Ht). reflexivity.
    - rewrite da_lift_eq. destruct (da_view v) as [p|] eqn:E.
      + apply da_view_sha3 in E as (a & l & r & -> & _). discriminate.
      + apply exposed_generic; [exact Hb|]. exists x. split; [exact Hx|]. apply IH; [now apply in_args_depth|exact Ex].
  Qed.

  (* a guard: the operands of an access are handed to `inner`, everything else is rebuilt *)
  Lemma guard_exposed c (guard inner : sv -> sv) :
    (forall v, guard v = match rw_view v with
                         | Some (t, a, k, x) => Node t a [inner k; inner x]
                         | None => match uw_view v with
                                   | Some (a, k) => Node T_UnwrittenStorageValue a [inner k]
                                   | None => generic guard v
                                   end
                         end) ->
    (forall v, exposed c v = true -> exposed c (inner v) = true) ->
    inner (Known c) = Known c ->
    forall v, exposed c v = true -> exposed c (guard v) = true.
  Proof.
    intros Heq Hin Hk. induction v as [v IH] using sv_depth_ind. intros H. rewrite Heq.
    destruct (exposed_cases c v H) as [(t & a & x & -> & Ht)|(Hb & x & Hx & Ex)].
    - rewrite (rw_view_rw t a _ _ Ht), Hk. rewrite exposed_node, (lit_key_node_of c t a _ Ht). reflexivity.
    - destruct (rw_view v) as [[[[t a] k] x']|] eqn:E.
      + apply rw_view_some in E as [-> Ht]. cbn [sv_args sv_tag] in *.
        destruct Hx as [<-|[<-|[]]].
        * apply (exposed_child c t a _ (inner k) Hb); [now left|auto].
        * apply (exposed_child c t a _ (inner x') Hb); [right; now left|auto].
      + destruct (uw_view v) as [[a k]|] eqn:E2.
        * apply uw_view_some in E2 as ->. cbn [sv_args sv_tag] in *. destruct Hx as [<-|[]].
          apply (exposed_child c _ a _ (inner k) Hb); [now left|auto].
        * apply exposed_generic; [exact Hb|]. exists x. split; [exact Hx|]. apply IH; [now apply in_args_depth|exact Ex].
  Qed.

  Lemma mapping_index_exposed c v : exposed c v = true -> exposed c (mapping_index v) = true.
  Proof. apply (guard_exposed c mapping_index mi_ins mapping_index_eq (mi_ins_exposed c) (mi_ins_known c)). Qed.
  Lemma dyn_array_exposed c v : exposed c v = true -> exposed c (dyn_array v) = true.
  Proof. apply (guard_exposed c dyn_array da_lift dyn_array_eq (da_lift_exposed c) (da_lift_known c)). Qed.

  Lemma is_slot_blocks s : is_slot s = true -> blocks (sv_tag s) = true.
  Proof. destruct s as [t a l]. destruct t; try discriminate. reflexivity. Qed.

  Lemma storage_slots_exposed_wrapped c v : exposed c v = true -> wrapped c (storage_slots v) = true.
  Proof.
    induction v as [v IH] using sv_depth_ind. intros H.
    destruct (exposed_cases c v H) as [(t & a & x & -> & Ht)|(Hb & x & Hx & Ex)].
    - rewrite (storage_slots_wraps_literal_key t a c x Ht). rewrite wrapped_node_eq.
      now rewrite (wrapped_node_of c t a [] _ Ht).
    - rewrite storage_slots_eq. destruct (ss_view v) as [[[[t a] s] x']|] eqn:E.
      + apply ss_view_some in E as [-> Ht]. cbn [sv_args sv_tag] in *.
        destruct Hx as [<-|[<-|[]]].
        * apply (wrapped_child c t a _ (wrap_slot s)); [now left|]. unfold wrap_slot.
          destruct (is_slot s) eqn:Es; [apply is_slot_blocks in Es; apply exposed_root in Ex; congruence|].
          apply (wrapped_child c _ _ _ (storage_slots s)); [now left|].
          apply IH; [apply depth_child; cbn; auto|exact Ex].
        * apply (wrapped_child c t a _ (storage_slots x')); [right; now left|].
          apply IH; [apply depth_child; cbn; auto|exact Ex].
      + destruct v as [t a args]. cbn [generic sv_args] in *.
        apply (wrapped_child c t a _ (storage_slots x)); [now apply in_map|].
        apply IH; [now apply depth_child|exact Ex].
  Qed.

  Lemma wrapped_node_inv c v :
    wrapped_node c v = true -> exists t a a' x, v = Node t a [Node T_StorageSlot a' [Known c]; x] /\ is_rw_tag t = true.
  Proof.
    unfold wrapped_node. intros H. crack H. apply andb_prop in H as [Ht Hw]. apply N.eqb_eq in Hw. subst.
    eexists _, _, _, _. split; [reflexivity|exact Ht].
  Qed.

  Lemma wrapped_non_rw c t a args : is_rw_tag t = false -> wrapped c (Node t a args) = existsb (wrapped c) args.
  Proof.
    intros Ht. rewrite wrapped_node_eq. destruct (wrapped_node c (Node t a args)) eqn:E; [|reflexivity].
    apply wrapped_node_inv in E as (t' & a0 & a' & x & [= -> -> ->] & Ht'). congruence.
  Qed.

  Lemma mapping_offset_wrapped c v : wrapped c v = true -> wrapped c (mapping_offset v) = true.
  Proof.
    induction v as [v IH] using sv_depth_ind. intros H. destruct v as [t a args].
    rewrite wrapped_node_eq in H. apply orb_prop in H as [H|H].
    - apply wrapped_node_inv in H as (t' & a0 & a' & x & [= -> -> ->] & Ht).
      rewrite (mapping_offset_rw t' a0 _ _ Ht). rewrite wrapped_node_eq.
      replace (mapping_offset (Node T_StorageSlot a' [Known c])) with (Node T_StorageSlot a' [Known c]) by reflexivity.
      now rewrite (wrapped_node_of c t' a0 a' _ Ht).
    - apply existsb_exists in H as (x & Hx & Wx). rewrite mapping_offset_eq.
      destruct (mo_view (Node t a args)) as [[[s k] w]|] eqn:E.
      + assert (Hsk : (wrapped c s = true /\ (sv_depth s < sv_depth (Node t a args))%nat) \/
                      (wrapped c k = true /\ (sv_depth k < sv_depth (Node t a args))%nat)).
        { apply mo_view_some in E as (a0 & am & [[= -> -> ->] | [= -> -> ->]]);
            cbn [In] in Hx; destruct Hx as [<-|[<-|[]]]; try discriminate Wx;
            rewrite wrapped_non_rw in Wx by reflexivity; cbn [existsb] in Wx;
            rewrite orb_false_r in Wx; apply orb_prop in Wx as [W|W]; [left|right|left|right];
            (split; [exact W|depth_solve]). }
        destruct Hsk as [[W D]|[W D]].
        * apply (wrapped_child c _ _ _ (mapping_offset s)); [now left|]. now apply IH.
        * apply (wrapped_child c _ _ _ (mapping_offset k)); [right; now left|]. now apply IH.
      + cbn [generic]. apply (wrapped_child c t a _ (mapping_offset x)); [now apply in_map|].
        apply IH; [now apply depth_child|exact Wx].
  Qed.

  (* C06 for the six passes: a literal key c (not the keccak of a small slot number) of an SLoad / StorageWrite at
     an exposed position ends up as `StorageSlot (Known c)` under an SLoad / StorageWrite of the output *)
  Theorem exposed_literal_key_wrapped c v :
    exposed c v = true -> lookup_hash table c = None -> wrapped c (six_passes v) = true.
  Proof.
    intros H Hc. rewrite six_passes_unfold.
    apply mapping_offset_wrapped, storage_slots_exposed_wrapped, dyn_array_exposed, mapping_index_exposed,
      proxy_exposed, hashed_exposed; assumption.
  Qed.
End C06.

(* without the `exposed` restriction the statement is false: the dynamic-array pass keeps only `right` as the
   index, so with the hash on the right the left operand -- here an SLoad with literal key 7 -- is dropped *)
Definition lost_key_witness : sv :=
  Node T_StorageWrite [] [Node T_Add [] [Node T_SLoad [] [Known 7; Val 1]; Node T_Sha3 [] [Known 3]]; Val 2].
Theorem literal_key_anywhere_refuted_proof keccak :
  In (Node T_SLoad [] [Known 7; Val 1]) (subterms lost_key_witness) /\
  wrapped 7 (six_passes keccak [] lost_key_witness) = false /\
  six_passes keccak [] lost_key_witness =
    Node T_StorageWrite [] [Node T_StorageSlot [] [Node T_DynamicArrayIndex [] [Node T_StorageSlot [] [Known 3]; Node T_Sha3 [] [Known 3]]]; Val 2].
Proof. repeat split; vm_compute; auto. Qed.

(* ------------------------------------------------------------------------------------------
   6. the hashed-slot table (BiMap) *)

Lemma lookup_in_cons t h i h' :
  lookup_in ((h, i) :: t) h' = if h =? h' then Some i else lookup_in t h'.
Proof. unfold lookup_in. cbn [find fst snd]. destruct (h =? h'); reflexivity. Qed.

Lemma lookup_in_filter_other t h i h' :
  h' <> h -> ~ In i (map snd t) ->
  lookup_in (filter (fun p => negb (fst p =? h) && negb (snd p =? i)) t) h' = lookup_in t h'.
Proof.
  intros Hne Hi. induction t as [|[a b] t IH]; [reflexivity|].
  cbn [filter fst snd map In] in *.
  assert (Hb : (b =? i) = false) by (apply N.eqb_neq; intros ->; apply Hi; now left).
  rewrite Hb. cbn [negb andb]. rewrite andb_true_r.
  destruct (a =? h) eqn:Ea; cbn [negb].
  - apply N.eqb_eq in Ea. subst. rewrite lookup_in_cons.
    assert ((h =? h') = false) as -> by (apply N.eqb_neq; congruence). apply IH. tauto.
  - rewrite !lookup_in_cons. destruct (a =? h'); [reflexivity|]. apply IH. tauto.
Qed.

Lemma bimap_insert_lookup t h i h' :
  ~ In i (map snd t) ->
  lookup_in (bimap_insert t h i) h' = if h =? h' then Some i else lookup_in t h'.
Proof.
  intros Hi. unfold bimap_insert. rewrite lookup_in_cons. destruct (h =? h') eqn:E; [reflexivity|].
  apply lookup_in_filter_other; [|exact Hi]. apply N.eqb_neq in E. congruence.
Qed.

Lemma filter_snd_subset (p : N * N -> bool) t x : In x (map snd (filter p t)) -> In x (map snd t).
Proof. rewrite !in_map_iff. intros (y & <- & Hy). apply filter_In in Hy as [Hy _]. eauto. Qed.
Lemma filter_fst_subset (p : N * N -> bool) t x : In x (map fst (filter p t)) -> In x (map fst t).
Proof. rewrite !in_map_iff. intros (y & <- & Hy). apply filter_In in Hy as [Hy _]. eauto. Qed.

Lemma NoDup_map_filter {A B} (g : A -> B) (p : A -> bool) l : NoDup (map g l) -> NoDup (map g (filter p l)).
Proof.
  induction l as [|x l IH]; [auto|]. cbn [map filter]. intros H. inversion H as [|? ? Hx Hl]; subst.
  destruct (p x); [|auto]. cbn [map]. constructor; [|auto].
  intros Hin. apply Hx. apply in_map_iff in Hin as (y & <- & Hy). apply filter_In in Hy as [Hy _].
  apply in_map_iff. eauto.
Qed.

Section Table.
  Variable keccak : list byte -> N.
  Notation hk i := (keccak (be_bytes (N.of_nat i))).

  Lemma make_hashes_S n : make_hashes keccak (S n) = bimap_insert (make_hashes keccak n) (hk n) (N.of_nat n).
  Proof. unfold make_hashes. rewrite seq_S, fold_left_app. reflexivity. Qed.

  Lemma make_hashes_snd n x : In x (map snd (make_hashes keccak n)) -> exists j, (j < n)%nat /\ x = N.of_nat j.
  Proof.
    induction n as [|n IH]; [intros []|]. rewrite make_hashes_S. unfold bimap_insert. cbn [map snd In].
    intros [<-|H]; [exists n; split; [lia|reflexivity]|].
    apply filter_snd_subset in H. destruct (IH H) as (j & Hj & ->). exists j. split; [lia|reflexivity].
  Qed.
  Lemma make_hashes_fresh n : ~ In (N.of_nat n) (map snd (make_hashes keccak n)).
  Proof. intros H. apply make_hashes_snd in H as (j & Hj & E). apply Nat2N.inj in E. lia. Qed.

  (* the injectivity a BiMap gives: no hash and no index occurs twice *)
  Theorem make_hashes_bijective n :
    NoDup (map fst (make_hashes keccak n)) /\ NoDup (map snd (make_hashes keccak n)).
  Proof.
    induction n as [|n [IH1 IH2]]; [split; constructor|]. rewrite make_hashes_S. unfold bimap_insert. cbn [map fst snd].
    split; constructor; try (now apply NoDup_map_filter).
    - intros H. apply in_map_iff in H as ([a b] & E & Hy). cbn [fst] in E. subst a.
      apply filter_In in Hy as [_ Hy]. cbn [fst] in Hy. rewrite N.eqb_refl in Hy. discriminate.
    - intros H. apply filter_snd_subset in H. now apply make_hashes_fresh in H.
  Qed.

  (* every keccak(be32 slot), slot < count, is in the table and maps to an index with the same hash *)
  Lemma make_hashes_lookup n slot :
    (slot < n)%nat ->
    exists j, (j < n)%nat /\ hk j = hk slot /\ lookup_in (make_hashes keccak n) (hk slot) = Some (N.of_nat j).
  Proof.
    induction n as [|n IH]; [lia|]. intros Hs. rewrite make_hashes_S, bimap_insert_lookup by apply make_hashes_fresh.
    destruct (hk n =? hk slot) eqn:E.
    - apply N.eqb_eq in E. exists n. repeat split; [lia|exact E].
    - assert (slot <> n) by (intros ->; rewrite N.eqb_refl in E; discriminate).
      destruct (IH ltac:(lia)) as (j & Hj & Ej & El). exists j. repeat split; [lia|exact Ej|exact El].
  Qed.
  Lemma make_hashes_lookup_none n h :
    (forall j, (j < n)%nat -> hk j <> h) -> lookup_in (make_hashes keccak n) h = None.
  Proof.
    induction n as [|n IH]; [reflexivity|]. intros H. rewrite make_hashes_S, bimap_insert_lookup by apply make_hashes_fresh.
    assert ((hk n =? h) = false) as -> by (apply N.eqb_neq, H; lia). apply IH. intros j Hj. apply H. lia.
  Qed.

  (* recognise_hashed_slot: Known (keccak slot), slot < count, becomes the Sha3 form *)
  Theorem recognise_hashed_slot_gen n slot :
    (slot < n)%nat ->
    exists j, (j < n)%nat /\ hk j = hk slot /\
              hashed_slots (make_hashes keccak n) (Known (hk slot)) = Node T_Sha3 [] [Known (N.of_nat j)].
  Proof.
    intros Hs. destruct (make_hashes_lookup n slot Hs) as (j & Hj & Ej & El). exists j. repeat split; auto.
    rewrite hashed_eq. cbn [known_view Known]. unfold lookup_hash. now rewrite El.
  Qed.
  Theorem recognise_hashed_slot_inj n slot :
    (forall i j, (i < n)%nat -> (j < n)%nat -> hk i = hk j -> i = j) ->
    (slot < n)%nat ->
    hashed_slots (make_hashes keccak n) (Known (hk slot)) = Node T_Sha3 [] [Known (N.of_nat slot)].
  Proof.
    intros Hinj Hs. destruct (recognise_hashed_slot_gen n slot Hs) as (j & Hj & Ej & E).
    rewrite E. now rewrite (Hinj j slot Hj Hs Ej).
  Qed.
End Table.

(* ------------------------------------------------------------------------------------------
   7. C04: idioms *)

Section C04.
  Variable keccak : list byte -> N.
  Variable table : list (N * N).
  Notation hashed_slots := (hashed_slots table).
  Notation proxy_slots := (proxy_slots keccak).
  Notation six_passes := (six_passes keccak table).
  Notation six_inner := (six_inner keccak table).

  (* the intermediate form: MappingIndex nest without slot wrappers *)
  Fixpoint mi_nest (keys : list sv) (slot : N) : sv :=
    match keys with
    | [] => Known slot
    | k :: ks => Node T_MappingIndex [0] [mi_nest ks slot; k]
    end.

  Lemma hashed_nest keys slot :
    lookup_hash table slot = None -> hashed_slots (nest keys slot) = nest (map hashed_slots keys) slot.
  Proof.
    intros Hs. induction keys as [|k ks IH]; cbn [nest map]; [now apply hashed_known|].
    rewrite hashed_eq. cbn [known_view generic map]. rewrite hashed_eq. cbn [known_view generic map]. now rewrite IH.
  Qed.
  Lemma proxy_nest keys slot : proxy_slots (nest keys slot) = nest (map proxy_slots keys) slot.
  Proof.
    induction keys as [|k ks IH]; cbn [nest map]; [reflexivity|].
    rewrite proxy_eq. cbn [rw_view generic map]. rewrite proxy_eq. cbn [rw_view generic map]. now rewrite IH.
  Qed.
  Lemma mi_ins_nest keys slot : mi_ins (nest keys slot) = mi_nest (map mi_ins keys) slot.
  Proof.
    induction keys as [|k ks IH]; cbn [nest mi_nest map]; [reflexivity|].
    rewrite mi_ins_eq. cbn [mi_view]. now rewrite IH.
  Qed.
  Lemma da_lift_mi_nest keys slot : da_lift (mi_nest keys slot) = mi_nest (map da_lift keys) slot.
  Proof.
    induction keys as [|k ks IH]; cbn [mi_nest map]; [reflexivity|].
    rewrite da_lift_eq. cbn [da_view generic map]. now rewrite IH.
  Qed.
  Lemma is_slot_mi_nest keys slot : is_slot (mi_nest keys slot) = false.
  Proof. destruct keys; reflexivity. Qed.
  Lemma storage_slots_mi_nest keys slot :
    wrap_slot (mi_nest keys slot) = lifted_nest (map storage_slots keys) slot.
  Proof.
    unfold wrap_slot. rewrite is_slot_mi_nest.
    induction keys as [|k ks IH]; cbn [mi_nest lifted_nest map]; [reflexivity|].
    rewrite storage_slots_eq. cbn [ss_view]. unfold wrap_slot at 1. rewrite is_slot_mi_nest. now rewrite IH.
  Qed.
  Lemma mapping_offset_lifted_nest keys slot :
    mapping_offset (lifted_nest keys slot) = lifted_nest (map mapping_offset keys) slot.
  Proof.
    induction keys as [|k ks IH]; cbn [lifted_nest map]; [reflexivity|].
    rewrite mapping_offset_eq. cbn [mo_view generic map]. rewrite mapping_offset_eq. cbn [mo_view generic map].
    now rewrite IH.
  Qed.

  Lemma six_inner_map keys :
    map six_inner keys =
    map mapping_offset (map storage_slots (map da_lift (map mi_ins (map proxy_slots (map hashed_slots keys))))).
  Proof. rewrite !map_map. reflexivity. Qed.

  (* lift_mapping_nest: for EVERY depth (length of keys >= 1), every slot outside the table, arbitrary key
     expressions: the nest used as a storage key lifts to the MappingIndex nest over StorageSlot (Known slot).
     The only side condition is that the proxy pass does not claim the key (see proxy_inert_* below). *)
  Theorem lift_mapping_nest_proof t a keys slot x :
    is_rw_tag t = true -> lookup_hash table slot = None ->
    unpick_proxy keccak (nest (map hashed_slots keys) slot) = None ->
    six_passes (Node t a [nest keys slot; x]) = Node t a [lifted_nest (map six_inner keys) slot; six_inner x].
  Proof.
    intros Ht Hs Hp. rewrite six_passes_unfold.
    rewrite (hashed_rw table t a _ _ Ht), (hashed_nest keys slot Hs).
    rewrite (proxy_rw keccak t a _ _ Ht). unfold proxy_key. rewrite Hp, proxy_nest.
    rewrite (mapping_index_rw t a _ _ Ht), mi_ins_nest.
    rewrite (dyn_array_rw t a _ _ Ht), da_lift_mi_nest.
    rewrite (storage_slots_rw t a _ _ Ht), storage_slots_mi_nest.
    rewrite (mapping_offset_rw t a _ _ Ht), mapping_offset_lifted_nest.
    rewrite six_inner_map. reflexivity.
  Qed.

  (* when the proxy pass is inert on a nest *)
  Lemma fold_sha3_not_word a l : as_word (constant_fold (Node T_Sha3 a l)) = None.
  Proof. reflexivity. Qed.
  Lemma all_words_none_tail (x y : sv) : as_word y = None -> all_words [x; y] = None.
  Proof. intros H. cbn [all_words]. rewrite H. now destruct (as_word x). Qed.
  Lemma all_words_none_head (x y : sv) : as_word x = None -> all_words [x; y] = None.
  Proof. intros H. cbn [all_words]. now rewrite H. Qed.

  Theorem proxy_inert_deep k1 k2 ks slot : unpick_proxy keccak (nest (k1 :: k2 :: ks) slot) = None.
  Proof.
    cbn [nest unpick_proxy unpick_sha3]. unfold proxy_concat_key. cbn [map].
    rewrite all_words_none_tail; [reflexivity|]. apply fold_sha3_not_word.
  Qed.
  Theorem proxy_inert_symbolic_key k slot :
    as_word (constant_fold k) = None -> unpick_proxy keccak (nest [k] slot) = None.
  Proof.
    intros H. cbn [nest unpick_proxy unpick_sha3]. unfold proxy_concat_key. cbn [map].
    now rewrite all_words_none_head.
  Qed.

  Corollary lift_mapping_nest_deep t a k1 k2 ks slot x :
    is_rw_tag t = true -> lookup_hash table slot = None ->
    six_passes (Node t a [nest (k1 :: k2 :: ks) slot; x]) =
    Node t a [lifted_nest (map six_inner (k1 :: k2 :: ks)) slot; six_inner x].
  Proof. intros Ht Hs. apply lift_mapping_nest_proof; auto. cbn [map]. apply proxy_inert_deep. Qed.
  Corollary lift_mapping_nest_1 t a k slot x :
    is_rw_tag t = true -> lookup_hash table slot = None -> as_word (constant_fold (hashed_slots k)) = None ->
    six_passes (Node t a [nest [k] slot; x]) = Node t a [lifted_nest [six_inner k] slot; six_inner x].
  Proof. intros Ht Hs Hk. apply (lift_mapping_nest_proof t a [k]); auto. cbn [map]. now apply proxy_inert_symbolic_key. Qed.

  (* ---- dynamic arrays: Add (Sha3 (Concat [Known slot]) | Sha3 (Known slot), index), hash on the LEFT *)
  Definition slot_hash (concat : bool) (slot : N) : sv :=
    if concat then Node T_Sha3 [] [Node T_Concat [] [Known slot]] else Node T_Sha3 [] [Known slot].

  Lemma unpick_sha3_slot_hash concat slot :
    is_likely_string [slot] = false -> unpick_sha3 keccak (slot_hash concat slot) = None.
  Proof.
    intros H. destruct concat; cbn [slot_hash unpick_sha3 Known].
    - unfold proxy_concat_key. cbn [map]. fold (Known slot). rewrite fold_known. cbn [all_words Known as_word].
      cbn [length proxy_abi_min_words Nat.leb andb]. now rewrite H.
    - fold (Known slot). cbn [Known]. now rewrite H.
  Qed.

  Lemma hashed_generic v : known_view v = None -> hashed_slots v = generic hashed_slots v.
  Proof. intros H. now rewrite hashed_eq, H. Qed.
  Lemma hashed_slot_hash concat slot :
    lookup_hash table slot = None -> hashed_slots (slot_hash concat slot) = slot_hash concat slot.
  Proof.
    intros Hs. destruct concat; cbn [slot_hash].
    - rewrite hashed_generic by reflexivity. cbn [generic map].
      rewrite hashed_generic by reflexivity. cbn [generic map]. now rewrite (hashed_known table slot Hs).
    - rewrite hashed_generic by reflexivity. cbn [generic map]. now rewrite (hashed_known table slot Hs).
  Qed.

  Theorem lift_dyn_array_proof t a concat slot index x :
    is_rw_tag t = true -> lookup_hash table slot = None -> is_likely_string [slot] = false ->
    unpick_sha3 keccak (hashed_slots index) = None ->
    six_passes (Node t a [Node T_Add [] [slot_hash concat slot; index]; x]) =
    Node t a [Node T_StorageSlot [] [Node T_DynamicArrayIndex [] [Node T_StorageSlot [] [Known slot]; six_inner index]];
              six_inner x].
  Proof.
    intros Ht Hs Hstr Hix. rewrite six_passes_unfold. rewrite (hashed_rw table t a _ _ Ht).
    assert (Eh : hashed_slots (Node T_Add [] [slot_hash concat slot; index]) =
                 Node T_Add [] [slot_hash concat slot; hashed_slots index]).
    { rewrite hashed_generic by reflexivity. cbn [generic map]. now rewrite (hashed_slot_hash concat slot Hs). }
    rewrite Eh. rewrite (proxy_rw keccak t a _ _ Ht).
    assert (Ep : proxy_key keccak (Node T_Add [] [slot_hash concat slot; hashed_slots index]) =
                 Node T_Add [] [slot_hash concat slot; proxy_slots (hashed_slots index)]).
    { unfold proxy_key. cbn [unpick_proxy]. rewrite (unpick_sha3_slot_hash concat slot Hstr), Hix.
      rewrite proxy_eq. cbn [rw_view generic map]. f_equal. f_equal. destruct concat; reflexivity. }
    rewrite Ep. rewrite (mapping_index_rw t a _ _ Ht).
    assert (Em : forall i, mi_ins (Node T_Add [] [slot_hash concat slot; i]) = Node T_Add [] [slot_hash concat slot; mi_ins i]).
    { intros i. rewrite mi_ins_eq. cbn [mi_view generic map]. f_equal. f_equal. destruct concat; reflexivity. }
    rewrite Em. rewrite (dyn_array_rw t a _ _ Ht).
    assert (Ed : forall i, da_lift (Node T_Add [] [slot_hash concat slot; i]) =
                           Node T_DynamicArrayIndex [] [Known slot; da_lift i]).
    { intros i. rewrite da_lift_eq. destruct concat; cbn [slot_hash da_view sha3_data Known].
      - fold (Known slot). rewrite fold_known. reflexivity.
      - reflexivity. }
    rewrite Ed. rewrite (storage_slots_rw t a _ _ Ht). unfold wrap_slot at 1. cbn [is_slot].
    rewrite storage_slots_eq. cbn [ss_view]. unfold wrap_slot at 1. cbn [is_slot Known].
    rewrite (mapping_offset_rw t a _ _ Ht). reflexivity.
  Qed.

  (* the pre-folded form: Add (Known h, index) with (h -> slot) in the table *)
  Theorem lift_dyn_array_hashed_const_proof t a h slot index x :
    is_rw_tag t = true -> lookup_hash table h = Some slot -> is_likely_string [slot] = false ->
    unpick_sha3 keccak (hashed_slots index) = None ->
    six_passes (Node t a [Node T_Add [] [Known h; index]; x]) =
    Node t a [Node T_StorageSlot [] [Node T_DynamicArrayIndex [] [Node T_StorageSlot [] [Known slot]; six_inner index]];
              six_inner x].
  Proof.
    intros Ht Hh Hstr Hix. rewrite six_passes_unfold. rewrite (hashed_rw table t a _ _ Ht).
    assert (Eh : hashed_slots (Node T_Add [] [Known h; index]) = Node T_Add [] [slot_hash false slot; hashed_slots index]).
    { rewrite hashed_eq. cbn [known_view generic map]. f_equal. f_equal.
      rewrite hashed_eq. cbn [known_view Known]. now rewrite Hh. }
    rewrite Eh.
    (* from here on as in lift_dyn_array_proof *)
    rewrite (proxy_rw keccak t a _ _ Ht).
    assert (Ep : proxy_key keccak (Node T_Add [] [slot_hash false slot; hashed_slots index]) =
                 Node T_Add [] [slot_hash false slot; proxy_slots (hashed_slots index)]).
    { unfold proxy_key. cbn [unpick_proxy]. rewrite (unpick_sha3_slot_hash false slot Hstr), Hix.
      rewrite proxy_eq. cbn [rw_view generic map]. reflexivity. }
    rewrite Ep. rewrite (mapping_index_rw t a _ _ Ht).
    rewrite mi_ins_eq. cbn [slot_hash mi_view generic map].
    rewrite (dyn_array_rw t a _ _ Ht).
    rewrite da_lift_eq. cbn [da_view sha3_data Known].
    rewrite (storage_slots_rw t a _ _ Ht). unfold wrap_slot at 1. cbn [is_slot].
    rewrite storage_slots_eq. cbn [ss_view]. unfold wrap_slot at 1. cbn [is_slot Known].
    rewrite (mapping_offset_rw t a _ _ Ht). reflexivity.
  Qed.

  (* small slot numbers are never "likely strings": the first byte of the big-endian word is zero *)
  Lemma small_slot_not_string slot : slot < 2 ^ 248 -> is_likely_string [slot] = false.
  Proof.
    intros H. unfold is_likely_string.
    assert (E : be_byte slot 0 = 0).
    { assert (Hz : N.shiftr slot 248 = 0) by (rewrite N.shiftr_div_pow2; now apply N.div_small).
      unfold be_byte. replace (8 * N.of_nat (31 - 0)) with 248 by reflexivity. now rewrite Hz. }
    rewrite E. cbn [N.eqb negb]. apply andb_false_r.
  Qed.
End C04.

(* findings shown on concrete trees (any keccak; table as stated) *)

(* the index of a dynamic-array access is always the RIGHT operand: with the hash on the right the real index
   expression is dropped and the hash itself is reported as the index *)
Theorem dyn_array_hash_on_right_proof keccak :
  six_passes keccak [] (Node T_SLoad [] [Node T_Add [] [Val 1; Node T_Sha3 [] [Known 3]]; Val 2]) =
  Node T_SLoad [] [Node T_StorageSlot [] [Node T_DynamicArrayIndex [] [Node T_StorageSlot [] [Known 3]; Node T_Sha3 [] [Known 3]]]; Val 2].
Proof. vm_compute. reflexivity. Qed.

(* a depth-1 mapping at slot 0 with a constant printable-ASCII key ("owner") is claimed by the proxy pass: the
   key becomes the constant keccak(key ++ 0) and no MappingIndex is built *)
Definition ascii_owner : N := 0x6f776e6572000000000000000000000000000000000000000000000000000000.
Theorem proxy_claims_constant_ascii_key_proof keccak :
  six_passes keccak [] (Node T_SLoad [] [nest [Known ascii_owner] 0; Val 2]) =
  Node T_SLoad [] [Node T_StorageSlot [] [Known (keccak (words_bytes [ascii_owner; 0]))]; Val 2].
Proof. vm_compute. reflexivity. Qed.

(* ------------------------------------------------------------------------------------------
   8. ties to the regenerated tables (gen/PassOrder.v): these fail to compile when the source changes *)

Lemma default_pipeline_unfold keccak table other v :
  default_pipeline keccak table other v =
  mapping_offset (storage_slots (dyn_array
    (other P_PackedEncoding (other P_MulShiftedValue (other P_SubWordValue
      (mapping_index (proxy_slots keccak (hashed_slots table v)))))))).
Proof. reflexivity. Qed.

Lemma six_in_default_order keccak table :
  filter (fun p => match pass6 keccak table p with Some _ => true | None => false end) default_pass_order =
  [P_StorageSlotHashes; P_ProxySlots; P_MappingIndex; P_DynamicArrayIndex; P_StorageSlots; P_MappingOffset].
Proof. reflexivity. Qed.

Lemma pattern_shapes_pinned :
  mapping_guard_tags = [T_StorageWrite; T_SLoad; T_UnwrittenStorageValue] /\
  dyn_guard_tags = [T_StorageWrite; T_SLoad; T_UnwrittenStorageValue] /\
  storage_slots_tags = [T_MappingIndex; T_StorageWrite; T_DynamicArrayIndex; T_SLoad] /\
  mapping_concat_arity = 2%nat /\ dyn_concat_len = 1%nat /\ dyn_index_operand = "right"%string /\
  proxy_abi_min_words = 3%nat /\ proxy_abi_pointer_ix = 0%nat /\ proxy_abi_length_ix = 1%nat /\ proxy_abi_data_ix = 2%nat /\
  SLOT_COUNT = 10000.
Proof. repeat split; reflexivity. Qed.

(* the access constructors of the vocabulary are exactly the guarded ones *)
Lemma access_tags_are_guarded t : is_access_tag t = existsb (tag_eqb t) mapping_guard_tags.
Proof. destruct t; reflexivity. Qed.

(* ------------------------------------------------------------------------------------------
   9. further facts *)

(* inputs without lifted nodes (everything the VM produces) satisfy the hypothesis of C05 (a) *)
Lemma no_lifted_nlo v : has_lifted v = false -> no_lift_outside v = true.
Proof.
  induction v as [t a args IH] using sv_ind'. cbn [has_lifted]. intros H. apply orb_false_iff in H as [Ht Ha].
  rewrite nlo_node. destruct (is_access_tag t); [reflexivity|]. rewrite Ht. cbn [negb andb].
  apply forallb_forall. intros x Hx. rewrite Forall_forall in IH. apply IH; [exact Hx|].
  destruct (has_lifted x) eqn:E; [|reflexivity].
  assert (existsb has_lifted args = true) by (apply existsb_exists; eauto). congruence.
Qed.

(* the offset constant is truncated to 64 bits (`value.into()` = as_usize) *)
Theorem mapping_offset_truncates_proof :
  mapping_offset (Node T_Add [] [Node T_MappingIndex [0] [Known 3; Val 1]; Known (2 ^ 64 + 2)]) =
  Node T_MappingIndex [1; 2] [Known 3; Val 1].
Proof. vm_compute. reflexivity. Qed.

(* recognise_hashed_slots rewrites table constants everywhere, also outside every storage access *)
Theorem hashed_rewrites_outside_access_proof h i :
  hashed_slots [(h, i)] (Node T_Return [] [Known h]) = Node T_Return [] [Node T_Sha3 [] [Known i]].
Proof. rewrite hashed_eq. cbn [known_view generic map]. rewrite hashed_eq. cbn [known_view Known].
  unfold lookup_hash, lookup_in. cbn [find fst snd]. now rewrite N.eqb_refl. Qed.
