(* C16 layer (ii), part 1 (part 2: MergeGeneralProofs.v): the general laws over ALL type expressions without `Packed` at the top (arbitrary
   widths, lengths, variables, conflict payloads, and `Equal`, on which `merge` panics).
   Method: `merge` is simulated by a payload-free `smerge` on shapes; the laws are proved on shapes
   by case analysis (word triples through the lattice lemmas) and transported back. *)
From Coq Require Import Permutation.
From SLX Require Import Base gen.Constants gen.WordUseTable TypeExpr Merge
  proofs.MergeEquivProofs proofs.MergeLatticeProofs.
Open Scope N_scope.

(* ========================================================================================== *)
(* 1. Shapes: type expressions without conflict payloads                                       *)

Inductive shape :=
| SAny | SEqual (i : tyvar) | SWord (w : option N) (u : wuse) | SBytes
| SFixed (e : tyvar) (l : N) | SMapping (k v : tyvar) | SDyn (e : tyvar) | SConflict | SPacked.

Definition sh (e : te) : shape :=
  match e with
  | Any => SAny | Equal i => SEqual i | Word w u => SWord w u | Bytes => SBytes
  | FixedArray e l => SFixed e l | Mapping k v => SMapping k v | DynamicArray e => SDyn e
  | Packed _ _ => SPacked | Conflict _ _ => SConflict
  end.

Definition shape_eqb (a b : shape) : bool :=
  match a, b with
  | SAny, SAny | SBytes, SBytes | SConflict, SConflict => true
  | SEqual i, SEqual j => i =? j
  | SWord w u, SWord w' u' => optN_eqb w w' && wuse_eqb u u'
  | SFixed e l, SFixed e' l' => (e =? e') && (l =? l')
  | SMapping k v, SMapping k' v' => (k =? k') && (v =? v')
  | SDyn e, SDyn e' => e =? e'
  | _, _ => false
  end.

Definition sres := option (shape * list (tyvar * tyvar)).   (* None: panic *)
Definition sret (s : shape) : sres := Some (s, []).

Definition sword (x : option wordev) : shape :=
  match x with Some (w, u) => SWord w u | None => SConflict end.

Definition smerge (l r : shape) : sres :=
  match l, r with
  | SPacked, _ | _, SPacked => None
  | SWord wl ul, SWord wr ur => sret (sword (wordev_join (wl, ul) (wr, ur)))
  | _, _ =>
    if shape_eqb l r then sret l else
    match l, r with
    | SEqual _, _ | _, SEqual _ => None
    | SConflict, _ | _, SConflict => sret SConflict
    | SWord _ u, SBytes | SBytes, SWord _ u => if is_definitely_signed u then sret SConflict else sret SBytes
    | SDyn _, SBytes | SBytes, SDyn _ => sret SBytes
    | SWord _ u, SDyn e | SDyn e, SWord _ u => if is_definitely_signed u then sret SConflict else sret (SDyn e)
    | SDyn el, SDyn er => Some (l, [(el, er)])
    | SFixed el ll, SFixed er lr => if ll =? lr then Some (l, [(el, er)]) else sret SConflict
    | SMapping kl vl, SMapping kr vr => Some (l, [(kl, kr); (vl, vr)])
    | x, SAny => sret x
    | SAny, x => sret x
    | _, _ => sret SConflict
    end
  end.

Definition lift (r : mresult) : sres :=
  match r with Ok m => Some (sh (expr m), eqs m) | _ => None end.

Ltac split_ifs :=
  repeat match goal with
         | |- context [if ?c then _ else _] => destruct c
         end.

(* the simulation: on expressions without Packed, `merge` is `smerge` up to conflict payloads *)
Lemma merge_sim a b p n : no_packed a = true -> no_packed b = true ->
  lift (merge a b p n) = smerge (sh a) (sh b).
Proof.
  intros Ha Hb. destruct a, b; try discriminate; unfold merge, merge_body; simpl;
    try reflexivity; try (split_ifs; reflexivity).
  - (* Word, Word *)
    destruct (optN_eqb width width0 && wuse_eqb usage usage0) eqn:E.
    + apply andb_true_iff in E as [E1 E2]. apply optN_eqb_eq in E1. apply wuse_eqb_eq in E2. subst.
      rewrite wordev_join_idem. reflexivity.
    + unfold wordev_join. simpl. destruct (width_merge width width0); [destruct (wuse_merge usage usage0)|]; reflexivity.
  - destruct (is_definitely_signed usage); reflexivity.
  - destruct (is_definitely_signed usage); reflexivity.
Qed.

(* ---- shape-level comparison ---- *)
Inductive srel (R : tyvar -> tyvar -> Prop) : shape -> shape -> Prop :=
| sr_any : srel R SAny SAny
| sr_equal i j : R i j -> srel R (SEqual i) (SEqual j)
| sr_word w u : srel R (SWord w u) (SWord w u)
| sr_bytes : srel R SBytes SBytes
| sr_fixed e e' l : R e e' -> srel R (SFixed e l) (SFixed e' l)
| sr_mapping k k' v v' : R k k' -> R v v' -> srel R (SMapping k v) (SMapping k' v')
| sr_dyn e e' : R e e' -> srel R (SDyn e) (SDyn e')
| sr_conflict : srel R SConflict SConflict.

Definition sres_equiv (a b : sres) : Prop :=
  match a, b with
  | Some (s1, q1), Some (s2, q2) => same_eqs q1 q2 /\ srel (eqv q1) s1 s2
  | None, None => True
  | _, _ => False
  end.

Lemma te_rel_srel R a b : no_packed a = true -> no_packed b = true ->
  (te_rel R a b <-> srel R (sh a) (sh b)).
Proof.
  intros Ha Hb. destruct a, b; try discriminate; simpl; split; intros H; inversion H; subst; constructor; auto.
Qed.

Definition lift_comb (c : comb) : sres :=
  match c with Ok r => Some (sh (c_expr r), c_eqs r) | _ => None end.

Definition comb_plain (c : comb) : Prop :=
  match c with Ok r => no_packed (c_expr r) = true /\ c_judg r = [] | Err _ => False | Panic _ => True end.

Lemma comb_equiv_lift x y : comb_plain x -> comb_plain y -> (x ≈ y <-> sres_equiv (lift_comb x) (lift_comb y)).
Proof.
  destruct x as [x| |], y as [y| |]; simpl; try tauto.
  intros [Hx Jx] [Hy Jy]. unfold cres_equiv. rewrite Jx, Jy, (te_rel_srel _ _ _ Hx Hy).
  split; [tauto|]. intros [H1 H2]. split; [exact H1|]. split; [exact H2|]. split; intros a [].
Qed.

(* three-way combinations on shapes *)
Definition s3L (x y z : shape) : sres :=
  match smerge x y with
  | Some (s1, q1) => match smerge s1 z with Some (s2, q2) => Some (s2, q1 ++ q2) | None => None end
  | None => None
  end.
Definition s3R (x y z : shape) : sres :=
  match smerge y z with
  | Some (s1, q1) => match smerge x s1 with Some (s2, q2) => Some (s2, q1 ++ q2) | None => None end
  | None => None
  end.

Lemma smerge_nopacked x y s q : smerge x y = Some (s, q) -> s <> SPacked.
Proof.
  destruct x, y; simpl; try discriminate;
    try (destruct (wordev_join _ _) as [[? ?]|]; simpl; intros [= <- <-]; discriminate);
    split_ifs; intros [= <- <-]; discriminate.
Qed.

Lemma sh_nopacked a : no_packed a = true <-> sh a <> SPacked.
Proof. destruct a; simpl; split; intros H; try discriminate; try congruence; auto. Qed.

Lemma merge2_lift a b p n : no_packed a = true -> no_packed b = true ->
  lift_comb (merge2 a b p n) = smerge (sh a) (sh b) /\ comb_plain (merge2 a b p n).
Proof.
  intros Ha Hb. pose proof (merge_sim a b p n Ha Hb) as Hs. unfold merge2.
  destruct (merge a b p n) as [r| |] eqn:E; simpl in *.
  - split; auto. destruct r as [e q j v nx]. simpl in *.
    assert (Hn : no_packed e = true).
    { apply sh_nopacked. symmetry in Hs. apply smerge_nopacked in Hs. exact Hs. }
    split; auto.
    (* judgements are only produced by the Packed arms *)
    clear Hs. destruct a, b; try discriminate; unfold merge, merge_body in E; simpl in E;
      repeat match type of E with
             | context [if ?c then _ else _] => destruct c
             | context [match ?x with _ => _ end] => destruct x
             end; try discriminate; injection E as <- <- <- <- <-; reflexivity.
  - split; auto. clear Hs. destruct a, b; try discriminate; unfold merge, merge_body in E; simpl in E;
      repeat match type of E with
             | context [if ?c then _ else _] => destruct c
             | context [match ?x with _ => _ end] => destruct x
             end; discriminate.
  - split; auto.
Qed.

Lemma merge_plain a b p n r : no_packed a = true -> no_packed b = true -> merge a b p n = Ok r ->
  no_packed (expr r) = true /\ judg r = [] /\ next r = n.
Proof.
  intros Ha Hb E. pose proof (merge2_lift a b p n Ha Hb) as [_ Hp]. unfold merge2 in Hp. rewrite E in Hp.
  simpl in Hp. destruct Hp as [H1 H2]. repeat split; auto.
  destruct a, b; try discriminate; unfold merge, merge_body in E; simpl in E;
    repeat match type of E with
           | context [if ?c then _ else _] => destruct c
           | context [match ?x with _ => _ end] => destruct x
           end; try discriminate; injection E as <-; reflexivity.
Qed.

Lemma merge3L_lift a b c p n : no_packed a = true -> no_packed b = true -> no_packed c = true ->
  lift_comb (merge3L a b c p n) = s3L (sh a) (sh b) (sh c) /\ comb_plain (merge3L a b c p n).
Proof.
  intros Ha Hb Hc. unfold merge3L, s3L. pose proof (merge_sim a b p n Ha Hb) as Hs.
  destruct (merge a b p n) as [r1| |] eqn:E1; simpl in Hs; rewrite <- Hs; simpl; auto.
  destruct (merge_plain _ _ _ _ _ Ha Hb E1) as [Hn [Hj Hx]].
  pose proof (merge_sim (expr r1) c p (next r1) Hn Hc) as Hs2.
  destruct (merge (expr r1) c p (next r1)) as [r2| |] eqn:E2; simpl in Hs2; rewrite <- Hs2; simpl; auto.
  - destruct (merge_plain _ _ _ _ _ Hn Hc E2) as [Hn2 [Hj2 _]]. rewrite Hj, Hj2. auto.
  - exfalso. pose proof (merge2_lift (expr r1) c p (next r1) Hn Hc) as [_ Hp]. unfold merge2 in Hp.
    rewrite E2 in Hp. exact Hp.
  - exfalso. pose proof (merge2_lift a b p n Ha Hb) as [_ Hp]. unfold merge2 in Hp. rewrite E1 in Hp. exact Hp.
Qed.

Lemma merge3R_lift a b c p n : no_packed a = true -> no_packed b = true -> no_packed c = true ->
  lift_comb (merge3R a b c p n) = s3R (sh a) (sh b) (sh c) /\ comb_plain (merge3R a b c p n).
Proof.
  intros Ha Hb Hc. unfold merge3R, s3R. pose proof (merge_sim b c p n Hb Hc) as Hs.
  destruct (merge b c p n) as [r1| |] eqn:E1; simpl in Hs; rewrite <- Hs; simpl; auto.
  destruct (merge_plain _ _ _ _ _ Hb Hc E1) as [Hn [Hj Hx]].
  pose proof (merge_sim a (expr r1) p (next r1) Ha Hn) as Hs2.
  destruct (merge a (expr r1) p (next r1)) as [r2| |] eqn:E2; simpl in Hs2; rewrite <- Hs2; simpl; auto.
  - destruct (merge_plain _ _ _ _ _ Ha Hn E2) as [Hn2 [Hj2 _]]. rewrite Hj, Hj2. auto.
  - exfalso. pose proof (merge2_lift a (expr r1) p (next r1) Ha Hn) as [_ Hp]. unfold merge2 in Hp.
    rewrite E2 in Hp. exact Hp.
  - exfalso. pose proof (merge2_lift b c p n Hb Hc) as [_ Hp]. unfold merge2 in Hp. rewrite E1 in Hp. exact Hp.
Qed.

(* ========================================================================================== *)
(* 2. The laws on shapes                                                                      *)

Lemma same_eqs_intro q1 q2 : (forall a b, In (a, b) q1 -> eqv q2 a b) -> (forall a b, In (a, b) q2 -> eqv q1 a b) ->
  same_eqs q1 q2.
Proof. intros H1 H2 x y. split; apply eqv_mono; assumption. Qed.

Lemma srel_refl (R : tyvar -> tyvar -> Prop) (Hr : forall x, R x x) s : s <> SPacked -> srel R s s.
Proof. destruct s; intros H; try congruence; constructor; auto. Qed.

Ltac eqv1 := solve [ apply eqv_refl | apply eqv_in; simpl; tauto | apply eqv_sym; apply eqv_in; simpl; tauto ].
Ltac eqv2 :=
  solve [ eqv1
        | match goal with
          | |- eqv ?q _ _ =>
              match q with
              | context [(?c, _)] => apply eqv_trans with c; eqv1
              | context [(_, ?c)] => apply eqv_trans with c; eqv1
              end
          end ].
Ltac in_cases :=
  let a := fresh "a" in let b := fresh "b" in let Hin := fresh "Hin" in
  intros a b Hin; simpl in Hin;
  repeat (destruct Hin as [Hin|Hin]; [injection Hin as <- <-|]); try contradiction.
Ltac solve_same := apply same_eqs_intro; in_cases; eqv2.
Ltac solve_equiv := simpl; try exact I; try (split; [solve_same | constructor; eqv2]).

Ltac case_eqb :=
  match goal with
  | |- context [N.eqb ?a ?b] => destruct (N.eqb_spec a b); [subst|]
  | |- context [is_definitely_signed ?u] => destruct (is_definitely_signed u) eqn:?
  end.
Ltac crush := repeat first [ progress cbn | rewrite N.eqb_refl | discriminate | congruence | case_eqb ].

Lemma sword_rel R x : srel R (sword x) (sword x).
Proof. destruct x as [[? ?]|]; constructor. Qed.

Lemma smerge_comm x y : sres_equiv (smerge x y) (smerge y x).
Proof.
  destruct x, y; try exact I; unfold smerge; crush; try solve_equiv.
  rewrite (wordev_join_comm (w0, u0) (w, u)). split; [apply same_eqs_refl | apply sword_rel].
Qed.

(* ---- the known class on shapes ---- *)
Definition smexpr (x y : shape) : option shape := option_map fst (smerge x y).
Definition smeqs (x y : shape) : list (tyvar * tyvar) := match smerge x y with Some (_, q) => q | None => [] end.
Definition s_merges_to (x y : shape) (p : shape -> bool) : bool :=
  match smexpr x y with Some e => p e | None => false end.
Definition s_arraylike (s : shape) : bool := match s with SDyn _ | SBytes => true | _ => false end.
Definition s_is_word (s : shape) : bool := match s with SWord _ _ => true | _ => false end.
Definition s_is_conflict (s : shape) : bool := match s with SConflict => true | _ => false end.
Definition s_is_bytes (s : shape) : bool := match s with SBytes => true | _ => false end.
Definition sK1_at (x y z : shape) : bool :=
  s_arraylike x && s_is_word y && s_is_word z
  && s_merges_to y z s_is_conflict && s_merges_to x y (shape_eqb x) && s_merges_to x z (shape_eqb x).
Definition sK1 (a b c : shape) : bool := sK1_at a b c || sK1_at b a c || sK1_at c a b.
Definition s_emits (x y : shape) : bool := existsb (fun p => negb (fst p =? snd p)) (smeqs x y).
Definition s_kills (x z : shape) : bool := s_merges_to x z (fun r => s_is_conflict r || s_is_bytes r).
Definition sK2_at (x y z : shape) : bool := s_emits x y && (s_kills x z || s_kills y z).
Definition sK2 (a b c : shape) : bool := sK2_at a b c || sK2_at b c a || sK2_at a c b.
Definition sK (a b c : shape) : bool := sK1 a b c || sK2 a b c.

(* ---- words ---- *)
Lemma join_signed w u w0 u0 w1 u1 : wordev_join (w, u) (w0, u0) = Some (w1, u1) ->
  is_definitely_signed u1 = is_definitely_signed u || is_definitely_signed u0.
Proof.
  unfold wordev_join. simpl. destruct (width_merge w w0); [|discriminate].
  destruct (wuse_merge u u0) as [u'|] eqn:E; [|discriminate]. intros [= _ <-].
  assert (H : forall a b, match wuse_merge a b with
                          | Some c => Bool.eqb (is_definitely_signed c) (is_definitely_signed a || is_definitely_signed b)
                          | None => true end = true).
  { intros a b. revert b. apply forall_wuse. revert a. apply forall_wuse. vm_compute. reflexivity. }
  specialize (H u u0). rewrite E in H. apply eqb_prop in H. exact H.
Qed.

Lemma smerge_sword_l j w u : smerge (sword j) (SWord w u) = sret (sword (wordev_join_top j (w, u))).
Proof. destruct j as [[wj uj]|]; reflexivity. Qed.
Lemma smerge_sword_r j w u : smerge (SWord w u) (sword j) =
  sret (sword (match j with Some x => wordev_join (w, u) x | None => None end)).
Proof. destruct j as [[wj uj]|]; reflexivity. Qed.

Lemma smerge_ww w u w0 u0 : smerge (SWord w u) (SWord w0 u0) = Some (sword (wordev_join (w, u) (w0, u0)), []).
Proof. reflexivity. Qed.

Lemma sassoc_words w u w0 u0 w1 u1 :
  sres_equiv (s3L (SWord w u) (SWord w0 u0) (SWord w1 u1)) (s3R (SWord w u) (SWord w0 u0) (SWord w1 u1)).
Proof.
  unfold s3L, s3R. rewrite !smerge_ww. cbv beta iota. rewrite smerge_sword_l, smerge_sword_r. unfold sret.
  cbv beta iota. rewrite (wordev_join_assoc (w, u) (w0, u0) (w1, u1)).
  split; [apply same_eqs_refl | apply sword_rel].
Qed.

Ltac case_eqb2 :=
  match goal with
  | |- context [N.eqb ?a ?b] => destruct (N.eqb_spec a b); [subst|]
  | E : wordev_join (_, ?u) (_, ?u0) = Some (_, ?u1) |- context [is_definitely_signed ?u1] =>
      rewrite (join_signed _ _ _ _ _ _ E)
  | |- context [wordev_join ?a ?b] => destruct (wordev_join a b) as [[? ?]|] eqn:?
  | |- context [is_definitely_signed ?u] => destruct (is_definitely_signed u) eqn:?
  end.
Ltac crush2 := repeat first [ progress cbn | rewrite N.eqb_refl | discriminate | congruence | case_eqb2 ].

Theorem sassoc x y z : sK x y z = false -> sres_equiv (s3L x y z) (s3R x y z).
Proof.
  destruct x, y, z; try (intros _; exact I);
    try match goal with
        | |- sK (SWord _ _) (SWord _ _) (SWord _ _) = false -> _ => intros _; apply sassoc_words
        end.
  all: unfold sK, sK1, sK2, sK1_at, sK2_at, s_emits, s_kills, s_merges_to, smexpr, smeqs, s3L, s3R, smerge.
  all: timeout 60 crush2.
  all: try (intros _; solve_equiv; fail).
  all: try (intros HK; discriminate HK).
Qed.

(* C15 at the level of three pieces of evidence: a contradiction between two of them is never
   silently dropped, except in the known class K1 (an array-like type absorbing two words) *)
Definition s_contradicts (x y : shape) : bool := s_merges_to x y s_is_conflict.
Definition s_conflict_or_panic (r : sres) : Prop :=
  match r with Some (s, _) => s = SConflict | None => True end.

Lemma join3_ub a b c j : wordev_join_top (wordev_join a b) c = Some j ->
  wordev_le a j = true /\ wordev_le b j = true /\ wordev_le c j = true.
Proof.
  destruct (wordev_join a b) as [ab|] eqn:E1; [|discriminate]. simpl. intros E2.
  destruct (wordev_join_ub _ _ _ E1) as [Ha Hb]. destruct (wordev_join_ub _ _ _ E2) as [Hab Hc].
  repeat split; auto; eapply wordev_le_trans; eassumption.
Qed.

Lemma s_contradiction_words w u w0 u0 w1 u1 :
  s_contradicts (SWord w u) (SWord w0 u0) || s_contradicts (SWord w u) (SWord w1 u1)
  || s_contradicts (SWord w0 u0) (SWord w1 u1) = true ->
  s_conflict_or_panic (s3L (SWord w u) (SWord w0 u0) (SWord w1 u1)) /\
  s_conflict_or_panic (s3R (SWord w u) (SWord w0 u0) (SWord w1 u1)).
Proof.
  intros HC. unfold s3L, s3R. rewrite !smerge_ww. cbv beta iota. rewrite smerge_sword_l, smerge_sword_r.
  unfold sret. cbv beta iota. rewrite <- (wordev_join_assoc (w, u) (w0, u0) (w1, u1)).
  destruct (wordev_join_top (wordev_join (w, u) (w0, u0)) (w1, u1)) as [[wj uj]|] eqn:EJ;
    [|split; reflexivity].
  exfalso. destruct (join3_ub _ _ _ _ EJ) as [Ha [Hb Hc]].
  unfold s_contradicts, s_merges_to, smexpr in HC. rewrite !smerge_ww in HC. simpl in HC.
  destruct (wordev_join_least _ _ _ Ha Hb) as [c1 [E1 _]].
  destruct (wordev_join_least _ _ _ Ha Hc) as [c2 [E2 _]].
  destruct (wordev_join_least _ _ _ Hb Hc) as [c3 [E3 _]].
  rewrite E1, E2, E3 in HC. destruct c1, c2, c3. discriminate HC.
Qed.

Theorem s_contradiction_kept x y z : sK1 x y z = false ->
  s_contradicts x y || s_contradicts x z || s_contradicts y z = true ->
  s_conflict_or_panic (s3L x y z) /\ s_conflict_or_panic (s3R x y z).
Proof.
  destruct x, y, z;
    try match goal with
        | |- sK1 (SWord _ _) (SWord _ _) (SWord _ _) = false -> _ => intros _; apply s_contradiction_words
        | |- _ => intros _ _; split; exact I
        end.
  all: unfold sK1, sK1_at, s_contradicts, s_merges_to, smexpr, s_conflict_or_panic, s3L, s3R, smerge.
  all: timeout 60 crush2.
  all: try (intros _ _; split; reflexivity).
  all: try (intros HK; discriminate HK).
  all: try (intros _ HC; discriminate HC).
Qed.

