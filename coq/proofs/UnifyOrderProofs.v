(* Proofs for props/C02_unify.v and props/C11_unify.v: on the fragment `order_free` (UnifyOrder.v) unification
   computes the congruence closure CC of the judgement set, whatever the iteration orders. *)
From Coq Require Import String Permutation.
From SLX Require Import Base VectorMap DisjointSet gen.Constants gen.WordUseTable TypeExpr Merge Unify UnifyOrder.
From SLX Require Import proofs.VecMapProofs proofs.DsuProofs proofs.MergeEquivProofs proofs.MergeFactsProofs
  proofs.MergeLatticeProofs proofs.MergeProofs proofs.UnifyProofs.
Open Scope N_scope.

(* ========================================================================================== *)
(* 1. Computed partitions                                                                      *)

Lemma decl_eqs_eq st : decl_eqs st = declared_eqs st.
Proof. reflexivity. Qed.

Lemma orig_ev st x e : orig st x e <-> In (x, e) (ev_list st).
Proof.
  unfold orig, ev_list. rewrite in_flat_map. split.
  - intros (Hx & He & Hne). exists x. split; [exact Hx|]. apply in_map_iff. exists e. split; [reflexivity|].
    apply filter_In. split; [exact He|]. unfold ne in Hne. rewrite Hne. reflexivity.
  - intros (v & Hv & Hin). apply in_map_iff in Hin as (e0 & [= <- <-] & Hf). apply filter_In in Hf as [He Hne].
    split; [exact Hv|]. split; [exact He|]. unfold ne. destruct (is_equal e0); [discriminate|reflexivity].
Qed.

Notation PIu := (part_inv unit).

Lemma piu_union a ps p : PIu a ps -> PIu (p_union a p) (ps ++ [p]).
Proof.
  intros H. pose proof (part_step unit (fun _ _ => tt) tt a ps (DUnion (fst p) (snd p)) H) as H1.
  cbn [a_step fst union_pairs] in H1. destruct p. exact H1.
Qed.

Lemma piu_fold ps : forall a qs, PIu a qs -> PIu (fold_left p_union ps a) (qs ++ ps).
Proof.
  induction ps as [|p t IH]; intros a qs H; cbn [fold_left]; [rewrite app_nil_r; exact H|].
  change (p :: t) with ([p] ++ t). rewrite app_assoc. apply IH, piu_union, H.
Qed.

Lemma piu_new : PIu (a_new unit) [].
Proof.
  split; [intros v r E; discriminate|]. intros u w. unfold a_rep. cbn. split; [intros ->; apply ConnRefl|].
  intros H. apply (conn_least [] (fun z => z)); [intros a b []|exact H].
Qed.

Lemma same_in_spec ps x y : same_in (part_of ps) x y = true <-> Conn ps x y.
Proof.
  unfold same_in, part_of. rewrite N.eqb_eq. destruct (piu_fold ps (a_new unit) [] piu_new) as [_ H]. apply H.
Qed.

(* ========================================================================================== *)
(* 2. The computed closure is the congruence closure                                           *)

Lemma CC_conn st ps x y : (forall p, In p ps -> CC st (fst p) (snd p)) -> Conn ps x y -> CC st x y.
Proof.
  intros Hp H. induction H.
  - apply cc_refl.
  - apply (Hp (x, y)). assumption.
  - apply cc_sym. assumption.
  - eapply cc_trans; eassumption.
Qed.

Lemma ctor_ev_in st p : In p (ctor_ev st) -> In p (ev_list st) /\ is_ctor (snd p) = true.
Proof. unfold ctor_ev. apply filter_In. Qed.

Lemma comp_pairs_ctor e1 e2 p : In p (comp_pairs e1 e2) -> is_ctor e1 = true /\ is_ctor e2 = true.
Proof. destruct e1, e2; cbn; intros H; try destruct H; auto. Qed.

Lemma just_pairs_in st a p : In p (just_pairs st a) <->
  exists x e1 y e2, In (x, e1) (ev_list st) /\ In (y, e2) (ev_list st) /\ same_in a x y = true /\ In p (comp_pairs e1 e2).
Proof.
  unfold just_pairs. rewrite in_flat_map. split.
  - intros ([x e1] & H1 & H). apply in_flat_map in H as ([y e2] & H2 & H). cbn [fst snd] in H.
    destruct (same_in a x y) eqn:Es; [|destruct H].
    exists x, e1, y, e2. repeat split; auto; apply ctor_ev_in; assumption.
  - intros (x & e1 & y & e2 & H1 & H2 & Hs & Hp). destruct (comp_pairs_ctor _ _ _ Hp) as [C1 C2].
    exists (x, e1). split; [apply filter_In; auto|]. apply in_flat_map. exists (y, e2). split; [apply filter_In; auto|].
    cbn [fst snd]. rewrite Hs. exact Hp.
Qed.

Lemma cc_step_sound st ps : (forall p, In p ps -> CC st (fst p) (snd p)) ->
  forall p, In p (cc_step st ps) -> CC st (fst p) (snd p).
Proof.
  intros Hps p Hp. unfold cc_step in Hp. apply in_app_or in Hp as [Hd|Hj].
  - destruct p. apply cc_decl, Hd.
  - apply just_pairs_in in Hj as (x & e1 & y & e2 & H1 & H2 & Hs & Hp).
    eapply cc_comp; [exact H1|exact H2| |exact Hp]. eapply CC_conn; [exact Hps|]. apply same_in_spec, Hs.
Qed.

Lemma cc_iter_sound st n : forall ps, (forall p, In p ps -> CC st (fst p) (snd p)) ->
  forall p, In p (cc_iter st n ps) -> CC st (fst p) (snd p).
Proof.
  induction n as [|n IH]; intros ps Hps; cbn [cc_iter]; destruct (closed_b st ps); auto.
  apply IH, cc_step_sound, Hps.
Qed.

Lemma cc_iter_decl st n : forall ps, incl (decl_eqs st) ps -> incl (decl_eqs st) (cc_iter st n ps).
Proof.
  induction n as [|n IH]; intros ps Hps; cbn [cc_iter]; destruct (closed_b st ps); auto.
  apply IH. unfold cc_step. apply incl_appl, incl_refl.
Qed.

Lemma cc_sound st x y : Conn (cc st) x y -> CC st x y.
Proof.
  apply CC_conn. apply cc_iter_sound. intros [a b] H. apply cc_decl, H.
Qed.

Lemma cc_complete st x y : closed_b st (cc st) = true -> CC st x y -> Conn (cc st) x y.
Proof.
  intros Hc H. induction H.
  - apply ConnPair. apply (cc_iter_decl st _ _ (incl_refl _)). assumption.
  - unfold closed_b in Hc. rewrite forallb_forall in Hc. apply same_in_spec. apply Hc.
    apply just_pairs_in. exists x, e1, y, e2. repeat split; auto. apply same_in_spec. assumption.
  - apply ConnRefl.
  - apply ConnSym. assumption.
  - eapply ConnTrans; eassumption.
Qed.

Theorem cc_spec st x y : closed_b st (cc st) = true -> (same_in (part_of (cc st)) x y = true <-> CC st x y).
Proof. intros Hc. rewrite same_in_spec. split; [apply cc_sound|apply cc_complete, Hc]. Qed.

(* ========================================================================================== *)
(* 3. Soundness: without packed encodings every union `unify` performs is demanded by CC       *)

Ltac split_ifs :=
  repeat match goal with
         | |- context [if ?c then _ else _] => destruct c
         end.

(* split every `if` / `match` scrutinee in a hypothesis of the form `.. = Ok m` *)
Ltac crack H :=
  repeat match type of H with
         | context [if ?c then _ else _] => destruct c eqn:?
         | context [match ?x with _ => _ end] => destruct x eqn:?
         end.

(* the equalities merge emits are component equalities of its two operands *)
Lemma merge_eqs_comp t u p n m : npe t -> npe u -> merge t u p n = Ok m -> incl (eqs m) (comp_pairs t u).
Proof.
  intros [Nt Pt] [Nu Pu] Em. unfold merge, merge_body in Em. destruct (te_eqb t u).
  - injection Em as <-. intros q [].
  - destruct t, u; try discriminate Nt; try discriminate Nu; try discriminate Pt; try discriminate Pu; simpl in Em;
      crack Em; try discriminate Em; injection Em as <-; cbn [eqs comp_pairs];
      intros q Hq; repeat match goal with H : (_ =? _) = _ |- _ => rewrite H end;
      first [exact Hq | destruct Hq].
Qed.

(* a constructed result is one of the operands *)
Lemma merge_ctor_result t u p n m : npe t -> npe u -> merge t u p n = Ok m -> is_ctor (expr m) = true ->
  expr m = t \/ expr m = u.
Proof.
  intros [Nt Pt] [Nu Pu] Em. unfold merge, merge_body in Em. destruct (te_eqb t u).
  - injection Em as <-. auto.
  - destruct t, u; try discriminate Nt; try discriminate Nu; try discriminate Pt; try discriminate Pu; simpl in Em;
      crack Em; try discriminate Em; injection Em as <-; cbn [expr is_ctor conflict conflict_with];
      intros H; first [discriminate H | auto].
Qed.

(* a constructed data element is a piece of evidence of its class *)
Definition JQ (E : te -> Prop) (t : te) : Prop := is_ctor t = true -> E t.

Lemma JQ_mono (E E' : te -> Prop) t : (forall e, E e -> E' e) -> JQ E t -> JQ E' t.
Proof. intros Hs H Hc. apply Hs, H, Hc. Qed.
Lemma JQ_self (E : te -> Prop) e : npe e -> E e -> JQ E e.
Proof. intros _ He _. exact He. Qed.
Lemma JQ_merge (E : te -> Prop) t u p n m : npe t -> npe u -> JQ E t -> JQ E u -> merge t u p n = Ok m -> JQ E (expr m).
Proof.
  intros Nt Nu Ht Hu Em Hc. destruct (merge_ctor_result t u p n m Nt Nu Em Hc) as [E1|E1]; rewrite E1 in *; auto.
Qed.

Section Sound.
  Variable st : tstate.
  Definition CCall (ps : list (tyvar * tyvar)) : Prop := forall p, In p ps -> CC st (fst p) (snd p).

  (* the component equalities of any two pieces of evidence in E are demanded *)
  Definition demands (E : te -> Prop) : Prop :=
    forall e1 e2 p, E e1 -> E e2 -> In p (comp_pairs e1 e2) -> CC st (fst p) (snd p).

  Lemma fold_class_cc (E : te -> Prop) rest : demands E -> forall cur root acc c acc',
    Forall npe (cur :: rest) -> JQ E cur -> Forall (JQ E) rest -> CCall (r_eqs acc) ->
    fold_class cur rest root acc = Ok (c, acc') -> CCall (r_eqs acc').
  Proof.
    intros HE. induction rest as [|u t IH]; intros cur root acc c acc' Hn Hc Hr Ha; cbn [fold_class].
    - intros [= _ <-]. exact Ha.
    - inversion Hn as [|? ? Nc Nr]; subst. inversion Nr as [|? ? Nu Nt]; subst. inversion Hr as [|? ? Qu Qt]; subst.
      destruct (merge cur u root (r_next acc)) as [m| |] eqn:Em; try discriminate.
      apply IH; [|exact (JQ_merge E _ _ _ _ _ Nc Nu Hc Qu Em)|exact Qt|].
      + constructor; [|exact Nt]. apply (npe_merge_closed _ _ _ _ _ Nc Nu Em).
      + cbn [r_eqs]. intros q Hq. apply in_app_or in Hq as [Hq|Hq]; [apply Ha, Hq|].
        apply (merge_eqs_comp _ _ _ _ _ Nc Nu Em) in Hq. destruct (comp_pairs_ctor _ _ _ Hq) as [C1 C2].
        eapply HE; [apply Hc, C1|apply Qu, C2|exact Hq].
  Qed.

  Lemma plan_cc o rnd (EV : tyvar -> te -> Prop) : orders_ok o -> forall sets acc settled acc',
    (forall root infs, In (root, infs) sets -> Forall npe infs /\ Forall (JQ (EV root)) infs /\ demands (EV root)) ->
    CCall (r_eqs acc) -> plan_classes o rnd sets acc = Ok (settled, acc') -> CCall (r_eqs acc').
  Proof.
    intros Ho. induction sets as [|[root infs] tl IH]; intros acc settled acc' Hs Ha; cbn [plan_classes].
    - intros [= _ <-]. exact Ha.
    - assert (Ht : forall r i, In (r, i) tl -> Forall npe i /\ Forall (JQ (EV r)) i /\ demands (EV r))
        by (intros r i Hi; apply (Hs r i); right; exact Hi).
      destruct infs as [|i0 infs]; [apply IH; assumption|].
      destruct (Hs root (i0 :: infs) (or_introl eq_refl)) as (Hn & Hq & Hd).
      assert (Hperm : Permutation (o_class o rnd root (i0 :: infs)) (i0 :: infs)).
      { destruct Ho as (_ & _ & Hoc & _). apply Hoc. }
      assert (Hn' : Forall npe (o_class o rnd root (i0 :: infs))) by (eapply Permutation_Forall; [apply Permutation_sym, Hperm|exact Hn]).
      assert (Hq' : Forall (JQ (EV root)) (o_class o rnd root (i0 :: infs))) by (eapply Permutation_Forall; [apply Permutation_sym, Hperm|exact Hq]).
      destruct (o_class o rnd root (i0 :: infs)) as [|cur rest]; [discriminate|].
      destruct (fold_class cur rest root acc) as [[c acc1]| |] eqn:Ef; cbn [ubind fst snd]; try discriminate.
      destruct (plan_classes o rnd tl acc1) as [[l acc2]| |] eqn:Ep; cbn [ubind fst snd]; try discriminate.
      intros [= _ <-]. eapply IH; [exact Ht| |exact Ep].
      inversion Hq' as [|? ? Qc Qr]; subst. eapply fold_class_cc; [exact Hd|exact Hn'|exact Qc|exact Qr|exact Ha|exact Ef].
  Qed.

  (* partition demanded so far *)
  Definition SND (a : astate iset) : Prop := exists qs, PI a qs /\ CCall qs.

  Lemma snd_rep a x y : SND a -> rep a x = rep a y -> CC st x y.
  Proof. intros (qs & [_ H] & Hq) E. eapply CC_conn; [exact Hq|apply H, E]. Qed.

  Lemma round_snd o rnd a nxt a' n' p : orders_ok o -> ASP npe a -> CP st JQ a -> SND a ->
    round a_forest o rnd a nxt = Ok (a', n', p) -> SND a'.
  Proof.
    intros Ho HP HC HS Er. pose proof HP as [HA HD]. pose proof HS as (qs & HPI & Hq).
    destruct (round_pf_shape _ _ _ _ _ _ _ Ho HP Er) as (settled & acc & Ep & ->).
    destruct (a_sets_view a HA) as (HA1 & _ & Hd1 & Hl).
    assert (Hacc : CCall (r_eqs acc)).
    { eapply (plan_cc o rnd (ev st a) Ho); [| |exact Ep]; [|intros q []].
      intros root infs Hin. rewrite Hl in Hin. apply in_map_iff in Hin as (k & [= <- <-] & _).
      split; [apply Forall_forall; intros e He; eapply HD, He|].
      split; [apply Forall_forall; intros e He; apply HC, He|].
      intros e1 e2 q (y1 & O1 & R1) (y2 & O2 & R2) Hq'.
      eapply cc_comp; [apply orig_ev, O1|apply orig_ev, O2| |exact Hq']. apply (snd_rep a); [exact HS|congruence]. }
    set (es := o_eqs o rnd (dedup pair_eqb (r_eqs acc))).
    exists (qs ++ es). split.
    - apply pi_fold_un. apply pi_fold_same; [intros b x; apply pi_set|]. apply pi_sets, HPI.
    - intros q Hq'. apply in_app_or in Hq' as [H|H]; [apply Hq, H|]. apply Hacc.
      eapply dedup_in. eapply Permutation_in; [|exact H]. destruct Ho as (_ & _ & _ & _ & Hoe & _). apply Hoe.
  Qed.

  Lemma loop_snd o fuel : orders_ok o -> forall rnd a nxt a' n', ASP npe a -> CP st JQ a -> SND a ->
    unify_loop a_forest o fuel rnd a nxt = Ok (a', n') -> SND a'.
  Proof.
    intros Ho. induction fuel as [|f IH]; intros rnd a nxt a' n' HP HC HS; cbn [unify_loop]; [discriminate|].
    destruct (round a_forest o rnd a nxt) as [[[a1 n1] p1]| |] eqn:Er; cbn [ubind]; try discriminate.
    pose proof (round_snd _ _ _ _ _ _ _ Ho HP HC HS Er) as HS1.
    pose proof (cp_round st JQ JQ_mono JQ_merge _ _ _ _ _ _ _ Ho HP HC Er) as HC1.
    pose proof (round_dp npe npe_merge_closed _ _ _ _ _ _ _ Ho HP Er) as HP1.
    destruct p1; [apply IH; assumption|]. intros [= <- _]. exact HS1.
  Qed.

  Lemma init_pairs_declared o : orders_ok o -> incl (init_pairs o st) (declared_eqs st).
  Proof.
    intros (Hv & Hi & _) p. unfold declared_eqs, init_pairs. rewrite !in_flat_map. intros (v & Hvin & Hp).
    exists v. split; [eapply Permutation_in; [apply Hv|exact Hvin]|].
    eapply eq_pairs_perm; [apply Hi|exact Hp].
  Qed.

  Lemma pf_npe : packed_free st = true -> forall v e, In e (ts_get st v) -> ne e -> npe e.
  Proof.
    intros Hpf v e He Hne. split; [exact Hne|].
    unfold packed_free in Hpf. rewrite forallb_forall in Hpf. unfold ts_get in He.
    destruct (find (fun p => fst p =? v) (ts_inf st)) as [p|] eqn:Ef; [|destruct He].
    apply find_some in Ef as [Hin _]. specialize (Hpf p Hin). rewrite forallb_forall in Hpf. apply Hpf, He.
  Qed.

  Theorem a_unify_sound o fuel a n : orders_ok o -> packed_free st = true -> a_unify fuel o st = Ok (a, n) ->
    forall x y, rep a x = rep a y -> CC st x y.
  Proof.
    intros Ho Hpf E x y. unfold a_unify, unify_gen in E. rewrite init_forest_a in E. cbn [ubind] in E.
    pose proof (pf_npe Hpf) as Hnpe.
    destruct (cp_init st JQ JQ_mono JQ_self o Ho Hnpe) as [_ HC0].
    assert (HS0 : SND (a_init o st)).
    { exists (init_pairs o st). split; [apply pi_init|]. intros [u w] Hp. cbn [fst snd]. apply cc_decl. rewrite decl_eqs_eq. apply (init_pairs_declared o Ho), Hp. }
    apply snd_rep. eapply loop_snd; [exact Ho| |exact HC0|exact HS0|exact E]. apply asp_init; assumption.
  Qed.
End Sound.

(* ========================================================================================== *)
(* 4. Homogeneous classes: every data element has the kind of its class's evidence             *)

(* t has the (non-Any) kind of the evidence e0; a conflict can only arise among words *)
Definition skind (t e0 : te) : bool :=
  match t, e0 with
  | Word _ _, Word _ _ => true
  | Conflict _ _, Word _ _ => true
  | Mapping _ _, Mapping _ _ => true
  | FixedArray _ l, FixedArray _ l' => l =? l'
  | DynamicArray _, DynamicArray _ => true
  | _, _ => false
  end.

Definition pairwise_ok (E : te -> Prop) : Prop := forall e1 e2, E e1 -> E e2 -> kind_ok e1 e2 = true.
Definition QK (E : te -> Prop) (t : te) : Prop := pairwise_ok E -> t = Any \/ exists e0, E e0 /\ skind t e0 = true.

Lemma QK_mono (E E' : te -> Prop) t : (forall e, E e -> E' e) -> QK E t -> QK E' t.
Proof.
  intros Hs H Hp. destruct H as [H|(e0 & He0 & Hk)]; [intros e1 e2 H1 H2; apply Hp; auto|left; exact H|].
  right. exists e0. auto.
Qed.

Lemma QK_self (E : te -> Prop) e : npe e -> E e -> QK E e.
Proof.
  intros _ He Hp. specialize (Hp e e He He). destruct e; cbn in Hp; try discriminate Hp; [left; reflexivity| | | |];
    right; eexists; (split; [exact He|]); cbn; auto.
Qed.

Lemma skind_same t u e0 e0' : skind t e0 = true -> skind u e0' = true -> kind_ok e0 e0' = true ->
  (is_word e0 = true /\ (is_word t || is_conflict t) = true /\ (is_word u || is_conflict u) = true)
  \/ (is_ctor t = true /\ comp_pairs t u <> [] /\ skind t e0' = true).
Proof.
  destruct t, e0; cbn; try discriminate; destruct u, e0'; cbn; try discriminate; intros H1 H2 H3; auto;
    right; (split; [reflexivity|]).
  - apply N.eqb_eq in H1, H2, H3. subst. rewrite !N.eqb_refl. split; [discriminate|reflexivity].
  - split; [discriminate|reflexivity].
  - split; [discriminate|reflexivity].
Qed.

Lemma QK_merge (E : te -> Prop) t u p n m : npe t -> npe u -> QK E t -> QK E u -> merge t u p n = Ok m -> QK E (expr m).
Proof.
  intros Nt Nu Ht Hu Em Hp. specialize (Ht Hp). specialize (Hu Hp).
  destruct Ht as [->|(e0 & He0 & K0)].
  { (* Any on the left: the result is u, or stays a conflict *)
    destruct Nu as [Nu Pu]. destruct (is_conflict u) eqn:Cu.
    - destruct u; try discriminate Cu. pose proof (merge_conflict_r _ _ Any p n m eq_refl Em) as Hc.
      destruct Hu as [H|(e1 & He1 & K1)]; [discriminate H|]. right. exists e1. split; [exact He1|].
      destruct (expr m); try discriminate Hc. exact K1.
    - destruct (any_identity_proof u p n Nu Cu) as [_ E2]. rewrite Em in E2. injection E2 as ->. exact Hu. }
  destruct Hu as [->|(e1 & He1 & K1)].
  { destruct Nt as [Nt Pt]. destruct (is_conflict t) eqn:Ct.
    - destruct t; try discriminate Ct. pose proof (merge_conflict_l _ _ Any p n m eq_refl Em) as Hc.
      right. exists e0. split; [exact He0|]. destruct (expr m); try discriminate Hc. exact K0.
    - destruct (any_identity_proof t p n Nt Ct) as [E1 _]. rewrite Em in E1. injection E1 as ->. right. eauto. }
  destruct (skind_same _ _ _ _ K0 K1 (Hp _ _ He0 He1)) as [(W0 & Wt & Wu)|(Ct & Cp & K0')].
  - (* words and conflicts: a word or a conflict *)
    right. exists e0. split; [exact He0|]. destruct e0; try discriminate W0.
    destruct t; try discriminate Wt; destruct u; try discriminate Wu.
    + destruct (merge_word_word width0 usage0 width1 usage1 p n) as (e & E1 & He). rewrite Em in E1. injection E1 as ->. cbn [expr].
      destruct (wordev_join _ _) as [[? ?]|]; [subst e; reflexivity|destruct e; try discriminate He; reflexivity].
    + pose proof (merge_conflict_r _ _ _ p n m (proj1 Nt) Em) as Hc. destruct (expr m); try discriminate Hc. reflexivity.
    + pose proof (merge_conflict_l _ _ _ p n m (proj1 Nu) Em) as Hc. destruct (expr m); try discriminate Hc. reflexivity.
    + pose proof (merge_conflict_l _ _ _ p n m (proj1 Nu) Em) as Hc. destruct (expr m); try discriminate Hc. reflexivity.
  - (* two constructed types of one kind: the left one *)
    right. exists e0. split; [exact He0|].
    assert (Hm : expr m = t).
    { destruct Nt as [Nt Pt], Nu as [Nu Pu]. unfold merge, merge_body in Em. destruct (te_eqb t u); [injection Em as <-; reflexivity|].
      destruct t; try discriminate Ct; destruct u; cbn in Cp; try congruence; simpl in Em.
      - destruct (length =? length0); [injection Em as <-; reflexivity|congruence].
      - injection Em as <-. reflexivity.
      - injection Em as <-. reflexivity. }
    rewrite Hm. exact K0.
Qed.

(* ========================================================================================== *)
(* 5. On the fragment: the run computes CC, constructed classes resolve to constructed types   *)

(* t answers the constructed evidence e: same kind (same length), components related by R *)
Definition ctor_match (R : tyvar -> tyvar -> Prop) (t e : te) : Prop :=
  match e with
  | Mapping k v => exists k' v', t = Mapping k' v' /\ R k k' /\ R v v'
  | FixedArray x l => exists x', t = FixedArray x' l /\ R x x'
  | DynamicArray x => exists x', t = DynamicArray x' /\ R x x'
  | _ => True
  end.

Section Fragment.
  Variable st : tstate.
  Hypothesis Hfrag : order_free st = true.

  Lemma frag_pf : packed_free st = true.
  Proof. unfold order_free in Hfrag. apply andb_true_iff in Hfrag as [H _]. apply andb_true_iff in H as [H _]. exact H. Qed.
  Lemma frag_closed : closed_b st (cc st) = true.
  Proof. unfold order_free in Hfrag. apply andb_true_iff in Hfrag as [H _]. apply andb_true_iff in H as [_ H]. exact H. Qed.
  Lemma frag_homog : homog_b st (cc st) = true.
  Proof. unfold order_free in Hfrag. apply andb_true_iff in Hfrag as [_ H]. exact H. Qed.

  Lemma homog_kind x e1 y e2 : In (x, e1) (ev_list st) -> In (y, e2) (ev_list st) -> CC st x y -> kind_ok e1 e2 = true.
  Proof.
    intros H1 H2 Hc. pose proof frag_homog as H. unfold homog_b in H. rewrite forallb_forall in H.
    specialize (H _ H1). rewrite forallb_forall in H. specialize (H _ H2). cbn [fst snd] in H.
    apply (cc_spec st x y frag_closed) in Hc. rewrite Hc in H. exact H.
  Qed.

  Variable o : orders.
  Variable fuel : nat.
  Variable a : astate iset.
  Variable n : N.
  Hypothesis Ho : orders_ok o.
  Hypothesis Ea : a_unify fuel o st = Ok (a, n).

  Lemma frag_sound x y : rep a x = rep a y -> CC st x y.
  Proof. exact (a_unify_sound st o fuel a n Ho frag_pf Ea x y). Qed.

  Lemma frag_pairwise r : pairwise_ok (ev st a r).
  Proof.
    intros e1 e2 (y1 & O1 & R1) (y2 & O2 & R2). eapply homog_kind; [apply orig_ev, O1|apply orig_ev, O2|].
    apply frag_sound. congruence.
  Qed.

  (* constructed evidence: the class resolves to a constructed type of that kind *)
  Lemma frag_ctor x e : orig st x e -> is_ctor e = true ->
    exists t, dat a (rep a x) = [t] /\ ctor_match (fun u w => rep a u = rep a w) t e.
  Proof.
    intros Hoe Hc.
    destruct (a_unify_post _ _ _ _ _ Ho Ea) as [HA Hp].
    destruct (a_unify_cover st ne ne_merge_closed (fun v e0 _ H => H) cov_ctor cov_ctor_mono cov_ctor_self cov_ctor_merge_l cov_ctor_merge_r
                o fuel a n Ho Ea) as (ps & [_ HPI] & HC).
    destruct (HC x e Hoe) as (t & Ht & Hcov). destruct (Hp (rep a x)) as [Hlen _].
    assert (Hd : dat a (rep a x) = [t]).
    { destruct (dat a (rep a x)) as [|t0 [|t1 l]]; [destruct Ht| |cbn in Hlen; lia]. destruct Ht as [->|[]]. reflexivity. }
    exists t. split; [exact Hd|].
    pose proof (a_unify_class_pred st QK QK_mono QK_self QK_merge o fuel a n Ho frag_pf Ea (rep a x) t Ht (frag_pairwise _)) as HK.
    assert (Hev : ev st a (rep a x) e) by (exists x; auto).
    assert (Hbad : forall e0, ev st a (rep a x) e0 -> is_word e0 = true -> False).
    { intros e0 He0 Hw. pose proof (frag_pairwise _ _ _ He0 Hev) as Hk. destruct e0; try discriminate Hw. destruct e; discriminate. }
    assert (Hnc : is_conflict t = false).
    { destruct t; try reflexivity. exfalso. destruct HK as [H|(e0 & He0 & K)]; [discriminate H|].
      destruct e0; try discriminate K. eapply Hbad; [exact He0|reflexivity]. }
    assert (Hnb : t <> Bytes).
    { intros ->. destruct HK as [H|(e0 & He0 & K)]; [discriminate H|discriminate K]. }
    destruct e; try discriminate Hc; cbn [cov_ctor ctor_match] in *.
    - destruct Hcov as [H|(x' & -> & H)]; [congruence|]. exists x'. split; [reflexivity|apply HPI, H].
    - destruct Hcov as [H|(k' & v' & -> & H1 & H2)]; [congruence|]. exists k', v'. split; [reflexivity|]. split; apply HPI; assumption.
    - destruct Hcov as [H|[H|(x' & -> & H)]]; [congruence|contradiction|]. exists x'. split; [reflexivity|apply HPI, H].
  Qed.

  Lemma frag_complete x y : CC st x y -> rep a x = rep a y.
  Proof.
    intros H. induction H.
    - apply (a_unify_eq o fuel st a n x y Ho Ea). apply ConnPair. rewrite <- decl_eqs_eq. assumption.
    - destruct (comp_pairs_ctor _ _ _ H2) as [C1 C2].
      destruct (frag_ctor x e1 (proj2 (orig_ev st x e1) H) C1) as (t1 & D1 & M1).
      destruct (frag_ctor y e2 (proj2 (orig_ev st y e2) H0) C2) as (t2 & D2 & M2).
      rewrite IHCC, D2 in D1. injection D1 as ->.
      destruct e1; try discriminate C1; destruct e2; cbn in H2; try (destruct H2; fail); cbn [ctor_match] in *.
      + destruct (length =? length0); [|destruct H2]. destruct H2 as [<-|[]]. cbn [fst snd].
        destruct M1 as (x1 & E1 & R1), M2 as (x2 & E2 & R2). rewrite E2 in E1. injection E1 as -> _. congruence.
      + destruct M1 as (k1 & v1 & E1 & R1 & R1'), M2 as (k2 & v2 & E2 & R2 & R2'). rewrite E2 in E1. injection E1 as -> ->.
        destruct H2 as [<-|[<-|[]]]; cbn [fst snd]; congruence.
      + destruct H2 as [<-|[]]. cbn [fst snd].
        destruct M1 as (x1 & E1 & R1), M2 as (x2 & E2 & R2). rewrite E2 in E1. injection E1 as ->. congruence.
    - reflexivity.
    - congruence.
    - congruence.
  Qed.

  Theorem frag_partition x y : rep a x = rep a y <-> CC st x y.
  Proof. split; [apply frag_sound|apply frag_complete]. Qed.

  (* the evidence of x's class, as a list that does not depend on the run *)
  Definition cc_evidence (x : tyvar) : list te :=
    flat_map (fun p => if same_in (part_of (cc st)) (fst p) x then [snd p] else []) (ev_list st).

  Lemma cc_evidence_spec x e : In e (cc_evidence x) <-> ev st a (rep a x) e.
  Proof.
    unfold cc_evidence. rewrite in_flat_map. split.
    - intros ([y e0] & Hin & H). cbn [fst snd] in H. destruct (same_in _ y x) eqn:Es; [|destruct H]. destruct H as [<-|[]].
      exists y. split; [apply orig_ev, Hin|]. apply frag_partition, (cc_spec st y x frag_closed), Es.
    - intros (y & Hoe & Hr). exists (y, e). split; [apply orig_ev, Hoe|]. cbn [fst snd].
      apply frag_partition, (cc_spec st y x frag_closed) in Hr. rewrite Hr. left. reflexivity.
  Qed.

  (* what the class of x resolves to, in terms of the run-independent evidence list *)
  Definition run_data (x : tyvar) : option iset := fm_get (rep a x) (a_data a).

  Lemma run_data_dat x t : dat a (rep a x) = [t] -> run_data x = Some [t].
  Proof. unfold run_data, dat. destruct (fm_get (rep a x) (a_data a)) as [l|]; cbn [or_ident]; [intros ->; reflexivity|discriminate]. Qed.

  Lemma frag_words x : (forall e, In e (cc_evidence x) -> wordlike e) -> resolves_to_join (cc_evidence x) (run_data x).
  Proof.
    intros Hw. pose proof (a_unify_words_join o fuel st a n x (cc_evidence x) Ho frag_pf Ea (cc_evidence_spec x) Hw) as H.
    replace (run_data x) with (match dat a (rep a x) with
                               | [] => match fm_get (rep a x) (a_data a) with None => None | Some l => Some l end
                               | l => Some l
                               end); [exact H|].
    unfold run_data, dat. destruct (fm_get (rep a x) (a_data a)) as [[|e l]|]; reflexivity.
  Qed.

  Lemma frag_nonword x e : In e (cc_evidence x) -> ~ wordlike e ->
    is_ctor e = true /\ exists t, run_data x = Some [t] /\ ctor_match (CC st) t e.
  Proof.
    intros Hin Hnw. apply cc_evidence_spec in Hin. pose proof (frag_pairwise _ _ _ Hin Hin) as Hk.
    assert (Hc : is_ctor e = true).
    { destruct e; cbn in Hk; try discriminate Hk; try reflexivity; exfalso; apply Hnw; [right|left]; reflexivity. }
    split; [exact Hc|]. destruct Hin as (y & Hoe & Hr).
    destruct (frag_ctor y e Hoe Hc) as (t & Hd & Hm). rewrite Hr in Hd. exists t. split; [apply run_data_dat, Hd|].
    destruct e; try discriminate Hc; cbn [ctor_match] in *.
    - destruct Hm as (x' & -> & H). exists x'. split; [reflexivity|apply frag_partition, H].
    - destruct Hm as (k' & v' & -> & H1 & H2). exists k', v'. split; [reflexivity|]. split; apply frag_partition; assumption.
    - destruct Hm as (x' & -> & H). exists x'. split; [reflexivity|apply frag_partition, H].
  Qed.
End Fragment.

(* ========================================================================================== *)
(* 6. Two runs in different orders                                                             *)

Lemma CC_equiv st : (forall x, CC st x x) /\ (forall x y, CC st x y -> CC st y x) /\ (forall x y z, CC st x y -> CC st y z -> CC st x z).
Proof. split; [apply cc_refl|]. split; [apply cc_sym|apply cc_trans]. Qed.

Lemma ctor_match_rel st t1 t2 e : is_ctor e = true -> ctor_match (CC st) t1 e -> ctor_match (CC st) t2 e -> te_rel (CC st) t1 t2.
Proof.
  intros Hc H1 H2. destruct e; try discriminate Hc; cbn [ctor_match] in *.
  - destruct H1 as (x1 & -> & R1), H2 as (x2 & -> & R2). constructor. eapply cc_trans; [apply cc_sym, R1|exact R2].
  - destruct H1 as (k1 & v1 & -> & R1 & R1'), H2 as (k2 & v2 & -> & R2 & R2'). constructor; (eapply cc_trans; [apply cc_sym; eassumption|eassumption]).
  - destruct H1 as (x1 & -> & R1), H2 as (x2 & -> & R2). constructor. eapply cc_trans; [apply cc_sym, R1|exact R2].
Qed.

Lemma join_data_rel R evd d1 d2 : resolves_to_join evd d1 -> resolves_to_join evd d2 -> data_rel R d1 d2.
Proof.
  unfold resolves_to_join. destruct (words_of evd) as [|w l].
  - destruct evd; [intros [->| ->] [->| ->]; exact I|]. intros -> ->. constructor.
  - destruct (wordev_join_all w l) as [[wj uj]|].
    + intros -> ->. constructor.
    + intros (c1 & -> & C1) (c2 & -> & C2). destruct c1; try discriminate C1. destruct c2; try discriminate C2. constructor.
Qed.

Definition wordlike_b (e : te) : bool := is_word e || is_any e.
Lemma wordlike_b_spec e : wordlike_b e = true <-> wordlike e.
Proof. unfold wordlike_b, wordlike. rewrite orb_true_iff. tauto. Qed.

Theorem frag_two_runs st o1 o2 f1 f2 a1 a2 n1 n2 : order_free st = true -> orders_ok o1 -> orders_ok o2 ->
  a_unify f1 o1 st = Ok (a1, n1) -> a_unify f2 o2 st = Ok (a2, n2) ->
  (forall x y, rep a1 x = rep a1 y <-> rep a2 x = rep a2 y) /\
  (forall x, data_rel (CC st) (run_data a1 x) (run_data a2 x)).
Proof.
  intros Hf Ho1 Ho2 E1 E2. split.
  - intros x y. rewrite (frag_partition st Hf o1 f1 a1 n1 Ho1 E1), (frag_partition st Hf o2 f2 a2 n2 Ho2 E2). tauto.
  - intros x. destruct (forallb wordlike_b (cc_evidence st x)) eqn:Ew.
    + rewrite forallb_forall in Ew.
      assert (Hw : forall e, In e (cc_evidence st x) -> wordlike e) by (intros e He; apply wordlike_b_spec, Ew, He).
      eapply join_data_rel; [apply (frag_words st Hf o1 f1 a1 n1 Ho1 E1 x Hw)|apply (frag_words st Hf o2 f2 a2 n2 Ho2 E2 x Hw)].
    + assert (Hex : exists e, In e (cc_evidence st x) /\ ~ wordlike e).
      { clear -Ew. induction (cc_evidence st x) as [|e l IH]; [discriminate|]. cbn [forallb] in Ew.
        destruct (wordlike_b e) eqn:Ee.
        - destruct (IH Ew) as (e' & H1 & H2). exists e'. split; [right; exact H1|exact H2].
        - exists e. split; [left; reflexivity|]. intros H. apply wordlike_b_spec in H. congruence. }
      destruct Hex as (e & Hin & Hnw).
      destruct (frag_nonword st Hf o1 f1 a1 n1 Ho1 E1 x e Hin Hnw) as (Hc & t1 & D1 & M1).
      destruct (frag_nonword st Hf o2 f2 a2 n2 Ho2 E2 x e Hin Hnw) as (_ & t2 & D2 & M2).
      rewrite D1, D2. cbn [data_rel]. eapply ctor_match_rel; eassumption.
Qed.

(* ---- on the concrete forest ---- *)
Lemma same_class_rep s a x y : fsim s a -> (same_class s x y <-> rep a x = rep a y).
Proof.
  intros Hs. split; [|apply same_class_of_rep, Hs].
  intros (r & sx & sy & Ex & Ey).
  destruct (find_refines s a x Hs) as (sx' & Ex' & _). destruct (find_refines s a y Hs) as (sy' & Ey' & _).
  rewrite Ex in Ex'. rewrite Ey in Ey'. congruence.
Qed.

Theorem unify_order_independent_proof st o1 o2 fuel : order_free st = true -> orders_ok o1 -> orders_ok o2 ->
  (length (ts_vars st) + 2 <= fuel)%nat ->
  exists s1 s2, unify fuel o1 st = Ok (s1, ts_next st) /\ unify fuel o2 st = Ok (s2, ts_next st) /\
    (forall x y, same_class s1 x y <-> CC st x y) /\ (forall x y, same_class s2 x y <-> CC st x y) /\
    (forall x, exists s1' s2' d1 d2, ds_get_data iset s1 x = Ok (s1', d1) /\ ds_get_data iset s2 x = Ok (s2', d2) /\
                 data_rel (CC st) d1 d2).
Proof.
  intros Hf Ho1 Ho2 Hfuel. pose proof (frag_pf st Hf) as Hpf.
  destruct (unify_terminates_packed_free_proof o1 st fuel Ho1 Hpf Hfuel) as (s1 & U1).
  destruct (unify_terminates_packed_free_proof o2 st fuel Ho2 Hpf Hfuel) as (s2 & U2).
  exists s1, s2. split; [exact U1|]. split; [exact U2|].
  destruct (unify_ok_refines _ _ _ _ _ U1) as (a1 & E1 & S1). destruct (unify_ok_refines _ _ _ _ _ U2) as (a2 & E2 & S2).
  split; [intros x y; rewrite (same_class_rep s1 a1 x y S1); apply (frag_partition st Hf o1 fuel a1 _ Ho1 E1)|].
  split; [intros x y; rewrite (same_class_rep s2 a2 x y S2); apply (frag_partition st Hf o2 fuel a2 _ Ho2 E2)|].
  intros x. destruct (get_data_refines s1 a1 x S1) as (s1' & G1 & _). destruct (get_data_refines s2 a2 x S2) as (s2' & G2 & _).
  exists s1', s2', (run_data a1 x), (run_data a2 x). split; [exact G1|]. split; [exact G2|].
  apply (frag_two_runs st o1 o2 fuel fuel a1 a2 _ _ Hf Ho1 Ho2 E1 E2).
Qed.

(* the same through `type_of` *)
Theorem unify_order_independent_type_of st o1 o2 fuel : order_free st = true -> orders_ok o1 -> orders_ok o2 ->
  (length (ts_vars st) + 2 <= fuel)%nat ->
  exists s1 s2, unify fuel o1 st = Ok (s1, ts_next st) /\ unify fuel o2 st = Ok (s2, ts_next st) /\
    (forall x y, same_class s1 x y <-> same_class s2 x y) /\
    (forall x, exists s1' s2' t1 t2, type_of ds_forest s1 x = Ok (s1', t1) /\ type_of ds_forest s2 x = Ok (s2', t2) /\
                 tof_rel (CC st) t1 t2).
Proof.
  intros Hf Ho1 Ho2 Hfuel.
  destruct (unify_order_independent_proof st o1 o2 fuel Hf Ho1 Ho2 Hfuel) as (s1 & s2 & U1 & U2 & P1 & P2 & D).
  exists s1, s2. split; [exact U1|]. split; [exact U2|]. split; [intros x y; rewrite P1, P2; tauto|].
  intros x. destruct (D x) as (s1' & s2' & d1 & d2 & G1 & G2 & Hd).
  unfold type_of. cbn [f_get ds_forest]. rewrite G1, G2. cbn [of_ds ubind fst snd]. eexists _, _, _, _. split; [reflexivity|]. split; [reflexivity|].
  destruct d1 as [[|t1 [|? ?]]|], d2 as [[|t2 [|? ?]]|]; cbn [data_rel tof_rel] in *; try exact I; try contradiction; try exact Hd; try constructor.
  destruct t1; exact Hd.
Qed.

(* ========================================================================================== *)
(* 7. The sub-fragment of words                                                                *)

Lemma words_only_ev st x e : words_only st = true -> In (x, e) (ev_list st) -> wordlike e.
Proof.
  intros Hw Hin. apply orig_ev in Hin as (_ & He & Hne). unfold words_only in Hw. rewrite forallb_forall in Hw.
  unfold ts_get in He. destruct (find (fun p => fst p =? x) (ts_inf st)) as [p|] eqn:Ef; [|destruct He].
  apply find_some in Ef as [Hp _]. specialize (Hw p Hp). rewrite forallb_forall in Hw. specialize (Hw e He).
  unfold ne in Hne. rewrite Hne in Hw. cbn [orb] in Hw. apply orb_true_iff in Hw. exact Hw.
Qed.

Lemma words_only_noctor st : words_only st = true -> ctor_ev st = [].
Proof.
  intros Hw. unfold ctor_ev. apply filter_none. intros [x e] Hin. cbn [snd].
  destruct (words_only_ev st x e Hw Hin) as [H|H]; destruct e; try discriminate H; reflexivity.
Qed.

Lemma words_only_frag st : words_only st = true -> order_free st = true.
Proof.
  intros Hw. unfold order_free. apply andb_true_iff. split; [apply andb_true_iff; split|].
  - unfold packed_free. apply forallb_forall. intros p Hp. apply forallb_forall. intros e He.
    unfold words_only in Hw. rewrite forallb_forall in Hw. specialize (Hw p Hp). rewrite forallb_forall in Hw. specialize (Hw e He).
    destruct e; try discriminate Hw; reflexivity.
  - unfold closed_b, just_pairs. rewrite (words_only_noctor st Hw). reflexivity.
  - unfold homog_b. apply forallb_forall. intros [x e1] H1. apply forallb_forall. intros [y e2] H2. cbn [fst snd].
    apply orb_true_iff. right.
    destruct (words_only_ev st x e1 Hw H1) as [W1|W1], (words_only_ev st y e2 Hw H2) as [W2|W2];
      destruct e1; try discriminate W1; destruct e2; try discriminate W2; reflexivity.
Qed.

Lemma words_only_CC st x y : words_only st = true -> (CC st x y <-> Conn (declared_eqs st) x y).
Proof.
  intros Hw. split.
  - intros H. induction H.
    + apply ConnPair. rewrite <- decl_eqs_eq. assumption.
    + exfalso. destruct (comp_pairs_ctor _ _ _ H2) as [C1 _].
      destruct (words_only_ev st x e1 Hw H) as [W|W]; destruct e1; try discriminate W; discriminate C1.
    + apply ConnRefl.
    + apply ConnSym. assumption.
    + eapply ConnTrans; eassumption.
  - apply CC_conn. intros [u w] Hp. apply cc_decl. rewrite decl_eqs_eq. exact Hp.
Qed.

(* words: the two resolved types are the SAME word, or both are conflicts *)
Definition word_data_same (d1 d2 : option iset) : Prop :=
  match d1, d2 with
  | (None | Some []), (None | Some []) => True
  | Some [t1], Some [t2] => t1 = t2 \/ (is_conflict t1 = true /\ is_conflict t2 = true)
  | _, _ => False
  end.

Theorem unify_order_independent_words_proof st o1 o2 fuel : words_only st = true -> orders_ok o1 -> orders_ok o2 ->
  (length (ts_vars st) + 2 <= fuel)%nat ->
  exists s1 s2, unify fuel o1 st = Ok (s1, ts_next st) /\ unify fuel o2 st = Ok (s2, ts_next st) /\
    (forall x y, (same_class s1 x y <-> Conn (declared_eqs st) x y) /\ (same_class s2 x y <-> Conn (declared_eqs st) x y)) /\
    (forall x, exists s1' s2' d1 d2, ds_get_data iset s1 x = Ok (s1', d1) /\ ds_get_data iset s2 x = Ok (s2', d2) /\
                 word_data_same d1 d2).
Proof.
  intros Hw Ho1 Ho2 Hfuel. pose proof (words_only_frag st Hw) as Hf. pose proof (frag_pf st Hf) as Hpf.
  destruct (unify_terminates_packed_free_proof o1 st fuel Ho1 Hpf Hfuel) as (s1 & U1).
  destruct (unify_terminates_packed_free_proof o2 st fuel Ho2 Hpf Hfuel) as (s2 & U2).
  exists s1, s2. split; [exact U1|]. split; [exact U2|].
  destruct (unify_ok_refines _ _ _ _ _ U1) as (a1 & E1 & S1). destruct (unify_ok_refines _ _ _ _ _ U2) as (a2 & E2 & S2).
  split.
  - intros x y. rewrite (same_class_rep s1 a1 x y S1), (same_class_rep s2 a2 x y S2),
      (frag_partition st Hf o1 fuel a1 _ Ho1 E1), (frag_partition st Hf o2 fuel a2 _ Ho2 E2), (words_only_CC st x y Hw). tauto.
  - intros x. destruct (get_data_refines s1 a1 x S1) as (s1' & G1 & _). destruct (get_data_refines s2 a2 x S2) as (s2' & G2 & _).
    exists s1', s2', (run_data a1 x), (run_data a2 x). split; [exact G1|]. split; [exact G2|].
    assert (Hwl : forall e, In e (cc_evidence st x) -> wordlike e).
    { intros e He. unfold cc_evidence in He. apply in_flat_map in He as ([y e0] & Hin & H). cbn [fst snd] in H.
      destruct (same_in _ y x); [|destruct H]. destruct H as [<-|[]]. eapply words_only_ev; eassumption. }
    pose proof (frag_words st Hf o1 fuel a1 _ Ho1 E1 x Hwl) as J1. pose proof (frag_words st Hf o2 fuel a2 _ Ho2 E2 x Hwl) as J2.
    unfold resolves_to_join in J1, J2. destruct (words_of (cc_evidence st x)) as [|w l].
    + destruct (cc_evidence st x); [destruct J1 as [->| ->], J2 as [->| ->]; exact I|]. rewrite J1, J2. left. reflexivity.
    + destruct (wordev_join_all w l).
      * rewrite J1, J2. left. reflexivity.
      * destruct J1 as (c1 & -> & C1), J2 as (c2 & -> & C2). right. auto.
Qed.

(* ========================================================================================== *)
(* 8. The boundary of the fragment is tight: witnesses just outside it                         *)

Definition data_of (o : orders) (st : tstate) (x : tyvar) : option (option iset) :=
  match unify 8 o st with
  | Ok (s, _) => match ds_get_data iset s x with Ok (_, d) => Some d | _ => None end
  | _ => None
  end.
Definition roots_in (o : orders) (st : tstate) (xs : list tyvar) : list tyvar :=
  match unify 8 o st with Ok (s, _) => map (root_of s) xs | _ => [] end.

(* K1: a dynamic array absorbs two words that contradict each other -- array or conflict, by fold order *)
Definition wit_k1 : tstate :=
  mk_tstate [(0, [DynamicArray 1; Word (Some 8) UBool; Word (Some 160) UAddress]); (1, [])] 2.
(* Packed x Word: Packed[Span(V1,0,8)] with Word<Bool,8> and Word<Bool,-> -- conflict, or the encoding with Bool pushed to V1 *)
Definition wit_packed : tstate :=
  mk_tstate [(0, [Packed [mk_span 1 0 8] false; Word (Some 8) UBool; Word None UBool]); (1, [])] 2.
(* C16's K2: two mappings and a word -- the keys are unified only if the mappings meet before the conflict *)
Definition wit_k2 : tstate :=
  mk_tstate [(0, [Mapping 1 2; Mapping 3 4; Word (Some 8) UBool]); (1, []); (2, []); (3, []); (4, [])] 5.
(* dynamic bytes between two dynamic arrays *)
Definition wit_bytes : tstate := mk_tstate [(0, [Bytes; DynamicArray 1; DynamicArray 2]); (1, []); (2, [])] 3.

Theorem unify_order_dependent_refuted_proof :
  (order_free wit_k1 = false /\
   data_of orders_sorted wit_k1 0 = Some (Some [DynamicArray 1]) /\
   exists cs rs, data_of orders_sorted_rev wit_k1 0 = Some (Some [Conflict cs rs])) /\
  (order_free wit_packed = false /\
   (exists cs rs, data_of orders_sorted wit_packed 0 = Some (Some [Conflict cs rs])) /\
   data_of orders_sorted_rev wit_packed 0 = Some (Some [Packed [mk_span 1 0 8] false]) /\
   data_of orders_sorted wit_packed 1 = Some (Some []) /\
   data_of orders_sorted_rev wit_packed 1 = Some (Some [Word (Some 8) UBool])) /\
  (order_free wit_k2 = false /\
   roots_in orders_sorted wit_k2 [1; 3] = [1; 1] /\ roots_in orders_sorted_rev wit_k2 [1; 3] = [1; 3]) /\
  (order_free wit_bytes = false /\
   roots_in orders_sorted wit_bytes [1; 2] = [1; 2] /\ roots_in orders_sorted_rev wit_bytes [1; 2] = [2; 2]).
Proof.
  repeat split; try (vm_compute; reflexivity); eexists _, _; vm_compute; reflexivity.
Qed.

(* ========================================================================================== *)
(* 9. C11: variable-disjoint judgement sets do not influence each other                        *)

Lemma find_app_l {A} (f : A -> bool) l1 l2 x : find f l1 = Some x -> find f (l1 ++ l2) = Some x.
Proof. induction l1 as [|a t IH]; cbn; [discriminate|]. destruct (f a); auto. Qed.
Lemma find_app_r {A} (f : A -> bool) l1 l2 : find f l1 = None -> find f (l1 ++ l2) = find f l2.
Proof. induction l1 as [|a t IH]; cbn; [reflexivity|]. destruct (f a); [discriminate|auto]. Qed.

Lemma find_key_some (l : list (tyvar * iset)) v : In v (map fst l) -> exists p, find (fun p => fst p =? v) l = Some p.
Proof.
  induction l as [|a t IH]; cbn; [intros []|]. intros H.
  match goal with |- context [if ?c then _ else _] => destruct c eqn:Ec end; [eauto|].
  destruct H as [E2|H]; [|eauto]. apply N.eqb_neq in Ec. exfalso. apply Ec. exact E2.
Qed.
Lemma find_key_none (l : list (tyvar * iset)) v : ~ In v (map fst l) -> find (fun p => fst p =? v) l = None.
Proof.
  induction l as [|a t IH]; cbn; [reflexivity|]. intros H.
  match goal with |- context [if ?c then _ else _] => destruct c eqn:Ec end.
  - exfalso. apply H. left. apply N.eqb_eq in Ec. exact Ec.
  - apply IH. intros Hin. apply H. right. exact Hin.
Qed.

Lemma ts_get_app_l st1 st2 v : In v (ts_vars st1) -> ts_get (ts_app st1 st2) v = ts_get st1 v.
Proof.
  intros Hv. unfold ts_get, ts_app. cbn [ts_inf]. destruct (find_key_some _ v Hv) as (p & Ef). rewrite (find_app_l _ _ _ _ Ef), Ef. reflexivity.
Qed.
Lemma ts_get_app_r st1 st2 v : ~ In v (ts_vars st1) -> ts_get (ts_app st1 st2) v = ts_get st2 v.
Proof.
  intros Hv. unfold ts_get, ts_app. cbn [ts_inf]. rewrite (find_app_r _ _ _ (find_key_none _ v Hv)). reflexivity.
Qed.

Lemma disjoint_spec l1 l2 x : disjoint_b l1 l2 = true -> In x l1 -> In x l2 -> False.
Proof.
  unfold disjoint_b. rewrite forallb_forall. intros H H1 H2. specialize (H x H1). apply negb_true_iff in H.
  assert (existsb (N.eqb x) l2 = true) by (apply existsb_exists; exists x; split; [exact H2|apply N.eqb_refl]). congruence.
Qed.

Lemma vars_mentioned st v : In v (ts_vars st) -> In v (mentioned st).
Proof. intros H. unfold mentioned. apply in_or_app. left. exact H. Qed.

Lemma ts_get_in_inf st v e : In e (ts_get st v) -> exists p, In p (ts_inf st) /\ In e (snd p).
Proof.
  unfold ts_get. destruct (find (fun p => fst p =? v) (ts_inf st)) as [p|] eqn:Ef; [|intros []].
  apply find_some in Ef as [Hp _]. eauto.
Qed.

Lemma expr_vars_mentioned st v e u : In e (ts_get st v) -> In u (te_vars e) -> In u (mentioned st).
Proof.
  intros He Hu. destruct (ts_get_in_inf st v e He) as (p & Hp & Hin). unfold mentioned. apply in_or_app. right.
  apply in_flat_map. exists p. split; [exact Hp|]. apply in_flat_map. exists e. auto.
Qed.

Lemma comp_pairs_vars e1 e2 p : In p (comp_pairs e1 e2) -> In (fst p) (te_vars e1) /\ In (snd p) (te_vars e2).
Proof.
  destruct e1, e2; cbn; try (intros []; fail).
  - destruct (length =? length0); [|intros []]. intros [<-|[]]. cbn. auto.
  - intros [<-|[<-|[]]]; cbn; auto.
  - intros [<-|[]]. cbn. auto.
Qed.

Section Disjoint.
  Variables st1 st2 : tstate.
  Hypothesis Hdis : disjoint_b (mentioned st1) (mentioned st2) = true.
  Let st := ts_app st1 st2.

  Lemma vars_disjoint v : In v (ts_vars st1) -> In v (ts_vars st2) -> False.
  Proof. intros H1 H2. eapply disjoint_spec; [exact Hdis|apply vars_mentioned, H1|apply vars_mentioned, H2]. Qed.

  Lemma app_vars : ts_vars st = ts_vars st1 ++ ts_vars st2.
  Proof. unfold st, ts_app, ts_vars. cbn [ts_inf]. apply map_app. Qed.

  Lemma flat_map_app_ext {A B} (f g h : A -> list B) l1 l2 :
    (forall x, In x l1 -> f x = g x) -> (forall x, In x l2 -> f x = h x) ->
    flat_map f (l1 ++ l2) = flat_map g l1 ++ flat_map h l2.
  Proof.
    intros H1 H2. rewrite flat_map_app.
    assert (G : forall (u w : A -> list B) l, (forall x, In x l -> u x = w x) -> flat_map u l = flat_map w l).
    { intros u w l. induction l as [|x t IH]; intros H; cbn [flat_map]; [reflexivity|].
      rewrite (H x (or_introl eq_refl)), IH; [reflexivity|]. intros y Hy. apply H. right. exact Hy. }
    f_equal; apply G; assumption.
  Qed.

  Lemma app_decl : decl_eqs st = decl_eqs st1 ++ decl_eqs st2.
  Proof.
    unfold decl_eqs. rewrite app_vars. apply flat_map_app_ext.
    - intros v Hv. unfold st. rewrite (ts_get_app_l st1 st2 v Hv). reflexivity.
    - intros v Hv. unfold st. rewrite (ts_get_app_r st1 st2 v); [reflexivity|]. intros H1. eapply vars_disjoint; eassumption.
  Qed.

  Lemma app_ev : ev_list st = ev_list st1 ++ ev_list st2.
  Proof.
    unfold ev_list. rewrite app_vars. apply flat_map_app_ext.
    - intros v Hv. unfold st. rewrite (ts_get_app_l st1 st2 v Hv). reflexivity.
    - intros v Hv. unfold st. rewrite (ts_get_app_r st1 st2 v); [reflexivity|]. intros H1. eapply vars_disjoint; eassumption.
  Qed.

  Lemma ev_mentioned sti x e : In (x, e) (ev_list sti) -> In x (ts_vars sti) /\ forall u, In u (te_vars e) -> In u (mentioned sti).
  Proof.
    intros H. apply orig_ev in H as (Hx & He & _). split; [exact Hx|]. intros u Hu. eapply expr_vars_mentioned; eassumption.
  Qed.

  Lemma decl_mentioned sti x y : In (x, y) (decl_eqs sti) -> In x (mentioned sti) /\ In y (mentioned sti).
  Proof.
    unfold decl_eqs. rewrite in_flat_map. intros (v & Hv & H). unfold pairs_of_eq in H. apply in_flat_map in H as (e & He & H).
    destruct e; try (destruct H; fail). destruct H as [[= <- <-]|[]]. split; [apply vars_mentioned, Hv|].
    eapply expr_vars_mentioned; [exact He|left; reflexivity].
  Qed.

  (* the closure of the whole is the disjoint union of the closures of the parts *)
  Lemma CC_part_l x y : CC st1 x y -> CC st x y.
  Proof.
    intros H. induction H.
    - apply cc_decl. rewrite app_decl. apply in_or_app. left. assumption.
    - apply (cc_comp st x e1 y e2 p); [rewrite app_ev; apply in_or_app; left; assumption|rewrite app_ev; apply in_or_app; left; assumption|assumption|assumption].
    - apply cc_refl.
    - apply cc_sym. assumption.
    - eapply cc_trans; eassumption.
  Qed.
  Lemma CC_part_r x y : CC st2 x y -> CC st x y.
  Proof.
    intros H. induction H.
    - apply cc_decl. rewrite app_decl. apply in_or_app. right. assumption.
    - apply (cc_comp st x e1 y e2 p); [rewrite app_ev; apply in_or_app; right; assumption|rewrite app_ev; apply in_or_app; right; assumption|assumption|assumption].
    - apply cc_refl.
    - apply cc_sym. assumption.
    - eapply cc_trans; eassumption.
  Qed.

  Definition split_rel (x y : tyvar) : Prop :=
    x = y \/ (In x (mentioned st1) /\ In y (mentioned st1) /\ CC st1 x y) \/ (In x (mentioned st2) /\ In y (mentioned st2) /\ CC st2 x y).

  Lemma comp_in_part sti x e1 y e2 p : In (x, e1) (ev_list sti) -> In (y, e2) (ev_list sti) -> CC sti x y -> In p (comp_pairs e1 e2) ->
    In (fst p) (mentioned sti) /\ In (snd p) (mentioned sti) /\ CC sti (fst p) (snd p).
  Proof.
    intros H1 H2 Hc Hp. destruct (comp_pairs_vars _ _ _ Hp) as [V1 V2].
    split; [apply (ev_mentioned sti x e1 H1), V1|]. split; [apply (ev_mentioned sti y e2 H2), V2|].
    exact (cc_comp sti x e1 y e2 p H1 H2 Hc Hp).
  Qed.

  Lemma ev_side x e : In (x, e) (ev_list st) ->
    (In (x, e) (ev_list st1) /\ In x (mentioned st1)) \/ (In (x, e) (ev_list st2) /\ In x (mentioned st2)).
  Proof.
    rewrite app_ev. intros H. apply in_app_or in H as [H|H]; [left|right]; (split; [exact H|]); apply vars_mentioned, (ev_mentioned _ x e H).
  Qed.

  Lemma dis x : In x (mentioned st1) -> In x (mentioned st2) -> False.
  Proof. intros H1 H2. exact (disjoint_spec _ _ x Hdis H1 H2). Qed.

  Lemma CC_split x y : CC st x y -> split_rel x y.
  Proof.
    intros H. induction H.
    - rewrite app_decl in H. apply in_app_or in H as [H|H]; [right; left|right; right];
        destruct (decl_mentioned _ _ _ H) as [M1 M2]; (split; [exact M1|]); (split; [exact M2|]); apply cc_decl, H.
    - destruct (ev_side _ _ H) as [[E1 Mx]|[E1 Mx]], (ev_side _ _ H0) as [[E2 My]|[E2 My]].
      + right. left. apply (comp_in_part st1 x e1 y e2 p E1 E2); [|exact H2].
        destruct IHCC as [->|[(_ & _ & Hc)|(Mx2 & _)]]; [apply cc_refl|exact Hc|exfalso; exact (dis _ Mx Mx2)].
      + exfalso. destruct IHCC as [->|[(_ & My1 & _)|(Mx2 & _)]]; [exact (dis _ Mx My)|exact (dis _ My1 My)|exact (dis _ Mx Mx2)].
      + exfalso. destruct IHCC as [->|[(Mx1 & _)|(_ & My2 & _)]]; [exact (dis _ My Mx)|exact (dis _ Mx1 Mx)|exact (dis _ My My2)].
      + right. right. apply (comp_in_part st2 x e1 y e2 p E1 E2); [|exact H2].
        destruct IHCC as [->|[(Mx1 & _)|(_ & _ & Hc)]]; [apply cc_refl|exfalso; exact (dis _ Mx1 Mx)|exact Hc].
    - left. reflexivity.
    - destruct IHCC as [->|[(A & B & C)|(A & B & C)]]; [left; reflexivity|right; left|right; right]; (split; [exact B|]); (split; [exact A|]); apply cc_sym, C.
    - destruct IHCC1 as [->|[(A & B & C)|(A & B & C)]]; [exact IHCC2| |];
        destruct IHCC2 as [<-|[(A' & B' & C')|(A' & B' & C')]].
      + right. left. auto.
      + right. left. split; [exact A|]. split; [exact B'|]. eapply cc_trans; eassumption.
      + exfalso. exact (dis _ B A').
      + right. right. auto.
      + exfalso. exact (dis _ A' B).
      + right. right. split; [exact A|]. split; [exact B'|]. eapply cc_trans; eassumption.
  Qed.

  Theorem CC_app_l x y : In x (mentioned st1) -> (CC st x y <-> CC st1 x y).
  Proof.
    intros Mx. split; [|apply CC_part_l]. intros H. destruct (CC_split x y H) as [->|[(_ & _ & Hc)|(Mx2 & _)]];
      [apply cc_refl|exact Hc|exfalso; exact (dis _ Mx Mx2)].
  Qed.
  Theorem CC_app_r x y : In x (mentioned st2) -> (CC st x y <-> CC st2 x y).
  Proof.
    intros Mx. split; [|apply CC_part_r]. intros H. destruct (CC_split x y H) as [->|[(Mx1 & _)|(_ & _ & Hc)]];
      [apply cc_refl|exfalso; exact (dis _ Mx1 Mx)|exact Hc].
  Qed.
  Theorem CC_app_sep x y : In x (mentioned st1) -> In y (mentioned st2) -> ~ CC st x y.
  Proof.
    intros Mx My H. destruct (CC_split x y H) as [->|[(_ & My1 & _)|(Mx2 & _)]]; [exact (dis _ Mx My)|exact (dis _ My1 My)|exact (dis _ Mx Mx2)].
  Qed.
End Disjoint.

Lemma ctor_match_mono (R R' : tyvar -> tyvar -> Prop) t e : (forall u w, R u w -> R' u w) -> ctor_match R t e -> ctor_match R' t e.
Proof.
  intros H. destruct e; cbn [ctor_match]; auto.
  - intros (x' & E & H1). exists x'. auto.
  - intros (k' & v' & E & H1 & H2). exists k', v'. auto.
  - intros (x' & E & H1). exists x'. auto.
Qed.

(* two judgement sets that give x's class the same evidence *)
Lemma frag_compare st st' o o' f f' a a' n n' x : order_free st = true -> order_free st' = true ->
  orders_ok o -> orders_ok o' -> a_unify f o st = Ok (a, n) -> a_unify f' o' st' = Ok (a', n') ->
  cc_evidence st x = cc_evidence st' x -> (forall u w, CC st' u w -> CC st u w) ->
  data_rel (CC st) (run_data a x) (run_data a' x).
Proof.
  intros Hf Hf' Ho Ho' E E' Hev Hsub. destruct (forallb wordlike_b (cc_evidence st x)) eqn:Ew.
  - rewrite forallb_forall in Ew.
    assert (Hw : forall e, In e (cc_evidence st x) -> wordlike e) by (intros e He; apply wordlike_b_spec, Ew, He).
    eapply join_data_rel; [apply (frag_words st Hf o f a n Ho E x Hw)|].
    rewrite Hev. apply (frag_words st' Hf' o' f' a' n' Ho' E' x). rewrite <- Hev. exact Hw.
  - assert (Hex : exists e, In e (cc_evidence st x) /\ ~ wordlike e).
    { clear -Ew. induction (cc_evidence st x) as [|e l IH]; [discriminate|]. cbn [forallb] in Ew.
      destruct (wordlike_b e) eqn:Ee.
      - destruct (IH Ew) as (e' & H1 & H2). exists e'. split; [right; exact H1|exact H2].
      - exists e. split; [left; reflexivity|]. intros H. apply wordlike_b_spec in H. congruence. }
    destruct Hex as (e & Hin & Hnw).
    destruct (frag_nonword st Hf o f a n Ho E x e Hin Hnw) as (Hc & t1 & D1 & M1).
    rewrite Hev in Hin. destruct (frag_nonword st' Hf' o' f' a' n' Ho' E' x e Hin Hnw) as (_ & t2 & D2 & M2).
    rewrite D1, D2. cbn [data_rel]. eapply ctor_match_rel; [exact Hc|exact M1|]. eapply ctor_match_mono; [exact Hsub|exact M2].
Qed.

Section DisjointRuns.
  Variables st1 st2 : tstate.
  Hypothesis Hdis : disjoint_b (mentioned st1) (mentioned st2) = true.
  Hypothesis Hf1 : order_free st1 = true.
  Hypothesis Hf2 : order_free st2 = true.
  Hypothesis Hf : order_free (ts_app st1 st2) = true.
  Let st := ts_app st1 st2.

  Lemma same_in_bool_l y x : In y (mentioned st1) ->
    same_in (part_of (cc st)) y x = same_in (part_of (cc st1)) y x.
  Proof.
    intros My. pose proof (cc_spec st y x (frag_closed st Hf)) as S. pose proof (cc_spec st1 y x (frag_closed st1 Hf1)) as S1.
    pose proof (CC_app_l st1 st2 Hdis y x My) as H. fold st in H.
    destruct (same_in (part_of (cc st)) y x), (same_in (part_of (cc st1)) y x); try reflexivity.
    - assert (true = true) by reflexivity. apply S, H, S1 in H0. discriminate.
    - assert (true = true) by reflexivity. apply S1, H, S in H0. discriminate.
  Qed.
  Lemma same_in_bool_r y x : In y (mentioned st2) ->
    same_in (part_of (cc st)) y x = same_in (part_of (cc st2)) y x.
  Proof.
    intros My. pose proof (cc_spec st y x (frag_closed st Hf)) as S. pose proof (cc_spec st2 y x (frag_closed st2 Hf2)) as S1.
    pose proof (CC_app_r st1 st2 Hdis y x My) as H. fold st in H.
    destruct (same_in (part_of (cc st)) y x), (same_in (part_of (cc st2)) y x); try reflexivity.
    - assert (true = true) by reflexivity. apply S, H, S1 in H0. discriminate.
    - assert (true = true) by reflexivity. apply S1, H, S in H0. discriminate.
  Qed.

  Lemma flat_map_nil {A B} (f : A -> list B) l : (forall x, In x l -> f x = []) -> flat_map f l = [].
  Proof. induction l as [|x t IH]; intros H; cbn [flat_map]; [reflexivity|]. rewrite (H x (or_introl eq_refl)), IH; [reflexivity|]. intros y Hy. apply H. right. exact Hy. Qed.
  Lemma flat_map_ext' {A B} (f g : A -> list B) l : (forall x, In x l -> f x = g x) -> flat_map f l = flat_map g l.
  Proof. induction l as [|x t IH]; intros H; cbn [flat_map]; [reflexivity|]. rewrite (H x (or_introl eq_refl)), IH; [reflexivity|]. intros y Hy. apply H. right. exact Hy. Qed.

  Lemma cc_evidence_l x : In x (mentioned st1) -> cc_evidence st x = cc_evidence st1 x.
  Proof.
    intros Mx. unfold cc_evidence. fold st. unfold st at 2. rewrite (app_ev st1 st2 Hdis), flat_map_app.
    rewrite (flat_map_nil _ (ev_list st2)), app_nil_r.
    - apply flat_map_ext'. intros [y e] Hin. cbn [fst snd]. rewrite same_in_bool_l; [reflexivity|].
      apply vars_mentioned. apply orig_ev in Hin. apply Hin.
    - intros [y e] Hin. cbn [fst snd]. destruct (same_in (part_of (cc st)) y x) eqn:Es; [|reflexivity]. exfalso.
      apply (cc_spec st y x (frag_closed st Hf)) in Es. apply cc_sym in Es.
      apply (CC_app_sep st1 st2 Hdis x y Mx); [|exact Es]. apply vars_mentioned. apply orig_ev in Hin. apply Hin.
  Qed.
  Lemma cc_evidence_r x : In x (mentioned st2) -> cc_evidence st x = cc_evidence st2 x.
  Proof.
    intros Mx. unfold cc_evidence. fold st. unfold st at 2. rewrite (app_ev st1 st2 Hdis), flat_map_app.
    rewrite (flat_map_nil _ (ev_list st1)); cbn [app].
    - apply flat_map_ext'. intros [y e] Hin. cbn [fst snd]. rewrite same_in_bool_r; [reflexivity|].
      apply vars_mentioned. apply orig_ev in Hin. apply Hin.
    - intros [y e] Hin. cbn [fst snd]. destruct (same_in (part_of (cc st)) y x) eqn:Es; [|reflexivity]. exfalso.
      apply (cc_spec st y x (frag_closed st Hf)) in Es.
      apply (CC_app_sep st1 st2 Hdis y x); [|exact Mx|exact Es]. apply vars_mentioned. apply orig_ev in Hin. apply Hin.
  Qed.

  (* C11 on the fragment: whatever the three iteration orders *)
  Theorem unify_disjoint_union_proof o o1 o2 fuel : orders_ok o -> orders_ok o1 -> orders_ok o2 ->
    (length (ts_vars st1) + length (ts_vars st2) + 2 <= fuel)%nat ->
    exists s s1 s2 n,
      unify fuel o st = Ok (s, n) /\ unify fuel o1 st1 = Ok (s1, ts_next st1) /\ unify fuel o2 st2 = Ok (s2, ts_next st2) /\
      (forall x y, In x (mentioned st1) -> (same_class s x y <-> same_class s1 x y)) /\
      (forall x y, In x (mentioned st2) -> (same_class s x y <-> same_class s2 x y)) /\
      (forall x y, In x (mentioned st1) -> In y (mentioned st2) -> ~ same_class s x y) /\
      (forall x, In x (mentioned st1) -> exists s' s1' d d1,
           ds_get_data iset s x = Ok (s', d) /\ ds_get_data iset s1 x = Ok (s1', d1) /\ data_rel (CC st) d d1) /\
      (forall x, In x (mentioned st2) -> exists s' s2' d d2,
           ds_get_data iset s x = Ok (s', d) /\ ds_get_data iset s2 x = Ok (s2', d2) /\ data_rel (CC st) d d2).
  Proof.
    intros Ho Ho1 Ho2 Hfuel.
    assert (Hlen : length (ts_vars st) = (length (ts_vars st1) + length (ts_vars st2))%nat).
    { unfold st. rewrite (app_vars st1 st2). apply app_length. }
    destruct (unify_terminates_packed_free_proof o st fuel Ho (frag_pf st Hf) ltac:(lia)) as (s & U).
    destruct (unify_terminates_packed_free_proof o1 st1 fuel Ho1 (frag_pf st1 Hf1) ltac:(lia)) as (s1 & U1).
    destruct (unify_terminates_packed_free_proof o2 st2 fuel Ho2 (frag_pf st2 Hf2) ltac:(lia)) as (s2 & U2).
    exists s, s1, s2, (ts_next st). split; [exact U|]. split; [exact U1|]. split; [exact U2|].
    destruct (unify_ok_refines _ _ _ _ _ U) as (a & E & S). destruct (unify_ok_refines _ _ _ _ _ U1) as (a1 & E1 & S1).
    destruct (unify_ok_refines _ _ _ _ _ U2) as (a2 & E2 & S2).
    assert (P : forall x y, same_class s x y <-> CC st x y)
      by (intros x y; rewrite (same_class_rep s a x y S); apply (frag_partition st Hf o fuel a _ Ho E)).
    assert (P1 : forall x y, same_class s1 x y <-> CC st1 x y)
      by (intros x y; rewrite (same_class_rep s1 a1 x y S1); apply (frag_partition st1 Hf1 o1 fuel a1 _ Ho1 E1)).
    assert (P2 : forall x y, same_class s2 x y <-> CC st2 x y)
      by (intros x y; rewrite (same_class_rep s2 a2 x y S2); apply (frag_partition st2 Hf2 o2 fuel a2 _ Ho2 E2)).
    split; [intros x y Mx; rewrite P, P1; apply (CC_app_l st1 st2 Hdis x y Mx)|].
    split; [intros x y Mx; rewrite P, P2; apply (CC_app_r st1 st2 Hdis x y Mx)|].
    split; [intros x y Mx My Hs; apply P in Hs; exact (CC_app_sep st1 st2 Hdis x y Mx My Hs)|].
    split.
    - intros x Mx. destruct (get_data_refines s a x S) as (s' & G & _). destruct (get_data_refines s1 a1 x S1) as (s1' & G1 & _).
      exists s', s1', (run_data a x), (run_data a1 x). split; [exact G|]. split; [exact G1|].
      apply (frag_compare st st1 o o1 fuel fuel a a1 _ _ x Hf Hf1 Ho Ho1 E E1 (cc_evidence_l x Mx)).
      intros u w. apply (CC_part_l st1 st2 Hdis).
    - intros x Mx. destruct (get_data_refines s a x S) as (s' & G & _). destruct (get_data_refines s2 a2 x S2) as (s2' & G2 & _).
      exists s', s2', (run_data a x), (run_data a2 x). split; [exact G|]. split; [exact G2|].
      apply (frag_compare st st2 o o2 fuel fuel a a2 _ _ x Hf Hf2 Ho Ho2 E E2 (cc_evidence_r x Mx)).
      intros u w. apply (CC_part_r st1 st2 Hdis).
  Qed.
End DisjointRuns.

(* With packed encodings the fresh type variables come from ONE counter: the NAMES of the span variables in a
   resolved type depend on the other fragment (on its registered variables and on how many fresh variables its
   own merges take first); the shape of the type -- offsets and sizes -- does not in this witness. *)
Definition wit_p1 : tstate :=
  mk_tstate [(0, [Packed [mk_span 1 0 128; mk_span 2 128 128] false; Packed [mk_span 1 0 64; mk_span 2 64 192] true]); (1, []); (2, [])] 3.
Definition wit_p2 : tstate :=
  mk_tstate [(10, [Packed [mk_span 11 0 8; mk_span 12 8 8] false; Packed [mk_span 11 0 16] false]); (11, []); (12, [])] 13.
Definition shape_of (d : option (option iset)) : list (list (N * N)) :=
  match d with
  | Some (Some l) => map (fun t => match t with Packed ts _ => map (fun s => (s_off s, s_sz s)) ts | _ => [] end) l
  | _ => []
  end.
Definition span_vars_of (d : option (option iset)) : list tyvar :=
  match d with Some (Some [Packed ts _]) => map s_typ ts | _ => [] end.

Theorem unify_packed_fresh_names_refuted_proof :
  disjoint_b (mentioned wit_p1) (mentioned wit_p2) = true /\
  span_vars_of (data_of orders_sorted wit_p1 0) = [3; 4; 5] /\
  span_vars_of (data_of orders_sorted (ts_app wit_p1 wit_p2) 0) = [13; 14; 15] /\
  span_vars_of (data_of orders_sorted wit_p2 10) = [13; 14] /\
  span_vars_of (data_of orders_sorted (ts_app wit_p1 wit_p2) 10) = [16; 17] /\
  shape_of (data_of orders_sorted wit_p1 0) = shape_of (data_of orders_sorted (ts_app wit_p1 wit_p2) 0) /\
  shape_of (data_of orders_sorted wit_p2 10) = shape_of (data_of orders_sorted (ts_app wit_p1 wit_p2) 10).
Proof. repeat split; vm_compute; reflexivity. Qed.
