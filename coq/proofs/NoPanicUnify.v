(* C01 end to end (props/C01_pipeline.v), stages 7-8 of `Pipeline.analyze_model`: unification and the layout loop.

   1. `merge` keeps `te_ok` (NoPanic.v) under the growing fresh-variable counter: on its result and on every judgement it
      emits (`merge_ok`).  The hard arm is (Packed, Packed): the re-partitioned spans run between two boundaries, and every
      boundary is the start or the end of an input span, so no span END grows -- `max (offset + size)` is preserved; the
      spans pushed down to the inputs' type variables are re-based by subtracting the input's offset, which only shrinks them.
      The (Packed, Word) arm creates the span `[0, width)` from a word width that is itself below `usize::MAX`.  Fresh
      variables are below the counter `merge` returns.
   2. Hence `merge` never panics on `te_ok` operands other than `Equal` (`merge_safe`): the only remaining site,
      `span.offset + span.size` in `usize`, needs a span with offset + size > usize::MAX.
   3. The class-data invariant of UnifyProofs.v (`ASP`), generalised to a predicate indexed by the counter
      (`Section CounterPred`): `unify` never panics on a `tstate_ok` judgement set (`unify_preserves_span_bound`), and when it
      returns, the data of every class is `te_ok` under the returned counter.
   4. So the class table `abi_type_for` reads is closed (`final_state_closed`), which is the hypothesis of `abi_no_panic`. *)
From Coq Require Import String Permutation.
From SLX Require Import Base VectorMap DisjointSet gen.Constants gen.WordUseTable gen.RulesSig SymVal TypeExpr Merge Unify Register
  AbiT Layout Abi Pipeline NoPanic.
From SLX.proofs Require Import VecMapProofs DsuProofs MergePackedProofs MergeFactsProofs UnifyProofs AbiProofs TcStagesProofs NoPanicTc.
Open Scope N_scope.
Set Default Timeout 300.

Ltac case_ifs :=
  repeat match goal with
         | |- context [if ?c then _ else _] => destruct c
         end.

(* ================================================================================================ 1. merge keeps te_ok *)
Definition okres (n : N) (r : mresult) : Prop :=
  match r with
  | Ok m => n <= Merge.next m /\ te_ok (Merge.next m) (expr m) = true /\ Forall (fun j => te_ok (Merge.next m) (snd j) = true) (judg m)
  | _ => True
  end.

Lemma ok_expression e n : te_ok n e = true -> okres n (m_expression e n).
Proof. intros H. cbn. split; [lia|]. split; [exact H|constructor]. Qed.

Lemma te_ok_conflict n cs rs : te_ok n (Conflict cs rs) = true.
Proof. reflexivity. Qed.

Lemma mpa_ok l r ts n : okres n (merge_packed_array l r ts n).
Proof.
  unfold merge_packed_array. destruct ts as [|t1 [|t2 [|t3 [|t4 ts]]]]; try (apply ok_expression; reflexivity).
  - case_ifs; apply ok_expression; reflexivity.
  - destruct (sort_by le_offset [t1; t2]) as [|x [|y ?]]; try exact I. case_ifs; apply ok_expression; reflexivity.
  - destruct (sort_by le_offset [t1; t2; t3]) as [|x [|y [|z ?]]]; try exact I. case_ifs; apply ok_expression; reflexivity.
Qed.

Lemma te_ok_packed1 n v w : w <= usize_max -> v < n -> te_ok n (packed_of [mk_span v 0 w]) = true.
Proof.
  intros Hw Hv. unfold te_ok, packed_of, te_bounded, te_closed, span_fits. cbn [forallb te_vars map s_typ s_off s_sz].
  rewrite N.add_0_l. rewrite (proj2 (N.leb_le _ _) Hw), (proj2 (N.ltb_lt _ _) Hv). reflexivity.
Qed.

Lemma mpw_ok l r ts w u p n : te_ok n l = true -> te_ok n r = true -> te_ok n (Word w u) = true ->
  okres n (merge_packed_word l r ts w u p n).
Proof.
  intros Hl Hr Hw. unfold merge_packed_word. destruct ts as [|sp ts]; [apply ok_expression, Hr|].
  assert (Hwb : forall x, w = Some x -> x <= usize_max).
  { intros x ->. unfold te_ok in Hw. apply andb_prop in Hw as [Hw _]. cbn [te_bounded] in Hw. apply N.leb_le. exact Hw. }
  assert (Hl1 : te_ok (n + 1) l = true) by (apply (te_ok_mono n); [lia|exact Hl]).
  destruct u, w as [x|]; case_ifs; try (apply ok_expression; first [exact Hl | exact Hr | reflexivity]);
    cbn [okres m_judgements expr judg Merge.next];
    first [ split; [lia|]; split; [exact Hl1|]; constructor; [|constructor]; cbn [snd]; apply te_ok_packed1; [apply Hwb; reflexivity|lia]
          | split; [lia|]; split; [exact Hl|]; constructor; [|constructor]; cbn [snd]; exact Hr ].
Qed.

(* ---- (Packed, Packed) ---- *)
Lemma take_while_in {A} (p : A -> bool) l x : In x (take_while p l) -> In x l.
Proof. induction l as [|y l IH]; cbn [take_while]; [auto|]. destruct (p y); [intros [<-|H]; [left; reflexivity|right; auto]|intros []]. Qed.
Lemma skip_while_in {A} (p : A -> bool) l x : In x (skip_while p l) -> In x l.
Proof. induction l as [|y l IH]; cbn [skip_while]; [auto|]. destruct (p y); [intros H; right; auto|auto]. Qed.

Lemma process_spans_Q (Q : te -> Prop) spans input :
  (forall (s : span) corr, (forall x, In x corr -> In x spans) ->
     Q (packed_of (map (fun '(t, st, e) => mk_span t (st - s_off s) (e - st)) corr))) ->
  Forall (fun j : tyvar * te => Q (snd j)) (snd (process_spans spans input)).
Proof.
  intros HQ. unfold process_spans. generalize (sort_by le_offset_size input). intros l.
  assert (G : forall acc : list (tyvar * tyvar) * list (tyvar * te),
             Forall (fun j => Q (snd j)) (snd acc) ->
             Forall (fun j : tyvar * te => Q (snd j))
               (snd (fold_left
                  (fun acc s =>
                     let corr := take_while (fun '(_, _, e) => e <=? s_off s + s_sz s)
                                   (skip_while (fun '(_, st, _) => st <? s_off s) spans) in
                     match corr with
                     | [(t, _, _)] => (fst acc ++ [(s_typ s, t)], snd acc)
                     | _ => (fst acc,
                             snd acc ++ [(s_typ s,
                                          packed_of (map (fun '(t, st, e) => mk_span t (st - s_off s) (e - st)) corr))])
                     end) l acc))).
  { induction l as [|s t IH]; intros acc Hacc; cbn [fold_left]; [exact Hacc|]. apply IH.
    assert (Hc : forall x, In x (take_while (fun '(_, _, e) => e <=? s_off s + s_sz s)
                                  (skip_while (fun '(_, st, _) => st <? s_off s) spans)) -> In x spans).
    { intros x Hx. eapply skip_while_in, take_while_in, Hx. }
    pose proof (HQ s _ Hc) as Hq.
    destruct (take_while _ _) as [|[[t0 st0] e0] [|c2 cs]]; cbn [snd]; try exact Hacc;
      apply Forall_app; (split; [exact Hacc|constructor; [exact Hq|constructor]]). }
  apply G. constructor.
Qed.

Lemma mk_spans_props M bs : forall start n spans n', mk_spans bs start n = (spans, n') ->
  (forall x, In x (start :: bs) -> x <= M) ->
  n <= n' /\ forall t st e, In (t, st, e) spans -> n <= t < n' /\ st <= M /\ e <= M.
Proof.
  induction bs as [|b bs IH]; intros start n spans n'; cbn [mk_spans].
  - intros [= <- <-] _. split; [lia|intros t st e []].
  - destruct (mk_spans bs b (n + 1)) as [rest k] eqn:E. intros [= <- <-] HM.
    destruct (IH b (n + 1) rest k E) as [H1 H2]; [intros x Hx; apply HM; right; exact Hx|].
    split; [lia|]. intros t st e [Hin|Hin].
    + inversion Hin; subst. split; [lia|]. split; apply HM; [left; reflexivity|right; left; reflexivity].
    + destruct (H2 t st e Hin) as (A & B & C). split; [lia|auto].
Qed.

Lemma boundaries_bound ts x : forallb span_fits ts = true -> In x (boundaries_of ts) -> x <= usize_max.
Proof.
  intros H Hx. unfold boundaries_of in Hx. apply in_flat_map in Hx as (s & Hs & Hx). rewrite forallb_forall in H.
  specialize (H s Hs). unfold span_fits in H. apply N.leb_le in H. destruct Hx as [<-|[<-|[]]]; lia.
Qed.

Lemma te_ok_packed_inv n ts b : te_ok n (Packed ts b) = true ->
  forallb span_fits ts = true /\ forall s, In s ts -> s_typ s < n.
Proof.
  unfold te_ok. intros H. apply andb_prop in H as [H1 H2]. split; [exact H1|]. unfold te_closed in H2. cbn [te_vars] in H2.
  rewrite forallb_forall in H2. intros s Hs. apply N.ltb_lt. apply H2. apply in_map. exact Hs.
Qed.

Lemma te_ok_packed_intro n ts b : (forall s, In s ts -> s_off s + s_sz s <= usize_max /\ s_typ s < n) -> te_ok n (Packed ts b) = true.
Proof.
  intros H. unfold te_ok, te_bounded, te_closed. cbn [te_vars]. apply andb_true_intro. split.
  - apply forallb_forall. intros s Hs. unfold span_fits. apply N.leb_le. exact (proj1 (H s Hs)).
  - apply forallb_forall. intros v Hv. apply in_map_iff in Hv as (s & <- & Hs). apply N.ltb_lt. exact (proj2 (H s Hs)).
Qed.

Lemma mpp_ok tl sl tr sr n : te_ok n (Packed tl sl) = true -> te_ok n (Packed tr sr) = true ->
  okres n (merge_packed_packed tl sl tr sr n).
Proof.
  intros Hl Hr. unfold merge_packed_packed.
  destruct tl as [|t1 tl']; [apply ok_expression; exact Hr|]. destruct tr as [|t2 tr']; [apply ok_expression; exact Hl|].
  set (tl := t1 :: tl') in *. set (tr := t2 :: tr') in *.
  destruct (existsb span_overflows (tl ++ tr)); [exact I|].
  destruct (sortN (uniq (boundaries_of tl ++ boundaries_of tr))) as [|b0 rest] eqn:Es; [exact I|].
  destruct (te_ok_packed_inv n tl sl Hl) as [Bl Cl]. destruct (te_ok_packed_inv n tr sr Hr) as [Br Cr].
  assert (HM : forall x, In x (b0 :: rest) -> x <= usize_max).
  { intros x Hx. rewrite <- Es in Hx. apply (Permutation_in _ (sortN_perm _)) in Hx. apply (proj1 (uniq_in _ _)) in Hx.
    apply in_app_or in Hx as [Hx|Hx]; [exact (boundaries_bound tl x Bl Hx)|exact (boundaries_bound tr x Br Hx)]. }
  destruct (mk_spans rest b0 n) as [spans n'] eqn:Em.
  destruct (mk_spans_props usize_max rest b0 n spans n' Em HM) as [Hn Hsp].
  assert (HJ : forall input, Forall (fun j : tyvar * te => te_ok n' (snd j) = true) (snd (process_spans spans input))).
  { intros input. apply (process_spans_Q (fun e => te_ok n' e = true)). intros s corr Hc. apply te_ok_packed_intro.
    intros s' Hs'. apply in_map_iff in Hs' as ([[t st] e] & <- & Hin). cbn [s_off s_sz s_typ].
    destruct (Hsp t st e (Hc _ Hin)) as (A & B & C). split; lia. }
  pose proof (HJ tl) as J1. pose proof (HJ tr) as J2.
  destruct (process_spans spans tl) as [e1 j1]. destruct (process_spans spans tr) as [e2 j2]. cbn [snd] in J1, J2.
  cbn [okres expr judg Merge.next]. split; [exact Hn|]. split.
  - apply te_ok_packed_intro. intros s' Hs'. apply in_map_iff in Hs' as ([[t st] e] & <- & Hin). cbn [s_off s_sz s_typ].
    destruct (Hsp t st e Hin) as (A & B & C). split; lia.
  - apply Forall_app. split; assumption.
Qed.

Lemma width_merge_ok n wl wr w ul ur u : width_merge wl wr = Some w ->
  te_ok n (Word wl ul) = true -> te_ok n (Word wr ur) = true -> te_ok n (Word w u) = true.
Proof.
  unfold width_merge. destruct wl as [a|], wr as [b|]; try (destruct (a =? b)); intros E; inversion E; subst; intros Ha Hb;
    first [exact Ha | exact Hb | reflexivity].
Qed.

Theorem merge_ok a b p n : te_ok n a = true -> te_ok n b = true -> okres n (merge a b p n).
Proof.
  intros Ha Hb. unfold merge, merge_body. destruct (te_eqb a b); [apply ok_expression, Ha|].
  destruct a, b; simpl; try exact I;
    try (apply ok_expression; first [reflexivity | exact Ha | exact Hb]);
    try apply mpa_ok; try (apply mpw_ok; assumption); try (apply mpp_ok; assumption);
    case_ifs; try (apply ok_expression; first [reflexivity | exact Ha | exact Hb]);
    try apply mpa_ok; try (apply mpw_ok; assumption); try (apply mpp_ok; assumption).
  all: try (cbn [okres m_equalities expr judg Merge.next]; split; [lia|]; split; [first [exact Ha | exact Hb]|constructor]).
  all: try (destruct (width_merge _ _) as [w0|] eqn:Ew; [destruct (wuse_merge _ _)|]; apply ok_expression; try reflexivity;
            eapply width_merge_ok; eassumption).
Qed.

(* ================================================================================================ 2. merge is safe *)
Definition Pn (n : N) (e : te) : Prop := ne e /\ te_ok n e = true.

Lemma Pn_mono n n' e : n <= n' -> Pn n e -> Pn n' e.
Proof. intros Hn [H1 H2]. split; [exact H1|exact (te_ok_mono n n' e Hn H2)]. Qed.

Lemma span_fits_no_overflow ts : forallb span_fits ts = true -> existsb span_overflows ts = false.
Proof.
  intros H. destruct (existsb span_overflows ts) eqn:E; [|reflexivity]. exfalso. apply existsb_exists in E as (s & Hs & Ho).
  rewrite forallb_forall in H. specialize (H s Hs). unfold span_fits in H. unfold span_overflows in Ho.
  apply N.leb_le in H. apply N.ltb_lt in Ho. lia.
Qed.

Theorem merge_safe a b p n m s : Pn n a -> Pn n b -> merge a b p m <> Panic s.
Proof.
  intros [Na Ha] [Nb Hb] E. destruct (merge_panic_cases_proof _ _ _ _ _ E) as [[_ H]|[[_ H]|[_ H]]];
    [unfold ne in Na; congruence|unfold ne in Nb; congruence|].
  unfold packed_overflow in H. destruct a; try discriminate. destruct b; try discriminate.
  destruct (te_ok_packed_inv _ _ _ Ha) as [Ba _]. destruct (te_ok_packed_inv _ _ _ Hb) as [Bb _].
  rewrite existsb_app, (span_fits_no_overflow _ Ba), (span_fits_no_overflow _ Bb) in H. discriminate.
Qed.

Theorem merge_closedN a b p n m : Pn n a -> Pn n b -> merge a b p n = Ok m ->
  n <= Merge.next m /\ Pn (Merge.next m) (expr m) /\ Forall (fun j => Pn (Merge.next m) (snd j)) (judg m).
Proof.
  intros [Na Ha] [Nb Hb] E. pose proof (merge_ok a b p n Ha Hb) as H. pose proof (merge_no_equal a b p n Na Nb) as H'.
  rewrite E in H, H'. cbn [okres noeq_ok] in H, H'. destruct H as (H1 & H2 & H3). destruct H' as (H4 & H5).
  split; [exact H1|]. split; [split; assumption|]. rewrite Forall_forall in *. intros j Hj. split; [apply H5, Hj|apply H3, Hj].
Qed.

(* ================================================================================================ 3. unify *)
Section CounterPred.
  Variable P : N -> te -> Prop.
  Hypothesis Pmono : forall n n' e, n <= n' -> P n e -> P n' e.
  Hypothesis Hmc : forall a b p n m, P n a -> P n b -> merge a b p n = Ok m ->
    n <= Merge.next m /\ P (Merge.next m) (expr m) /\ Forall (fun j => P (Merge.next m) (snd j)) (judg m).
  Hypothesis Hsafe : forall a b p n s, P n a -> P n b -> merge a b p n <> Panic s.

  Definition judgP (n : N) (acc : racc) : Prop := Forall (fun j : tyvar * te => P n (snd j)) (r_judg acc).

  Lemma Forall_mono n n' (l : list te) : n <= n' -> Forall (P n) l -> Forall (P n') l.
  Proof. intros Hn H. eapply Forall_impl; [|exact H]. intros e. apply Pmono. exact Hn. Qed.
  Lemma judgP_mono n n' acc : n <= n' -> judgP n acc -> judgP n' acc.
  Proof. intros Hn H. unfold judgP in *. eapply Forall_impl; [|exact H]. intros j. apply Pmono. exact Hn. Qed.
  Lemma asp_mono n n' a : n <= n' -> ASP (P n) a -> ASP (P n') a.
  Proof. intros Hn [HA HD]. split; [exact HA|]. intros r e He. eapply Pmono; [exact Hn|]. exact (HD r e He). Qed.

  Lemma fold_class_np rest : forall cur root acc,
    P (r_next acc) cur -> Forall (P (r_next acc)) rest -> judgP (r_next acc) acc ->
    match fold_class cur rest root acc with
    | Ok (c, acc') => r_next acc <= r_next acc' /\ P (r_next acc') c /\ judgP (r_next acc') acc'
    | Err _ => True
    | Panic _ => False
    end.
  Proof.
    induction rest as [|e t IH]; intros cur root acc Hc Hr Hj; cbn [fold_class].
    - split; [lia|]. split; assumption.
    - inversion Hr as [|? ? He Ht]; subst. destruct (merge cur e root (r_next acc)) as [m| |s] eqn:Em.
      + destruct (Hmc _ _ _ _ _ Hc He Em) as (H1 & H2 & H3).
        set (acc1 := mk_racc (r_eqs acc ++ eqs m) (r_judg acc ++ judg m) (r_newv acc ++ newv m) (Merge.next m) true).
        assert (Hj1 : judgP (r_next acc1) acc1).
        { unfold judgP. cbn [r_judg r_next acc1]. apply Forall_app. split; [exact (judgP_mono _ _ acc H1 Hj)|exact H3]. }
        specialize (IH (expr m) root acc1 H2 (Forall_mono _ _ _ H1 Ht) Hj1).
        destruct (fold_class (expr m) t root acc1) as [[c acc']| |]; [|exact I|exact IH].
        destruct IH as (A & B & C). cbn [r_next acc1] in A. split; [lia|]. split; assumption.
      + exact I.
      + exact (Hsafe _ _ _ _ _ Hc He Em).
  Qed.

  Lemma plan_np o rnd : orders_ok o -> forall sets acc,
    (forall root infs, In (root, infs) sets -> Forall (P (r_next acc)) infs) -> judgP (r_next acc) acc ->
    match plan_classes o rnd sets acc with
    | Ok (settled, acc') =>
        r_next acc <= r_next acc' /\ Forall (fun rc : tyvar * te => P (r_next acc') (snd rc)) settled /\ judgP (r_next acc') acc'
    | Err _ => True
    | Panic _ => False
    end.
  Proof.
    intros Ho. induction sets as [|[root infs] t IH]; intros acc Hs Hj; cbn [plan_classes].
    - split; [lia|]. split; [constructor|exact Hj].
    - assert (Ht : forall r i, In (r, i) t -> Forall (P (r_next acc)) i) by (intros r i Hi; apply (Hs r i); right; exact Hi).
      destruct infs as [|i0 infs]; [apply IH; assumption|].
      assert (Hperm : Permutation (o_class o rnd root (i0 :: infs)) (i0 :: infs)) by apply Ho.
      assert (Hall : Forall (P (r_next acc)) (o_class o rnd root (i0 :: infs))).
      { eapply Permutation_Forall; [apply Permutation_sym, Hperm|]. apply (Hs root). left. reflexivity. }
      destruct (o_class o rnd root (i0 :: infs)) as [|cur rest].
      { apply Permutation_nil in Hperm. discriminate. }
      inversion Hall as [|? ? Hc Hr]; subst.
      pose proof (fold_class_np rest cur root acc Hc Hr Hj) as F.
      destruct (fold_class cur rest root acc) as [[c acc1]| |]; cbn [ubind fst snd]; [|exact I|exact F].
      destruct F as (F1 & F2 & F3).
      specialize (IH acc1 (fun r i Hi => Forall_mono _ _ _ F1 (Ht r i Hi)) F3).
      destruct (plan_classes o rnd t acc1) as [[l acc2]| |]; cbn [ubind fst snd]; [|exact I|exact IH].
      destruct IH as (G1 & G2 & G3). split; [lia|]. split; [|exact G3].
      constructor; [cbn [snd]; exact (Pmono _ _ _ G1 F2)|exact G2].
  Qed.

  Lemma round_np o rnd a nxt : orders_ok o -> ASP (P nxt) a ->
    match round a_forest o rnd a nxt with
    | Ok (a', n', _) => nxt <= n' /\ ASP (P n') a'
    | Err _ => True
    | Panic _ => False
    end.
  Proof.
    intros Ho HP. rewrite round_a. pose proof HP as [HA HD].
    destruct (a_sets_view a HA) as (_ & _ & _ & Hl).
    assert (Hj0 : judgP (r_next (acc0 nxt)) (acc0 nxt)) by constructor.
    assert (Hsets : forall root infs, In (root, infs) (snd (a_sets a)) -> Forall (P (r_next (acc0 nxt))) infs).
    { intros root infs Hin. rewrite Hl in Hin. apply in_map_iff in Hin as (k & [= <- <-] & _).
      apply Forall_forall. intros e He. cbn [r_next acc0]. eapply HD, He. }
    pose proof (plan_np o rnd Ho _ _ Hsets Hj0) as Hp.
    destruct (plan_classes o rnd (snd (a_sets a)) (acc0 nxt)) as [[settled acc]| |]; cbn [ubind fst snd]; [|exact I|exact Hp].
    destruct Hp as (H1 & Hs & Hj). cbn [r_next acc0] in H1. split; [exact H1|].
    pose proof (asp_mono _ _ _ H1 HP) as HP'.
    unfold a_apply.
    apply fold_inv.
    { intros b j Hj' Hb. apply asp_add; [|exact Hb].
      assert (Hin : In j (r_judg acc)).
      { eapply dedup_in. eapply Permutation_in; [apply Ho|exact Hj']. }
      unfold judgP in Hj. rewrite Forall_forall in Hj. apply Hj, Hin. }
    apply fold_inv; [intros b q _; apply asp_un|].
    apply fold_inv; [intros b q _; apply asp_ins|].
    apply fold_inv; [|apply asp_sets, HP'].
    intros b rc Hrc Hb. apply asp_set; [|exact Hb]. rewrite Forall_forall in Hs. apply Hs, Hrc.
  Qed.

  Lemma loop_np o fuel : orders_ok o -> forall rnd a nxt, ASP (P nxt) a ->
    match unify_loop a_forest o fuel rnd a nxt with
    | Ok (a', n') => nxt <= n' /\ ASP (P n') a'
    | Err _ => True
    | Panic _ => False
    end.
  Proof.
    intros Ho. induction fuel as [|f IH]; intros rnd a nxt HP; cbn [unify_loop]; [exact I|].
    pose proof (round_np o rnd a nxt Ho HP) as Hr.
    destruct (round a_forest o rnd a nxt) as [[[a1 n1] p1]| |]; cbn [ubind]; [|exact I|exact Hr].
    destruct Hr as [H1 H2]. destruct p1; [|split; assumption].
    specialize (IH (S rnd) a1 n1 H2). destruct (unify_loop a_forest o f (S rnd) a1 n1) as [[a' n']| |]; [|exact I|exact IH].
    destruct IH as [H3 H4]. split; [lia|exact H4].
  Qed.

  Theorem a_unify_np o fuel st : orders_ok o ->
    (forall v e, In e (ts_get st v) -> ne e -> P (ts_next st) e) ->
    match a_unify fuel o st with
    | Ok (a, n) => ts_next st <= n /\ ASP (P n) a
    | Err _ => True
    | Panic _ => False
    end.
  Proof.
    intros Ho Hst. unfold a_unify, unify_gen. rewrite init_forest_a. cbn [ubind].
    apply loop_np; [exact Ho|]. apply asp_init; assumption.
  Qed.
End CounterPred.

Lemma tstate_ok_init st : tstate_ok st = true -> forall v e, In e (ts_get st v) -> ne e -> Pn (ts_next st) e.
Proof. intros H v e He Hne. split; [exact Hne|exact (tstate_ok_get st v e H He)]. Qed.

(* stage boundary infer -> unify -> abi: on a judgement set whose spans and widths fit in `usize` and whose variables are
   allocated, `unify` never panics, and the data of every class it leaves is again of that kind, under the counter it returns *)
Theorem unify_preserves_span_bound_lemma fuel o st : orders_ok o -> tstate_ok st = true ->
  match unify fuel o st with
  | Ok (s, n) => ts_next st <= n /\ exists a, fsim s a /\ ASP (Pn n) a
  | Err _ => True
  | Panic _ => False
  end.
Proof.
  intros Ho Hst.
  pose proof (a_unify_np Pn Pn_mono merge_closedN (fun a b p n s => merge_safe a b p n n s) o fuel st Ho (tstate_ok_init st Hst)) as Ha.
  pose proof (unify_refines fuel o st) as R.
  destruct (unify fuel o st) as [[s n]|e|p]; destruct (a_unify fuel o st) as [[a n2]|e2|p2]; cbn in R; try contradiction; try exact I.
  destruct R as [R1 R2]. cbn [fst snd] in *. subst n2. destruct Ha as [H1 H2]. split; [exact H1|]. exists a. split; assumption.
Qed.

(* ================================================================================================ 4. the class table *)
Lemma in_vars_below n v : In v (vars_below n) <-> v < n.
Proof.
  unfold vars_below. split.
  - intros H. apply in_map_iff in H as (k & <- & Hk). apply in_seq in Hk. lia.
  - intros H. apply in_map_iff. exists (N.to_nat v). split; [lia|]. apply in_seq. lia.
Qed.

(* the environment `abi_type_for` reads after `unify`: every variable below the counter has an expression, and the resolved
   type of such a variable only mentions variables below the counter *)
Theorem final_state_closed_lemma s n a : fsim s a -> ASP (Pn n) a ->
  (forall v, In v (vars_below n) -> has_expr (env_of_forest s n) v = true) /\
  (forall v e, In v (vars_below n) -> Abi.type_of (env_of_forest s n) v = Ok e ->
     forall w, In w (te_vars e) -> In w (vars_below n)).
Proof.
  intros Hs [HA HD]. split.
  - intros v Hv. apply in_vars_below in Hv. cbn [env_of_forest has_expr]. apply N.ltb_lt. exact Hv.
  - intros v e Hv. apply in_vars_below in Hv. unfold Abi.type_of. cbn [env_of_forest ty_data has_expr].
    rewrite (proj2 (N.ltb_lt _ _) Hv).
    destruct (get_data_refines s a v Hs) as (s' & Eg & _). rewrite Eg.
    destruct (fm_get (a_rep iset a v) (a_data a)) as [[|e0 [|e1 l]]|] eqn:Ed; try discriminate.
    + intros [= <-] w [].
    + intros [= <-] w Hw. apply in_vars_below.
      assert (Hin : In e0 (dat a (a_rep iset a v))) by (unfold dat; rewrite Ed; left; reflexivity).
      destruct (HD _ _ Hin) as [_ Hok]. unfold te_ok in Hok. apply andb_prop in Hok as [_ Hc]. unfold te_closed in Hc.
      rewrite forallb_forall in Hc. apply N.ltb_lt. exact (Hc w Hw).
Qed.

(* the layout loop after `unify`, for any list of values whose variables are below the counter *)
Theorem layout_after_unify_no_panic s n a fuel vals layout : fsim s a -> ASP (Pn n) a ->
  (forall x, In x vals -> tv_of x < n) ->
  forall p, build_layout abi_nested_add abi_nested_fit (env_of_forest s n) fuel vals layout <> Panic p.
Proof.
  intros Hs HP Hv. destruct (final_state_closed_lemma s n a Hs HP) as [H1 H2].
  apply (build_layout_no_panic abi_nested_add abi_nested_fit gen_add_total (env_of_forest s n) (vars_below n) H1 H2).
  intros x Hx. apply in_vars_below. exact (Hv x Hx).
Qed.

(* ================================================================================================ restatements *)
(* 1 and 2 without the auxiliary predicate *)
Theorem merge_keeps_span_bound_lemma a b p n m :
  is_equal a = false -> te_ok n a = true -> is_equal b = false -> te_ok n b = true -> merge a b p n = Ok m ->
  n <= Merge.next m /\ te_ok (Merge.next m) (expr m) = true /\ Forall (fun j => te_ok (Merge.next m) (snd j) = true) (judg m).
Proof.
  intros Na Ha Nb Hb E. destruct (merge_closedN a b p n m (conj Na Ha) (conj Nb Hb) E) as (H1 & H2 & H3).
  split; [exact H1|]. split; [exact (proj2 H2)|]. eapply Forall_impl; [|exact H3]. intros j Hj. exact (proj2 Hj).
Qed.

Theorem merge_usize_overflow_unreachable_lemma a b p n m s :
  is_equal a = false -> te_ok n a = true -> is_equal b = false -> te_ok n b = true -> merge a b p m <> Panic s.
Proof. intros Na Ha Nb Hb. exact (merge_safe a b p n m s (conj Na Ha) (conj Nb Hb)). Qed.

(* the bound is what keeps the site unreachable: a span that ends beyond usize::MAX does make `merge` panic *)
Theorem merge_overflow_needs_bound_lemma :
  te_bounded (Packed [mk_span 1 usize_max 8] false) = false /\
  merge (Packed [mk_span 1 usize_max 8] false) (Packed [mk_span 2 0 8] false) 0 3 = Panic site_usize_overflow.
Proof. split; vm_compute; reflexivity. Qed.
